import CrabProofs.Lemmas.DbmIncrPass3

/-!
  `close_over_edge` in immediate form (`closeOverEdgeI`): what the three loops establish together
  (`COEFacts`), and from it the upper bounds of the edges among variables (`COEFacts.var_ub`).
-/
namespace Crab
namespace DbmIncr
open Dbm Zones

variable {n : Nat}

/-- `close_over_edge` with new edges written at once (no `delta`) -/
def closeOverEdgeI (inl : Bool) (vs : List (Fin (n + 1))) (g : Zone n) (ii jj : Fin (n + 1)) : Zone n :=
  match edge g ii jj with
  | none => g
  | some c =>
    let g0 := if inl then closeBounds g ii jj c else g
    let s1 := vs.foldl (p1I inl ii jj c) (g0, [])
    let s2 := vs.foldl (p2I inl ii jj c) (s1.1, [])
    s1.2.foldl (fun g sp => s2.2.foldl (pass3Step inl c sp) g) s2.1

/-- everything the three loops establish about the result `r` (`S1 = src_dec`, `S2 = dest_dec`) -/
structure COEFacts (inl : Bool) (G Tf Tv : Zone n) (ii jj : Fin (n + 1)) (c : Int) (r : Zone n)
    (S1 S2 : List (Fin (n + 1) × Int)) : Prop where
  snd : Snd G Tf Tv r
  bnd : inl = false → ∀ x, edge r 0 x = edge G 0 x ∧ edge r x 0 = edge G x 0
  q1 : ∀ p ∈ S1, Q1 G ii jj p
  q2 : ∀ p ∈ S2, Q2 G ii jj p
  p1 : ∀ se, P1 G ii jj c se (r, S1)
  p2 : ∀ de, P2 G ii jj c de (r, S2)
  p3 : ∀ sp ∈ S1, ∀ dp ∈ S2, P3 c sp dp r
  ubJ1 : ∀ p ∈ S1, W.LE (edge r p.1 jj) (some (p.2 + c))
  ubJ2 : ∀ p ∈ S2, W.LE (edge r ii p.1) (some (p.2 + c))
  ubS1 : inl = true → ∀ p ∈ S1, ∀ y, edge G jj 0 = some y → W.LE (edge r p.1 0) (some (y + (p.2 + c)))
  ubS2 : inl = true → ∀ p ∈ S2, ∀ x, edge G 0 ii = some x → W.LE (edge r 0 p.1) (some (x + (p.2 + c)))
  ub0 : inl = true → ∀ x, edge G 0 ii = some x → W.LE (edge r 0 jj) (some (x + c))
  ub0' : inl = true → ∀ y, edge G jj 0 = some y → W.LE (edge r ii 0) (some (y + c))

variable {inl : Bool} {G Tf Tv : Zone n} {ii jj : Fin (n + 1)} {c : Int}

theorem closeOverEdgeI_facts (hr : Ref Tf Tv) (h0 : Snd G Tf Tv G) (hi : ii ≠ 0) (hj : jj ≠ 0)
    (hij : ii ≠ jj) (hc : edge G ii jj = some c) (vs : List (Fin (n + 1))) (hvs : ∀ v, v ∈ vs) :
    ∃ S1 S2, COEFacts inl G Tf Tv ii jj c (closeOverEdgeI inl vs G ii jj) S1 S2 := by
  unfold closeOverEdgeI
  simp only [hc]
  -- the initial bounds update
  have hTfE : W.LE (edge Tf ii jj) (some c) := h0.edgeF hc
  obtain ⟨g0, hg0, s0, d0, f0, b0, u0, u0'⟩ : ∃ g0 : Zone n,
      g0 = (if inl then closeBounds G ii jj c else G) ∧ Snd G Tf Tv g0 ∧ Dec g0 G ∧
      (∀ x y, ¬ (x = 0 ∧ y = jj) → ¬ (x = ii ∧ y = 0) → edge g0 x y = edge G x y) ∧
      (inl = false → g0 = G) ∧
      (inl = true → ∀ x, edge G 0 ii = some x → W.LE (edge g0 0 jj) (some (x + c))) ∧
      (inl = true → ∀ y, edge G jj 0 = some y → W.LE (edge g0 ii 0) (some (y + c))) := by
    cases inl with
    | false =>
      exact ⟨G, by simp, h0, Dec.refl _, fun _ _ _ _ => rfl, fun _ => rfl,
        (fun e => by cases e), (fun e => by cases e)⟩
    | true =>
      exact ⟨_, by simp, h0.closeBounds hr hi hj hTfE, closeBounds_dec _ _ _ _,
        fun x y a1 a2 => closeBounds_frame _ _ _ _ a1 a2, (fun e => by cases e),
        fun _ x hx => closeBounds_ub0 _ _ hi hx, fun _ y hy => closeBounds_ub1 _ _ hj hy⟩
  rw [← hg0]
  -- first loop
  have i1 : I1 inl G Tf Tv ii jj c (g0, []) := by
    refine ⟨s0, ?_, ?_, ?_, ?_, ?_, ?_, ?_, ?_⟩
    · intro x; exact f0 x ii (fun e => hij e.2) (fun e => hi e.2)
    · intro x; exact f0 jj x (fun e => hj e.1) (fun e => hij e.1.symm)
    · intro x hx; exact f0 ii x (fun e => hi e.1) (fun e => hx e.2)
    · intro p hp; cases hp
    · intro x hx; exact Or.inl (f0 x jj (fun e => hx e.1) (fun e => hj e.2))
    · intro hf x; rw [b0 hf]; exact ⟨rfl, rfl⟩
    · intro p hp; cases hp
    · intro _ p hp; cases hp
  obtain ⟨j1, l1, post1⟩ := p1I_fold hr hi hj hij hc vs (g0, []) i1
  generalize hs1 : vs.foldl (p1I inl ii jj c) (g0, []) = s1 at j1 l1 post1
  -- second loop
  have i2 : I2 inl G Tf Tv ii jj c (s1.1, []) := by
    refine ⟨j1.snd, j1.intoI, j1.outJ, ?_, ?_, j1.bnd, ?_, ?_⟩
    · intro p hp; cases hp
    · intro x hx; exact Or.inl (j1.outI x hx)
    · intro p hp; cases hp
    · intro _ p hp; cases hp
  obtain ⟨j2, l2, post2⟩ := p2I_fold hr hi hj hij hc vs (s1.1, []) i2
  generalize hs2 : vs.foldl (p2I inl ii jj c) (s1.1, []) = s2 at j2 l2 post2
  -- pairwise loop
  have i3 : I3 inl G Tf Tv s2.1 := ⟨j2.snd, j2.bnd⟩
  obtain ⟨j3, l3, post3⟩ := pass3_fold hr hi hj hc s1.2 s2.2 j1.decS j2.decS s2.1 i3
  generalize hr3 : s1.2.foldl (fun g sp => s2.2.foldl (pass3Step inl c sp) g) s2.1 = r at j3 l3 post3
  have d31 : Dec r s1.1 := Dec.trans l3 l2.1
  have d30 : Dec r g0 := Dec.trans d31 l1.1
  refine ⟨s1.2, s2.2, ⟨j3.snd, j3.bnd, j1.decS, j2.decS, ?_, ?_, post3, ?_, ?_, ?_, ?_, ?_, ?_⟩⟩
  · intro se; exact post1 se (hvs se)
  · intro de; exact post2 de (hvs de)
  · intro p hp; exact W.LE_trans (d31 _ _) (j1.ubJ p hp)
  · intro p hp; exact W.LE_trans (l3 _ _) (j2.ubJ p hp)
  · intro ht p hp y hy; exact W.LE_trans (d31 _ _) (j1.ubS ht p hp y hy)
  · intro ht p hp x hx; exact W.LE_trans (l3 _ _) (j2.ubS ht p hp x hx)
  · intro ht x hx; exact W.LE_trans (d30 _ _) (u0 ht x hx)
  · intro ht y hy; exact W.LE_trans (d30 _ _) (u0' ht y hy)

end DbmIncr
end Crab
