import CrabProofs.Lemmas.WtoCheck

/-!
  Term-level composition lemmas for the edge condition of a weak topological ordering
  (used by the proof of `C07.build_wf`).
-/
namespace Crab
namespace Wto

/-- `y` is the head of a cycle of `W` that contains `x` -/
def HeadIn (W : List WtoC) (y x : Nat) : Prop :=
  ∃ body, Sub (.cycle y body) W ∧ x ∈ flattenC (.cycle y body)

/-- the edge `x → y` is allowed inside `W` -/
def EdgeOK (W : List WtoC) (x y : Nat) : Prop := Before x y (flattenL W) ∨ HeadIn W y x

theorem flattenL_append : ∀ (a b : List WtoC), flattenL (a ++ b) = flattenL a ++ flattenL b
  | [], b => by simp [flattenL]
  | c :: cs, b => by simp [flattenL, flattenL_append cs b]

theorem flattenL_singleton (c : WtoC) : flattenL [c] = flattenC c := by simp [flattenL]

theorem Sub.append_left {c : WtoC} {W1 : List WtoC} (W2 : List WtoC) (h : Sub c W1) : Sub c (W2 ++ W1) := by
  cases h with
  | here hm => exact Sub.here (List.mem_append_right _ hm)
  | inside hm hs => exact Sub.inside (List.mem_append_right _ hm) hs

theorem Sub.append_right {c : WtoC} {W2 : List WtoC} (W1 : List WtoC) (h : Sub c W2) : Sub c (W2 ++ W1) := by
  cases h with
  | here hm => exact Sub.here (List.mem_append_left _ hm)
  | inside hm hs => exact Sub.inside (List.mem_append_left _ hm) hs

theorem Before.append_left {x y : Nat} {l : List Nat} (l' : List Nat) (h : Before x y l) : Before x y (l' ++ l) := by
  obtain ⟨l1, l2, l3, rfl⟩ := h
  exact ⟨l' ++ l1, l2, l3, by simp⟩

theorem Before.append_right {x y : Nat} {l : List Nat} (l' : List Nat) (h : Before x y l) : Before x y (l ++ l') := by
  obtain ⟨l1, l2, l3, rfl⟩ := h
  exact ⟨l1, l2, l3 ++ l', by simp⟩

theorem Before.of_mem_append {x y : Nat} {a b : List Nat} (hx : x ∈ a) (hy : y ∈ b) : Before x y (a ++ b) := by
  obtain ⟨a1, a2, rfl⟩ := List.append_of_mem hx
  obtain ⟨b1, b2, rfl⟩ := List.append_of_mem hy
  exact ⟨a1, a2 ++ b1, b2, by simp⟩

theorem EdgeOK.append_left {W1 : List WtoC} {x y : Nat} (W2 : List WtoC) (h : EdgeOK W1 x y) :
    EdgeOK (W2 ++ W1) x y := by
  rcases h with h | ⟨body, hs, hx⟩
  · exact Or.inl (by rw [flattenL_append]; exact h.append_left _)
  · exact Or.inr ⟨body, hs.append_left W2, hx⟩

theorem EdgeOK.append_right {W2 : List WtoC} {x y : Nat} (W1 : List WtoC) (h : EdgeOK W2 x y) :
    EdgeOK (W2 ++ W1) x y := by
  rcases h with h | ⟨body, hs, hx⟩
  · exact Or.inl (by rw [flattenL_append]; exact h.append_right _)
  · exact Or.inr ⟨body, hs.append_right W1, hx⟩

theorem EdgeOK.cross {W1 W2 : List WtoC} {x y : Nat} (hx : x ∈ flattenL W2) (hy : y ∈ flattenL W1) :
    EdgeOK (W2 ++ W1) x y :=
  Or.inl (by rw [flattenL_append]; exact Before.of_mem_append hx hy)

/-- an edge allowed in the body of a cycle is allowed in the cycle -/
theorem EdgeOK.in_cycle {body : List WtoC} {x y : Nat} (r : Nat) (h : EdgeOK body x y) :
    EdgeOK [.cycle r body] x y := by
  rcases h with h | ⟨b, hs, hx⟩
  · left
    rw [flattenL_singleton, flattenC]
    exact h.append_left [r]
  · exact Or.inr ⟨b, Sub.inside (List.mem_singleton.2 rfl) hs, hx⟩

/-- an edge into the head from inside the cycle -/
theorem EdgeOK.to_head {body : List WtoC} {x r : Nat} (hx : x ∈ r :: flattenL body) :
    EdgeOK [.cycle r body] x r :=
  Or.inr ⟨body, Sub.here (List.mem_singleton.2 rfl), by simpa [flattenC] using hx⟩

/-- an edge from the head into the body -/
theorem EdgeOK.from_head {body : List WtoC} {y r : Nat} (hy : y ∈ flattenL body) :
    EdgeOK [.cycle r body] r y := by
  left
  rw [flattenL_singleton, flattenC]
  exact Before.of_mem_append (a := [r]) (List.mem_singleton.2 rfl) hy

end Wto
end Crab
