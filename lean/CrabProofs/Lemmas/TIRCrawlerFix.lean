import CrabProofs.Lemmas.TIRCrawler
import CrabProofs.Lemmas.TIRWfp

/-!
  The fixpoint of the model of the assertion crawler (`crawl`, round robin as in
  `run_bwd_fixpo`, any variant, any control-dependence graph, any block order that covers the
  blocks) is a solution of the data-dependence inequations `isDataSol`.
-/
namespace Crab
namespace TIR

/-! ### association lists -/

theorem lookup_mem {α β : Type} [BEq α] [LawfulBEq α] : ∀ (F : List (α × β)) (k : α) (d : β),
    F.lookup k = some d → (k, d) ∈ F := by
  intro F
  induction F with
  | nil => intro k d h; simp [List.lookup] at h
  | cons p r ih =>
    intro k d h
    obtain ⟨k', d'⟩ := p
    simp only [List.lookup_cons] at h
    by_cases hk : k = k'
    · subst hk
      simp only [beq_self_eq_true, Option.some.injEq] at h
      subst h
      exact List.mem_cons_self
    · have : (k == k') = false := by simpa using hk
      simp only [this] at h
      exact List.mem_cons_of_mem _ (ih k d h)

theorem lookup_filter_key {α β : Type} [BEq α] [LawfulBEq α] (q : α × β → Bool) (k : α) :
    ∀ (F : List (α × β)), (∀ p, p ∈ F → p.1 = k → q p = true) → (F.filter q).lookup k = F.lookup k := by
  intro F
  induction F with
  | nil => intro _; rfl
  | cons p r ih =>
    intro h
    obtain ⟨k', d'⟩ := p
    have ih' := ih (fun p hp => h p (List.mem_cons_of_mem _ hp))
    by_cases hk : k = k'
    · subst hk
      have : q (k, d') = true := h (k, d') List.mem_cons_self rfl
      simp [List.filter_cons, this, List.lookup_cons]
    · have hb : (k == k') = false := by simpa using hk
      simp only [List.filter_cons]
      split
      · simp only [List.lookup_cons, hb]; exact ih'
      · simp only [List.lookup_cons, hb]; exact ih'

theorem lookup_replace_gen {α β : Type} [BEq α] [LawfulBEq α] [DecidableEq α] (b : α) (d : β) :
    ∀ (F : List (α × β)) (a : α),
    (F.map (fun p => if p.1 == b then (b, d) else p)).lookup a =
      if a = b then (F.lookup a).map (fun _ => d) else F.lookup a := by
  intro F
  induction F with
  | nil => intro a; simp [List.lookup]
  | cons p r ih =>
    intro a
    obtain ⟨k, e⟩ := p
    simp only [List.map_cons, List.lookup_cons]
    by_cases hkb : k = b
    · subst hkb
      simp only [beq_self_eq_true, if_true, List.lookup_cons]
      by_cases hak : a = k
      · subst hak; simp
      · have : (a == k) = false := by simpa using hak
        simp only [this, hak, if_false]
        simpa [hak] using ih a
    · have hkb' : (k == b) = false := by simpa using hkb
      simp only [hkb', Bool.false_eq_true, if_false, List.lookup_cons]
      by_cases hak : a = k
      · subst hak
        have : ¬ a = b := hkb
        simp [this]
      · have : (a == k) = false := by simpa using hak
        simp only [this]
        exact ih a

theorem lookup_append_gen {α β : Type} [BEq α] (F G : List (α × β)) (a : α) :
    (F ++ G).lookup a = match F.lookup a with | some d => some d | none => G.lookup a := by
  induction F with
  | nil => simp [List.lookup]
  | cons p r ih =>
    obtain ⟨k, d⟩ := p
    simp only [List.cons_append, List.lookup_cons]
    cases (a == k) <;> simp [ih]

/-! ### `InMap` -/

theorem InMap.lookup_set_self (m : InMap) (l : Label) (f : Facts) : (m.set l f).lookup l = some f := by
  unfold InMap.set
  split
  · rename_i hh
    rw [lookup_replace_gen]
    simp only [if_true]
    cases hl : List.lookup l m with
    | none => rw [hl] at hh; cases hh
    | some e => rfl
  · rename_i hh
    rw [lookup_append_gen]
    cases hl : List.lookup l m with
    | some e => rw [hl] at hh; simp at hh
    | none => simp [List.lookup]

theorem InMap.get_set_self (m : InMap) (l : Label) (f : Facts) : (m.set l f).get l = f := by
  simp [InMap.get, InMap.lookup_set_self]

theorem InMap.get_set_ne (m : InMap) {l l' : Label} (f : Facts) (h : l' ≠ l) : (m.set l f).get l' = m.get l' := by
  unfold InMap.get
  congr 1
  unfold InMap.set
  split
  · rw [lookup_replace_gen]; simp [h]
  · rw [lookup_append_gen]
    cases hl : List.lookup l' m with
    | some e => rfl
    | none =>
      have : (l' == l) = false := by simpa using h
      simp [List.lookup, this]

/-! ### `Facts.join`, `Facts.leq` -/

theorem Facts.lookup_join (a b : Facts) (k : AId) :
    (a.join b).lookup k =
      match a.lookup k with
      | some d => some (d ++ b.get k)
      | none => b.lookup k := by
  unfold Facts.join
  rw [lookup_append_gen]
  have h1 : (a.map (fun p => (p.1, p.2 ++ b.get p.1))).lookup k = (a.lookup k).map (fun d => d ++ b.get k) :=
    lookup_map_val (fun k d => d ++ b.get k) a k
  rw [h1]
  cases hl : a.lookup k with
  | some d => rfl
  | none =>
    simp only [Option.map_none]
    apply lookup_filter_key
    intro p _ hp
    subst hp
    simp [Facts.has, hl]

theorem Facts.get_join_left (a b : Facts) (k : AId) : ∀ y, y ∈ a.get k → y ∈ (a.join b).get k := by
  intro y hy
  simp only [Facts.get, Facts.lookup_join] at hy ⊢
  cases hl : a.lookup k with
  | some d => rw [hl] at hy; simp at hy; simp [hy]
  | none => rw [hl] at hy; simp at hy

theorem Facts.get_join_right (a b : Facts) (k : AId) : ∀ y, y ∈ b.get k → y ∈ (a.join b).get k := by
  intro y hy
  simp only [Facts.get, Facts.lookup_join]
  cases hl : a.lookup k with
  | some d => simp only [Option.getD_some]; exact List.mem_append.mpr (Or.inr hy)
  | none => simpa [Facts.get] using hy

theorem Facts.has_join (a b : Facts) (k : AId) (h : (a.join b).has k = true) : a.has k = true ∨ b.has k = true := by
  simp only [Facts.has, Facts.lookup_join] at h ⊢
  cases hl : a.lookup k with
  | some d => simp
  | none => rw [hl] at h; exact Or.inr h

theorem Facts.leq_get {a b : Facts} (h : a.leq b = true) (k : AId) : ∀ y, y ∈ a.get k → y ∈ b.get k := by
  intro y hy
  simp only [Facts.get] at hy
  cases hl : a.lookup k with
  | none => rw [hl] at hy; simp at hy
  | some d =>
    rw [hl] at hy
    simp only [Option.getD_some] at hy
    have hm := lookup_mem a k d hl
    simp only [Facts.leq, List.all_eq_true, Bool.and_eq_true] at h
    exact VarSet.subset_iff.mp (h (k, d) hm).2 y hy

theorem Facts.leq_has {a b : Facts} (h : a.leq b = true) (k : AId) (hk : a.has k = true) : b.has k = true := by
  simp only [Facts.has] at hk
  cases hl : a.lookup k with
  | none => rw [hl] at hk; cases hk
  | some d =>
    have hm := lookup_mem a k d hl
    simp only [Facts.leq, List.all_eq_true, Bool.and_eq_true] at h
    exact (h (k, d) hm).1

/-! ### `outFacts` -/

theorem foldl_join_get (m : InMap) (a : AId) (y : Var) :
    ∀ (ls : List Label) (acc : Facts),
      (y ∈ acc.get a ∨ ∃ l', l' ∈ ls ∧ y ∈ (m.get l').get a) →
      y ∈ (ls.foldl (fun acc p => acc.join (m.get p)) acc).get a := by
  intro ls
  induction ls with
  | nil =>
    intro acc h
    rcases h with h | ⟨l', hl', _⟩
    · simpa using h
    · cases hl'
  | cons p r ih =>
    intro acc h
    simp only [List.foldl_cons]
    apply ih
    rcases h with h | ⟨l', hl', hy⟩
    · exact Or.inl (Facts.get_join_left _ _ a y h)
    · rcases List.mem_cons.mp hl' with rfl | hl'
      · exact Or.inl (Facts.get_join_right _ _ a y hy)
      · exact Or.inr ⟨l', hl', hy⟩

theorem outFacts_get (P : Prog) (m : InMap) (n l' : Label) (hl : l' ∈ P.succsOf n) (a : AId) :
    ∀ y, y ∈ (m.get l').get a → y ∈ (outFacts P m n).get a := by
  intro y hy
  exact foldl_join_get m a y (P.succsOf n) [] (Or.inr ⟨l', hl, hy⟩)

theorem foldl_join_has (m : InMap) (b : AId) :
    ∀ (ls : List Label) (acc : Facts),
      (ls.foldl (fun acc p => acc.join (m.get p)) acc).has b = true →
      acc.has b = true ∨ ∃ l', (m.get l').has b = true := by
  intro ls
  induction ls with
  | nil => intro acc h; exact Or.inl (by simpa using h)
  | cons p r ih =>
    intro acc h
    simp only [List.foldl_cons] at h
    rcases ih _ h with h | h
    · rcases Facts.has_join _ _ b h with h | h
      · exact Or.inl h
      · exact Or.inr ⟨p, h⟩
    · exact Or.inr h

/-! ### registration -/

theorem xferStmt_reg_sup (v : CrawlVariant) (g : Cdg) (preds : List Label) (l : Label) (k : Nat) (s : Stmt)
    (X : XState) : ∀ b, b ∈ X.reg → b ∈ (xferStmt v g preds l k s X).reg := by
  intro b hb
  cases s with
  | assert c =>
    simp only [xferStmt]
    by_cases hr : X.reg.contains (l, k) = true
    · simp only [hr, if_true]
      cases v.stmtFromOut <;> simpa using hb
    · simp only [hr, Bool.false_eq_true, if_false]
      exact List.mem_cons_of_mem _ hb
  | unreachable => simpa [xferStmt] using hb
  | assume c => simpa [xferStmt] using hb
  | assign x e => simpa [xferStmt] using hb
  | bin op x a b' => simpa [xferStmt] using hb
  | havoc x => simpa [xferStmt] using hb
  | select x c e1 e2 => simpa [xferStmt] using hb

theorem xferFrom_reg_sup (v : CrawlVariant) (g : Cdg) (preds : List Label) (l : Label) :
    ∀ (ss : List Stmt) (k : Nat) (X : XState) (b : AId), b ∈ X.reg → b ∈ (xferFrom v g preds l k ss X).reg := by
  intro ss
  induction ss with
  | nil => intro k X b hb; simpa [xferFrom] using hb
  | cons s r ih =>
    intro k X b hb
    simp only [xferFrom]
    exact xferStmt_reg_sup v g preds l k s _ b (ih (k + 1) X b hb)

/-- every assertion of the block has an identifier afterwards -/
theorem xferFrom_registers (v : CrawlVariant) (g : Cdg) (preds : List Label) (l : Label) :
    ∀ (ss : List Stmt) (k : Nat) (X : XState) (j : Nat) (c : Cst), ss[j]? = some (.assert c) →
      (l, k + j) ∈ (xferFrom v g preds l k ss X).reg := by
  intro ss
  induction ss with
  | nil => intro k X j c h; simp at h
  | cons s r ih =>
    intro k X j c h
    simp only [xferFrom]
    cases j with
    | zero =>
      simp only [List.getElem?_cons_zero, Option.some.injEq] at h
      subst h
      simp only [xferStmt, Nat.add_zero]
      by_cases hr : (xferFrom v g preds l (k + 1) r X).reg.contains (l, k) = true
      · simp only [hr, if_true]
        cases v.stmtFromOut <;> simpa using List.contains_iff_mem.mp hr
      · have hr' : (l, k) ∉ (xferFrom v g preds l (k + 1) r X).reg :=
          fun hm => hr (List.contains_iff_mem.mpr hm)
        simp [hr']
    | succ j =>
      simp only [List.getElem?_cons_succ] at h
      have := ih (k + 1) X j c h
      have hk : k + (j + 1) = k + 1 + j := by omega
      rw [hk]
      exact xferStmt_reg_sup v g preds l k s _ _ this

/-! ### one round -/

/-- the variables that the condition of an assertion needs at the entry of its block -/
def genSet (P : Prog) (ac : AId × Cst) : VarSet := bwdData ((P.stmtsOf ac.1.1).take ac.1.2) ac.2.vars

structure CrawlInv (P : Prog) (m : InMap) (reg : List AId) : Prop where
  keys : ∀ l b, (m.get l).has b = true → b ∈ reg
  gen : ∀ ac, ac ∈ P.asserts → ac.1 ∈ reg → ∀ y, y ∈ genSet P ac → y ∈ (m.get ac.1.1).get ac.1

theorem asserts_stmt {P : Prog} (hnd : P.labels.Nodup) {ac : AId × Cst} (h : ac ∈ P.asserts) :
    (P.stmtsOf ac.1.1)[ac.1.2]? = some (.assert ac.2) := by
  unfold Prog.asserts at h
  obtain ⟨b, hb, hin⟩ := List.mem_flatMap.mp h
  obtain ⟨p, hp, hf⟩ := List.mem_filterMap.mp hin
  obtain ⟨s, k⟩ := p
  have hget := List.mem_zipIdx_iff_getElem?.mp hp
  simp only at hget hf
  cases s with
  | assert c =>
    simp only [Option.some.injEq] at hf
    subst hf
    simp only [Prog.stmtsOf, block?_of_mem hnd hb]
    exact hget
  | assign _ _ => cases hf
  | bin _ _ _ _ => cases hf
  | havoc _ => cases hf
  | assume _ => cases hf
  | select _ _ _ _ => cases hf
  | unreachable => cases hf

theorem asserts_label {P : Prog} {ac : AId × Cst} (h : ac ∈ P.asserts) : ac.1.1 ∈ P.labels := by
  unfold Prog.asserts at h
  obtain ⟨b, hb, hin⟩ := List.mem_flatMap.mp h
  obtain ⟨p, _, hf⟩ := List.mem_filterMap.mp hin
  have : ac.1.1 = b.label := by
    cases hs : p.1 <;> rw [hs] at hf <;> simp at hf
    rw [← hf]
  rw [this]
  exact List.mem_map.mpr ⟨b, hb, rfl⟩

/-- the in-map after one block of a round -/
def stepMap (m : InMap) (n : Label) (F : Facts) : InMap :=
  if F.leq (m.get n) then m else m.set n (F.join (m.get n))

/-- one block of a round: flow through the block, registration, and the invariant -/
theorem crawl_block_inv (v : CrawlVariant) (P : Prog) (g : Cdg) (hnd : P.labels.Nodup) (n : Label)
    (m : InMap) (reg : List AId) (hI : CrawlInv P m reg) :
    (∀ a y, y ∈ bwdData (P.stmtsOf n) ((outFacts P m n).get a) →
        y ∈ (xferFrom v g (P.predsOf n) n 0 (P.stmtsOf n) ⟨outFacts P m n, reg⟩).facts.get a) ∧
    (∀ b, b ∈ reg → b ∈ (xferFrom v g (P.predsOf n) n 0 (P.stmtsOf n) ⟨outFacts P m n, reg⟩).reg) ∧
    (∀ ac, ac ∈ P.asserts → ac.1.1 = n →
        ac.1 ∈ (xferFrom v g (P.predsOf n) n 0 (P.stmtsOf n) ⟨outFacts P m n, reg⟩).reg) ∧
    CrawlInv P (stepMap m n (xferFrom v g (P.predsOf n) n 0 (P.stmtsOf n) ⟨outFacts P m n, reg⟩).facts)
      (xferFrom v g (P.predsOf n) n 0 (P.stmtsOf n) ⟨outFacts P m n, reg⟩).reg := by
  obtain ⟨X, hXdef⟩ : ∃ X, X = xferFrom v g (P.predsOf n) n 0 (P.stmtsOf n) ⟨outFacts P m n, reg⟩ := ⟨_, rfl⟩
  rw [← hXdef]
  have hX0 : (⟨outFacts P m n, reg⟩ : XState).regInv := by
    intro b hb
    rcases foldl_join_has m b (P.succsOf n) [] hb with h | ⟨l', h⟩
    · simp [Facts.has, List.lookup] at h
    · exact hI.keys l' b h
  have hXinv : X.regInv := by rw [hXdef]; exact xferFrom_regInv v g (P.predsOf n) n (P.stmtsOf n) 0 _ hX0
  have hsup : ∀ b, b ∈ reg → b ∈ X.reg := by
    intro b hb
    rw [hXdef]
    exact xferFrom_reg_sup v g (P.predsOf n) n (P.stmtsOf n) 0 ⟨outFacts P m n, reg⟩ b hb
  have hregs : ∀ ac, ac ∈ P.asserts → ac.1.1 = n → ac.1 ∈ X.reg := by
    intro ac hac hn
    have hs := asserts_stmt hnd hac
    rw [hn] at hs
    have := xferFrom_registers v g (P.predsOf n) n (P.stmtsOf n) 0 ⟨outFacts P m n, reg⟩ ac.1.2 ac.2 hs
    simp only [Nat.zero_add] at this
    have he : ac.1 = (n, ac.1.2) := by rw [← hn]
    rw [he, hXdef]; exact this
  -- the generated part of a newly registered assertion
  have hnew : ∀ ac, ac ∈ P.asserts → ac.1 ∈ X.reg → ac.1 ∉ reg →
      ac.1.1 = n ∧ ∀ y, y ∈ genSet P ac → y ∈ X.facts.get ac.1 := by
    intro ac hac hin hnot
    rw [hXdef] at hin
    have hn : ac.1.1 = n := by
      rcases xferFrom_reg_sub v g (P.predsOf n) n (P.stmtsOf n) 0 _ ac.1 hin with h | h
      · exact absurd h hnot
      · exact h.1
    refine ⟨hn, ?_⟩
    intro y hy
    have hs := asserts_stmt hnd hac
    rw [hn] at hs
    have he : ac.1 = (n, 0 + ac.1.2) := by rw [← hn]; simp
    have := VarSet.subset_iff.mp
      (xferFrom_gen v g (P.predsOf n) n (P.stmtsOf n) 0 ⟨outFacts P m n, reg⟩ ac.1.2 ac.2 hX0
        (Or.inl (by rw [← he]; exact hnot)) hs)
    rw [he, hXdef]
    apply this
    simpa [genSet, hn] using hy
  refine ⟨fun a y hy => by rw [hXdef]; exact xferFrom_bwdData v g (P.predsOf n) n (P.stmtsOf n) 0 _ hX0 a y hy, hsup, hregs, ?_⟩
  unfold stepMap
  by_cases hleq : X.facts.leq (m.get n) = true
  · simp only [hleq, if_true]
    refine ⟨fun l b hb => hsup b (hI.keys l b hb), ?_⟩
    intro ac hac hin y hy
    by_cases hold : ac.1 ∈ reg
    · exact hI.gen ac hac hold y hy
    · obtain ⟨hn, hg⟩ := hnew ac hac hin hold
      rw [hn]
      exact Facts.leq_get hleq ac.1 y (hg y hy)
  · simp only [hleq, Bool.false_eq_true, if_false]
    refine ⟨?_, ?_⟩
    · intro l b hb
      by_cases hl : l = n
      · subst hl
        rw [InMap.get_set_self] at hb
        rcases Facts.has_join _ _ b hb with h | h
        · exact hXinv b h
        · exact hsup b (hI.keys l b h)
      · rw [InMap.get_set_ne _ _ hl] at hb
        exact hsup b (hI.keys l b hb)
    · intro ac hac hin y hy
      by_cases hold : ac.1 ∈ reg
      · have := hI.gen ac hac hold y hy
        by_cases hl : ac.1.1 = n
        · rw [hl, InMap.get_set_self]
          rw [hl] at this
          exact Facts.get_join_right _ _ ac.1 y this
        · rw [InMap.get_set_ne _ _ hl]; exact this
      · obtain ⟨hn, hg⟩ := hnew ac hac hin hold
        rw [hn, InMap.get_set_self]
        exact Facts.get_join_left _ _ ac.1 y (hg y hy)

theorem crawlRound_eq (v : CrawlVariant) (P : Prog) (g : Cdg) (n : Label) (rest : List Label) (m : InMap)
    (reg : List AId) (ch : Bool) :
    crawlRound v P g (n :: rest) m reg ch =
      crawlRound v P g rest
        (stepMap m n (xferFrom v g (P.predsOf n) n 0 (P.stmtsOf n) ⟨outFacts P m n, reg⟩).facts)
        (xferFrom v g (P.predsOf n) n 0 (P.stmtsOf n) ⟨outFacts P m n, reg⟩).reg
        (ch || !(xferFrom v g (P.predsOf n) n 0 (P.stmtsOf n) ⟨outFacts P m n, reg⟩).facts.leq (m.get n)) := by
  simp only [crawlRound, stepMap]
  split <;> simp_all

theorem crawlRound_ch_true (v : CrawlVariant) (P : Prog) (g : Cdg) :
    ∀ (ns : List Label) (m : InMap) (reg : List AId), (crawlRound v P g ns m reg true).2.2 = true := by
  intro ns
  induction ns with
  | nil => intro m reg; rfl
  | cons n rest ih =>
    intro m reg
    rw [crawlRound_eq]
    simp only [Bool.true_or]
    exact ih _ _

/-- one round: the invariant is kept; the blocks of the round have all their assertions
    registered; if nothing changed, the in-map is the same and the flow inequation holds for
    every block of the round -/
theorem crawlRound_inv (v : CrawlVariant) (P : Prog) (g : Cdg) (hnd : P.labels.Nodup) :
    ∀ (ns : List Label) (m : InMap) (reg : List AId) (ch : Bool), CrawlInv P m reg →
      CrawlInv P (crawlRound v P g ns m reg ch).1 (crawlRound v P g ns m reg ch).2.1 ∧
      (∀ b, b ∈ reg → b ∈ (crawlRound v P g ns m reg ch).2.1) ∧
      (∀ ac, ac ∈ P.asserts → ac.1.1 ∈ ns → ac.1 ∈ (crawlRound v P g ns m reg ch).2.1) ∧
      ((crawlRound v P g ns m reg ch).2.2 = false → (crawlRound v P g ns m reg ch).1 = m ∧ ∀ n, n ∈ ns → ∀ a y,
          y ∈ bwdData (P.stmtsOf n) ((outFacts P m n).get a) → y ∈ (m.get n).get a) := by
  intro ns
  induction ns with
  | nil =>
    intro m reg ch hI
    unfold crawlRound
    exact ⟨hI, fun b hb => hb, fun ac _ h => (by cases h), fun _ => ⟨rfl, fun n h => (by cases h)⟩⟩
  | cons n rest ih =>
    intro m reg ch hI
    rw [crawlRound_eq]
    obtain ⟨hflow, hsup, hregs, hI'⟩ := crawl_block_inv v P g hnd n m reg hI
    obtain ⟨h1, h2, h3, h4⟩ := ih _ _ (ch || !(xferFrom v g (P.predsOf n) n 0 (P.stmtsOf n) ⟨outFacts P m n, reg⟩).facts.leq (m.get n)) hI'
    refine ⟨h1, fun b hb => h2 b (hsup b hb), ?_, ?_⟩
    · intro ac hac hin
      rcases List.mem_cons.mp hin with hn | hn
      · exact h2 _ (hregs ac hac hn)
      · exact h3 ac hac hn
    · intro hch
      -- nothing changed in this block either
      have hleq : (xferFrom v g (P.predsOf n) n 0 (P.stmtsOf n) ⟨outFacts P m n, reg⟩).facts.leq (m.get n) = true := by
        cases hl : (xferFrom v g (P.predsOf n) n 0 (P.stmtsOf n) ⟨outFacts P m n, reg⟩).facts.leq (m.get n) with
        | true => rfl
        | false =>
          rw [hl] at hch
          simp only [Bool.not_false, Bool.or_true] at hch
          rw [crawlRound_ch_true] at hch
          cases hch
      have hstep : stepMap m n (xferFrom v g (P.predsOf n) n 0 (P.stmtsOf n) ⟨outFacts P m n, reg⟩).facts = m := by
        simp [stepMap, hleq]
      rw [hstep] at h4 hch
      obtain ⟨hm, hfl⟩ := h4 hch
      rw [hstep]
      refine ⟨hm, ?_⟩
      intro n' hn' a y hy
      rcases List.mem_cons.mp hn' with rfl | hn'
      · exact Facts.leq_get hleq a y (hflow a y hy)
      · exact hfl n' hn' a y hy

theorem crawlIter_inv (v : CrawlVariant) (P : Prog) (g : Cdg) (hnd : P.labels.Nodup) (order : List Label) :
    ∀ (fuel : Nat) (m : InMap) (reg : List AId) (M : InMap), CrawlInv P m reg →
      crawlIter v P g order fuel m reg = some M →
      ∃ reg', CrawlInv P M reg' ∧ (∀ ac, ac ∈ P.asserts → ac.1.1 ∈ order → ac.1 ∈ reg') ∧
        ∀ n, n ∈ order → ∀ a y, y ∈ bwdData (P.stmtsOf n) ((outFacts P M n).get a) → y ∈ (M.get n).get a := by
  intro fuel
  induction fuel with
  | zero => intro m reg M _ h; simp [crawlIter] at h
  | succ f ih =>
    intro m reg M hI h
    simp only [crawlIter] at h
    obtain ⟨h1, _, h3, h4⟩ := crawlRound_inv v P g hnd order m reg false hI
    cases hr : crawlRound v P g order m reg false with
    | mk m' rest =>
      obtain ⟨reg', ch⟩ := rest
      rw [hr] at h h1 h3 h4
      simp only at h h1 h3 h4
      cases ch with
      | true =>
        simp only [if_true] at h
        exact ih m' reg' M h1 h
      | false =>
        simp only [Bool.false_eq_true, if_false, Option.some.injEq] at h
        subst h
        obtain ⟨hm, hfl⟩ := h4 rfl
        subst hm
        exact ⟨reg', h1, h3, hfl⟩

/-- THE FIXPOINT IS A SOLUTION of the data-dependence inequations -/
theorem crawl_isDataSol (v : CrawlVariant) (P : Prog) (g : Cdg) (order : List Label) (M : InMap)
    (hnd : P.labels.Nodup) (hord : ∀ l, l ∈ P.labels → l ∈ order) (h : crawl v P g order = some M) :
    isDataSol P M.get = true := by
  have hI0 : CrawlInv P [] [] :=
    ⟨fun l b hb => by simp [InMap.get, Facts.has, List.lookup] at hb, fun ac _ h => by cases h⟩
  obtain ⟨reg', hI, hreg, hflow⟩ := crawlIter_inv v P g hnd order (crawlFuel P) [] [] M hI0 h
  simp only [isDataSol, Bool.and_eq_true, List.all_eq_true]
  refine ⟨?_, ?_⟩
  · intro ac hac
    apply VarSet.subset_iff.mpr
    intro y hy
    exact hI.gen ac hac (hreg ac hac (hord _ (asserts_label hac))) y hy
  · intro l hl l' hl' ac _
    apply VarSet.subset_iff.mpr
    intro y hy
    apply hflow l (hord l hl) ac.1 y
    exact bwdData_mono (P.stmtsOf l) (outFacts_get P M l l' hl' ac.1) y hy

end TIR
end Crab
