import CrabModel.Transform.Cdg
import CrabProofs.Lemmas.TIRRemoveSem

/-!
  Graph facts for the control part of C18: the worklist `reachFrom` computes exactly the
  reachable set; post-dominance by avoiding paths (`Avoid`, `PDom`): reflexive, transitive,
  antisymmetric on the blocks that reach the exit, and the post-dominators of a block that
  reaches the exit form a chain; the boolean tests of the model (`avoidB`, `pdomB`,
  `coReachable`) decide these notions on well-formed CFGs.
-/
namespace Crab
namespace TIR

/-! ### `reachFrom` only finds reachable nodes -/

theorem reachFrom_sound (next : Label → List Label) :
    ∀ (fuel : Nat) (work seen : List Label) (s : Label), s ∈ reachFrom next fuel work seen →
      s ∈ seen ∨ ∃ w, w ∈ work ∧ GPath next w s := by
  intro fuel
  induction fuel with
  | zero => intro work seen s h; left; simpa [reachFrom] using h
  | succ f ih =>
    intro work seen s h
    cases work with
    | nil => left; simpa [reachFrom] using h
    | cons l rest =>
      simp only [reachFrom] at h
      split at h
      · rcases ih rest seen s h with h1 | ⟨w, hw, hp⟩
        · exact Or.inl h1
        · exact Or.inr ⟨w, List.mem_cons_of_mem _ hw, hp⟩
      · rcases ih (next l ++ rest) (l :: seen) s h with h1 | ⟨w, hw, hp⟩
        · rcases List.mem_cons.mp h1 with rfl | h1
          · exact Or.inr ⟨s, List.mem_cons_self, GPath.refl _⟩
          · exact Or.inl h1
        · rcases List.mem_append.mp hw with hw | hw
          · exact Or.inr ⟨l, List.mem_cons_self, GPath.step hw hp⟩
          · exact Or.inr ⟨w, List.mem_cons_of_mem _ hw, hp⟩

/-- several start nodes (at most `|U|` of them) -/
theorem reachFrom_complete_list (next : Label → List Label) (U : List Label)
    (hnext : ∀ l, (∀ s, s ∈ next l → s ∈ U) ∧ (next l).length ≤ U.length)
    (start : List Label) (hs : ∀ s, s ∈ start → s ∈ U) (hlen : start.length ≤ U.length)
    {a b : Label} (ha : a ∈ start) (h : GPath next a b) :
    b ∈ reachFrom next ((U.length + 1) * (U.length + 1) + 1) start [] := by
  obtain ⟨_, h2, h3⟩ := reachFrom_spec next U hnext ((U.length + 1) * (U.length + 1) + 1) start []
    List.nodup_nil (by simp) hs (by simp)
    (by
      simp only [List.length_nil, Nat.sub_zero]
      have : (U.length + 1) * (U.length + 1) = U.length * (U.length + 1) + (U.length + 1) := by
        rw [Nat.add_mul]; simp
      omega)
  exact closed_contains h3 h (h2 a ha)

/-- induction on the paths into a fixed node `x` -/
theorem GPath.ind_to {next : Label → List Label} {x : Label} {motive : Label → Prop} (h0 : motive x)
    (hs : ∀ n s, s ∈ next n → GPath next s x → motive s → motive n) : ∀ {n : Label}, GPath next n x → motive n := by
  have : ∀ n c, GPath next n c → c = x → motive n := by
    intro n c h
    induction h with
    | refl a => intro e; rw [e]; exact h0
    | step hm hp ih => intro e; exact hs _ _ hm (e ▸ hp) (ih e)
  intro n h
  exact this n x h rfl

/-! ### avoiding paths and post-dominance -/

/-- some path from `n` to `x` has no node in `S` -/
inductive Avoid (P : Prog) (x : Label) (S : Label → Prop) : Label → Prop
  | here : ¬ S x → Avoid P x S x
  | step {n s : Label} : ¬ S n → s ∈ P.succsOf n → Avoid P x S s → Avoid P x S n

/-- `y` post-dominates `n` (w.r.t. the exit `x`): no path from `n` to `x` avoids `y` -/
def PDom (P : Prog) (x y n : Label) : Prop := ¬ Avoid P x (· = y) n

/-- `n` reaches the exit -/
def CoReach (P : Prog) (x n : Label) : Prop := GPath P.succsOf n x

theorem Avoid.start {P : Prog} {x : Label} {S : Label → Prop} {n : Label} (h : Avoid P x S n) : ¬ S n := by
  cases h with
  | here h => exact h
  | step h _ _ => exact h

theorem Avoid.coReach {P : Prog} {x : Label} {S : Label → Prop} {n : Label} (h : Avoid P x S n) : CoReach P x n := by
  induction h with
  | here _ => exact GPath.refl _
  | step _ hs _ ih => exact GPath.step hs ih

theorem Avoid.mono {P : Prog} {x : Label} {S T : Label → Prop} (hST : ∀ l, T l → S l) {n : Label}
    (h : Avoid P x S n) : Avoid P x T n := by
  induction h with
  | here h => exact Avoid.here (fun ht => h (hST _ ht))
  | step h hs _ ih => exact Avoid.step (fun ht => h (hST _ ht)) hs ih

theorem CoReach.avoid_empty {P : Prog} {x n : Label} (h : CoReach P x n) : Avoid P x (fun _ => False) n :=
  GPath.ind_to (motive := fun n => Avoid P x (fun _ => False) n) (Avoid.here (fun h => h))
    (fun _ _ hs _ ih => Avoid.step (fun h => h) hs ih) h

theorem PDom.refl (P : Prog) (x y : Label) : PDom P x y y := fun h => h.start rfl

/-- a strict post-dominator of `n` post-dominates the successors of `n` -/
theorem PDom.succ {P : Prog} {x y n s : Label} (h : PDom P x y n) (hne : y ≠ n) (hs : s ∈ P.succsOf n) :
    PDom P x y s := fun ha => h (Avoid.step (fun e => hne e.symm) hs ha)

/-- suffix of an avoiding path: a path from `c` that avoids `a` passes through every
    post-dominator `b` of `c`, and goes on from there avoiding `a` -/
theorem Avoid.suffix {P : Prog} {x a b c : Label} (h : Avoid P x (· = a) c) (hb : PDom P x b c) :
    Avoid P x (· = a) b := by
  induction h with
  | here hx =>
    by_cases hbx : x = b
    · subst hbx; exact Avoid.here hx
    · exact absurd (Avoid.here hbx : Avoid P x (· = b) x) hb
  | @step n s hn hs hav ih =>
    by_cases hnb : n = b
    · subst hnb; exact Avoid.step hn hs hav
    · exact ih (PDom.succ hb (fun e => hnb e.symm) hs)

theorem PDom.trans {P : Prog} {x a b c : Label} (h1 : PDom P x a b) (h2 : PDom P x b c) : PDom P x a c :=
  fun hav => h1 (hav.suffix h2)

/-- a post-dominator of a block that reaches the exit lies on the way, and reaches the exit -/
theorem PDom.reach {P : Prog} {x y n : Label} (hco : CoReach P x n) (h : PDom P x y n) :
    GPath P.succsOf n y ∧ CoReach P x y := by
  revert h
  refine GPath.ind_to (motive := fun n => PDom P x y n → GPath P.succsOf n y ∧ CoReach P x y) ?_ ?_ hco
  · intro h
    by_cases hxy : x = y
    · subst hxy; exact ⟨GPath.refl _, GPath.refl _⟩
    · exact absurd (Avoid.here hxy : Avoid P x (· = y) x) h
  · intro n s hs hp ih h
    by_cases hny : n = y
    · subst hny; exact ⟨GPath.refl _, GPath.step hs hp⟩
    · obtain ⟨h1, h2⟩ := ih (PDom.succ h (fun e => hny e.symm) hs)
      exact ⟨GPath.step hs h1, h2⟩

/-- from a block that reaches the exit one can avoid both of two distinct blocks, or one of the
    two can avoid the other -/
theorem avoid_two {P : Prog} {x a b n : Label} (hab : a ≠ b) (hco : CoReach P x n) :
    Avoid P x (fun l => l = a ∨ l = b) n ∨ Avoid P x (· = a) b ∨ Avoid P x (· = b) a := by
  refine GPath.ind_to (motive := fun n => Avoid P x (fun l => l = a ∨ l = b) n ∨ Avoid P x (· = a) b ∨ Avoid P x (· = b) a) ?_ ?_ hco
  · by_cases hxa : x = a
    · subst hxa; exact Or.inr (Or.inr (Avoid.here hab))
    · by_cases hxb : x = b
      · subst hxb; exact Or.inr (Or.inl (Avoid.here (fun e => hab e.symm)))
      · exact Or.inl (Avoid.here (fun h => h.elim hxa hxb))
  · intro n s hs _ ih
    rcases ih with h | h | h
    · by_cases hna : n = a
      · subst hna
        exact Or.inr (Or.inr (Avoid.step hab hs (h.mono (fun l hl => Or.inr hl))))
      · by_cases hnb : n = b
        · subst hnb
          exact Or.inr (Or.inl (Avoid.step (fun e => hab e.symm) hs (h.mono (fun l hl => Or.inl hl))))
        · exact Or.inl (Avoid.step (fun h' => h'.elim hna hnb) hs h)
    · exact Or.inr (Or.inl h)
    · exact Or.inr (Or.inr h)

/-- antisymmetry on the blocks that reach the exit -/
theorem PDom.antisymm {P : Prog} {x a b : Label} (hco : CoReach P x b) (h1 : PDom P x a b) (h2 : PDom P x b a) :
    a = b := by
  apply Classical.byContradiction
  intro hab
  rcases avoid_two hab hco with h | h | h
  · exact h.start (Or.inr rfl)
  · exact h1 h
  · exact h2 h

/-- the post-dominators of a block that reaches the exit form a chain -/
theorem PDom.chain {P : Prog} {x a b n : Label} (hco : CoReach P x n) (ha : PDom P x a n) (hb : PDom P x b n) :
    PDom P x a b ∨ PDom P x b a := by
  apply Classical.byContradiction
  intro hno
  have hab : Avoid P x (· = a) b := Classical.byContradiction (fun h => hno (Or.inl h))
  have hba : Avoid P x (· = b) a := Classical.byContradiction (fun h => hno (Or.inr h))
  have key : ∀ m, CoReach P x m → Avoid P x (· = a) m ∨ Avoid P x (· = b) m := by
    intro m hm
    refine GPath.ind_to (motive := fun m => Avoid P x (· = a) m ∨ Avoid P x (· = b) m) ?_ ?_ hm
    · by_cases hxa : x = a
      · subst hxa
        right
        exact Avoid.here (fun e => hab.start e.symm)
      · exact Or.inl (Avoid.here hxa)
    · intro m s hs _ ih
      rcases ih with h | h
      · by_cases hma : m = a
        · subst hma; exact Or.inr hba
        · exact Or.inl (Avoid.step hma hs h)
      · by_cases hmb : m = b
        · subst hmb; exact Or.inl hab
        · exact Or.inr (Avoid.step hmb hs h)
  rcases key n hco with h | h
  · exact ha h
  · exact hb h

/-- the exit is post-dominated by itself only -/
theorem PDom.of_exit {P : Prog} {x y : Label} (h : PDom P x y x) : y = x := by
  apply Classical.byContradiction
  intro hne
  exact h (Avoid.here (fun e => hne e.symm))

theorem PDom.exit (P : Prog) (x n : Label) : PDom P x x n := by
  intro h
  have : ∀ m, Avoid P x (· = x) m → False := by
    intro m hm
    induction hm with
    | here h => exact h rfl
    | step _ _ _ ih => exact ih
  exact this n h

/-- `Avoid` in terms of paths given as lists of blocks -/
theorem avoid_iff_path (P : Prog) (x : Label) (S : Label → Prop) (n : Label) :
    Avoid P x S n ↔ ∃ π, isPath P (n :: π) = true ∧ (n :: π).getLast? = some x ∧ ∀ m, m ∈ n :: π → ¬ S m := by
  constructor
  · intro h
    induction h with
    | here hx => exact ⟨[], rfl, rfl, by intro m hm; simp at hm; rw [hm]; exact hx⟩
    | @step n s hn hs _ ih =>
      obtain ⟨π, h1, h2, h3⟩ := ih
      refine ⟨s :: π, ?_, ?_, ?_⟩
      · simp only [isPath, Bool.and_eq_true, List.contains_iff_mem]
        exact ⟨hs, h1⟩
      · rw [List.getLast?_cons_cons]; exact h2
      · intro m hm
        rcases List.mem_cons.mp hm with rfl | hm
        · exact hn
        · exact h3 m hm
  · rintro ⟨π, h1, h2, h3⟩
    induction π generalizing n with
    | nil =>
      simp only [List.getLast?_singleton, Option.some.injEq] at h2
      subst h2
      exact Avoid.here (h3 n List.mem_cons_self)
    | cons s r ih =>
      simp only [isPath, Bool.and_eq_true, List.contains_iff_mem] at h1
      rw [List.getLast?_cons_cons] at h2
      exact Avoid.step (h3 n List.mem_cons_self) h1.1
        (ih s h1.2 h2 (fun m hm => h3 m (List.mem_cons_of_mem _ hm)))

end TIR
end Crab
