import CrabProofs.Lemmas.FunctorFlatBoolLat

/-!
Order facts of the model of `flat_boolean_numerical_domain` needed by C04: reflexivity of `<=`,
top above everything, the meet is a lower bound.
-/
set_option linter.unusedSectionVars false
set_option linter.unusedSimpArgs false

namespace Crab
namespace Dom
namespace Fct

variable {V : Type} [DecidableEq V] {K : CSig V}

theorem DSet.leq_refl {α : Type} [DecidableEq α] (a : DSet α) : DSet.leq a a = true := by
  cases a with
  | all => rfl
  | fin l => simp [DSet.leq, List.all_eq_true, List.contains_iff_mem]

theorem DSet.leq_top {α : Type} [DecidableEq α] (a : DSet α) : DSet.leq a (.fin []) = true := by
  cases a <;> simp [DSet.leq]

theorem SEnv.leq_refl {α : Type} [DecidableEq α] (e : SEnv V α) : SEnv.leq e e = true := by
  cases e with
  | bot => rfl
  | env m => simp [SEnv.leq, List.all_eq_true, List.contains_iff_mem]

theorem SEnv.leq_top {α : Type} [DecidableEq α] (e : SEnv V α) : SEnv.leq e SEnv.top = true := by
  cases e <;> simp [SEnv.leq, SEnv.top, AL.keys]

theorem fb_leqRefl : (FB V).LeqRefl := by
  intro e
  cases e with
  | bot => rfl
  | env m =>
    show FEnv.leq (.env m) (.env m) = true
    simp only [FEnv.leq, List.all_eq_true]
    intro k _
    cases AL.get m k <;> simp

theorem fb_leqTop : (FB V).LeqTop := by
  intro e
  cases e <;> simp [FB, FEnv.leq, AL.keys]

theorem fb_topNotBot : (FB V).TopNotBot := rfl
theorem fb_topIsTop : (FB V).TopIsTop := rfl
theorem fb_botIsBot : (FB V).BotIsBot := rfl

theorem fb_meetLower : (FB V).MeetLower := by
  intro a b s h
  cases a with
  | bot => exact h.elim
  | env ma =>
    cases b with
    | bot => exact h.elim
    | env mb =>
      have h' : FEnv.γ (FEnv.meet (.env ma) (.env mb)) s := h
      simp only [FEnv.meet] at h'
      split at h'
      · exact h'.elim
      · rename_i hc
        have key : ∀ x v, FEnv.meetG ma mb x = some v → s.bool x = v := by
          intro x v hx
          apply h' x v
          rw [AL.get_build_of]
          · exact hx
          · intro hne
            unfold FEnv.meetG at hne
            simp only [List.mem_append]
            cases h1 : AL.get ma x with
            | some l => exact Or.inl (AL.mem_keys_of_get h1)
            | none =>
              cases h2 : AL.get mb x with
              | some l => exact Or.inr (AL.mem_keys_of_get h2)
              | none => simp [h1, h2] at hne
        constructor
        · intro x v hx
          exact key x v (by simp [FEnv.meetG, hx])
        · intro x v hx
          cases h1 : AL.get ma x with
          | none => exact key x v (by simp [FEnv.meetG, h1, hx])
          | some w =>
            -- no conflict: the two values agree
            have hnc : FEnv.conflict ma mb x = false := by
              have hk := AL.mem_keys_of_get h1
              cases hcf : FEnv.conflict ma mb x
              · rfl
              · exact absurd (List.any_eq_true.2 ⟨x, hk, hcf⟩) hc
            have : w = v := by
              simp only [FEnv.conflict, h1, hx] at hnc
              simpa using hnc
            subst this
            exact key x w (by simp [FEnv.meetG, h1])

namespace FBN
variable {N : BNDom V K}

theorem leq_refl (hr : N.LeqRefl) (a : FBN N) : leq a a = true := by
  unfold leq
  cases hb : a.isBottom
  · simp only [Bool.false_eq_true, if_false, Bool.and_eq_true]
    exact ⟨⟨⟨Prod2.leq_refl fb_leqRefl hr a.prod, SEnv.leq_refl _⟩, SEnv.leq_refl _⟩, DSet.leq_refl _⟩
  · rfl

theorem leq_of_isBottom {a : FBN N} (h : a.isBottom = true) (b : FBN N) : leq a b = true := by
  simp [leq, h]

theorem isBottom_bottom : (bottom : FBN N).isBottom = true := rfl

theorem prod_top_eq (h2 : N.TopNotBot) :
    (top : FBN N).prod = (Prod2.top : Prod2 (FB V) N.toLDom) := by
  rw [Prod2.top_eq fb_topNotBot h2]; rfl

theorem leq_top (h2 : N.TopNotBot) (l2 : N.LeqTop) (a : FBN N) : leq a top = true := by
  unfold leq
  cases hb : a.isBottom
  · have ht : (top : FBN N).isBottom = false := by
      have h2' : N.isBot N.top = false := h2
      simp [isBottom, top, Prod2.setTop, Prod2.isBottom, h2']
      rfl
    simp only [Bool.false_eq_true, if_false, ht, Bool.and_eq_true]
    refine ⟨⟨⟨?_, SEnv.leq_top _⟩, SEnv.leq_top _⟩, DSet.leq_top _⟩
    rw [prod_top_eq h2]
    exact Prod2.leq_top fb_topNotBot h2 fb_leqTop l2 a.prod
  · rfl

theorem isTop_top (h2 : N.TopIsTop) : (top : FBN N).isTop = true := by
  have h2' : N.isTop N.top = true := h2
  simp [isTop, top, Prod2.setTop, Prod2.isTop, h2', SEnv.isTop, SEnv.top]
  rfl

/-- when both operands mark the same variables, the auxiliary components of `a & b` are stronger
    than those of each operand -/
theorem inv_of_inv_meet {a b : FBN N} {s : CSt V} {p : Prod2 (FB V) N.toLDom} (hs : sameUnch a b = true)
    (h : Inv (⟨p, a.lin.meet b.lin, a.bools.meet b.bools, a.unch.join b.unch⟩ : FBN N) s) :
    Inv a s ∧ Inv b s := by
  obtain ⟨h1, h2, h3, hL, hB⟩ := h
  simp only [SEnv.isBot_meet, Bool.or_eq_false_iff] at h1 h2
  have hs' := hs
  unfold sameUnch at hs'
  simp only [Bool.and_eq_true] at hs'
  have h3' : a.unch.isBot = false ∧ b.unch.isBot = false := by
    simp only [DSet.isBot_join, Bool.and_eq_false_iff] at h3
    rcases h3 with h3 | h3
    · exact ⟨h3, DSet.isBot_of_leq hs'.1 h3⟩
    · exact ⟨DSet.isBot_of_leq hs'.2 h3, h3⟩
  have hu : ∀ c : K.C, (unchanged a.unch c = true ∨ unchanged b.unch c = true) →
      unchanged (a.unch.join b.unch) c = true := by
    intro c hc
    rw [unchanged_iff]
    intro v hv
    rw [DSet.mem_join]
    rcases hc with hc | hc
    · have := (unchanged_iff _ _).1 hc v hv
      exact ⟨this, (mem_iff_of_sameUnch hs v).1 this⟩
    · have := (unchanged_iff _ _).1 hc v hv
      exact ⟨(mem_iff_of_sameUnch hs v).2 this, this⟩
  refine ⟨⟨h1.1, h2.1, h3'.1, ?_, ?_⟩, ⟨h1.2, h2.2, h3'.2, ?_, ?_⟩⟩
  · intro k c hc hun
    exact hL k c (by simp only [SEnv.look_meet, DSet.mem_meet]; exact Or.inl hc) (hu c (Or.inl hun))
  · intro k k' hk
    exact hB k k' (by simp only [SEnv.look_meet, DSet.mem_meet]; exact Or.inl hk)
  · intro k c hc hun
    exact hL k c (by simp only [SEnv.look_meet, DSet.mem_meet]; exact Or.inr hc) (hu c (Or.inr hun))
  · intro k k' hk
    exact hB k k' (by simp only [SEnv.look_meet, DSet.mem_meet]; exact Or.inr hk)

/-- the product component of `a & b` is below both products -/
theorem meet_lower_prod (m2 : N.MeetLower) (t2 : N.TopSound) {a b : FBN N} (ha : a.prod.WF) (hb : b.prod.WF)
    {s : CSt V} (h : γ (meet a b) s) : a.prod.γ s ∧ b.prod.γ s :=
  Prod2.meet_lower fb_meetLower m2 fb_topSound t2 ha hb h.1

theorem meet_lower (m2 : N.MeetLower) (t2 : N.TopSound) {a b : FBN N} (ha : a.prod.WF) (hb : b.prod.WF)
    (hs : sameUnch a b = true) {s : CSt V} (h : γ (meet a b) s) : γ a s ∧ γ b s := by
  have hp := meet_lower_prod m2 t2 ha hb h
  have hi := inv_of_inv_meet hs h.2
  exact ⟨⟨hp.1, hi.1⟩, ⟨hp.2, hi.2⟩⟩

end FBN

end Fct
end Dom
end Crab
