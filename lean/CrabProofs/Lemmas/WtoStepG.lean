import CrabProofs.Lemmas.WtoStepF

/-! Root pop, case "cycle" (the root is in `loop_nodes`), first half: the pop loop and the state in
    which `component` is entered. -/
namespace Crab
namespace Wto

section
variable {g : Graph} {K : Nat → Prop} {st0 : St} {part0 : List WtoC} {v : Nat}
  {p : GF} {gs : List GF} {ln : List Nat} {part : List WtoC} {st : St} {W : List WtoC}

theorem Inv.node_not_above (h : Inv g K st0 part0 v (p :: gs) ln part st W) : p.f.node ∉ p.above := by
  intro hx
  have := sorted_above_gt h.sorted_top hx
  omega

/-- the pop loop removes exactly the segment of the root -/
theorem Inv.popLoop_root (h : Inv g K st0 part0 v (p :: gs) ln part st W)
    {el : Nat} {stack1 : List Nat} (hst : st.stack = el :: stack1) (t : Array Dfn) :
    popLoop p.f.node el stack1 t = some (stk gs ++ st0.stack, resetL p.above t) := by
  apply popLoop_spec
  · rw [← hst, h.stack_eq, stk_cons, GF.seg]; simp [List.append_assoc]
  · exact h.node_not_above

/-- the state in which `component(g, node)` is entered -/
def rootState (st : St) (p : GF) (stack2 : List Nat) : St :=
  { st with dfn := resetL p.above (setDfn st.dfn p.f.node .inf), stack := stack2 }

theorem getDfn_rootState (h : Inv g K st0 part0 v (p :: gs) ln part st W) (hK : ClosedK g K st0)
    (stack2 : List Nat) (x : Nat) :
    getDfn (rootState st p stack2).dfn x =
      if x ∈ p.above then .fin 0 else if x = p.f.node then .inf else getDfn st.dfn x := by
  simp only [rootState]
  have hsz := h.node_lt_size hK
  by_cases hx : x ∈ p.above
  · rw [if_pos hx]
    apply getDfn_resetL_mem _ _ _ hx
    intro y hy
    rw [size_setDfn, h.size_eq]
    exact (hK y (h.stk_K y (mem_stk_of_mem (by simp) (above_sub_seg hy))).1).1
  · rw [if_neg hx, getDfn_resetL_not_mem _ _ _ hx, getDfn_setDfn _ _ _ _ hsz]

/-- the segment above the root is a closed region of free nodes in that state -/
theorem Inv.closed_root (h : Inv g K st0 part0 v (p :: gs) ln part st W) (hK : ClosedK g K st0)
    (hs : p.f.succs = []) (hroot : p.f.min = dn st.dfn p.f.node) (stack2 : List Nat) :
    ClosedK g (fun x => x ∈ p.above) (rootState st p stack2) ∧
    ∀ s ∈ g.succ p.f.node, s ∈ p.above ∨ getDfn (rootState st p stack2).dfn s = .inf := by
  have hcl := h.root_closed hs hroot
  -- a successor of a node of the segment is in `above`, or placed in the new state
  have key : ∀ x ∈ p.seg, ∀ y ∈ g.succ x, y ∈ p.above ∨ getDfn (rootState st p stack2).dfn y = .inf := by
    intro x hx y hy
    by_cases hya : y ∈ p.above
    · exact Or.inl hya
    · right
      rw [getDfn_rootState h hK, if_neg hya]
      by_cases hyn : y = p.f.node
      · rw [if_pos hyn]
      · rw [if_neg hyn]
        rcases hcl x hx y hy with hd | hyseg
        · rcases hd with hd | hd
          · exact h.dfn_W y hd
          · have hyS : y ∉ stk (p :: gs) := by
              intro hyS
              have := (h.stk_K y hyS).2
              rw [hd] at this; cases this
            have hyW : y ∉ flattenL W ∨ y ∈ flattenL W := by
              by_cases hh : y ∈ flattenL W
              · exact Or.inr hh
              · exact Or.inl hh
            rcases hyW with hyW | hyW
            · rw [h.dfn_other y hyW hyS]; exact hd
            · exact h.dfn_W y hyW
        · simp only [GF.seg, List.mem_append, List.mem_singleton] at hyseg
          rcases hyseg with h1 | h1
          · exact absurd h1 hya
          · exact absurd h1 hyn
  refine ⟨?_, fun s hs' => key _ (node_mem_seg p) s hs'⟩
  intro x hx
  refine ⟨?_, Or.inl ?_, fun y hy => key x (above_sub_seg hx) y hy⟩
  · simp only [rootState, size_resetL, size_setDfn]
    rw [h.size_eq]
    exact (hK x (h.stk_K x (mem_stk_of_mem (by simp) (above_sub_seg hx))).1).1
  · rw [getDfn_rootState h hK, if_pos hx]
end

end Wto
end Crab
