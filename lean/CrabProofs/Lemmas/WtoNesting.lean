import CrabProofs.Lemmas.WtoCheck

/-!
  The nesting table built by `nesting_builder` (`nestC` / `nestL`, insert-if-absent into a table)
  equals the first-occurrence search `nestFind`, which in turn computes the heads of the enclosing
  cycles (`Encl`).
-/
namespace Crab
namespace Wto

mutual
/-- nesting of the first occurrence of `v` in pre-order (`cur` = heads already entered) -/
def nestFindC (cur : List Nat) (v : Nat) : WtoC → Option (List Nat)
  | .vertex u => if u = v then some cur else none
  | .cycle h body => if h = v then some cur else nestFindL (cur ++ [h]) v body
def nestFindL (cur : List Nat) (v : Nat) : List WtoC → Option (List Nat)
  | [] => none
  | c :: cs =>
    match nestFindC cur v c with
    | some x => some x
    | none => nestFindL cur v cs
end

theorem lookup_tblInsert (t : List (Nat × List Nat)) (u v : Nat) (cur : List Nat) :
    List.lookup v (tblInsert t u cur) =
      match List.lookup v t with
      | some x => some x
      | none => if u = v then some cur else none := by
  unfold tblInsert
  by_cases huv : u = v
  · subst huv
    cases hl : List.lookup u t with
    | some x => simp [hl]
    | none => simp [List.lookup_append, hl, List.lookup]
  · have hb : (v == u) = false := by simpa using fun h : v = u => huv h.symm
    cases hu : List.lookup u t with
    | some y => cases hl : List.lookup v t <;> simp [huv]
    | none =>
      cases hl : List.lookup v t with
      | some x => simp [List.lookup_append, hl]
      | none => simp [List.lookup_append, hl, List.lookup, hb, huv]

mutual
theorem lookup_nestC (cur : List Nat) (v : Nat) : ∀ (c : WtoC) (t : List (Nat × List Nat)),
    List.lookup v (nestC cur t c) =
      match List.lookup v t with
      | some x => some x
      | none => nestFindC cur v c
  | .vertex u, t => by
    simp only [nestC, nestFindC, lookup_tblInsert]
  | .cycle h body, t => by
    simp only [nestC, nestFindC, lookup_nestL (cur ++ [h]) v body, lookup_tblInsert]
    cases List.lookup v t with
    | some x => rfl
    | none => by_cases hh : h = v <;> simp [hh]
theorem lookup_nestL (cur : List Nat) (v : Nat) : ∀ (l : List WtoC) (t : List (Nat × List Nat)),
    List.lookup v (nestL cur t l) =
      match List.lookup v t with
      | some x => some x
      | none => nestFindL cur v l
  | [], t => by
    simp only [nestL, nestFindL]
    cases List.lookup v t <;> rfl
  | c :: cs, t => by
    simp only [nestL, nestFindL, lookup_nestL cur v cs, lookup_nestC cur v c]
    cases List.lookup v t with
    | some x => rfl
    | none => cases nestFindC cur v c <;> rfl
end

theorem nesting_eq_nestFind (w : List WtoC) (v : Nat) : nesting w v = nestFindL [] v w := by
  simp [nesting, nestingTable, lookup_nestL, List.lookup]

/-! ### `nestFind` and the flattening -/

mutual
theorem nestFindC_none (cur : List Nat) (v : Nat) : ∀ (c : WtoC), nestFindC cur v c = none ↔ v ∉ flattenC c
  | .vertex u => by
    simp only [nestFindC, flattenC, List.mem_singleton]
    by_cases h : u = v
    · simp [h]
    · simp [h]; exact fun h' => h h'.symm
  | .cycle h body => by
    simp only [nestFindC, flattenC, List.mem_cons]
    by_cases hh : h = v
    · simp [hh]
    · have := nestFindL_none (cur ++ [h]) v body
      simp only [hh, if_false, this]
      constructor
      · rintro h1 (h2 | h2)
        · exact hh h2.symm
        · exact h1 h2
      · intro h1 h2
        exact h1 (Or.inr h2)
theorem nestFindL_none (cur : List Nat) (v : Nat) : ∀ (l : List WtoC), nestFindL cur v l = none ↔ v ∉ flattenL l
  | [] => by simp [nestFindL, flattenL]
  | c :: cs => by
    simp only [nestFindL, flattenL, List.mem_append]
    have h1 := nestFindC_none cur v c
    have h2 := nestFindL_none cur v cs
    cases hc : nestFindC cur v c with
    | some x =>
      have : v ∈ flattenC c := by
        apply Classical.byContradiction
        intro hn
        rw [h1.2 hn] at hc
        cases hc
      simp [this]
    | none =>
      have : v ∉ flattenC c := h1.1 hc
      simp [this, h2]
end

/-- in a list without repeated nodes, the search finds `v` in the component that contains it -/
theorem nestFindL_of_mem (cur : List Nat) (v : Nat) {c : WtoC} : ∀ {l : List WtoC},
    (flattenL l).Nodup → c ∈ l → v ∈ flattenC c → nestFindL cur v l = nestFindC cur v c
  | [], _, hm, _ => by cases hm
  | d :: ds, hn, hm, hv => by
    simp only [flattenL, List.nodup_append] at hn
    simp only [nestFindL]
    rcases List.mem_cons.1 hm with rfl | hm
    · cases hc : nestFindC cur v c with
      | some x => rfl
      | none => exact absurd hv ((nestFindC_none cur v c).1 hc)
    · have hvd : v ∉ flattenC d := by
        intro hvd
        exact hn.2.2 v hvd v (mem_flattenL.2 ⟨c, hm, hv⟩) rfl
      rw [(nestFindC_none cur v d).2 hvd]
      exact nestFindL_of_mem cur v hn.2.1 hm hv

theorem mem_flattenL_of_encl {l : List WtoC} {v : Nat} {hs : List Nat} (h : Encl l v hs) : v ∈ flattenL l := by
  induction h with
  | vertex hm => exact mem_flattenL.2 ⟨_, hm, by simp [flattenC]⟩
  | head hm => exact mem_flattenL.2 ⟨_, hm, by simp [flattenC]⟩
  | inner hm _ ih => exact mem_flattenL.2 ⟨_, hm, by simp [flattenC, ih]⟩

/-- the search computes the enclosing heads (when no node is repeated) -/
theorem nestFindL_of_encl {l : List WtoC} {v : Nat} {hs : List Nat} (h : Encl l v hs) :
    ∀ cur, (flattenL l).Nodup → nestFindL cur v l = some (cur ++ hs) := by
  induction h with
  | vertex hm =>
    intro cur hn
    rw [nestFindL_of_mem cur _ hn hm (by simp [flattenC])]
    simp [nestFindC]
  | head hm =>
    intro cur hn
    rw [nestFindL_of_mem cur _ hn hm (by simp [flattenC])]
    simp [nestFindC]
  | @inner l h body v hs hm he ih =>
    intro cur hn
    have hvb := mem_flattenL_of_encl he
    rw [nestFindL_of_mem cur v hn hm (by simp [flattenC, hvb])]
    have hnc := nodup_flattenC_of_mem hn hm
    simp only [flattenC, List.nodup_cons] at hnc
    have hhv : h ≠ v := fun e => hnc.1 (e ▸ hvb)
    simp only [nestFindC, hhv, if_false]
    rw [ih (cur ++ [h]) hnc.2]
    simp

mutual
/-- whatever the search returns is the list of heads enclosing an occurrence of `v` -/
theorem encl_of_nestFindC (v : Nat) : ∀ (c : WtoC) (cur x : List Nat), nestFindC cur v c = some x →
    ∃ hs, x = cur ++ hs ∧ Encl [c] v hs
  | .vertex u, cur, x, h => by
    simp only [nestFindC] at h
    split at h
    · rename_i huv; subst huv
      exact ⟨[], by simpa using (Option.some.inj h).symm, Encl.vertex (by simp)⟩
    · cases h
  | .cycle hd body, cur, x, h => by
    simp only [nestFindC] at h
    split at h
    · rename_i huv; subst huv
      exact ⟨[], by simpa using (Option.some.inj h).symm, Encl.head (body := body) (List.mem_singleton.2 rfl)⟩
    · obtain ⟨hs, hx, he⟩ := encl_of_nestFindL v body (cur ++ [hd]) x h
      exact ⟨hd :: hs, by simp [hx], Encl.inner (List.mem_singleton.2 rfl) he⟩
theorem encl_of_nestFindL (v : Nat) : ∀ (l : List WtoC) (cur x : List Nat), nestFindL cur v l = some x →
    ∃ hs, x = cur ++ hs ∧ Encl l v hs
  | [], cur, x, h => by simp [nestFindL] at h
  | c :: cs, cur, x, h => by
    simp only [nestFindL] at h
    cases hc : nestFindC cur v c with
    | some y =>
      rw [hc] at h
      obtain ⟨hs, hx, he⟩ := encl_of_nestFindC v c cur y hc
      refine ⟨hs, by rw [← Option.some.inj h]; exact hx, ?_⟩
      cases he with
      | vertex hm => exact Encl.vertex (List.mem_cons.2 (Or.inl (List.mem_singleton.1 hm)))
      | head hm => exact Encl.head (List.mem_cons.2 (Or.inl (List.mem_singleton.1 hm)))
      | inner hm hb => exact Encl.inner (List.mem_cons.2 (Or.inl (List.mem_singleton.1 hm))) hb
    | none =>
      rw [hc] at h
      obtain ⟨hs, hx, he⟩ := encl_of_nestFindL v cs cur x h
      refine ⟨hs, hx, ?_⟩
      cases he with
      | vertex hm => exact Encl.vertex (List.mem_cons_of_mem _ hm)
      | head hm => exact Encl.head (List.mem_cons_of_mem _ hm)
      | inner hm hb => exact Encl.inner (List.mem_cons_of_mem _ hm) hb
end

end Wto
end Crab
