import CrabProofs.Lemmas.WIntExtra2

/-!
  More lemmas about `Crab.WInt` (part 3): `ZExt` and `SExt`.
-/
namespace Crab
namespace WInt
open WrapInt

theorem W_inj {w a b c d : Nat} (h : W w a b false = W w c d false) : a = c ∧ b = d := by
  have e3 := congrArg (fun p : WInt => (p.start.n, p.stop.n)) h
  simpa only [Prod.mk.injEq] using e3

/-- an interval that contains every point is top -/
theorem all_mem_top {w : Nat} (h1w : 1 ≤ w) (hw : w ≤ 64) {s e : Nat} (hs : s < 2 ^ w) (he : e < 2 ^ w)
    (h : ∀ v, v < 2 ^ w → mem w v (W w s e false)) : (W w s e false).isTop = true := by
  have hM := two_le_pow h1w
  rw [isTop_W hw hs he]
  simp only [decide_eq_true_eq]
  by_cases h0 : s = 0
  · have := h (2 ^ w - 1) (by omega)
    rw [mem_W hw hs he] at this
    have s1 := D_spec (2 ^ w) s e; have s2 := D_spec (2 ^ w) s (2 ^ w - 1)
    generalize 2 ^ w = M at *
    omega
  · have := h (s - 1) (by omega)
    rw [mem_W hw hs he] at this
    have s1 := D_spec (2 ^ w) s e; have s2 := D_spec (2 ^ w) s (s - 1)
    generalize 2 ^ w = M at *
    omega

/-- a part `[a, b]`, `a ≤ b`, of a proper interval is proper -/
theorem piece_nontop_u {w : Nat} (h1w : 1 ≤ w) (hw : w ≤ 64) {s e a b : Nat} (hs : s < 2 ^ w)
    (he : e < 2 ^ w) (hab : a ≤ b) (hb : b < 2 ^ w)
    (hin : ∀ v, a ≤ v → v ≤ b → mem w v (W w s e false)) (hnt : (W w s e false).isTop = false) :
    (W w a b false).isTop = false := by
  cases ht : (W w a b false).isTop
  · rfl
  · exfalso
    rw [isTop_W hw (by omega) hb] at ht
    simp only [decide_eq_true_eq] at ht
    have s1 := D_spec (2 ^ w) a b
    have : (W w s e false).isTop = true := all_mem_top h1w hw hs he (fun v hv => hin v (by omega) (by omega))
    rw [hnt] at this; cases this

/-- a part `[a, b]`, `a ≤ b` in the signed order, of a proper interval is proper -/
theorem piece_nontop_s {w : Nat} (h1w : 1 ≤ w) (hw : w ≤ 64) {s e a b : Nat} (hs : s < 2 ^ w)
    (he : e < 2 ^ w) (ha : a < 2 ^ w) (hb : b < 2 ^ w) (hab : sg (2 ^ w) a ≤ sg (2 ^ w) b)
    (hin : ∀ v, v < 2 ^ w → sg (2 ^ w) a ≤ sg (2 ^ w) v → sg (2 ^ w) v ≤ sg (2 ^ w) b →
      mem w v (W w s e false)) (hnt : (W w s e false).isTop = false) :
    (W w a b false).isTop = false := by
  cases ht : (W w a b false).isTop
  · rfl
  · exfalso
    rw [isTop_W hw ha hb] at ht
    simp only [decide_eq_true_eq] at ht
    have hM := pow_succ_pred h1w
    have s1 := D_spec (2 ^ w) a b
    have g1 := sg_spec (2 ^ w) a; have g2 := sg_spec (2 ^ w) b
    have : (W w s e false).isTop = true := all_mem_top h1w hw hs he (fun v hv => by
      have g3 := sg_spec (2 ^ w) v
      exact hin v hv (by omega) (by omega))
    rw [hnt] at this; cases this

/-! ### the loop of `ZExt` / `SExt` -/

/-- the body of the loops of `ZExt` (`ext = wrapint::zext`) and `SExt` (`ext = wrapint::sext`) -/
def extBody (ext : WrapInt → Nat → Option WrapInt) (k : Nat) (p res : WInt) : Option (ForInStep WInt) :=
  if (p.isBottom || p.isTop) = true then pure (ForInStep.yield res)
  else do
    let a ← ext p.start k
    let b ← ext p.stop k
    pure (ForInStep.yield (res.join (mk2 a b)))

theorem zext_unfold {x : WInt} {k : Nat} (hnt : x.isTop = false) :
    x.zext k = (x.unsignedSplit?).bind (fun parts => forIn parts bottom (extBody WrapInt.zext k)) := by
  unfold zext
  simp only [hnt, Bool.false_eq_true, if_false]
  cases h : x.unsignedSplit? with
  | none => rfl
  | some parts =>
    simp only [Option.bind_eq_bind, Option.bind_some, bind_pure]
    rfl

theorem sext_unfold {x : WInt} {k : Nat} (hnt : x.isTop = false) :
    x.sext k = (x.signedSplit?).bind (fun parts => forIn parts bottom (extBody WrapInt.sext k)) := by
  unfold sext
  simp only [hnt, Bool.false_eq_true, if_false]
  cases h : x.signedSplit? with
  | none => rfl
  | some parts =>
    simp only [Option.bind_eq_bind, Option.bind_some, bind_pure]
    rfl

/-- one step of the loop on a proper piece whose end points are extended to `a'`, `b'` -/
theorem extBody_step {ext : WrapInt → Nat → Option WrapInt} {k w w' a b a' b' : Nat} (hw' : w' ≤ 64)
    (hnt : (W w a b false).isTop = false)
    (ea : ext ⟨w, a⟩ k = some ⟨w', a'⟩) (eb : ext ⟨w, b⟩ k = some ⟨w', b'⟩)
    (ha' : a' < 2 ^ w') (hb' : b' < 2 ^ w') {r0 : WInt} {s : ForInStep WInt} (hg : Good w' r0)
    (h : extBody ext k (W w a b false) r0 = some s) :
    ∃ r', s = ForInStep.yield r' ∧ Good w' r' ∧ LeW w' r0 r' ∧ LeW w' (W w' a' b' false) r' := by
  unfold extBody at h
  simp only [hnt, Bool.or_self, Bool.false_eq_true, if_false, ea, eb, Option.bind_eq_bind,
    Option.bind_some] at h
  injection h with h
  have hq : Shape w' (W w' a' b' false) := shape_W ha' hb'
  exact ⟨_, h.symm, join_good hg hq, LeW_join_left hw' hg hq, LeW_join_right hw' hg hq⟩

/-! ### `ZExt` -/

theorem wzext_val {w k c : Nat} (h1w : 1 ≤ w) (hk : w + k ≤ 64) (hc : c < 2 ^ w) :
    WrapInt.zext ⟨w, c⟩ k = some ⟨w + k, c⟩ := by
  have := zext_ofBV h1w (BitVec.ofNatLT c hc) k hk
  simp only [ofBV, BitVec.toNat_ofNatLT, BitVec.toNat_setWidth] at this
  rw [this]
  congr 2
  exact Nat.mod_eq_of_lt (Nat.lt_of_lt_of_le hc (Nat.pow_le_pow_right (by decide) (by omega)))

theorem wzext_none {w k c : Nat} (hk : 64 < w + k) : WrapInt.zext ⟨w, c⟩ k = none := by
  simp [WrapInt.zext, hk]

theorem zext_W_sound {w : Nat} (h1w : 1 ≤ w) (hw : w ≤ 64) {s e k : Nat} (hs : s < 2 ^ w) (he : e < 2 ^ w)
    {r : WInt} (h : (W w s e false).zext k = some r) {v : Nat} (hv : v < 2 ^ w)
    (hm : mem w v (W w s e false)) : mem (w + k) v r := by
  cases ht : (W w s e false).isTop
  · rw [zext_unfold ht] at h
    cases hsp : unsignedSplit? (W w s e false) with
    | none => rw [hsp] at h; cases h
    | some parts =>
      rw [hsp] at h
      simp only [Option.bind_some] at h
      obtain ⟨pieces, cover⟩ := usplit_cover h1w hw hs he hsp
      obtain ⟨a, b, hmem, hav, hvb⟩ := cover v hv hm
      by_cases hk : w + k ≤ 64
      · have hpw : 2 ^ w ≤ 2 ^ (w + k) := Nat.pow_le_pow_right (by decide) (by omega)
        have key := forIn_join_spec (w := w + k) (extBody WrapInt.zext k)
          (fun p r => ∀ a b, p = W w a b false → LeW (w + k) (W (w + k) a b false) r)
          (fun p r r' hq hle a b hp => LeW_trans (hq a b hp) hle) parts bottom r
          (by
            intro p hp r0 st hg hst
            obtain ⟨a, b, rfl, hab, hb, hin⟩ := pieces p hp
            have hnt := piece_nontop_u h1w hw hs he hab hb hin ht
            obtain ⟨r', e1, g, l1, l2⟩ := extBody_step hk hnt (wzext_val h1w hk (by omega))
              (wzext_val h1w hk hb) (by omega) (by omega) hg hst
            refine ⟨r', e1, g, l1, ?_⟩
            intro a' b' hp'
            have e3 := congrArg (fun p : WInt => (p.start.n, p.stop.n)) hp'
            simp only [Prod.mk.injEq] at e3
            obtain ⟨rfl, rfl⟩ := e3
            exact l2)
          (good_bottom _) h
        obtain ⟨_, _, each⟩ := key
        obtain ⟨_, _, _, hab, hb, _⟩ := pieces _ hmem
        have e3 := congrArg (fun p : WInt => (p.start.n, p.stop.n)) (by assumption : W w a b false = _)
        simp only [Prod.mk.injEq] at e3
        obtain ⟨rfl, rfl⟩ := e3
        apply each _ hmem a b rfl v (by omega)
        exact (mem_ord_iff hk hab (by omega) (by omega)).mpr ⟨hav, hvb⟩
      · -- the extension of the end points raises CRAB_ERROR
        exfalso
        obtain ⟨p1, rest, rfl⟩ : ∃ p1 rest, parts = p1 :: rest := by
          cases parts with
          | nil => cases hmem
          | cons p1 rest => exact ⟨p1, rest, rfl⟩
        obtain ⟨a1, b1, rfl, hab1, hb1, hin1⟩ := pieces p1 (List.mem_cons_self ..)
        have hnt1 := piece_nontop_u h1w hw hs he hab1 hb1 hin1 ht
        rw [List.forIn_cons] at h
        simp [extBody, hnt1, wzext_none (by omega : 64 < w + k)] at h
  · rw [show (W w s e false).zext k = some (W w s e false) by simp [zext, ht]] at h
    injection h with h; subst h
    exact mem_of_isTop ht

theorem zext_sound {w : Nat} (h1w : 1 ≤ w) (hw : w ≤ 64) {x r : WInt} {k : Nat} (hx : Shape w x)
    (h : x.zext k = some r) {v : Nat} (hv : v < 2 ^ w) (hm : mem w v x) : mem (w + k) v r := by
  obtain ⟨s, e, hs, he, rfl⟩ := shape_cases hx hm.1
  exact zext_W_sound h1w hw hs he h hv hm

/-! ### `SExt` -/

/-- the sign extension of a point of the circle of `2^w` points to `w + k` bits -/
def sextN (w k c : Nat) : Nat := if 2 ^ (w - 1) ≤ c then c + (2 ^ (w + k) - 2 ^ w) else c

theorem sextN_lt {w k c : Nat} (hc : c < 2 ^ w) : sextN w k c < 2 ^ (w + k) := by
  have hpw : 2 ^ w ≤ 2 ^ (w + k) := Nat.pow_le_pow_right (by decide) (by omega)
  unfold sextN; split <;> omega

theorem sg_sextN {w k c : Nat} (h1w : 1 ≤ w) (_hc : c < 2 ^ w) :
    sg (2 ^ (w + k)) (sextN w k c) = sg (2 ^ w) c := by
  have hpw : 2 ^ w ≤ 2 ^ (w + k) := Nat.pow_le_pow_right (by decide) (by omega)
  have hM := pow_succ_pred h1w
  have g1 := sg_spec (2 ^ w) c
  unfold sextN
  by_cases hm : 2 ^ (w - 1) ≤ c
  · rw [if_pos hm]
    have g2 := sg_spec (2 ^ (w + k)) (c + (2 ^ (w + k) - 2 ^ w))
    omega
  · rw [if_neg hm]
    have g2 := sg_spec (2 ^ (w + k)) c
    omega

theorem wsext_val {w k c : Nat} (h1w : 1 ≤ w) (hk : w + k ≤ 64) (hc : c < 2 ^ w) :
    WrapInt.sext ⟨w, c⟩ k = some ⟨w + k, sextN w k c⟩ := by
  have := sext_ofBV h1w (BitVec.ofNatLT c hc) k hk
  simp only [ofBV, BitVec.toNat_ofNatLT] at this
  rw [this]
  congr 2
  rw [BitVec.toNat_signExtend, BitVec.msb_eq_decide, BitVec.toNat_setWidth, BitVec.toNat_ofNatLT]
  have : c % 2 ^ (w + k) = c :=
    Nat.mod_eq_of_lt (Nat.lt_of_lt_of_le hc (Nat.pow_le_pow_right (by decide) (by omega)))
  rw [this]
  unfold sextN
  by_cases hm : 2 ^ (w - 1) ≤ c <;> simp [hm]

theorem wsext_none {w k c : Nat} (hk : 64 < w + k) : WrapInt.sext ⟨w, c⟩ k = none := by
  simp [WrapInt.sext, hk]

theorem sext_W_sound {w : Nat} (h1w : 1 ≤ w) (hw : w ≤ 64) {s e k : Nat} (hs : s < 2 ^ w) (he : e < 2 ^ w)
    {r : WInt} (h : (W w s e false).sext k = some r) {v : Nat} (hv : v < 2 ^ w)
    (hm : mem w v (W w s e false)) : mem (w + k) (sextN w k v) r := by
  cases ht : (W w s e false).isTop
  · rw [sext_unfold ht] at h
    cases hsp : signedSplit? (W w s e false) with
    | none => rw [hsp] at h; cases h
    | some parts =>
      rw [hsp] at h
      simp only [Option.bind_some] at h
      obtain ⟨pieces, cover⟩ := ssplit_cover h1w hw hs he hsp
      obtain ⟨a, b, hmem, hav, hvb⟩ := cover v hv hm
      by_cases hk : w + k ≤ 64
      · have key := forIn_join_spec (w := w + k) (extBody WrapInt.sext k)
          (fun p r => ∀ a b, p = W w a b false →
            LeW (w + k) (W (w + k) (sextN w k a) (sextN w k b) false) r)
          (fun p r r' hq hle a b hp => LeW_trans (hq a b hp) hle) parts bottom r
          (by
            intro p hp r0 st hg hst
            obtain ⟨a, b, rfl, ha, hb, hab, hin⟩ := pieces p hp
            have hnt := piece_nontop_s h1w hw hs he ha hb hab hin ht
            obtain ⟨r', e1, g, l1, l2⟩ := extBody_step hk hnt (wsext_val h1w hk ha)
              (wsext_val h1w hk hb) (sextN_lt ha) (sextN_lt hb) hg hst
            refine ⟨r', e1, g, l1, ?_⟩
            intro a' b' hp'
            have e3 := congrArg (fun p : WInt => (p.start.n, p.stop.n)) hp'
            simp only [Prod.mk.injEq] at e3
            obtain ⟨rfl, rfl⟩ := e3
            exact l2)
          (good_bottom _) h
        obtain ⟨_, _, each⟩ := key
        obtain ⟨_, _, heq, ha, hb, hab, _⟩ := pieces _ hmem
        have e3 := congrArg (fun p : WInt => (p.start.n, p.stop.n)) heq
        simp only [Prod.mk.injEq] at e3
        obtain ⟨rfl, rfl⟩ := e3
        apply each _ hmem a b rfl _ (sextN_lt hv)
        rw [mem_sord_iff (by omega) hk (sextN_lt ha) (sextN_lt hb) (sextN_lt hv)
          (by rw [sg_sextN h1w ha, sg_sextN h1w hb]; exact hab)]
        rw [sg_sextN h1w ha, sg_sextN h1w hb, sg_sextN h1w hv]
        exact ⟨hav, hvb⟩
      · exfalso
        obtain ⟨p1, rest, rfl⟩ : ∃ p1 rest, parts = p1 :: rest := by
          cases parts with
          | nil => cases hmem
          | cons p1 rest => exact ⟨p1, rest, rfl⟩
        obtain ⟨a1, b1, rfl, ha1, hb1, hab1, hin1⟩ := pieces p1 (List.mem_cons_self ..)
        have hnt1 := piece_nontop_s h1w hw hs he ha1 hb1 hab1 hin1 ht
        rw [List.forIn_cons] at h
        simp [extBody, hnt1, wsext_none (by omega : 64 < w + k)] at h
  · rw [show (W w s e false).sext k = some (W w s e false) by simp [sext, ht]] at h
    injection h with h; subst h
    exact mem_of_isTop ht

theorem sext_sound {w : Nat} (h1w : 1 ≤ w) (hw : w ≤ 64) {x r : WInt} {k : Nat} (hx : Shape w x)
    (h : x.sext k = some r) {v : Nat} (hv : v < 2 ^ w) (hm : mem w v x) :
    mem (w + k) (sextN w k v) r := by
  obtain ⟨s, e, hs, he, rfl⟩ := shape_cases hx hm.1
  exact sext_W_sound h1w hw hs he h hv hm

/-- `sextN` is the sign extension of bit-vectors -/
theorem sextN_bv {w k : Nat} (a : BitVec w) :
    (a.signExtend (w + k)).toNat = sextN w k a.toNat := by
  rw [BitVec.toNat_signExtend, BitVec.msb_eq_decide, BitVec.toNat_setWidth]
  have : a.toNat % 2 ^ (w + k) = a.toNat :=
    Nat.mod_eq_of_lt (Nat.lt_of_lt_of_le a.isLt (Nat.pow_le_pow_right (by decide) (by omega)))
  rw [this]
  unfold sextN
  by_cases hm : 2 ^ (w - 1) ≤ a.toNat <;> simp [hm]

end WInt
end Crab
