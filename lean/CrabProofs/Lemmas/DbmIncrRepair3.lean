import CrabProofs.Lemmas.DbmIncrRepair2

/-!
  `repair_potential`: one round of the loop keeps the invariant and finalises a vertex
  (`repair_round`); `n + 1` rounds empty the heap (`repairLoop_spec`); the answer
  (`repairPotential_some`, `repairPotential_none`): `some p'` ⇒ `p'` is a solution of the graph,
  `none` ⇒ the graph has no solution.
-/
namespace Crab
namespace DbmIncr
open Dbm Zones

variable {n : Nat}
variable {g : Zone n} {p : Fin (n + 1) → Int} {ii jj : Fin (n + 1)} {d0 : Int}

/-- number of vertices that are not finalised -/
def openCount (p : Fin (n + 1) → Int) (st : RSt n) : Nat :=
  (List.finRange (n + 1)).countP fun v => decide (st.alt v = p v)

theorem repair_round (hpv : ∀ s d k, edge g s d = some k → ¬ (s = ii ∧ d = jj) → 0 ≤ p s + k - p d)
    (vs : List (Fin (n + 1))) (hvs : ∀ v, v ∈ vs) (st : RSt n)
    (h : RInvX g p ii jj d0 (fun _ => False) st) (es : Fin (n + 1))
    (hpick : st.heap es = true ∧ ∀ u, st.heap u = true → st.dists es ≤ st.dists u) :
    RInvX g p ii jj d0 (fun _ => False)
      (vs.foldl (relaxSucc g p es)
        ⟨st.dists, fupd st.alt es (p es + st.dists es), fupd st.heap es false⟩) ∧
    openCount p (vs.foldl (relaxSucc g p es)
        ⟨st.dists, fupd st.alt es (p es + st.dists es), fupd st.heap es false⟩) < openCount p st := by
  obtain ⟨hes_neg, hes_alt⟩ := h.hp es hpick.1
  -- the state after `removeMin`
  have h1 : RIn g p ii jj d0 es ⟨st.dists, fupd st.alt es (p es + st.dists es), fupd st.heap es false⟩ := by
    have e_alt : ∀ v, v ≠ es → fupd st.alt es (p es + st.dists es) v = st.alt v := by
      intro v hv; simp [fupd, hv]
    have e_es : fupd st.alt es (p es + st.dists es) es = p es + st.dists es := by simp [fupd]
    have e_heap : ∀ v, v ≠ es → fupd st.heap es false v = st.heap v := by
      intro v hv; simp [fupd, hv]
    have hes_fin : fupd st.alt es (p es + st.dists es) es ≠ p es := by rw [e_es]; omega
    have hjj : fupd st.alt es (p es + st.dists es) jj ≠ p jj := by
      by_cases hj : jj = es
      · rw [hj]; exact hes_fin
      · rw [e_alt jj hj]
        intro hjp
        have := h.jfirst hjp es (fun e => hj e.symm)
        rw [hpick.1] at this; cases this
    refine ⟨⟨?_, ?_, ?_, ?_, ?_, h.dj, fun hj => absurd hj hjj, h.sound⟩, hjj, hes_fin, ?_⟩
    · intro v hv
      have hve : v ≠ es := by
        intro e; rw [e] at hv; simp [fupd] at hv
      simp only at hv ⊢
      rw [e_heap v hve] at hv
      rw [e_alt v hve]
      exact h.hp v hv
    · intro v hv
      simp only at hv ⊢
      have hve : v ≠ es := fun e => hes_fin (e ▸ hv)
      rw [e_alt v hve] at hv
      rw [e_heap v hve]
      exact h.nf v hv
    · intro v hv
      simp only at hv ⊢
      by_cases hve : v = es
      · subst hve
        exact ⟨e_es, hes_neg, by simp [fupd]⟩
      · rw [e_alt v hve] at hv ⊢
        rw [e_heap v hve]
        exact h.fin v hv
    · intro f v hf hv
      simp only at hf hv ⊢
      have hve : v ≠ es := fun e => hes_fin (e ▸ hv)
      rw [e_alt v hve] at hv
      by_cases hfe : f = es
      · subst hfe
        rcases h.nf v hv with hh | hh
        · exact hpick.2 v hh
        · omega
      · rw [e_alt f hfe] at hf
        exact h.mono f v hf hv
    · intro f d k hf hx hk hne
      simp only at hf ⊢
      rw [e_alt f hx] at hf
      exact h.rel f d k hf (fun hh => hh) hk hne
    · intro f hf
      simp only at hf ⊢
      by_cases hfe : f = es
      · subst hfe; exact Int.le_refl _
      · rw [e_alt f hfe] at hf
        exact h.mono f es hf hes_alt
  -- the successors
  obtain ⟨i2, l2, p2⟩ := foldl_post (relaxSucc g p es) (RIn g p ii jj d0 es) (RLe p)
    (fun ed st' => st'.alt es ≠ p es ∧ RPost g p ii jj es ed st') RLe.refl RLe.trans
    (fun s ed hs => by
      obtain ⟨a, b, c⟩ := relaxSucc_step hpv es s ed hs
      exact ⟨a, b, a.efin, c⟩)
    (fun ed s s' hp hle => ⟨by rw [hle.1]; exact hp.1, RPost_stable es ed s s' hp.1 hp.2 hle⟩)
    vs _ h1
  generalize vs.foldl (relaxSucc g p es)
    ⟨st.dists, fupd st.alt es (p es + st.dists es), fupd st.heap es false⟩ = st2 at i2 l2 p2
  refine ⟨⟨i2.inv.hp, i2.inv.nf, i2.inv.fin, i2.inv.mono, ?_, i2.inv.dj, i2.inv.jfirst, i2.inv.sound⟩, ?_⟩
  · intro f d k hf _ hk hne
    by_cases hfe : f = es
    · subst hfe
      exact (p2 d (hvs d)).2 k hk hne
    · exact i2.inv.rel f d k hf hfe hk hne
  · -- one more vertex is finalised
    unfold openCount
    apply countP_lt_of_imp _ _ _ ?_ es (List.mem_finRange es)
    · simp [hes_alt]
    · have := i2.efin
      simp [this]
    · intro v hv
      simp only [decide_eq_true_eq] at hv ⊢
      rw [l2.1] at hv
      simp only at hv
      by_cases hve : v = es
      · subst hve; exact hes_alt
      · simpa [fupd, hve] using hv

/-- the loop: the invariant is kept and, with enough fuel, the heap is empty at the end -/
theorem repairLoop_spec (hpv : ∀ s d k, edge g s d = some k → ¬ (s = ii ∧ d = jj) → 0 ≤ p s + k - p d)
    (vs : List (Fin (n + 1))) (hvs : ∀ v, v ∈ vs) :
    ∀ (fuel : Nat) (st : RSt n), RInvX g p ii jj d0 (fun _ => False) st → openCount p st ≤ fuel →
      RInvX g p ii jj d0 (fun _ => False) (repairLoop vs g p fuel st) ∧
      ∀ v, (repairLoop vs g p fuel st).heap v = false := by
  intro fuel
  induction fuel with
  | zero =>
    intro st h hc
    show RInvX g p ii jj d0 (fun _ => False) st ∧ ∀ v, st.heap v = false
    refine ⟨h, fun v => ?_⟩
    cases hh : st.heap v with
    | false => rfl
    | true =>
      exfalso
      have := (h.hp v hh).2
      have hpos : 0 < openCount p st := by
        unfold openCount
        exact List.countP_pos_iff.2 ⟨v, List.mem_finRange v, by simp [this]⟩
      omega
  | succ fuel ih =>
    intro st h hc
    unfold repairLoop
    obtain ⟨s1, s2⟩ := pickMin_spec vs hvs st.dists st.heap
    rcases hpk : pickMin vs st.dists st.heap with _ | es
    · exact ⟨h, s1 hpk⟩
    · simp only
      obtain ⟨r1, r2⟩ := repair_round hpv vs hvs st h es (s2 es hpk)
      exact ih _ r1 (by omega)

/-- a potential is valid for the edges of `g`, except possibly `ii → jj` -/
def PotValidExcept (g : Zone n) (p : Fin (n + 1) → Int) (ii jj : Fin (n + 1)) : Prop :=
  ∀ s d k, edge g s d = some k → ¬ (s = ii ∧ d = jj) → 0 ≤ p s + k - p d

theorem sat_iff_pot (g : Zone n) (p : Fin (n + 1) → Int) :
    g.sat p ↔ ∀ s d k, edge g s d = some k → 0 ≤ p s + k - p d := by
  constructor
  · intro h s d k hk; have := h d s k hk; omega
  · intro h i j k hk; have := h j i k hk; omega

/-- `repair_potential`: `return true` leaves a valid potential (a solution of the graph),
    `return false` happens only when the graph has no solution -/
theorem repairPotential_spec (vs : List (Fin (n + 1))) (hvs : ∀ v, v ∈ vs) (g : Zone n)
    (p : Fin (n + 1) → Int) (ii jj : Fin (n + 1)) (w : Int) (hw : edge g ii jj = some w)
    (hpv : PotValidExcept g p ii jj) :
    (∀ p', repairPotential vs g p ii jj = some p' → g.sat p') ∧
    (repairPotential vs g p ii jj = none → ∀ x, ¬ g.sat x) := by
  unfold repairPotential
  simp only [hw]
  by_cases hd0 : 0 ≤ p ii + w - p jj
  · simp only [hd0, if_true]
    refine ⟨fun p' hp' => ?_, fun hh => by cases hh⟩
    cases hp'
    rw [sat_iff_pot]
    intro s d k hk
    by_cases hsd : s = ii ∧ d = jj
    · obtain ⟨rfl, rfl⟩ := hsd
      rw [hw] at hk; cases hk; exact hd0
    · exact hpv s d k hk hsd
  simp only [hd0, if_false]
  -- the start state
  have h0 : RInvX g p ii jj (p ii + w - p jj) (fun _ => False)
      ⟨fun u => if u = jj then p ii + w - p jj else 0, p, fun u => decide (u = jj)⟩ := by
    refine ⟨?_, ?_, ?_, ?_, ?_, by simp, ?_, ?_⟩
    · intro v hv
      simp only [decide_eq_true_eq] at hv
      subst hv
      simp only [if_true]; exact ⟨by omega, trivial⟩
    · intro v _
      by_cases hv : v = jj
      · left; simp [hv]
      · right; simp [hv]
    · intro v hv; exact absurd rfl hv
    · intro f v hf; exact absurd rfl hf
    · intro f d k hf; exact absurd rfl hf
    · intro _ v hv; simp [hv]
    · intro v hv x hx
      by_cases hvj : v = jj
      · subst hvj
        simp only [if_true]
        have := sat_edge hx hw
        omega
      · simp [hvj] at hv
  have hcnt : openCount p
      (⟨fun u => if u = jj then p ii + w - p jj else 0, p, fun u => decide (u = jj)⟩ : RSt n) ≤ n + 1 := by
    unfold openCount
    have := List.countP_le_length (p := fun v : Fin (n + 1) => decide (p v = p v))
      (l := List.finRange (n + 1))
    simpa using this
  obtain ⟨hf, hempty⟩ := repairLoop_spec hpv vs hvs (n + 1) _ h0 hcnt
  generalize repairLoop vs g p (n + 1)
    ⟨fun u => if u = jj then p ii + w - p jj else 0, p, fun u => decide (u = jj)⟩ = st at hf hempty
  by_cases hneg : st.dists ii < 0
  · simp only [hneg, if_true]
    refine ⟨fun p' hp' => (by cases hp'), fun _ x hx => ?_⟩
    have := hf.sound ii hneg x hx
    omega
  · simp only [hneg, if_false]
    refine ⟨fun p' hp' => ?_, fun hh => by cases hh⟩
    cases hp'
    have hall : ∀ v, st.alt v = p v + st.dists v ∧ st.dists v ≤ 0 := by
      intro v
      by_cases hv : st.alt v = p v
      · rcases hf.nf v hv with hh | hh
        · rw [hempty v] at hh; cases hh
        · rw [hv, hh]; exact ⟨by omega, Int.le_refl _⟩
      · obtain ⟨a, b, _⟩ := hf.fin v hv
        exact ⟨a, by omega⟩
    rw [sat_iff_pot]
    intro s d k hk
    obtain ⟨as, ls⟩ := hall s
    obtain ⟨ad, ld⟩ := hall d
    rw [as, ad]
    by_cases hsd : s = ii ∧ d = jj
    · obtain ⟨rfl, rfl⟩ := hsd
      rw [hw] at hk; cases hk
      have hdj := hf.dj
      by_cases hs : st.alt s = p s
      · rcases hf.nf s hs with hh | hh
        · rw [hempty s] at hh; cases hh
        · omega
      · have := (hf.fin s hs).2.1
        omega
    · have hrc := hpv s d k hk hsd
      by_cases hs : st.alt s = p s
      · rcases hf.nf s hs with hh | hh
        · rw [hempty s] at hh; cases hh
        · omega
      · have := hf.rel s d k hs (fun hh => hh) hk hsd
        omega

end DbmIncr
end Crab
