import CrabProofs.Lemmas.DisIntervalWiden

/-! Chain condition of `dis_interval::operator||` (`Crab.Dis.widen`) on normalised values: a
    natural-number measure that strictly decreases on every widening step `x ↦ x ∇ y` with `y ⋢ x`.
    The widening extrapolates the two extreme intervals only; the measure counts the sides on
    which the value is bounded and whether more than one interval is left. -/
namespace Crab
namespace Dis
open Bound

def BoundedBelow (x : Dis) : Prop := ∃ N : Int, ∀ k, mem k x → N ≤ k
def BoundedAbove (x : Dis) : Prop := ∃ N : Int, ∀ k, mem k x → k ≤ N

open Classical in
/-- number of sides on which the value is bounded -/
noncomputable def rank (x : Dis) : Nat :=
  (if BoundedBelow x then 1 else 0) + (if BoundedAbove x then 1 else 0)

/-- 7 for bottom, 0 for top, `1 + 2 * rank + [more than one interval]` for a FINITE value -/
noncomputable def wmeasure (x : Dis) : Nat :=
  match x.st with
  | .bot => 7
  | .top => 0
  | .fin => 1 + 2 * rank x + (if 2 ≤ x.l.length then 1 else 0)

theorem rank_le_two (x : Dis) : rank x ≤ 2 := by
  unfold rank; split <;> split <;> omega

theorem wmeasure_le (x : Dis) : wmeasure x ≤ 7 := by
  have := rank_le_two x
  unfold wmeasure; split <;> (try split) <;> omega

theorem rank_mono {S x : Dis} (hsub : ∀ k, mem k x → mem k S) : rank S ≤ rank x := by
  have h1 : BoundedBelow S → BoundedBelow x := fun ⟨N, h⟩ => ⟨N, fun k hk => h k (hsub k hk)⟩
  have h2 : BoundedAbove S → BoundedAbove x := fun ⟨N, h⟩ => ⟨N, fun k hk => h k (hsub k hk)⟩
  unfold rank
  by_cases a : BoundedBelow S <;> by_cases b : BoundedAbove S <;> simp [a, b, h1, h2] <;>
    (try split) <;> (try split) <;> omega

theorem rank_drop_below {S x : Dis} (hsub : ∀ k, mem k x → mem k S) (hS : ¬ BoundedBelow S)
    (hx : BoundedBelow x) : rank S < rank x := by
  have h2 : BoundedAbove S → BoundedAbove x := fun ⟨N, h⟩ => ⟨N, fun k hk => h k (hsub k hk)⟩
  unfold rank
  by_cases b : BoundedAbove S <;> simp [hS, hx, b, h2] <;> omega

theorem rank_drop_above {S x : Dis} (hsub : ∀ k, mem k x → mem k S) (hS : ¬ BoundedAbove S)
    (hx : BoundedAbove x) : rank S < rank x := by
  have h1 : BoundedBelow S → BoundedBelow x := fun ⟨N, h⟩ => ⟨N, fun k hk => h k (hsub k hk)⟩
  unfold rank
  by_cases a : BoundedBelow S <;> simp [hS, hx, a, h1] <;> omega

theorem not_boundedBelow {S : Dis} {w : Itv} (hw : w.WF) (hl : w.lb = .ninf)
    (hwS : ∀ k, Itv.mem k w → mem k S) : ¬ BoundedBelow S := by
  rintro ⟨N, hN⟩
  obtain ⟨k, hk, hkw⟩ := Itv.unbounded_below hw hl (N - 1)
  have := hN k (hwS k hkw)
  omega

theorem not_boundedAbove {S : Dis} {w : Itv} (hw : w.WF) (hu : w.ub = .pinf)
    (hwS : ∀ k, Itv.mem k w → mem k S) : ¬ BoundedAbove S := by
  rintro ⟨N, hN⟩
  obtain ⟨k, hk, hkw⟩ := Itv.unbounded_above hw hu (N + 1)
  have := hN k (hwS k hkw)
  omega

/-! ### first and last interval of a normalised vector -/

theorem first_lb_le {a : Itv} {as : List Itv} (h : WFList (a :: as)) {i : Itv} (hi : i ∈ a :: as) :
    Bound.le a.lb i.lb = true := by
  rcases List.mem_cons.mp hi with rfl | hi'
  · exact Bound.le_refl _
  · exact (gapOk_facts ((proper_iff a).mp (h.1 a (by simp))).1 ((proper_iff i).mp (h.1 i hi)).1
      ((List.pairwise_cons.mp h.2).1 i hi')).2.2.2.2.1

theorem le_last_ub {l : List Itv} (h : WFList l) (hne : l ≠ []) {i : Itv} (hi : i ∈ l) :
    Bound.le i.ub (l.getLast hne).ub = true := by
  by_cases he : i = l.getLast hne
  · rw [← he]; exact Bound.le_refl _
  · have hsplit := List.dropLast_concat_getLast hne
    have hpw := h.2
    rw [← hsplit, List.pairwise_append] at hpw
    have hip : i ∈ l.dropLast := by
      rw [← hsplit] at hi
      rcases List.mem_append.mp hi with hi | hi
      · exact hi
      · simp at hi; exact absurd hi he
    exact (gapOk_facts ((proper_iff i).mp (h.1 i hi)).1
      ((proper_iff _).mp (h.1 _ (List.getLast_mem hne))).1 (hpw.2.2 i hip _ (by simp))).2.2.2.2.2

theorem boundedBelow_of_first {a : Itv} {as : List Itv} (h : WFList (a :: as)) {l : Int}
    (hl : a.lb = .fin l) : BoundedBelow ⟨.fin, a :: as⟩ := by
  refine ⟨l, ?_⟩
  rintro k ⟨i, hi, hki⟩
  have := Bound.le_trans (first_lb_le h hi) hki.1
  rw [hl] at this
  simpa using this

theorem boundedAbove_of_last {l : List Itv} (h : WFList l) (hne : l ≠ []) {u : Int}
    (hu : (l.getLast hne).ub = .fin u) : BoundedAbove ⟨.fin, l⟩ := by
  refine ⟨u, ?_⟩
  rintro k ⟨i, hi, hki⟩
  have := Bound.le_trans hki.2 (le_last_ub h hne hi)
  rw [hu] at this
  simpa using this

/-- a normalised vector whose members are exactly those of one interval has one interval -/
theorem single_of_convex {v : List Itv} (hv : WFList v) (hne : v ≠ []) {w : Itv}
    (h1 : ∀ k, Itv.mem k w → memL k v) (h2 : ∀ k, memL k v → Itv.mem k w) : v.length = 1 := by
  match v, hv, hne, h1, h2 with
  | [c], _, _, _, _ => rfl
  | c :: d :: ds, hv, _, h1, h2 =>
    exfalso
    have hpc := (proper_iff c).mp (hv.1 c (by simp))
    have hpd := (proper_iff d).mp (hv.1 d (by simp))
    have hg : gapOk c d = true := (List.pairwise_cons.mp hv.2).1 d (by simp)
    obtain ⟨uc, ld, huc, hld, hlt⟩ : ∃ uc ld, c.ub = .fin uc ∧ d.lb = .fin ld ∧ uc + 1 < ld := by
      obtain ⟨cl, cu⟩ := c
      obtain ⟨dl, du⟩ := d
      cases cu <;> cases dl <;> simp_all [gapOk]
    have hcm : Itv.mem uc c := Itv.ub_mem hpc.1 huc
    have hdm : Itv.mem ld d := Itv.lb_mem hpd.1 hld
    have hw1 := h2 uc ⟨c, by simp, hcm⟩
    have hw2 := h2 ld ⟨d, by simp, hdm⟩
    obtain ⟨e, he, hke⟩ := h1 (uc + 1) (itv_convex hw1 hw2 (by omega) (by omega))
    rcases List.mem_cons.mp he with rfl | he'
    · have := hke.2; rw [huc] at this; simp at this; omega
    · have := gapOk_mem ((List.pairwise_cons.mp hv.2).1 e he') hcm hke
      omega

/-! ### shape of the interval widening -/

theorem itv_widen_eq {a b : Itv} (ha : a.isBottom = false) (hb : b.isBottom = false) :
    Itv.widen a b = ⟨if Bound.lt b.lb a.lb then .ninf else a.lb,
                     if Bound.lt a.ub b.ub then .pinf else a.ub⟩ := by
  obtain ⟨al, au⟩ := a
  obtain ⟨bl, bu⟩ := b
  cases al <;> cases au <;> cases bl <;> cases bu <;>
    simp [Itv.widen, Itv.mk', Itv.isBottom, Bound.gt, Bound.lt, Bound.ge] at * <;>
    (try (repeat' split)) <;> simp_all <;> omega

theorem itv_leq_false {b a : Itv} (ha : a.isBottom = false) (h : Itv.leq b a = false) :
    b.isBottom = false ∧ (Bound.lt b.lb a.lb = true ∨ Bound.lt a.ub b.ub = true) := by
  cases hb : b.isBottom
  · simp [Itv.leq, hb, ha] at h
    refine ⟨rfl, ?_⟩
    simp only [Bound.lt, Bound.ge]
    cases h1 : Bound.le a.lb b.lb <;> simp_all
  · simp [Itv.leq, hb] at h

end Dis
end Crab
