import CrabProofs.Lemmas.PatriciaBits

/-! Well-formedness of big-endian patricia trees, `lookup` versus the key list,
    `make_node`, canonicity (two well-formed trees with the same bindings are equal). -/
namespace Crab
namespace Patricia
open Tree

variable {V : Type}

/-- Well-formed trees.  `P` is the invariant of stored values (e.g. "not top").
    A node `(p, m)` has `m = 2^i`, a prefix with ones below `i` and zero at `i`, two
    non-empty well-formed children, every key of the left (right) child agrees with `p`
    above `i` and has bit `i` clear (set).  Keys are 64-bit. -/
def WF (P : V → Prop) : Tree V → Prop
  | .empty => True
  | .leaf k v => k < 2 ^ 64 ∧ P v
  | .node p m l r => ∃ i, i < 64 ∧ m = 2 ^ i ∧ p < 2 ^ 64 ∧ Aligned i p ∧ l ≠ .empty ∧ r ≠ .empty ∧
      WF P l ∧ WF P r ∧ (∀ k ∈ l.keys, InL i p k) ∧ (∀ k ∈ r.keys, InR i p k)

/-- number of low bits in which the keys of a tree may differ from its prefix -/
def lvl : Tree V → Nat
  | .node _ m _ _ => m.log2 + 1
  | _ => 0

@[simp] theorem keys_empty : (Tree.empty : Tree V).keys = [] := rfl
@[simp] theorem keys_leaf (k : Nat) (v : V) : (Tree.leaf k v).keys = [k] := rfl
@[simp] theorem keys_node (p m : Nat) (l r : Tree V) : (Tree.node p m l r).keys = l.keys ++ r.keys := by
  simp [Tree.keys, Tree.toList]
@[simp] theorem toList_empty : (Tree.empty : Tree V).toList = [] := rfl
@[simp] theorem toList_leaf (k : Nat) (v : V) : (Tree.leaf k v).toList = [(k, v)] := rfl
@[simp] theorem toList_node (p m : Nat) (l r : Tree V) : (Tree.node p m l r).toList = l.toList ++ r.toList := rfl
@[simp] theorem lookup_empty (k : Nat) : (Tree.empty : Tree V).lookup k = none := rfl
@[simp] theorem lookup_leaf (k k' : Nat) (v : V) : (Tree.leaf k v).lookup k' = if k = k' then some v else none := rfl
@[simp] theorem lookup_node (p m : Nat) (l r : Tree V) (k : Nat) :
    (Tree.node p m l r).lookup k = if k ≤ p then l.lookup k else r.lookup k := rfl

@[simp] theorem WF_empty (P : V → Prop) : WF P (.empty : Tree V) := trivial
theorem WF_leaf {P : V → Prop} {k : Nat} {v : V} : WF P (.leaf k v) ↔ (k < 2 ^ 64 ∧ P v) := Iff.rfl

theorem mem_keys_iff_toList {t : Tree V} {k : Nat} : k ∈ t.keys ↔ ∃ v, (k, v) ∈ t.toList := by
  simp [Tree.keys]

/-- what `lookup` finds is a binding of the tree (no invariant needed) -/
theorem mem_toList_of_lookup {t : Tree V} {k : Nat} {v : V} (h : t.lookup k = some v) : (k, v) ∈ t.toList := by
  induction t with
  | empty => simp at h
  | leaf k' v' =>
    simp at h; obtain ⟨rfl, rfl⟩ := h; simp
  | node p m l r ihl ihr =>
    simp at h
    split at h
    · simp [ihl h]
    · simp [ihr h]

theorem mem_keys_of_lookup {t : Tree V} {k : Nat} {v : V} (h : t.lookup k = some v) : k ∈ t.keys :=
  mem_keys_iff_toList.mpr ⟨v, mem_toList_of_lookup h⟩

theorem lookup_none_of_not_mem {t : Tree V} {k : Nat} (h : k ∉ t.keys) : t.lookup k = none := by
  cases hl : t.lookup k with
  | none => rfl
  | some v => exact absurd (mem_keys_of_lookup hl) h

section
variable {P : V → Prop}

theorem WF.node_inv {p m : Nat} {l r : Tree V} (h : WF P (.node p m l r)) :
    ∃ i, i < 64 ∧ m = 2 ^ i ∧ p < 2 ^ 64 ∧ Aligned i p ∧ l ≠ .empty ∧ r ≠ .empty ∧
      WF P l ∧ WF P r ∧ (∀ k ∈ l.keys, InL i p k) ∧ (∀ k ∈ r.keys, InR i p k) := h

theorem WF.left_le {p m : Nat} {l r : Tree V} (h : WF P (.node p m l r)) : ∀ k ∈ l.keys, k ≤ p := by
  obtain ⟨i, _, _, _, ha, _, _, _, _, hl, _⟩ := h
  exact fun k hk => le_of_InL ha (hl k hk)

theorem WF.right_gt {p m : Nat} {l r : Tree V} (h : WF P (.node p m l r)) : ∀ k ∈ r.keys, p < k := by
  obtain ⟨i, _, _, _, ha, _, _, _, _, _, hr⟩ := h
  exact fun k hk => lt_of_InR ha (hr k hk)

/-- every binding of a well-formed tree is found by `lookup` -/
theorem lookup_of_mem_toList {t : Tree V} (h : WF P t) {k : Nat} {v : V} (hm : (k, v) ∈ t.toList) :
    t.lookup k = some v := by
  induction t with
  | empty => simp at hm
  | leaf k' v' => simp at hm; obtain ⟨rfl, rfl⟩ := hm; simp
  | node p m l r ihl ihr =>
    have hle := h.left_le
    have hgt := h.right_gt
    obtain ⟨i, _, _, _, _, _, _, hwl, hwr, _, _⟩ := h
    simp at hm
    rcases hm with hm | hm
    · have : k ≤ p := hle k (mem_keys_iff_toList.mpr ⟨v, hm⟩)
      simp [this, ihl hwl hm]
    · have : p < k := hgt k (mem_keys_iff_toList.mpr ⟨v, hm⟩)
      have h' : ¬ k ≤ p := by omega
      simp [h', ihr hwr hm]

theorem mem_toList_iff_lookup {t : Tree V} (h : WF P t) {k : Nat} {v : V} :
    (k, v) ∈ t.toList ↔ t.lookup k = some v :=
  ⟨lookup_of_mem_toList h, mem_toList_of_lookup⟩

theorem mem_keys_iff_lookup {t : Tree V} (h : WF P t) {k : Nat} : k ∈ t.keys ↔ ∃ v, t.lookup k = some v := by
  rw [mem_keys_iff_toList]
  constructor
  · rintro ⟨v, hv⟩; exact ⟨v, lookup_of_mem_toList h hv⟩
  · rintro ⟨v, hv⟩; exact ⟨v, mem_toList_of_lookup hv⟩

theorem WF.key_lt {t : Tree V} (h : WF P t) {k : Nat} (hk : k ∈ t.keys) : k < 2 ^ 64 := by
  induction t with
  | empty => simp at hk
  | leaf k' v' => simp at hk; subst hk; exact h.1
  | node p m l r ihl ihr =>
    obtain ⟨i, _, _, _, _, _, _, hwl, hwr, _, _⟩ := h
    simp at hk
    rcases hk with hk | hk
    · exact ihl hwl hk
    · exact ihr hwr hk

theorem WF.val_of_mem {t : Tree V} (h : WF P t) {k : Nat} {v : V} (hm : (k, v) ∈ t.toList) : P v := by
  induction t with
  | empty => simp at hm
  | leaf k' v' => simp at hm; obtain ⟨rfl, rfl⟩ := hm; exact h.2
  | node p m l r ihl ihr =>
    obtain ⟨i, _, _, _, _, _, _, hwl, hwr, _, _⟩ := h
    simp at hm
    rcases hm with hm | hm
    · exact ihl hwl hm
    · exact ihr hwr hm

theorem WF.val_of_lookup {t : Tree V} (h : WF P t) {k : Nat} {v : V} (hl : t.lookup k = some v) : P v :=
  h.val_of_mem (mem_toList_of_lookup hl)

theorem WF.exists_key {t : Tree V} (h : WF P t) (hne : t ≠ .empty) : ∃ k, k ∈ t.keys := by
  induction t with
  | empty => exact absurd rfl hne
  | leaf k v => exact ⟨k, by simp⟩
  | node p m l r ihl _ =>
    obtain ⟨i, _, _, _, _, hl, _, hwl, _, _, _⟩ := h
    obtain ⟨k, hk⟩ := ihl hwl hl
    exact ⟨k, by simp [hk]⟩

/-- the keys of a tree agree with its prefix on every bit from `lvl` up -/
theorem WF.agree_pfx {t : Tree V} (h : WF P t) {k : Nat} (hk : k ∈ t.keys) :
    ∀ b, lvl t ≤ b → k.testBit b = t.pfx'.testBit b := by
  cases t with
  | empty => simp at hk
  | leaf k' v' => simp at hk; subst hk; intro b _; rfl
  | node p m l r =>
    obtain ⟨i, _, rfl, _, _, _, _, _, _, hl, hr⟩ := h
    intro b hb
    simp [lvl, Nat.log2_two_pow] at hb
    simp at hk
    rcases hk with hk | hk
    · exact (hl k hk).1 b (by omega)
    · exact (hr k hk).1 b (by omega)

theorem WF.pfx_lt {t : Tree V} (h : WF P t) : t.pfx' < 2 ^ 64 := by
  cases t with
  | empty => simp [Tree.pfx']
  | leaf k v => exact h.1
  | node p m l r => obtain ⟨i, _, _, hp, _⟩ := h; exact hp

theorem lvl_le64 {t : Tree V} (h : WF P t) : lvl t ≤ 64 := by
  cases t with
  | empty => simp [lvl]
  | leaf k v => simp [lvl]
  | node p m l r =>
    obtain ⟨i, hi, rfl, _⟩ := h
    simp [lvl, Nat.log2_two_pow]; omega

/-! ### `make_node` -/

theorem mkNode_of_ne {p m : Nat} {l r : Tree V} (hl : l ≠ .empty) (hr : r ≠ .empty) :
    mkNode p m l r = .node p m l r := by
  cases l <;> cases r <;> simp_all [mkNode]

@[simp] theorem mkNode_empty_left (p m : Nat) (r : Tree V) : mkNode p m .empty r = r := by
  cases r <;> rfl
@[simp] theorem mkNode_empty_right (p m : Nat) (l : Tree V) : mkNode p m l .empty = l := by
  cases l <;> rfl

theorem keys_mkNode (p m : Nat) (l r : Tree V) : (mkNode p m l r).keys = l.keys ++ r.keys := by
  cases l <;> cases r <;> simp [mkNode]

theorem toList_mkNode (p m : Nat) (l r : Tree V) : (mkNode p m l r).toList = l.toList ++ r.toList := by
  cases l <;> cases r <;> simp [mkNode]

/-- `make_node` of two well-formed halves -/
theorem WF_mkNode {i p : Nat} {l r : Tree V} (hi : i < 64) (hp : p < 2 ^ 64) (ha : Aligned i p)
    (hl : WF P l) (hr : WF P r) (hkl : ∀ k ∈ l.keys, InL i p k) (hkr : ∀ k ∈ r.keys, InR i p k) :
    WF P (mkNode p (2 ^ i) l r) := by
  by_cases h1 : l = .empty
  · subst h1; simpa using hr
  · by_cases h2 : r = .empty
    · subst h2; simpa using hl
    · rw [mkNode_of_ne h1 h2]
      exact ⟨i, hi, rfl, hp, ha, h1, h2, hl, hr, hkl, hkr⟩

/-- lookup through `make_node` when the halves are on the proper sides of `p` -/
theorem lookup_mkNode {p m : Nat} {l r : Tree V} (hkl : ∀ k ∈ l.keys, k ≤ p) (hkr : ∀ k ∈ r.keys, p < k)
    (k : Nat) : (mkNode p m l r).lookup k = if k ≤ p then l.lookup k else r.lookup k := by
  by_cases h1 : l = .empty
  · subst h1
    simp
    intro h
    apply lookup_none_of_not_mem
    intro hk; have := hkr k hk; omega
  · by_cases h2 : r = .empty
    · subst h2
      simp
      intro h
      apply lookup_none_of_not_mem
      intro hk; have := hkl k hk; omega
    · rw [mkNode_of_ne h1 h2]; rfl

/-! ### canonicity -/

theorem ne_empty_of_mem_keys {t : Tree V} {k : Nat} (h : k ∈ t.keys) : t ≠ .empty := by
  intro he; subst he; simp at h

/-- a well-formed node binds at least one key on each side -/
theorem WF.node_keys {p m : Nat} {l r : Tree V} (h : WF P (.node p m l r)) :
    (∃ k, k ∈ l.keys) ∧ (∃ k, k ∈ r.keys) := by
  obtain ⟨i, _, _, _, _, hl, hr, hwl, hwr, _, _⟩ := h
  exact ⟨hwl.exists_key hl, hwr.exists_key hr⟩

/-- **Canonicity**: two well-formed trees with the same bindings are structurally equal. -/
theorem WF.ext {s t : Tree V} (hs : WF P s) (ht : WF P t) (h : ∀ k, s.lookup k = t.lookup k) : s = t := by
  induction s generalizing t with
  | empty =>
    cases t with
    | empty => rfl
    | leaf k v => have := h k; simp at this
    | node q n tl tr =>
      obtain ⟨k, hk⟩ := ht.exists_key (by simp)
      obtain ⟨v, hv⟩ := (mem_keys_iff_lookup ht).mp hk
      have := h k; rw [hv] at this; simp at this
  | leaf ks vs =>
    cases t with
    | empty => have := h ks; simp at this
    | leaf kt vt =>
      have := h ks; simp at this
      obtain ⟨rfl, rfl⟩ := this; rfl
    | node q n tl tr =>
      exfalso
      obtain ⟨⟨k1, hk1⟩, ⟨k2, hk2⟩⟩ := ht.node_keys
      have hlt1 := ht.left_le k1 hk1
      have hlt2 := ht.right_gt k2 hk2
      have m1 : k1 ∈ (Tree.node q n tl tr).keys := by simp [hk1]
      have m2 : k2 ∈ (Tree.node q n tl tr).keys := by simp [hk2]
      obtain ⟨v1, hv1⟩ := (mem_keys_iff_lookup ht).mp m1
      obtain ⟨v2, hv2⟩ := (mem_keys_iff_lookup ht).mp m2
      have e1 := h k1; rw [hv1] at e1
      have e2 := h k2; rw [hv2] at e2
      simp at e1 e2
      omega
  | node p m sl sr ihl ihr =>
    cases t with
    | empty =>
      obtain ⟨k, hk⟩ := hs.exists_key (by simp)
      obtain ⟨v, hv⟩ := (mem_keys_iff_lookup hs).mp hk
      have := h k; rw [hv] at this; simp at this
    | leaf kt vt =>
      exfalso
      obtain ⟨⟨k1, hk1⟩, ⟨k2, hk2⟩⟩ := hs.node_keys
      have hlt1 := hs.left_le k1 hk1
      have hlt2 := hs.right_gt k2 hk2
      have m1 : k1 ∈ (Tree.node p m sl sr).keys := by simp [hk1]
      have m2 : k2 ∈ (Tree.node p m sl sr).keys := by simp [hk2]
      obtain ⟨v1, hv1⟩ := (mem_keys_iff_lookup hs).mp m1
      obtain ⟨v2, hv2⟩ := (mem_keys_iff_lookup hs).mp m2
      have e1 := h k1; rw [hv1] at e1
      have e2 := h k2; rw [hv2] at e2
      simp at e1 e2
      omega
    | node q n tl tr =>
      -- same key sets
      have hkeys : ∀ k, k ∈ (Tree.node p m sl sr).keys ↔ k ∈ (Tree.node q n tl tr).keys := by
        intro k
        rw [mem_keys_iff_lookup hs, mem_keys_iff_lookup ht, h k]
      have hs' := hs
      have ht' := ht
      obtain ⟨i, hi, rfl, hp, hap, hsl, hsr, hwsl, hwsr, hksl, hksr⟩ := hs
      obtain ⟨j, hj, rfl, hq, haq, htl, htr, hwtl, hwtr, hktl, hktr⟩ := ht
      obtain ⟨⟨a1, ha1⟩, ⟨a2, ha2⟩⟩ := hs'.node_keys
      obtain ⟨⟨b1, hb1⟩, ⟨b2, hb2⟩⟩ := ht'.node_keys
      -- every key of t agrees with q above j; every key of s agrees with p above i
      have agS : ∀ k ∈ (Tree.node p (2 ^ i) sl sr).keys, AgreeAbove i k p := by
        intro k hk; simp at hk; rcases hk with hk | hk
        · exact (hksl k hk).1
        · exact (hksr k hk).1
      have agT : ∀ k ∈ (Tree.node q (2 ^ j) tl tr).keys, AgreeAbove j k q := by
        intro k hk; simp at hk; rcases hk with hk | hk
        · exact (hktl k hk).1
        · exact (hktr k hk).1
      have hij : i = j := by
        rcases Nat.lt_trichotomy i j with hlt | heq | hgt
        · -- b1 and b2 differ at bit j but, as keys of s, agree above i < j
          exfalso
          have m1 : b1 ∈ (Tree.node p (2 ^ i) sl sr).keys := (hkeys b1).mpr (by simp [hb1])
          have m2 : b2 ∈ (Tree.node p (2 ^ i) sl sr).keys := (hkeys b2).mpr (by simp [hb2])
          have e1 := agS b1 m1 j hlt
          have e2 := agS b2 m2 j hlt
          have f1 := (hktl b1 hb1).2
          have f2 := (hktr b2 hb2).2
          rw [e1] at f1; rw [e2] at f2; rw [f1] at f2; cases f2
        · exact heq
        · exfalso
          have m1 : a1 ∈ (Tree.node q (2 ^ j) tl tr).keys := (hkeys a1).mp (by simp [ha1])
          have m2 : a2 ∈ (Tree.node q (2 ^ j) tl tr).keys := (hkeys a2).mp (by simp [ha2])
          have e1 := agT a1 m1 i hgt
          have e2 := agT a2 m2 i hgt
          have f1 := (hksl a1 ha1).2
          have f2 := (hksr a2 ha2).2
          rw [e1] at f1; rw [e2] at f2; rw [f1] at f2; cases f2
      subst hij
      have hpq : p = q := by
        apply aligned_eq hap haq
        have m1 : a1 ∈ (Tree.node q (2 ^ i) tl tr).keys := (hkeys a1).mp (by simp [ha1])
        exact ((hksl a1 ha1).1.symm).trans (agT a1 m1)
      subst hpq
      have hl : sl = tl := by
        apply ihl hwsl hwtl
        intro k
        by_cases hk : k ≤ p
        · have := h k; simpa [hk] using this
        · rw [lookup_none_of_not_mem, lookup_none_of_not_mem]
          · intro hm; exact hk (ht'.left_le k hm)
          · intro hm; exact hk (hs'.left_le k hm)
      have hr : sr = tr := by
        apply ihr hwsr hwtr
        intro k
        by_cases hk : k ≤ p
        · rw [lookup_none_of_not_mem, lookup_none_of_not_mem]
          · intro hm; have := ht'.right_gt k hm; omega
          · intro hm; have := hs'.right_gt k hm; omega
        · have := h k; simpa [hk] using this
      rw [hl, hr]

/-! ### iteration -/

/-- iteration delivers the keys in strictly increasing order -/
theorem WF.keys_sorted {t : Tree V} (h : WF P t) : t.keys.Pairwise (· < ·) := by
  induction t with
  | empty => simp
  | leaf k v => simp
  | node p m l r ihl ihr =>
    have hle := h.left_le
    have hgt := h.right_gt
    obtain ⟨i, _, _, _, _, _, _, hwl, hwr, _, _⟩ := h
    rw [keys_node, List.pairwise_append]
    refine ⟨ihl hwl, ihr hwr, ?_⟩
    intro a ha b hb
    have := hle a ha; have := hgt b hb; omega

theorem WF.keys_nodup {t : Tree V} (h : WF P t) : t.keys.Nodup :=
  h.keys_sorted.imp (fun hab => Nat.ne_of_lt hab)

theorem size_eq_length (t : Tree V) : t.size = t.toList.length := by
  induction t with
  | empty => rfl
  | leaf k v => rfl
  | node p m l r ihl ihr => simp [Tree.size, ihl, ihr]

end

end Patricia
end Crab
