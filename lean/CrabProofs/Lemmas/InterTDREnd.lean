import CrabProofs.Lemmas.InterTDRFun

/-!
  C09, whole top-down analysis — the loop over the call-graph entries, and the decomposition of
  the executions from `main` for the final state of the analysis (`finalSpec`, `final_inv`).
-/
namespace Crab.Inter
open Crab.Fix
variable {p : IProg} {D : IDom} {P : TDParams}

theorem wiringOK_of_bool (h : p.callsWiringOK = true) : WiringOK p := by
  intro g b k c lhs args hg hk hs
  simp only [IProg.callsWiringOK, Array.all_eq_true_iff_forall_mem] at h
  have := h _ (getD_mem_of_lt _ _ _ hg) _ (getD_mem_of_lt _ _ _ (blk_stmts_lt hk)) _ (getD_mem_of_lt _ _ default hk)
  rw [hs] at this
  simp only [Bool.and_eq_true] at this
  exact ⟨SeqOK.of_bool this.1, CallOK.of_bool this.2⟩

theorem isCalled_of_stmt {g b k h : Nat} {lhs args : List Var} (hg : g < p.funs.size)
    (hk : k < ((p.fn g).blk b).stmts.size) (hs : ((p.fn g).blk b).stmts.getD k default = .call h lhs args) :
    p.isCalled h = true := isCalled_of_callee hg (mem_callees hk hs)

/-- only the call stack changes; coverage needs to be kept for called functions only -/
theorem StOK.restack' {s : TDSt D} (h : StOK D p P s) (stk : List Nat)
    (hcov : ∀ x env, p.isCalled x = true → Covd D P s x env → Covd D P { s with stack := stk } x env)
    (hnd : stk.Nodup) (hpaths : ∃ k, pathsOK p P.wset k stk = true) :
    StOK D p P { s with stack := stk } :=
  { nofix := h.nofix, ctxs := h.ctxs, runs := h.runs, glob := h.glob,
    cov := fun ρ hρ b x hx k env hh lhs args h1 h2 h3 env' h4 h5 =>
      hcov _ _ (isCalled_of_stmt (h.runs ρ hρ).1 h2 h3) (h.cov ρ hρ b x hx k env hh lhs args h1 h2 h3 env' h4 h5),
    nodup := hnd, paths := hpaths }

theorem StOK.empty (D : IDom) (p : IProg) (P : TDParams) : StOK D p P (TDSt.empty D) :=
  { nofix := rfl, ctxs := (fun _ _ h => nomatch h), runs := (fun _ h => nomatch h),
    glob := (fun _ h => nomatch h), cov := (fun _ h => nomatch h), nodup := List.nodup_nil, paths := ⟨1, rfl⟩ }

theorem tdEntryLoop_ok (hP : ProgOK p) (hmain : p.main < p.funs.size) (hmode : P.simpleRec = true)
    (hwire : WiringOK p) (cfg : FixCfg) (hw : WtoHyp D p cfg) (lvl : Nat) (init : D.A) :
    ∀ (es : List Nat) (s s' : TDSt D), StOK D p P s → s.stack = [] →
      (∀ e, e ∈ es → p.isCalled e = false ∧ e < p.funs.size ∧ pathsOK p P.wset (p.funs.size + 1) [e] = true) →
      tdEntryLoop D p cfg P lvl init es s = some s' →
      StOK D p P s' ∧ s'.stack = [] ∧ (∀ ρ, ρ ∈ s.runs → ρ ∈ s'.runs) ∧
      (∀ e, e ∈ es → ∃ pre post, (⟨e, init, pre, post⟩ : RunRec D) ∈ s'.runs)
  | [], s, s', hI, hstk, _, h => by
    simp only [tdEntryLoop, Option.some.injEq] at h
    subst h
    exact ⟨hI, hstk, fun _ h => h, fun _ h => nomatch h⟩
  | e :: es, s, s', hI, hstk, hes, h => by
    simp only [tdEntryLoop] at h
    obtain ⟨hnc, helt, hpath⟩ := hes e (List.mem_cons_self ..)
    cases hr : tdAF D p cfg P lvl e init 0 { s with stack := [e] } with
    | none => rw [hr] at h; cases h
    | some res =>
      obtain ⟨nn, st, s1⟩ := res
      rw [hr] at h
      simp only at h
      have hI0 : StOK D p P { s with stack := [e] } := by
        apply hI.restack
        · intro x env hc
          rcases hc with hc | ⟨_, h2⟩
          · exact Or.inl hc
          · rw [hstk] at h2; nomatch h2
        · simp
        · exact ⟨_, hpath⟩
      obtain ⟨hI1, hLe1, _, hrun⟩ := tdAF_ok hP hmain hmode hwire cfg hw lvl e init 0 _ nn st s1 hI0 rfl helt hr
      have hstk1 : s1.stack = [e] := hLe1.1
      have hI2 : StOK D p P { s1 with stack := s1.stack.tail } := by
        apply hI1.restack'
        · intro x env hx hc
          rcases hc with hc | ⟨_, h2⟩
          · exact Or.inl hc
          · rw [hstk1] at h2
            have : x = e := by simpa using h2
            rw [this, hnc] at hx; cases hx
        · rw [hstk1]; simp
        · rw [hstk1]; exact ⟨1, rfl⟩
      obtain ⟨k1, k2, k3, k4⟩ := tdEntryLoop_ok hP hmain hmode hwire cfg hw lvl init es _ s' hI2
        (by show s1.stack.tail = []; rw [hstk1]; rfl)
        (fun e' he' => hes e' (List.mem_cons_of_mem _ he')) h
      refine ⟨k1, k2, fun ρ hρ => k3 ρ (hLe1.mem_runs hρ), ?_⟩
      intro e' he'
      rcases List.mem_cons.mp he' with rfl | he''
      · exact ⟨st.pre, st.post, k3 _ hrun⟩
      · exact k4 e' he''

/-- the decomposition for the final state: every function, entered with a frame some recorded run
    was started for; calls = the true ones -/
def finalSpec (p : IProg) {D : IDom} (s : TDSt D) : SimSpec where
  Cov := fun _ => True
  E := fun g env => env.size = p.nv ∧ ∃ ρ, ρ ∈ s.runs ∧ ρ.fn = g ∧ EnvIn D.toAbsDom ρ.entry env
  CR := fun _ => TrueCR p

/-- a locally reachable frame of the final decomposition lies in the local semantics of a recorded run -/
theorem final_at_run {s : TDSt D} {g b k : Nat} {env : Env}
    (hat : (finalSpec p s).At p g b k env) :
    ∃ ρ, ρ ∈ s.runs ∧ ρ.fn = g ∧ LocalAt (TrueCR p) (p.fn g) (RunEntry D p ρ) b k env := by
  obtain ⟨s0, ⟨hsz, ρ, hρ, hfn, he⟩, hat0⟩ := LocalAt.split hat
  exact ⟨ρ, hρ, hfn, LocalAt.mono (fun x hx => by rw [hx]; exact ⟨hsz, he⟩) hat0⟩

theorem final_entryOK {s : TDSt D} (hI : StOK D p P s) (hstk : s.stack = []) : EntryOK p (finalSpec p s) := by
  intro g h b k env lhs args env' hg _ hat hk hs hsz hsz' hm
  refine ⟨hsz', ?_⟩
  obtain ⟨ρ, hρ, hfn, sb, h1, h2⟩ := final_at_run (hat trivial)
  have hc := hI.cov ρ hρ b sb (by rw [hfn]; exact h1) k env h lhs args (by rw [hfn]; exact h2)
    (by rw [hfn]; exact hk) (by rw [hfn]; exact hs) env' hsz' hm
  rcases hc with hc | ⟨_, h2'⟩
  · exact hc
  · rw [hstk] at h2'; nomatch h2'

theorem final_inv (hP : ProgOK p) (hmain : p.main < p.funs.size) {s : TDSt D} (hI : StOK D p P s)
    (hstk : s.stack = []) (ch : Choices)
    (h0 : ∃ ρ, ρ ∈ s.runs ∧ ρ.fn = p.main ∧ EnvIn D.toAbsDom ρ.entry (mkFrame p ch 0 p.main []).env) :
    ∀ c, Reach p ch c → Inv p (finalSpec p s) c := by
  apply inv_reach_gen hP (fun _ => rfl) (final_entryOK hI hstk) ch
  rw [initConfig_eq]
  exact Inv.start hP ch p.main [] hmain (Or.inr rfl) (fun _ => ⟨mkFrame_env_size p ch 0 p.main [], h0⟩)

/-- what a successful run of the model guarantees about its final state -/
theorem tdAnalyze_ok (hP : ProgOK p) (hmain : p.main < p.funs.size) (hmode : P.simpleRec = true)
    (hwire : WiringOK p) (hent : entriesOK p P = true) (cfg : FixCfg) (hw : WtoHyp D p cfg) (lvl : Nat)
    (init : D.A) (s : TDSt D) (hrun : tdAnalyze D p cfg P lvl init = some s) :
    StOK D p P s ∧ s.stack = [] ∧ ∃ pre post, (⟨p.main, init, pre, post⟩ : RunRec D) ∈ s.runs := by
  simp only [entriesOK, Bool.and_eq_true, List.contains_eq_mem, decide_eq_true_eq, List.all_eq_true,
    Bool.not_eq_true'] at hent
  obtain ⟨k1, k2, _, k4⟩ := tdEntryLoop_ok hP hmain hmode hwire cfg hw lvl init (tdEntries p P) _ s
    (StOK.empty D p P) rfl (fun e he => ⟨(hent.2 e he).1.1, (hent.2 e he).1.2, (hent.2 e he).2⟩) hrun
  exact ⟨k1, k2, k4 p.main hent.1⟩

end Crab.Inter
