import CrabModel.Dom.ItvEnv
import CrabProofs.Lemmas.Interval
import CrabProofs.Lemmas.IntervalLattice
import CrabProofs.Lemmas.Bound

/-! Exactness of the canonical interval-environment model `Crab.ItvEnv` on its own constraint
    language `±x ≤ k` (property C12): the concretisation is a product of intervals, `assume`
    and `meet` are exact, `bounds` is tight, `entails` is complete, `join` is the least upper
    bound and `forget` is exact existential quantification. -/

namespace Crab

/-! ### interval-level helpers -/
namespace Itv
open Bound

theorem WF_bot : bot.WF := by simp [WF, bot]
theorem WF_top : top.WF := by simp [WF, top]

theorem WF_mk' {l u : Bound} (hl : l ≠ pinf) (hu : u ≠ ninf) : (mk' l u).WF := by
  unfold mk'; split
  · exact WF_bot
  · exact ⟨hl, hu⟩

theorem WF_meet {a b : Itv} (ha : a.WF) (hb : b.WF) : (meet a b).WF := by
  unfold meet; split
  · exact WF_bot
  · apply WF_mk'
    · rcases Bound.max_eq_or a.lb b.lb with h | h <;> rw [h]
      · exact ha.1
      · exact hb.1
    · rcases Bound.min_eq_or a.ub b.ub with h | h <;> rw [h]
      · exact ha.2
      · exact hb.2

theorem WF_join {a b : Itv} (ha : a.WF) (hb : b.WF) : (join a b).WF := by
  unfold join; split
  · exact hb
  · split
    · exact ha
    · apply WF_mk'
      · rcases Bound.min_eq_or a.lb b.lb with h | h <;> rw [h]
        · exact ha.1
        · exact hb.1
      · rcases Bound.max_eq_or a.ub b.ub with h | h <;> rw [h]
        · exact ha.2
        · exact hb.2

theorem le_of_not_bottom {i : Itv} (hb : i.isBottom = false) : Bound.le i.lb i.ub = true := by
  simpa [isBottom, Bound.gt] using hb

theorem mem_lb_of_fin {i : Itv} {k : Int} (hb : i.isBottom = false) (h : i.lb = fin k) : mem k i := by
  have := le_of_not_bottom hb
  rw [h] at this
  exact ⟨by rw [h]; exact Bound.le_refl _, this⟩

theorem mem_ub_of_fin {i : Itv} {k : Int} (hb : i.isBottom = false) (h : i.ub = fin k) : mem k i := by
  have := le_of_not_bottom hb
  rw [h] at this
  exact ⟨this, by rw [h]; exact Bound.le_refl _⟩

/-- an interval unbounded above contains members above any `B` -/
theorem exists_mem_gt {i : Itv} (hw : i.WF) (h : i.ub = pinf) (B : Int) : ∃ k, mem k i ∧ B < k := by
  rcases i with ⟨l, u⟩
  simp only at h; subst h
  cases l with
  | ninf => exact ⟨B + 1, by simp [mem], by omega⟩
  | pinf => exact absurd rfl hw.1
  | fin a =>
    by_cases hab : a ≤ B
    · exact ⟨B + 1, by simp [mem]; omega, by omega⟩
    · exact ⟨a, by simp [mem], by omega⟩

/-- an interval unbounded below contains members below any `B` -/
theorem exists_mem_lt {i : Itv} (hw : i.WF) (h : i.lb = ninf) (B : Int) : ∃ k, mem k i ∧ k < B := by
  rcases i with ⟨l, u⟩
  simp only at h; subst h
  cases u with
  | pinf => exact ⟨B - 1, by simp [mem], by omega⟩
  | ninf => exact absurd rfl hw.2
  | fin a =>
    by_cases hab : B ≤ a
    · exact ⟨B - 1, by simp [mem]; omega, by omega⟩
    · exact ⟨a, by simp [mem], by omega⟩

/-- a well-formed non-bottom interval has a member -/
theorem exists_mem_of_WF (i : Itv) (hw : i.WF) (hb : i.isBottom = false) : ∃ k, mem k i := by
  cases hl : i.lb with
  | fin a => exact ⟨a, mem_lb_of_fin hb hl⟩
  | pinf => exact absurd hl hw.1
  | ninf =>
    obtain ⟨k, hk, _⟩ := exists_mem_lt hw hl 0
    exact ⟨k, hk⟩

/-- inclusion of concretisations is detected by `leq` (for a well-formed non-bottom left side) -/
theorem leq_of_mem_subset {a c : Itv} (hw : a.WF) (hb : a.isBottom = false)
    (h : ∀ k, mem k a → mem k c) : leq a c = true := by
  obtain ⟨k0, hk0⟩ := exists_mem_of_WF a hw hb
  have hcb := isBottom_false_of_mem (h k0 hk0)
  unfold leq
  simp only [hb, hcb, Bool.false_eq_true, if_false, Bool.and_eq_true]
  constructor
  · cases hl : a.lb with
    | ninf =>
      cases hcl : c.lb with
      | ninf => rfl
      | pinf =>
        have := (h k0 hk0).1; rw [hcl] at this; simp at this
      | fin m =>
        obtain ⟨k, hk, hlt⟩ := exists_mem_lt hw hl m
        have := (h k hk).1; rw [hcl] at this; simp at this; omega
    | pinf => exact absurd hl hw.1
    | fin l =>
      have := (h l (mem_lb_of_fin hb hl)).1
      exact this
  · cases hu : a.ub with
    | pinf =>
      cases hcu : c.ub with
      | pinf => rfl
      | ninf =>
        have := (h k0 hk0).2; rw [hcu] at this; simp at this
      | fin m =>
        obtain ⟨k, hk, hlt⟩ := exists_mem_gt hw hu m
        have := (h k hk).2; rw [hcu] at this; simp at this; omega
    | ninf => exact absurd hu hw.2
    | fin u =>
      have := (h u (mem_ub_of_fin hb hu)).2
      exact this

theorem mem_meet_iff {a b : Itv} {k : Int} : mem k (meet a b) ↔ (mem k a ∧ mem k b) :=
  ⟨meet_exact, fun ⟨ha, hb⟩ => meet_sound ha hb⟩

theorem mem_le_iff (t k : Int) : mem t ⟨ninf, fin k⟩ ↔ t ≤ k := by simp [mem]
theorem mem_ge_iff (t k : Int) : mem t ⟨fin k, pinf⟩ ↔ k ≤ t := by simp [mem]

end Itv

namespace ItvEnv
open Bound

variable {n : Nat}

def EnvWF (e : Env n) : Prop := ∀ x, (get e x).WF
def updS (σ : State n) (x : Fin n) (t : Int) : State n := fun y => if y = x then t else σ y

/-! ### accessors -/

theorem get_ofFn (f : Fin n → Itv) (x : Fin n) : get (ofFn f) x = f x := by
  unfold get ofFn
  rw [Vector.getElem_ofFn]

theorem get_upd (e : Env n) (x : Fin n) (i : Itv) (y : Fin n) :
    get (upd e x i) y = if y = x then i else get e y := by
  unfold upd; rw [get_ofFn]

theorem get_upd_same (e : Env n) (x : Fin n) (i : Itv) : get (upd e x i) x = i := by
  rw [get_upd]; simp

theorem get_upd_ne (e : Env n) {x y : Fin n} (i : Itv) (h : y ≠ x) : get (upd e x i) y = get e y := by
  rw [get_upd]; simp [h]

theorem updS_same (σ : State n) (x : Fin n) (t : Int) : updS σ x t x = t := by simp [updS]
theorem updS_ne (σ : State n) {x y : Fin n} (t : Int) (h : y ≠ x) : updS σ x t y = σ y := by
  simp [updS, h]

theorem isBottom_iff (e : Env n) : isBottom e = true ↔ ∃ x, (get e x).isBottom = true := by
  unfold isBottom
  rw [List.any_eq_true]
  constructor
  · rintro ⟨x, _, hx⟩; exact ⟨x, hx⟩
  · rintro ⟨x, hx⟩; exact ⟨x, List.mem_finRange x, hx⟩

theorem isBottom_false_iff (e : Env n) : isBottom e = false ↔ ∀ x, (get e x).isBottom = false := by
  constructor
  · intro h x
    cases hx : (get e x).isBottom
    · rfl
    · have := (isBottom_iff e).2 ⟨x, hx⟩
      rw [h] at this; cases this
  · intro h
    cases hb : isBottom e
    · rfl
    · obtain ⟨x, hx⟩ := (isBottom_iff e).1 hb
      rw [h x] at hx; cases hx

/-- a bottom environment has no concrete state (no well-formedness needed) -/
theorem not_γ_of_isBottom {e : Env n} (h : isBottom e = true) (σ : State n) : ¬ γ e σ := by
  intro hγ
  obtain ⟨x, hx⟩ := (isBottom_iff e).1 h
  exact Itv.not_mem_of_isBottom hx (hγ x)

theorem isBottom_false_of_γ {e : Env n} {σ : State n} (h : γ e σ) : isBottom e = false := by
  cases hb : isBottom e
  · rfl
  · exact absurd h (not_γ_of_isBottom hb σ)

/-! ### well-formedness is preserved -/

theorem EnvWF_top : EnvWF (top : Env n) := by
  intro x; unfold top; rw [get_ofFn]; exact Itv.WF_top

theorem EnvWF_upd {e : Env n} (hw : EnvWF e) (x : Fin n) {i : Itv} (hi : i.WF) : EnvWF (upd e x i) := by
  intro y; rw [get_upd]; split
  · exact hi
  · exact hw y

theorem EnvWF_assumeCst {e : Env n} (hw : EnvWF e) (c : Cst n) : EnvWF (assumeCst e c) := by
  cases c with
  | ub x k =>
    exact EnvWF_upd hw x (Itv.WF_meet (hw x) (by simp [Itv.WF]))
  | lb x k =>
    exact EnvWF_upd hw x (Itv.WF_meet (hw x) (by simp [Itv.WF]))

theorem EnvWF_assumeAll {e : Env n} (hw : EnvWF e) (cs : List (Cst n)) : EnvWF (assumeAll e cs) := by
  unfold assumeAll
  induction cs generalizing e with
  | nil => exact hw
  | cons c cs ih => exact ih (EnvWF_assumeCst hw c)

theorem EnvWF_join {a b : Env n} (ha : EnvWF a) (hb : EnvWF b) : EnvWF (join a b) := by
  unfold join; split
  · exact hb
  · split
    · exact ha
    · intro x; rw [get_ofFn]; exact Itv.WF_join (ha x) (hb x)

theorem EnvWF_meet {a b : Env n} (ha : EnvWF a) (hb : EnvWF b) : EnvWF (meet a b) := by
  intro x; unfold meet; rw [get_ofFn]; exact Itv.WF_meet (ha x) (hb x)

theorem EnvWF_forget {e : Env n} (hw : EnvWF e) (x : Fin n) : EnvWF (forget e x) := by
  unfold forget; split
  · exact hw
  · exact EnvWF_upd hw x Itv.WF_top

/-! ### the concretisation is a product -/

theorem top_γ (σ : State n) : γ (top : Env n) σ := by
  intro x; unfold top; rw [get_ofFn]; exact Itv.mem_top _

theorem γ_updS (e : Env n) (σ : State n) (x : Fin n) (t : Int) :
    γ e (updS σ x t) ↔ (Itv.mem t (get e x) ∧ ∀ y, y ≠ x → Itv.mem (σ y) (get e y)) := by
  constructor
  · intro h
    refine ⟨?_, fun y hy => ?_⟩
    · have := h x; rwa [updS_same] at this
    · have := h y; rwa [updS_ne σ t hy] at this
  · rintro ⟨h1, h2⟩ y
    by_cases hy : y = x
    · subst hy; rw [updS_same]; exact h1
    · rw [updS_ne σ t hy]; exact h2 y hy

/-- a well-formed non-bottom environment has a concrete state -/
theorem exists_state (e : Env n) (hw : EnvWF e) (hb : isBottom e = false) : ∃ σ, γ e σ := by
  have h : ∀ x, ∃ k, Itv.mem k (get e x) :=
    fun x => Itv.exists_mem_of_WF _ (hw x) ((isBottom_false_iff e).1 hb x)
  exact ⟨fun x => Classical.choose (h x), fun x => Classical.choose_spec (h x)⟩

/-- coordinates can be chosen independently: any member of the `x` interval is the `x`
    coordinate of a concrete state -/
theorem exists_state_with (e : Env n) (hw : EnvWF e) (hb : isBottom e = false) (x : Fin n)
    {v : Int} (hv : Itv.mem v (get e x)) : ∃ σ, γ e σ ∧ σ x = v := by
  obtain ⟨σ, hσ⟩ := exists_state e hw hb
  exact ⟨updS σ x v, (γ_updS e σ x v).2 ⟨hv, fun y _ => hσ y⟩, updS_same σ x v⟩

theorem bottom_iff_unsat (e : Env n) (hw : EnvWF e) : isBottom e = true ↔ ¬ ∃ σ, γ e σ := by
  constructor
  · rintro h ⟨σ, hσ⟩; exact not_γ_of_isBottom h σ hσ
  · intro h
    cases hb : isBottom e
    · exact absurd (exists_state e hw hb) h
    · rfl

/-! ### assume -/

theorem γ_upd (e : Env n) (x : Fin n) (i : Itv) (σ : State n) :
    γ (upd e x i) σ ↔ (Itv.mem (σ x) i ∧ ∀ y, y ≠ x → Itv.mem (σ y) (get e y)) := by
  constructor
  · intro h
    refine ⟨?_, fun y hy => ?_⟩
    · have := h x; rwa [get_upd_same] at this
    · have := h y; rwa [get_upd_ne e i hy] at this
  · rintro ⟨h1, h2⟩ y
    by_cases hy : y = x
    · subst hy; rw [get_upd_same]; exact h1
    · rw [get_upd_ne e i hy]; exact h2 y hy

theorem γ_upd_meet (e : Env n) (x : Fin n) (j : Itv) (σ : State n) :
    γ (upd e x (Itv.meet (get e x) j)) σ ↔ (γ e σ ∧ Itv.mem (σ x) j) := by
  rw [γ_upd, Itv.mem_meet_iff]
  constructor
  · rintro ⟨⟨h1, h2⟩, h3⟩
    refine ⟨fun y => ?_, h2⟩
    by_cases hy : y = x
    · subst hy; exact h1
    · exact h3 y hy
  · rintro ⟨h1, h2⟩
    exact ⟨⟨h1 x, h2⟩, fun y _ => h1 y⟩

theorem assumeCst_exact (e : Env n) (c : Cst n) (σ : State n) :
    γ (assumeCst e c) σ ↔ (γ e σ ∧ c.sat σ) := by
  cases c with
  | ub x k =>
    show γ (upd e x (Itv.meet (get e x) ⟨.ninf, .fin k⟩)) σ ↔ (γ e σ ∧ σ x ≤ k)
    rw [γ_upd_meet, Itv.mem_le_iff]
  | lb x k =>
    show γ (upd e x (Itv.meet (get e x) ⟨.fin (-k), .pinf⟩)) σ ↔ (γ e σ ∧ -σ x ≤ k)
    rw [γ_upd_meet, Itv.mem_ge_iff]
    constructor
    · rintro ⟨h1, h2⟩; exact ⟨h1, by omega⟩
    · rintro ⟨h1, h2⟩; exact ⟨h1, by omega⟩

theorem assumeAll_exact (e : Env n) (cs : List (Cst n)) (σ : State n) :
    γ (assumeAll e cs) σ ↔ (γ e σ ∧ ∀ c ∈ cs, c.sat σ) := by
  unfold assumeAll
  induction cs generalizing e with
  | nil => simp
  | cons c cs ih =>
    rw [List.foldl_cons, ih, assumeCst_exact]
    constructor
    · rintro ⟨⟨h1, h2⟩, h3⟩
      refine ⟨h1, fun d hd => ?_⟩
      rcases List.mem_cons.1 hd with rfl | hd
      · exact h2
      · exact h3 d hd
    · rintro ⟨h1, h2⟩
      exact ⟨⟨h1, h2 c (List.mem_cons_self ..)⟩, fun d hd => h2 d (List.mem_cons_of_mem _ hd)⟩

/-! ### bounds -/

theorem bounds_of_not_bottom {e : Env n} (hb : isBottom e = false) (x : Fin n) : bounds e x = get e x := by
  simp [bounds, hb]

theorem bounds_sound (e : Env n) (σ : State n) (h : γ e σ) (x : Fin n) : Itv.mem (σ x) (bounds e x) := by
  rw [bounds_of_not_bottom (isBottom_false_of_γ h)]; exact h x

theorem bounds_tight_ub (e : Env n) (hw : EnvWF e) (hb : isBottom e = false) (x : Fin n) (k : Int)
    (h : (bounds e x).ub = .fin k) : ∃ σ, γ e σ ∧ σ x = k := by
  rw [bounds_of_not_bottom hb] at h
  exact exists_state_with e hw hb x (Itv.mem_ub_of_fin ((isBottom_false_iff e).1 hb x) h)

theorem bounds_tight_lb (e : Env n) (hw : EnvWF e) (hb : isBottom e = false) (x : Fin n) (k : Int)
    (h : (bounds e x).lb = .fin k) : ∃ σ, γ e σ ∧ σ x = k := by
  rw [bounds_of_not_bottom hb] at h
  exact exists_state_with e hw hb x (Itv.mem_lb_of_fin ((isBottom_false_iff e).1 hb x) h)

theorem bounds_unbounded_ub (e : Env n) (hw : EnvWF e) (hb : isBottom e = false) (x : Fin n)
    (h : (bounds e x).ub = .pinf) (B : Int) : ∃ σ, γ e σ ∧ B < σ x := by
  rw [bounds_of_not_bottom hb] at h
  obtain ⟨v, hv, hlt⟩ := Itv.exists_mem_gt (hw x) h B
  obtain ⟨σ, hσ, hx⟩ := exists_state_with e hw hb x hv
  exact ⟨σ, hσ, by rw [hx]; exact hlt⟩

theorem bounds_unbounded_lb (e : Env n) (hw : EnvWF e) (hb : isBottom e = false) (x : Fin n)
    (h : (bounds e x).lb = .ninf) (B : Int) : ∃ σ, γ e σ ∧ σ x < B := by
  rw [bounds_of_not_bottom hb] at h
  obtain ⟨v, hv, hlt⟩ := Itv.exists_mem_lt (hw x) h B
  obtain ⟨σ, hσ, hx⟩ := exists_state_with e hw hb x hv
  exact ⟨σ, hσ, by rw [hx]; exact hlt⟩

/-! ### entailment -/

theorem entails_iff_implied (e : Env n) (hw : EnvWF e) (c : Cst n) :
    entails e c = true ↔ ∀ σ, γ e σ → c.sat σ := by
  cases hb : isBottom e with
  | true =>
    constructor
    · intro _ σ hσ; exact absurd hσ (not_γ_of_isBottom hb σ)
    · intro _; cases c <;> simp [entails, hb]
  | false =>
    have hnb := (isBottom_false_iff e).1 hb
    cases c with
    | ub x k =>
      show (isBottom e || Bound.le (get e x).ub (.fin k)) = true ↔ ∀ σ, γ e σ → σ x ≤ k
      rw [hb, Bool.false_or]
      constructor
      · intro h σ hσ
        have := Bound.le_trans (hσ x).2 h
        simpa using this
      · intro h
        cases hu : (get e x).ub with
        | ninf => rfl
        | fin u =>
          obtain ⟨σ, hσ, hx⟩ := exists_state_with e hw hb x (Itv.mem_ub_of_fin (hnb x) hu)
          have := h σ hσ
          rw [hx] at this
          simpa using this
        | pinf =>
          obtain ⟨v, hv, hlt⟩ := Itv.exists_mem_gt (hw x) hu k
          obtain ⟨σ, hσ, hx⟩ := exists_state_with e hw hb x hv
          have := h σ hσ
          omega
    | lb x k =>
      show (isBottom e || Bound.le (.fin (-k)) (get e x).lb) = true ↔ ∀ σ, γ e σ → -σ x ≤ k
      rw [hb, Bool.false_or]
      constructor
      · intro h σ hσ
        have := Bound.le_trans h (hσ x).1
        simp at this; omega
      · intro h
        cases hl : (get e x).lb with
        | pinf => rfl
        | fin l =>
          obtain ⟨σ, hσ, hx⟩ := exists_state_with e hw hb x (Itv.mem_lb_of_fin (hnb x) hl)
          have := h σ hσ
          rw [hx] at this
          simp; omega
        | ninf =>
          obtain ⟨v, hv, hlt⟩ := Itv.exists_mem_lt (hw x) hl (-k)
          obtain ⟨σ, hσ, hx⟩ := exists_state_with e hw hb x hv
          have := h σ hσ
          omega

/-! ### join, meet, forget -/

theorem join_upper (a b : Env n) (σ : State n) (h : γ a σ ∨ γ b σ) : γ (join a b) σ := by
  unfold join
  rcases h with h | h
  · rw [isBottom_false_of_γ h]
    simp only [Bool.false_eq_true, if_false]
    split
    · exact h
    · intro x; rw [get_ofFn]; exact Itv.join_upper_left (h x)
  · split
    · exact h
    · rw [isBottom_false_of_γ h]
      simp only [Bool.false_eq_true, if_false]
      intro x; rw [get_ofFn]; exact Itv.join_upper_right (h x)

/-- inclusion of product concretisations is coordinatewise -/
theorem leq_of_γ_subset {a c : Env n} (hwa : EnvWF a) (hba : isBottom a = false)
    (h : ∀ σ, γ a σ → γ c σ) (x : Fin n) : Itv.leq (get a x) (get c x) = true := by
  apply Itv.leq_of_mem_subset (hwa x) ((isBottom_false_iff a).1 hba x)
  intro k hk
  obtain ⟨σ, hσ, hx⟩ := exists_state_with a hwa hba x hk
  have := h σ hσ x
  rwa [hx] at this

theorem join_least (a b c : Env n) (hwa : EnvWF a) (hwb : EnvWF b)
    (ha : ∀ σ, γ a σ → γ c σ) (hb : ∀ σ, γ b σ → γ c σ) (σ : State n) (h : γ (join a b) σ) : γ c σ := by
  unfold join at h
  cases hba : isBottom a with
  | true => rw [hba] at h; exact hb σ h
  | false =>
    cases hbb : isBottom b with
    | true => rw [hba, hbb] at h; exact ha σ h
    | false =>
      rw [hba, hbb] at h
      simp only [Bool.false_eq_true, if_false] at h
      intro x
      have hx := h x
      rw [get_ofFn] at hx
      exact Itv.leq_sound
        (Itv.join_least (leq_of_γ_subset hwa hba ha x) (leq_of_γ_subset hwb hbb hb x)) hx

theorem meet_exact (a b : Env n) (σ : State n) : γ (meet a b) σ ↔ (γ a σ ∧ γ b σ) := by
  unfold meet
  constructor
  · intro h
    refine ⟨fun x => ?_, fun x => ?_⟩
    · have := h x; rw [get_ofFn] at this; exact (Itv.meet_exact this).1
    · have := h x; rw [get_ofFn] at this; exact (Itv.meet_exact this).2
  · rintro ⟨h1, h2⟩ x
    rw [get_ofFn]; exact Itv.meet_sound (h1 x) (h2 x)

theorem forget_exact (e : Env n) (hw : EnvWF e) (x : Fin n) (σ : State n) :
    γ (forget e x) σ ↔ ∃ t, γ e (updS σ x t) := by
  unfold forget
  cases hb : isBottom e with
  | true =>
    simp only [if_true]
    constructor
    · intro h; exact absurd h (not_γ_of_isBottom hb σ)
    · rintro ⟨t, ht⟩; exact absurd ht (not_γ_of_isBottom hb _)
  | false =>
    simp only [Bool.false_eq_true, if_false]
    rw [γ_upd]
    constructor
    · rintro ⟨_, h⟩
      obtain ⟨t, ht⟩ := Itv.exists_mem_of_WF _ (hw x) ((isBottom_false_iff e).1 hb x)
      exact ⟨t, (γ_updS e σ x t).2 ⟨ht, h⟩⟩
    · rintro ⟨t, ht⟩
      exact ⟨Itv.mem_top _, ((γ_updS e σ x t).1 ht).2⟩

end ItvEnv
end Crab
