import CrabProofs.Lemmas.DbmIncrInline2

/-!
  `addCst` / `addAll` for BOTH settings of `zones.close_bounds_inline`.
-/
namespace Crab
namespace DbmIncr
open Dbm Zones

variable {n : Nat}

theorem addDiffEdge_true_spec (vs : List (Fin (n + 1))) (hvs : ∀ v, v ∈ vs) (hnd : vs.Nodup) (s : SG n)
    (hg : Good s) (src dest : Fin (n + 1)) (hs : src ≠ 0) (hd : dest ≠ 0) (hsd : src ≠ dest) (k : Int) :
    StepGood (fun x => x dest - x src ≤ k) s (addDiffEdge true vs s src dest k) := by
  unfold addDiffEdge
  by_cases hgd : W.le (W.add (edge s.g src 0) (edge s.g 0 dest)) (some k) = true
  · rw [if_pos hgd]
    simp only [StepGood]
    refine ⟨hg, fun x => ⟨fun h => ⟨h, ?_⟩, fun h => h.1⟩⟩
    rcases hw1 : edge s.g src 0 with _ | w1
    · rw [hw1] at hgd; simp [W.le] at hgd
    rcases hw2 : edge s.g 0 dest with _ | w2
    · rw [hw1, hw2] at hgd; simp [W.le] at hgd
    rw [hw1, hw2] at hgd; simp only [W.add_some_some, W.le, decide_eq_true_eq] at hgd
    have := sat_edge h hw1
    have := sat_edge h hw2
    omega
  · rw [if_neg hgd]
    dsimp only
    have hsat : ∀ v, (updEdge s.g src k dest).sat v ↔ (s.g.sat v ∧ v dest - v src ≤ k) := by
      intro v; rw [updEdge_eq_relax]; exact relax_sat _ _ _ _ _
    have hpv : PotValidExcept (updEdge s.g src k dest) s.pot src dest := by
      intro s' d' kk hkk hne
      rw [edge_upd_old _ _ _ _ hne] at hkk
      exact (sat_iff_pot _ _).1 hg.2 s' d' kk hkk
    obtain ⟨c, hc, _, _⟩ := edge_upd_new s.g src dest k
    obtain ⟨r1, r2⟩ := repairPotential_spec vs hvs _ s.pot src dest c hc hpv
    rcases hrp : repairPotential vs (updEdge s.g src k dest) s.pot src dest with _ | p1
    · simp only [StepGood]
      intro v hv hP
      exact r2 hrp v ((hsat v).2 ⟨hv, hP⟩)
    · simp only [StepGood]
      have hp1 := r1 p1 hrp
      have hb := not_bottom_of_sat hp1
      rw [closeOverEdge_eq_I true vs hnd _ hs hd hsd]
      obtain ⟨h1, h2⟩ := closeOverEdgeI_full vs hvs hg.1 hs hd hsd hb
      exact ⟨⟨h1, (h2 p1).2 hp1⟩, fun v => by rw [h2, hsat]⟩

theorem closeBoundsEnd_true (vs : List (Fin (n + 1))) (r : Option (SG n)) :
    r.map (closeBoundsEnd true vs) = r := by
  cases r <;> simp [closeBoundsEnd]

/-- a step that only adds consequences of `A`, split normal form kept -/
def BtwG (A : (Fin (n + 1) → Int) → Prop) (s : SG n) (r : Option (SG n)) : Prop :=
  match r with
  | none => ∀ v, s.g.sat v → ¬ A v
  | some s1 => Good s1 ∧ (∀ v, s1.g.sat v → s.g.sat v) ∧ ∀ v, s.g.sat v → A v → s1.g.sat v

theorem addDerivedLb_true_spec (vs : List (Fin (n + 1))) (hvs : ∀ v, v ∈ vs) (s : SG n) (hg : Good s)
    (lbx : W) (v : Fin (n + 1)) (hv : v ≠ 0) (k : Int) (A : (Fin (n + 1) → Int) → Prop)
    (himp : ∀ a, lbx = some a → ∀ x, s.g.sat x → A x → x 0 - x v ≤ k + a) :
    BtwG A s (addDerivedLb true vs s lbx v k) := by
  unfold addDerivedLb
  rcases lbx with _ | a
  · exact ⟨hg, fun _ h => h, fun _ h _ => h⟩
  · simp only
    have sp := addLb_true_spec vs hvs s hg v hv (k + a)
    rcases hq : addLb true vs s v (k + a) with _ | s1
    · rw [hq] at sp
      exact fun x hx hc => sp x hx (himp a rfl x hx hc)
    · rw [hq] at sp
      exact ⟨sp.1, fun x h => ((sp.2 x).1 h).1, fun x hx hc => (sp.2 x).2 ⟨hx, himp a rfl x hx hc⟩⟩

theorem addDerivedUb_true_spec (vs : List (Fin (n + 1))) (hvs : ∀ v, v ∈ vs) (s : SG n) (hg : Good s)
    (uby : W) (v : Fin (n + 1)) (hv : v ≠ 0) (k : Int) (A : (Fin (n + 1) → Int) → Prop)
    (himp : ∀ b, uby = some b → ∀ x, s.g.sat x → A x → x v - x 0 ≤ k + b) :
    BtwG A s (addDerivedUb true vs s uby v k) := by
  unfold addDerivedUb
  rcases uby with _ | b
  · exact ⟨hg, fun _ h => h, fun _ h _ => h⟩
  · simp only
    have sp := addUb_true_spec vs hvs s hg v hv (k + b)
    rcases hq : addUb true vs s v (k + b) with _ | s1
    · rw [hq] at sp
      exact fun x hx hc => sp x hx (himp b rfl x hx hc)
    · rw [hq] at sp
      exact ⟨sp.1, fun x h => ((sp.2 x).1 h).1, fun x hx hc => (sp.2 x).2 ⟨hx, himp b rfl x hx hc⟩⟩

theorem addCst_true_spec (vs : List (Fin (n + 1))) (hvs : ∀ v, v ∈ vs) (hnd : vs.Nodup) (s : SG n)
    (hg : Good s) (c : Zones.Cst n) : StepGood (cstV c) s (addCst true vs s c) := by
  cases c with
  | ub x k =>
    show StepGood _ s ((addUb true vs s x.succ k).map (closeBoundsEnd true vs))
    rw [closeBoundsEnd_true]
    exact addUb_true_spec vs hvs s hg x.succ (Fin.succ_ne_zero x) k
  | lb x k =>
    show StepGood _ s ((addLb true vs s x.succ k).map (closeBoundsEnd true vs))
    rw [closeBoundsEnd_true]
    exact addLb_true_spec vs hvs s hg x.succ (Fin.succ_ne_zero x) k
  | diff x y k =>
    unfold addCst
    by_cases hxy : x = y
    · subst hxy
      simp only [if_true]
      by_cases hk : 0 ≤ k
      · simp only [hk, if_true, StepGood]
        refine ⟨hg, fun v => ⟨fun h => ⟨h, ?_⟩, fun h => h.1⟩⟩
        simp only [cstV, Cst.row, Cst.col, Cst.bound]; omega
      · simp only [hk, if_false, StepGood]
        intro v _ hP
        simp only [cstV, Cst.row, Cst.col, Cst.bound] at hP; omega
    simp only [hxy, if_false]
    have hx0 : x.succ ≠ 0 := Fin.succ_ne_zero x
    have hy0 : y.succ ≠ 0 := Fin.succ_ne_zero y
    have hne : y.succ ≠ x.succ := fun e => hxy (Fin.succ_inj.1 e).symm
    have hA : ∀ v, cstV (Cst.diff x y k) v ↔ v x.succ - v y.succ ≤ k := fun v => Iff.rfl
    have h1 := addDerivedLb_true_spec vs hvs s hg (edge s.g x.succ 0) y.succ hy0 k
      (fun v => v x.succ - v y.succ ≤ k) (by
        intro a ha v hv hc
        have := sat_edge hv ha
        omega)
    rcases hr1 : addDerivedLb true vs s (edge s.g x.succ 0) y.succ k with _ | s1
    · rw [hr1] at h1
      simp only [Option.bind, StepGood]
      exact fun v hv hc => h1 v hv ((hA v).1 hc)
    rw [hr1] at h1
    obtain ⟨hm1, hb1, hf1⟩ := h1
    simp only [Option.bind]
    have h2 := addDerivedUb_true_spec vs hvs s1 hm1 (edge s.g 0 y.succ) x.succ hx0 k
      (fun v => s.g.sat v ∧ v x.succ - v y.succ ≤ k) (by
        intro b hb v _ hc
        have := sat_edge hc.1 hb
        omega)
    rcases hr2 : addDerivedUb true vs s1 (edge s.g 0 y.succ) x.succ k with _ | s2
    · rw [hr2] at h2
      simp only [StepGood]
      exact fun v hv hc => h2 v (hf1 v hv ((hA v).1 hc)) ⟨hv, (hA v).1 hc⟩
    rw [hr2] at h2
    obtain ⟨hm2, hb2, hf2⟩ := h2
    simp only
    rw [closeBoundsEnd_true]
    have sp := addDiffEdge_true_spec vs hvs hnd s2 hm2 y.succ x.succ hy0 hx0 hne k
    rcases hr3 : addDiffEdge true vs s2 y.succ x.succ k with _ | s3
    · rw [hr3] at sp
      simp only [StepGood] at sp ⊢
      exact fun v hv hc => sp v (hf2 v (hf1 v hv ((hA v).1 hc)) ⟨hv, (hA v).1 hc⟩) ((hA v).1 hc)
    · rw [hr3] at sp
      simp only [StepGood] at sp ⊢
      refine ⟨sp.1, fun v => ?_⟩
      rw [sp.2 v]
      constructor
      · rintro ⟨h, hc⟩; exact ⟨hb1 v (hb2 v h), hc⟩
      · rintro ⟨h, hc⟩; exact ⟨hf2 v (hf1 v h ((hA v).1 hc)) ⟨h, (hA v).1 hc⟩, hc⟩

/-- `operator+=` of one in-language constraint, both settings of `close_bounds_inline` -/
theorem addCst_spec' (inl : Bool) (vs : List (Fin (n + 1))) (hvs : ∀ v, v ∈ vs) (hnd : vs.Nodup)
    (s : SG n) (hg : Good s) (c : Zones.Cst n) : StepGood (cstV c) s (addCst inl vs s c) := by
  cases inl with
  | false => exact addCst_spec vs hvs hnd s hg c
  | true => exact addCst_true_spec vs hvs hnd s hg c

theorem histRel_step' (inl : Bool) (vs : List (Fin (n + 1))) (hvs : ∀ v, v ∈ vs) (hnd : vs.Nodup)
    (acc : Option (SG n)) (z : Zone n) (c : Zones.Cst n) (h : HistRel acc z) :
    HistRel (addStep inl vs acc c) (assumeCst z c) := by
  cases acc with
  | none =>
    intro v hv
    exact h v ((assumeCst_sat z c v).1 hv).1
  | some s =>
    obtain ⟨hg, he⟩ := h
    have sp := addCst_spec' inl vs hvs hnd s hg c
    show HistRel (addCst inl vs s c) (assumeCst z c)
    rcases hq : addCst inl vs s c with _ | s'
    · rw [hq] at sp
      intro v hv
      obtain ⟨h1, h2⟩ := (assumeCst_sat z c v).1 hv
      exact sp v ((he v).2 h1) h2
    · rw [hq] at sp
      refine ⟨sp.1, fun v => ?_⟩
      rw [sp.2 v, he v, assumeCst_sat]

/-- a history of constraints, both settings of `close_bounds_inline` -/
theorem addAll_spec' (inl : Bool) (vs : List (Fin (n + 1))) (hvs : ∀ v, v ∈ vs) (hnd : vs.Nodup)
    (cs : List (Zones.Cst n)) : HistRel (addAll inl vs cs) (assumeAll (Zones.top : Zone n) cs) := by
  have gen : ∀ (cs : List (Zones.Cst n)) (acc : Option (SG n)) (z : Zone n), HistRel acc z →
      HistRel (cs.foldl (addStep inl vs) acc) (assumeAll z cs) := by
    intro cs
    induction cs with
    | nil => intro acc z h; exact h
    | cons c cs ih =>
      intro acc z h
      simp only [List.foldl_cons, assumeAll]
      exact ih _ _ (histRel_step' inl vs hvs hnd acc z c h)
  apply gen cs (some SG.top) Zones.top
  exact ⟨good_top, fun v => ⟨fun _ => Mat.top_sat v, fun _ i j k hk => by simp [SG.top] at hk⟩⟩

end DbmIncr
end Crab
