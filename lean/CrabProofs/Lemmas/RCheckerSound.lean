import CrabModel.Analysis.RChecker

/-!
  Soundness of the model of the assertion checker on programs with references
  (`CrabModel/Analysis/RChecker.lean`) w.r.t. the executable semantics
  (`CrabModel/IR/RSemantics.lean`): `reference_constraint::negate` is the logical negation, the
  three decision rules, then the statement loop of a block.
-/
namespace Crab
namespace Analysis
open Crab.RIR

variable {A : Type}

theorem decide_eq_not_decide {p q : Prop} [ip : Decidable p] [iq : Decidable q] (h : p ↔ ¬q) :
    @decide p ip = !(@decide q iq) := by
  by_cases hq : q <;> simp [hq, h]

/-- `reference_constraint::negate` returns a constraint that holds exactly when the original
    does not -/
theorem RefCst.negate_holds (c nc : RefCst) (σ : RState) (h : c.negate = some nc) :
    nc.holds σ = !c.holds σ := by
  obtain ⟨k, lhs, rhs, off⟩ := c
  unfold RefCst.negate at h
  cases lhs <;> cases rhs <;> cases k <;>
    simp [RefCst.isContradiction, RefCst.isTautology, RefCst.mkTrue, RefCst.mkFalse, RefCst.mk'] at h <;>
    subst h <;>
    simp [RefCst.holds, RKind.cmp, refAddr]
  all_goals (apply decide_eq_not_decide; omega)

theorem checkAssertRef_safe (D : RCheckDom A) (inv : A) (c : RefCst) (σ : RState)
    (h : checkAssertRef D inv c = some .safe) (hγ : D.γ inv σ) : c.holds σ = true := by
  unfold checkAssertRef at h
  split at h
  · cases h
  · split at h
    · cases h
    · rename_i nc hn
      split at h
      · rename_i hb
        cases hc : c.holds σ with
        | true => rfl
        | false =>
          have hneg : nc.holds σ = true := by rw [RefCst.negate_holds c nc σ hn, hc]; rfl
          exact absurd (D.refAssume_sound inv nc σ hγ hneg) (D.isBottom_sound _ σ hb)
      · cases h

theorem checkAssertRef_unreachable (D : RCheckDom A) (inv : A) (c : RefCst) (σ : RState)
    (h : checkAssertRef D inv c = some .unreachable) : ¬ D.γ inv σ := by
  unfold checkAssertRef at h
  split at h
  · rename_i hb; exact D.isBottom_sound inv σ hb
  · split at h
    · cases h
    · split at h <;> cases h

theorem rcheckAssert_safe (D : RCheckDom A) (inv : A) (c : IR.Cst) (σ : RState)
    (h : rcheckAssert D inv c = .safe) (hγ : D.γ inv σ) : c.holds (toIR D.nI σ) = true := by
  unfold rcheckAssert at h
  split at h
  · split at h
    · rename_i hb; exact absurd hγ (D.isBottom_sound inv σ hb)
    · cases h
  · split at h
    · cases h
    · split at h
      · rename_i he; exact D.entails_sound inv c σ he hγ
      · cases h

theorem rcheckAssert_unreachable (D : RCheckDom A) (inv : A) (c : IR.Cst) (σ : RState)
    (h : rcheckAssert D inv c = .unreachable) : ¬ D.γ inv σ := by
  unfold rcheckAssert at h
  split at h
  · split at h <;> cases h
  · split at h
    · rename_i hb; exact D.isBottom_sound inv σ hb
    · split at h <;> cases h

theorem rcheckBoolAssert_safe (D : RCheckDom A) (inv : A) (b : Nat) (σ : RState)
    (h : rcheckBoolAssert D inv b = .safe) (hγ : D.γ inv σ) : (toIR D.nI σ).getb b = true := by
  unfold rcheckBoolAssert at h
  split at h
  · cases h
  · split at h
    · rename_i hb
      cases hv : (toIR D.nI σ).getb b with
      | true => rfl
      | false =>
        exact absurd (D.assumeBool_sound inv b true σ hγ (by simp [hv])) (D.isBottom_sound _ σ hb)
    · cases h

theorem rcheckBoolAssert_unreachable (D : RCheckDom A) (inv : A) (b : Nat) (σ : RState)
    (h : rcheckBoolAssert D inv b = .unreachable) : ¬ D.γ inv σ := by
  unfold rcheckBoolAssert at h
  split at h
  · rename_i hb; exact D.isBottom_sound inv σ hb
  · split at h <;> cases h

/-- the statements with a verdict are the assertions -/
theorem rheadVerdict_none_iff (D : RCheckDom A) (s : Stmt) (a : A) :
    rheadVerdict D s a = none ↔ s.isAssert = false := by
  cases s with
  | base s0 => cases s0 <;> simp [rheadVerdict, Stmt.isAssert, IR.Stmt.isAssert]
  | _ => simp [rheadVerdict, Stmt.isAssert]

/-- a verdict at the head of the loop is right about the state the statement is executed in -/
theorem rheadVerdict_sound (D : RCheckDom A) (s : Stmt) (a : A) (v : CheckKind) (σ : RState) (ch : Int)
    (hγ : D.γ a σ) (h : rheadVerdict D s a = some (some v)) :
    v ≠ .unreachable ∧ (v = .safe → stepStmt D.nI s σ ch ≠ .fail) := by
  cases s with
  | base s0 =>
    cases s0 <;> simp [rheadVerdict] at h
    case assert c =>
      refine ⟨?_, ?_⟩
      · intro hu; exact rcheckAssert_unreachable D a c σ (h ▸ hu) hγ
      · intro hs
        have := rcheckAssert_safe D a c σ (h ▸ hs) hγ
        simp [stepStmt, IR.stepStmt, this]
    case bassert b =>
      refine ⟨?_, ?_⟩
      · intro hu; exact rcheckBoolAssert_unreachable D a b σ (h ▸ hu) hγ
      · intro hs
        have := rcheckBoolAssert_safe D a b σ (h ▸ hs) hγ
        simp [stepStmt, IR.stepStmt, this]
  | assertRef c =>
    simp [rheadVerdict] at h
    refine ⟨?_, ?_⟩
    · intro hu; exact checkAssertRef_unreachable D a c σ (by rw [h, hu]) hγ
    · intro hs
      have := checkAssertRef_safe D a c σ (by rw [h, hs]) hγ
      simp [stepStmt, this]
  | _ => simp [rheadVerdict] at h

/-- choice consumed by statement `s` and the rest of the stream -/
def stmtChoice (s : Stmt) (ch : List Int) : Int × List Int :=
  if s.usesChoice then IR.popChoice ch else (0, ch)

/-- the events of a non-empty statement list: the check event of the head (assertions only),
    then the events of the tail when the head has a successor state -/
theorem runStmts_cons_events (nI b i : Nat) (s : Stmt) (ss : List Stmt) (σ : RState) (ch : List Int) :
    (runStmts nI b i (s :: ss) σ ch).events =
      (if s.isAssert then
        [Event.check b i σ (match stepStmt nI s σ (stmtChoice s ch).1 with | .fail => false | _ => true)]
       else []) ++
      (match stepStmt nI s σ (stmtChoice s ch).1 with
       | .next σ' => (runStmts nI b (i + 1) ss σ' (stmtChoice s ch).2).events
       | _ => []) := by
  conv => lhs; unfold runStmts
  simp only [stmtChoice]
  split
  · simp_all
  · simp_all
    rfl

/-- check events carry the block and an index not below the start index -/
theorem runStmts_check_index (nI b : Nat) :
    ∀ (ss : List Stmt) (i : Nat) (σ : RState) (ch : List Int) (b' j : Nat) (σ' : RState) (ok : Bool),
      Event.check b' j σ' ok ∈ (runStmts nI b i ss σ ch).events → i ≤ j := by
  intro ss
  induction ss with
  | nil => intro i σ ch b' j σ' ok h; simp [runStmts] at h
  | cons s ss ih =>
    intro i σ ch b' j σ' ok h
    rw [runStmts_cons_events] at h
    simp only [List.mem_append] at h
    rcases h with h | h
    · split at h
      · simp only [List.mem_singleton] at h
        injection h with _ hj _ _
        omega
      · simp at h
    · split at h
      · have := ih _ _ _ _ _ _ _ h; omega
      · simp at h

theorem rcheckStmts_index_ge (D : RCheckDom A) (tr : Stmt → A → A) :
    ∀ (ss : List Stmt) (i : Nat) (a : A) (res : List (Nat × CheckKind)) (j : Nat) (v : CheckKind),
      rcheckStmts D tr i ss a = some res → (j, v) ∈ res → i ≤ j := by
  intro ss
  induction ss with
  | nil => intro i a res j v h hm; simp [rcheckStmts] at h; subst h; simp at hm
  | cons s ss ih =>
    intro i a res j v h hm
    unfold rcheckStmts at h
    split at h
    · have := ih _ _ _ _ _ h hm; omega
    · cases h
    · split at h
      · cases h
      · rename_i rest hr
        injection h with h
        subst h
        simp only [List.mem_cons] at hm
        rcases hm with hm | hm
        · injection hm with hj _; omega
        · have := ih _ _ _ _ _ hr hm; omega

/-- the statement loop: in any execution of the statements started in a state of the invariant
    the loop starts from, an assertion classified `unreachable` is not executed and one
    classified `safe` does not fail -/
theorem rcheckStmts_sound (D : RCheckDom A) (tr : Stmt → A → A) (htr : RTrSound D tr) (b : Nat) :
    ∀ (ss : List Stmt) (i : Nat) (a : A) (σ : RState) (ch : List Int) (res : List (Nat × CheckKind)),
      D.γ a σ → rcheckStmts D tr i ss a = some res →
      ∀ (j : Nat) (σ' : RState) (ok : Bool) (v : CheckKind),
        Event.check b j σ' ok ∈ (runStmts D.nI b i ss σ ch).events → (j, v) ∈ res →
        v ≠ .unreachable ∧ (v = .safe → ok = true) := by
  intro ss
  induction ss with
  | nil => intro i a σ ch res _ _ j σ' ok v hev; simp [runStmts] at hev
  | cons s ss ih =>
    intro i a σ ch res hγ hres j σ' ok v hev hv
    rw [runStmts_cons_events] at hev
    simp only [List.mem_append] at hev
    unfold rcheckStmts at hres
    split at hres
    · -- not an assertion
      rename_i hnone
      have hna : s.isAssert = false := (rheadVerdict_none_iff D s a).1 hnone
      rcases hev with hev | hev
      · simp [hna] at hev
      · split at hev
        · rename_i σ1 hs
          exact ih _ _ _ _ _ (htr s a σ _ σ1 hγ hs) hres j σ' ok v hev hv
        · simp at hev
    · cases hres
    · rename_i v0 hsome
      have hia : s.isAssert = true := by
        cases hq : s.isAssert with
        | true => rfl
        | false => rw [(rheadVerdict_none_iff D s a).2 hq] at hsome; cases hsome
      have hhead := rheadVerdict_sound D s a v0 σ (stmtChoice s ch).1 hγ hsome
      split at hres
      · cases hres
      · rename_i rest hr
        injection hres with hres
        subst hres
        simp only [List.mem_cons] at hv
        rcases hev with hev | hev
        · -- the head event
          simp only [hia, if_true, List.mem_singleton] at hev
          injection hev with _ hj _ hok
          rcases hv with hv | hv
          · injection hv with _ hvv
            subst hvv
            refine ⟨hhead.1, fun hs => ?_⟩
            have hnf := hhead.2 hs
            rw [hok]
            split
            · rename_i hf; exact absurd hf hnf
            · rfl
          · have := rcheckStmts_index_ge D tr _ _ _ _ _ _ hr hv; omega
        · -- an event of the tail
          split at hev
          · rename_i σ1 hs
            rcases hv with hv | hv
            · have := runStmts_check_index D.nI b _ _ _ _ _ _ _ _ hev
              injection hv with hj _; omega
            · have hγ1 : D.γ (if v0 == .unreachable then a else tr s a) σ1 := by
                split
                · rename_i hu
                  exact absurd (by simpa using hu) hhead.1
                · exact htr s a σ _ σ1 hγ hs
              exact ih _ _ _ _ _ hγ1 hr j σ' ok v hev hv
          · simp at hev

/-- check events of the statements of block `b` carry the label `b` -/
theorem runStmts_check_block (nI b : Nat) :
    ∀ (ss : List Stmt) (i : Nat) (σ : RState) (ch : List Int) (b' j : Nat) (σ' : RState) (ok : Bool),
      Event.check b' j σ' ok ∈ (runStmts nI b i ss σ ch).events → b' = b := by
  intro ss
  induction ss with
  | nil => intro i σ ch b' j σ' ok h; simp [runStmts] at h
  | cons s ss ih =>
    intro i σ ch b' j σ' ok h
    rw [runStmts_cons_events] at h
    simp only [List.mem_append] at h
    rcases h with h | h
    · split at h
      · simp only [List.mem_singleton] at h
        injection h with hb _ _ _
      · simp at h
    · split at h
      · exact ih _ _ _ _ _ _ _ h
      · simp at h

/-- every `check` event of a trace lies in the run of a block the trace enters, started in the
    state of the `enter` event -/
theorem rexec_check_of_enter (p : Program) :
    ∀ (fuel b0 : Nat) (σ0 : RState) (ch : List Int) (b j : Nat) (σ' : RState) (ok : Bool),
      Event.check b j σ' ok ∈ exec p fuel b0 σ0 ch →
      ∃ σ ch', Event.enter b σ ∈ exec p fuel b0 σ0 ch ∧
               Event.check b j σ' ok ∈ (runBlock p b σ ch').events := by
  intro fuel
  induction fuel with
  | zero => intro b0 σ0 ch b j σ' ok h; simp [exec] at h
  | succ fuel ih =>
    intro b0 σ0 ch b j σ' ok h
    unfold exec at h ⊢
    simp only [List.mem_cons, List.mem_append] at h ⊢
    rcases h with h | h | h
    · cases h
    · have hb := runStmts_check_block p.nI b0 _ 0 σ0 ch _ _ _ _ h
      subst hb
      exact ⟨σ0, ch, Or.inl rfl, h⟩
    · split at h
      · rename_i σ1 hres
        simp only [List.mem_cons] at h
        rcases h with h | h
        · cases h
        · split at h
          · simp at h
          · rename_i s ch1 hp
            obtain ⟨σ, ch', he, hc⟩ := ih s σ1 ch1 b j σ' ok h
            refine ⟨σ, ch', Or.inr (Or.inr ?_), hc⟩
            simp only [List.mem_cons]
            exact Or.inr he
      · simp at h

end Analysis
end Crab
