import CrabProofs.Lemmas.OctTight
import CrabProofs.Lemmas.DbmPotential

/-!
  Integer completeness of the tight closure of octagons (Bagnara–Hill–Zaffanella):
  a tightly closed coherent matrix has an integer point, every finite entry is attained by an
  integer point and every infinite entry is unbounded over the integer points.
  Hence the emptiness test, the entailment test and the bounds of the model are exact.
-/
namespace Crab
namespace Octagon
open Dbm

variable {n : Nat}

/-! ### choosing an integer between finitely many bounds -/

theorem minOver_none {N : Nat} {f : Fin N → W} (h : Mat.minOver f = none) (u : Fin N) :
    f u = none := by
  have := Mat.minOver_LE f u
  rw [h] at this
  cases hf : f u with
  | none => rfl
  | some b =>
    rw [hf] at this
    obtain ⟨_, hx, _⟩ := this b rfl
    cases hx

theorem minOver_some {N : Nat} {f : Fin N → W} {b0 : Int} (h : Mat.minOver f = some b0) :
    (∃ u, f u = some b0) ∧ ∀ u b, f u = some b → b0 ≤ b := by
  constructor
  · rcases Mat.minOver_eq f with h' | ⟨u, h'⟩
    · rw [h] at h'; cases h'
    · exact ⟨u, by rw [← h', h]⟩
  · intro u b hu
    have := Mat.minOver_LE f u
    rw [h, hu] at this
    exact W.LE_some_some.1 this

/-- an integer below all the upper bounds `up j`, above all the lower bounds `-lo i`, and above
    any `M` that is below all the upper bounds -/
theorem exists_between_ge {N : Nat} (up lo : Fin N → W)
    (h : ∀ i j a b, lo i = some a → up j = some b → -a ≤ b) (M : Int)
    (hM : ∀ j b, up j = some b → M ≤ b) :
    ∃ t : Int, (∀ j b, up j = some b → t ≤ b) ∧ (∀ i a, lo i = some a → -t ≤ a) ∧ M ≤ t := by
  cases hB : Mat.minOver up with
  | some b0 =>
    obtain ⟨⟨j0, hj0⟩, hmin⟩ := minOver_some hB
    exact ⟨b0, hmin, fun i a hi => by have := h i j0 a b0 hi hj0; omega, hM j0 b0 hj0⟩
  | none =>
    have hnone := fun u => minOver_none hB u
    cases hA : Mat.minOver lo with
    | none =>
      refine ⟨M, fun j b hj => ?_, fun i a hi => ?_, Int.le_refl _⟩
      · rw [hnone j] at hj; cases hj
      · rw [minOver_none hA i] at hi; cases hi
    | some a0 =>
      obtain ⟨_, hmin⟩ := minOver_some hA
      refine ⟨if M ≤ -a0 then -a0 else M, fun j b hj => ?_, fun i a hi => ?_, ?_⟩
      · rw [hnone j] at hj; cases hj
      · have := hmin i a hi; split <;> omega
      · split <;> omega

theorem exists_between_le {N : Nat} (up lo : Fin N → W)
    (h : ∀ i j a b, lo i = some a → up j = some b → -a ≤ b) (M : Int)
    (hM : ∀ i a, lo i = some a → -a ≤ M) :
    ∃ t : Int, (∀ j b, up j = some b → t ≤ b) ∧ (∀ i a, lo i = some a → -t ≤ a) ∧ t ≤ M := by
  obtain ⟨t, h1, h2, h3⟩ := exists_between_ge lo up
    (fun i j a b hi hj => by have := h j i b a hj hi; omega) (-M)
    (fun j b hj => by have := hM j b hj; omega)
  exact ⟨-t, fun j b hj => by have := h2 j b hj; omega, fun i a hi => by have := h1 i a hi; omega,
    by omega⟩

theorem exists_between {N : Nat} (up lo : Fin N → W)
    (h : ∀ i j a b, lo i = some a → up j = some b → -a ≤ b) :
    ∃ t : Int, (∀ j b, up j = some b → t ≤ b) ∧ (∀ i a, lo i = some a → -t ≤ a) := by
  cases hB : Mat.minOver up with
  | some b0 =>
    obtain ⟨t, h1, h2, _⟩ := exists_between_ge up lo h b0 (minOver_some hB).2
    exact ⟨t, h1, h2⟩
  | none =>
    obtain ⟨t, h1, h2, _⟩ := exists_between_ge up lo h 0
      (fun j b hj => by rw [minOver_none hB j] at hj; cases hj)
    exact ⟨t, h1, h2⟩

/-! ### tightly closed matrices -/

/-- a tightly closed matrix: what `close` produces on a coherent non-bottom input
    (`strong` is the strong closure `2 c i j ≤ c i ī + c j̄ j`, not a consequence of the others) -/
structure TightClosed (c : Oct n) : Prop where
  closed : Mat.Closed c
  coh : Coherent c
  even : ∀ i k, c.get i (bar i) = some k → k % 2 = 0
  strong : ∀ i j, W.LE (c.get i j) (W.half (W.add (c.get i (bar i)) (c.get (bar j) j)))

namespace TightClosed
variable {c : Oct n}

theorem tri' (h : TightClosed c) {i k j : Fin (2 * n)} {p q : Int}
    (h1 : c.get i k = some p) (h2 : c.get k j = some q) :
    ∃ r, c.get i j = some r ∧ r ≤ p + q := by
  have := h.closed.tri i j k
  rw [h1, h2] at this
  exact this _ rfl

theorem strong' (h : TightClosed c) {i j : Fin (2 * n)} {p q : Int}
    (h1 : c.get i (bar i) = some p) (h2 : c.get (bar j) j = some q) :
    ∃ r, c.get i j = some r ∧ 2 * r ≤ p + q := by
  have := h.strong i j
  rw [h1, h2] at this
  obtain ⟨r, hr, hle⟩ := this _ rfl
  exact ⟨r, hr, by omega⟩

theorem even' (h : TightClosed c) {i : Fin (2 * n)} {k : Int} (hk : c.get (bar i) i = some k) :
    k % 2 = 0 :=
  h.even (bar i) k (by rw [bar_bar]; exact hk)

/-- `c j̄ ī = c i j` -/
theorem coh' (h : TightClosed c) {i j : Fin (2 * n)} {k : Int} (hk : c.get i j = some k) :
    c.get (bar j) (bar i) = some k := by
  rw [← h.coh i j]; exact hk

theorem diag' (h : TightClosed c) {i : Fin (2 * n)} {k : Int} (hk : c.get i i = some k) : k = 0 := by
  rw [h.closed.diag] at hk; cases hk; rfl

end TightClosed

/-! ### coherent valuations of the literals -/

/-- valuations of the literals induced by states -/
def CohVal (v : Fin (2 * n) → Int) : Prop := ∀ i, v (bar i) = - v i

theorem ext_cohVal (σ : State n) : CohVal (ext σ) := ext_bar σ

theorem cohVal_eq_ext {v : Fin (2 * n) → Int} (hv : CohVal v) : v = ext (fun x => v (pos x)) := by
  funext i
  unfold ext
  split
  · rename_i hi
    congr 1; apply Fin.ext; simp only [pos, varOf]; omega
  · rename_i hi
    have e : i = neg (varOf i) := by apply Fin.ext; simp only [neg, varOf]; omega
    have := hv (pos (varOf i))
    rw [bar_pos, ← e] at this
    exact this

/-- set the literal `a` to `t` (and its opposite to `-t`) -/
def updL (v : Fin (2 * n) → Int) (a : Fin (2 * n)) (t : Int) : Fin (2 * n) → Int :=
  fun i => if i = a then t else if i = bar a then -t else v i

theorem updL_self (v : Fin (2 * n) → Int) (a : Fin (2 * n)) (t : Int) : updL v a t a = t := by
  simp only [updL, if_true]

theorem updL_bar (v : Fin (2 * n) → Int) (a : Fin (2 * n)) (t : Int) : updL v a t (bar a) = -t := by
  simp only [updL, bar_ne a, if_false, if_true]

theorem updL_of_ne (v : Fin (2 * n) → Int) {a i : Fin (2 * n)} (t : Int) (h : varOf i ≠ varOf a) :
    updL v a t i = v i := by
  have h1 : i ≠ a := fun e => h (by rw [e])
  have h2 : i ≠ bar a := fun e => h (by rw [e, varOf_bar])
  simp only [updL, h1, h2, if_false]

theorem updL_cohVal {v : Fin (2 * n) → Int} (hv : CohVal v) (a : Fin (2 * n)) (t : Int) :
    CohVal (updL v a t) := by
  intro i
  by_cases h1 : i = a
  · subst h1; rw [updL_bar, updL_self]
  · by_cases h2 : i = bar a
    · subst h2; rw [bar_bar, updL_bar, updL_self]; omega
    · have h3 : bar i ≠ a := fun e => h2 (by rw [← e, bar_bar])
      have h4 : bar i ≠ bar a := fun e => h1 (bar_inj e)
      simp only [updL, h1, h2, h3, h4, if_false]
      exact hv i

theorem lit_cases {i a : Fin (2 * n)} (h : varOf i = varOf a) : i = a ∨ i = bar a := by
  have h' : i.val / 2 = a.val / 2 := congrArg Fin.val h
  by_cases e : i.val = a.val
  · left; exact Fin.ext e
  · right; apply Fin.ext; rw [bar_val]; split <;> omega

/-! ### the extension lemma -/

/-- all the constraints between literals of the variables in `S` hold -/
def SatOn (c : Oct n) (S : Fin n → Prop) (v : Fin (2 * n) → Int) : Prop :=
  ∀ i j k, S (varOf i) → S (varOf j) → c.get i j = some k → v i - v j ≤ k

theorem SatOn.mono {c : Oct n} {S S' : Fin n → Prop} {v : Fin (2 * n) → Int} (hs : SatOn c S v)
    (h : ∀ y, S' y → S y) : SatOn c S' v :=
  fun i j k hi hj hk => hs i j k (h _ hi) (h _ hj) hk

/-- what has to be checked to give the value `t` to a new literal `a` -/
theorem satOn_insert {c : Oct n} (h : TightClosed c) {v : Fin (2 * n) → Int} (hv : CohVal v)
    (S : Fin n → Prop) (a : Fin (2 * n)) (t : Int) (hs : SatOn c S v)
    (h1 : ∀ j b, S (varOf j) → c.get a j = some b → t - v j ≤ b)
    (h2 : ∀ i k, S (varOf i) → c.get i a = some k → v i - t ≤ k)
    (h3 : ∀ k, c.get a (bar a) = some k → 2 * t ≤ k)
    (h4 : ∀ k, c.get (bar a) a = some k → -(2 * t) ≤ k) :
    SatOn c (fun y => S y ∨ y = varOf a) (updL v a t) := by
  intro i j k hi hj hk
  have hSi : ∀ i, (S (varOf i) ∨ varOf i = varOf a) →
      (S (varOf i) ∧ varOf i ≠ varOf a) ∨ i = a ∨ i = bar a := by
    intro i hi
    by_cases e : varOf i = varOf a
    · exact Or.inr (lit_cases e)
    · exact Or.inl ⟨hi.resolve_right e, e⟩
  rcases hSi i hi with ⟨si, ni⟩ | ei | ei <;> rcases hSi j hj with ⟨sj, nj⟩ | ej | ej
  · rw [updL_of_ne _ _ ni, updL_of_ne _ _ nj]; exact hs i j k si sj hk
  · subst ej
    rw [updL_of_ne _ _ ni, updL_self]; exact h2 i k si hk
  · subst ej
    rw [updL_of_ne _ _ ni, updL_bar]
    have hk' : c.get a (bar i) = some k := by
      have := h.coh' hk
      rwa [bar_bar] at this
    have := h1 (bar i) k (by rw [varOf_bar]; exact si) hk'
    rw [hv i] at this; omega
  · subst ei
    rw [updL_self, updL_of_ne _ _ nj]; exact h1 j k sj hk
  · subst ei; subst ej
    have := h.diag' hk; omega
  · subst ei; subst ej
    rw [updL_self, updL_bar]; have := h3 k hk; omega
  · subst ei
    rw [updL_bar, updL_of_ne _ _ nj]
    have hk' : c.get (bar j) a = some k := by
      have := h.coh' hk
      rwa [bar_bar] at this
    have := h2 (bar j) k (by rw [varOf_bar]; exact sj) hk'
    rw [hv j] at this; omega
  · subst ei; subst ej
    rw [updL_self, updL_bar]; have := h4 k hk; omega
  · subst ei; subst ej
    have := h.diag' hk; omega

/-- upper bounds on the value of the new literal `a` -/
def upB (c : Oct n) (S : Fin n → Prop) [DecidablePred S] (v : Fin (2 * n) → Int) (a : Fin (2 * n)) :
    Fin (2 * n) → W :=
  fun j => if j = a then W.half (c.get a (bar a))
    else if S (varOf j) then W.add (c.get a j) (some (v j)) else none

/-- lower bounds (negated) on the value of the new literal `a` -/
def loB (c : Oct n) (S : Fin n → Prop) [DecidablePred S] (v : Fin (2 * n) → Int) (a : Fin (2 * n)) :
    Fin (2 * n) → W :=
  fun i => if i = a then W.half (c.get (bar a) a)
    else if S (varOf i) then W.add (c.get i a) (some (-v i)) else none

theorem upB_self {c : Oct n} {S : Fin n → Prop} [DecidablePred S] {v : Fin (2 * n) → Int}
    {a : Fin (2 * n)} {k : Int} (hk : c.get a (bar a) = some k) : upB c S v a a = some (k / 2) := by
  simp only [upB, if_true, hk, W.half]

theorem loB_self {c : Oct n} {S : Fin n → Prop} [DecidablePred S] {v : Fin (2 * n) → Int}
    {a : Fin (2 * n)} {k : Int} (hk : c.get (bar a) a = some k) : loB c S v a a = some (k / 2) := by
  simp only [loB, if_true, hk, W.half]

theorem upB_of_S {c : Oct n} {S : Fin n → Prop} [DecidablePred S] {v : Fin (2 * n) → Int}
    {a j : Fin (2 * n)} (ha : ¬ S (varOf a)) (hj : S (varOf j)) {k : Int} (hk : c.get a j = some k) :
    upB c S v a j = some (k + v j) := by
  have : j ≠ a := fun e => ha (by rw [← e]; exact hj)
  simp only [upB, this, if_false, hj, if_true, hk, W.add]

theorem loB_of_S {c : Oct n} {S : Fin n → Prop} [DecidablePred S] {v : Fin (2 * n) → Int}
    {a i : Fin (2 * n)} (ha : ¬ S (varOf a)) (hi : S (varOf i)) {k : Int} (hk : c.get i a = some k) :
    loB c S v a i = some (k + -v i) := by
  have : i ≠ a := fun e => ha (by rw [← e]; exact hi)
  simp only [loB, this, if_false, hi, if_true, hk, W.add]

theorem upB_cases {c : Oct n} {S : Fin n → Prop} [DecidablePred S] {v : Fin (2 * n) → Int}
    {a j : Fin (2 * n)} {y : Int} (hy : upB c S v a j = some y) :
    (∃ k, c.get a (bar a) = some k ∧ y = k / 2) ∨
    (S (varOf j) ∧ ∃ k, c.get a j = some k ∧ y = k + v j) := by
  unfold upB at hy
  split at hy
  · left
    cases hg : c.get a (bar a) with
    | none => rw [hg] at hy; cases hy
    | some k => rw [hg] at hy; simp only [W.half] at hy; cases hy; exact ⟨k, rfl, rfl⟩
  · split at hy
    · rename_i hs
      right
      obtain ⟨p, q, hp, hq, rfl⟩ := W.add_some_iff.1 hy
      cases hq
      exact ⟨hs, p, hp, rfl⟩
    · cases hy

theorem loB_cases {c : Oct n} {S : Fin n → Prop} [DecidablePred S] {v : Fin (2 * n) → Int}
    {a i : Fin (2 * n)} {x : Int} (hx : loB c S v a i = some x) :
    (∃ k, c.get (bar a) a = some k ∧ x = k / 2) ∨
    (S (varOf i) ∧ ∃ k, c.get i a = some k ∧ x = k + -v i) := by
  unfold loB at hx
  split at hx
  · left
    cases hg : c.get (bar a) a with
    | none => rw [hg] at hx; cases hx
    | some k => rw [hg] at hx; simp only [W.half] at hx; cases hx; exact ⟨k, rfl, rfl⟩
  · split at hx
    · rename_i hs
      right
      obtain ⟨p, q, hp, hq, rfl⟩ := W.add_some_iff.1 hx
      cases hq
      exact ⟨hs, p, hp, rfl⟩
    · cases hx

/-- every lower bound is below every upper bound -/
theorem upB_loB_compat {c : Oct n} (h : TightClosed c) {v : Fin (2 * n) → Int} (hv : CohVal v)
    (S : Fin n → Prop) [DecidablePred S] (a : Fin (2 * n)) (hs : SatOn c S v) :
    ∀ i j x y, loB c S v a i = some x → upB c S v a j = some y → -x ≤ y := by
  intro i j x y hx hy
  rcases loB_cases hx with ⟨A, hA, rfl⟩ | ⟨si, p, hp, rfl⟩ <;>
  rcases upB_cases hy with ⟨B, hB, rfl⟩ | ⟨sj, q, hq, rfl⟩
  · obtain ⟨r, hr, hle⟩ := h.tri' hA hB
    have := h.diag' hr
    have := h.even' hA
    have := h.even _ _ hB
    omega
  · -- -(A/2) ≤ q + v j
    obtain ⟨r1, hr1, hle1⟩ := h.tri' hA hq
    have hr1' : c.get (bar j) a = some r1 := by
      have := h.coh' hr1; rwa [bar_bar] at this
    obtain ⟨r2, hr2, hle2⟩ := h.tri' hr1' hq
    have := hs (bar j) j r2 (by rw [varOf_bar]; exact sj) sj hr2
    rw [hv j] at this
    have := h.even' hA
    omega
  · -- v i - p ≤ B/2
    obtain ⟨r1, hr1, hle1⟩ := h.tri' hp hB
    have hr1' : c.get a (bar i) = some r1 := by
      have := h.coh' hr1; rwa [bar_bar] at this
    obtain ⟨r2, hr2, hle2⟩ := h.tri' hp hr1'
    have := hs i (bar i) r2 si (by rw [varOf_bar]; exact si) hr2
    rw [hv i] at this
    have := h.even _ _ hB
    omega
  · obtain ⟨r, hr, hle⟩ := h.tri' hp hq
    have := hs i j r si sj hr
    omega

/-- a value between the bounds extends the partial solution -/
theorem satOn_of_bounds {c : Oct n} (h : TightClosed c) {v : Fin (2 * n) → Int} (hv : CohVal v)
    (S : Fin n → Prop) [DecidablePred S] (a : Fin (2 * n)) (ha : ¬ S (varOf a)) (hs : SatOn c S v)
    (t : Int) (hup : ∀ j b, upB c S v a j = some b → t ≤ b)
    (hlo : ∀ i x, loB c S v a i = some x → -t ≤ x) :
    SatOn c (fun y => S y ∨ y = varOf a) (updL v a t) := by
  apply satOn_insert h hv S a t hs
  · intro j b sj hb
    have := hup j _ (upB_of_S ha sj hb); omega
  · intro i k si hk
    have := hlo i _ (loB_of_S ha si hk); omega
  · intro k hk
    have := hup a _ (upB_self hk); omega
  · intro k hk
    have := hlo a _ (loB_self hk); omega

/-- **extension lemma**: a solution of the constraints over the variables of `S` extends to one
    more variable -/
theorem extend_one {c : Oct n} (h : TightClosed c) {v : Fin (2 * n) → Int} (hv : CohVal v)
    (S : Fin n → Prop) [DecidablePred S] (a : Fin (2 * n)) (ha : ¬ S (varOf a)) (hs : SatOn c S v) :
    ∃ t, SatOn c (fun y => S y ∨ y = varOf a) (updL v a t) := by
  obtain ⟨t, h1, h2⟩ := exists_between _ _ (upB_loB_compat h hv S a hs)
  exact ⟨t, satOn_of_bounds h hv S a ha hs t h1 h2⟩

/-- a solution of the constraints over the variables of `S` extends to a solution of `c` -/
theorem extend_all {c : Oct n} (h : TightClosed c) {v : Fin (2 * n) → Int} (hv : CohVal v)
    (S : Fin n → Prop) [DecidablePred S] (hs : SatOn c S v) :
    ∃ v', CohVal v' ∧ c.sat v' ∧ ∀ i, S (varOf i) → v' i = v i := by
  have step : ∀ k, k ≤ n → ∃ v', CohVal v' ∧ SatOn c (fun y => S y ∨ y.val < k) v' ∧
      ∀ i, S (varOf i) → v' i = v i := by
    intro k
    induction k with
    | zero =>
      intro _
      exact ⟨v, hv, hs.mono (fun y hy => hy.resolve_right (Nat.not_lt_zero _)), fun _ _ => rfl⟩
    | succ k ih =>
      intro hk
      obtain ⟨v1, hv1, hs1, he1⟩ := ih (by omega)
      let x : Fin n := ⟨k, by omega⟩
      by_cases hx : S x
      · refine ⟨v1, hv1, hs1.mono ?_, he1⟩
        intro y hy
        rcases hy with hy | hy
        · exact Or.inl hy
        · by_cases e : y.val = k
          · left
            have : y = x := Fin.ext e
            rw [this]; exact hx
          · right; omega
      · have hnx : ¬ (S (varOf (pos x)) ∨ (varOf (pos x)).val < k) := by
          rw [varOf_pos]
          intro hh
          rcases hh with hh | hh
          · exact hx hh
          · simp only [x] at hh; omega
        obtain ⟨t, ht⟩ := extend_one h hv1 (fun y => S y ∨ y.val < k) (pos x) hnx hs1
        refine ⟨updL v1 (pos x) t, updL_cohVal hv1 _ _, ht.mono ?_, ?_⟩
        · intro y hy
          rcases hy with hy | hy
          · exact Or.inl (Or.inl hy)
          · by_cases e : y.val = k
            · right
              rw [varOf_pos]; exact Fin.ext e
            · left; right; omega
        · intro i si
          rw [updL_of_ne, he1 i si]
          rw [varOf_pos]
          intro e
          rw [e] at si; exact hx si
  obtain ⟨v', hv', hs', he'⟩ := step n (Nat.le_refl n)
  exact ⟨v', hv', fun i j k hk => hs' i j k (Or.inr (varOf i).isLt) (Or.inr (varOf j).isLt) hk, he'⟩

/-- a coherent solution is the extension of a state -/
theorem exists_state_of_cohVal {c : Oct n} {v : Fin (2 * n) → Int} (hv : CohVal v) (hs : c.sat v) :
    ∃ σ : State n, c.sat (ext σ) ∧ ext σ = v := by
  refine ⟨fun x => v (pos x), ?_, (cohVal_eq_ext hv).symm⟩
  rw [← cohVal_eq_ext hv]; exact hs

/-- **a tightly closed matrix has an integer point** -/
theorem tightClosed_sat (c : Oct n) (h : TightClosed c) : ∃ σ, c.sat (ext σ) := by
  obtain ⟨v', hv', hs', _⟩ := extend_all h (v := fun _ => 0) (fun _ => by simp) (fun _ => False)
    (fun _ _ _ hi => hi.elim)
  obtain ⟨σ, hσ, _⟩ := exists_state_of_cohVal hv' hs'
  exact ⟨σ, hσ⟩

/-! ### the tight closure is tightly closed -/

theorem W_add_self_even {a : W} {k : Int} (h : W.add a a = some k) : k % 2 = 0 := by
  cases a <;> simp [W.add] at h
  omega

theorem close_tightClosed (o : Oct n) (hco : Coherent o) (hb : isBottom o = false) :
    TightClosed (close o) := by
  obtain ⟨hcl, hcoh⟩ := close_closed o hco hb
  refine ⟨hcl, hcoh, ?_, ?_⟩
  · intro i k hk
    unfold close at hk
    rw [strengthen_tighten_get_unary] at hk
    exact W_add_self_even hk
  · intro i j
    unfold close
    have e1 := strengthen_tighten_get_unary (Mat.fw o) i
    have e2 := strengthen_tighten_get_unary (Mat.fw o) (bar j)
    rw [bar_bar] at e2
    rw [e1, e2, ← tighten_get_unary]
    have e3 := tighten_get_unary (Mat.fw o) (bar j)
    rw [bar_bar] at e3
    rw [← e3]
    simp only [strengthen, Mat.get_ofFn]
    exact W.min_LE_right _ _

/-- **the emptiness test is exact over the integers** -/
theorem bottom_iff_unsat (o : Oct n) (hco : Coherent o) : isBottom o = true ↔ ¬ ∃ σ, γ o σ := by
  constructor
  · exact bottom_sound o
  · intro hno
    cases hb : isBottom o
    · exfalso
      obtain ⟨σ, hσ⟩ := tightClosed_sat _ (close_tightClosed o hco hb)
      exact hno ⟨σ, (close_preserves_γ o σ).1 hσ⟩
    · rfl

/-! ### points with prescribed values -/

theorem cohVal_zero : CohVal (fun _ : Fin (2 * n) => (0 : Int)) := fun _ => by simp

/-- a partial solution extends to a state -/
theorem extend_state {c : Oct n} (h : TightClosed c) {v : Fin (2 * n) → Int} (hv : CohVal v)
    (S : Fin n → Prop) [DecidablePred S] (hs : SatOn c S v) :
    ∃ σ : State n, c.sat (ext σ) ∧ ∀ i, S (varOf i) → ext σ i = v i := by
  obtain ⟨v', hv', hs', he⟩ := extend_all h hv S hs
  obtain ⟨σ, hσ, e⟩ := exists_state_of_cohVal hv' hs'
  exact ⟨σ, hσ, fun i si => by rw [e]; exact he i si⟩

theorem satOn_single {c : Oct n} (h : TightClosed c) (a : Fin (2 * n)) (t : Int)
    (h3 : ∀ k, c.get a (bar a) = some k → 2 * t ≤ k)
    (h4 : ∀ k, c.get (bar a) a = some k → -(2 * t) ≤ k) :
    SatOn c (fun y => y = varOf a) (updL (fun _ => 0) a t) :=
  (satOn_insert h cohVal_zero (fun _ => False) a t (fun _ _ _ hi => hi.elim)
    (fun _ _ hj => hj.elim) (fun _ _ hi => hi.elim) h3 h4).mono (fun _ hy => Or.inr hy)

/-- any value within the unary bounds of a literal is taken by an integer point -/
theorem unary_point {c : Oct n} (h : TightClosed c) (a : Fin (2 * n)) (t : Int)
    (h3 : ∀ k, c.get a (bar a) = some k → 2 * t ≤ k)
    (h4 : ∀ k, c.get (bar a) a = some k → -(2 * t) ≤ k) :
    ∃ σ : State n, c.sat (ext σ) ∧ ext σ a = t := by
  obtain ⟨σ, hσ, he⟩ := extend_state h (updL_cohVal cohVal_zero a t) (fun y => y = varOf a)
    (satOn_single h a t h3 h4)
  exact ⟨σ, hσ, by rw [he a rfl, updL_self]⟩

theorem unary_attained {c : Oct n} (h : TightClosed c) (a : Fin (2 * n)) {d : Int}
    (hd : c.get a (bar a) = some d) : ∃ σ : State n, c.sat (ext σ) ∧ ext σ a - ext σ (bar a) = d := by
  have hev := h.even _ _ hd
  obtain ⟨σ, hσ, he⟩ := unary_point h a (d / 2)
    (fun k hk => by rw [hd] at hk; cases hk; omega)
    (fun k hk => by
      obtain ⟨r, hr, hle⟩ := h.tri' hd hk
      have := h.diag' hr; omega)
  exact ⟨σ, hσ, by rw [ext_bar, he]; omega⟩

theorem exists_bound (w : W) (f : Int → Int) : ∃ M : Int, 0 ≤ M ∧ ∀ k, w = some k → f k ≤ M := by
  cases w with
  | none => exact ⟨0, Int.le_refl _, fun k hk => by cases hk⟩
  | some k =>
    refine ⟨if f k < 0 then 0 else f k, by split <;> omega, fun k' hk' => ?_⟩
    cases hk'
    split <;> omega

theorem unary_unbounded {c : Oct n} (h : TightClosed c) (a : Fin (2 * n))
    (hn : c.get a (bar a) = none) (B : Int) :
    ∃ σ : State n, c.sat (ext σ) ∧ B < ext σ a - ext σ (bar a) := by
  obtain ⟨M1, hM1, hb1⟩ := exists_bound (c.get (bar a) a) (fun k => -(k / 2))
  obtain ⟨M2, hM2, hB⟩ : ∃ M2 : Int, 0 ≤ M2 ∧ B < M2 :=
    ⟨if B < 0 then 0 else B + 1, by split <;> omega, by split <;> omega⟩
  obtain ⟨σ, hσ, he⟩ := unary_point h a (M1 + M2)
    (fun k hk => by rw [hn] at hk; cases hk)
    (fun k hk => by
      have : -(k / 2) ≤ M1 := hb1 k hk
      have := h.even' hk; omega)
  exact ⟨σ, hσ, by rw [ext_bar, he]; omega⟩

/-- what has to be checked to give values to two literals of different variables -/
theorem satOn_pair {c : Oct n} (h : TightClosed c) (a b : Fin (2 * n)) (ta tb : Int)
    (a3 : ∀ k, c.get a (bar a) = some k → 2 * ta ≤ k)
    (a4 : ∀ k, c.get (bar a) a = some k → -(2 * ta) ≤ k)
    (b3 : ∀ k, c.get b (bar b) = some k → 2 * tb ≤ k)
    (b4 : ∀ k, c.get (bar b) b = some k → -(2 * tb) ≤ k)
    (ab : ∀ k, c.get a b = some k → ta - tb ≤ k)
    (ba : ∀ k, c.get b a = some k → tb - ta ≤ k)
    (abb : ∀ k, c.get a (bar b) = some k → ta + tb ≤ k)
    (aab : ∀ k, c.get (bar a) b = some k → -ta - tb ≤ k) :
    SatOn c (fun y => y = varOf a ∨ y = varOf b) (updL (updL (fun _ => 0) a ta) b tb) := by
  apply satOn_insert h (updL_cohVal cohVal_zero a ta) (fun y => y = varOf a) b tb
    (satOn_single h a ta a3 a4) _ _ b3 b4
  · intro j k hj hk
    rcases lit_cases hj with e | e
    · rw [e] at hk ⊢
      rw [updL_self]; exact ba k hk
    · rw [e] at hk ⊢
      rw [updL_bar]
      have := h.coh' hk
      rw [bar_bar] at this
      have := abb k this
      omega
  · intro i k hi hk
    rcases lit_cases hi with e | e
    · rw [e] at hk ⊢
      rw [updL_self]; exact ab k hk
    · rw [e] at hk ⊢
      rw [updL_bar]
      have := aab k hk
      omega

theorem binary_point {c : Oct n} (h : TightClosed c) (a b : Fin (2 * n)) (hab : varOf a ≠ varOf b)
    (ta tb : Int)
    (a3 : ∀ k, c.get a (bar a) = some k → 2 * ta ≤ k)
    (a4 : ∀ k, c.get (bar a) a = some k → -(2 * ta) ≤ k)
    (b3 : ∀ k, c.get b (bar b) = some k → 2 * tb ≤ k)
    (b4 : ∀ k, c.get (bar b) b = some k → -(2 * tb) ≤ k)
    (ab : ∀ k, c.get a b = some k → ta - tb ≤ k)
    (ba : ∀ k, c.get b a = some k → tb - ta ≤ k)
    (abb : ∀ k, c.get a (bar b) = some k → ta + tb ≤ k)
    (aab : ∀ k, c.get (bar a) b = some k → -ta - tb ≤ k) :
    ∃ σ : State n, c.sat (ext σ) ∧ ext σ a = ta ∧ ext σ b = tb := by
  obtain ⟨σ, hσ, he⟩ := extend_state h (updL_cohVal (updL_cohVal cohVal_zero a ta) b tb)
    (fun y => y = varOf a ∨ y = varOf b) (satOn_pair h a b ta tb a3 a4 b3 b4 ab ba abb aab)
  refine ⟨σ, hσ, ?_, ?_⟩
  · rw [he a (Or.inl rfl), updL_of_ne _ _ hab, updL_self]
  · rw [he b (Or.inr rfl), updL_self]

/-! ### three lower and three upper bounds -/

def pick3 (x0 x1 x2 : W) : Fin 3 → W :=
  fun i => if i.val = 0 then x0 else if i.val = 1 then x1 else x2

theorem exists_between3 (u0 u1 u2 l0 l1 l2 : W)
    (h00 : ∀ a b, l0 = some a → u0 = some b → -a ≤ b)
    (h01 : ∀ a b, l0 = some a → u1 = some b → -a ≤ b)
    (h02 : ∀ a b, l0 = some a → u2 = some b → -a ≤ b)
    (h10 : ∀ a b, l1 = some a → u0 = some b → -a ≤ b)
    (h11 : ∀ a b, l1 = some a → u1 = some b → -a ≤ b)
    (h12 : ∀ a b, l1 = some a → u2 = some b → -a ≤ b)
    (h20 : ∀ a b, l2 = some a → u0 = some b → -a ≤ b)
    (h21 : ∀ a b, l2 = some a → u1 = some b → -a ≤ b)
    (h22 : ∀ a b, l2 = some a → u2 = some b → -a ≤ b) :
    ∃ t : Int, (∀ b, u0 = some b → t ≤ b) ∧ (∀ b, u1 = some b → t ≤ b) ∧ (∀ b, u2 = some b → t ≤ b) ∧
      (∀ a, l0 = some a → -t ≤ a) ∧ (∀ a, l1 = some a → -t ≤ a) ∧ (∀ a, l2 = some a → -t ≤ a) := by
  obtain ⟨t, hu, hl⟩ := exists_between (pick3 u0 u1 u2) (pick3 l0 l1 l2) (by
    intro i j a b hi hj
    have hi3 : i.val = 0 ∨ i.val = 1 ∨ i.val = 2 := by omega
    have hj3 : j.val = 0 ∨ j.val = 1 ∨ j.val = 2 := by omega
    rcases hi3 with e | e | e <;> rcases hj3 with e' | e' | e' <;>
      simp [pick3, e, e'] at hi hj
    · exact h00 a b hi hj
    · exact h01 a b hi hj
    · exact h02 a b hi hj
    · exact h10 a b hi hj
    · exact h11 a b hi hj
    · exact h12 a b hi hj
    · exact h20 a b hi hj
    · exact h21 a b hi hj
    · exact h22 a b hi hj)
  exact ⟨t, fun b hb => hu ⟨0, by omega⟩ b (by simpa [pick3] using hb),
    fun b hb => hu ⟨1, by omega⟩ b (by simpa [pick3] using hb),
    fun b hb => hu ⟨2, by omega⟩ b (by simpa [pick3] using hb),
    fun a ha => hl ⟨0, by omega⟩ a (by simpa [pick3] using ha),
    fun a ha => hl ⟨1, by omega⟩ a (by simpa [pick3] using ha),
    fun a ha => hl ⟨2, by omega⟩ a (by simpa [pick3] using ha)⟩

theorem W_half_some {w : W} {y : Int} (h : W.half w = some y) : ∃ k, w = some k ∧ y = k / 2 := by
  cases w with
  | none => cases h
  | some k => exact ⟨k, rfl, by simp [W.half] at h; omega⟩

theorem W_half_add_some {w : W} {e y : Int} (h : W.half (W.add w (some e)) = some y) :
    ∃ k, w = some k ∧ y = (k + e) / 2 := by
  cases w with
  | none => cases h
  | some k => exact ⟨k, rfl, by simp [W.half, W.add] at h; omega⟩

theorem W_add_half_some {w : W} {e y : Int} (h : W.add (W.half w) (some e) = some y) :
    ∃ k, w = some k ∧ y = k / 2 + e := by
  cases w with
  | none => cases h
  | some k => exact ⟨k, rfl, by simp [W.half, W.add] at h; omega⟩

/-! ### binary entries -/

/-- a finite entry between literals of two different variables is attained -/
theorem binary_attained {c : Oct n} (h : TightClosed c) (a b : Fin (2 * n)) (hab : varOf a ≠ varOf b)
    {d : Int} (hd : c.get a b = some d) : ∃ σ : State n, c.sat (ext σ) ∧ ext σ a - ext σ b = d := by
  have hd' : c.get (bar b) (bar a) = some d := h.coh' hd
  obtain ⟨ta, hu0, hu1, hu2, hl0, hl1, hl2⟩ := exists_between3
    (W.half (c.get a (bar a))) (W.add (W.half (c.get b (bar b))) (some d))
    (W.half (W.add (c.get a (bar b)) (some d)))
    (W.half (c.get (bar a) a)) (W.add (W.half (c.get (bar b) b)) (some (-d)))
    (W.half (W.add (c.get (bar a) b) (some (-d))))
    (by
      intro x y hx hy
      obtain ⟨A, hA, rfl⟩ := W_half_some hx
      obtain ⟨Ba, hBa, rfl⟩ := W_half_some hy
      obtain ⟨r, hr, hle⟩ := h.tri' hA hBa
      have := h.diag' hr
      have := h.even' hA
      have := h.even _ _ hBa
      omega)
    (by
      intro x y hx hy
      obtain ⟨A, hA, rfl⟩ := W_half_some hx
      obtain ⟨Bb, hBb, rfl⟩ := W_add_half_some hy
      obtain ⟨r1, hr1, hle1⟩ := h.tri' hA hd
      obtain ⟨r2, hr2, hle2⟩ := h.tri' hr1 hBb
      obtain ⟨r3, hr3, hle3⟩ := h.tri' hr2 hd'
      have := h.diag' hr3
      have := h.even' hA
      have := h.even _ _ hBb
      omega)
    (by
      intro x y hx hy
      obtain ⟨A, hA, rfl⟩ := W_half_some hx
      obtain ⟨P, hP, rfl⟩ := W_half_add_some hy
      obtain ⟨r1, hr1, hle1⟩ := h.tri' hA hP
      obtain ⟨r2, hr2, hle2⟩ := h.tri' hr1 hd'
      have := h.diag' hr2
      have := h.even' hA
      omega)
    (by
      intro x y hx hy
      obtain ⟨Ab, hAb, rfl⟩ := W_add_half_some hx
      obtain ⟨Ba, hBa, rfl⟩ := W_half_some hy
      obtain ⟨r, hr, hle⟩ := h.strong' hBa hAb
      rw [hd] at hr; cases hr
      have := h.even' hAb
      have := h.even _ _ hBa
      omega)
    (by
      intro x y hx hy
      obtain ⟨Ab, hAb, rfl⟩ := W_add_half_some hx
      obtain ⟨Bb, hBb, rfl⟩ := W_add_half_some hy
      obtain ⟨r, hr, hle⟩ := h.tri' hAb hBb
      have := h.diag' hr
      have := h.even' hAb
      have := h.even _ _ hBb
      omega)
    (by
      intro x y hx hy
      obtain ⟨Ab, hAb, rfl⟩ := W_add_half_some hx
      obtain ⟨P, hP, rfl⟩ := W_half_add_some hy
      obtain ⟨r, hr, hle⟩ := h.tri' hP hAb
      rw [hd] at hr; cases hr
      have := h.even' hAb
      omega)
    (by
      intro x y hx hy
      obtain ⟨Q, hQ, rfl⟩ := W_half_add_some hx
      obtain ⟨Ba, hBa, rfl⟩ := W_half_some hy
      obtain ⟨r, hr, hle⟩ := h.tri' hBa hQ
      rw [hd] at hr; cases hr
      have := h.even _ _ hBa
      omega)
    (by
      intro x y hx hy
      obtain ⟨Q, hQ, rfl⟩ := W_half_add_some hx
      obtain ⟨Bb, hBb, rfl⟩ := W_add_half_some hy
      obtain ⟨r1, hr1, hle1⟩ := h.tri' hQ hBb
      obtain ⟨r2, hr2, hle2⟩ := h.tri' hr1 hd'
      have := h.diag' hr2
      have := h.even _ _ hBb
      omega)
    (by
      intro x y hx hy
      obtain ⟨Q, hQ, rfl⟩ := W_half_add_some hx
      obtain ⟨P, hP, rfl⟩ := W_half_add_some hy
      have hQ' : c.get (bar b) a = some Q := by
        have := h.coh' hQ; rwa [bar_bar] at this
      obtain ⟨r0, hr0, hle0⟩ := h.tri' hP hQ'
      have := h.diag' hr0
      obtain ⟨Ba, hBa, hleA⟩ := h.tri' hP hd'
      obtain ⟨Ab, hAb, hleB⟩ := h.tri' hQ' hd
      obtain ⟨r, hr, hle⟩ := h.strong' hBa hAb
      rw [hd] at hr; cases hr
      have := h.even' hAb
      have := h.even _ _ hBa
      omega)
  obtain ⟨σ, hσ, ea, eb⟩ := binary_point h a b hab ta (ta - d)
    (fun k hk => by have := hu0 _ (by rw [hk]; rfl); omega)
    (fun k hk => by have := hl0 _ (by rw [hk]; rfl); omega)
    (fun k hk => by have := hu1 _ (by rw [hk]; rfl); omega)
    (fun k hk => by have := hl1 _ (by rw [hk]; rfl); omega)
    (fun k hk => by rw [hd] at hk; cases hk; omega)
    (fun k hk => by
      obtain ⟨r, hr, hle⟩ := h.tri' hd hk
      have := h.diag' hr; omega)
    (fun k hk => by have := hu2 _ (by rw [hk]; rfl); omega)
    (fun k hk => by have := hl2 _ (by rw [hk]; rfl); omega)
  exact ⟨σ, hσ, by rw [ea, eb]; omega⟩

/-- an infinite entry is unbounded (case: the literal `a` is unbounded above) -/
theorem binary_unbounded_aux {c : Oct n} (h : TightClosed c) (a b : Fin (2 * n))
    (hab : varOf a ≠ varOf b) (hn : c.get a b = none) (hu : c.get a (bar a) = none) (B : Int) :
    ∃ σ : State n, c.sat (ext σ) ∧ B < ext σ a - ext σ b := by
  obtain ⟨M1, hM1, hb1⟩ := exists_bound (c.get (bar a) a) (fun k => -(k / 2))
  obtain ⟨M2, hM2, hb2⟩ := exists_bound (c.get (bar b) b) (fun k => B + 1 - k / 2)
  obtain ⟨M3, hM3, hb3⟩ := exists_bound (c.get (bar a) b) (fun k => B + 1 - k)
  obtain ⟨ta, hta⟩ : ∃ ta : Int, ta = M1 + M2 + M3 := ⟨_, rfl⟩
  have hv : CohVal (updL (fun _ => 0) a ta) := updL_cohVal cohVal_zero a ta
  have hs : SatOn c (fun y => y = varOf a) (updL (fun _ => 0) a ta) :=
    satOn_single h a ta (fun k hk => by rw [hu] at hk; cases hk)
      (fun k hk => by
        have : -(k / 2) ≤ M1 := hb1 k hk
        have := h.even' hk; omega)
  have hba : ¬ (varOf b = varOf a) := fun e => hab e.symm
  obtain ⟨tb, h1, h2, h3⟩ := exists_between_le _ _
    (upB_loB_compat h hv (fun y => y = varOf a) b hs) (ta - B - 1) (by
      intro i x hx
      rcases loB_cases hx with ⟨k, hk, rfl⟩ | ⟨si, k, hk, rfl⟩
      · have : B + 1 - k / 2 ≤ M2 := hb2 k hk
        omega
      · rcases lit_cases si with e | e
        · rw [e, hn] at hk; cases hk
        · rw [e] at hk ⊢
          have : B + 1 - k ≤ M3 := hb3 k hk
          rw [updL_bar]; omega)
  have hs2 := satOn_of_bounds h hv (fun y => y = varOf a) b hba hs tb h1 h2
  obtain ⟨σ, hσ, he⟩ := extend_state h (updL_cohVal hv b tb) _ hs2
  have ea : ext σ a = ta := by rw [he a (Or.inl rfl), updL_of_ne _ _ hab, updL_self]
  have eb : ext σ b = tb := by rw [he b (Or.inr rfl), updL_self]
  exact ⟨σ, hσ, by rw [ea, eb]; omega⟩

theorem binary_unbounded {c : Oct n} (h : TightClosed c) (a b : Fin (2 * n))
    (hab : varOf a ≠ varOf b) (hn : c.get a b = none) (B : Int) :
    ∃ σ : State n, c.sat (ext σ) ∧ B < ext σ a - ext σ b := by
  cases hu : c.get a (bar a) with
  | none => exact binary_unbounded_aux h a b hab hn hu B
  | some p =>
    cases hl : c.get (bar b) b with
    | none =>
      have hn' : c.get (bar b) (bar a) = none := by rw [← h.coh a b]; exact hn
      have hl' : c.get (bar b) (bar (bar b)) = none := by rw [bar_bar]; exact hl
      obtain ⟨σ, hσ, hB⟩ := binary_unbounded_aux h (bar b) (bar a)
        (by rw [varOf_bar, varOf_bar]; exact fun e => hab e.symm) hn' hl' B
      refine ⟨σ, hσ, ?_⟩
      rw [ext_bar, ext_bar] at hB; omega
    | some q =>
      obtain ⟨r, hr, _⟩ := h.strong' hu hl
      rw [hn] at hr; cases hr

/-- **tightness**: every finite entry of a tightly closed matrix is attained by an integer point,
    every infinite entry is unbounded over the integer points -/
theorem tightClosed_attained (c : Oct n) (h : TightClosed c) (a b : Fin (2 * n)) :
    (∀ d, c.get a b = some d → ∃ σ, c.sat (ext σ) ∧ ext σ a - ext σ b = d) ∧
    (c.get a b = none → ∀ B : Int, ∃ σ, c.sat (ext σ) ∧ B < ext σ a - ext σ b) := by
  by_cases hab : varOf a = varOf b
  · rcases lit_cases hab.symm with e | e
    · subst e
      constructor
      · intro d hd
        obtain ⟨σ, hσ⟩ := tightClosed_sat c h
        have := h.diag' hd
        exact ⟨σ, hσ, by omega⟩
      · intro hn
        rw [h.closed.diag] at hn; cases hn
    · subst e
      exact ⟨fun d hd => unary_attained h a hd, fun hn B => unary_unbounded h a hn B⟩
  · exact ⟨fun d hd => binary_attained h a b hab hd, fun hn B => binary_unbounded h a b hab hn B⟩

/-! ### exactness of the queries -/

/-- **the entailment test is exact over the integers** -/
theorem entails_iff_implied (o : Oct n) (hco : Coherent o) (c : Cst n) :
    entails o c = true ↔ ∀ σ, γ o σ → c.sat σ := by
  constructor
  · intro h σ hσ; exact entails_sound o c h σ hσ
  · intro himp
    unfold entails entailsC
    rw [show isBottomC (close o) = isBottom o from rfl]
    cases hb : isBottom o
    · simp only [Bool.false_or]
      have htc := close_tightClosed o hco hb
      obtain ⟨hfin, hinf⟩ := tightClosed_attained _ htc c.row c.col
      rw [W.le_iff]
      cases hg : (close o).get c.row c.col with
      | none =>
        obtain ⟨σ, hσ, hB⟩ := hinf hg c.bound
        have := (Cst.sat_iff_entry c σ).1 (himp σ ((close_preserves_γ o σ).1 hσ))
        omega
      | some d =>
        obtain ⟨σ, hσ, hd⟩ := hfin d hg
        have := (Cst.sat_iff_entry c σ).1 (himp σ ((close_preserves_γ o σ).1 hσ))
        exact W.LE_some_some.2 (by omega)
    · rfl

/-- **the bounds are tight over the integers** -/
theorem bounds_tight (o : Oct n) (hco : Coherent o) (hb : isBottom o = false) (x : Fin n) :
    (∀ k, (bounds o x).ub = .fin k → ∃ σ, γ o σ ∧ σ x = k) ∧
    (∀ k, (bounds o x).lb = .fin k → ∃ σ, γ o σ ∧ σ x = k) ∧
    ((bounds o x).ub = .pinf → ∀ B, ∃ σ, γ o σ ∧ B < σ x) ∧
    ((bounds o x).lb = .ninf → ∀ B, ∃ σ, γ o σ ∧ σ x < B) := by
  have htc := close_tightClosed o hco hb
  have hpq := tightClosed_attained _ htc (pos x) (neg x)
  have hqp := tightClosed_attained _ htc (neg x) (pos x)
  have eub : (bounds o x).ub = Zones.toUb (W.half ((close o).get (pos x) (neg x))) := by
    unfold bounds boundsC
    rw [show isBottomC (close o) = isBottom o from rfl, hb]
    simp only [Bool.false_eq_true, if_false]
  have elb : (bounds o x).lb = Zones.toLb (W.half ((close o).get (neg x) (pos x))) := by
    unfold bounds boundsC
    rw [show isBottomC (close o) = isBottom o from rfl, hb]
    simp only [Bool.false_eq_true, if_false]
  rw [eub, elb]
  refine ⟨?_, ?_, ?_, ?_⟩
  · intro k hk
    cases hg : (close o).get (pos x) (neg x) with
    | none => rw [hg] at hk; simp [W.half, Zones.toUb] at hk
    | some d =>
      rw [hg] at hk
      simp only [W.half, Zones.toUb, Bound.fin.injEq] at hk
      obtain ⟨σ, hσ, hd⟩ := hpq.1 d hg
      have hev : d % 2 = 0 := htc.even (pos x) d (by rw [bar_pos]; exact hg)
      rw [ext_pos, ext_neg] at hd
      exact ⟨σ, (close_preserves_γ o σ).1 hσ, by omega⟩
  · intro k hk
    cases hg : (close o).get (neg x) (pos x) with
    | none => rw [hg] at hk; simp [W.half, Zones.toLb] at hk
    | some d =>
      rw [hg] at hk
      simp only [W.half, Zones.toLb, Bound.fin.injEq] at hk
      obtain ⟨σ, hσ, hd⟩ := hqp.1 d hg
      have hev : d % 2 = 0 := htc.even (neg x) d (by rw [bar_neg]; exact hg)
      rw [ext_pos, ext_neg] at hd
      exact ⟨σ, (close_preserves_γ o σ).1 hσ, by omega⟩
  · intro hk B
    cases hg : (close o).get (pos x) (neg x) with
    | some d => rw [hg] at hk; simp [W.half, Zones.toUb] at hk
    | none =>
      obtain ⟨σ, hσ, hB⟩ := hpq.2 hg (2 * B)
      rw [ext_pos, ext_neg] at hB
      exact ⟨σ, (close_preserves_γ o σ).1 hσ, by omega⟩
  · intro hk B
    cases hg : (close o).get (neg x) (pos x) with
    | some d => rw [hg] at hk; simp [W.half, Zones.toLb] at hk
    | none =>
      obtain ⟨σ, hσ, hB⟩ := hqp.2 hg (-(2 * B))
      rw [ext_pos, ext_neg] at hB
      exact ⟨σ, (close_preserves_γ o σ).1 hσ, by omega⟩

end Octagon
end Crab
