import CrabProofs.Lemmas.DisIntervalChain2

/-! The widening step between two values of two or more intervals each, when the vector
    `lb_widen, interior of the left argument, ub_widen` is kept; then the main statement. -/
namespace Crab
namespace Dis
open Bound

theorem stable_single {S : Dis} (hS : WF S) {w : Itv} (h1 : ∀ k, Itv.mem k w → mem k S)
    (h2 : ∀ k, mem k S → Itv.mem k w) : S.st = .fin → S.l.length = 1 := by
  obtain ⟨s, l⟩ := S
  intro hs
  simp only at hs; subst hs
  exact single_of_convex hS.2.2 hS.1 h1 h2

theorem widen_measure_stable {a a' : Itv} {as : List Itv} {b b' : Itv} {bs : List Itv}
    (hx : WF ⟨.fin, a :: a' :: as⟩) (hy : WF ⟨.fin, b :: b' :: bs⟩)
    (hle : leq ⟨.fin, b :: b' :: bs⟩ ⟨.fin, a :: a' :: as⟩ = false)
    (hc : ((mkList (stableVec Itv.widen a a' as b b' bs)).isTop ||
           leq ⟨.fin, b :: b' :: bs⟩ (mkList (stableVec Itv.widen a a' as b b' bs))) = true) :
    wmeasure (mkList (stableVec Itv.widen a a' as b b' bs)) < wmeasure ⟨.fin, a :: a' :: as⟩ := by
  have hwx := wfList_wf hx.2.2
  have hwy := wfList_wf hy.2.2
  have hVwf := stableVec_wf wop_widen hwx hwy
  have hVlen := stableVec_length Itv.widen a a' as b b' bs
  have hSwf : WF (mkList (stableVec Itv.widen a a' as b b' bs)) := by
    refine mkList_wf hVwf ?_ (by rw [hVlen]; exact hx.2.1)
    intro c hc'
    have := congrArg List.length hc'
    rw [hVlen] at this; simp at this
  have hup : ∀ k, memL k (stableVec Itv.widen a a' as b b' bs) →
      mem k (mkList (stableVec Itv.widen a a' as b b' bs)) := fun k hk => mkList_mem_upper hVwf hk
  have hsub : ∀ k, mem k (⟨.fin, a :: a' :: as⟩ : Dis) →
      mem k (mkList (stableVec Itv.widen a a' as b b' bs)) :=
    fun k hk => hup k (stableVec_upper wop_widen hk)
  have hex : ∀ k, mem k (mkList (stableVec Itv.widen a a' as b b' bs)) →
      memL k (stableVec Itv.widen a a' as b b' bs) :=
    fun k hk => mkList_mem_exact hVwf (by simp [stableVec]) (by rw [hVlen]; exact hx.2.1) hk
  have hpa := (proper_iff a).mp (hx.2.2.1 a (by simp))
  have hpb := (proper_iff b).mp (hy.2.2.1 b (by simp))
  have hal_in : (a' :: as).getLast (by simp) ∈ a :: a' :: as :=
    List.mem_cons_of_mem _ (List.getLast_mem _)
  have hbl_in : (b' :: bs).getLast (by simp) ∈ b :: b' :: bs :=
    List.mem_cons_of_mem _ (List.getLast_mem _)
  have hpal := (proper_iff _).mp (hx.2.2.1 _ hal_in)
  have hpbl := (proper_iff _).mp (hy.2.2.1 _ hbl_in)
  have hxm : ∃ k, mem k (⟨.fin, a :: a' :: as⟩ : Dis) := by
    obtain ⟨k, hk⟩ := exists_mem_of_proper (hx.2.2.1 a (by simp))
    exact ⟨k, a, by simp, hk⟩
  have hlast : (a :: a' :: as).getLast (by simp) = (a' :: as).getLast (by simp) :=
    List.getLast_cons (by simp)
  -- the elements of the vector
  have hVmem : ∀ k, memL k (stableVec Itv.widen a a' as b b' bs) ↔
      (Itv.mem k (Itv.widen a b) ∨ (∃ i ∈ (a' :: as).dropLast, Itv.mem k i) ∨
       Itv.mem k (Itv.widen ((a' :: as).getLast (by simp)) ((b' :: bs).getLast (by simp)))) := by
    intro k
    simp [stableVec, memL, or_and_right, exists_or]
  have hint : ∀ i ∈ (a' :: as).dropLast, Bound.le a.lb i.lb = true ∧
      Bound.le i.ub ((a' :: as).getLast (by simp)).ub = true := by
    intro i hi
    have hi' : i ∈ a :: a' :: as := List.mem_cons_of_mem _ (List.dropLast_subset _ hi)
    refine ⟨first_lb_le hx.2.2 hi', ?_⟩
    have := le_last_ub hx.2.2 (by simp) hi'
    rwa [hlast] at this
  have ha_al : Bound.le a.lb ((a' :: as).getLast (by simp)).lb = true := first_lb_le hx.2.2 hal_in
  have ha_al' : Bound.le a.ub ((a' :: as).getLast (by simp)).ub = true := by
    have := le_last_ub hx.2.2 (by simp) (show a ∈ a :: a' :: as by simp)
    rwa [hlast] at this
  have hanb : Bound.le a.lb a.ub = true := by simpa [Itv.isBottom, Bound.gt] using hpa.1
  rw [itv_widen_eq hpa.1 hpb.1, itv_widen_eq hpal.1 hpbl.1] at hVmem
  by_cases c1 : Bound.lt b.lb a.lb = true
  · -- the lower extreme is extrapolated to -oo
    obtain ⟨l, hl⟩ := lt_right_fin c1 hpa.2.2.1
    refine wmeasure_lt_of_rank hsub hxm rfl (rank_drop_below hsub
      (not_boundedBelow (w := Itv.widen a b) (Itv.wf_widen hpa.2.2 hpb.2.2) ?_ ?_)
      (boundedBelow_of_first hx.2.2 hl))
    · rw [itv_widen_eq hpa.1 hpb.1]; simp [c1]
    · intro k hk
      exact hup k ⟨_, by simp [stableVec], hk⟩
  by_cases c4 : Bound.lt ((a' :: as).getLast (by simp)).ub ((b' :: bs).getLast (by simp)).ub = true
  · obtain ⟨u, hu⟩ := lt_left_fin c4 hpal.2.2.2
    refine wmeasure_lt_of_rank hsub hxm rfl (rank_drop_above hsub
      (not_boundedAbove (w := Itv.widen ((a' :: as).getLast (by simp)) ((b' :: bs).getLast (by simp)))
        (Itv.wf_widen hpal.2.2 hpbl.2.2) ?_ ?_)
      (boundedAbove_of_last hx.2.2 (by simp) (by rw [hlast]; exact hu)))
    · rw [itv_widen_eq hpal.1 hpbl.1]; simp [c4]
    · intro k hk
      exact hup k ⟨_, by simp [stableVec], hk⟩
  simp only [c1, c4, Bool.false_eq_true, if_false] at hVmem
  by_cases c2 : Bound.lt a.ub b.ub = true
  · by_cases c3 : Bound.lt ((b' :: bs).getLast (by simp)).lb ((a' :: as).getLast (by simp)).lb = true
    · -- both inner ends are extrapolated: everything is covered
      simp only [c2, c3, if_true] at hVmem
      refine wmeasure_lt_of_single hsub hxm rfl (by simp) (stable_single hSwf (w := Itv.top) ?_ ?_)
      · intro k _
        apply hup k
        rw [hVmem]
        cases hk : Bound.le a.lb (.fin k)
        · right; right
          exact ⟨by simp, Bound.le_trans (Bound.le_trans (Bound.not_le hk) hanb) ha_al'⟩
        · left; exact ⟨hk, by simp⟩
      · intro k _; exact Itv.mem_top k
    · simp only [c2, c3, if_true, Bool.false_eq_true, if_false] at hVmem
      refine wmeasure_lt_of_single hsub hxm rfl (by simp)
        (stable_single hSwf (w := ⟨a.lb, .pinf⟩) ?_ ?_)
      · intro k hk
        exact hup k ((hVmem k).mpr (Or.inl hk))
      · intro k hk
        rcases (hVmem k).mp (hex k hk) with h | ⟨i, hi, h⟩ | h
        · exact h
        · exact ⟨Bound.le_trans (hint i hi).1 h.1, by simp⟩
        · exact ⟨Bound.le_trans ha_al h.1, by simp⟩
  · by_cases c3 : Bound.lt ((b' :: bs).getLast (by simp)).lb ((a' :: as).getLast (by simp)).lb = true
    · simp only [c2, c3, if_true, Bool.false_eq_true, if_false] at hVmem
      refine wmeasure_lt_of_single hsub hxm rfl (by simp)
        (stable_single hSwf (w := ⟨.ninf, ((a' :: as).getLast (by simp)).ub⟩) ?_ ?_)
      · intro k hk
        exact hup k ((hVmem k).mpr (Or.inr (Or.inr hk)))
      · intro k hk
        rcases (hVmem k).mp (hex k hk) with h | ⟨i, hi, h⟩ | h
        · exact ⟨by simp, Bound.le_trans h.2 ha_al'⟩
        · exact ⟨by simp, Bound.le_trans h.2 (hint i hi).2⟩
        · exact h
    · -- nothing is extrapolated: the vector is the left argument, which does not cover `y`
      exfalso
      have hV : stableVec Itv.widen a a' as b b' bs = a :: a' :: as := by
        unfold stableVec
        rw [itv_widen_eq hpa.1 hpb.1, itv_widen_eq hpal.1 hpbl.1]
        simp only [c1, c2, c3, c4, Bool.false_eq_true, if_false]
        have := List.dropLast_concat_getLast (l := a' :: as) (by simp)
        rw [this]
      rw [hV, mkList_of_wf hx.2.2 (by simp) hx.2.1, hle] at hc
      simp [isTop] at hc

/-- **the measure strictly decreases on every strict widening step between normalised values** -/
theorem widen_measure {x y : Dis} (hx : WF x) (hy : WF y) (h : leq y x = false) :
    wmeasure (widen x y) < wmeasure x := by
  obtain ⟨sx, lx⟩ := x
  obtain ⟨sy, ly⟩ := y
  have e1 : (DisState.fin == DisState.bot) = false := rfl
  have e2 : (DisState.fin == DisState.top) = false := rfl
  cases sx <;> cases sy <;> try (simp [leq, isBottom, isTop] at h; done)
  · -- BOT ∇ FINITE
    have := rank_le_two ⟨.fin, ly⟩
    simp only [widen, widenWith, isBottom, wmeasure]
    simp; split <;> omega
  · simp [widen, widenWith, isBottom, wmeasure]
  · -- FINITE ∇ FINITE
    have hwx := wfList_wf hx.2.2
    have hwy := wfList_wf hy.2.2
    have hnx := hx.1
    have hny := hy.1
    have hloop : leqLoop ly lx = false := by simpa [leq, isBottom, isTop] using h
    match lx, ly, hx, hy, hwx, hwy, hnx, hny, h, hloop with
    | [a], [b], hx, _, _, hwy, _, _, _, hloop =>
      simp only [widen, widenWith, isBottom, isTop, e1, e2, Bool.false_eq_true, if_false]
      refine widen_measure_single (hx.2.2.1 a (by simp)) (hwy b (by simp)) ?_
      cases hb : Itv.leq b a
      · rfl
      · rw [leqLoop_single (by simpa using hb)] at hloop
        exact absurd hloop (by decide)
    | [a], b :: b' :: bs, hx, hy, _, hwy, _, _, _, hloop =>
      simp only [widen, widenWith, isBottom, isTop, e1, e2, Bool.false_eq_true, if_false]
      refine widen_measure_single (hx.2.2.1 a (by simp)) (approxNE_wf hwy) ?_
      cases hb : Itv.leq (approxNE b (b' :: bs)) a
      · rfl
      · have : leqLoop (b :: b' :: bs) [a] = true := by
          apply leqLoop_single
          intro i hi
          exact Itv.leq_of_subset (hwy i hi)
            (fun k hk => Itv.leq_sound hb (approxNE_mem hy.2.2 ⟨i, hi, hk⟩))
        rw [this] at hloop
        exact absurd hloop (by decide)
    | a :: a' :: as, [b], hx, _, hwx, hwy, _, _, _, _ =>
      simp only [widen, widenWith, isBottom, isTop, e1, e2, Bool.false_eq_true, if_false]
      refine widen_measure_hull hx rfl (by simp) (Itv.wf_widen (approxNE_wf hwx) (hwy b (by simp))) ?_
      intro k hk
      exact Itv.widen_upper_left (approxNE_mem hx.2.2 hk)
    | a :: a' :: as, b :: b' :: bs, hx, hy, hwx, hwy, _, _, h, _ =>
      simp only [widen]
      rw [widenWith_big]
      split
      · rename_i hc
        exact widen_measure_stable hx hy h hc
      · refine widen_measure_hull hx rfl (by simp)
          (Itv.wf_widen (approxNE_wf hwx) (approxNE_wf hwy)) ?_
        intro k hk
        exact Itv.widen_upper_left (approxNE_mem hx.2.2 hk)
    | [], _, _, _, _, _, hnx, _, _, _ => exact absurd rfl hnx
    | _ :: _, [], _, _, _, _, _, hny, _, _ => exact absurd rfl hny
  · simp only [widen, widenWith, isBottom, isTop, wmeasure, e1, e2]
    simp; omega

end Dis
end Crab
