import CrabModel.Dom.Functors.FlatBoolHist
import CrabProofs.Lemmas.FunctorFlatBoolEnv
import CrabProofs.Lemmas.FunctorProductOps

/-!
The invariant of `flat_boolean_numerical_domain` (`FBN.LinInvOf`, `FBN.BoolInvOf`) under the
elementary updates of the three auxiliary components: a Boolean is redefined, a numerical variable
is redefined, entries are set / removed, `mark_vars_as_unchanged`, `forget_implied_bool`.
-/
set_option linter.unusedSectionVars false
set_option linter.unusedSimpArgs false

namespace Crab
namespace Dom
namespace Fct

variable {V : Type} [DecidableEq V] {K : CSig V}

namespace Prod2
variable {S : Type} {D1 D2 : LDom S}

theorem onFirst_γ {f : D1.B → D1.B} {p : Prod2 D1 D2} {s s' : S} (hg : p.γ s)
    (h1 : D1.γ (f p.fst) s') (h2 : D2.γ p.snd s') : (onFirst f p).γ s' := by
  unfold onFirst
  rw [canonicalize_of_γ hg]
  exact ⟨hg.1, h1, h2⟩

theorem onSecond_γ {f : D2.B → D2.B} {p : Prod2 D1 D2} {s s' : S} (hg : p.γ s)
    (h1 : D1.γ p.fst s') (h2 : D2.γ (f p.snd) s') : (onSecond f p).γ s' := by
  unfold onSecond
  rw [canonicalize_of_γ hg]
  exact ⟨hg.1, h1, h2⟩

theorem isBottom_false_of_γ {p : Prod2 D1 D2} {s : S} (hg : p.γ s) : p.isBottom = false := by
  cases h : p.isBottom
  · rfl
  · exact absurd hg (not_γ_of_isBottom h s)
end Prod2

namespace SEnv
variable {α : Type} [DecidableEq α]

theorem mem_look_set {e : SEnv V α} (h : e.isBot = false) (k k' : V) {v : DSet α} (hv : v.isBot = false)
    (c : α) : ((e.set k v).look k').mem c = true ↔ if k' = k then v.mem c = true else (e.look k').mem c = true := by
  obtain ⟨l, rfl⟩ := DSet.isBot_false_fin_of v hv
  rw [mem_look_set_fin h]
  simp [DSet.mem, List.contains_iff_mem]

theorem isBot_set {e : SEnv V α} (h : e.isBot = false) (k : V) {v : DSet α} (hv : v.isBot = false) :
    (e.set k v).isBot = false := by
  obtain ⟨l, rfl⟩ := DSet.isBot_false_fin_of v hv
  exact isBot_set_fin h k l

theorem look_isBot {e : SEnv V α} (h : e.isBot = false) (k : V) : (e.look k).isBot = false := by
  obtain ⟨l, hl⟩ := look_fin_of h k
  rw [hl]; rfl
end SEnv

namespace FBN

theorem unchanged_iff (u : DSet V) (c : K.C) : unchanged u c = true ↔ ∀ v ∈ K.vars c, u.mem v = true :=
  DSet.leq_fin_iff u _

theorem unchanged_negate (u : DSet V) (c : K.C) : unchanged u (K.negate c) = unchanged u c := by
  rw [Bool.eq_iff_iff, unchanged_iff, unchanged_iff]
  constructor
  · exact fun h v hv => h v ((K.negate_vars c v).2 hv)
  · exact fun h v hv => h v ((K.negate_vars c v).1 hv)

/-! ### `forget_implied_bool`, `forget_csts_with_var`, `mark_vars_as_unchanged` -/

theorem mem_forgetImpliedBool {bs : SEnv V V} (h : bs.isBot = false) (x k b' : V) :
    ((forgetImpliedBool x bs).look k).mem b' = true ↔ b' ≠ x ∧ (bs.look k).mem b' = true := by
  unfold forgetImpliedBool
  rw [SEnv.mem_look_transformIf _ _ (by simp) h]
  obtain ⟨l, hl⟩ := SEnv.look_fin_of h k
  rw [hl]
  simp only [DSet.fin.injEq, DSet.mem, List.contains_iff_mem]
  constructor
  · rintro ⟨l', rfl, hc⟩
    split at hc
    · simp only [List.mem_filter, decide_eq_true_eq] at hc; exact ⟨hc.2, hc.1⟩
    · rename_i hx
      refine ⟨?_, hc⟩
      rintro rfl; exact hx (by simpa [List.contains_iff_mem] using hc)
  · rintro ⟨hne, hm⟩
    refine ⟨l, rfl, ?_⟩
    split
    · simp [hm, hne]
    · exact hm

theorem isBot_forgetImpliedBool (x : V) (bs : SEnv V V) : (forgetImpliedBool x bs).isBot = bs.isBot :=
  SEnv.isBot_transformIf _ _ _

theorem mem_forgetCstsWithVar {lin : SEnv V K.C} (h : lin.isBot = false) (v k : V) (c : K.C)
    (hc : ((forgetCstsWithVar lin v).look k).mem c = true) :
    (lin.look k).mem c = true ∧ v ∉ K.vars c := by
  unfold forgetCstsWithVar at hc
  rw [SEnv.mem_look_transformIf _ _ (by simp) h] at hc
  obtain ⟨l, hl, hm⟩ := hc
  split at hm
  · simp at hm
  · rename_i hany
    rw [hl]
    refine ⟨by simpa [DSet.mem, List.contains_iff_mem] using hm, ?_⟩
    intro hv
    apply hany
    simp only [List.any_eq_true]
    exact ⟨c, hm, by simpa [List.contains_iff_mem] using hv⟩

theorem isBot_forgetCstsWithVar (lin : SEnv V K.C) (v : V) : (forgetCstsWithVar lin v).isBot = lin.isBot :=
  SEnv.isBot_transformIf _ _ _

theorem markVars_isBot (vs : List V) (p : SEnv V K.C × DSet V) :
    (markVars vs p).1.isBot = p.1.isBot ∧ (markVars vs p).2.isBot = p.2.isBot := by
  induction vs generalizing p with
  | nil => exact ⟨rfl, rfl⟩
  | cons v r ih =>
    unfold markVars
    split
    · have := ih (forgetCstsWithVar p.1 v, p.2.insert v)
      simp only [isBot_forgetCstsWithVar, DSet.isBot_insert] at this
      exact this
    · exact ih p

/-- a constraint that survives `mark_vars_as_unchanged` was recorded before, and each of its
    variables that is marked now was already marked before -/
theorem markVars_spec (vs : List V) (p : SEnv V K.C × DSet V) (h : p.1.isBot = false) (k : V) (c : K.C)
    (hc : ((markVars vs p).1.look k).mem c = true) :
    (p.1.look k).mem c = true ∧ ∀ v ∈ K.vars c, (markVars vs p).2.mem v = true → p.2.mem v = true := by
  induction vs generalizing p with
  | nil => exact ⟨hc, fun _ _ h => h⟩
  | cons v0 r ih =>
    unfold markVars at hc ⊢
    split at hc
    · rename_i hcond
      simp only [hcond, if_true]
      have := ih (forgetCstsWithVar p.1 v0, p.2.insert v0) (by simpa [isBot_forgetCstsWithVar] using h) hc
      obtain ⟨h1, h2⟩ := this
      obtain ⟨h3, h4⟩ := mem_forgetCstsWithVar h v0 k c h1
      refine ⟨h3, fun v hv hm => ?_⟩
      have := h2 v hv hm
      rw [DSet.mem_insert] at this
      rcases this with e | e
      · subst e; exact absurd hv h4
      · exact e
    · rename_i hcond
      simp only [hcond]
      exact ih p h hc

/-! ### the invariant of `m_bool_to_lincsts` -/

theorem LinInvOf.mono {lin lin' : SEnv V K.C} {u u' : DSet V} {s : CSt V} (h : LinInvOf lin u s)
    (hm : ∀ k c, (lin'.look k).mem c = true → unchanged u' c = true →
      (lin.look k).mem c = true ∧ unchanged u c = true) : LinInvOf lin' u' s :=
  fun b c hc hu => h b c (hm b c hc hu).1 (hm b c hc hu).2

/-- the Boolean `x` is redefined and its entry removed -/
theorem LinInvOf.setB_del {lin : SEnv V K.C} {u : DSet V} {s : CSt V} (h : LinInvOf lin u s)
    (hl : lin.isBot = false) (x : V) (b : Bool) : LinInvOf (lin.del x) u (s.setB x b) := by
  intro k c hc hu
  rw [SEnv.mem_look_del hl] at hc
  have := h k c hc.2 hu
  simpa [CSt.setB, hc.1] using this

/-- the Boolean `x` is redefined and receives the set `v` of constraints -/
theorem LinInvOf.setB_set {lin : SEnv V K.C} {u : DSet V} {s : CSt V} (h : LinInvOf lin u s)
    (hl : lin.isBot = false) (x : V) (b : Bool) {v : DSet K.C} (hv : v.isBot = false)
    (hx : ∀ c, v.mem c = true → unchanged u c = true → (b = true ↔ K.holds c s.num)) :
    LinInvOf (lin.set x v) u (s.setB x b) := by
  intro k c hc hu
  rw [SEnv.mem_look_set hl _ _ hv] at hc
  by_cases hk : k = x
  · simp only [hk, if_true] at hc
    simpa [CSt.setB, hk] using hx c hc hu
  · simp only [hk, if_false] at hc
    simpa [CSt.setB, hk] using h k c hc hu

/-- the numerical variable `x` is redefined and marked as changed -/
theorem LinInvOf.setN {lin : SEnv V K.C} {u : DSet V} {s : CSt V} (h : LinInvOf lin u s)
    (hu : u.isBot = false) (x : V) (k : Int) : LinInvOf lin (u.remove x) (s.setN x k) := by
  intro b c hc hun
  rw [unchanged_iff] at hun
  have h1 : unchanged u c = true := by
    rw [unchanged_iff]; intro v hv
    exact ((DSet.mem_remove u hu x v).1 (hun v hv)).2
  have h2 : K.holds c (s.setN x k).num ↔ K.holds c s.num := by
    apply K.frame
    intro v hv
    have : v ≠ x := ((DSet.mem_remove u hu x v).1 (hun v hv)).1
    simp [CSt.setN, this]
  rw [h2]
  exact h b c hc h1

/-! ### the invariant of `m_bool_to_bools` -/

/-- `x` is redefined, its entry removed, `x` removed from the other entries -/
theorem BoolInvOf.setB_del {bs : SEnv V V} {s : CSt V} (h : BoolInvOf bs s) (hb : bs.isBot = false)
    (x : V) (b : Bool) : BoolInvOf ((forgetImpliedBool x bs).del x) (s.setB x b) := by
  intro k k' hk hs
  rw [SEnv.mem_look_del (by rw [isBot_forgetImpliedBool]; exact hb), mem_forgetImpliedBool hb] at hk
  obtain ⟨h1, h2, h3⟩ := hk
  simp only [CSt.setB, h1, h2, if_false] at hs ⊢
  exact h k k' h3 hs

theorem BoolInvOf.setB_del' {bs : SEnv V V} {s : CSt V} (h : BoolInvOf bs s) (hb : bs.isBot = false)
    (x : V) (b : Bool) : BoolInvOf (forgetImpliedBool x (bs.del x)) (s.setB x b) := by
  intro k k' hk hs
  rw [mem_forgetImpliedBool (by rw [SEnv.isBot_del]; exact hb), SEnv.mem_look_del hb] at hk
  obtain ⟨h1, h2, h3⟩ := hk
  simp only [CSt.setB, h1, h2, if_false] at hs ⊢
  exact h k k' h3 hs

/-- `x` is redefined, `x` removed from all entries, then `x` receives the set `v` -/
theorem BoolInvOf.setB_set {bs : SEnv V V} {s : CSt V} (h : BoolInvOf bs s) (hb : bs.isBot = false)
    (x : V) (b : Bool) {v : DSet V} (hv : v.isBot = false)
    (hx : ∀ k', v.mem k' = true → b = true → (s.setB x b).bool k' = true) :
    BoolInvOf ((forgetImpliedBool x bs).set x v) (s.setB x b) := by
  intro k k' hk hs
  rw [SEnv.mem_look_set (by rw [isBot_forgetImpliedBool]; exact hb) _ _ hv] at hk
  by_cases hkx : k = x
  · simp only [hkx, if_true] at hk
    apply hx k' hk
    simpa [CSt.setB, hkx] using hs
  · simp only [hkx, if_false] at hk
    rw [mem_forgetImpliedBool hb] at hk
    simp only [CSt.setB, hkx, hk.1, if_false] at hs ⊢
    exact h k k' hk.2 hs

/-- a numerical variable changes: nothing to do -/
theorem BoolInvOf.setN {bs : SEnv V V} {s : CSt V} (h : BoolInvOf bs s) (x : V) (k : Int) :
    BoolInvOf bs (s.setN x k) := h

end FBN

end Fct
end Dom
end Crab
