import CrabModel.Analysis.AbsTransformer
import CrabModel.Fix.Semantics

/-!
  Soundness of the model of `intra_abs_transformer::exec` / `fwd_analyzer::analyze`
  (`CrabModel/Analysis/AbsTransformer.lean`) w.r.t. the executable semantics of CrabIR
  (`CrabModel/IR/Semantics.lean`), from one soundness law per domain method (`NDom.Laws`).
-/
namespace Crab
namespace Analysis
open Crab.IR

variable {A : Type}

/-- One law per method of the domain the transformer calls (what C03 proves of a domain).
    A law about a method that writes a variable is only required when that variable is declared
    in the state (`x < σ.iv.size`, `b < σ.bv.size`): the semantics ignores writes outside.
    No law is needed for `set_to_bottom`, `is_bottom`, `is_top`. -/
structure NDom.Laws (D : NDom A) : Prop where
  applyArithVar_sound : ∀ a op x y z σ v, D.γ a σ → x < σ.iv.size →
    evalBin op.toBin (σ.geti y) (σ.geti z) = .val v → D.γ (D.applyArithVar a op x y z) (σ.seti x v)
  applyArithCst_sound : ∀ a op x y k σ v, D.γ a σ → x < σ.iv.size →
    evalBin op.toBin (σ.geti y) k = .val v → D.γ (D.applyArithCst a op x y k) (σ.seti x v)
  applyBitVar_sound : ∀ a op x y z σ v, D.γ a σ → x < σ.iv.size →
    evalBin op.toBin (σ.geti y) (σ.geti z) = .val v → D.γ (D.applyBitVar a op x y z) (σ.seti x v)
  applyBitCst_sound : ∀ a op x y k σ v, D.γ a σ → x < σ.iv.size →
    evalBin op.toBin (σ.geti y) k = .val v → D.γ (D.applyBitCst a op x y k) (σ.seti x v)
  assign_sound : ∀ a x e σ, D.γ a σ → x < σ.iv.size → D.γ (D.assign a x e) (σ.seti x (e.eval σ))
  addCst_sound : ∀ a c σ, D.γ a σ → c.holds σ = true → D.γ (D.addCst a c) σ
  select_sound : ∀ a x c e1 e2 σ, D.γ a σ → x < σ.iv.size →
    D.γ (D.select a x c e1 e2) (σ.seti x (if c.holds σ then e1.eval σ else e2.eval σ))
  forget_int_sound : ∀ a x σ v, D.γ a σ → x < σ.iv.size → D.γ (D.forget a (.int x)) (σ.seti x v)
  forget_bool_sound : ∀ a b σ v, D.γ a σ → b < σ.bv.size → D.γ (D.forget a (.bool b)) (σ.setb b v)
  forgetAll_sound : ∀ a vs σ, D.γ a σ → D.γ (D.forgetAll a vs) σ
  assignBoolCst_sound : ∀ a b c σ, D.γ a σ → b < σ.bv.size →
    D.γ (D.assignBoolCst a b c) (σ.setb b (c.holds σ))
  assignBoolVar_sound : ∀ a b c neg σ, D.γ a σ → b < σ.bv.size →
    D.γ (D.assignBoolVar a b c neg) (σ.setb b (if neg then !(σ.getb c) else σ.getb c))
  applyBinaryBool_sound : ∀ a op b c d σ, D.γ a σ → b < σ.bv.size →
    D.γ (D.applyBinaryBool a op b c d) (σ.setb b (evalBool op.toBool (σ.getb c) (σ.getb d)))
  assumeBool_sound : ∀ a b neg σ, D.γ a σ → (σ.getb b != neg) = true → D.γ (D.assumeBool a b neg) σ
  selectBool_sound : ∀ a b c d e σ, D.γ a σ → b < σ.bv.size →
    D.γ (D.selectBool a b c d e) (σ.setb b (if σ.getb c then σ.getb d else σ.getb e))

/-- the laws of the lattice operations the iterator calls (the fields of `Fix.Sem` other than
    `analyze_sound`) -/
structure LatLaws (ops : Fix.Ops A) (γ : A → State → Prop) : Prop where
  join_left : ∀ a b s, γ a s → γ (ops.join a b) s
  join_right : ∀ a b s, γ b s → γ (ops.join a b) s
  widen_left : ∀ a b s, γ a s → γ (ops.widen a b) s
  widen_right : ∀ a b s, γ b s → γ (ops.widen a b) s
  meet_sound : ∀ a b s, γ a s → γ b s → γ (ops.meet a b) s
  narrow_sound : ∀ a b s, γ a s → γ b s → γ (ops.narrow a b) s
  leq_sound : ∀ a b s, ops.leq a b = true → γ a s → γ b s

/-! ### the operator tables -/

theorem convArith_toBin {op : BinOp} {aop : ArithOp} (h : convArith op = some aop) : aop.toBin = op := by
  cases op <;> simp [convArith] at h <;> subst h <;> rfl

theorem convBitwise_toBin {op : BinOp} {bop : BitwiseOp} (h : convBitwise op = some bop) :
    bop.toBin = op := by
  cases op <;> simp [convBitwise] at h <;> subst h <;> rfl

theorem convBool_toBool (op : BoolOp) : (convBool op).toBool = op := by cases op <;> rfl

/-- every `binary_operation_t` is in one of the two tables: `CRAB_ERROR("unsupported binary
    operator")` is unreachable -/
theorem applyBin_isSome (D : NDom A) (inv : A) (op : BinOp) (x y : Nat) (z : Operand) :
    (applyBin D inv op x y z).isSome = true := by
  cases op <;> simp [applyBin, convArith, convBitwise]

theorem sanityGuard_some {D : NDom A} {sanity : Bool} {pre post r : A}
    (h : sanityGuard D sanity pre post = some r) : r = post := by
  unfold sanityGuard at h
  split at h
  · cases h
  · exact (Option.some.inj h).symm

theorem sanityGuard_off (D : NDom A) (pre post : A) : sanityGuard D false pre post = some post := by
  simp [sanityGuard]

/-! ### shapes -/

theorem shape_seti {nI nB : Nat} {σ : State} (h : Shape nI nB σ) (x : Nat) (v : Int) :
    Shape nI nB (σ.seti x v) := by
  obtain ⟨h1, h2⟩ := h
  exact ⟨by simp [State.seti, h1], by simp [State.seti, h2]⟩

theorem shape_setb {nI nB : Nat} {σ : State} (h : Shape nI nB σ) (b : Nat) (v : Bool) :
    Shape nI nB (σ.setb b v) := by
  obtain ⟨h1, h2⟩ := h
  exact ⟨by simp [State.setb, h1], by simp [State.setb, h2]⟩

/-- a statement never changes the number of variables of the state -/
theorem stepStmt_shape {nI nB : Nat} {s : Stmt} {σ σ' : State} {ch : Int} (h : Shape nI nB σ)
    (hs : stepStmt s σ ch = .next σ') : Shape nI nB σ' := by
  cases s <;> simp only [stepStmt] at hs
  case assign x e => cases hs; exact shape_seti h _ _
  case binop op x y z =>
    split at hs
    · cases hs; exact shape_seti h _ _
    · cases hs
    · cases hs
  case assume c => split at hs <;> cases hs; exact h
  case assert c => split at hs <;> cases hs; exact h
  case havoc x => cases hs; exact shape_seti h _ _
  case havocB b => cases hs; exact shape_setb h _ _
  case select x c e1 e2 => cases hs; exact shape_seti h _ _
  case unreachable => cases hs
  case bassign b c => cases hs; exact shape_setb h _ _
  case bcopy b c neg => cases hs; exact shape_setb h _ _
  case bbin op b c d => cases hs; exact shape_setb h _ _
  case bassume b neg => split at hs <;> cases hs; exact h
  case bassert b => split at hs <;> cases hs; exact h
  case bselect b c d e => cases hs; exact shape_setb h _ _

/-! ### one statement -/

theorem applyBin_sound (D : NDom A) (L : D.Laws) (inv r : A) (op : BinOp) (x y : Nat) (z : Operand)
    (σ : State) (v : Int) (hg : D.γ inv σ) (hx : x < σ.iv.size)
    (hv : evalBin op (σ.geti y) (z.eval σ) = .val v) (hr : applyBin D inv op x y z = some r) :
    D.γ r (σ.seti x v) := by
  unfold applyBin at hr
  split at hr
  · rename_i aop ha
    have hop := convArith_toBin ha
    cases Option.some.inj hr
    cases z with
    | var w => exact L.applyArithVar_sound inv aop x y w σ v hg hx (by rw [hop]; exact hv)
    | const k => exact L.applyArithCst_sound inv aop x y k σ v hg hx (by rw [hop]; exact hv)
  · split at hr
    · rename_i bop hb
      have hop := convBitwise_toBin hb
      cases Option.some.inj hr
      cases z with
      | var w => exact L.applyBitVar_sound inv bop x y w σ v hg hx (by rw [hop]; exact hv)
      | const k => exact L.applyBitCst_sound inv bop x y k σ v hg hx (by rw [hop]; exact hv)
    · cases hr

/-- **one statement**: whatever the two flags of the transformer are, if `exec` returns (no
    CRAB_ERROR) its result describes every concrete successor state -/
theorem execStmtE_sound (D : NDom A) (L : D.Laws) (cfg : TrCfg) (nI nB : Nat) (s : Stmt)
    (inv inv' : A) (σ σ' : State) (ch : Int) (hd : s.defOk nI nB = true) (hsh : Shape nI nB σ)
    (hg : D.γ inv σ) (hs : stepStmt s σ ch = .next σ') (he : execStmtE D cfg s inv = some inv') :
    D.γ inv' σ' := by
  obtain ⟨hI, hB⟩ := hsh
  cases s <;> simp only [stepStmt] at hs <;> simp only [execStmtE] at he <;>
    simp only [Stmt.defOk, decide_eq_true_eq] at hd
  case assign x e =>
    cases hs; rw [sanityGuard_some he]
    exact L.assign_sound inv x e σ hg (hI ▸ hd)
  case binop op x y z =>
    split at he
    · cases he
    · rename_i r hr
      have hr' : inv' = r := by
        split at he
        · exact (Option.some.inj he).symm
        · exact sanityGuard_some he
      subst hr'
      split at hs
      · rename_i v hv
        cases hs
        exact applyBin_sound D L inv inv' op x y z σ v hg (hI ▸ hd) hv hr
      · cases hs
      · cases hs
  case assume c =>
    cases Option.some.inj he
    split at hs
    · rename_i hc; cases hs; exact L.addCst_sound inv c σ hg hc
    · cases hs
  case assert c =>
    split at hs
    · rename_i hc
      cases hs
      split at he
      · cases Option.some.inj he; exact hg
      · cases Option.some.inj he; exact L.addCst_sound inv c σ hg hc
    · cases hs
  case havoc x =>
    cases hs; rw [sanityGuard_some he]
    exact L.forget_int_sound inv x σ ch hg (hI ▸ hd)
  case havocB b =>
    cases hs; rw [sanityGuard_some he]
    exact L.forget_bool_sound inv b σ _ hg (hB ▸ hd)
  case select x c e1 e2 =>
    cases hs; rw [sanityGuard_some he]
    exact L.select_sound inv x c e1 e2 σ hg (hI ▸ hd)
  case unreachable => cases hs
  case bassign b c =>
    cases hs; rw [sanityGuard_some he]
    exact L.assignBoolCst_sound inv b c σ hg (hB ▸ hd)
  case bcopy b c neg =>
    cases hs; rw [sanityGuard_some he]
    exact L.assignBoolVar_sound inv b c neg σ hg (hB ▸ hd)
  case bbin op b c d =>
    cases hs; rw [sanityGuard_some he]
    have := L.applyBinaryBool_sound inv (convBool op) b c d σ hg (hB ▸ hd)
    rwa [convBool_toBool] at this
  case bassume b neg =>
    cases Option.some.inj he
    split at hs
    · rename_i hc; cases hs; exact L.assumeBool_sound inv b neg σ hg hc
    · cases hs
  case bassert b =>
    split at hs
    · rename_i hc
      cases hs
      split at he
      · cases Option.some.inj he; exact hg
      · cases Option.some.inj he
        exact L.assumeBool_sound inv b false σ hg (by simp [hc])
    · cases hs
  case bselect b c d e =>
    cases hs; rw [sanityGuard_some he]
    exact L.selectBool_sound inv b c d e σ hg (hB ▸ hd)

end Analysis
end Crab
