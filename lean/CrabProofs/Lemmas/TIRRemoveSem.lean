import CrabProofs.Lemmas.TIRSimplify
import CrabProofs.Lemmas.TIRReach

/-!
  Removing blocks that are unreachable from the entry preserves all behaviours; removing blocks
  from which the exit is unreachable preserves the exit-reaching behaviours; hence
  `cfg::simplify()` preserves the exit-reaching behaviours and well-formedness.
-/
namespace Crab
namespace TIR

/-! ### unreachable blocks -/

theorem exec_congr_on (P T : Prog) (K : Label → Prop)
    (hcl : ∀ l, K l → ∀ l', l' ∈ P.succsOf l → K l')
    (hst : ∀ l, K l → T.stmtsOf l = P.stmtsOf l)
    (hsu : ∀ l, K l → T.succsOf l = P.succsOf l)
    (hex : ∀ l, T.isExit l = P.isExit l) (hout : T.outputs = P.outputs)
    {stmts : List Stmt} {l : Label} {σ : State} {t : List Event} {o : Outcome} :
    (Exec P stmts l σ t o → K l → Exec T stmts l σ t o) ∧ (Exec T stmts l σ t o → K l → Exec P stmts l σ t o) := by
  constructor
  · intro h
    induction h with
    | @exit l σ hx => intro _; rw [← hout]; exact Exec.exit (by rw [hex]; exact hx)
    | @goto l l' σ t o hx hm _ ih =>
      intro hk
      have hk' := hcl l hk l' hm
      have := ih hk'
      rw [← hst l' hk'] at this
      exact Exec.goto (by rw [hex]; exact hx) (by rw [hsu l hk]; exact hm) this
    | @stuck l σ hx hs => intro hk; exact Exec.stuck (by rw [hex]; exact hx) (by rw [hsu l hk]; exact hs)
    | cont hv hstep _ ih => intro hk; exact Exec.cont hv hstep (ih hk)
    | stop hv hstep => intro _; exact Exec.stop hv hstep
  · intro h
    induction h with
    | @exit l σ hx => intro _; rw [hout]; exact Exec.exit (by rw [← hex]; exact hx)
    | @goto l l' σ t o hx hm _ ih =>
      intro hk
      rw [hsu l hk] at hm
      have hk' := hcl l hk l' hm
      have := ih hk'
      rw [hst l' hk'] at this
      exact Exec.goto (by rw [← hex]; exact hx) hm this
    | @stuck l σ hx hs => intro hk; exact Exec.stuck (by rw [← hex]; exact hx) (by rw [← hsu l hk]; exact hs)
    | cont hv hstep _ ih => intro hk; exact Exec.cont hv hstep (ih hk)
    | stop hv hstep => intro _; exact Exec.stop hv hstep

theorem RemoveSpec.isExit {P T : Prog} {l : Label} (h : RemoveSpec P T l) (l' : Label) :
    T.isExit l' = P.isExit l' := by simp [Prog.isExit, h.exit]

theorem RemoveSpec.sinv {P T : Prog} {l : Label} (hinv : SInv P) (h : RemoveSpec P T l) : SInv T := by
  refine ⟨h.wfp hinv.wf, ?_⟩
  intro x hx
  rw [h.exit] at hx
  rw [h.succ]
  split
  · rfl
  · rw [hinv.ens x hx]; rfl

theorem remove_unreachable_good {P T : Prog} {l : Label} (hinv : SInv P) (h : RemoveSpec P T l)
    (hun : ¬ GPath P.succsOf P.entry l) : Good P T := by
  refine ⟨h.sinv hinv, h.entry, h.exit, ?_⟩
  intro σ t o
  have hK : ∀ l', GPath P.succsOf P.entry l' → l' ≠ l := by
    intro l' hp hc; subst hc; exact hun hp
  have := @exec_congr_on P T (fun l' => GPath P.succsOf P.entry l')
    (fun l1 h1 l2 h2 => h1.snoc h2)
    (fun l1 h1 => by rw [h.stmts]; simp [hK l1 h1])
    (fun l1 h1 => by
      rw [h.succ]; simp only [hK l1 h1, if_false]
      apply removeAdj_of_not_mem
      intro hc; exact hun (h1.snoc hc))
    h.isExit h.outs (P.stmtsOf P.entry) P.entry σ t o
  unfold Beh
  rw [h.entry]
  have he : T.stmtsOf P.entry = P.stmtsOf P.entry := by
    rw [h.stmts]; simp [hK P.entry (GPath.refl _)]
  rw [he]
  exact ⟨fun hx => this.1 hx (GPath.refl _), fun hx => this.2 hx (GPath.refl _)⟩

theorem GPath.mono {n1 n2 : Label → List Label} (hsub : ∀ l l', l' ∈ n1 l → l' ∈ n2 l) {a b : Label}
    (h : GPath n1 a b) : GPath n2 a b := by
  induction h with
  | refl _ => exact GPath.refl _
  | step hm _ ih => exact GPath.step (hsub _ _ hm) ih

theorem RemoveSpec.succ_sub {P T : Prog} {l : Label} (h : RemoveSpec P T l) (l1 l2 : Label)
    (hm : l2 ∈ T.succsOf l1) : l2 ∈ P.succsOf l1 := by
  rw [h.succ] at hm
  split at hm
  · simp at hm
  · exact (mem_removeAdj.mp hm).1

theorem removeMany_unreachable_good : ∀ (ls : List Label) (P T : Prog), SInv P →
    (∀ l, l ∈ ls → ¬ GPath P.succsOf P.entry l) → removeMany P ls = some T → Good P T := by
  intro ls
  induction ls with
  | nil => intro P T hinv _ h; simp only [removeMany, Option.some.injEq] at h; subst h; exact Good.refl hinv
  | cons l r ih =>
    intro P T hinv hun h
    simp only [removeMany] at h
    cases hr : P.remove l with
    | none => rw [hr] at h; cases h
    | some P1 =>
      rw [hr] at h
      simp only at h
      have hspec := remove_spec hinv.wf hr
      have g1 := remove_unreachable_good hinv hspec (hun l List.mem_cons_self)
      refine g1.trans (ih P1 T g1.inv ?_ h)
      intro l' hl' hp
      rw [hspec.entry] at hp
      exact hun l' (List.mem_cons_of_mem _ hl') (hp.mono hspec.succ_sub)

/-! ### blocks that cannot reach the exit -/

/-- same entry, same exit, same exit-reaching behaviours, invariant kept -/
structure GoodX (P T : Prog) : Prop where
  inv : SInv T
  entry : T.entry = P.entry
  exit : T.exit = P.exit
  beh : ∀ σ t outs, ExitBeh P σ t outs ↔ ExitBeh T σ t outs

theorem Good.toX {P T : Prog} (h : Good P T) : GoodX P T := ⟨h.inv, h.entry, h.exit, fun σ t outs => h.beh σ t _⟩

theorem GoodX.refl {P : Prog} (h : SInv P) : GoodX P P := ⟨h, rfl, rfl, fun _ _ _ => Iff.rfl⟩

theorem GoodX.trans {P Q R : Prog} (h1 : GoodX P Q) (h2 : GoodX Q R) : GoodX P R :=
  ⟨h2.inv, h2.entry.trans h1.entry, h2.exit.trans h1.exit, fun σ t o => (h1.beh σ t o).trans (h2.beh σ t o)⟩

/-- an execution that completes the exit block walks along a path of the graph to it -/
theorem exec_exit_path (P : Prog) {stmts : List Stmt} {l : Label} {σ : State} {t : List Event} {o : Outcome}
    (h : Exec P stmts l σ t o) : ∀ outs, o = .exit outs → ∃ x, P.isExit x = true ∧ GPath P.succsOf l x := by
  induction h with
  | @exit l σ hx => intro _ _; exact ⟨l, hx, GPath.refl _⟩
  | goto _ hm _ ih =>
    intro outs ho
    obtain ⟨x, h1, h2⟩ := ih outs ho
    exact ⟨x, h1, GPath.step hm h2⟩
  | stuck _ _ => intro _ ho; cases ho
  | cont _ _ _ ih => exact ih
  | stop hv hstep => intro outs ho; exact absurd ho (stepStmt_stop_not_exit hstep outs)

theorem remove_useless_forward {P T : Prog} {l0 : Label} (h : RemoveSpec P T l0)
    (hun : ∀ x, P.isExit x = true → ¬ GPath P.succsOf l0 x)
    {stmts : List Stmt} {l : Label} {σ : State} {t : List Event} {o : Outcome}
    (he : Exec P stmts l σ t o) : ∀ outs, o = .exit outs → Exec T stmts l σ t o := by
  induction he with
  | @exit l σ hx => intro _ _; rw [← h.outs]; exact Exec.exit (by rw [h.isExit]; exact hx)
  | @goto l l' σ t o hx hm hrest ih =>
    intro outs ho
    obtain ⟨x, hx1, hx2⟩ := exec_exit_path P hrest outs ho
    have hl' : l' ≠ l0 := by intro hc; subst hc; exact hun x hx1 hx2
    have hl : l ≠ l0 := by intro hc; subst hc; exact hun x hx1 (GPath.step hm hx2)
    have := ih outs ho
    rw [show P.stmtsOf l' = T.stmtsOf l' by rw [h.stmts]; simp [hl']] at this
    refine Exec.goto (by rw [h.isExit]; exact hx) ?_ this
    rw [h.succ]; simp only [hl, if_false]
    exact mem_removeAdj.mpr ⟨hm, hl'⟩
  | stuck _ _ => intro _ ho; cases ho
  | cont hv hstep _ ih => intro outs ho; exact Exec.cont hv hstep (ih outs ho)
  | stop hv hstep => intro outs ho; exact absurd ho (stepStmt_stop_not_exit hstep outs)

theorem remove_useless_backward {P T : Prog} {l0 : Label} (h : RemoveSpec P T l0)
    {stmts : List Stmt} {l : Label} {σ : State} {t : List Event} {o : Outcome}
    (he : Exec T stmts l σ t o) : ∀ outs, o = .exit outs → Exec P stmts l σ t o := by
  induction he with
  | @exit l σ hx => intro _ _; rw [h.outs]; exact Exec.exit (by rw [← h.isExit]; exact hx)
  | @goto l l' σ t o hx hm _ ih =>
    intro outs ho
    have hm' := hm
    rw [h.succ] at hm'
    split at hm'
    · simp at hm'
    · obtain ⟨h1, h2⟩ := mem_removeAdj.mp hm'
      have := ih outs ho
      rw [show T.stmtsOf l' = P.stmtsOf l' by rw [h.stmts]; simp [h2]] at this
      exact Exec.goto (by rw [← h.isExit]; exact hx) h1 this
  | stuck _ _ => intro _ ho; cases ho
  | cont hv hstep _ ih => intro outs ho; exact Exec.cont hv hstep (ih outs ho)
  | stop hv hstep => intro outs ho; exact absurd ho (stepStmt_stop_not_exit hstep outs)

theorem remove_useless_good {P T : Prog} {l : Label} (hinv : SInv P) (h : RemoveSpec P T l)
    (hun : ∀ x, P.isExit x = true → ¬ GPath P.succsOf l x) : GoodX P T := by
  refine ⟨h.sinv hinv, h.entry, h.exit, ?_⟩
  intro σ t outs
  unfold ExitBeh Beh
  rw [h.entry]
  have he : T.stmtsOf P.entry = P.stmtsOf P.entry := by
    rw [h.stmts]; simp [Ne.symm h.ne_entry]
  rw [he]
  exact ⟨fun hx => remove_useless_forward h hun hx outs rfl, fun hx => remove_useless_backward h hx outs rfl⟩

theorem removeMany_useless_good : ∀ (ls : List Label) (P T : Prog), SInv P →
    (∀ l, l ∈ ls → ∀ x, P.isExit x = true → ¬ GPath P.succsOf l x) → removeMany P ls = some T → GoodX P T := by
  intro ls
  induction ls with
  | nil => intro P T hinv _ h; simp only [removeMany, Option.some.injEq] at h; subst h; exact GoodX.refl hinv
  | cons l r ih =>
    intro P T hinv hun h
    simp only [removeMany] at h
    cases hr : P.remove l with
    | none => rw [hr] at h; cases h
    | some P1 =>
      rw [hr] at h
      simp only at h
      have hspec := remove_spec hinv.wf hr
      have g1 := remove_useless_good hinv hspec (hun l List.mem_cons_self)
      refine g1.trans (ih P1 T g1.inv ?_ h)
      intro l' hl' x hx hp
      rw [hspec.isExit] at hx
      exact hun l' (List.mem_cons_of_mem _ hl') x hx (hp.mono hspec.succ_sub)

/-! ### the computed sets -/

theorem labels_length (P : Prog) : P.labels.length = P.blocks.length := by simp [Prog.labels]

theorem reachable_complete {P : Prog} (hwf : WFp P) {l : Label} (h : GPath P.succsOf P.entry l) :
    l ∈ P.reachable := by
  unfold Prog.reachable
  rw [← labels_length]
  exact reachFrom_complete P.succsOf P.labels
    (fun l' => ⟨fun s hs => hwf.succ_lab l' s hs,
      length_le_of_nodup_subset _ _ (hwf.nd_succ l') (fun s hs => hwf.succ_lab l' s hs)⟩)
    P.entry hwf.entry h

theorem GPath.reverse {P : Prog} (hwf : WFp P) {a b : Label} (h : GPath P.succsOf a b) : GPath P.predsOf b a := by
  induction h with
  | refl _ => exact GPath.refl _
  | step hm _ ih => exact ih.snoc ((hwf.sym _ _).mp hm)

theorem coReachable_complete {P : Prog} (hwf : WFp P) {x l : Label} (hx : x ∈ P.labels)
    (h : GPath P.succsOf l x) : l ∈ P.coReachable x := by
  unfold Prog.coReachable
  rw [← labels_length]
  exact reachFrom_complete P.predsOf P.labels
    (fun l' => ⟨fun s hs => hwf.pred_lab hs,
      length_le_of_nodup_subset _ _ (hwf.nd_pred l') (fun s hs => hwf.pred_lab hs)⟩)
    x hx (h.reverse hwf)

theorem removeUnreachable_good {P T : Prog} (hinv : SInv P) (h : removeUnreachable P = some T) : Good P T := by
  unfold removeUnreachable at h
  refine removeMany_unreachable_good _ P T hinv ?_ h
  intro l hl hp
  have := (List.mem_filter.mp hl).2
  simp only [Bool.and_eq_true, Bool.not_eq_eq_eq_not, Bool.not_true] at this
  have hnot : l ∉ P.reachable := by simpa using this.1
  exact hnot (reachable_complete hinv.wf hp)

theorem removeUseless_good {P T : Prog} (hinv : SInv P) (h : removeUseless P = some T) : GoodX P T := by
  unfold removeUseless at h
  cases hx : P.exit with
  | none => rw [hx] at h; simp only [Option.some.injEq] at h; subst h; exact GoodX.refl hinv
  | some x =>
    rw [hx] at h
    simp only at h
    refine removeMany_useless_good _ P T hinv ?_ h
    intro l hl x' hx' hp
    have hxx : x' = x := by
      simp only [Prog.isExit, hx, beq_iff_eq, Option.some.injEq] at hx'
      exact hx'.symm
    subst hxx
    have := (List.mem_filter.mp hl).2
    simp only [Bool.and_eq_true, Bool.not_eq_eq_eq_not, Bool.not_true] at this
    have hnot : l ∉ P.coReachable x' := by simpa using this.1
    exact hnot (coReachable_complete hinv.wf (hinv.wf.exit x' hx) hp)

/-- `cfg::simplify()` -/
theorem simplify_good (v : Variant) {P T : Prog} (hinv : SInv P) (h : simplify v P = some T) : GoodX P T := by
  unfold simplify at h
  cases h1 : mergeBlocks v P with
  | none => rw [h1] at h; cases h
  | some P1 =>
    rw [h1] at h
    simp only at h
    have g1 := mergeBlocks_good v hinv h1
    cases h2 : removeUnreachable P1 with
    | none => rw [h2] at h; cases h
    | some P2 =>
      rw [h2] at h
      simp only at h
      have g2 := removeUnreachable_good g1.inv h2
      cases h3 : removeUseless P2 with
      | none => rw [h3] at h; cases h
      | some P3 =>
        rw [h3] at h
        simp only at h
        have g3 := removeUseless_good g2.inv h3
        have g4 := mergeBlocks_good v g3.inv h
        exact ((g1.toX.trans g2.toX).trans g3).trans g4.toX

end TIR
end Crab
