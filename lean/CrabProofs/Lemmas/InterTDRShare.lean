import CrabProofs.Lemmas.InterTDREnd

/-!
  C09 — the hypothesis `callsWiringOK` (finding F29 excluded) holds for every well-formed program
  without cross-position name sharing at call sites (`IProg.crossShare`, driver tag `[xshare]`).
-/
namespace Crab.Inter
variable {p : IProg}

theorem mem_getD_index {l : List Var} {x : Var} (h : x ∈ l) : ∃ k, k < l.length ∧ l.getD k 0 = x := by
  obtain ⟨k, hk, he⟩ := List.mem_iff_getElem.mp h
  exact ⟨k, hk, by simp [List.getD, List.getElem?_eq_getElem hk, he]⟩

theorem getD_mem_list {l : List Var} {k : Nat} (hk : k < l.length) : l.getD k 0 ∈ l := by
  simp [List.getD, List.getElem?_eq_getElem hk]

/-- what `crossShare = false` says about one call site -/
theorem not_crossShare_at (h : p.crossShare = false) {f : IFun} (hf : f ∈ p.funs) {b : IBlock} (hb : b ∈ f.blocks)
    {c : Nat} {lhs args : List Var} (hs : IStmt.call c lhs args ∈ b.stmts) (hc : c < p.funs.size) :
    (∀ i j, i < args.length → j < (p.fn c).ins.length → j ≠ i → (p.fn c).ins.getD j 0 ≠ args.getD i 0) ∧
    (∀ i, i < args.length → args.getD i 0 ∉ (p.fn c).outs) ∧
    (∀ i j, i < lhs.length → j < (p.fn c).outs.length → j ≠ i → (p.fn c).outs.getD j 0 ≠ lhs.getD i 0) ∧
    (∀ i, i < lhs.length → lhs.getD i 0 ∉ (p.fn c).ins) := by
  have hx : ¬ p.crossShare = true := by rw [h]; simp
  have hfc : p.funs[c]? = some (p.fn c) := by
    simp [IProg.fn, Array.getD_eq_getD_getElem?, Array.getElem?_eq_getElem hc]
  have key : ∀ (Q : Prop), (Q → (match p.funs[c]? with
      | some g =>
        (List.range args.length).any (fun i =>
          let a := args.getD i 0
          (List.range g.ins.length).any (fun j => j != i && g.ins.getD j 0 == a) || g.outs.contains a) ||
        (List.range lhs.length).any (fun i =>
          let l := lhs.getD i 0
          (List.range g.outs.length).any (fun j => j != i && g.outs.getD j 0 == l) || g.ins.contains l)
      | none => false) = true) → ¬ Q := by
    intro Q hQ hq
    apply hx
    simp only [IProg.crossShare, Array.any_eq_true']
    exact ⟨f, hf, b, hb, .call c lhs args, hs, hQ hq⟩
  refine ⟨?_, ?_, ?_, ?_⟩
  · intro i j hi hj hne he
    refine key True (fun _ => ?_) trivial
    rw [hfc]
    simp only [Bool.or_eq_true, List.any_eq_true, List.mem_range, Bool.and_eq_true, bne_iff_ne, ne_eq, beq_iff_eq]
    exact Or.inl ⟨i, hi, Or.inl ⟨j, hj, hne, he⟩⟩
  · intro i hi hm
    refine key True (fun _ => ?_) trivial
    rw [hfc]
    simp only [Bool.or_eq_true, List.any_eq_true, List.mem_range, Bool.and_eq_true, bne_iff_ne, ne_eq, beq_iff_eq,
      List.contains_eq_mem, decide_eq_true_eq]
    exact Or.inl ⟨i, hi, Or.inr hm⟩
  · intro i j hi hj hne he
    refine key True (fun _ => ?_) trivial
    rw [hfc]
    simp only [Bool.or_eq_true, List.any_eq_true, List.mem_range, Bool.and_eq_true, bne_iff_ne, ne_eq, beq_iff_eq]
    exact Or.inr ⟨i, hi, Or.inl ⟨j, hj, hne, he⟩⟩
  · intro i hi hm
    refine key True (fun _ => ?_) trivial
    rw [hfc]
    simp only [Bool.or_eq_true, List.any_eq_true, List.mem_range, Bool.and_eq_true, bne_iff_ne, ne_eq, beq_iff_eq,
      List.contains_eq_mem, decide_eq_true_eq]
    exact Or.inr ⟨i, hi, Or.inr hm⟩

theorem callsWiringOK_of_not_crossShare (hwf : p.wf = true) (h : p.crossShare = false) :
    p.callsWiringOK = true := by
  simp only [IProg.callsWiringOK, Array.all_eq_true_iff_forall_mem]
  intro f hf b hb s hs
  cases s with
  | call c lhs args =>
    simp only
    -- arities from `wf`
    have hwf' := hwf
    simp only [IProg.wf, Bool.and_eq_true, Array.all_eq_true_iff_forall_mem] at hwf'
    have hfw := hwf'.2 f hf
    simp only [IFun.wf, Bool.and_eq_true, decide_eq_true_eq, Array.all_eq_true_iff_forall_mem] at hfw
    have hst := ((hfw.2 b hb).2 _ hs).2
    simp only at hst
    have hc : c < p.funs.size := by
      by_cases hc : c < p.funs.size
      · exact hc
      · rw [Array.getElem?_eq_none (Nat.le_of_not_lt hc)] at hst; simp at hst
    have hfc : p.funs[c]? = some (p.fn c) := by
      simp [IProg.fn, Array.getD_eq_getD_getElem?, Array.getElem?_eq_getElem hc]
    rw [hfc] at hst
    simp only [Bool.and_eq_true, decide_eq_true_eq, beq_iff_eq] at hst
    obtain ⟨⟨hnd, hll⟩, hla⟩ := hst
    obtain ⟨n1, n2, n3, n4⟩ := not_crossShare_at h hf hb hs hc
    rw [Bool.and_eq_true]
    refine ⟨seqOKb_of_nocross _ _ (fun j k hj hk hne => n1 k j hk hj hne), ?_⟩
    simp only [callOKb, Bool.and_eq_true, decide_eq_true_eq, List.all_eq_true, List.mem_range, Bool.or_eq_true,
      Bool.not_eq_true', List.contains_eq_mem, decide_eq_false_iff_not, beq_iff_eq]
    refine ⟨⟨⟨⟨⟨hla.symm, hll⟩, hnd⟩, ?_⟩, ?_⟩, ?_⟩
    · exact seqOKb_of_nocross _ _ (fun j k hj hk hne he => n3 j k hj hk (fun e => hne e.symm) he.symm)
    · intro i hi
      by_cases hm : (p.fn c).ins.getD i 0 ∈ args
      · right
        obtain ⟨k, hk, hek⟩ := mem_getD_index hm
        by_cases hik : i = k
        · subst hik; exact hek
        · exact absurd hek.symm (n1 k i hk hi hik)
      · exact Or.inl hm
    · intro x hx
      left
      intro hl
      obtain ⟨i, hi, hei⟩ := mem_getD_index hl
      exact n4 i hi (hei ▸ hx)
  | _ => rfl

end Crab.Inter
