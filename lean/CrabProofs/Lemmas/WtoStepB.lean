import CrabProofs.Lemmas.WtoStepA

/-! The step of `visitLoop` that discovers a new vertex. -/
namespace Crab
namespace Wto

/-- the frame pushed for a newly discovered node -/
def GF.fresh (g : Graph) (child : Nat) (num : Nat) : GF :=
  { f := { node := child, succs := g.succ child, min := num }, above := [], done := [] }

theorem getDfn_discover (st : St) (child x : Nat) (hc : child < st.dfn.size) :
    getDfn (discover st child).dfn x = if x = child then .fin (st.num + 1) else getDfn st.dfn x := by
  simp only [discover]
  exact getDfn_setDfn _ _ _ _ hc

theorem dn_discover_ne (st : St) (child x : Nat) (hx : x ≠ child) :
    dn (discover st child).dfn x = dn st.dfn x := by
  simp only [dn, discover, getDfn_setDfn_ne _ _ _ _ hx]

theorem FrameOK.fresh (g : Graph) (num0 : Nat) (dnf : Nat → Nat) (ln : List Nat) (D : Nat → Prop)
    (S : List Nat) (child num : Nat) (h0 : num0 < num) (hd : dnf child = num) :
    FrameOK g num0 dnf ln D S (GF.fresh g child num) := by
  refine ⟨by simp [GF.fresh], h0, by simp [GF.fresh, hd], ?_, ?_, Or.inl (by simp [GF.fresh, hd]), ?_, ?_, ?_⟩
  · intro y hy; simp [GF.fresh] at hy
  · intro x hx; simp [GF.fresh] at hx
  · intro x hx; simp [GF.fresh] at hx
  · intro hx; simp [GF.fresh] at hx
  · intro x hx; simp [GF.fresh] at hx

theorem Inv.step_discover {g : Graph} {K : Nat → Prop} {st0 : St} {part0 : List WtoC} {v : Nat}
    {p : GF} {gs : List GF} {ln : List Nat} {part : List WtoC} {st : St} {W : List WtoC}
    (h : Inv g K st0 part0 v (p :: gs) ln part st W) (hK : ClosedK g K st0)
    {child : Nat} {rest : List Nat} (hs : p.f.succs = child :: rest)
    (hc : getDfn st.dfn child = .fin 0) :
    Inv g K st0 part0 v (GF.fresh g child (st.num + 1) :: p.examined child rest p.f.min :: gs) ln part
      (discover st child) W := by
  obtain ⟨hKc, h0c, hcW, hcS⟩ := (h.classify hK (h.child_region hK hs)).2.1 hc
  have hsz : child < st.dfn.size := by rw [h.size_eq]; exact (hK child hKc).1
  have hstk : stk (GF.fresh g child (st.num + 1) :: p.examined child rest p.f.min :: gs)
      = child :: stk (p :: gs) := by
    simp [stk_cons, GF.seg, GF.fresh, GF.examined]
  have hne : ∀ y ∈ stk (p :: gs), y ≠ child := fun y hy e => hcS (e ▸ hy)
  have hdn : ∀ y ∈ stk (p :: gs), dn (discover st child).dfn y = dn st.dfn y :=
    fun y hy => dn_discover_ne st child y (hne y hy)
  have hdnc : dn (discover st child).dfn child = st.num + 1 := by
    apply dn_of_getDfn; rw [getDfn_discover st child child hsz]; simp
  have hle : ∀ y ∈ stk (p :: gs), dn st.dfn y ≤ st.num := by
    intro y hy
    obtain ⟨k, hk, _, hk2⟩ := h.dfn_stk y hy
    rw [dn_of_getDfn hk]; exact hk2
  refine ⟨h.part_eq, ?_, by simp [discover, h.size_eq], by simp only [discover]; have := h.num_ge; omega,
    ?_, ?_, ?_, ?_, h.W_nodup, h.W_K, ?_, ?_, h.W_edges, ?_, ?_, ?_⟩
  · rw [hstk]; simp [discover, h.stack_eq]
  · intro x hx
    rw [getDfn_discover st child x hsz, if_neg (fun e : x = child => hcW (e ▸ hx))]
    exact h.dfn_W x hx
  · intro x hx
    rw [hstk] at hx
    rw [getDfn_discover st child x hsz]
    rcases List.mem_cons.1 hx with rfl | hx
    · exact ⟨st.num + 1, by simp, by have := h.num_ge; omega, by simp [discover]⟩
    · obtain ⟨k, hk, hk1, hk2⟩ := h.dfn_stk x hx
      exact ⟨k, by rw [if_neg (hne x hx)]; exact hk, hk1, by simp only [discover]; omega⟩
  · intro x hxW hxS
    rw [hstk] at hxS
    simp only [List.mem_cons, not_or] at hxS
    rw [getDfn_discover st child x hsz, if_neg hxS.1]
    exact h.dfn_other x hxW hxS.2
  · rw [hstk, List.pairwise_cons]
    refine ⟨?_, ?_⟩
    · intro y hy
      rw [hdnc, hdn y hy]
      have := hle y hy; omega
    · apply List.Pairwise.imp_of_mem _ h.sorted
      intro a b ha hb hab
      rw [hdn a ha, hdn b hb]; exact hab
  · intro x hx
    rw [hstk] at hx
    rcases List.mem_cons.1 hx with rfl | hx
    · exact ⟨hKc, h0c⟩
    · exact h.stk_K x hx
  · intro x hx
    rw [hstk]
    simp only [List.mem_cons, not_or]
    exact ⟨fun e => hcW (e ▸ hx), h.disj x hx⟩
  · -- frames
    have hnodele : p.f.min ≤ st.num :=
      Nat.le_trans h.top_frame.min_le (hle _ h.node_mem_stk)
    intro q hq
    rw [hstk]
    rcases List.mem_cons.1 hq with rfl | hq
    · exact FrameOK.fresh g _ _ _ _ _ child (st.num + 1) (by have := h.num_ge; omega) hdnc
    · rcases List.mem_cons.1 hq with rfl | hq
      · have h1 : FrameOK g st0.num (dn (discover st child).dfn) ln (DoneNow st0 W)
            (child :: stk (p :: gs)) p :=
          h.top_frame.mono (fun x hx => mem_stk_of_mem (by simp) hx) hdn (fun _ hz => hz)
            (fun _ hd => hd) (fun _ hy => List.mem_cons_of_mem _ hy)
        apply h1.examine hs (Nat.le_refl _) h1.min_gt (fun _ hz => hz)
        · exact Or.inr ⟨by simp, by rw [hdnc]; omega⟩
        · exact Or.inl rfl
        · intro he
          exact absurd (he ▸ h.node_mem_stk) hcS
      · exact (h.frames q (List.mem_cons_of_mem _ hq)).mono
          (fun x hx => mem_stk_of_mem (List.mem_cons_of_mem _ hq) hx) hdn (fun _ hz => hz)
          (fun _ hd => hd) (fun _ hy => List.mem_cons_of_mem _ hy)
  · refine ⟨?_, ChainOK.congr_head (p := p) (p' := p.examined child rest p.f.min) rfl h.chain⟩
    simp only [GF.fresh, GF.examined]
    rw [h.top_frame.succ_eq, hs]; simp
  · rw [hstk]
    rcases h.root_in with hv | hv
    · exact Or.inl (List.mem_cons_of_mem _ hv)
    · exact Or.inr hv

end Wto
end Crab
