import CrabProofs.Lemmas.WInterval

/-!
  More lemmas about the model `Crab.WInt` of `wrapped_interval<z_number>` (part 1):
  the signed reading of the circle, membership in intervals that do not cross a pole, explicit
  forms of `signed_split`, `unsigned_split`, `signed_and_unsigned_split`, and a generic invariant for
  the `for` loops that accumulate joins.
-/
namespace Crab
namespace WInt
open WrapInt

/-! ### the signed reading -/

/-- the signed reading of the point `v` of the circle of `M` points -/
def sg (M v : Nat) : Int := if 2 * v < M then (v : Int) else (v : Int) - (M : Int)

theorem sg_spec (M v : Nat) :
    (2 * v < M ∧ sg M v = (v : Int)) ∨ (M ≤ 2 * v ∧ sg M v = (v : Int) - (M : Int)) := by
  unfold sg; split
  · left; exact ⟨by assumption, rfl⟩
  · right; exact ⟨by omega, rfl⟩

theorem pow_succ_pred {w : Nat} (h1 : 1 ≤ w) : 2 ^ w = 2 * 2 ^ (w - 1) := by
  obtain ⟨k, rfl⟩ : ∃ k, w = k + 1 := ⟨w - 1, by omega⟩
  rw [Nat.pow_succ]; simp; omega

/-- membership in an interval that does not cross the north pole is the signed order -/
theorem mem_sord_iff {w : Nat} (h1w : 1 ≤ w) (hw : w ≤ 64) {a b v : Nat}
    (ha : a < 2 ^ w) (hb : b < 2 ^ w) (hv : v < 2 ^ w) (hab : sg (2 ^ w) a ≤ sg (2 ^ w) b) :
    mem w v (W w a b false) ↔ sg (2 ^ w) a ≤ sg (2 ^ w) v ∧ sg (2 ^ w) v ≤ sg (2 ^ w) b := by
  rw [mem_W hw ha hb]
  have hM := pow_succ_pred h1w
  have s1 := D_spec (2 ^ w) a b; have s2 := D_spec (2 ^ w) a v
  have g1 := sg_spec (2 ^ w) a; have g2 := sg_spec (2 ^ w) b; have g3 := sg_spec (2 ^ w) v
  generalize 2 ^ w = M at *
  generalize 2 ^ (w - 1) = H at *
  omega

/-- distance from `x` to `x + t` -/
theorem D_add_mod {M x t : Nat} (hM : 0 < M) (ht : t < M) : D M (x % M) ((x + t) % M) = t := by
  have hx := Nat.mod_lt x hM
  have e : (x + t) % M = (x % M + t) % M := by rw [Nat.add_mod, Nat.mod_eq_of_lt ht]
  rw [e]
  rcases mod_small_or (x % M + t) M hM (by omega) with ⟨a, b⟩ | ⟨a, b⟩ <;>
  rcases D_spec M (x % M) ((x % M + t) % M) with ⟨c, d⟩ | ⟨c, d⟩ <;> omega

/-- a point reached from `s` in `d` steps, with `d` not more than the length of `[s, e]`, is a member -/
theorem mem_of_steps {w : Nat} (hw : w ≤ 64) {x t l : Nat} (hl : l < 2 ^ w) (htl : t ≤ l) :
    mem w ((x + t) % 2 ^ w) (W w (x % 2 ^ w) ((x + l) % 2 ^ w) false) := by
  have hM : 0 < 2 ^ w := Nat.pow_pos (by decide)
  rw [mem_W hw (Nat.mod_lt _ hM) (Nat.mod_lt _ hM), D_add_mod hM hl, D_add_mod hM (by omega)]
  right; exact htl

/-! ### the loops that accumulate joins -/

/-- every member (of width `w`) of `r` is a member of `r'` -/
def LeW (w : Nat) (r r' : WInt) : Prop := ∀ v, v < 2 ^ w → mem w v r → mem w v r'

theorem LeW_refl (w : Nat) (r : WInt) : LeW w r r := fun _ _ h => h
theorem LeW_trans {w : Nat} {a b c : WInt} (h1 : LeW w a b) (h2 : LeW w b c) : LeW w a c :=
  fun v hv h => h2 v hv (h1 v hv h)

theorem good_bottom (w : Nat) : Good w bottom := Or.inr (Or.inl rfl)

theorem LeW_join_left {w : Nat} (hw : w ≤ 64) {res q : WInt} (hr : Good w res) (hq : Shape w q) :
    LeW w res (res.join q) := by
  intro v hv hm
  rcases hr with rfl | hr
  · exact mem_of_isTop (join_top_left_isTop q)
  · exact join_upper hw hr hq hv (Or.inl hm)

theorem LeW_join_right {w : Nat} (hw : w ≤ 64) {res q : WInt} (hr : Good w res) (hq : Shape w q) :
    LeW w q (res.join q) := fun _ hv hm => mem_join_right hw hr hq hv hm

/-- invariant of a `for` loop in the `Option` monad whose state is a `Good` accumulator that only
    grows; `Q a r` (the contribution of the element `a` is in `r`) must be stable under growth -/
theorem forIn_join_spec {α : Type} {w : Nat} (f : α → WInt → Option (ForInStep WInt))
    (Q : α → WInt → Prop)
    (hQ : ∀ a r r', Q a r → LeW w r r' → Q a r') :
    ∀ (l : List α) (init r : WInt),
      (∀ a ∈ l, ∀ r0 s, Good w r0 → f a r0 = some s →
        ∃ r', s = ForInStep.yield r' ∧ Good w r' ∧ LeW w r0 r' ∧ Q a r') →
      Good w init → forIn l init f = some r →
      Good w r ∧ LeW w init r ∧ ∀ a ∈ l, Q a r := by
  intro l
  induction l with
  | nil =>
    intro init r _ hg h
    rw [List.forIn_nil] at h
    injection h with h; subst h
    exact ⟨hg, LeW_refl _ _, fun a ha => by cases ha⟩
  | cons a l ih =>
    intro init r hf hg h
    rw [List.forIn_cons] at h
    cases hs : f a init with
    | none => rw [hs] at h; cases h
    | some s =>
      rw [hs] at h
      obtain ⟨r', rfl, g', le', q'⟩ := hf a (List.mem_cons_self ..) init s hg hs
      have h' : forIn l r' f = some r := h
      obtain ⟨g, le, each⟩ := ih r' r (fun b hb => hf b (List.mem_cons_of_mem _ hb)) g' h'
      refine ⟨g, LeW_trans le' le, ?_⟩
      intro b hb
      rcases List.mem_cons.mp hb with rfl | hb
      · exact hQ _ _ _ q' le
      · exact each b hb

/-! ### crossing the poles -/

/-- an interval containing both sides of the north pole, not top, goes down in the signed order -/
theorem crossS_fwd (M H s e : Nat) (hM : M = 2 * (H + 1)) (hs : s < M) (he : e < M)
    (hnt : ¬ D M s e = M - 1) (h1 : D M s H ≤ D M s e) (h2 : D M s (H + 1) ≤ D M s e) :
    sg M e < sg M s := by
  have s1 := D_spec M s e
  have s3 := D_spec M s H; have s4 := D_spec M s (H + 1)
  have g1 := sg_spec M s; have g2 := sg_spec M e
  omega

theorem crossS_bwd (M H s e : Nat) (hM : M = 2 * (H + 1)) (hs : s < M) (_he : e < M)
    (h : sg M e < sg M s) :
    D M s H ≤ D M s e ∧ D M s (H + 1) ≤ D M s e ∧
      ¬ (D M H s ≤ 1 ∧ D M H e ≤ 1 ∧ ¬ (H = s ∧ H + 1 = e)) := by
  have s1 := D_spec M s e
  have s3 := D_spec M s H; have s4 := D_spec M s (H + 1)
  have s5 := D_spec M H s; have s6 := D_spec M H e
  have g1 := sg_spec M s; have g2 := sg_spec M e
  refine ⟨?_, ?_, ?_⟩ <;> omega

theorem crossU_fwd (M H s e : Nat) (hM : M = H + 1) (hs : s < M) (he : e < M)
    (hnt : ¬ D M s e = M - 1) (h1 : D M s H ≤ D M s e) (h2 : D M s 0 ≤ D M s e) : e < s := by
  have s1 := D_spec M s e
  have s3 := D_spec M s H; have s4 := D_spec M s 0
  omega

theorem crossU_bwd (M H s e : Nat) (hM : M = H + 1) (hs : s < M) (_he : e < M) (h : e < s) :
    D M s H ≤ D M s e ∧ D M s 0 ≤ D M s e ∧
      ¬ (D M H s ≤ 1 ∧ D M H e ≤ 1 ∧ ¬ (H = s ∧ 0 = e)) := by
  have s1 := D_spec M s e
  have s3 := D_spec M s H; have s4 := D_spec M s 0
  have s5 := D_spec M H s; have s6 := D_spec M H e
  refine ⟨?_, ?_, ?_⟩ <;> omega

theorem isTop_W_false {w : Nat} (hw : w ≤ 64) {s e : Nat} (hs : s < 2 ^ w) (he : e < 2 ^ w)
    (h : (W w s e false).isTop = false) : ¬ D (2 ^ w) s e = 2 ^ w - 1 := by
  rw [isTop_W hw hs he] at h; simpa using h

/-- `signed_limit(w) <= x` for a proper `x`: the end comes before the start in the signed order -/
theorem crossS_iff {w : Nat} (h1w : 1 ≤ w) (hw : w ≤ 64) {s e : Nat} (hs : s < 2 ^ w) (he : e < 2 ^ w)
    (hnt : (W w s e false).isTop = false) :
    (signedLimit w).leq (W w s e false) = true ↔ sg (2 ^ w) e < sg (2 ^ w) s := by
  have hM := pow_succ_pred h1w
  obtain ⟨H, hH⟩ : ∃ H, 2 ^ (w - 1) = H + 1 := ⟨2 ^ (w - 1) - 1, by
    have : 0 < 2 ^ (w - 1) := Nat.pow_pos (by decide)
    omega⟩
  have hnt' := isTop_W_false hw hs he hnt
  have hlim : signedLimit w = W w H (H + 1) false := by
    show mk2 (smaxT w) (sminT w) = _
    simp only [smaxT, sminT, mk2, hH]; rfl
  rw [hlim]
  have b1 : H < 2 ^ w := by omega
  have b2 : H + 1 < 2 ^ w := by omega
  rw [hH] at hM
  constructor
  · intro hl
    have m1 : mem w H (W w H (H + 1) false) := by
      rw [mem_W hw b1 b2, D_self]; right; exact Nat.zero_le _
    have m2 : mem w (H + 1) (W w H (H + 1) false) := by
      rw [mem_W hw b1 b2]; right; exact Nat.le_refl _
    have n1 := leq_W_sound hw b1 b2 hs he b1 hl m1
    have n2 := leq_W_sound hw b1 b2 hs he b2 hl m2
    rw [mem_W hw hs he] at n1 n2
    exact crossS_fwd _ H s e hM hs he hnt' (n1.resolve_left hnt') (n2.resolve_left hnt')
  · intro h
    obtain ⟨c1, c2, c3⟩ := crossS_bwd _ H s e hM hs he h
    rw [leq_W_iff hw b1 b2 hs he]
    unfold T A
    have d1 : D (2 ^ w) H (H + 1) = 1 := by
      rcases D_spec (2 ^ w) H (H + 1) with ⟨_, b⟩ | ⟨a, _⟩ <;> omega
    have gs := sg_spec (2 ^ w) s; have ge := sg_spec (2 ^ w) e
    have s1 := D_spec (2 ^ w) s e
    have hH0 : 1 ≤ H := by
      rcases Nat.eq_zero_or_pos H with h0 | h0
      · exfalso; subst h0; generalize 2 ^ w = M at *; omega
      · exact h0
    right
    refine ⟨by rw [d1]; omega, ?_⟩
    by_cases hsame : H = s ∧ H + 1 = e
    · exact Or.inl hsame
    · right
      refine ⟨Or.inr c1, Or.inr c2, ?_⟩
      rw [d1]
      have nt : ¬ (1 = 2 ^ w - 1) := by omega
      by_cases x1 : D (2 ^ w) H s ≤ 1
      · by_cases x2 : D (2 ^ w) H e ≤ 1
        · exact absurd ⟨x1, x2, hsame⟩ c3
        · right; intro hh; exact x2 (hh.resolve_left nt)
      · left; intro hh; exact x1 (hh.resolve_left nt)

/-- `unsigned_limit(w) <= x` for a proper `x`: the end comes before the start -/
theorem crossU_iff {w : Nat} (h1w : 1 ≤ w) (hw : w ≤ 64) {s e : Nat} (hs : s < 2 ^ w) (he : e < 2 ^ w)
    (hnt : (W w s e false).isTop = false) :
    (unsignedLimit w).leq (W w s e false) = true ↔ e < s := by
  have hM2 := two_le_pow h1w
  obtain ⟨H, hH⟩ : ∃ H, 2 ^ w = H + 1 := ⟨2 ^ w - 1, by omega⟩
  have hnt' := isTop_W_false hw hs he hnt
  have hlim : unsignedLimit w = W w H 0 false := by
    show mk2 (umaxT w) (uminT w) = _
    simp only [umaxT, uminT, mk2, hH]; rfl
  rw [hlim]
  have b1 : H < 2 ^ w := by omega
  have b2 : 0 < 2 ^ w := by omega
  constructor
  · intro hl
    have m1 : mem w H (W w H 0 false) := by
      rw [mem_W hw b1 b2, D_self]; right; exact Nat.zero_le _
    have m2 : mem w 0 (W w H 0 false) := by
      rw [mem_W hw b1 b2]; right; exact Nat.le_refl _
    have n1 := leq_W_sound hw b1 b2 hs he b1 hl m1
    have n2 := leq_W_sound hw b1 b2 hs he b2 hl m2
    rw [mem_W hw hs he] at n1 n2
    exact crossU_fwd _ H s e hH hs he hnt' (n1.resolve_left hnt') (n2.resolve_left hnt')
  · intro h
    obtain ⟨c1, c2, c3⟩ := crossU_bwd _ H s e hH hs he h
    rw [leq_W_iff hw b1 b2 hs he]
    unfold T A
    have d1 : D (2 ^ w) H 0 = 1 := by
      rcases D_spec (2 ^ w) H 0 with ⟨_, b⟩ | ⟨a, b⟩ <;> omega
    have s1 := D_spec (2 ^ w) s e
    have hH0 : 2 ≤ H := by
      rcases Nat.lt_or_ge H 2 with h0 | h0
      · exfalso; generalize 2 ^ w = M at *; omega
      · exact h0
    right
    refine ⟨by rw [d1]; omega, ?_⟩
    by_cases hsame : H = s ∧ 0 = e
    · exact Or.inl hsame
    · right
      refine ⟨Or.inr c1, Or.inr c2, ?_⟩
      rw [d1]
      have nt : ¬ (1 = 2 ^ w - 1) := by omega
      by_cases x1 : D (2 ^ w) H s ≤ 1
      · by_cases x2 : D (2 ^ w) H e ≤ 1
        · exact absurd ⟨x1, x2, hsame⟩ c3
        · right; intro hh; exact x2 (hh.resolve_left nt)
      · left; intro hh; exact x1 (hh.resolve_left nt)

/-! ### explicit forms of the splits -/

theorem getBitwidth_W {w s e b : Nat} (h : (W w s e false).getBitwidth? = some b) :
    b = w ∧ (W w s e false).isTop = false := by
  unfold getBitwidth? at h
  simp only [Bool.false_eq_true, if_false] at h
  split at h
  · cases h
  · next ht => injection h with h; exact ⟨h.symm, by simpa using ht⟩

/-- `unsigned_split` of a proper interval -/
theorem usplit_explicit {w : Nat} (h1w : 1 ≤ w) (hw : w ≤ 64) {s e : Nat} (hs : s < 2 ^ w) (he : e < 2 ^ w)
    {l : List WInt} (h : unsignedSplit? (W w s e false) = some l) :
    (l = [W w s e false] ∧ s ≤ e) ∨
    (l = [W w s (2 ^ w - 1) false, W w 0 e false] ∧ e < s) := by
  unfold unsignedSplit? at h
  simp only [Bool.false_eq_true, if_false] at h
  split at h
  · cases h
  · next b hb =>
    obtain ⟨rfl, hnt⟩ := getBitwidth_W hb
    have hc := crossU_iff h1w hw hs he hnt
    split at h
    · next hl =>
      injection h with h; subst h
      exact Or.inr ⟨rfl, hc.mp hl⟩
    · next hl =>
      injection h with h; subst h
      refine Or.inl ⟨rfl, ?_⟩
      have := mt hc.mpr hl
      omega

/-- `signed_split` of a proper interval -/
theorem ssplit_explicit {w : Nat} (h1w : 1 ≤ w) (hw : w ≤ 64) {s e : Nat} (hs : s < 2 ^ w) (he : e < 2 ^ w)
    {l : List WInt} (h : signedSplit? (W w s e false) = some l) :
    (l = [W w s e false] ∧ sg (2 ^ w) s ≤ sg (2 ^ w) e) ∨
    (l = [W w s (2 ^ (w - 1) - 1) false, W w (2 ^ (w - 1)) e false] ∧ sg (2 ^ w) e < sg (2 ^ w) s) := by
  unfold signedSplit? at h
  simp only [Bool.false_eq_true, if_false] at h
  split at h
  · cases h
  · next b hb =>
    obtain ⟨rfl, hnt⟩ := getBitwidth_W hb
    have hc := crossS_iff h1w hw hs he hnt
    split at h
    · next hl =>
      injection h with h; subst h
      exact Or.inr ⟨rfl, hc.mp hl⟩
    · next hl =>
      injection h with h; subst h
      refine Or.inl ⟨rfl, ?_⟩
      have := mt hc.mpr hl
      omega

end WInt
end Crab
