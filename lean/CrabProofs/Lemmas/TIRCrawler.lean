import CrabModel.Transform.Crawler
import CrabProofs.Lemmas.TIRLive

/-!
  Assertion crawler: the data-dependence part of the transfer function is sound for the
  state effect of statements (`dataStep_sound`, `bwdData_sound`), it is monotone, and the
  block transfer of the model (`xferFrom`, any variant, any control-dependence graph)
  dominates it (`xferFrom_bwdData`).
-/
namespace Crab
namespace TIR

/-! ### sets -/

theorem VarSet.meets_iff {a b : VarSet} : VarSet.meets a b = true ↔ ∃ x, x ∈ a ∧ x ∈ b := by
  simp [VarSet.meets]

theorem VarSet.meets_false {a b : VarSet} (h : VarSet.meets a b = false) : ∀ x, x ∈ a → x ∉ b := by
  intro x hx hb
  have : VarSet.meets a b = true := VarSet.meets_iff.mpr ⟨x, hx, hb⟩
  rw [h] at this
  cases this

/-! ### `add_data_deps` -/

theorem meets_nil_right (e : VarSet) : VarSet.meets e [] = false := by simp [VarSet.meets]

theorem addDataDeps_nil_defs (uses d : VarSet) :
    addDataDeps uses [] d = if (!uses.isEmpty && VarSet.meets uses d) = true then d ++ uses else d := by
  simp only [addDataDeps, List.isEmpty_nil, Bool.true_and, meets_nil_right, Bool.false_eq_true, if_false]

theorem addDataDeps_cons_defs (uses d : VarSet) (z : Var) (zs : VarSet) :
    addDataDeps uses (z :: zs) d =
      if VarSet.meets d (z :: zs) = true then VarSet.diff d (z :: zs) ++ uses else d := by
  simp only [addDataDeps, List.isEmpty_cons, Bool.false_and, Bool.false_eq_true, if_false]

theorem mem_addDataDeps_of_mem {uses defs d : VarSet} {y : Var} (hy : y ∈ d) (hnd : y ∉ defs) :
    y ∈ addDataDeps uses defs d := by
  cases defs with
  | nil =>
    rw [addDataDeps_nil_defs]
    split
    · exact List.mem_append.mpr (Or.inl hy)
    · exact hy
  | cons z zs =>
    rw [addDataDeps_cons_defs]
    split
    · exact List.mem_append.mpr (Or.inl (VarSet.mem_diff.mpr ⟨hy, hnd⟩))
    · exact hy

theorem uses_sub_addDataDeps {uses defs d : VarSet} {x : Var} (hx : x ∈ d) (hd : x ∈ defs) :
    ∀ y, y ∈ uses → y ∈ addDataDeps uses defs d := by
  intro y hy
  cases defs with
  | nil => cases hd
  | cons z zs =>
    rw [addDataDeps_cons_defs]
    have hm : VarSet.meets d (z :: zs) = true := VarSet.meets_iff.mpr ⟨x, hx, hd⟩
    simp only [hm, if_true]
    exact List.mem_append.mpr (Or.inr hy)

theorem addDataDeps_nil (uses defs : VarSet) : addDataDeps uses defs [] = [] := by
  cases defs with
  | nil =>
    rw [addDataDeps_nil_defs]
    have : VarSet.meets uses [] = false := meets_nil_right uses
    simp [this]
  | cons z zs =>
    rw [addDataDeps_cons_defs]
    have : VarSet.meets [] (z :: zs) = false := by simp [VarSet.meets]
    simp [this]

theorem addDataDeps_mono {uses defs d d' : VarSet} (h : ∀ y, y ∈ d → y ∈ d') :
    ∀ y, y ∈ addDataDeps uses defs d → y ∈ addDataDeps uses defs d' := by
  intro y hy
  cases defs with
  | nil =>
    rw [addDataDeps_nil_defs] at hy ⊢
    by_cases hc : (!uses.isEmpty && VarSet.meets uses d) = true
    · have hc' : (!uses.isEmpty && VarSet.meets uses d') = true := by
        simp only [Bool.and_eq_true] at hc ⊢
        refine ⟨hc.1, ?_⟩
        obtain ⟨z, hz1, hz2⟩ := VarSet.meets_iff.mp hc.2
        exact VarSet.meets_iff.mpr ⟨z, hz1, h z hz2⟩
      rw [if_pos hc] at hy
      rw [if_pos hc']
      rcases List.mem_append.mp hy with hy | hy
      · exact List.mem_append.mpr (Or.inl (h y hy))
      · exact List.mem_append.mpr (Or.inr hy)
    · rw [if_neg hc] at hy
      split
      · exact List.mem_append.mpr (Or.inl (h y hy))
      · exact h y hy
  | cons z zs =>
    rw [addDataDeps_cons_defs] at hy ⊢
    by_cases hm : VarSet.meets d (z :: zs) = true
    · have hm' : VarSet.meets d' (z :: zs) = true := by
        obtain ⟨w, hw1, hw2⟩ := VarSet.meets_iff.mp hm
        exact VarSet.meets_iff.mpr ⟨w, h w hw1, hw2⟩
      rw [if_pos hm] at hy
      rw [if_pos hm']
      rcases List.mem_append.mp hy with hy | hy
      · have := VarSet.mem_diff.mp hy
        exact List.mem_append.mpr (Or.inl (VarSet.mem_diff.mpr ⟨h y this.1, this.2⟩))
      · exact List.mem_append.mpr (Or.inr hy)
    · rw [if_neg hm] at hy
      have hmf : VarSet.meets d (z :: zs) = false := by
        cases hv : VarSet.meets d (z :: zs) with
        | true => exact absurd hv hm
        | false => rfl
      have hnd := VarSet.meets_false hmf y hy
      split
      · exact List.mem_append.mpr (Or.inl (VarSet.mem_diff.mpr ⟨h y hy, hnd⟩))
      · exact h y hy

/-! ### `dataStep` -/

theorem dataStep_nil (s : Stmt) : dataStep s [] = [] := by
  cases s <;> simp [dataStep, addDataDeps_nil, VarSet.diff]

theorem dataStep_mono (s : Stmt) {d d' : VarSet} (h : ∀ y, y ∈ d → y ∈ d') :
    ∀ y, y ∈ dataStep s d → y ∈ dataStep s d' := by
  cases s with
  | havoc x =>
    intro y hy
    simp only [dataStep] at hy ⊢
    have := VarSet.mem_diff.mp hy
    exact VarSet.mem_diff.mpr ⟨h y this.1, this.2⟩
  | assert c => simpa [dataStep] using h
  | unreachable => intro y hy; simp [dataStep] at hy
  | assume c => simpa [dataStep] using addDataDeps_mono h
  | assign x e => simpa [dataStep] using addDataDeps_mono h
  | bin op x a b => simpa [dataStep] using addDataDeps_mono h
  | select x c e1 e2 => simpa [dataStep] using addDataDeps_mono h

theorem effect_of_step {s : Stmt} {σ σ' : State} {hv : Int} {ev : Option Event}
    (h : stepStmt s σ hv = .cont σ' ev) : s.effect σ hv = some σ' := by
  cases s with
  | assign x e => simp [stepStmt] at h; simp [Stmt.effect, h]
  | bin op x a b =>
    simp only [stepStmt] at h
    cases hop : op.eval (a.eval σ) (b.eval σ) with
    | none => rw [hop] at h; cases h
    | some v =>
      rw [hop] at h
      simp only [StepRes.cont.injEq] at h
      simp [Stmt.effect, hop, h.1]
  | havoc x => simp [stepStmt] at h; simp [Stmt.effect, h]
  | assume c =>
    simp only [stepStmt] at h
    split at h
    · simp only [StepRes.cont.injEq] at h; simp [Stmt.effect, h.1]
    · cases h
  | assert c =>
    simp only [stepStmt] at h
    split at h
    · simp only [StepRes.cont.injEq] at h; simp [Stmt.effect, h.1]
    · cases h
  | select x c e1 e2 => simp [stepStmt] at h; simp [Stmt.effect, h]
  | unreachable => simp [stepStmt] at h

/-- one statement: states that agree on the propagated set have successor states that agree on
    the set -/
theorem dataStep_sound (s : Stmt) (D : VarSet) (σ σ' τ τ' : State) (hv : Int)
    (hag : agreeOn (dataStep s D) σ σ') (h1 : s.effect σ hv = some τ) (h2 : s.effect σ' hv = some τ') :
    agreeOn D τ τ' := by
  cases s with
  | assign x e =>
    simp only [Stmt.effect, Option.some.injEq] at h1 h2
    subst h1; subst h2
    intro y hy
    simp only [dataStep, Stmt.uses, Stmt.defs] at hag
    by_cases hyx : y = x
    · subst hyx
      have he : e.eval σ = e.eval σ' :=
        Lin.eval_congr e σ σ' (fun z hz => hag z (uses_sub_addDataDeps hy (by simp) z hz))
      simp [State.set, he]
    · simp only [State.set, hyx, if_false]
      exact hag y (mem_addDataDeps_of_mem hy (by simp [hyx]))
  | bin op x a b =>
    simp only [Stmt.effect] at h1 h2
    simp only [dataStep, Stmt.uses, Stmt.defs] at hag
    intro y hy
    by_cases hyx : y = x
    · subst hyx
      have ha : a.eval σ = a.eval σ' :=
        Opd.eval_congr a σ σ' (fun z hz => hag z (uses_sub_addDataDeps hy (by simp) z (by simp [hz])))
      have hb : b.eval σ = b.eval σ' :=
        Opd.eval_congr b σ σ' (fun z hz => hag z (uses_sub_addDataDeps hy (by simp) z (by simp [hz])))
      rw [ha, hb] at h1
      cases hop : op.eval (a.eval σ') (b.eval σ') with
      | none => rw [hop] at h1; cases h1
      | some v =>
        rw [hop] at h1 h2
        simp only [Option.some.injEq] at h1 h2
        subst h1; subst h2
        simp [State.set]
    · cases hop : op.eval (a.eval σ) (b.eval σ) with
      | none => rw [hop] at h1; cases h1
      | some v =>
        cases hop' : op.eval (a.eval σ') (b.eval σ') with
        | none => rw [hop'] at h2; cases h2
        | some v' =>
          rw [hop] at h1; rw [hop'] at h2
          simp only [Option.some.injEq] at h1 h2
          subst h1; subst h2
          simp only [State.set, hyx, if_false]
          exact hag y (mem_addDataDeps_of_mem hy (by simp [hyx]))
  | havoc x =>
    simp only [Stmt.effect, Option.some.injEq] at h1 h2
    subst h1; subst h2
    intro y hy
    simp only [dataStep] at hag
    by_cases hyx : y = x
    · subst hyx; simp [State.set]
    · simp only [State.set, hyx, if_false]
      exact hag y (VarSet.mem_diff.mpr ⟨hy, by simp [hyx]⟩)
  | assume c =>
    simp only [Stmt.effect, Option.some.injEq] at h1 h2
    subst h1; subst h2
    intro y hy
    exact hag y (by simpa [dataStep] using mem_addDataDeps_of_mem (uses := c.vars) (defs := []) hy (by simp))
  | assert c =>
    simp only [Stmt.effect, Option.some.injEq] at h1 h2
    subst h1; subst h2
    simpa [dataStep] using hag
  | select x c e1 e2 =>
    simp only [Stmt.effect, Option.some.injEq] at h1 h2
    subst h1; subst h2
    intro y hy
    simp only [dataStep, Stmt.uses, Stmt.defs] at hag
    by_cases hyx : y = x
    · subst hyx
      have hu : ∀ z, z ∈ c.vars ++ e1.vars ++ e2.vars → σ z = σ' z :=
        fun z hz => hag z (uses_sub_addDataDeps hy (by simp) z hz)
      have hc : c.holds σ = c.holds σ' := Cst.holds_congr c σ σ' (fun z hz => hu z (by simp [hz]))
      have h1' : e1.eval σ = e1.eval σ' := Lin.eval_congr e1 σ σ' (fun z hz => hu z (by simp [hz]))
      have h2' : e2.eval σ = e2.eval σ' := Lin.eval_congr e2 σ σ' (fun z hz => hu z (by simp [hz]))
      simp [State.set, hc, h1', h2']
    · simp only [State.set, hyx, if_false]
      exact hag y (mem_addDataDeps_of_mem hy (by simp [hyx]))
  | unreachable => simp [Stmt.effect] at h1

/-- straight-line code -/
theorem bwdData_sound (hv : Nat → Int) : ∀ (ss : List Stmt) (i : Nat) (D : VarSet) (σ σ' τ τ' : State),
    agreeOn (bwdData ss D) σ σ' → effects hv i ss σ = some τ → effects hv i ss σ' = some τ' →
    agreeOn D τ τ' := by
  intro ss
  induction ss with
  | nil =>
    intro i D σ σ' τ τ' hag h1 h2
    simp only [effects, Option.some.injEq] at h1 h2
    subst h1; subst h2
    simpa [bwdData] using hag
  | cons s r ih =>
    intro i D σ σ' τ τ' hag h1 h2
    simp only [effects] at h1 h2
    cases e1 : s.effect σ (hv i) with
    | none => rw [e1] at h1; cases h1
    | some σ1 =>
      cases e2 : s.effect σ' (hv i) with
      | none => rw [e2] at h2; cases h2
      | some σ1' =>
        rw [e1] at h1; rw [e2] at h2
        have := dataStep_sound s (bwdData r D) σ σ' σ1 σ1' (hv i) (by simpa [bwdData] using hag) e1 e2
        exact ih (i + 1) D σ1 σ1' τ τ' this h1 h2

theorem bwdData_mono : ∀ (ss : List Stmt) {d d' : VarSet}, (∀ y, y ∈ d → y ∈ d') →
    ∀ y, y ∈ bwdData ss d → y ∈ bwdData ss d' := by
  intro ss
  induction ss with
  | nil => intro d d' h; simpa [bwdData] using h
  | cons s r ih =>
    intro d d' h
    simp only [bwdData]
    exact dataStep_mono s (ih h)

theorem effects_append (hv : Nat → Int) : ∀ (a b : List Stmt) (i : Nat) (σ : State),
    effects hv i (a ++ b) σ =
      match effects hv i a σ with
      | some σ' => effects hv (i + a.length) b σ'
      | none => none := by
  intro a
  induction a with
  | nil => intro b i σ; simp [effects]
  | cons s r ih =>
    intro b i σ
    simp only [List.cons_append, effects, List.length_cons]
    cases s.effect σ (hv i) with
    | none => rfl
    | some σ1 =>
      simp only []
      rw [ih b (i + 1) σ1]
      have : i + 1 + r.length = i + (r.length + 1) := by omega
      rw [this]

/-! ### facts -/

theorem Facts.get_of_lookup_none {F : Facts} {a : AId} (h : F.lookup a = none) : F.get a = [] := by
  simp [Facts.get, h]

theorem lookup_map_val (f : AId → VarSet → VarSet) : ∀ (F : Facts) (a : AId),
    (F.map (fun p => (p.1, f p.1 p.2))).lookup a = (F.lookup a).map (f a) := by
  intro F
  induction F with
  | nil => intro a; rfl
  | cons p r ih =>
    intro a
    obtain ⟨k, d⟩ := p
    simp only [List.map_cons, List.lookup_cons]
    by_cases hk : a = k
    · subst hk; simp
    · have : (a == k) = false := by simpa using hk
      simp only [this]
      exact ih a

theorem opt_map_getD (f : VarSet → VarSet) (o : Option VarSet) :
    (o.map f).getD [] = if o.isSome = true then f (o.getD []) else [] := by
  cases o <;> simp

theorem Facts.get_mapVals (F : Facts) (f : AId → VarSet → VarSet) (a : AId) :
    (F.mapVals f).get a = if F.has a then f a (F.get a) else [] := by
  simp only [Facts.mapVals, Facts.get, Facts.has, lookup_map_val]
  exact opt_map_getD _ _

theorem Facts.has_mapVals (F : Facts) (f : AId → VarSet → VarSet) (a : AId) :
    (F.mapVals f).has a = F.has a := by
  simp only [Facts.mapVals, Facts.has, lookup_map_val, Option.isSome_map]

theorem lookup_append (F G : Facts) (a : AId) :
    (F ++ G).lookup a = match F.lookup a with | some d => some d | none => G.lookup a := by
  induction F with
  | nil => simp [List.lookup]
  | cons p r ih =>
    obtain ⟨k, d⟩ := p
    simp only [List.cons_append, List.lookup_cons]
    cases (a == k) <;> simp [ih]

theorem lookup_replace (b : AId) (d : VarSet) : ∀ (F : Facts) (a : AId),
    (F.map (fun p => if p.1 == b then (b, d) else p)).lookup a =
      if a = b then (F.lookup a).map (fun _ => d) else F.lookup a := by
  intro F
  induction F with
  | nil => intro a; simp [List.lookup]
  | cons p r ih =>
    intro a
    obtain ⟨k, e⟩ := p
    simp only [List.map_cons, List.lookup_cons]
    by_cases hkb : k = b
    · subst hkb
      simp only [beq_self_eq_true, if_true, List.lookup_cons]
      by_cases hak : a = k
      · subst hak; simp
      · have : (a == k) = false := by simpa using hak
        simp only [this, hak, if_false]
        simpa [hak] using ih a
    · have hkb' : (k == b) = false := by simpa using hkb
      simp only [hkb', Bool.false_eq_true, if_false, List.lookup_cons]
      by_cases hak : a = k
      · subst hak
        have : ¬ a = b := hkb
        simp [this]
      · have : (a == k) = false := by simpa using hak
        simp only [this]
        exact ih a

/-- `set` leaves the other entries alone -/
theorem Facts.lookup_set_ne (F : Facts) {a b : AId} (d : VarSet) (h : a ≠ b) :
    (F.set b d).lookup a = F.lookup a := by
  unfold Facts.set
  split
  · rw [lookup_replace]; simp [h]
  · rw [lookup_append]
    cases F.lookup a with
    | some e => rfl
    | none =>
      have : (a == b) = false := by simpa using h
      simp [List.lookup, this]

theorem Facts.lookup_set_self (F : Facts) (b : AId) (d : VarSet) : (F.set b d).lookup b = some d := by
  unfold Facts.set
  split
  · rename_i hh
    rw [lookup_replace]
    simp only [if_true]
    simp only [Facts.has] at hh
    cases hl : F.lookup b with
    | none => rw [hl] at hh; cases hh
    | some e => rfl
  · rename_i hh
    rw [lookup_append]
    simp only [Facts.has] at hh
    cases hl : F.lookup b with
    | some e => rw [hl] at hh; simp at hh
    | none => simp [List.lookup]

/-! ### the block transfer of the model dominates the data propagation -/

/-- the entries are assertions that already have an identifier -/
def XState.regInv (X : XState) : Prop := ∀ b, X.facts.has b = true → b ∈ X.reg

theorem foldl_ctrl_sup (g : Cdg) (test : List Label → Bool) (us : VarSet) :
    ∀ (preds : List Label) (d : VarSet) (y : Var), y ∈ d →
      y ∈ preds.foldl (fun d p =>
        match g.lookup p with
        | some children => if test children then d ++ us else d
        | none => d) d := by
  intro preds
  induction preds with
  | nil => intro d y hy; simpa using hy
  | cons p r ih =>
    intro d y hy
    simp only [List.foldl_cons]
    apply ih
    cases g.lookup p with
    | none => exact hy
    | some ch =>
      simp only []
      split
      · exact List.mem_append.mpr (Or.inl hy)
      · exact hy

theorem assumeStep_sup (v : CrawlVariant) (g : Cdg) (preds : List Label) (l : Label) (c : Cst) (a : AId)
    (d : VarSet) : ∀ y, y ∈ addDataDeps c.vars [] d → y ∈ assumeStep v g preds l c a d := by
  intro y hy
  unfold assumeStep
  simp only []
  split
  · exact hy
  · exact foldl_ctrl_sup g (fun children => (v.ownBlock && children.contains l) || g.reaches children a.1)
      c.vars preds _ y hy

theorem xferStmt_regInv (v : CrawlVariant) (g : Cdg) (preds : List Label) (l : Label) (k : Nat) (s : Stmt)
    (X : XState) (h : X.regInv) : (xferStmt v g preds l k s X).regInv := by
  intro b hb
  cases s with
  | assert c =>
    simp only [xferStmt] at hb ⊢
    by_cases hreg : X.reg.contains (l, k) = true
    · simp only [hreg, if_true] at hb ⊢
      cases hv : v.stmtFromOut with
      | false => simp only [hv, Bool.false_eq_true, if_false] at hb ⊢; exact h b hb
      | true =>
        simp only [hv, if_true] at hb ⊢
        by_cases hbk : b = (l, k)
        · subst hbk; exact List.contains_iff_mem.mp hreg
        · apply h b
          simpa [Facts.has, Facts.lookup_set_ne _ _ hbk] using hb
    · simp only [hreg, Bool.false_eq_true, if_false] at hb ⊢
      by_cases hbk : b = (l, k)
      · subst hbk; simp
      · refine List.mem_cons_of_mem _ (h b ?_)
        simpa [Facts.has, Facts.lookup_set_ne _ _ hbk] using hb
  | unreachable => simp [xferStmt, Facts.has, List.lookup] at hb
  | assume c => simp only [xferStmt, Facts.has_mapVals] at hb ⊢; exact h b hb
  | assign x e => simp only [xferStmt, Facts.has_mapVals] at hb ⊢; exact h b hb
  | bin op x a b' => simp only [xferStmt, Facts.has_mapVals] at hb ⊢; exact h b hb
  | havoc x => simp only [xferStmt, Facts.has_mapVals] at hb ⊢; exact h b hb
  | select x c e1 e2 => simp only [xferStmt, Facts.has_mapVals] at hb ⊢; exact h b hb

theorem xferFrom_regInv (v : CrawlVariant) (g : Cdg) (preds : List Label) (l : Label) :
    ∀ (ss : List Stmt) (k : Nat) (X : XState), X.regInv → (xferFrom v g preds l k ss X).regInv := by
  intro ss
  induction ss with
  | nil => intro k X h; simpa [xferFrom] using h
  | cons s r ih =>
    intro k X h
    simp only [xferFrom]
    exact xferStmt_regInv v g preds l k s _ (ih (k + 1) X h)

/-- one statement of the model's transfer function keeps at least what `dataStep` asks for -/
theorem xferStmt_dataStep (v : CrawlVariant) (g : Cdg) (preds : List Label) (l : Label) (k : Nat) (s : Stmt)
    (X : XState) (h : X.regInv) (a : AId) :
    ∀ y, y ∈ dataStep s (X.facts.get a) → y ∈ (xferStmt v g preds l k s X).facts.get a := by
  have hget : ∀ (f : AId → VarSet → VarSet), (∀ d y, y ∈ dataStep s d → y ∈ f a d) →
      ∀ y, y ∈ dataStep s (X.facts.get a) → y ∈ (X.facts.mapVals f).get a := by
    intro f hf y hy
    rw [Facts.get_mapVals]
    cases hh : X.facts.has a with
    | true => simp only [if_true]; exact hf _ y hy
    | false =>
      have : X.facts.get a = [] := by
        simp only [Facts.has] at hh
        cases hl : X.facts.lookup a with
        | none => exact Facts.get_of_lookup_none hl
        | some e => rw [hl] at hh; simp at hh
      rw [this, dataStep_nil] at hy
      cases hy
  cases s with
  | assert c =>
    intro y hy
    simp only [dataStep] at hy
    simp only [xferStmt]
    by_cases hreg : X.reg.contains (l, k) = true
    · simp only [hreg, if_true]
      cases hv : v.stmtFromOut with
      | false => simpa using hy
      | true =>
        simp only [if_true]
        by_cases hak : a = (l, k)
        · subst hak
          simp only [Facts.get, Facts.lookup_set_self]
          exact List.mem_append.mpr (Or.inr hy)
        · simpa [Facts.get, Facts.lookup_set_ne _ _ hak] using hy
    · simp only [hreg, Bool.false_eq_true, if_false]
      by_cases hak : a = (l, k)
      · subst hak
        -- an assertion without identifier has no entry
        have hno : X.facts.has (l, k) = false := by
          cases hh : X.facts.has (l, k) with
          | false => rfl
          | true => exact absurd (List.contains_iff_mem.mpr (h _ hh)) hreg
        have : X.facts.get (l, k) = [] := by
          simp only [Facts.has] at hno
          cases hl : X.facts.lookup (l, k) with
          | none => exact Facts.get_of_lookup_none hl
          | some e => rw [hl] at hno; simp at hno
        rw [this] at hy
        cases hy
      · simpa [Facts.get, Facts.lookup_set_ne _ _ hak] using hy
  | unreachable => intro y hy; simp [dataStep] at hy
  | assume c =>
    simp only [xferStmt]
    apply hget
    intro d y hy
    exact assumeStep_sup v g preds l c a d y (by simpa [dataStep] using hy)
  | assign x e => simp only [xferStmt]; exact hget _ (fun d y hy => hy)
  | bin op x a' b => simp only [xferStmt]; exact hget _ (fun d y hy => hy)
  | havoc x => simp only [xferStmt]; exact hget _ (fun d y hy => hy)
  | select x c e1 e2 => simp only [xferStmt]; exact hget _ (fun d y hy => hy)

/-- `analyze` of the model (any variant, any control-dependence graph): what it answers for an
    assertion contains the data propagation of what it was given for that assertion -/
theorem xferFrom_bwdData (v : CrawlVariant) (g : Cdg) (preds : List Label) (l : Label) :
    ∀ (ss : List Stmt) (k : Nat) (X : XState), X.regInv → ∀ (a : AId) (y : Var),
      y ∈ bwdData ss (X.facts.get a) → y ∈ (xferFrom v g preds l k ss X).facts.get a := by
  intro ss
  induction ss with
  | nil => intro k X _ a y hy; simpa [xferFrom, bwdData] using hy
  | cons s r ih =>
    intro k X h a y hy
    simp only [xferFrom, bwdData] at hy ⊢
    have hinv := xferFrom_regInv v g preds l r (k + 1) X h
    apply xferStmt_dataStep v g preds l k s _ hinv a y
    exact dataStep_mono s (ih (k + 1) X h a) y hy

/-- an assertion statement generates (at least) the variables of its condition -/
theorem xferStmt_gen (v : CrawlVariant) (g : Cdg) (preds : List Label) (l : Label) (k : Nat) (c : Cst)
    (X : XState) (hreg : (l, k) ∉ X.reg ∨ v.stmtFromOut = true) :
    ∀ y, y ∈ c.vars → y ∈ (xferStmt v g preds l k (.assert c) X).facts.get (l, k) := by
  intro y hy
  simp only [xferStmt]
  by_cases hr : X.reg.contains (l, k) = true
  · rcases hreg with hreg | hreg
    · exact absurd (List.contains_iff_mem.mp hr) hreg
    · simp only [hr, hreg, if_true, Facts.get, Facts.lookup_set_self]
      exact List.mem_append.mpr (Or.inl hy)
  · simp only [hr, Bool.false_eq_true, if_false, Facts.get, Facts.lookup_set_self]
    exact hy

theorem agreeOn_set {S : VarSet} {x : Var} (hx : x ∉ S) (σ : State) (v : Int) : agreeOn S σ (σ.set x v) := by
  intro y hy
  have : y ≠ x := by intro h; subst h; exact hx hy
  simp [State.set, this]

theorem xferStmt_reg_sub (v : CrawlVariant) (g : Cdg) (preds : List Label) (l : Label) (k : Nat) (s : Stmt)
    (X : XState) : ∀ b, b ∈ (xferStmt v g preds l k s X).reg → b ∈ X.reg ∨ b = (l, k) := by
  intro b hb
  cases s with
  | assert c =>
    simp only [xferStmt] at hb
    by_cases hr : X.reg.contains (l, k) = true
    · simp only [hr, if_true] at hb
      cases hv : v.stmtFromOut <;> simp only [hv] at hb <;> exact Or.inl (by simpa using hb)
    · simp only [hr, Bool.false_eq_true, if_false, List.mem_cons] at hb
      rcases hb with hb | hb
      · exact Or.inr hb
      · exact Or.inl hb
  | unreachable => exact Or.inl (by simpa [xferStmt] using hb)
  | assume c => exact Or.inl (by simpa [xferStmt] using hb)
  | assign x e => exact Or.inl (by simpa [xferStmt] using hb)
  | bin op x a b' => exact Or.inl (by simpa [xferStmt] using hb)
  | havoc x => exact Or.inl (by simpa [xferStmt] using hb)
  | select x c e1 e2 => exact Or.inl (by simpa [xferStmt] using hb)

theorem xferFrom_reg_sub (v : CrawlVariant) (g : Cdg) (preds : List Label) (l : Label) :
    ∀ (ss : List Stmt) (k : Nat) (X : XState) (b : AId), b ∈ (xferFrom v g preds l k ss X).reg →
      b ∈ X.reg ∨ (b.1 = l ∧ k ≤ b.2) := by
  intro ss
  induction ss with
  | nil => intro k X b hb; exact Or.inl (by simpa [xferFrom] using hb)
  | cons s r ih =>
    intro k X b hb
    simp only [xferFrom] at hb
    rcases xferStmt_reg_sub v g preds l k s _ b hb with h | h
    · rcases ih (k + 1) X b h with h | h
      · exact Or.inl h
      · exact Or.inr ⟨h.1, by omega⟩
    · subst h; exact Or.inr ⟨rfl, Nat.le_refl _⟩

/-- generation inequation: statement `j` of the block is `assert c`, visited for the first time
    (or the repaired `process_assertion`): the answer for it contains the variables of the
    condition propagated back through the statements in front of it -/
theorem xferFrom_gen (v : CrawlVariant) (g : Cdg) (preds : List Label) (l : Label) :
    ∀ (ss : List Stmt) (k : Nat) (X : XState) (j : Nat) (c : Cst), X.regInv →
      ((l, k + j) ∉ X.reg ∨ v.stmtFromOut = true) → ss[j]? = some (.assert c) →
      VarSet.subset (bwdData (ss.take j) c.vars) ((xferFrom v g preds l k ss X).facts.get (l, k + j)) = true := by
  intro ss
  induction ss with
  | nil => intro k X j c _ _ h; simp at h
  | cons s r ih =>
    intro k X j c hX hreg hj
    apply VarSet.subset_iff.mpr
    cases j with
    | zero =>
      simp only [List.getElem?_cons_zero, Option.some.injEq] at hj
      subst hj
      simp only [List.take_zero, bwdData, xferFrom, Nat.add_zero]
      apply xferStmt_gen
      rcases hreg with hreg | hreg
      · left
        intro hmem
        rcases xferFrom_reg_sub v g preds l r (k + 1) X (l, k) hmem with h | h
        · exact hreg (by simpa using h)
        · have := h.2; simp only at this; omega
      · exact Or.inr hreg
    | succ j =>
      simp only [List.getElem?_cons_succ] at hj
      have hk : k + (j + 1) = k + 1 + j := by omega
      rw [hk] at hreg ⊢
      have := VarSet.subset_iff.mp (ih (k + 1) X j c hX hreg hj)
      intro y hy
      simp only [List.take_succ_cons, bwdData, xferFrom] at hy ⊢
      have hinv := xferFrom_regInv v g preds l r (k + 1) X hX
      exact xferStmt_dataStep v g preds l k s _ hinv _ y (dataStep_mono s this y hy)

theorem mem_asserts {P : Prog} {l : Label} {k : Nat} {c : Cst}
    (h : (P.stmtsOf l)[k]? = some (.assert c)) : ((l, k), c) ∈ P.asserts := by
  unfold Prog.stmtsOf at h
  cases hb : P.block? l with
  | none => rw [hb] at h; simp at h
  | some b =>
    rw [hb] at h
    simp only at h
    have hmem : b ∈ P.blocks := List.mem_of_find?_eq_some hb
    have hlab : b.label = l := by
      have := List.find?_some hb
      simpa using this
    unfold Prog.asserts
    refine List.mem_flatMap.mpr ⟨b, hmem, ?_⟩
    refine List.mem_filterMap.mpr ⟨(.assert c, k), ?_, ?_⟩
    · exact List.mem_zipIdx_iff_getElem?.mpr h
    · simp [hlab]

theorem isDataSol_gen {P : Prog} {F : Label → Facts} (h : isDataSol P F = true) {a : AId} {c : Cst}
    (hm : (a, c) ∈ P.asserts) :
    ∀ y, y ∈ bwdData ((P.stmtsOf a.1).take a.2) c.vars → y ∈ (F a.1).get a := by
  simp only [isDataSol, Bool.and_eq_true, List.all_eq_true] at h
  exact VarSet.subset_iff.mp (h.1 (a, c) hm)

theorem isDataSol_flow {P : Prog} {F : Label → Facts} (h : isDataSol P F = true) {a : AId} {c : Cst}
    (hm : (a, c) ∈ P.asserts) {l l' : Label} (hs : l' ∈ P.succsOf l) :
    ∀ y, y ∈ bwdData (P.stmtsOf l) ((F l').get a) → y ∈ (F l).get a := by
  simp only [isDataSol, Bool.and_eq_true, List.all_eq_true] at h
  exact VarSet.subset_iff.mp (h.2 l (mem_labels_of_succ hs) l' hs (a, c) hm)

/-- the path theorem, by induction on the path -/
theorem crawler_path (P : Prog) (F : Label → Facts) (hsol : isDataSol P F = true) (a : AId) (c : Cst)
    (hm : (a, c) ∈ P.asserts) (hv : Nat → Int) :
    ∀ (π : List Label) (l0 : Label), isPath P (l0 :: π) = true → (l0 :: π).getLast? = some a.1 →
      ∀ (i : Nat) (σ σ' τ τ' : State), agreeOn ((F l0).get a) σ σ' →
        effects hv i (pathStmts P (l0 :: π) a.2) σ = some τ →
        effects hv i (pathStmts P (l0 :: π) a.2) σ' = some τ' → c.holds τ = c.holds τ' := by
  intro π
  induction π with
  | nil =>
    intro l0 _ hlast i σ σ' τ τ' hag h1 h2
    simp only [List.getLast?_singleton, Option.some.injEq] at hlast
    subst hlast
    simp only [pathStmts] at h1 h2
    have hag' : agreeOn (bwdData ((P.stmtsOf a.1).take a.2) c.vars) σ σ' :=
      fun y hy => hag y (isDataSol_gen hsol hm y hy)
    exact Cst.holds_congr c τ τ' (bwdData_sound hv _ i c.vars σ σ' τ τ' hag' h1 h2)
  | cons l1 r ih =>
    intro l0 hpath hlast i σ σ' τ τ' hag h1 h2
    simp only [isPath, Bool.and_eq_true] at hpath
    have hs : l1 ∈ P.succsOf l0 := List.contains_iff_mem.mp hpath.1
    have hlast' : (l1 :: r).getLast? = some a.1 := by
      simpa [List.getLast?_cons_cons] using hlast
    simp only [pathStmts] at h1 h2
    rw [effects_append] at h1 h2
    cases e1 : effects hv i (P.stmtsOf l0) σ with
    | none => rw [e1] at h1; cases h1
    | some σ1 =>
      cases e2 : effects hv i (P.stmtsOf l0) σ' with
      | none => rw [e2] at h2; cases h2
      | some σ1' =>
        rw [e1] at h1; rw [e2] at h2
        have hag1 : agreeOn ((F l1).get a) σ1 σ1' := by
          apply bwdData_sound hv (P.stmtsOf l0) i ((F l1).get a) σ σ' σ1 σ1' _ e1 e2
          exact fun y hy => hag y (isDataSol_flow hsol hm hs y hy)
        exact ih l1 hpath.2 hlast' _ σ1 σ1' τ τ' hag1 h1 h2


end TIR
end Crab
