import CrabProofs.Lemmas.InterAbs
import CrabProofs.Props.C01Engine

/-!
  The call transformers are sound for the calls described by a summary table; the block
  transformer is sound on the local semantics; the intra-procedural solver (`solve` =
  `Fix.run`) returns tables that contain the local collecting semantics (by `C01.run_sound`).
-/
namespace Crab.Inter
open Crab.Fix

variable {p : IProg}

/-- the call transformer `call` is sound for the call relation `CR` on well-formed call sites -/
def CallSound (p : IProg) (D : IDom) (call : Nat → List Var → List Var → D.A → D.A) (CR : CallRel) : Prop :=
  ∀ (f : IFun) (h : Nat) (lhs args : List Var) (a : D.A) (env : Env) (ov : List Int),
    StmtOK p f (.call h lhs args) → env.size = p.nv → EnvIn D.toAbsDom a env →
    CR h (args.map (fun x => env.getD x 0)) ov → EnvIn D.toAbsDom (call h lhs args a) (setMany env lhs ov)

/-- the stored summaries carry the parameters of the declarations -/
def TableDecl (p : IProg) {D : IDom} (T : SumTable D) : Prop :=
  ∀ h s, T h = some s → s.ins = (p.fn h).ins ∧ s.outs = (p.fn h).outs

theorem callArgs_lt {f : IFun} {h : Nat} {lhs args : List Var} (hS : StmtOK p f (.call h lhs args)) :
    (∀ v : Nat, v ∈ lhs → v < p.nv) ∧ (∀ v : Nat, v ∈ args → v < p.nv) :=
  ⟨fun v hv => hS.2.1 v (by simp [IStmt.vars, hv]), fun v hv => hS.2.1 v (by simp [IStmt.vars, hv])⟩

theorem reuse_at_call (hP : ProgOK p) (D : IDom) (hren : D.toAbsDom.RenameSound) {T : SumTable D}
    (hT : TableDecl p T) {f : IFun} {h : Nat} {lhs args : List Var} {s : Summary D} (hs : T h = some s)
    (hS : StmtOK p f (.call h lhs args)) {a : D.A} {env : Env} {ov : List Int} (hsz : env.size = p.nv)
    (ha : EnvIn D.toAbsDom a env) (hcr : tableCR T h (args.map (fun x => env.getD x 0)) ov) :
    EnvIn D.toAbsDom (reuseSummary D p.nv s lhs args a) (setMany env lhs ov) := by
  obtain ⟨hi, ho⟩ := hT h s hs
  obtain ⟨hc, hnd, hll, hla⟩ := hS.2.2
  have hF := hP h hc
  exact reuse_sound D hren p.nv s lhs args a env ov hsz (by rw [hi]; exact hF.ins_lt) (by rw [ho]; exact hF.outs_lt)
    (callArgs_lt hS).2 (callArgs_lt hS).1 hnd (by rw [hi]; exact hla) (by rw [ho]; exact hll) ha (hcr s hs)

theorem buCall_sound (hP : ProgOK p) (D : IDom) (hren : D.toAbsDom.RenameSound) (T : SumTable D)
    (hT : TableDecl p T) : CallSound p D (buCall D p.nv T) (tableCR T) := by
  intro f h lhs args a env ov hS hsz ha hcr
  unfold buCall
  cases hs : T h with
  | none => exact EnvIn.havoc D lhs ov ha
  | some s => exact reuse_at_call hP D hren hT hs hS hsz ha hcr

theorem tdCall_sound (hP : ProgOK p) (BU TD : IDom) (cv : Conv BU TD) (hren : BU.toAbsDom.RenameSound)
    (T : SumTable BU) (hT : TableDecl p T) : CallSound p TD (tdCall BU TD cv p.nv T) (tableCR T) := by
  intro f h lhs args a env ov hS hsz ha hcr
  unfold tdCall
  cases hs : T h with
  | none => exact EnvIn.havoc TD lhs ov ha
  | some s =>
    have hbu : EnvIn BU.toAbsDom (cv.toBU a) env := fun σ hσ => cv.toBU_sound (ha σ hσ)
    have h1 := reuse_at_call hP BU hren hT hs hS hsz hbu hcr
    have h2 := EnvIn.havoc TD lhs ov ha
    exact fun σ hσ => cv.fromBU_sound (h1 σ hσ) (h2 σ hσ)

/-! ### blocks -/

theorem execPrefix_succ (D : IDom) (call : Nat → List Var → List Var → D.A → D.A) (b : IBlock) (k : Nat)
    (a : D.A) (hk : k < b.stmts.size) :
    execPrefix D call b (k + 1) a = execStmt D call (execPrefix D call b k a) (b.stmts.getD k default) := by
  unfold execPrefix
  rw [foldl_take_succ _ _ _ _ default (by simpa using hk)]
  congr 1
  simp [Array.getD_eq_getD_getElem?, List.getD]

theorem execPrefix_all (D : IDom) (call : Nat → List Var → List Var → D.A → D.A) (b : IBlock) (a : D.A) :
    execPrefix D call b b.stmts.size a = execBlock D call b a := by
  unfold execPrefix execBlock
  rw [List.take_of_length_le (by simp)]

theorem execStmt_sound (D : IDom) {call : Nat → List Var → List Var → D.A → D.A} {CR : CallRel}
    (hcs : CallSound p D call CR) {f : IFun} {s : IStmt} (hS : StmtOK p f s) {a : D.A} {e e' : Env}
    (hsz : e.size = p.nv) (ha : EnvIn D.toAbsDom a e) (hst : LStep CR s e e') :
    EnvIn D.toAbsDom (execStmt D call a s) e' := by
  have hv : ∀ v, v ∈ s.vars → v < e.size := fun v hv => by rw [hsz]; exact hS.2.1 v hv
  cases s with
  | call h lhs args =>
    obtain ⟨ov, hcr, he⟩ := hst
    subst he
    exact hcs f h lhs args a e ov hS hsz ha hcr
  | assign x l => exact EnvIn.stmt D CR ha hv (fun _ _ _ hn => by cases hn) hst
  | bin op x y z => exact EnvIn.stmt D CR ha hv (fun _ _ _ hn => by cases hn) hst
  | havoc x => exact EnvIn.stmt D CR ha hv (fun _ _ _ hn => by cases hn) hst
  | assume c => exact EnvIn.stmt D CR ha hv (fun _ _ _ hn => by cases hn) hst
  | assert i c => exact EnvIn.stmt D CR ha hv (fun _ _ _ hn => by cases hn) hst

theorem Pref.sound (D : IDom) {call : Nat → List Var → List Var → D.A → D.A} {CR : CallRel}
    (hcs : CallSound p D call CR) {f : IFun} (hF : FunOK p f) (b : Nat) (a : D.A) :
    ∀ {k : Nat} {s e : Env}, Pref CR (f.blk b) k s e → s.size = p.nv → EnvIn D.toAbsDom a s →
      EnvIn D.toAbsDom (execPrefix D call (f.blk b) k a) e ∧ e.size = p.nv := by
  intro k s e h
  induction h with
  | nil s => intro hs ha; exact ⟨by simpa [execPrefix] using ha, hs⟩
  | snoc hp hk hst ih =>
    intro hs ha
    obtain ⟨h1, h2⟩ := ih hs ha
    rw [execPrefix_succ D call _ _ a hk]
    exact ⟨execStmt_sound D hcs (hF.stmts b _ hk) h2 h1 hst, by rw [LStep.size hst]; exact h2⟩

/-- the contract `Sem` of the iterator theorem for one function: frames of size `nv` described by
    the abstract value, one step = the whole block on the local semantics -/
def solveSem (D : IDom) (cfg : FixCfg) (g : Nat) {f : IFun} (hF : FunOK p f)
    {call : Nat → List Var → List Var → D.A → D.A} {CR : CallRel} (hcs : CallSound p D call CR) (init : D.A) :
    Sem (mkCtx D cfg g f (fun n a => execBlock D call (f.blk n) a) init) Env where
  γ := fun a env => env.size = p.nv ∧ EnvIn D.toAbsDom a env
  step := fun n s s' => Pref CR (f.blk n) (f.blk n).stmts.size s s'
  analyze_sound := by
    intro n a s s' hγ hst
    have := Pref.sound D hcs hF n a hst hγ.1 hγ.2
    rw [execPrefix_all] at this
    exact ⟨this.2, this.1⟩
  join_left := fun a b s h => ⟨h.1, fun σ hσ => D.join_left (h.2 σ hσ)⟩
  join_right := fun a b s h => ⟨h.1, fun σ hσ => D.join_right (h.2 σ hσ)⟩
  widen_left := fun a b s h => ⟨h.1, fun σ hσ => D.widen_left (h.2 σ hσ)⟩
  widen_right := fun a b s h => ⟨h.1, fun σ hσ => D.widen_right (h.2 σ hσ)⟩
  meet_sound := fun a b s h1 h2 => ⟨h1.1, fun σ hσ => D.meet_sound (h1.2 σ hσ) (h2.2 σ hσ)⟩
  narrow_sound := fun a b s h1 h2 => ⟨h1.1, fun σ hσ => D.narrow_sound (h1.2 σ hσ) (h2.2 σ hσ)⟩
  leq_sound := fun a b s hl h => ⟨h.1, fun σ hσ => D.leq_sound hl (h.2 σ hσ)⟩

theorem succ_blk_lt {f : IFun} {b n : Nat} (h : n ∈ (f.blk b).succs.toList) : b < f.blocks.size := by
  by_cases hb : b < f.blocks.size
  · exact hb
  · exfalso
    have : f.blk b = default := by
      simp [IFun.blk, Array.getD_eq_getD_getElem?, Array.getElem?_eq_none (Nat.le_of_not_lt hb)]
    rw [this] at h
    have h0 : (default : IBlock).succs.toList = [] := rfl
    rw [h0] at h
    cases h

theorem mem_preds {f : IFun} {b n : Nat} (h : n ∈ (f.blk b).succs.toList) : b ∈ f.preds n := by
  unfold IFun.preds
  rw [List.mem_filter]
  exact ⟨List.mem_range.mpr (succ_blk_lt h), by simpa using h⟩

/-- the local collecting semantics is inside the collecting semantics of the iterator theorem -/
theorem LPre.reach (D : IDom) (cfg : FixCfg) (g : Nat) {f : IFun} (hF : FunOK p f)
    {call : Nat → List Var → List Var → D.A → D.A} {CR : CallRel} (hcs : CallSound p D call CR) (init : D.A)
    (E : Env → Prop) (hE : ∀ s, E s → s.size = p.nv ∧ EnvIn D.toAbsDom init s) :
    ∀ {n : Nat} {s : Env}, LPre CR f E n s → ReachPre _ (solveSem D cfg g hF hcs init) n s := by
  intro n s h
  induction h with
  | init hs => exact ReachPre.init _ (hE _ hs) (by simp [asmOk, hasAssumptions, mkCtx])
  | flow _ hp hn ih =>
    exact ReachPre.flow _ _ _ (mem_preds hn) (ReachPost.step _ _ _ ih hp) (by simp [asmOk, hasAssumptions, mkCtx])

theorem solve_sound (D : IDom) (cfg : FixCfg) (g : Nat) {f : IFun} (hF : FunOK p f)
    {call : Nat → List Var → List Var → D.A → D.A} {CR : CallRel} (hcs : CallSound p D call CR) (init : D.A)
    (E : Env → Prop) (hE : ∀ s, E s → s.size = p.nv ∧ EnvIn D.toAbsDom init s)
    (hwf : WtoWF (mkCtx D cfg g f (fun n a => execBlock D call (f.blk n) a) init) (cfg.wto g))
    (st : Fix.St D.A) (hrun : solve D cfg g f call init = some st) (b k : Nat) (env : Env)
    (h : LocalAt CR f E b k env) :
    EnvIn D.toAbsDom (execPrefix D call (f.blk b) k (st.pre b)) env ∧ env.size = p.nv ∧
    (k = (f.blk b).stmts.size → EnvIn D.toAbsDom (st.post b) env) := by
  have hs := C01.run_sound _ (cfg.wto g) Env (solveSem D cfg g hF hcs init) cfg.fuel st hwf hrun
  obtain ⟨s0, h1, h2⟩ := h
  have hr := LPre.reach D cfg g hF hcs init E hE h1
  have hpre := hs.1 b s0 hr
  have := Pref.sound D hcs hF b (st.pre b) h2 hpre.1 hpre.2
  refine ⟨this.1, this.2, ?_⟩
  intro hk
  subst hk
  exact (hs.2 b env (ReachPost.step _ _ _ hr h2)).2

/-! ### the calling context of the top-down phase -/

theorem SeqOK.of_bool : ∀ {xs ys : List Var}, seqOKb xs ys = true → SeqOK xs ys
  | [], _, _ => by cases ‹List Var› <;> trivial
  | _ :: _, [], _ => trivial
  | x :: xs, y :: ys, h => by
    simp only [seqOKb, Bool.and_eq_true, Bool.or_eq_true, beq_iff_eq, Bool.not_eq_true',
      List.contains_eq_mem, decide_eq_false_iff_not] at h
    exact ⟨h.1, SeqOK.of_bool h.2⟩

/-- `project(unify(inv, formals := actuals), formals)` describes the frame the call creates, when
    the sequential wiring is a parallel assignment (`SeqOK`) -/
theorem tdCalleeCtx_sound (TD : IDom) {BU : IDom} (s : Summary BU) (args : List Var) (inv : TD.A)
    (env env' : Env) (hnd : s.ins.Nodup) (hok : SeqOK s.ins args) (hlen : s.ins.length ≤ args.length)
    (hins : ∀ v, v ∈ s.ins → v < env'.size)
    (h : EnvIn TD.toAbsDom inv env)
    (hm : MatchVals s.ins (args.map (fun a => env.getD a 0)) (toSt env')) :
    EnvIn TD.toAbsDom (tdCalleeCtx TD s args inv) env' := by
  intro τ hτ
  unfold tdCalleeCtx
  have h1 := unifySeq_sound TD.toAbsDom s.ins args inv (toSt env) (h _ (Ext_toSt env))
  apply TD.project_sound s.ins h1
  intro v hv
  have hp1 := seqAssign_pairs s.ins args (toSt env) hnd hok
  have hp2 : AllPairs (fun x y => toSt env' x = toSt env y) s.ins args :=
    AllPairs.of_match_map hm (fun _ _ => rfl)
  obtain ⟨a, _, q1, q2⟩ := AllPairs.exists_of_mem (hp1.and hp2) hlen v hv
  rw [q1, ← q2]
  exact hτ v (hins v hv)

end Crab.Inter
