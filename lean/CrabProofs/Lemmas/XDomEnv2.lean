import CrabProofs.Lemmas.XDomEnv

/-!
  `Crab.XDom.Env`: vector operations (`forget`, `project`, `expand`, weak update), the lattice
  operations and the inclusion test, `is_bottom` / `is_top`.
-/
set_option linter.unusedSectionVars false

namespace Crab
namespace XDom
open Patricia Patricia.Tree Lin SepDom

variable {V : Type} [GoodVal V] {L : Lattice V} {mem : Int → V → Prop}

namespace Env

/-! ### `is_top` -/

theorem tree_empty_of_size {e : Env V} (he : Inv L e) (hsz : e.tree.size = 0) : e.tree = .empty := by
  cases ht : e.tree with
  | empty => rfl
  | leaf k v => rw [ht] at hsz; simp [Tree.size] at hsz
  | node p m l r =>
    exfalso
    rw [ht] at hsz
    have hw := he.1; rw [ht] at hw
    obtain ⟨⟨k1, hk1⟩, _⟩ := hw.node_keys
    have h0 : 0 < l.toList.length := by
      obtain ⟨v, hv⟩ := mem_keys_iff_toList.mp hk1
      exact List.length_pos_of_mem hv
    simp only [Tree.size] at hsz
    have := size_eq_length l
    omega

theorem tree_empty_of_isTop {e : Env V} (he : Inv L e) (h : e.isTop = true) :
    e.isBot = false ∧ e.tree = .empty := by
  unfold isTop SepDom.isTop at h
  cases ne : e.isBot
  · refine ⟨rfl, tree_empty_of_size he ?_⟩
    simpa [ne] using h
  · simp [ne] at h

theorem get_of_isTop {e : Env V} (he : Inv L e) (h : e.isTop = true) (k : Var) : get L e k = L.top := by
  obtain ⟨h1, h2⟩ := tree_empty_of_isTop he h
  rw [get_eq, h1, h2]; rfl

theorem γ_of_isTop (hL : Laws L mem) {e : Env V} (he : Inv L e) (h : e.isTop = true) (σ : State) :
    γ L mem e σ :=
  ⟨(tree_empty_of_isTop he h).1, fun x => by rw [get_of_isTop he h]; exact hL.mem_top _⟩

/-! ### `forget(variables)`, `project`, `expand` -/

theorem forget_fold_inv (hL : Laws L mem) : ∀ (vs : List Var) {e : Env V}, Inv L e → (∀ v ∈ vs, v < 2 ^ 64) →
    Inv L (vs.foldl (fun env v => forget L env v) e) := by
  intro vs
  induction vs with
  | nil => intro e he _; exact he
  | cons v rest ih =>
    intro e he hv
    simp only [List.foldl_cons]
    exact ih (forget_inv hL he (hv v (by simp))) (fun w hw => hv w (by simp [hw]))

theorem forget_fold_sound (hL : Laws L mem) : ∀ (vs : List Var) {e : Env V} {σ : State}, Inv L e →
    γ L mem e σ → (∀ v ∈ vs, v < 2 ^ 64) → ∀ σ' : State, (∀ y, y ∉ vs → σ' y = σ y) →
    γ L mem (vs.foldl (fun env v => forget L env v) e) σ' := by
  intro vs
  induction vs with
  | nil =>
    intro e σ _ hg _ σ' h
    have : σ' = σ := funext (fun y => h y (by simp))
    rw [this]; exact hg
  | cons v rest ih =>
    intro e σ he hg hv σ' h
    simp only [List.foldl_cons]
    have hv0 := hv v (by simp)
    apply ih (forget_inv hL he hv0) (forget_sound hL he hg hv0 (σ' v)) (fun w hw => hv w (by simp [hw]))
    intro y hy
    by_cases e1 : y = v
    · subst e1; simp
    · rw [upd_other _ _ e1]; exact h y (by simp [e1, hy])

theorem forgetAll_inv (hL : Laws L mem) {e : Env V} (he : Inv L e) {vs : List Var} (hv : ∀ v ∈ vs, v < 2 ^ 64) :
    Inv L (forgetAll L e vs) := by
  unfold forgetAll
  split
  · exact he
  · exact forget_fold_inv hL vs he hv

/-- `forget(variables)`: the state may change on the forgotten variables only -/
theorem forgetAll_sound (hL : Laws L mem) {e : Env V} (he : Inv L e) {σ : State} (hg : γ L mem e σ)
    {vs : List Var} (hv : ∀ v ∈ vs, v < 2 ^ 64) {σ' : State} (h : ∀ y, y ∉ vs → σ' y = σ y) :
    γ L mem (forgetAll L e vs) σ' := by
  unfold forgetAll
  split
  · rename_i hc
    have : e.isTop = true := by
      have hb : e.isBottom = false := hg.1
      simpa [hb] using hc
    exact γ_of_isTop hL he this σ'
  · exact forget_fold_sound hL vs he hg hv σ' h

theorem project_spec' (hL : Laws L mem) {e : Env V} (he : Inv L e) (ne : e.isBot = false)
    {vs : List Var} (hv : ∀ v ∈ vs, v < 2 ^ 64) :
    Inv L (project L e vs) ∧ (project L e vs).isBot = false ∧
      ∀ k', get L (project L e vs) k' = if k' ∈ vs then get L e k' else L.top := by
  unfold project
  simp only [ne, Bool.false_eq_true, if_false]
  obtain ⟨hi, hb, hl⟩ := SepDom.project_spec (L := L) (ctx_sound hL) (fun x hx => hx.2.1) (fun x hx => hx.1)
    hL.isTop_top hL.isBottom_top he ne hv
  refine ⟨hi, hb, fun k' => ?_⟩
  rw [get_eq, get_eq, hb, ne, hl]
  by_cases e1 : k' ∈ vs <;> simp [e1]

theorem project_inv (hL : Laws L mem) {e : Env V} (he : Inv L e) {vs : List Var} (hv : ∀ v ∈ vs, v < 2 ^ 64) :
    Inv L (project L e vs) := by
  cases ne : e.isBot
  · exact (project_spec' hL he ne hv).1
  · unfold project; simp only [ne, if_true]; exact he

/-- `project(variables)`: the state is kept on the projected variables only -/
theorem project_sound (hL : Laws L mem) {e : Env V} (he : Inv L e) {σ : State} (hg : γ L mem e σ)
    {vs : List Var} (hv : ∀ v ∈ vs, v < 2 ^ 64) {σ' : State} (h : ∀ y ∈ vs, σ' y = σ y) :
    γ L mem (project L e vs) σ' := by
  obtain ⟨_, hb, hl⟩ := project_spec' hL he hg.1 hv
  refine ⟨hb, fun y => ?_⟩
  rw [hl]
  split
  · rename_i hy; rw [h y hy]; exact hg.2 y
  · exact hL.mem_top _

theorem expand_inv (hL : Laws L mem) {e : Env V} (he : Inv L e) {x nx : Var} (hnx : nx < 2 ^ 64) :
    Inv L (expand L e x nx) := by
  unfold expand
  split
  · exact he
  · exact set_inv hL he hnx (get_good hL he x)

/-- `expand(x, new_x)`: `new_x` receives any value allowed for `x` -/
theorem expand_sound (hL : Laws L mem) {e : Env V} (he : Inv L e) {σ : State} (hg : γ L mem e σ)
    {x nx : Var} (hnx : nx < 2 ^ 64) {n : Int} (hn : mem n (get L e x)) :
    γ L mem (expand L e x nx) (upd σ nx n) := by
  unfold expand
  split
  · rename_i hc
    have : e.isTop = true := by
      have hb : e.isBottom = false := hg.1
      simpa [hb] using hc
    exact γ_of_isTop hL he this _
  · exact set_sound hL he hg hnx (get_good hL he x) hn

/-! ### weak update -/

theorem joinKey_spec (hL : Laws L mem) {e : Env V} (he : Inv L e) (ne : e.isBot = false) {k : Var}
    (hk : k < 2 ^ 64) {v : V} (hgd : GoodVal.good v) (hvb : L.isBottom v = false) :
    Inv L (joinKey L e k v) ∧ (joinKey L e k v).isBot = false ∧
      ∀ k', get L (joinKey L e k v) k' =
        if k' = k then (match e.tree.lookup k with
          | some old => if L.isTop v then L.top else if L.isTop (L.join old v) then L.top else L.join old v
          | none => L.top)
        else get L e k' := by
  unfold joinKey wjoin
  simp only [ne, hvb, Bool.false_eq_true, if_false, wjoinIsFixed, Bool.true_and]
  have hrem : Inv L ⟨false, remove (ctxOf L) e.tree k⟩ ∧
      ∀ k', get L (⟨false, remove (ctxOf L) e.tree k⟩ : Env V) k' = if k' = k then L.top else get L e k' := by
    obtain ⟨w, l⟩ := remove_spec (ctx_sound hL) hk he.1
    refine ⟨⟨w, fun h => by cases h⟩, fun k' => ?_⟩
    rw [get_eq, get_eq, ne]
    simp only [Bool.false_eq_true, if_false, l]
    by_cases e1 : k' = k <;> simp [e1]
  cases hvt : L.isTop v
  · simp only [Bool.false_eq_true, if_false]
    cases hl : e.tree.lookup k with
    | none =>
      simp only
      refine ⟨hrem.1, trivial, fun k' => ?_⟩
      rw [hrem.2]
    | some old =>
      simp only
      have hold := he.1.val_of_lookup hl
      cases hj : L.isTop (L.join old v)
      · simp only [Bool.false_eq_true, if_false]
        have hs : Stored L (L.join old v) := by
          exact ⟨hL.join.nonbot old v hold ⟨hvb, hvt, hgd⟩, hj, hL.join.good old v hold ⟨hvb, hvt, hgd⟩⟩
        obtain ⟨w, l⟩ := insertKV_spec (ctx_sound hL) he.1 hk hs
        refine ⟨⟨w, fun h => by cases h⟩, trivial, fun k' => ?_⟩
        rw [get_eq, get_eq, ne]
        simp only [Bool.false_eq_true, if_false, l]
        by_cases e1 : k' = k <;> simp [e1]
      · simp only [if_true]
        refine ⟨hrem.1, trivial, fun k' => ?_⟩
        rw [hrem.2]
  · simp only [if_true]
    refine ⟨hrem.1, trivial, fun k' => ?_⟩
    rw [hrem.2]
    by_cases e1 : k' = k
    · simp only [e1, if_true]; cases e.tree.lookup k <;> rfl
    · simp [e1]

theorem joinKey_inv (hL : Laws L mem) {e : Env V} (he : Inv L e) {k : Var} (hk : k < 2 ^ 64) {v : V}
    (hgd : GoodVal.good v) : Inv L (joinKey L e k v) := by
  cases ne : e.isBot
  · cases hvb : L.isBottom v
    · exact (joinKey_spec hL he ne hk hgd hvb).1
    · unfold joinKey wjoin; simp only [ne, hvb, Bool.false_eq_true, if_false, if_true]
      exact SepDom.inv_bottom
  · unfold joinKey wjoin; simp only [ne, if_true]; exact he

/-- `join(k, v)`: both the old state and the state where `k` receives a member of `v` -/
theorem joinKey_sound (hL : Laws L mem) {e : Env V} (he : Inv L e) {σ : State} (hg : γ L mem e σ)
    {x : Var} (hx : x < 2 ^ 64) {v : V} (hgd : GoodVal.good v) {n : Int} (hn : mem n v) :
    γ L mem (joinKey L e x v) σ ∧ γ L mem (joinKey L e x v) (upd σ x n) := by
  have hvb : L.isBottom v = false := by
    cases h : L.isBottom v
    · rfl
    · exact absurd hn (hL.not_mem_bottom v n h)
  obtain ⟨_, hb, hl⟩ := joinKey_spec hL he hg.1 hx hgd hvb
  have key : ∀ m : Int, (m = σ x ∨ m = n) → mem m (get L (joinKey L e x v) x) := by
    intro m hm
    rw [hl]; simp only [if_true]
    cases hlk : e.tree.lookup x with
    | none => exact hL.mem_top _
    | some old =>
      simp only
      split
      · exact hL.mem_top _
      · split
        · exact hL.mem_top _
        · apply hL.join.upper
          rcases hm with h | h
          · left
            have := hg.2 x
            rw [get_eq, hg.1, hlk] at this
            rw [h]; exact this
          · right; rw [h]; exact hn
  constructor
  · refine ⟨hb, fun y => ?_⟩
    by_cases e1 : y = x
    · subst e1; exact key _ (Or.inl rfl)
    · rw [hl]; simp only [e1, if_false]; exact hg.2 y
  · refine ⟨hb, fun y => ?_⟩
    by_cases e1 : y = x
    · subst e1; rw [upd_same]; exact key _ (Or.inr rfl)
    · rw [hl]; simp only [e1, if_false]; rw [upd_other _ _ e1]; exact hg.2 y

end Env
end XDom
end Crab
