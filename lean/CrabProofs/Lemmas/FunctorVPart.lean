import CrabModel.Dom.Functors.ValuePartitioning

/-!
`value_partitioning_domain` over an arbitrary base (`CrabModel/Dom/Functors/ValuePartitioning.lean`):
concretisation and invariant lemmas for the primitives (`merge_partitions`, `remove_partitions`,
the three loops of `update_partitions`).
-/
namespace Crab
namespace Dom
namespace Fct
namespace VP
set_option linter.unusedSectionVars false

variable {V S : Type} [DecidableEq V] {D : VDom V S}

/-- some partition of the vector contains `s` -/
def γl (l : List (Part D)) (s : S) : Prop := ∃ p ∈ l, D.γ p.val s

theorem γ_iff (a : VP D) (s : S) : γ a s ↔ γl a.parts s := Iff.rfl

theorem γl_nil (s : S) : ¬ γl ([] : List (Part D)) s := by
  rintro ⟨p, hp, _⟩; simp at hp

theorem γl_cons (p : Part D) (l : List (Part D)) (s : S) : γl (p :: l) s ↔ D.γ p.val s ∨ γl l s := by
  constructor
  · rintro ⟨q, hq, hg⟩
    rcases List.mem_cons.1 hq with rfl | h
    · exact Or.inl hg
    · exact Or.inr ⟨q, h, hg⟩
  · rintro (h | ⟨q, hq, hg⟩)
    · exact ⟨p, List.mem_cons_self, h⟩
    · exact ⟨q, List.mem_cons_of_mem _ hq, hg⟩

theorem γl_mono {l l' : List (Part D)} (h : ∀ q, q ∈ l → q ∈ l') {s : S} (hg : γl l s) : γl l' s := by
  obtain ⟨q, hq, hg⟩ := hg
  exact ⟨q, h q hq, hg⟩

theorem inv_single (v : Option V) (p : Part D) : Inv (⟨v, [p]⟩ : VP D) := ⟨by simp, fun _ => rfl⟩

theorem Inv.single {a : VP D} (h : Inv a) (hv : a.var = none) : ∃ p, a.parts = [p] := by
  have := h.2 hv
  match hp : a.parts, this with
  | [p], _ => exact ⟨p, rfl⟩

theorem Inv.cons {a : VP D} (h : Inv a) : ∃ p ps, a.parts = p :: ps := by
  match hp : a.parts with
  | [] => exact absurd hp h.1
  | p :: ps => exact ⟨p, ps, rfl⟩

/-! ### is_bottom / is_top -/

theorem not_γ_of_isBottom {a : VP D} (h : isBottom a = true) (s : S) : ¬ γ a s := by
  rintro ⟨p, hp, hg⟩
  have := List.all_eq_true.1 h p hp
  exact D.isBot_sound p.val s this hg

theorem isBottom_false_of_γ {a : VP D} {s : S} (h : γ a s) : isBottom a = false := by
  cases hb : isBottom a
  · rfl
  · exact absurd h (not_γ_of_isBottom hb s)

theorem γ_of_isTop (t : D.TopSound) {a : VP D} (hi : a.parts ≠ []) (h : isTop a = true) (s : S) : γ a s := by
  match hp : a.parts with
  | [] => exact absurd hp hi
  | p :: ps =>
    refine ⟨p, by rw [hp]; exact List.mem_cons_self, t p.val s ?_⟩
    exact List.all_eq_true.1 h p (by rw [hp]; exact List.mem_cons_self)

/-! ### merge_partitions / remove_partitions -/

theorem foldl_join_acc (ps : List (Part D)) (acc : Part D) (s : S) (h : D.γ acc.val s) :
    D.γ (ps.foldl Part.join acc).val s := by
  induction ps generalizing acc with
  | nil => exact h
  | cons q qs ih => exact ih _ (D.join_l _ _ _ h)

theorem foldl_join_mem (ps : List (Part D)) (acc : Part D) (s : S) (h : γl ps s) :
    D.γ (ps.foldl Part.join acc).val s := by
  induction ps generalizing acc with
  | nil => exact absurd h (γl_nil s)
  | cons q qs ih =>
    rcases (γl_cons q qs s).1 h with h1 | h1
    · exact foldl_join_acc qs _ s (D.join_r _ _ _ h1)
    · exact ih _ h1

theorem mergeParts_sound {l : List (Part D)} {s : S} (h : γl l s) : D.γ (mergeParts l).val s := by
  match l with
  | [] => exact absurd h (γl_nil s)
  | p :: ps =>
    rcases (γl_cons p ps s).1 h with h1 | h1
    · exact foldl_join_acc ps p s h1
    · exact foldl_join_mem ps p s h1

theorem removeParts_var_some {a : VP D} {x : V} (h : a.var = some x) :
    removeParts a = ⟨none, [⟨Itv.top, (mergeParts a.parts).val⟩]⟩ := by
  unfold removeParts; rw [h]

theorem removeParts_var_none {a : VP D} (h : a.var = none) : removeParts a = a := by
  unfold removeParts; rw [h]

theorem removeParts_var (a : VP D) : (removeParts a).var = none := by
  unfold removeParts
  split
  · assumption
  · rfl

/-- after `remove_partitions()` there is one partition, which contains everything -/
theorem removeParts_single {a : VP D} (h : Inv a) :
    ∃ p0, (removeParts a).parts = [p0] ∧ ∀ s, γ a s → D.γ p0.val s := by
  cases hv : a.var with
  | none =>
    obtain ⟨p, hp⟩ := h.single hv
    refine ⟨p, by rw [removeParts_var_none hv, hp], ?_⟩
    rintro s ⟨q, hq, hg⟩
    rw [hp] at hq
    simp only [List.mem_singleton] at hq
    exact hq ▸ hg
  | some x =>
    exact ⟨⟨Itv.top, (mergeParts a.parts).val⟩, by rw [removeParts_var_some hv], fun s hg => mergeParts_sound hg⟩

theorem removeParts_inv {a : VP D} (h : Inv a) : Inv (removeParts a) := by
  obtain ⟨p0, hp, _⟩ := removeParts_single h
  exact ⟨by rw [hp]; simp, fun _ => by rw [hp]; rfl⟩

theorem removeParts_sound {a : VP D} (h : Inv a) {s : S} (hg : γ a s) : γ (removeParts a) s := by
  obtain ⟨p0, hp, h0⟩ := removeParts_single h
  exact ⟨p0, by rw [hp]; exact List.mem_singleton.2 rfl, h0 s hg⟩

/-! ### update_partitions -/

theorem refreshGo_sound (x : V) (n : Nat) (l : List (Part D)) (s : S) (h : γl l s) :
    γl (refreshGo x n l).1 s := by
  induction l generalizing n with
  | nil => exact absurd h (γl_nil s)
  | cons p ps ih =>
    simp only [refreshGo]
    rcases (γl_cons p ps s).1 h with h1 | h1
    · have hb : (D.itvOf p.val x).isBottom = false := by
        cases hb : (D.itvOf p.val x).isBottom
        · rfl
        · exact absurd h1 (D.itvOf_bot _ _ _ hb)
      simp only [hb, Bool.false_eq_true, if_false]
      exact (γl_cons _ _ s).2 (Or.inl h1)
    · have h2 := ih (n + 1) h1
      split
      · split
        · exact h2
        · rename_i hlen
          obtain ⟨q, hq, _⟩ := h2
          have : 0 < (refreshGo x (n + 1) ps).1.length := List.length_pos_of_mem hq
          omega
      · exact (γl_cons _ _ s).2 (Or.inr h2)

theorem refreshGo_length (x : V) (n : Nat) (l : List (Part D)) (h : l ≠ []) :
    1 ≤ n + (refreshGo x n l).1.length := by
  match l with
  | [] => exact absurd rfl h
  | p :: ps =>
    simp only [refreshGo]
    split
    · split
      · rename_i h1; simp only; omega
      · simp
    · simp only [List.length_cons]; omega

theorem mem_insertPart (p q : Part D) (l : List (Part D)) : q ∈ insertPart p l ↔ q = p ∨ q ∈ l := by
  induction l with
  | nil => simp [insertPart]
  | cons r rs ih =>
    simp only [insertPart]
    split
    · simp only [List.mem_cons, ih]
      constructor
      · rintro (h | h | h)
        · exact Or.inr (Or.inl h)
        · exact Or.inl h
        · exact Or.inr (Or.inr h)
      · rintro (h | h | h)
        · exact Or.inr (Or.inl h)
        · exact Or.inl h
        · exact Or.inr (Or.inr h)
    · simp only [List.mem_cons]

theorem mem_sortParts (q : Part D) (l : List (Part D)) : q ∈ sortParts l ↔ q ∈ l := by
  induction l with
  | nil => simp [sortParts]
  | cons r rs ih => simp only [sortParts, mem_insertPart, ih, List.mem_cons]

theorem sortParts_ne_nil {l : List (Part D)} (h : l ≠ []) : sortParts l ≠ [] := by
  match l with
  | [] => exact absurd rfl h
  | p :: ps =>
    intro he
    have : p ∈ sortParts (p :: ps) := (mem_sortParts p _).2 List.mem_cons_self
    rw [he] at this
    simp at this

theorem absorb_sound (p : Part D) (ps : List (Part D)) (s : S) (h : D.γ p.val s ∨ γl ps s) :
    D.γ (absorb p ps).1.val s ∨ γl (absorb p ps).2 s := by
  induction ps generalizing p with
  | nil => exact h
  | cons q qs ih =>
    simp only [absorb]
    split
    · apply ih
      rcases h with h | h
      · exact Or.inl (D.join_l _ _ _ h)
      · rcases (γl_cons q qs s).1 h with h1 | h1
        · exact Or.inl (D.join_r _ _ _ h1)
        · exact Or.inr h1
    · exact h

theorem absorb_ne (p : Part D) (ps : List (Part D)) : (absorb p ps).1 :: (absorb p ps).2 ≠ [] := by simp

theorem mergeAdj_sound (l : List (Part D)) (s : S) (h : γl l s) : γl (mergeAdj l) s := by
  induction l with
  | nil => exact absurd h (γl_nil s)
  | cons p ps ih =>
    simp only [mergeAdj]
    apply (γl_cons _ _ s).2
    apply absorb_sound
    rcases (γl_cons p ps s).1 h with h1 | h1
    · exact Or.inl h1
    · exact Or.inr (ih h1)

theorem mergeAdj_ne_nil {l : List (Part D)} (h : l ≠ []) : mergeAdj l ≠ [] := by
  match l with
  | [] => exact absurd rfl h
  | p :: ps => simp [mergeAdj]

theorem updateParts_none {a : VP D} (hv : a.var = none) : updateParts a = a := by
  unfold updateParts; rw [hv]

theorem updateParts_some {a : VP D} {x : V} (hv : a.var = some x) :
    updateParts a = if (refreshGo x 0 a.parts).2 then ⟨a.var, (refreshGo x 0 a.parts).1⟩
      else ⟨a.var, mergeAdj (sortParts (refreshGo x 0 a.parts).1)⟩ := by
  unfold updateParts; rw [hv]

theorem updateParts_var (a : VP D) : (updateParts a).var = a.var := by
  cases hv : a.var with
  | none => rw [updateParts_none hv, hv]
  | some x => rw [updateParts_some hv]; split <;> exact hv

theorem updateParts_sound (a : VP D) (s : S) (h : γ a s) : γ (updateParts a) s := by
  cases hv : a.var with
  | none => rw [updateParts_none hv]; exact h
  | some x =>
    rw [updateParts_some hv]
    have h1 := refreshGo_sound x 0 a.parts s h
    split
    · exact h1
    · refine mergeAdj_sound _ s ?_
      exact γl_mono (fun q hq => (mem_sortParts q _).2 hq) h1

theorem updateParts_ne_nil {a : VP D} (h : a.parts ≠ []) : (updateParts a).parts ≠ [] := by
  cases hv : a.var with
  | none => rw [updateParts_none hv]; exact h
  | some x =>
    rw [updateParts_some hv]
    have h1 := refreshGo_length x 0 a.parts h
    have h2 : (refreshGo x 0 a.parts).1 ≠ [] := by
      intro he; rw [he] at h1; simp at h1
    split
    · exact h2
    · exact mergeAdj_ne_nil (sortParts_ne_nil h2)

theorem updateParts_inv {a : VP D} (h : Inv a) : Inv (updateParts a) := by
  refine ⟨updateParts_ne_nil h.1, fun hv => ?_⟩
  rw [updateParts_var] at hv
  rw [updateParts_none hv]; exact h.2 hv

/-- with a partitioning variable every non-empty vector is fine -/
theorem inv_of_some {a : VP D} {x : V} (hv : a.var = some x) (h : a.parts ≠ []) : Inv a :=
  ⟨h, fun hn => by rw [hv] at hn; cases hn⟩

end VP
end Fct
end Dom
end Crab
