import CrabProofs.Lemmas.DbmIncrInline

/-!
  `addLb` / `addUb` under `zones.close_bounds_inline = true`: from a value in split normal form to
  a value in split normal form with the solutions that satisfy the new bound.
-/
namespace Crab
namespace DbmIncr
open Dbm Zones

variable {n : Nat}
variable {g1 Tf : Zone n}

theorem lbProp_fold (vs : List (Fin (n + 1))) (hvs : ∀ x, x ∈ vs) (hT : Mat.Closed Tf)
    (v : Fin (n + 1)) (hv : v ≠ 0) (k : Int) (hk : edge g1 v 0 = some k) (s0 : SG n)
    (h0 : PropJ g1 Tf true s0) :
    ∃ s', vs.foldl (lbPropStep vs v k) (some s0) = some s' ∧ PropJ g1 Tf true s' ∧
      ∀ e, e ≠ 0 → ∀ ev, edge g1 e v = some ev → W.LE (edge s'.g e 0) (some (ev + k)) := by
  obtain ⟨⟨s', hs', j⟩, _, post⟩ := foldl_post (lbPropStep vs v k) (PropI g1 Tf true) OLe
    (fun e acc => ∀ s', acc = some s' → e ≠ 0 → ∀ ev, edge g1 e v = some ev →
      W.LE (edge s'.g e 0) (some (ev + k))) OLe.refl OLe.trans
    (fun acc e h => lbPropStep_step vs hvs hT v hv k hk acc e h)
    (fun e s s' hp hle sa hsa he ev hev => by
      obtain ⟨sb, hsb, d⟩ := hle sa hsa
      exact W.LE_trans (d _ _) (hp sb hsb he ev hev))
    vs (some s0) ⟨s0, rfl, h0⟩
  exact ⟨s', hs', j, fun e he ev hev => post e (hvs e) s' hs' he ev hev⟩

theorem ubProp_fold (vs : List (Fin (n + 1))) (hvs : ∀ x, x ∈ vs) (hT : Mat.Closed Tf)
    (v : Fin (n + 1)) (hv : v ≠ 0) (k : Int) (hk : edge g1 0 v = some k) (s0 : SG n)
    (h0 : PropJ g1 Tf false s0) :
    ∃ s', vs.foldl (ubPropStep vs v k) (some s0) = some s' ∧ PropJ g1 Tf false s' ∧
      ∀ e, e ≠ 0 → ∀ ev, edge g1 v e = some ev → W.LE (edge s'.g 0 e) (some (ev + k)) := by
  obtain ⟨⟨s', hs', j⟩, _, post⟩ := foldl_post (ubPropStep vs v k) (PropI g1 Tf false) OLe
    (fun e acc => ∀ s', acc = some s' → e ≠ 0 → ∀ ev, edge g1 v e = some ev →
      W.LE (edge s'.g 0 e) (some (ev + k))) OLe.refl OLe.trans
    (fun acc e h => ubPropStep_step vs hvs hT v hv k hk acc e h)
    (fun e s s' hp hle sa hsa he ev hev => by
      obtain ⟨sb, hsb, d⟩ := hle sa hsa
      exact W.LE_trans (d _ _) (hp sb hsb he ev hev))
    vs (some s0) ⟨s0, rfl, h0⟩
  exact ⟨s', hs', j, fun e he ev hev => post e (hvs e) s' hs' he ev hev⟩

theorem addLb_true_spec (vs : List (Fin (n + 1))) (hvs : ∀ x, x ∈ vs) (s : SG n) (hg : Good s)
    (v : Fin (n + 1)) (hv : v ≠ 0) (k : Int) :
    StepGood (fun x => x 0 - x v ≤ k) s (addLb true vs s v k) := by
  unfold addLb
  by_cases hgd : W.le (edge s.g v 0) (some k) = true
  · rw [if_pos hgd]
    simp only [StepGood]
    refine ⟨hg, fun x => ⟨fun h => ⟨h, ?_⟩, fun h => h.1⟩⟩
    rcases hw : edge s.g v 0 with _ | w
    · rw [hw] at hgd; simp [W.le] at hgd
    · rw [hw] at hgd; simp only [W.le, decide_eq_true_eq] at hgd
      have := sat_edge h hw; omega
  rw [if_neg hgd]
  simp only [if_true]
  have hk0 : ∀ w, edge s.g v 0 = some w → k ≤ w := by
    intro w hw; rw [hw] at hgd; simp only [W.le, decide_eq_true_eq] at hgd; omega
  have sb := setBound_spec vs hvs s hg.mid v 0 hv (Or.inr rfl) k hk0
  rcases hrp : repairPotential vs (setEdge s.g v k 0) s.pot v 0 with _ | p1
  · rw [hrp] at sb; exact sb
  rw [hrp] at sb
  simp only [StepOK] at sb
  obtain ⟨⟨hv1, hp1⟩, hsat1⟩ := sb
  simp only
  -- the graph after `set_edge`
  have hrel : setEdge s.g v k 0 = s.g.addEdge 0 v k := setEdge_eq_relax hk0
  have hb1 : isBottom (setEdge s.g v k 0) = false := not_bottom_of_sat hp1
  have cT := Zones.close_closed hb1
  have hk1 : edge (setEdge s.g v k 0) v 0 = some k := by rw [edge_setEdge]; simp
  have eold : ∀ a b, ¬ (a = v ∧ b = 0) → edge (setEdge s.g v k 0) a b = edge s.g a b := by
    intro a b h; rw [edge_setEdge]; simp [h]
  have h00 : edge (setEdge s.g v k 0) 0 0 = none := by
    rw [eold 0 0 (fun h => hv h.1.symm)]; exact hg.1.noLoop 0
  obtain ⟨s', hs', j, post⟩ := lbProp_fold vs hvs cT v hv k hk1 ⟨setEdge s.g v k 0, p1⟩
    ⟨hp1, Dec.refl _, edge_close_LE _, fun _ _ _ => rfl, h00⟩
  rw [hs']
  simp only [StepGood]
  have hequiv : ∀ x, s'.g.sat x ↔ (setEdge s.g v k 0).sat x := by
    intro x
    constructor
    · exact Mat.sat_of_LE (fun a b => j.dec b a)
    · intro h
      exact Mat.sat_of_LE (fun a b => j.above b a) ((Mat.fw_sat _ x).2 h)
  have hvr : VarNF s'.g := by
    apply varNF_of_bound_change hv1
    · intro a b _ hb; exact j.frame a b (by simpa using hb)
    · exact j.loop0
  -- consistency of the new bound with the old upper bound
  have hcons : ∀ y, edge s.g 0 v = some y → 0 ≤ k + y := by
    intro y hy
    have h1 := sat_edge hp1 hk1
    have h2 := sat_edge hp1 (by rw [eold 0 v (fun h => hv h.1.symm)]; exact hy)
    omega
  -- the closure of the new graph by the one-edge formula
  have hnF : ∀ y, (fullOf s.g).get v 0 = some y → 0 ≤ k + y := by
    intro y hy
    simp only [fullOf_get, hv, if_false, splitW, or_true, if_true] at hy
    exact hcons y hy
  obtain ⟨_, eTf⟩ := Mat.fw_eq_of_closed (m := setEdge s.g v k 0)
    (Mat.addClose_closed hg.1.closed_fullOf 0 v k hnF)
    (fun x => by rw [Mat.addClose_sat hg.1.closed_fullOf, fullOf_sat hg.1.noLoop, hrel, Mat.addEdge_sat])
  have hdecg : Dec s'.g s.g := by
    intro a b
    refine W.LE_trans (j.dec a b) ?_
    rw [hrel]; exact relax_dec s.g v 0 k a b
  have hout : ∀ d, d ≠ 0 → edge s'.g 0 d = edge (close (setEdge s.g v k 0)) 0 d := by
    intro d hd
    apply W.LE_antisymm _ (j.above 0 d)
    rw [show edge (close (setEdge s.g v k 0)) 0 d = (Mat.addClose (fullOf s.g) 0 v k).get d 0 from eTf d 0]
    simp only [Mat.addClose, Mat.get_ofFn]
    have e0 : (fullOf s.g).get d 0 = edge s.g 0 d := by
      simp only [fullOf_get, hd, if_false, splitW, or_true, if_true]; rfl
    have e1 : (fullOf s.g).get v 0 = edge s.g 0 v := by
      simp only [fullOf_get, hv, if_false, splitW, or_true, if_true]; rfl
    rw [e0, e1]
    apply W.LE_min (hdecg 0 d)
    rcases hx : edge s.g 0 d with _ | x
    · simp
    rcases hy : edge s.g 0 v with _ | y
    · simp
    have := hcons y hy
    have h1 := hdecg 0 d; rw [hx] at h1
    exact W.LE_trans h1 (by simp; omega)
  have hin : ∀ a, a ≠ 0 → edge s'.g a 0 = edge (close (setEdge s.g v k 0)) a 0 := by
    intro a ha
    apply W.LE_antisymm _ (j.above a 0)
    rw [show edge (close (setEdge s.g v k 0)) a 0 = (Mat.addClose (fullOf s.g) 0 v k).get 0 a from eTf 0 a]
    simp only [Mat.addClose, Mat.get_ofFn]
    have ha0 : ¬ ((0 : Fin (n + 1)) = a) := fun e => ha e.symm
    have e0 : (fullOf s.g).get 0 a = edge s.g a 0 := by
      simp only [fullOf_get, ha0, if_false, splitW, true_or, if_true]; rfl
    have e00 : (fullOf s.g).get 0 0 = some 0 := by simp
    rw [e0, e00]
    apply W.LE_min (hdecg a 0)
    by_cases hav : a = v
    · subst hav
      have : (fullOf s.g).get a a = some 0 := by simp
      rw [this]
      have h1 := j.dec a 0; rw [hk1] at h1
      exact W.LE_trans h1 (by simp)
    · have hva : ¬ (v = a) := fun e => hav e.symm
      have e2 : (fullOf s.g).get v a = W.min (edge s.g a v) (W.add (edge s.g 0 v) (edge s.g a 0)) := by
        simp only [fullOf_get, hva, if_false, splitW, hv, ha, false_or]; rfl
      rw [e2]
      rcases W.min_eq_or (edge s.g a v) (W.add (edge s.g 0 v) (edge s.g a 0)) with hm | hm
      · rw [hm]
        rcases hev : edge s.g a v with _ | ev
        · simp
        have := post a ha ev (by rw [eold a v (fun h => hv h.2)]; exact hev)
        exact W.LE_trans this (by simp; omega)
      · rw [hm]
        rcases hy : edge s.g 0 v with _ | y
        · simp
        rcases hz : edge s.g a 0 with _ | z
        · simp
        have := hcons y hy
        have h1 := hdecg a 0; rw [hz] at h1
        exact W.LE_trans h1 (by simp; omega)
  refine ⟨⟨splitNF_of_exact_bounds hb1 hvr j.above hout hin, j.pot⟩, fun x => ?_⟩
  rw [hequiv, hsat1]

theorem addUb_true_spec (vs : List (Fin (n + 1))) (hvs : ∀ x, x ∈ vs) (s : SG n) (hg : Good s)
    (v : Fin (n + 1)) (hv : v ≠ 0) (k : Int) :
    StepGood (fun x => x v - x 0 ≤ k) s (addUb true vs s v k) := by
  unfold addUb
  have hv0 : ¬ ((0 : Fin (n + 1)) = v) := fun e => hv e.symm
  by_cases hgd : W.le (edge s.g 0 v) (some k) = true
  · rw [if_pos hgd]
    simp only [StepGood]
    refine ⟨hg, fun x => ⟨fun h => ⟨h, ?_⟩, fun h => h.1⟩⟩
    rcases hw : edge s.g 0 v with _ | w
    · rw [hw] at hgd; simp [W.le] at hgd
    · rw [hw] at hgd; simp only [W.le, decide_eq_true_eq] at hgd
      have := sat_edge h hw; omega
  rw [if_neg hgd]
  simp only [if_true]
  have hk0 : ∀ w, edge s.g 0 v = some w → k ≤ w := by
    intro w hw; rw [hw] at hgd; simp only [W.le, decide_eq_true_eq] at hgd; omega
  have sb := setBound_spec vs hvs s hg.mid 0 v hv0 (Or.inl rfl) k hk0
  rcases hrp : repairPotential vs (setEdge s.g 0 k v) s.pot 0 v with _ | p1
  · rw [hrp] at sb; exact sb
  rw [hrp] at sb
  simp only [StepOK] at sb
  obtain ⟨⟨hv1, hp1⟩, hsat1⟩ := sb
  simp only
  have hrel : setEdge s.g 0 k v = s.g.addEdge v 0 k := setEdge_eq_relax hk0
  have hb1 : isBottom (setEdge s.g 0 k v) = false := not_bottom_of_sat hp1
  have cT := Zones.close_closed hb1
  have hk1 : edge (setEdge s.g 0 k v) 0 v = some k := by rw [edge_setEdge]; simp
  have eold : ∀ a b, ¬ (a = 0 ∧ b = v) → edge (setEdge s.g 0 k v) a b = edge s.g a b := by
    intro a b h; rw [edge_setEdge]; simp [h]
  have h00 : edge (setEdge s.g 0 k v) 0 0 = none := by
    rw [eold 0 0 (fun h => hv h.2.symm)]; exact hg.1.noLoop 0
  obtain ⟨s', hs', j, post⟩ := ubProp_fold vs hvs cT v hv k hk1 ⟨setEdge s.g 0 k v, p1⟩
    ⟨hp1, Dec.refl _, edge_close_LE _, fun _ _ _ => rfl, h00⟩
  rw [hs']
  simp only [StepGood]
  have hequiv : ∀ x, s'.g.sat x ↔ (setEdge s.g 0 k v).sat x := by
    intro x
    constructor
    · exact Mat.sat_of_LE (fun a b => j.dec b a)
    · intro h
      exact Mat.sat_of_LE (fun a b => j.above b a) ((Mat.fw_sat _ x).2 h)
  have hvr : VarNF s'.g := by
    apply varNF_of_bound_change hv1
    · intro a b ha _; exact j.frame a b (by simpa using ha)
    · exact j.loop0
  have hcons : ∀ y, edge s.g v 0 = some y → 0 ≤ k + y := by
    intro y hy
    have h1 := sat_edge hp1 hk1
    have h2 := sat_edge hp1 (by rw [eold v 0 (fun h => hv h.1)]; exact hy)
    omega
  have hnF : ∀ y, (fullOf s.g).get 0 v = some y → 0 ≤ k + y := by
    intro y hy
    simp only [fullOf_get, hv0, if_false, splitW, true_or, if_true] at hy
    exact hcons y hy
  obtain ⟨_, eTf⟩ := Mat.fw_eq_of_closed (m := setEdge s.g 0 k v)
    (Mat.addClose_closed hg.1.closed_fullOf v 0 k hnF)
    (fun x => by rw [Mat.addClose_sat hg.1.closed_fullOf, fullOf_sat hg.1.noLoop, hrel, Mat.addEdge_sat])
  have hdecg : Dec s'.g s.g := by
    intro a b
    refine W.LE_trans (j.dec a b) ?_
    rw [hrel]; exact relax_dec s.g 0 v k a b
  have hin : ∀ a, a ≠ 0 → edge s'.g a 0 = edge (close (setEdge s.g 0 k v)) a 0 := by
    intro a ha
    apply W.LE_antisymm _ (j.above a 0)
    rw [show edge (close (setEdge s.g 0 k v)) a 0 = (Mat.addClose (fullOf s.g) v 0 k).get 0 a from eTf 0 a]
    simp only [Mat.addClose, Mat.get_ofFn]
    have ha0 : ¬ ((0 : Fin (n + 1)) = a) := fun e => ha e.symm
    have e0 : (fullOf s.g).get 0 a = edge s.g a 0 := by
      simp only [fullOf_get, ha0, if_false, splitW, true_or, if_true]; rfl
    have e1 : (fullOf s.g).get 0 v = edge s.g v 0 := by
      simp only [fullOf_get, hv0, if_false, splitW, true_or, if_true]; rfl
    rw [e0, e1]
    apply W.LE_min (hdecg a 0)
    rcases hy : edge s.g v 0 with _ | y
    · simp
    rcases hx : edge s.g a 0 with _ | x
    · simp
    have := hcons y hy
    have h1 := hdecg a 0; rw [hx] at h1
    exact W.LE_trans h1 (by simp <;> omega)
  have hout : ∀ d, d ≠ 0 → edge s'.g 0 d = edge (close (setEdge s.g 0 k v)) 0 d := by
    intro d hd
    apply W.LE_antisymm _ (j.above 0 d)
    rw [show edge (close (setEdge s.g 0 k v)) 0 d = (Mat.addClose (fullOf s.g) v 0 k).get d 0 from eTf d 0]
    simp only [Mat.addClose, Mat.get_ofFn]
    have e0 : (fullOf s.g).get d 0 = edge s.g 0 d := by
      simp only [fullOf_get, hd, if_false, splitW, or_true, if_true]; rfl
    have e00 : (fullOf s.g).get 0 0 = some 0 := by simp
    rw [e0, e00]
    apply W.LE_min (hdecg 0 d)
    by_cases hdv : d = v
    · subst hdv
      have : (fullOf s.g).get d d = some 0 := by simp
      rw [this]
      have h1 := j.dec 0 d; rw [hk1] at h1
      exact W.LE_trans h1 (by simp)
    · have e2 : (fullOf s.g).get d v = W.min (edge s.g v d) (W.add (edge s.g 0 d) (edge s.g v 0)) := by
        simp only [fullOf_get, hdv, if_false, splitW, hv, hd, false_or]; rfl
      rw [e2]
      rcases W.min_eq_or (edge s.g v d) (W.add (edge s.g 0 d) (edge s.g v 0)) with hm | hm
      · rw [hm]
        rcases hev : edge s.g v d with _ | ev
        · simp
        have := post d hd ev (by rw [eold v d (fun h => hv h.1)]; exact hev)
        exact W.LE_trans this (by simp <;> omega)
      · rw [hm]
        rcases hx : edge s.g 0 d with _ | x
        · simp
        rcases hy : edge s.g v 0 with _ | y
        · simp
        have := hcons y hy
        have h1 := hdecg 0 d; rw [hx] at h1
        exact W.LE_trans h1 (by simp <;> omega)
  refine ⟨⟨splitNF_of_exact_bounds hb1 hvr j.above hout hin, j.pot⟩, fun x => ?_⟩
  rw [hequiv, hsat1]

end DbmIncr
end Crab
