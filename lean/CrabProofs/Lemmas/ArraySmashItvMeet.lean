import CrabProofs.Lemmas.ArraySmashItvND

/-!
  Soundness of `operator&` of `array_smashing<interval_domain>` under the invariants `Inv2`
  (`Inv`, `SizesOk`, `ND`) and the concrete invariant `NE` (an array whose size is recorded has at
  least one written cell: true when `array_init` is only used over non-empty ranges).
-/
namespace Crab
namespace Dom
namespace SmashItv
open Crab.Dom.Arr Crab.IDom

/-- every array whose size is recorded has a written cell -/
def NE (esz : Nat → Nat) (st : St) (s : CState) : Prop :=
  ∀ a, st.sizes.constSize a = some (esz a) → ∃ o v, s.ar a o = some v

/-- the concretisation used for histories with meet -/
def γ2 (esz : Nat → Nat) (st : St) (s : CState) : Prop := γx esz st s ∧ NE esz st s

variable {esz : Nat → Nat}

open Classical in
/-- offset of some written cell of array `x` (0 if there is none) -/
noncomputable def wo (s : CState) (x : Nat) : Nat :=
  if h : ∃ o w, s.ar x o = some w then Classical.choose h else 0

open Classical in
theorem wo_spec {s : CState} {x : Nat} (h : ∃ o w, s.ar x o = some w) : ∃ w, s.ar x (wo s x) = some w := by
  unfold wo; rw [dif_pos h]; exact Classical.choose_spec h

/-- the values given to the ghosts: the summary of an array stands for one of its written cells -/
noncomputable def gW (s : CState) : Smash.Env
  | .smashed x => (s.ar x (wo s x)).getD 0
  | _ => 0

theorem untracked_none {st : St} (hk : SizesOk esz st) {x : Nat} (h : ¬ st.sizes.constSize x = some (esz x)) :
    st.sizes.constSize x = none := by
  cases hc : st.sizes.constSize x with
  | none => rfl
  | some k => exact absurd (by rw [hc, hk x k hc]) h

/-- a state of `γ2 st`, seen with MORE arrays tracked (all those `st` tracks) and the ghosts `gW`,
    is accepted by the base environment of `st` -/
theorem side_sound {st : St} {s : CState} (hI : Inv2 esz st) (hg : γ2 esz st s) (envM : Nat → Option Nat)
    (hM : ∀ x, st.sizes.constSize x = some (esz x) → envM x = some (esz x)) (c : Nat → Nat) :
    Env.γ st.base (dec (Smash.mkEnv esz s envM (gW s) c)) := by
  obtain ⟨⟨hs, g, hg1⟩, hne⟩ := hg
  have nb : st.base.bottom = false := (hg1 (fun _ => 0)).1
  refine ⟨nb, fun n => ?_⟩
  show Itv.mem (Smash.mkEnv esz s envM (gW s) c (decVar n)) (st.base.get n)
  cases hdv : decVar n with
  | prog x =>
    have := (hg1 (fun _ => 0)).2 n
    simp only [dec, hdv] at this
    exact this
  | copy x =>
    have hn : n = enc (.copy x) := by rw [← hdv, enc_dec]
    rw [hn, Env.get_of_unbound (hI.2.2 x).2 nb]
    exact Itv.mem_top _
  | smashed x =>
    have hn : n = enc (.smashed x) := by rw [← hdv, enc_dec]
    by_cases ht : st.sizes.constSize x = some (esz x)
    · obtain ⟨w', hw'⟩ := wo_spec (hne x ht)
      have hA : absSz st.sizes x = some (esz x) := ht
      cases hc : s.ar x (c x) with
      | some v =>
        have := (hg1 c).2 n
        simp only [dec, hdv, absS, Smash.mkEnv, hA, if_true, hc] at this
        simp only [Smash.mkEnv, hM x ht, if_true, hc]
        exact this
      | none =>
        have := (hg1 (fun y => if y = x then wo s x else 0)).2 n
        simp only [dec, hdv, absS, Smash.mkEnv, hA, if_true, hw'] at this
        simp only [Smash.mkEnv, hM x ht, if_true, hc, gW, hw', Option.getD_some]
        exact this
    · rw [hn, Env.get_of_unbound ((hI.2.2 x).1 (untracked_none hI.2.1 ht)) nb]
      exact Itv.mem_top _

/-- **meet is sound** on values that satisfy the invariants, for states whose tracked arrays are not empty -/
theorem meet_sound {a b : St} {s : CState} (ha : Inv2 esz a) (hb : Inv2 esz b) (ga : γ2 esz a s) (gb : γ2 esz b s) :
    γx esz (St.meet a b) s := by
  refine ⟨(inv_meet ha.1 hb.1 ha.2.1 hb.2.1).2, gW s, fun c => ?_⟩
  show Env.γ (Env.meet a.base b.base) (dec (Smash.mkEnv esz s (absSz (St.meet a b).sizes) (gW s) c))
  apply Env.meet_sound ha.1.2
  · apply side_sound ha ga
    intro x hx
    show (St.meet a b).sizes.constSize x = some (esz x)
    rw [cs_meet ha.1 hb.1 ha.2.1 hb.2.1, hx]
  · apply side_sound hb gb
    intro x hx
    show (St.meet a b).sizes.constSize x = some (esz x)
    rw [cs_meet ha.1 hb.1 ha.2.1 hb.2.1]
    cases hc : a.sizes.constSize x with
    | some v => simp only []; rw [ha.2.1 x v hc]
    | none => exact hx

theorem ne_meet {a b : St} {s : CState} (ha : Inv2 esz a) (hb : Inv2 esz b) (ga : NE esz a s) (gb : NE esz b s) :
    NE esz (St.meet a b) s := by
  intro x hx
  rw [cs_meet ha.1 hb.1 ha.2.1 hb.2.1] at hx
  cases hc : a.sizes.constSize x with
  | some v => rw [hc] at hx; exact ga x (by rw [hc]; exact hx)
  | none => rw [hc] at hx; exact gb x hx

theorem inv2_meet {a b : St} (ha : Inv2 esz a) (hb : Inv2 esz b) : Inv2 esz (St.meet a b) :=
  ⟨inv_meet ha.1 hb.1 ha.2.1 hb.2.1, sizesOk_meet ha.1 hb.1 ha.2.1 hb.2.1,
   nd_meet esz ha.1 hb.1 ha.2.1 hb.2.1 ha.2.2 hb.2.2⟩

/-! ### `NE` along the other operations -/

/-- wrapper: each array tracked afterwards was tracked before and is unchanged, or has a cell -/
theorem ne_of {st st' : St} {s s' : CState} (h : NE esz st s)
    (hc : ∀ b, st'.sizes.constSize b = some (esz b) →
      (st.sizes.constSize b = some (esz b) ∧ s'.ar b = s.ar b) ∨ ∃ o v, s'.ar b o = some v) : NE esz st' s' := by
  intro b hb
  rcases hc b hb with ⟨h1, h2⟩ | h1
  · rw [h2]; exact h b h1
  · exact h1

theorem setArr_other (s : CState) {a b : Nat} (m : Mem) (h : b ≠ a) : (s.setArr a m).ar b = s.ar b := by
  simp [CState.setArr, h]

theorem setArr_same (s : CState) (a : Nat) (m : Mem) : (s.setArr a m).ar a = m := by
  simp [CState.setArr]

theorem ne_arrayInit {st : St} {s s' : CState} (hI : Inv st) (h : NE esz st s) (a : Nat) (lb ub val : SLin)
    (hr : cInit (esz a) a lb.eval ub.eval val.eval s = some s') (hne : lb.eval s.iv ≤ ub.eval s.iv) :
    NE esz (st.arrayInit (esz a) a val) s' := by
  unfold cInit at hr
  split at hr
  · exact absurd hr (by simp)
  · rename_i l hl
    have hs' : s' = s.setArr a (Mem.init (esz a) l (ub.eval s.iv) (val.eval s.iv)) := (Option.some.inj hr).symm
    subst hs'
    apply ne_of h
    intro b hb
    by_cases hba : b = a
    · subst hba
      right
      refine ⟨l, val.eval s.iv, ?_⟩
      rw [setArr_same]
      have hl' : (l : Int) = lb.eval s.iv := by
        unfold alignedOff at hl
        split at hl
        · rename_i h0; rw [← Option.some.inj hl]; exact Int.toNat_of_nonneg h0.1
        · exact absurd hl (by simp)
      have : inCells (esz b) l (ub.eval s.iv) l = true := by
        simp only [inCells, Nat.le_refl, decide_true, Nat.sub_self, Nat.zero_mod, Bool.true_and, Bool.and_true,
          decide_eq_true_eq]
        omega
      simp [Mem.init, Mem.storeRange, this]
    · left
      refine ⟨?_, setArr_other s _ hba⟩
      simp only [St.arrayInit, cs_set hI.1, hba, if_false] at hb
      exact hb

theorem ne_arrayStore {st : St} {s s' : CState} (hI : Inv st) (h : NE esz st s) (a : Nat) (i val : SLin)
    (strong : Bool) (hr : cStore (esz a) a i.eval val.eval s = some s') :
    NE esz (st.arrayStore (esz a) a val strong) s' := by
  unfold cStore at hr
  split at hr
  · exact absurd hr (by simp)
  · rename_i o ho
    have hs' : s' = s.setArr a ((s.ar a).store o (val.eval s.iv)) := (Option.some.inj hr).symm
    subst hs'
    apply ne_of h
    intro b hb
    by_cases hba : b = a
    · subst hba
      right
      exact ⟨o, val.eval s.iv, by rw [setArr_same]; simp [Mem.store]⟩
    · left
      refine ⟨?_, setArr_other s _ hba⟩
      unfold St.arrayStore at hb
      cases strong with
      | true =>
        simp only [if_true] at hb
        split at hb <;> (simp only [cs_set hI.1, hba, if_false] at hb; exact hb)
      | false =>
        simp only [Bool.false_eq_true, if_false] at hb
        split at hb <;> exact hb

theorem ne_arrayStoreRange {st : St} {s s' : CState} (h : NE esz st s) (a : Nat) (lb ub val : SLin)
    (hr : cStoreRange (esz a) a lb.eval ub.eval val.eval s = some s') :
    NE esz (st.arrayStoreRange (esz a) a val) s' := by
  unfold cStoreRange at hr
  split at hr
  · exact absurd hr (by simp)
  · rename_i l hl
    have hs' : s' = s.setArr a ((s.ar a).storeRange (esz a) l (ub.eval s.iv) (val.eval s.iv)) :=
      (Option.some.inj hr).symm
    subst hs'
    have hsz : (st.arrayStoreRange (esz a) a val).sizes = st.sizes := by
      unfold St.arrayStoreRange; split <;> rfl
    apply ne_of h
    intro b hb
    rw [hsz] at hb
    by_cases hba : b = a
    · subst hba
      right
      obtain ⟨o, v, hov⟩ := h b hb
      rw [setArr_same]
      by_cases hin : inCells (esz b) l (ub.eval s.iv) o = true
      · exact ⟨o, val.eval s.iv, by simp [Mem.storeRange, hin]⟩
      · exact ⟨o, v, by simp [Mem.storeRange, hin, hov]⟩
    · exact Or.inl ⟨hb, setArr_other s _ hba⟩

theorem ne_arrayAssign {st : St} {s s' : CState} (hI : Inv st) (hk : SizesOk esz st) (h : NE esz st s) (lhs rhs : Nat)
    (hr : cAssign lhs rhs s = some s') : NE esz (st.arrayAssign lhs rhs) s' := by
  have hs' : s' = s.setArr lhs (s.ar rhs) := (Option.some.inj hr).symm
  subst hs'
  by_cases hlr : lhs = rhs
  · subst hlr
    have : st.arrayAssign lhs lhs = st := by simp [St.arrayAssign]
    rw [this, Smash.setArr_self]; exact h
  · apply ne_of h
    intro b hb
    unfold St.arrayAssign at hb
    simp only [hlr, if_false] at hb
    by_cases hbl : b = lhs
    · subst hbl
      cases hc : st.sizes.constSize rhs with
      | some k =>
        right
        rw [setArr_same]
        exact h rhs (by rw [hc, hk rhs k hc])
      | none =>
        rw [hc] at hb
        cases hl : st.sizes.constSize b with
        | some k2 =>
          rw [hl] at hb
          simp only [cs_remove hI.1, if_true] at hb
          exact absurd hb (by simp)
        | none =>
          rw [hl] at hb
          simp only [] at hb
          rw [hl] at hb; exact absurd hb (by simp)
    · left
      refine ⟨?_, setArr_other s _ hbl⟩
      cases hc : st.sizes.constSize rhs with
      | some k => rw [hc] at hb; simp only [cs_set hI.1, hbl, if_false] at hb; exact hb
      | none =>
        rw [hc] at hb
        cases hl : st.sizes.constSize lhs with
        | some k2 => rw [hl] at hb; simp only [cs_remove hI.1, hbl, if_false] at hb; exact hb
        | none => rw [hl] at hb; exact hb

theorem ne_upper {a b : St} {s : CState} (ha : Inv a) (hb : Inv b) (base : IDom.Env)
    (h : NE esz a s ∨ NE esz b s) : NE esz ⟨SzEnv.join a.sizes b.sizes, base⟩ s := by
  intro x hx
  simp only [cs_join ha.1 hb.1] at hx
  split at hx
  · rename_i heq
    rcases h with h | h
    · exact h x hx
    · exact h x (by rw [← heq]; exact hx)
  · exact absurd hx (by simp)

end SmashItv
end Dom
end Crab
