import CrabProofs.Lemmas.BwdRun
import CrabProofs.Lemmas.BwdRunOld
import CrabProofs.Lemmas.BwdReplay
import CrabProofs.Lemmas.BwdGeneric
import CrabProofs.Lemmas.BwdReachB

/-!
# C11 — the backward analysis returns necessary preconditions

Model: `CrabModel/Bwd/BwdTransfer.lean` (`bwdExec` = `intra_necessary_preconditions_abs_transformer::exec`,
`bwdStmts` = `necessary_preconditions_fixpoint_iterator::analyze`, `reachExitF` / `mayFailB` =
`compute_fail_without_exit`, `bwdCtx` = the fixpoint problem on `cfg_rev`, `preAt` = `operator[]`,
`genBwdAssign` / `genBwdApply` = `BackwardAssignOps`), semantics: `CrabModel/Bwd/BSemantics.lean`
(`CoReach` = states from which an assertion violation / a given final state at the exit is
reachable along an execution consistent with the supplied forward invariants).
The model is the code after the `fix:` commits 111ab80 (assertions in blocks that cannot reach
the exit), ac800bc (backward `x := y / k`), ced0dcf (constant / sign backward operations).

* statement level (`bwd_stmt_sound`, `bwd_stmt_fail_sound`), block level (`bwd_block_sound`,
  `bwd_block_fail_sound`): for every domain satisfying the contract `BDomSound`;
* `reach_exit_exact`, `fail_without_exit_exact`: the sets computed by
  `compute_fail_without_exit` are exactly "can reach the exit" and "cannot reach the exit but
  can reach an assertion";
* run level: `bwd_run_sound` (`C01.run_sound` instantiated on the reversed graph with the
  co-reachability collecting semantics), `bwd_precondition_sound` (what `analyzer[n]` returns,
  every block), `empty_entry_precondition_safe`;
* `BackwardAssignOps`: `generic_backward_assign_sound`, `generic_backward_apply_sound`;
* every witness of the driver is a member of `CoReach`: `replay_witness_coreach`;
* the behaviour BEFORE the fix commits, behind the explicit definitions `bwdCtxOld` /
  `genBwdApplyOld`: `old_reversed_collecting_semantics_is_coreachX`, `old_bwd_run_sound_partial`,
  `old_bwd_run_sound_counterexample`, `old_empty_entry_precondition_safe_counterexample`,
  `old_generic_backward_apply_counterexample`.
-/
open Crab Crab.Bwd Crab.Fix

/-- C11, one statement: `σ ∈ γ fwdInv`, `σ →[s] σ'`, `σ' ∈ γ post` ⇒ `σ ∈ γ (bwdExec s post fwdInv)`
    (good and error mode). -/
theorem C11.bwd_stmt_sound {A : Type} {D : BDom A} {γ : A → State → Prop} (hD : BDomSound D γ)
    (good : Bool) (s : Stmt) (post inv : A) (σ σ' : State)
    (hinv : γ inv σ) (hstep : StmtStep s σ σ') (hpost : γ post σ') :
    γ (bwdExec D good s post inv) σ :=
  bwdExec_step_sound hD good s post inv σ σ' hinv hstep hpost

/-- C11, one statement, error mode: a state from which the statement fails is in the
    precondition whatever the postcondition is. -/
theorem C11.bwd_stmt_fail_sound {A : Type} {D : BDom A} {γ : A → State → Prop} (hD : BDomSound D γ)
    (s : Stmt) (post inv : A) (σ : State) (hfail : StmtFails s σ) :
    γ (bwdExec D false s post inv) σ :=
  bwdExec_fail_sound hD s post inv σ hfail

/-- C11, one block (`analyze`): states that satisfy the block invariant and run through the
    block into `post`. -/
theorem C11.bwd_block_sound {A : Type} {D : BDom A} {γ : A → State → Prop} (hD : BDomSound D γ)
    (good : Bool) (ss : List Stmt) (post inv : A) (σ σ' : State)
    (hinv : γ inv σ) (hrun : StmtsStep ss σ σ') (hpost : γ post σ') :
    γ (bwdStmts D good ss post inv) σ :=
  bwdStmts_step_sound hD good ss post inv σ σ' hinv hrun hpost

/-- C11, one block, error mode: states that satisfy the block invariant and from which an
    assertion of the block fails. -/
theorem C11.bwd_block_fail_sound {A : Type} {D : BDom A} {γ : A → State → Prop} (hD : BDomSound D γ)
    (ss : List Stmt) (post inv : A) (σ : State) (hinv : γ inv σ) (hfail : StmtsFail ss σ) :
    γ (bwdStmts D false ss post inv) σ :=
  bwdStmts_fail_sound hD ss post inv σ hinv hfail

/-- `compute_fail_without_exit`, first pass: `reach_exit` is exactly the set of blocks from which
    the exit block is reachable (|blocks| propagation rounds reach the fixpoint). -/
theorem C11.reach_exit_exact (p : Prog) (n : Nat) : reachExitF p n = true ↔ ReachesExit p n :=
  reachExitF_iff p n

/-- `compute_fail_without_exit`, second pass: `m_fail_without_exit` is exactly the set of blocks
    that cannot reach the exit block but can reach a block containing an assertion. -/
theorem C11.fail_without_exit_exact (p : Prog) (n : Nat) :
    mayFailB p n = true ↔ ¬ ReachesExit p n ∧ CanFail p n :=
  mayFailB_iff p n

/-- C11, whole run: the table `m_preconditions` contains, for every block from which the exit
    block is reachable (these are the blocks the iterator visits), every state from which an
    execution consistent with the supplied forward invariants ends the exit block in a given
    final state or (error mode) fails an assertion — in whatever block.  Obtained from
    `C01.run_sound` on the reversed graph. -/
theorem C11.bwd_run_sound {A : Type} (S : Setup A) (w : List Comp) (fuel : Nat) (st : St A)
    (hw : WtoWF S.ctx w) (hrun : run S.ctx fuel w = some st) (n : Nat) (σ : State)
    (hn : ReachesExit S.p n)
    (h : CoReach S.p S.inv (!S.good) (S.γ S.fin) n σ) : S.γ (st.post n) σ :=
  (C01.run_sound S.ctx w (Option State) S.sem fuel st hw hrun).2 n (some σ)
    (S.reachPost_of_coReach n σ h hn)

/-- C11 as the client sees it: `analyzer[n]` (`preAt`: the stored value of a visited block, top
    for the others) contains every co-reachable state, for every block. -/
theorem C11.bwd_precondition_sound {A : Type} (S : Setup A) (w : List Comp) (fuel : Nat) (st : St A)
    (hw : WtoWF S.ctx w) (hrun : run S.ctx fuel w = some st) (n : Nat) (σ : State)
    (h : CoReach S.p S.inv (!S.good) (S.γ S.fin) n σ) : S.γ (preAt S.D S.p st.post n) σ := by
  unfold preAt
  cases hr : reachExitF S.p n with
  | true =>
    simp only [if_true]
    exact C11.bwd_run_sound S w fuel st hw hrun n σ ((reachExitF_iff S.p n).1 hr) h
  | false => exact S.sound.top_sound σ

/-- Corollary: an empty precondition at the entry block means that no initial state
    (consistent with the supplied invariants) leads to a violation / to a given final state. -/
theorem C11.empty_entry_precondition_safe {A : Type} (S : Setup A) (w : List Comp)
    (fuel : Nat) (st : St A) (hw : WtoWF S.ctx w) (hrun : run S.ctx fuel w = some st)
    (hbot : S.D.isBottom (preAt S.D S.p st.post S.p.entry) = true) (σ : State) :
    ¬ CoReach S.p S.inv (!S.good) (S.γ S.fin) S.p.entry σ :=
  fun h => S.sound.isBottom_sound _ σ hbot
    (C11.bwd_precondition_sound S w fuel st hw hrun S.p.entry σ h)

/-! ### the behaviour before commit 111ab80 (`bwdCtxOld`) -/

/-- What the collecting semantics of the OLD reversed system is: a program state leaves block
    `n` of the reversed graph (= stands at the ENTRY of block `n`) iff it is co-reachable with
    failures restricted to blocks that reach the exit; the token does iff `n` reaches the exit. -/
theorem C11.old_reversed_collecting_semantics_is_coreachX {A : Type} (S : Setup A) (n : Nat) :
    (∀ σ, ReachPost S.ctxOld S.semOld n (some σ) ↔ CoReachX S.p S.inv (!S.good) (S.γ S.fin) n σ) ∧
    (ReachPost S.ctxOld S.semOld n none ↔ ReachesExit S.p n) := by
  refine ⟨fun σ => ⟨fun h => S.post_charOld n (some σ) h, S.reachPostOld_of_coReachX n σ⟩,
    ⟨fun h => S.post_charOld n none h, fun h => ?_⟩⟩
  exact ReachPost.step n none none (S.token_preOld n h) trivial

/-- what the old code guaranteed: assertion failures only in blocks that reach the exit -/
theorem C11.old_bwd_run_sound_partial {A : Type} (S : Setup A) (w : List Comp) (fuel : Nat) (st : St A)
    (hw : WtoWF S.ctxOld w) (hrun : run S.ctxOld fuel w = some st) (n : Nat) (σ : State)
    (h : CoReachX S.p S.inv (!S.good) (S.γ S.fin) n σ) : S.γ (st.post n) σ :=
  (C01.run_sound S.ctxOld w (Option State) S.semOld fuel st hw hrun).2 n (some σ)
    (S.reachPostOld_of_coReachX n σ h)

/-- the full statement for the old code (false, see the counterexample) -/
def C11.old_bwd_run_sound_Statement : Prop :=
  ∀ (A : Type) (S : Setup A) (w : List Comp) (fuel : Nat) (st : St A),
    WtoWF S.ctxOld w → run S.ctxOld fuel w = some st →
    ∀ n σ, ReachesExit S.p n → CoReach S.p S.inv (!S.good) (S.γ S.fin) n σ → S.γ (st.post n) σ

/-- the old code was right on programs in which every block containing an assertion can reach
    the exit block (decidable hypothesis) -/
theorem C11.old_bwd_run_sound_of_asserts_reach_exit {A : Type} (S : Setup A) (w : List Comp)
    (fuel : Nat) (st : St A) (hw : WtoWF S.ctxOld w) (hrun : run S.ctxOld fuel w = some st)
    (hx : assertsReachExitB S.p = true) (n : Nat) (σ : State)
    (h : CoReach S.p S.inv (!S.good) (S.γ S.fin) n σ) : S.γ (st.post n) σ :=
  C11.old_bwd_run_sound_partial S w fuel st hw hrun n σ
    (coReachX_of_coReach S.p S.inv _ _ (assertsReachExitB_sound S.p hx) n σ h)

def C11.old_empty_entry_precondition_safe_Statement : Prop :=
  ∀ (A : Type) (S : Setup A) (w : List Comp) (fuel : Nat) (st : St A),
    WtoWF S.ctxOld w → run S.ctxOld fuel w = some st →
    S.D.isBottom (preAt S.D S.p st.post S.p.entry) = true →
    ∀ σ, ¬ CoReach S.p S.inv (!S.good) (S.γ S.fin) S.p.entry σ

/-! ### counterexample (DESIGN.md §4 #8): `E: havoc(x); goto A, X`   `A: assert(x != 3)` (dead end) -/

/-- the two-point domain (`false` = bottom, `true` = top) -/
def C11.Cex.flatDom : BDom Bool where
  top := true
  bot := false
  isBottom := fun a => !a
  leq := fun a b => !a || b
  join := (· || ·)
  meet := (· && ·)
  widen := (· || ·)
  narrow := (· && ·)
  assume := fun _ a => a
  forget := fun _ a => a
  assign := fun _ _ a => a
  apply := fun _ _ _ _ a => a
  select := fun _ _ _ _ a => a
  bwdAssign := fun _ _ post inv => post && inv
  bwdApply := fun _ _ _ _ post inv => post && inv

theorem C11.Cex.flatDom_sound : BDomSound C11.Cex.flatDom (fun a _ => a = true) where
  top_sound := fun _ => rfl
  isBottom_sound := by intro a σ h; simpa [C11.Cex.flatDom] using h
  join_left := by intro a b σ h; simp [C11.Cex.flatDom, h]
  join_right := by intro a b σ h; simp [C11.Cex.flatDom, h]
  widen_left := by intro a b σ h; simp [C11.Cex.flatDom, h]
  widen_right := by intro a b σ h; simp [C11.Cex.flatDom, h]
  meet_sound := by intro a b σ h1 h2; simp [C11.Cex.flatDom, h1, h2]
  narrow_sound := by intro a b σ h1 h2; simp [C11.Cex.flatDom, h1, h2]
  leq_sound := by intro a b σ h1 h2; simpa [C11.Cex.flatDom, h2] using h1
  assume_sound := fun _ _ _ h _ => h
  forget_sound := fun _ _ _ _ h => h
  assign_sound := fun _ _ _ _ h => h
  apply_sound := fun _ _ _ _ _ _ _ h _ => h
  select_sound := fun _ _ _ _ _ _ h => h
  bwdAssign_sound := by intro x e post inv σ h1 h2; simp [C11.Cex.flatDom, h1, h2]
  bwdApply_sound := by intro op x y z post inv σ v h1 _ h2; simp [C11.Cex.flatDom, h1, h2]

/-- block 0 = E (entry), block 1 = A (dead end), block 2 = X (exit) -/
def C11.Cex.prog : Prog :=
  { blocks := [⟨[.havoc 0], [1, 2]⟩, ⟨[.assert ⟨.ne, ⟨-3, [(1, 0)]⟩⟩], []⟩, ⟨[], []⟩],
    entry := 0, exit := 2 }

/-- error mode, no forward invariants (top), started from bottom at the exit block -/
def C11.Cex.setup : Setup Bool where
  D := C11.Cex.flatDom
  γ := fun a _ => a = true
  sound := C11.Cex.flatDom_sound
  p := C11.Cex.prog
  good := false
  invAbs := fun _ => true
  fin := false
  nesting := fun n => if n = 2 ∨ n = 0 then some [] else none
  delay := 1
  descending := 1

/-- the ordering of the reversed graph from the exit block: X, E (A is not reachable) -/
def C11.Cex.wto : List Comp := [.vertex 2, .vertex 0]

theorem C11.Cex.preds (n : Nat) :
    C11.Cex.setup.ctxOld.preds n = if n = 0 then [1, 2] else [] := by
  show (C11.Cex.prog.block n).succs = _
  match n with
  | 0 => rfl
  | 1 => rfl
  | 2 => rfl
  | n + 3 => rfl

theorem C11.Cex.wfOld : WtoWF C11.Cex.setup.ctxOld C11.Cex.wto where
  nodup := by decide
  closed := by
    intro p n hp _
    rw [C11.Cex.preds] at hp
    by_cases h0 : n = 0
    · subst h0; decide
    · simp [h0] at hp
  edge := by
    intro p n hp hpn _
    rw [C11.Cex.preds] at hp
    by_cases h0 : n = 0
    · subst h0
      simp only [if_true, List.mem_cons, List.not_mem_nil, or_false] at hp
      rcases hp with rfl | rfl
      · revert hpn; decide
      · decide
    · simp [h0] at hp
  entry_mem := by decide
  nesting_in := by
    intro n hn
    have : n = 2 ∨ n = 0 := by
      simpa [C11.Cex.wto, nodesList, Comp.nodes] using hn
    rcases this with rfl | rfl <;> decide
  nesting_out := by
    intro n hn
    have : ¬ (n = 2 ∨ n = 0) := by
      simpa [C11.Cex.wto, nodesList, Comp.nodes] using hn
    show (if n = 2 ∨ n = 0 then some [] else none) = none
    simp [this]

/-- the ordering is the same for the current model (same graph, start block, nesting) -/
theorem C11.Cex.wf : WtoWF C11.Cex.setup.ctx C11.Cex.wto :=
  { nodup := C11.Cex.wfOld.nodup, closed := C11.Cex.wfOld.closed, edge := C11.Cex.wfOld.edge,
    entry_mem := C11.Cex.wfOld.entry_mem, nesting_in := C11.Cex.wfOld.nesting_in,
    nesting_out := C11.Cex.wfOld.nesting_out }

/-- the old run returns and stores bottom for the entry block -/
theorem C11.Cex.old_run_entry_bottom :
    (run C11.Cex.setup.ctxOld 10 C11.Cex.wto).map (fun st => st.post 0) = some false := by decide

/-- but `x = 3` at the entry block violates the assertion of `A` -/
theorem C11.Cex.coreach : CoReach C11.Cex.setup.p C11.Cex.setup.inv (!C11.Cex.setup.good)
    (C11.Cex.setup.γ C11.Cex.setup.fin) 0 (fun _ => 3) := by
  refine CoReach.flow 0 1 (fun _ => 3) (Bwd.upd (fun _ => 3) 0 3) rfl (by decide) ?_ ?_
  · exact ⟨_, stmtStep_havoc.2 ⟨3, rfl⟩, rfl⟩
  · refine CoReach.fail 1 _ rfl rfl (Or.inl (stmtFails_iff.2 ⟨_, rfl, ?_⟩))
    simp [Cst.holds, Lin.eval, evalTerms, Bwd.upd]

theorem C11.Cex.entry_reaches_exit : ReachesExit C11.Cex.prog 0 :=
  ReachesExit.edge 0 2 (by decide) ReachesExit.here

theorem C11.old_bwd_run_sound_counterexample : ¬ C11.old_bwd_run_sound_Statement := by
  intro hS
  have hb := C11.Cex.old_run_entry_bottom
  cases hr : run C11.Cex.setup.ctxOld 10 C11.Cex.wto with
  | none => rw [hr] at hb; cases hb
  | some st =>
    rw [hr] at hb
    have h0 : st.post 0 = false := by simpa using hb
    have := hS Bool C11.Cex.setup C11.Cex.wto 10 st C11.Cex.wfOld hr 0 (fun _ => 3)
      C11.Cex.entry_reaches_exit C11.Cex.coreach
    rw [h0] at this
    cases this

theorem C11.old_empty_entry_precondition_safe_counterexample :
    ¬ C11.old_empty_entry_precondition_safe_Statement := by
  intro hS
  have hb := C11.Cex.old_run_entry_bottom
  cases hr : run C11.Cex.setup.ctxOld 10 C11.Cex.wto with
  | none => rw [hr] at hb; cases hb
  | some st =>
    rw [hr] at hb
    have h0 : st.post 0 = false := by simpa using hb
    refine hS Bool C11.Cex.setup C11.Cex.wto 10 st C11.Cex.wfOld hr ?_ (fun _ => 3) C11.Cex.coreach
    have hre : reachExitF C11.Cex.prog 0 = true := by decide
    show (!(preAt C11.Cex.flatDom C11.Cex.prog st.post 0)) = true
    simp only [preAt, hre, if_true, h0]
    rfl

/-- the hypothesis under which the old code was right is decidable and fails on this program -/
example : assertsReachExitB C11.Cex.prog = false := by decide

/-! ### non-vacuity of the current theorems: the same program -/

/-- `compute_fail_without_exit` finds the dead-end block `A` -/
example : (List.range 3).map (mayFailB C11.Cex.prog) = [false, true, false] := by decide

/-- the current model stores top for the entry block: the failing state is covered -/
theorem C11.Cex.run_entry_top :
    (run C11.Cex.setup.ctx 10 C11.Cex.wto).map (fun st => st.post 0) = some true := by decide

/-- and `bwd_run_sound` applies to it with a satisfiable hypothesis set -/
example (fuel : Nat) (st : St Bool) (h : run C11.Cex.setup.ctx fuel C11.Cex.wto = some st) :
    st.post 0 = true :=
  C11.bwd_run_sound C11.Cex.setup C11.Cex.wto fuel st C11.Cex.wf h 0 (fun _ => 3)
    C11.Cex.entry_reaches_exit C11.Cex.coreach

/-! ### every witness reported by the driver is a member of `CoReach` -/

/-- C11 (tie to the driver): a choice stream accepted by the executable `replay` is an
    execution in the sense of `CoReach`. -/
theorem C11.replay_witness_coreach (p : Prog) (invOk : Nat → State → Bool)
    (errAt : Nat → Nat → Bool) (fin : State → Bool) (err : Bool)
    (herr : ∀ n i, errAt n i = true → err = true)
    (fuel n : Nat) (σ : State) (cs : List Int)
    (h : replay p invOk errAt fin fuel n σ cs = true) :
    CoReach p (fun n σ => invOk n σ = true) err (fun σ => fin σ = true) n σ :=
  replay_coReach p invOk errAt fin err herr fuel n σ cs h

/-! ### `BackwardAssignOps` -/

/-- `BackwardAssignOps::assign` (constraint `x = e[x'/x]`, forget, rename, meet with the forward
    invariant) satisfies the `bwdAssign_sound` field of the contract. -/
theorem C11.generic_backward_assign_sound {A : Type} {D : BDom A} {γ : A → State → Prop}
    (hD : BDomSound D γ) (rename : Var → Var → A → A) (hren : RenameSound γ rename)
    (fresh x : Var) (e : Lin) (post inv : A) (σ : State)
    (hfx : fresh ≠ x) (hfe : fresh ∉ e.vars) (hfp : ∀ τ v, γ post τ → γ post (Bwd.upd τ fresh v))
    (hinv : γ inv σ) (hpost : γ post (Bwd.upd σ x (e.eval σ))) :
    γ (genBwdAssign D rename fresh x e post inv) σ :=
  genBwdAssign_sound hD rename hren fresh x e post inv σ hfx hfe hfp hinv hpost

/-- `BackwardAssignOps::apply` (inverse operation for `+`, `-`, `*` by a constant, `y := x * k + r`
    with `|r| <= |k| - 1` for the division, `backward assign` for `y ± z`, forget otherwise)
    satisfies the `bwdApply_sound` field of the contract. -/
theorem C11.generic_backward_apply_sound {A : Type} {D : BDom A} {γ : A → State → Prop}
    (hD : BDomSound D γ) (rename : Var → Var → A → A) (hren : RenameSound γ rename)
    (fresh : Var) (op : BinOp) (x y : Var) (z : Operand) (post inv : A) (σ : State) (v : Int)
    (hfx : fresh ≠ x) (hfy : fresh ≠ y) (hfz : ∀ w, z = .var w → fresh ≠ w)
    (hfp : ∀ τ u, γ post τ → γ post (Bwd.upd τ fresh u))
    (hinv : γ inv σ) (hv : binSem op (σ y) (z.eval σ) = some v) (hpost : γ post (Bwd.upd σ x v)) :
    γ (genBwdApply D rename fresh op x y z post inv) σ :=
  genBwdApply_sound hD rename hren fresh op x y z post inv σ v hfx hfy hfz hfp hinv hv hpost

/-- non-vacuity: on the exact set domain `x := y / 2`, post `x = 3` keeps the pre-state `y = 7` -/
example : genBwdApply setDom setRename 9 .sdiv 0 1 (.const 2) (fun τ => τ 0 = 3) (fun _ => True)
    (fun i => if i = 1 then 7 else 0) :=
  C11.generic_backward_apply_sound setDom_sound setRename setRename_sound 9 .sdiv 0 1 (.const 2)
    (fun τ => τ 0 = 3) (fun _ => True) (fun i => if i = 1 then 7 else 0) 3
    (by decide) (by decide) (by intro w hw; cases hw)
    (by intro τ u hτ; show Bwd.upd τ 9 u 0 = 3; rw [upd_other τ 9 0 u (by decide)]; exact hτ)
    trivial (by decide) (by show Bwd.upd _ 0 3 0 = 3; simp [Bwd.upd])

/-- the statement for `BackwardAssignOps::apply` before commit ac800bc (false) -/
def C11.old_generic_backward_apply_sound_Statement : Prop :=
  ∀ (A : Type) (D : BDom A) (γ : A → State → Prop), BDomSound D γ →
  ∀ (rename : Var → Var → A → A), RenameSound γ rename →
  ∀ (fresh : Var) (op : BinOp) (x y : Var) (z : Operand) (post inv : A) (σ : State) (v : Int),
    fresh ≠ x → fresh ≠ y → (∀ w, z = .var w → fresh ≠ w) →
    (∀ τ u, γ post τ → γ post (Bwd.upd τ fresh u)) →
    γ inv σ → binSem op (σ y) (z.eval σ) = some v → γ post (Bwd.upd σ x v) →
    γ (genBwdApplyOld D rename fresh op x y z post inv) σ

/-- `x := y / 2`, post `x = 3`: the pre-state `y = 7` (7 / 2 = 3) is not in the result
    `y = 6` computed by `y := x * 2` — on the exact set domain. -/
theorem C11.old_generic_backward_apply_counterexample :
    ¬ C11.old_generic_backward_apply_sound_Statement := by
  intro hS
  let σ : State := fun i => if i = 1 then 7 else 0
  let post : State → Prop := fun τ => τ 0 = 3
  have h := hS (State → Prop) setDom (fun a s => a s) setDom_sound setRename setRename_sound
    9 .sdiv 0 1 (.const 2) post (fun _ => True) σ 3 (by decide) (by decide)
    (by intro w hw; cases hw) (by
      intro τ u hτ
      show Bwd.upd τ 9 u 0 = 3
      rw [upd_other τ 9 0 u (by decide)]; exact hτ)
    trivial (by decide) (by show Bwd.upd σ 0 3 0 = 3; simp [Bwd.upd])
  -- unfold the computed set
  have h' : (setDom.forget 0 (setDom.apply .mul 1 0 (.const 2) post)) σ := by
    have := h
    simp only [genBwdApplyOld, genInverse, setDom] at this
    exact this.1
  obtain ⟨v0, τ, w, hτ, hw, heq⟩ := h'
  have h1 : (Bwd.upd σ 0 v0) 1 = (Bwd.upd τ 1 w) 1 := by rw [heq]
  have hτ0 : τ 0 = 3 := hτ
  simp only [binSem, Operand.eval, Option.some.injEq] at hw
  simp [Bwd.upd, σ] at h1
  omega
