import CrabProofs.Props.C05Chain
import CrabProofs.Lemmas.DisIntervalChain3

/-!
# C05 for `dis_interval<z_number>` — the widening `operator||` satisfies the chain condition

On normalised values (`Dis.WF`, the invariant of the class, preserved by the widening:
`C08.dis_wf_widen`) every widening step `x ↦ x ∇ y` with `y ⋢ x` strictly decreases the measure
`Dis.wmeasure` (7 for bottom, 0 for top, otherwise `1 + 2·(number of bounded sides) + [more than one
interval]`).  This is the repaired widening of commit 2e81953: only the two extreme intervals are
extrapolated; the interior of the left argument is kept when it already covers the right argument,
otherwise the disjunction is given up and the convex hulls are widened.  (Before the fix the
interiors of both arguments were joined and no such measure exists: the chain length was bounded
only by the distance between the extreme intervals.)
-/
open Crab Crab.Dis Crab.Fix

/-- the measure decreases on every strict widening step, and it is at most 7 -/
theorem C05.dis_widen_measure (x y : Dis) (hx : x.WF) (hy : y.WF) (h : leq y x = false) :
    wmeasure (widen x y) < wmeasure x ∧ wmeasure x ≤ 7 :=
  ⟨widen_measure hx hy h, wmeasure_le x⟩

/-- **chain condition**: no infinite sequence `x₀, x₁ = x₀ ∇ y₀, x₂ = x₁ ∇ y₁, …` of normalised
    values with every `yᵢ` not below `xᵢ` -/
theorem C05.dis_widen_wf :
    WellFounded (fun x' x : Dis => x.WF ∧ ∃ y, y.WF ∧ leq y x = false ∧ x' = widen x y) := by
  apply Subrelation.wf (r := InvImage (· < ·) wmeasure)
  · rintro x' x ⟨hx, y, hy, hle, rfl⟩
    exact widen_measure hx hy hle
  · exact InvImage.wf wmeasure Nat.lt_wfRel.wf

/-- the values of the class: those that satisfy the invariant, with the order test and the
    widening restricted to them -/
def C05.DisVal : Type := { x : Dis // x.WF }
def C05.disLeq (y x : C05.DisVal) : Bool := leq y.1 x.1
def C05.disWiden (x y : C05.DisVal) : C05.DisVal := ⟨widen x.1 y.1, widenWith_wf wop_widen x.2 y.2⟩

/-- the same through the generic lemma of `C05Chain`: the strict steps of (`<=`, `||`) are well founded -/
theorem C05.dis_strictStep_wf : WellFounded (C05.StrictStep C05.disLeq C05.disWiden) :=
  C05.strictStep_wf_of_measure C05.disLeq C05.disWiden (· < ·) Nat.lt_wfRel.wf
    (fun x => wmeasure x.1) (fun x y h => widen_measure x.2 y.2 h)

/-- in the form the fixpoint engine uses (`Fix.WidenStep`): every context whose order test and
    widening are those of the class satisfies the hypothesis of `C05.run_terminates` -/
theorem C05.dis_widenStep_wf (c : Ctx C05.DisVal) (hleq : c.ops.leq = C05.disLeq)
    (hw : c.ops.widen = C05.disWiden) : WellFounded (WidenStep c) := by
  rw [C05.widenStep_eq, hleq, hw]
  exact C05.dis_strictStep_wf

/-- along any sequence `xₙ₊₁ = xₙ ∇ yₙ` of normalised values a covered argument (`yₙ ⊑ xₙ`, the test
    on which the iterator stops) occurs within the first 8 steps -/
theorem C05.dis_chain_first_stationary (xs ys : Nat → C05.DisVal)
    (hstep : ∀ n, xs (n + 1) = C05.disWiden (xs n) (ys n)) :
    ∃ n, n ≤ 7 ∧ C05.disLeq (ys n) (xs n) = true := by
  obtain ⟨n, hn, h⟩ := C05.chain_first_stationary C05.disLeq C05.disWiden (fun x => wmeasure x.1)
    (fun x y h => widen_measure x.2 y.2 h) xs ys hstep
  exact ⟨n, Nat.le_trans hn (wmeasure_le _), h⟩

/-- non-vacuity: strict steps exist (an extreme interval extrapolated; a growing interior that
    makes the widening give up the disjunction) -/
example :
    let x : Dis := ⟨.fin, [⟨.fin 0, .fin 1⟩, ⟨.fin 4, .fin 4⟩, ⟨.fin 9, .fin 9⟩]⟩
    let y : Dis := ⟨.fin, [⟨.fin 0, .fin 1⟩, ⟨.fin 4, .fin 5⟩, ⟨.fin 9, .fin 9⟩]⟩
    x.WF ∧ y.WF ∧ leq y x = false ∧ widen x y = ⟨.fin, [⟨.fin 0, .fin 9⟩]⟩ ∧
    leq y (widen x y) = true := by
  intro x y
  decide +kernel
