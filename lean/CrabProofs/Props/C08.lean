import CrabProofs.Lemmas.IntervalMul

/-!
# C08 — scalar value abstractions are sound, interval arithmetic is tight

Property theorems only (helper lemmas live in `CrabProofs/Lemmas`).  `Crab.Itv` is the
branch-by-branch model of `ikos::interval<z_number>`; `Itv.mem k i` is `k ∈ γ(i)`.
Every statement quantifies over all intervals (all bounds, finite or infinite, bottom
included) and all integers.
-/
open Crab Crab.Itv

/-- inclusion test: a yes answer is an inclusion of concretisations -/
theorem C08.itv_leq_sound (a b : Itv) (h : leq a b = true) (k : Int) (hk : mem k a) : mem k b :=
  leq_sound h hk
theorem C08.itv_leq_refl (a : Itv) : leq a a = true := leq_refl a
theorem C08.itv_bot_leq (b : Itv) : leq bot b = true := bot_leq b
theorem C08.itv_leq_top (a : Itv) : leq a top = true := leq_top a

/-- join is an upper bound and the least one for the order -/
theorem C08.itv_join_upper (a b : Itv) (k : Int) (hk : mem k a ∨ mem k b) : mem k (join a b) :=
  hk.elim join_upper_left join_upper_right
theorem C08.itv_join_least (a b c : Itv) (ha : leq a c = true) (hb : leq b c = true) :
    leq (join a b) c = true := join_least ha hb

/-- meet is exact: it describes precisely the common members -/
theorem C08.itv_meet_exact (a b : Itv) (k : Int) : mem k (meet a b) ↔ (mem k a ∧ mem k b) :=
  ⟨meet_exact, fun ⟨h1, h2⟩ => meet_sound h1 h2⟩

/-- widening is an upper bound of both operands -/
theorem C08.itv_widen_upper (a b : Itv) (k : Int) (hk : mem k a ∨ mem k b) : mem k (widen a b) :=
  hk.elim widen_upper_left widen_upper_right

/-- narrowing keeps the common members and stays inside its left operand -/
theorem C08.itv_narrow_sound (a b : Itv) (k : Int) (ha : mem k a) (hb : mem k b) : mem k (narrow a b) :=
  narrow_sound ha hb
theorem C08.itv_narrow_below (a b : Itv) (hw : a.WF) (k : Int) (h : mem k (narrow a b)) : mem k a :=
  narrow_le_left hw h

/-- `+`, `-`, unary `-`, `*` are sound; on well-formed operands `+`/`-` never raise CRAB_ERROR -/
theorem C08.itv_add_sound (x y r : Itv) (a b : Int) (ha : mem a x) (hb : mem b y)
    (h : add x y = some r) : mem (a + b) r := add_sound ha hb h
theorem C08.itv_add_defined (x y : Itv) (hx : x.WF) (hy : y.WF) : (add x y).isSome = true :=
  add_defined hx hy
theorem C08.itv_sub_sound (x y r : Itv) (a b : Int) (ha : mem a x) (hb : mem b y)
    (h : sub x y = some r) : mem (a - b) r := sub_sound ha hb h
theorem C08.itv_sub_defined (x y : Itv) (hx : x.WF) (hy : y.WF) : (sub x y).isSome = true :=
  sub_defined hx hy
theorem C08.itv_neg_exact (x : Itv) (k : Int) : mem k (neg x) ↔ mem (-k) x :=
  ⟨neg_exact, fun h => by have := neg_sound h; simpa using this⟩
theorem C08.itv_mul_sound (x y : Itv) (a b : Int) (ha : mem a x) (hb : mem b y) :
    mem (a * b) (mul x y) := mul_sound ha hb

/-- non-vacuity: the hypotheses are met by concrete non-trivial values -/
example : mem 3 (⟨.fin (-2), .pinf⟩ : Itv) ∧ mem (-7) (⟨.ninf, .fin 0⟩ : Itv) ∧
    (⟨.fin (-2), .pinf⟩ : Itv).WF ∧ mul ⟨.fin (-2), .pinf⟩ ⟨.ninf, .fin 0⟩ = top := by
  refine ⟨by decide, by decide, ⟨by simp, by simp⟩, by decide⟩
