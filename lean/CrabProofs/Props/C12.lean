import CrabProofs.Lemmas.ZonesExact
import CrabProofs.Lemmas.ItvEnvExact
import CrabProofs.Lemmas.OctExact
import CrabModel.Dom.OctTightenCoded

/-!
# C12 — intervals, zones and octagons are exact on their own constraint language

Canonical reference models (`CrabModel/Dom/{ItvEnv,Zones,Octagon}.lean`): interval environments,
difference-bound matrices over `Int ∪ {+∞}` with Floyd–Warshall closure, and `2n × 2n` coherent
matrices with the *tight* closure for the integers (closure; tightening; strengthening).
Concretisations are over integer states `σ : Fin n → Int`; `γ z σ` says that every finite matrix
entry `m i j = k` is a true difference bound `v i - v j ≤ k` of the valuation induced by `σ`.

All statements hold for ALL `n` and ALL matrices (zones), all well-formed environments (intervals:
no `[+oo, ..]` / `[.., -oo]` interval, an invariant of every operation) and all coherent matrices
(octagons: `m i j = m j̄ ī`, an invariant of every operation).  The real domains are tied to these
models by the differential harness `h_exact` / `Driver/ExactH.lean`.
-/
open Crab

/-! ## Zones -/
section Zones
open Crab.Zones Crab.Dbm
variable {n : Nat}

/-- shortest-path closure keeps the set of states -/
theorem C12.close_preserves_γ (z : Zone n) (σ : State n) : γ (close z) σ ↔ γ z σ :=
  Zones.close_preserves_γ z σ

/-- closure only lowers entries -/
theorem C12.close_below (z : Zone n) : Mat.LE (close z) z := Zones.close_LE z

/-- a consistent closure is closed: zero diagonal and triangle inequality -/
theorem C12.close_closed (z : Zone n) (h : isBottom z = false) : Mat.Closed (close z) :=
  Zones.close_closed h

/-- tightness at the level of matrices: every finite entry of a closed matrix is attained by a
    solution and every infinite entry is unbounded (potential / shortest-path argument) -/
theorem C12.closed_matrix_is_tight {N : Nat} (m : Mat N) (hc : Mat.Closed m) (i j : Fin N) :
    (∀ d, m.get i j = some d → ∃ v, m.sat v ∧ v i - v j = d) ∧
    (m.get i j = none → ∀ B : Int, ∃ v, m.sat v ∧ B < v i - v j) :=
  Mat.closed_is_tight hc i j

/-- tightness on states: for a non-bottom zone each closed entry is a valid bound, a finite entry
    is attained by a state of γ and an infinite entry is unbounded over γ -/
theorem C12.closed_is_tight (z : Zone n) (hb : isBottom z = false) (i j : Fin (n + 1)) :
    (∀ σ, γ z σ → ∀ d, (close z).get i j = some d → ext σ i - ext σ j ≤ d) ∧
    (∀ d, (close z).get i j = some d → ∃ σ, γ z σ ∧ ext σ i - ext σ j = d) ∧
    ((close z).get i j = none → ∀ B : Int, ∃ σ, γ z σ ∧ B < ext σ i - ext σ j) :=
  Zones.closed_is_tight z hb i j

/-- the witness used by the driver is a state of γ attaining row `i` -/
theorem C12.witnessEdge_spec (z : Zone n) (hb : isBottom z = false) (i : Fin (n + 1)) (B : Int) :
    γ z (witnessEdge z i B) ∧
    ∀ j, (∀ d, (close z).get i j = some d → ext (witnessEdge z i B) i - ext (witnessEdge z i B) j = d) ∧
         ((close z).get i j = none → B < ext (witnessEdge z i B) i - ext (witnessEdge z i B) j) :=
  Zones.witnessEdge_spec z hb i B

/-- assuming an in-language constraint is exact -/
theorem C12.assume_exact (z : Zone n) (c : Zones.Cst n) (σ : State n) :
    γ (assumeCst z c) σ ↔ (γ z σ ∧ c.sat σ) := Zones.assumeCst_exact z c σ

/-- a conjunction of in-language constraints added in any order -/
theorem C12.assumeAll_exact (cs : List (Zones.Cst n)) (σ : State n) :
    γ (assumeAll (Zones.top : Zone n) cs) σ ↔ ∀ c ∈ cs, c.sat σ := by
  rw [Zones.assumeAll_exact]
  exact ⟨fun h => h.2, fun h => ⟨Zones.top_γ σ, h⟩⟩

/-- bottom exactly when unsatisfiable over the integers -/
theorem C12.bottom_iff_unsat (z : Zone n) : isBottom z = true ↔ ¬ ∃ σ, γ z σ := Zones.bottom_iff_unsat z

/-- the reported interval contains every state -/
theorem C12.bounds_sound (z : Zone n) (σ : State n) (h : γ z σ) (x : Fin n) : Itv.mem (σ x) (bounds z x) :=
  Zones.bounds_sound z σ h x

/-- the reported bounds are the tightest implied ones: finite bounds are attained, infinite
    bounds mean unbounded; a bottom value reports the empty interval -/
theorem C12.bounds_tight (z : Zone n) (x : Fin n) :
    (isBottom z = true → bounds z x = Itv.bot) ∧
    (isBottom z = false →
      (∀ k, (bounds z x).ub = .fin k → ∃ σ, γ z σ ∧ σ x = k) ∧
      (∀ k, (bounds z x).lb = .fin k → ∃ σ, γ z σ ∧ σ x = k) ∧
      ((bounds z x).ub = .pinf → ∀ B : Int, ∃ σ, γ z σ ∧ B < σ x) ∧
      ((bounds z x).lb = .ninf → ∀ B : Int, ∃ σ, γ z σ ∧ σ x < B)) :=
  ⟨fun hb => Zones.bounds_bottom hb x,
   fun hb => ⟨fun k h => Zones.bounds_tight_ub z hb x k h, fun k h => Zones.bounds_tight_lb z hb x k h,
              fun h B => Zones.bounds_unbounded_ub z hb x h B, fun h B => Zones.bounds_unbounded_lb z hb x h B⟩⟩

/-- entailment answers yes exactly on the implied in-language constraints -/
theorem C12.entails_iff_implied (z : Zone n) (c : Zones.Cst n) :
    entails z c = true ↔ ∀ σ, γ z σ → c.sat σ := Zones.entails_iff_implied z c

/-- join is an upper bound ... -/
theorem C12.join_upper (a b : Zone n) (σ : State n) (h : γ a σ ∨ γ b σ) : γ (join a b) σ :=
  Zones.join_upper a b σ h

/-- ... and the least one among zones -/
theorem C12.join_least (a b c : Zone n) (ha : ∀ σ, γ a σ → γ c σ) (hb : ∀ σ, γ b σ → γ c σ)
    (σ : State n) (h : γ (join a b) σ) : γ c σ := Zones.join_least a b c ha hb σ h

theorem C12.meet_exact (a b : Zone n) (σ : State n) : γ (meet a b) σ ↔ (γ a σ ∧ γ b σ) :=
  Zones.meet_exact a b σ

/-- forgetting a variable is the exact projection -/
theorem C12.forget_exact (z : Zone n) (x : Fin n) (σ : State n) :
    γ (forget z x) σ ↔ ∃ t, γ z (Zones.updS σ x t) := Zones.forget_exact z x σ

/-- the inclusion test is exact -/
theorem C12.leq_iff (a b : Zone n) : leq a b = true ↔ ∀ σ, γ a σ → γ b σ := Zones.leq_iff a b

/-- non-vacuity: a satisfiable and an unsatisfiable conjunction (`x - y ≤ -1 ∧ y - x ≤ 0`) -/
example : isBottom (assumeAll (Zones.top : Zone 2) [.diff 0 1 3, .ub 1 2]) = false := by decide
example : isBottom (assumeAll (Zones.top : Zone 2) [.diff 0 1 (-1), .diff 1 0 0]) = true := by decide
example : bounds (assumeAll (Zones.top : Zone 2) [.diff 0 1 3, .ub 1 2]) 0 = ⟨.ninf, .fin 5⟩ := by decide

end Zones

/-! ## Intervals -/
section Intervals
open Crab.ItvEnv
variable {n : Nat}

theorem C12.itv_wf_invariant :
    EnvWF (ItvEnv.top : Env n) ∧
    (∀ (e : Env n) c, EnvWF e → EnvWF (assumeCst e c)) ∧
    (∀ a b : Env n, EnvWF a → EnvWF b → EnvWF (join a b)) ∧
    (∀ a b : Env n, EnvWF a → EnvWF b → EnvWF (meet a b)) ∧
    (∀ (e : Env n) x, EnvWF e → EnvWF (forget e x)) :=
  ⟨EnvWF_top, fun _ c h => EnvWF_assumeCst h c, fun _ _ ha hb => EnvWF_join ha hb,
   fun _ _ ha hb => EnvWF_meet ha hb, fun _ x h => EnvWF_forget h x⟩

theorem C12.itv_assume_exact (e : Env n) (c : ItvEnv.Cst n) (σ : ItvEnv.State n) :
    γ (assumeCst e c) σ ↔ (γ e σ ∧ c.sat σ) := ItvEnv.assumeCst_exact e c σ

theorem C12.itv_assumeAll_exact (cs : List (ItvEnv.Cst n)) (σ : ItvEnv.State n) :
    γ (assumeAll (ItvEnv.top : Env n) cs) σ ↔ ∀ c ∈ cs, c.sat σ := by
  rw [ItvEnv.assumeAll_exact]
  exact ⟨fun h => h.2, fun h => ⟨ItvEnv.top_γ σ, h⟩⟩

theorem C12.itv_bottom_iff_unsat (e : Env n) (hw : EnvWF e) : isBottom e = true ↔ ¬ ∃ σ, γ e σ :=
  ItvEnv.bottom_iff_unsat e hw

theorem C12.itv_bounds_sound (e : Env n) (σ : ItvEnv.State n) (h : γ e σ) (x : Fin n) :
    Itv.mem (σ x) (bounds e x) := ItvEnv.bounds_sound e σ h x

theorem C12.itv_bounds_tight (e : Env n) (hw : EnvWF e) (hb : isBottom e = false) (x : Fin n) :
    (∀ k, (bounds e x).ub = .fin k → ∃ σ, γ e σ ∧ σ x = k) ∧
    (∀ k, (bounds e x).lb = .fin k → ∃ σ, γ e σ ∧ σ x = k) ∧
    ((bounds e x).ub = .pinf → ∀ B : Int, ∃ σ, γ e σ ∧ B < σ x) ∧
    ((bounds e x).lb = .ninf → ∀ B : Int, ∃ σ, γ e σ ∧ σ x < B) :=
  ⟨fun k h => ItvEnv.bounds_tight_ub e hw hb x k h, fun k h => ItvEnv.bounds_tight_lb e hw hb x k h,
   fun h B => ItvEnv.bounds_unbounded_ub e hw hb x h B, fun h B => ItvEnv.bounds_unbounded_lb e hw hb x h B⟩

theorem C12.itv_entails_iff_implied (e : Env n) (hw : EnvWF e) (c : ItvEnv.Cst n) :
    entails e c = true ↔ ∀ σ, γ e σ → c.sat σ := ItvEnv.entails_iff_implied e hw c

theorem C12.itv_join_upper (a b : Env n) (σ : ItvEnv.State n) (h : γ a σ ∨ γ b σ) : γ (join a b) σ :=
  ItvEnv.join_upper a b σ h

theorem C12.itv_join_least (a b c : Env n) (hwa : EnvWF a) (hwb : EnvWF b)
    (ha : ∀ σ, γ a σ → γ c σ) (hb : ∀ σ, γ b σ → γ c σ) (σ : ItvEnv.State n) (h : γ (join a b) σ) : γ c σ :=
  ItvEnv.join_least a b c hwa hwb ha hb σ h

theorem C12.itv_meet_exact (a b : Env n) (σ : ItvEnv.State n) : γ (meet a b) σ ↔ (γ a σ ∧ γ b σ) :=
  ItvEnv.meet_exact a b σ

theorem C12.itv_forget_exact (e : Env n) (hw : EnvWF e) (x : Fin n) (σ : ItvEnv.State n) :
    γ (forget e x) σ ↔ ∃ t, γ e (ItvEnv.updS σ x t) := ItvEnv.forget_exact e hw x σ

end Intervals

/-! ## Octagons -/
section Octagons
open Crab.Octagon Crab.Dbm
variable {n : Nat}

/-- coherence `m i j = m j̄ ī` is an invariant of every operation -/
theorem C12.oct_coherent_invariant :
    Coherent (Octagon.top : Oct n) ∧
    (∀ (o : Oct n) c, Coherent o → Coherent (assumeCst o c)) ∧
    (∀ a b : Oct n, Coherent a → Coherent b → Coherent (join a b)) ∧
    (∀ a b : Oct n, Coherent a → Coherent b → Coherent (meet a b)) ∧
    (∀ (o : Oct n) x, Coherent o → Coherent (forget o x)) :=
  ⟨top_coherent, fun o c h => assumeCst_coherent o c h, fun a b ha hb => join_coherent a b ha hb,
   fun a b ha hb => meet_coherent a b ha hb, fun o x h => forget_coherent o x h⟩

/-- shortest-path closure, integer tightening and strengthening keep γ over the integers -/
theorem C12.oct_close_preserves_γ (o : Oct n) (σ : Octagon.State n) : γ (close o) σ ↔ γ o σ :=
  Octagon.close_preserves_γ o σ

theorem C12.oct_tighten_preserves_γ (m : Oct n) (σ : Octagon.State n) :
    (tighten m).sat (ext σ) ↔ m.sat (ext σ) := tighten_sat m σ

theorem C12.oct_strengthen_preserves_γ (m : Oct n) (σ : Octagon.State n) :
    (strengthen m).sat (ext σ) ↔ m.sat (ext σ) := strengthen_sat m σ

/-- the tight closure of a consistent coherent matrix is tightly closed: closed, coherent, even
    unary entries, strongly closed -/
theorem C12.oct_close_tightClosed (o : Oct n) (hco : Coherent o) (hb : isBottom o = false) :
    TightClosed (close o) := close_tightClosed o hco hb

/-- Bagnara–Hill–Zaffanella: a tightly closed matrix is satisfiable over the integers and each
    entry is the tightest implied bound (attained if finite, unbounded if infinite) -/
theorem C12.oct_tightClosed_is_tight (c : Oct n) (h : TightClosed c) (a b : Fin (2 * n)) :
    (∃ σ : Octagon.State n, c.sat (ext σ)) ∧
    (∀ d, c.get a b = some d → ∃ σ : Octagon.State n, c.sat (ext σ) ∧ ext σ a - ext σ b = d) ∧
    (c.get a b = none → ∀ B : Int, ∃ σ : Octagon.State n, c.sat (ext σ) ∧ B < ext σ a - ext σ b) :=
  ⟨tightClosed_sat c h, (tightClosed_attained c h a b).1, (tightClosed_attained c h a b).2⟩

theorem C12.oct_assume_exact (o : Oct n) (c : Octagon.Cst n) (σ : Octagon.State n) :
    γ (assumeCst o c) σ ↔ (γ o σ ∧ c.sat σ) := Octagon.assumeCst_exact o c σ

theorem C12.oct_assumeAll_exact (cs : List (Octagon.Cst n)) (σ : Octagon.State n) :
    γ (assumeAll (Octagon.top : Oct n) cs) σ ↔ ∀ c ∈ cs, c.sat σ := by
  rw [Octagon.assumeAll_exact]
  exact ⟨fun h => h.2, fun h => ⟨Octagon.top_γ σ, h⟩⟩

/-- the full exactness statement for integer octagons (the stretch goal of the design) -/
def C12.oct_exact_Statement : Prop :=
  ∀ (n : Nat) (o : Oct n), Coherent o →
    (isBottom o = true ↔ ¬ ∃ σ, γ o σ) ∧
    (∀ c : Octagon.Cst n, entails o c = true ↔ ∀ σ, γ o σ → c.sat σ) ∧
    (∀ σ, γ o σ → ∀ x, Itv.mem (σ x) (bounds o x)) ∧
    (isBottom o = false → ∀ x,
      (∀ k, (bounds o x).ub = .fin k → ∃ σ, γ o σ ∧ σ x = k) ∧
      (∀ k, (bounds o x).lb = .fin k → ∃ σ, γ o σ ∧ σ x = k) ∧
      ((bounds o x).ub = .pinf → ∀ B : Int, ∃ σ, γ o σ ∧ B < σ x) ∧
      ((bounds o x).lb = .ninf → ∀ B : Int, ∃ σ, γ o σ ∧ σ x < B))

/-- ... proved in full (tight-closure completeness over the integers) -/
theorem C12.oct_exact : C12.oct_exact_Statement := fun _ o hco =>
  ⟨Octagon.bottom_iff_unsat o hco, fun c => Octagon.entails_iff_implied o hco c,
   fun σ h x => Octagon.bounds_sound o σ h x, fun hb x => Octagon.bounds_tight o hco hb x⟩

/-- the soundness half needs no coherence (kept under the name announced in the design) -/
theorem C12.oct_exact_partial (o : Oct n) :
    (isBottom o = true → ¬ ∃ σ, γ o σ) ∧
    (∀ c : Octagon.Cst n, entails o c = true → ∀ σ, γ o σ → c.sat σ) ∧
    (∀ σ, γ o σ → ∀ x, Itv.mem (σ x) (bounds o x)) :=
  ⟨fun h => Octagon.bottom_sound o h, fun c h σ hσ => Octagon.entails_sound o c h σ hσ,
   fun σ h x => Octagon.bounds_sound o σ h x⟩

theorem C12.oct_join_upper (a b : Oct n) (σ : Octagon.State n) (h : γ a σ ∨ γ b σ) : γ (join a b) σ :=
  Octagon.join_upper a b σ h

theorem C12.oct_join_least (a b c : Oct n) (hca : Coherent a) (hcb : Coherent b)
    (ha : ∀ σ, γ a σ → γ c σ) (hb : ∀ σ, γ b σ → γ c σ) (σ : Octagon.State n) (h : γ (join a b) σ) : γ c σ :=
  Octagon.join_least a b c hca hcb ha hb σ h

theorem C12.oct_meet_exact (a b : Oct n) (σ : Octagon.State n) : γ (meet a b) σ ↔ (γ a σ ∧ γ b σ) :=
  Octagon.meet_exact a b σ

theorem C12.oct_forget_exact (o : Oct n) (hco : Coherent o) (x : Fin n) (σ : Octagon.State n) :
    γ (forget o x) σ ↔ ∃ t, γ o (Octagon.updS σ x t) := Octagon.forget_exact o hco x σ

theorem C12.oct_leq_iff (a b : Oct n) (hca : Coherent a) : leq a b = true ↔ ∀ σ, γ a σ → γ b σ :=
  Octagon.leq_iff a b hca

/-- non-vacuity: the parity contradiction `x + y ≤ 1 ∧ x - y ≤ 0 ∧ -x - y ≤ -1 ∧ y - x ≤ 0`
    (`2x = 1`) is bottom only thanks to the integer tightening; `2x ≤ 1` alone gives `x ≤ 0` -/
example : isBottom (assumeAll (Octagon.top : Oct 2) [.sum 0 1 1, .diff 0 1 0, .nsum 0 1 (-1), .diff 1 0 0]) = true := by decide
example : isBottom (assumeAll (Octagon.top : Oct 2) [.sum 0 1 1, .diff 0 1 0]) = false := by decide
example : bounds (assumeAll (Octagon.top : Oct 2) [.sum 0 1 1, .diff 0 1 0]) 0 = ⟨.ninf, .fin 0⟩ := by decide

end Octagons

/-! ## The integer tightening of `split_oct_domain` as coded (genuine defect, found by `h_exact`)

`split_oct.hpp: integer_tightening()` rounds the odd unary weight through a 32-bit `float`.  The
exactness (and soundness) of the real octagon domain therefore only holds for unary weights below
`2^24`; above, the bound is rounded to a multiple of the float ulp — upwards (imprecise) or
downwards (UNSOUND: integer solutions are cut off). -/
section TightenCoded
open Crab.Octagon

/-- what `C12` needs from the coded tightening -/
def C12.oct_tighten_coded_Statement : Prop := ∀ w : Int, tightenCoded w = tightenExact w

/-- it holds while the weight fits the float significand ... -/
theorem C12.oct_tighten_coded_partial (w : Int) (h : w.natAbs < 2 ^ 24) : tightenCoded w = tightenExact w := by
  simp [tightenCoded, tightenExact, f32round, h]

/-- ... and fails above: `x - y ≤ 0 ∧ x + y ≤ 67108867` gives `2x ≤ 67108867`, coded tightening
    yields `2x ≤ 67108864`, i.e. `x ≤ 33554432`, although `x = y = 33554433` is a solution -/
theorem C12.oct_tighten_coded_counterexample : ¬ C12.oct_tighten_coded_Statement := by
  intro h
  have := h 67108867
  revert this
  decide

theorem C12.oct_tighten_coded_unsound_witness :
    let x : Int := 33554433; let y : Int := 33554433
    x - y ≤ 0 ∧ x + y ≤ 67108867 ∧ ¬ (2 * x ≤ tightenCoded 67108867) := by decide

/-- and rounding upwards loses precision: `2x ≤ 17999999` becomes `2x ≤ 18000000` -/
theorem C12.oct_tighten_coded_imprecise_witness : tightenCoded 17999999 = 18000000 ∧ tightenExact 17999999 = 17999998 := by
  decide

example : tightenCoded 7 = 6 ∧ tightenCoded (-7) = -8 := by decide

end TightenCoded
