import CrabProofs.Lemmas.XDomCstInst
import CrabProofs.Props.C03

/-!
# C03 for `constant_domain<z_number>` — every operation is sound, proved on the exact model

`Crab.CDom` (CrabModel/Dom/ConstantDomain.lean + Dom/NonRelEnv.lean) is the branch-by-branch
model of `crab::domains::constant_domain<z_number, VariableName>` over the existing model of
`separate_domain` (`SepDom`, Patricia tree) and of `constant<z_number>` (`Crab.Cst`); it is tied to
the real code by the exact correspondence `xdom` (harness/h_cdom.cpp -DXDOM=1,
Driver/XDomH.lean: every binding after every operation of random histories).

Concretisation: `Env.γ e σ := e.isBot = false ∧ ∀ x, σ x ∈ γ(e.at(x))` over integer valuations.

Hypotheses that appear below:
 * `e.Inv`: the invariant of `separate_domain` (well-formed Patricia tree with keys `< 2^64`, no
   stored bottom or top, empty tree when bottom); it holds of top and bottom and is preserved by
   every operation (`C03.cstdom_stmt_inv`, `C03.cstdom_lattice_inv`, `C03.cstdom_history_inv`);
 * `x < 2^64` for the variables an operation writes: a variable is its `index_t = uint64_t` index;
 * `CstOk c`: the expression of the constraint is canonical (sorted variables, no zero
   coefficient: the invariant of the class `linear_expression`) over such variables.
-/
open Crab Crab.CDom Crab.XDom Crab.Lin

/-! ### transformers -/

/-- `set_constant(x, c)`: `x` receives any member of `c` -/
theorem C03.cstdom_set_sound (e : Env) (he : e.Inv) (σ : State) (x : Var) (hx : x < 2 ^ 64) (c : Crab.Cst) (n : Int)
    (hg : e.γ σ) (hn : Crab.Cst.mem n c) : (e.set x c).γ (upd σ x n) := Env.set_sound he hg hx hn

/-- `eval(expr)` contains the value of the expression in every state of `γ` -/
theorem C03.cstdom_eval_sound (e : Env) (σ : State) (ex : Expr) (hg : e.γ σ) :
    Crab.Cst.mem (ex.eval σ) (e.eval ex) := Env.eval_sound hg ex

/-- `assign(x, e)`, including the single-variable shortcut -/
theorem C03.cstdom_assign_sound (e : Env) (he : e.Inv) (σ : State) (x : Var) (hx : x < 2 ^ 64) (ex : Expr)
    (hg : e.γ σ) : (e.assign x ex).γ (upd σ x (ex.eval σ)) := Env.assign_sound he hg hx ex

/-- `weak_assign(x, e)`: both the old state and the updated state are described -/
theorem C03.cstdom_weak_assign_sound (e : Env) (he : e.Inv) (σ : State) (x : Var) (hx : x < 2 ^ 64) (ex : Expr)
    (hg : e.γ σ) : (e.weakAssign x ex).γ σ ∧ (e.weakAssign x ex).γ (upd σ x (ex.eval σ)) :=
  Env.weakAssign_sound he hg hx ex

/-- `apply(arith op, x, y, z)` for every arithmetic operation (`ArithOp.conc` is the operation on
    mathematical integers; no successor for a division by zero) -/
theorem C03.cstdom_apply_arith_var_sound (e : Env) (he : e.Inv) (σ : State) (op : ArithOp) (x y z : Var)
    (hx : x < 2 ^ 64) (c : Int) (hg : e.γ σ) (hc : op.conc (σ y) (σ z) = some c) :
    (e.applyVar op x y z).γ (upd σ x c) := Env.applyVar_sound he hg op hx y z hc

/-- `apply(arith op, x, y, k)` -/
theorem C03.cstdom_apply_arith_cst_sound (e : Env) (he : e.Inv) (σ : State) (op : ArithOp) (x y : Var)
    (hx : x < 2 ^ 64) (k c : Int) (hg : e.γ σ) (hc : op.conc (σ y) k = some c) :
    (e.applyCst op x y k).γ (upd σ x c) := Env.applyCst_sound he hg op hx y k hc

/-- `apply(bitwise op, x, y, z)`; the concrete shifts are defined for amounts in `[0, 2^64)`
    (`BitOp.conc`: `z_number` shifts by `mpz_get_ui` of the amount, known finding F22) -/
theorem C03.cstdom_apply_bitwise_var_sound (e : Env) (he : e.Inv) (σ : State) (op : BitOp) (x y z : Var)
    (hx : x < 2 ^ 64) (c : Int) (hg : e.γ σ) (hc : op.conc (σ y) (σ z) = some c) :
    (e.applyBitVar op x y z).γ (upd σ x c) := Env.applyBitVar_sound he hg op hx y z hc

/-- `apply(bitwise op, x, y, k)` -/
theorem C03.cstdom_apply_bitwise_cst_sound (e : Env) (he : e.Inv) (σ : State) (op : BitOp) (x y : Var)
    (hx : x < 2 ^ 64) (k c : Int) (hg : e.γ σ) (hc : op.conc (σ y) k = some c) :
    (e.applyBitCst op x y k).γ (upd σ x c) := Env.applyBitCst_sound he hg op hx y k hc

/-- `propagate(cst)`: the constraint solving of the class for one constraint -/
theorem C03.cstdom_propagate_sound (e : Env) (he : e.Inv) (σ : State) (c : Lin.Cst) (hc : CstOk c)
    (hg : e.γ σ) (hsat : c.sat σ) : (e.propagate c).γ σ := Env.propagate_sound he hg hc hsat

/-- `operator+=(csts)` (`solve_constraints`): every state of `γ` that satisfies the system is kept -/
theorem C03.cstdom_assume_sound (e : Env) (he : e.Inv) (σ : State) (csts : Sys) (hc : ∀ c ∈ csts, CstOk c)
    (hg : e.γ σ) (hsat : Sys.sat csts σ) : (e.add csts).γ σ := Env.add_sound he hg hc hsat

/-- `select(lhs, cond, e1, e2)` -/
theorem C03.cstdom_select_sound (e : Env) (he : e.Inv) (σ : State) (lhs : Var) (hx : lhs < 2 ^ 64)
    (cond : Lin.Cst) (e1 e2 : Expr) (hc : CstOk cond) (hg : e.γ σ) :
    (e.select lhs cond e1 e2).γ (upd σ lhs (if cond.sat σ then e1.eval σ else e2.eval σ)) :=
  Env.select_sound he hg hx hc e1 e2

/-- `operator-=(x)` -/
theorem C03.cstdom_forget_sound (e : Env) (he : e.Inv) (σ : State) (x : Var) (hx : x < 2 ^ 64) (n : Int)
    (hg : e.γ σ) : Env.γ (XDom.Env.forget cstLattice e x) (upd σ x n) :=
  XDom.Env.forget_sound cstLaws he hg hx n

/-- `forget(variables)`: the state may change on the forgotten variables only -/
theorem C03.cstdom_forget_vector_sound (e : Env) (he : e.Inv) (σ σ' : State) (vs : List Var)
    (hv : ∀ v ∈ vs, v < 2 ^ 64) (hg : e.γ σ) (h : ∀ y, y ∉ vs → σ' y = σ y) :
    Env.γ (XDom.Env.forgetAll cstLattice e vs) σ' := XDom.Env.forgetAll_sound cstLaws he hg hv h

/-- `project(variables)`, both branches of `separate_domain::project`: the state is kept on the
    projected variables only -/
theorem C03.cstdom_project_sound (e : Env) (he : e.Inv) (σ σ' : State) (vs : List Var)
    (hv : ∀ v ∈ vs, v < 2 ^ 64) (hg : e.γ σ) (h : ∀ y ∈ vs, σ' y = σ y) :
    Env.γ (XDom.Env.project cstLattice e vs) σ' := XDom.Env.project_sound cstLaws he hg hv h

/-- `expand(x, new_x)`: `new_x` receives any value the domain allows for `x` (in particular the
    value of `x`) -/
theorem C03.cstdom_expand_sound (e : Env) (he : e.Inv) (σ : State) (x nx : Var) (hnx : nx < 2 ^ 64) (n : Int)
    (hg : e.γ σ) (hn : Crab.Cst.mem n (e.get x)) : Env.γ (XDom.Env.expand cstLattice e x nx) (upd σ nx n) :=
  XDom.Env.expand_sound cstLaws he hg hnx hn

/-- `rename(from, to)` with distinct sources and distinct, fresh targets: `to[i]` receives the value
    of `from[i]`, the variables outside `from` and `to` keep theirs -/
theorem C03.cstdom_rename_sound (e e' : Env) (he : e.Inv) (σ σ' : State) (frm to : List Var) (hg : e.γ σ)
    (hr : XDom.Env.rename cstLattice e frm to = some e')
    (hf : ∀ v ∈ frm, v < 2 ^ 64) (ht : ∀ v ∈ to, v < 2 ^ 64) (hnf : frm.Nodup) (hnt : to.Nodup)
    (hdis : ∀ y ∈ to, y ∉ frm) (hfresh : ∀ y ∈ to, e.tree.lookup y = none)
    (hrel : ∀ p ∈ frm.zip to, σ' p.2 = σ p.1) (hout : ∀ y, y ∉ frm → y ∉ to → σ' y = σ y) : e'.γ σ' :=
  XDom.Env.rename_sound cstLaws he hg hr hf ht hnf hnt hdis hfresh hrel hout

/-- `rename` raises CRAB_ERROR exactly on vectors of different lengths (unless nothing is to do) -/
theorem C03.cstdom_rename_defined (e : Env) (frm to : List Var) :
    (XDom.Env.rename cstLattice e frm to).isSome =
      (e.isBot || SepDom.isTop e || decide (frm.length = to.length)) := by
  unfold XDom.Env.rename SepDom.rename
  cases hb : e.isBot
  · simp only [Bool.false_eq_true, if_false, Bool.false_or, Bool.or_false]
    split
    · rename_i h; simp [h]
    · rename_i h
      split
      · rename_i h2; simp at h2; simp [h, h2]
      · rename_i h2; simp at h2; simp [h2]
  · simp

/-- integer casts between integer variables (`assign`, plus `dst <= 2^bw - 1` for `zext`) -/
theorem C03.cstdom_cast_sound (e : Env) (he : e.Inv) (σ : State) (zext : Bool) (bw : Nat) (dst src : Var)
    (hd : dst < 2 ^ 64) (hg : e.γ σ) (hz : zext = true → σ src ≤ 2 ^ bw - 1) :
    (e.intCast zext bw dst src).γ (upd σ dst (σ src)) := Env.intCast_sound he hg zext bw hd src hz

/-! ### exported facts -/

/-- `to_linear_constraint_system()` holds in every state of `γ`, and has no solution for bottom -/
theorem C03.cstdom_to_csts_sound (e : Env) (he : e.Inv) (σ : State) (hg : e.γ σ) : Sys.sat e.toCsts σ :=
  Env.toCsts_sound he hg

theorem C03.cstdom_to_csts_bottom (e : Env) (σ : State) (h : e.isBot = true) : ¬ Sys.sat e.toCsts σ :=
  XDom.Env.exportCsts_bot _ h σ

/-- `at(v)` / `operator[](v)` contains the value of `v` in every state of `γ` -/
theorem C03.cstdom_at_sound (e : Env) (σ : State) (x : Var) (hg : e.γ σ) : Itv.mem (σ x) (e.atItv x) :=
  Env.atItv_sound hg x

/-! ### the invariant of `separate_domain` is maintained -/

theorem C03.cstdom_top_bot_inv : CDom.Env.top.Inv ∧ CDom.Env.bot.Inv := ⟨CDom.Env.inv_top, CDom.Env.inv_bot⟩

/-- every statement keeps the invariant -/
theorem C03.cstdom_stmt_inv (st : Stmt) (hok : st.Ok) (a : Env) (h : a.Inv) : (exec st a).Inv := exec_inv st hok h

/-- so do `set`, `rename` and the lattice operations -/
theorem C03.cstdom_set_inv (e : Env) (he : e.Inv) (x : Var) (hx : x < 2 ^ 64) (c : Crab.Cst) : (e.set x c).Inv :=
  Env.set_inv he hx c

theorem C03.cstdom_rename_inv (e e' : Env) (he : e.Inv) (frm to : List Var)
    (hr : XDom.Env.rename cstLattice e frm to = some e') (hf : ∀ v ∈ frm, v < 2 ^ 64) (ht : ∀ v ∈ to, v < 2 ^ 64) :
    e'.Inv := XDom.Env.rename_inv cstLaws he hr hf ht

theorem C03.cstdom_lattice_inv (a b : Env) (ha : a.Inv) (hb : b.Inv) :
    Env.Inv (XDom.Env.join cstLattice a b) ∧ Env.Inv (XDom.Env.meet cstLattice a b) ∧
    Env.Inv (XDom.Env.widen cstLattice a b) ∧ Env.Inv (XDom.Env.narrow cstLattice a b) :=
  ⟨XDom.Env.upper_inv cstLaws cstLaws.join ha hb, XDom.Env.lower_inv cstLaws cstLaws.meet ha hb,
   XDom.Env.upper_inv cstLaws cstLaws.widen ha hb, XDom.Env.lower_inv cstLaws cstLaws.narrow ha hb⟩

/-! ### the operations as steps of the generic history contract -/

/-- every statement (one call of `assign` / `weak_assign` / `apply` / `+=` / `select` / `-=` /
    `forget` / `project` / `expand` / cast) is a sound transformer step -/
theorem C03.cstdom_step_trans_sound (d : Nat) (st : Stmt) (hok : st.Ok) :
    (Dom.Step.trans d ⟨execS st hok, st.rel⟩ : Dom.Step SEnv State).Sound SEnv.γ :=
  fun a _ _ hg hr => exec_sound st hok a.2 hg hr

theorem C03.cstdom_step_join_sound (d a b : Nat) :
    (Dom.Step.upper d a b SEnv.join : Dom.Step SEnv State).Sound SEnv.γ :=
  fun x y _ h => XDom.Env.upper_sound cstLaws cstLaws.join x.2 y.2 h

/-- `operator||` and `widening_thresholds` (which ignores its thresholds) -/
theorem C03.cstdom_step_widen_sound (d a b : Nat) :
    (Dom.Step.upper d a b SEnv.widen : Dom.Step SEnv State).Sound SEnv.γ :=
  fun x y _ h => XDom.Env.upper_sound cstLaws cstLaws.widen x.2 y.2 h

theorem C03.cstdom_step_meet_sound (d a b : Nat) :
    (Dom.Step.lower d a b SEnv.meet : Dom.Step SEnv State).Sound SEnv.γ :=
  fun x y _ h1 h2 => XDom.Env.lower_sound cstLaws cstLaws.meet x.2 y.2 h1 h2

theorem C03.cstdom_step_narrow_sound (d a b : Nat) :
    (Dom.Step.lower d a b SEnv.narrow : Dom.Step SEnv State).Sound SEnv.γ :=
  fun x y _ h1 h2 => XDom.Env.lower_sound cstLaws cstLaws.narrow x.2 y.2 h1 h2

/-- the steps an operation history of the constant domain is made of -/
inductive C03.CstdomStep : Dom.Step SEnv State → Prop
  | trans (d : Nat) (st : Stmt) (hok : st.Ok) : C03.CstdomStep (.trans d ⟨execS st hok, st.rel⟩)
  | join (d a b : Nat) : C03.CstdomStep (.upper d a b SEnv.join)
  | widen (d a b : Nat) : C03.CstdomStep (.upper d a b SEnv.widen)
  | meet (d a b : Nat) : C03.CstdomStep (.lower d a b SEnv.meet)
  | narrow (d a b : Nat) : C03.CstdomStep (.lower d a b SEnv.narrow)
  | copy (d s : Nat) : C03.CstdomStep (.copy d s)
  | setBot (d : Nat) : C03.CstdomStep (.setBot d SEnv.bot)

theorem C03.cstdom_step_sound (st : Dom.Step SEnv State) (h : C03.CstdomStep st) : st.Sound SEnv.γ := by
  cases h with
  | trans d s hok => exact C03.cstdom_step_trans_sound d s hok
  | join d a b => exact C03.cstdom_step_join_sound d a b
  | widen d a b => exact C03.cstdom_step_widen_sound d a b
  | meet d a b => exact C03.cstdom_step_meet_sound d a b
  | narrow d a b => exact C03.cstdom_step_narrow_sound d a b
  | copy d s => trivial
  | setBot d => trivial

/-- **C03 for the constant domain**: after ANY history of its operations over a pool of values,
    every slot contains the collecting semantics of the history (instance of `C03.history_sound`) -/
theorem C03.cstdom_history_sound (hist : List (Dom.Step SEnv State)) (hs : ∀ st ∈ hist, C03.CstdomStep st)
    (p : Dom.Pool SEnv) (c : Dom.CPool State) (h : ∀ i s, c i s → (p i).γ s) :
    ∀ i s, (Dom.collHist c hist) i s → ((Dom.runHist p hist) i).γ s :=
  C03.history_sound SEnv.γ hist (fun st hst => C03.cstdom_step_sound st (hs st hst)) p c h

/-- a slot whose collecting semantics is inhabited is never reported bottom -/
theorem C03.cstdom_not_bottom_if_inhabited (hist : List (Dom.Step SEnv State))
    (hs : ∀ st ∈ hist, C03.CstdomStep st) (p : Dom.Pool SEnv) (c : Dom.CPool State)
    (h : ∀ i s, c i s → (p i).γ s) (i : Nat) (s : State) (hc : (Dom.collHist c hist) i s) :
    ((Dom.runHist p hist) i).1.isBot = false := (C03.cstdom_history_sound hist hs p c h i s hc).1

/-- the invariant holds of every slot after any history: the values are subtypes carrying it -/
theorem C03.cstdom_history_inv (hist : List (Dom.Step SEnv State)) (p : Dom.Pool SEnv) (i : Nat) :
    ((Dom.runHist p hist) i).1.Inv := ((Dom.runHist p hist) i).2

/-! ### non-vacuity -/

/-- `x := 3; assume x + y = 5; z := x * y` from top gives exactly the expected bindings, and the
    described state satisfies `γ` -/
example :
    let e := exec (.arithVar .mul 2 0 1) (exec (.assume [⟨⟨[(0, 1), (1, 1)], -5⟩, .eq⟩]) (exec (.assign 0 (Expr.const 3)) CDom.Env.top))
    XDom.Env.bindings e = [(0, .val 3), (1, .val 2), (2, .val 6)] ∧ e.toCsts.length = 3 := by decide

example : Stmt.Ok (.assume [⟨⟨[(0, 1), (1, 1)], -5⟩, .eq⟩]) := by
  intro c hc
  simp only [List.mem_cons, List.not_mem_nil, or_false] at hc
  subst hc
  exact ⟨by decide, by intro p hp; simp at hp; rcases hp with h | h <;> subst h <;> decide⟩

example : CDom.Env.γ (CDom.Env.top.set 0 (.val 3)) (fun _ => 3) :=
  CDom.Env.set_sound_same CDom.Env.inv_top (XDom.Env.γ_top cstLaws _) (by decide) rfl
