import CrabProofs.Lemmas.FunctorProductLat
import CrabProofs.Lemmas.FunctorPowersetOps
import CrabProofs.Lemmas.FunctorHistory
import CrabProofs.Lemmas.FunctorInst
import CrabProofs.Lemmas.FunctorPackingBin3

/-!
# C04 for the domain COMBINATORS — inclusion test and lattice operations vs. concretisation

Functor models: `Crab.Dom.Fct.Prod2` (combined_domains.hpp), `Crab.Dom.Fct.PSet`
(powerset_domain.hpp), `Crab.Dom.Fct.PK` (numerical_packing.hpp, second half of the file), over an
arbitrary base `LDom S`.  Each theorem names the base laws it uses as hypotheses
(`LDom.LeqRefl`, `LeqTop`, `TopSound`, `MeetLower`, ...): soundness laws are fields of `LDom`,
precision laws are not.

Anchor mechanism "component-wise order and canonical bottom in products":
* a yes of `operator<=` is an inclusion (`product_leq_sound`), it is reflexive, bottom is below
  and top above everything;
* `canonicalize()` keeps the meaning, sets the flag exactly when the flag or a component test says
  bottom, and then stores THE bottom triple (`product_canonical_bottom`);
* completeness fails by design: the order is component-wise and nothing re-reduces the pair, so
  an empty meet of two non-bottom components is not bottom (`product_is_bottom_incomplete`) and
  equal concretisations can be incomparable (`product_leq_incomplete`);
* `is_top()` and the early returns of `&` / `&&` do not read `m_is_bottom`; they are right on
  values where a set flag implies empty components (`Prod2.WF`, an invariant of every operation as
  long as the component transformers map empty values to empty values: `product_wf_history`).
-/
open Crab Crab.Dom Crab.Dom.Fct

/-! ## products -/

/-- a yes answer of `operator<=` is an inclusion of concretisations -/
theorem C04.product_leq_sound {S : Type} {D1 D2 : LDom S} (p q : Prod2 D1 D2) (s : S)
    (h : Prod2.leq p q = true) (hg : p.γ s) : q.γ s := Prod2.leq_sound h hg

theorem C04.product_leq_refl {S : Type} {D1 D2 : LDom S} (h1 : D1.LeqRefl) (h2 : D2.LeqRefl)
    (p : Prod2 D1 D2) : Prod2.leq p p = true := Prod2.leq_refl h1 h2 p

/-- every value that `is_bottom()` recognises is below everything; `make_bottom()` is such a value
    as soon as one component recognises its own bottom, and it is empty in any case -/
theorem C04.product_bot_le {S : Type} {D1 D2 : LDom S} (p q : Prod2 D1 D2) (h : p.isBottom = true) :
    Prod2.leq p q = true := Prod2.leq_of_isBottom h q

theorem C04.product_make_bottom {S : Type} {D1 D2 : LDom S} (h : D1.BotIsBot ∨ D2.BotIsBot) :
    (Prod2.bottom : Prod2 D1 D2).isBottom = true ∧ ∀ s, ¬ (Prod2.bottom : Prod2 D1 D2).γ s :=
  ⟨Prod2.isBottom_bottom h, Prod2.not_γ_bottom⟩

theorem C04.product_le_top {S : Type} {D1 D2 : LDom S} (h1 : D1.TopNotBot) (h2 : D2.TopNotBot)
    (l1 : D1.LeqTop) (l2 : D2.LeqTop) (p : Prod2 D1 D2) : Prod2.leq p Prod2.top = true :=
  Prod2.leq_top h1 h2 l1 l2 p

theorem C04.product_make_top {S : Type} {D1 D2 : LDom S} (h1 : D1.TopNotBot) (h2 : D2.TopNotBot)
    (t1 : D1.TopIsTop) (t2 : D2.TopIsTop) :
    (Prod2.top : Prod2 D1 D2).isTop = true ∧ (Prod2.top : Prod2 D1 D2).isBottom = false ∧
      ∀ s, (Prod2.top : Prod2 D1 D2).γ s :=
  ⟨(Prod2.isTop_top h1 h2 t1 t2).1, (Prod2.isTop_top h1 h2 t1 t2).2, Prod2.γ_top⟩

/-- `|`, `|=` and every widening built from upper bounds of the components are upper bounds -/
theorem C04.product_join_upper {S : Type} {D1 D2 : LDom S} (p q : Prod2 D1 D2) (s : S) (h : p.γ s ∨ q.γ s) :
    (Prod2.join p q).γ s ∧ (Prod2.joinEq p q).γ s ∧ (Prod2.widen p q).γ s :=
  ⟨Prod2.join_sound h, Prod2.joinEq_sound h, Prod2.widenWith_sound D1.uSound_widen D2.uSound_widen h⟩

/-- `&` is a lower bound (on well-formed values, for components whose meet is one) -/
theorem C04.product_meet_lower {S : Type} {D1 D2 : LDom S} (m1 : D1.MeetLower) (m2 : D2.MeetLower)
    (t1 : D1.TopSound) (t2 : D2.TopSound) (p q : Prod2 D1 D2) (hp : p.WF) (hq : q.WF) (s : S)
    (h : (Prod2.meet p q).γ s) : p.γ s ∧ q.γ s := Prod2.meet_lower m1 m2 t1 t2 hp hq h

/-- ... hence exact -/
theorem C04.product_meet_iff {S : Type} {D1 D2 : LDom S} (m1 : D1.MeetLower) (m2 : D2.MeetLower)
    (t1 : D1.TopSound) (t2 : D2.TopSound) (p q : Prod2 D1 D2) (hp : p.WF) (hq : q.WF) (s : S) :
    (Prod2.meet p q).γ s ↔ (p.γ s ∧ q.γ s) :=
  ⟨Prod2.meet_lower m1 m2 t1 t2 hp hq, fun h => Prod2.meet_sound h.1 h.2⟩

theorem C04.product_narrow_lower {S : Type} {D1 D2 : LDom S} (n1 : D1.NarrowLower) (n2 : D2.NarrowLower)
    (t1 : D1.TopSound) (t2 : D2.TopSound) (p q : Prod2 D1 D2) (hp : p.WF) (s : S)
    (h : (Prod2.narrow p q).γ s) : p.γ s := Prod2.narrow_lower n1 n2 t1 t2 hp h

theorem C04.product_is_bottom_sound {S : Type} {D1 D2 : LDom S} (p : Prod2 D1 D2) (s : S)
    (h : p.isBottom = true) : ¬ p.γ s := Prod2.not_γ_of_isBottom h s

theorem C04.product_is_top_sound {S : Type} {D1 D2 : LDom S} (t1 : D1.TopSound) (t2 : D2.TopSound)
    (p : Prod2 D1 D2) (hw : p.WF) (s : S) (h : p.isTop = true) : p.γ s := Prod2.γ_of_isTop t1 t2 hw h s

/-- **canonical bottom**: `canonicalize()` keeps the meaning; afterwards the flag is set iff it was
    set or a component is recognised as bottom; a bottom component of an unflagged value makes the
    whole value the bottom triple; a second call changes nothing. -/
theorem C04.product_canonical_bottom {S : Type} {D1 D2 : LDom S} (p : Prod2 D1 D2) :
    (∀ s, p.canonicalize.γ s ↔ p.γ s) ∧
    p.canonicalize.isBot = p.isBottom ∧
    (p.isBot = false → (D1.isBot p.fst = true ∨ D2.isBot p.snd = true) →
      p.canonicalize = ⟨true, D1.bot, D2.bot⟩) ∧
    p.canonicalize.canonicalize = p.canonicalize :=
  ⟨Prod2.γ_canonicalize p, Prod2.canonicalize_isBottom p, Prod2.canonicalize_of_component_bottom,
   Prod2.canonicalize_idem p⟩

/-- every constructor and lattice operation yields a well-formed value; a transformer keeps
    well-formedness when the component transformers are strict -/
theorem C04.product_wf_step {S V : Type} {D1 D2 : LDom S} (P : Prod2.NParams)
    (red : V → D1.B → D2.B → D1.B × D2.B) (op : Prod2.Op D1 D2 V)
    (hop : match op with
      | .meth _ _ f1 f2 _ => D1.Strict f1 ∧ D2.Strict f2
      | .nmeth _ _ f1 f2 _ _ => D1.Strict f1 ∧ D2.Strict f2
      | _ => True) : Step.Preserves Prod2.WF (op.toStep P red) := by
  cases op with
  | meth d m f1 f2 r => exact fun a ha => Prod2.wf_op m hop.1 hop.2 ha
  | nmeth d m f1 f2 vs r => exact fun a ha => Prod2.wf_nop P red m hop.1 hop.2 vs ha
  | join d a b => exact fun a b ha hb => Prod2.wf_join ha hb
  | joinEq d a b => exact fun a b ha hb => Prod2.wf_joinEq ha hb
  | meet d a b => exact fun a b ha hb => Prod2.wf_meet ha hb
  | meetEq d a b => exact fun a b ha hb => Prod2.wf_meetEq ha hb
  | widen d a b w1 w2 => exact fun a b _ _ => Prod2.wf_widenWith w1 w2 a b
  | narrow d a b => exact fun a b ha hb => Prod2.wf_narrow ha hb
  | copy d s => trivial
  | setTop d => exact fun _ _ => Prod2.wf_top
  | setBottom d => exact Prod2.wf_bottom

theorem C04.product_wf_history {S V : Type} {D1 D2 : LDom S} (P : Prod2.NParams)
    (red : V → D1.B → D2.B → D1.B × D2.B) (ops : List (Prod2.Op D1 D2 V))
    (hops : ∀ op ∈ ops, match op with
      | .meth _ _ f1 f2 _ => D1.Strict f1 ∧ D2.Strict f2
      | .nmeth _ _ f1 f2 _ _ => D1.Strict f1 ∧ D2.Strict f2
      | _ => True)
    (p : Pool (Prod2 D1 D2)) (h0 : ∀ i, (p i).WF) : ∀ i, (runHist p (Prod2.toHist P red ops) i).WF := by
  apply runHist_preserves Prod2.WF _ _ p h0
  intro st hst
  simp only [Prod2.toHist, List.mem_map] at hst
  obtain ⟨op, hop, rfl⟩ := hst
  exact C04.product_wf_step P red op (hops op hop)

/-! ### completeness fails by design -/

/-- "every value without states is recognised by `is_bottom()`" -/
def C04.product_is_bottom_complete_Statement : Prop :=
  ∀ (S : Type) (D1 D2 : LDom S) (p : Prod2 D1 D2), (∀ s, ¬ p.γ s) → p.isBottom = true

/-- it holds when the emptiness is visible in the flag or in ONE component whose own test is exact -/
theorem C04.product_is_bottom_complete_partial {S : Type} {D1 D2 : LDom S} (c1 : D1.BotComplete)
    (c2 : D2.BotComplete) (p : Prod2 D1 D2)
    (h : p.isBot = true ∨ (∀ s, ¬ D1.γ p.fst s) ∨ (∀ s, ¬ D2.γ p.snd s)) : p.isBottom = true := by
  unfold Prod2.isBottom
  rcases h with h | h | h
  · simp [h]
  · simp [c1 _ h]
  · simp [c2 _ h]

/-- x = 1 ∧ x ≡ 0 (mod 2) has no state, neither component is bottom -/
theorem C04.product_is_bottom_incomplete :
    ∃ p : Prod2 itvDom congDom, (∀ s, ¬ p.γ s) ∧ p.isBottom = false := by
  refine ⟨Prod2.mk' (WItv.mk 1 1) (Cong.mk' 2 0), ?_, by decide⟩
  intro s hs
  rw [Prod2.γ_mk'] at hs
  have h1 : s = 1 := (Itv.mem_single s 1).1 hs.1
  have h2 : (2 : Int) ∣ s - 0 := (Cong.mem_mk' s 2 0).1 hs.2
  subst h1
  omega

theorem C04.product_is_bottom_complete_counterexample : ¬ C04.product_is_bottom_complete_Statement := by
  intro h
  obtain ⟨p, hp, hb⟩ := C04.product_is_bottom_incomplete
  rw [h Int itvDom congDom p hp] at hb
  exact absurd hb (by decide)

/-- "an inclusion of concretisations is answered yes" -/
def C04.product_leq_complete_Statement : Prop :=
  ∀ (S : Type) (D1 D2 : LDom S) (p q : Prod2 D1 D2), (∀ s, p.γ s → q.γ s) → Prod2.leq p q = true

/-- `([0,1], 0 mod 2)` and `([0,0], top)` both describe exactly {0}; neither is `<=` the other:
    `[0,1] <= [0,0]` and `top <= 0 mod 2` fail component-wise -/
theorem C04.product_leq_incomplete :
    ∃ p q : Prod2 itvDom congDom, (∀ s, p.γ s ↔ s = 0) ∧ (∀ s, q.γ s ↔ s = 0) ∧
      Prod2.leq p q = false ∧ Prod2.leq q p = false := by
  refine ⟨Prod2.mk' (WItv.mk 0 1) (Cong.mk' 2 0), Prod2.mk' (WItv.mk 0 0) Cong.top, ?_, ?_, by decide, by decide⟩
  · intro s
    rw [Prod2.γ_mk']
    constructor
    · rintro ⟨h1, h2⟩
      have h1 : Itv.mem s ⟨.fin 0, .fin 1⟩ := h1
      have h2 : (2 : Int) ∣ s - 0 := (Cong.mem_mk' s 2 0).1 h2
      simp only [Itv.mem, Bound.le, decide_eq_true_eq] at h1
      omega
    · rintro rfl
      exact ⟨show Itv.mem 0 _ by decide, (Cong.mem_mk' 0 2 0).2 (by decide)⟩
  · intro s
    rw [Prod2.γ_mk']
    constructor
    · rintro ⟨h1, _⟩
      exact (Itv.mem_single s 0).1 h1
    · rintro rfl
      exact ⟨show Itv.mem 0 _ by decide, Cong.mem_top 0⟩

theorem C04.product_leq_complete_counterexample : ¬ C04.product_leq_complete_Statement := by
  intro h
  obtain ⟨p, q, hp, hq, hl, _⟩ := C04.product_leq_incomplete
  rw [h Int itvDom congDom p q (fun s hs => (hq s).2 ((hp s).1 hs))] at hl
  exact absurd hl (by decide)

/-- the order is complete when both component orders are and the left value is not empty in a
    way the components do not see: a partial converse of `product_leq_sound` -/
theorem C04.product_leq_complete_partial {S : Type} {D1 D2 : LDom S} (p q : Prod2 D1 D2)
    (h1 : D1.leq p.fst q.fst = true) (h2 : D2.leq p.snd q.snd = true) (hq : q.isBottom = false) :
    Prod2.leq p q = true := by
  unfold Prod2.leq
  cases hp : p.isBottom <;> simp [hq, h1, h2]

/-! ## powerset -/

theorem C04.powerset_leq_sound {S : Type} {D : LDom S} (t : D.TopSound) (a b : PSet D) (s : S)
    (h : PSet.leq a b = true) (hg : PSet.γ a s) : PSet.γ b s := PSet.leq_sound t h hg

theorem C04.powerset_leq_refl {S : Type} {D : LDom S} (hr : D.LeqRefl) (a : PSet D) : PSet.leq a a = true :=
  PSet.leq_refl hr a

theorem C04.powerset_bot_le {S : Type} {D : LDom S} (a b : PSet D) (h : PSet.isBottom a = true) :
    PSet.leq a b = true := PSet.leq_of_isBottom h b

theorem C04.powerset_le_top {S : Type} {D : LDom S} (ht : D.TopIsTop) (a : PSet D) : PSet.leq a PSet.top = true :=
  PSet.leq_top ht a

theorem C04.powerset_is_bottom_sound {S : Type} {D : LDom S} (a : PSet D) (s : S) (h : PSet.isBottom a = true) :
    ¬ PSet.γ a s := PSet.not_γ_of_isBottom h s

theorem C04.powerset_is_top_sound {S : Type} {D : LDom S} (t : D.TopSound) (a : PSet D) (s : S)
    (h : PSet.isTop a = true) : PSet.γ a s := PSet.γ_of_isTop t h s

/-- `make_top()` / `make_bottom()` (and the empty vector that `+=` can leave) -/
theorem C04.powerset_make_top_bottom {S : Type} {D : LDom S} :
    (∀ s, PSet.γ (PSet.top : PSet D) s) ∧ (∀ s, ¬ PSet.γ (PSet.bottom : PSet D) s) ∧
    (∀ s, ¬ PSet.γ ([] : PSet D) s) ∧ PSet.isBottom ([] : PSet D) = true ∧
    (D.BotIsBot → PSet.isBottom (PSet.bottom : PSet D) = true) ∧
    (D.TopIsTop → PSet.isTop (PSet.top : PSet D) = true) := by
  refine ⟨PSet.γ_top, PSet.not_γ_bottom, PSet.not_γ_nil, rfl, ?_, ?_⟩
  · intro h; have h' : D.isBot D.bot = true := h; simp [PSet.isBottom, PSet.bottom, h']
  · intro h; have h' : D.isTop D.top = true := h; simp [PSet.isTop, PSet.top, h']

theorem C04.powerset_join_upper {S : Type} {D : LDom S} (t : D.TopSound) (P : PParams) (a b : PSet D) (s : S)
    (h : PSet.γ a s ∨ PSet.γ b s) :
    PSet.γ (PSet.join P a b) s ∧ PSet.γ (PSet.joinEq P a b) s ∧ PSet.γ (PSet.widen a b) s :=
  ⟨PSet.join_sound t P h, PSet.joinEq_sound t P h, PSet.widenWith_sound D.uSound_widen h⟩

/-- "the meet is a lower bound" -/
def C04.powerset_meet_lower_Statement : Prop :=
  ∀ (S : Type) (D : LDom S), D.TopSound → D.MeetLower → ∀ (P : PParams) (a b : PSet D) (s : S),
    PSet.γ (PSet.meet P a b) s → PSet.γ a s ∧ PSet.γ b s

/-- it holds for the exact meet as long as the result is not smashed -/
theorem C04.powerset_meet_lower_partial {S : Type} {D : LDom S} (t : D.TopSound) (m : D.MeetLower) (P : PParams)
    (a b : PSet D) (hex : P.exactMeet = true)
    (hlen : (PSet.normalizeIfTop (PSet.meetPairs a b)).length ≤ P.maxDisjuncts) (s : S)
    (h : PSet.γ (PSet.meet P a b) s) : PSet.γ a s ∧ PSet.γ b s := by
  unfold PSet.meet at h
  rw [if_pos hex] at h
  exact PSet.meetWith_lower t m P hlen h

/-- by design it fails without `powerset_exact_meet`: `{[0,0],[2,2]} & {[1,1]}` is `{[1,1]}`
    (both operands are smashed first) -/
theorem C04.powerset_meet_lower_counterexample : ¬ C04.powerset_meet_lower_Statement := by
  intro h
  have := h Int itvDom itvDom_topSound itvDom_meetLower ⟨8, false⟩ [WItv.mk 0 0, WItv.mk 2 2] [WItv.mk 1 1] 1
    ⟨WItv.mk 1 1, by decide, show Itv.mem 1 _ by decide⟩
  obtain ⟨d, hd, hg⟩ := this.1
  simp only [List.mem_cons, List.mem_nil_iff, or_false] at hd
  rcases hd with rfl | rfl
  · exact absurd hg (show ¬ Itv.mem 1 _ by decide)
  · exact absurd hg (show ¬ Itv.mem 1 _ by decide)

/-- ... and with the exact meet when `max_disjuncts` forces a smash of the result -/
theorem C04.powerset_meet_lower_counterexample_smash :
    ∃ (a : PSet itvDom) (s : Int), PSet.γ (PSet.meet ⟨1, true⟩ a a) s ∧ ¬ PSet.γ a s := by
  refine ⟨[WItv.mk 0 0, WItv.mk 2 2], 1, ⟨WItv.mk 0 2, by decide, show Itv.mem 1 _ by decide⟩, ?_⟩
  rintro ⟨d, hd, hg⟩
  simp only [List.mem_cons, List.mem_nil_iff, or_false] at hd
  rcases hd with rfl | rfl
  · exact absurd hg (show ¬ Itv.mem 1 _ by decide)
  · exact absurd hg (show ¬ Itv.mem 1 _ by decide)

/-- "an inclusion of concretisations is answered yes": fails by design (a disjunct must fit in
    ONE disjunct of the right operand): `{[0,2]}` vs `{[0,1],[2,2]}` -/
def C04.powerset_leq_complete_Statement : Prop :=
  ∀ (S : Type) (D : LDom S) (a b : PSet D), (∀ s, PSet.γ a s → PSet.γ b s) → PSet.leq a b = true

theorem C04.powerset_leq_incomplete :
    ∃ a b : PSet itvDom, (∀ s, PSet.γ a s → PSet.γ b s) ∧ PSet.leq a b = false ∧ PSet.leq b a = true := by
  refine ⟨[WItv.mk 0 2], [WItv.mk 0 1, WItv.mk 2 2], ?_, by decide, by decide⟩
  rintro s ⟨d, hd, hg⟩
  simp only [List.mem_cons, List.mem_nil_iff, or_false] at hd
  subst hd
  have hg : Itv.mem s ⟨.fin 0, .fin 2⟩ := hg
  simp only [Itv.mem, Bound.le, decide_eq_true_eq] at hg
  by_cases h : s ≤ 1
  · refine ⟨WItv.mk 0 1, by simp, ?_⟩
    show Itv.mem s ⟨.fin 0, .fin 1⟩
    simp only [Itv.mem, Bound.le, decide_eq_true_eq]; omega
  · refine ⟨WItv.mk 2 2, by simp, ?_⟩
    show Itv.mem s ⟨.fin 2, .fin 2⟩
    simp only [Itv.mem, Bound.le, decide_eq_true_eq]; omega

theorem C04.powerset_leq_complete_counterexample : ¬ C04.powerset_leq_complete_Statement := by
  intro h
  obtain ⟨a, b, hab, hl, _⟩ := C04.powerset_leq_incomplete
  rw [h Int itvDom a b hab] at hl
  exact absurd hl (by decide)

/-- partial converse: when every non-bottom disjunct of the left fits in one disjunct of the right -/
theorem C04.powerset_leq_complete_partial {S : Type} {D : LDom S} (a b : PSet D)
    (h : ∀ x ∈ a, D.isBot x = true ∨ ∃ y ∈ b, D.leq x y = true) : PSet.leq a b = true := by
  unfold PSet.leq
  split
  · rfl
  · apply List.all_eq_true.2
    intro x hx
    rcases h x hx with h | ⟨y, hy, hl⟩
    · simp [h]
    · simp only [Bool.or_eq_true]; exact Or.inr (List.any_eq_true.2 ⟨y, hy, hl⟩)

/-! ## numerical packing -/

/-- a yes answer of `operator<=` (early tests, then `union_find_domain::operator<=`: every class
    of the right operand must contain the left class of each of its variables, with a smaller base
    value) is an inclusion of concretisations -/
theorem C04.packing_leq_sound {V : Type} [DecidableEq V] {N : NDom V} (t : N.TopSound) (a b : PK N) (hb : b.WF)
    (s : St V) (h : PK.leq a b = true) (hg : PK.γc a s) : PK.γc b s := PK.leq_sound t hb h hg

theorem C04.packing_leq_refl {V : Type} [DecidableEq V] {N : NDom V} (hr : N.LeqRefl) (a : PK N) (hw : a.WF) :
    PK.leq a a = true := PK.leq_refl hr hw

theorem C04.packing_bot_le {V : Type} [DecidableEq V] {N : NDom V} (a b : PK N) (h : PK.isBottom a = true) :
    PK.leq a b = true := PK.leq_of_isBottom h b

theorem C04.packing_le_top {V : Type} [DecidableEq V] {N : NDom V} (a : PK N) : PK.leq a PK.top = true :=
  PK.leq_top a

theorem C04.packing_is_bottom_sound {V : Type} [DecidableEq V] {N : NDom V} (a : PK N) (s : St V)
    (h : PK.isBottom a = true) : ¬ PK.γc a s := PK.not_γc_of_isBottom h s

theorem C04.packing_is_top_sound {V : Type} [DecidableEq V] {N : NDom V} (t : N.TopSound) (a : PK N) (s : St V)
    (h : PK.isTop a = true) : PK.γc a s := PK.γc_of_isTop t h s

/-- `make_top()` (the empty union-find) describes every state and is recognised -/
theorem C04.packing_make_top {V : Type} [DecidableEq V] {N : NDom V} :
    (∀ s, PK.γc (PK.top : PK N) s) ∧ PK.isTop (PK.top : PK N) = true ∧ PK.isBottom (PK.top : PK N) = false ∧
    PK.isBottom (PK.bot : PK N) = true := ⟨PK.γc_top, rfl, rfl, rfl⟩

/-- `|` / `||` are upper bounds, `&` / `&&` keep the common states (whenever a value is returned) -/
theorem C04.packing_join_upper {V : Type} [DecidableEq V] {N : NDom V} (t : N.TopSound) (a b : PK N) (ha : a.WF)
    (hb : b.WF) (res : PK N) (s : St V) (hs : PK.γc a s ∨ PK.γc b s) :
    (PK.joinWith N.join a b = some res → PK.γc res s) ∧ (PK.joinWith N.widen a b = some res → PK.γc res s) :=
  ⟨fun h => PK.joinWith_sound t N.uSound_join ha hb h hs, fun h => PK.joinWith_sound t N.uSound_widen ha hb h hs⟩

theorem C04.packing_meet_sound {V : Type} [DecidableEq V] {N : NDom V} (a b : PK N) (ha : a.WF) (hb : b.WF)
    (res : PK N) (s : St V) (hsa : PK.γc a s) (hsb : PK.γc b s) :
    (PK.meetWith N.meet a b = some res → PK.γc res s) ∧ (PK.meetWith N.narrow a b = some res → PK.γc res s) :=
  ⟨fun h => PK.meetWith_sound N.meet_sound ha hb h hsa hsb, fun h => PK.meetWith_sound N.narrow_sound ha hb h hsa hsb⟩

/-- the two operands of `join_or_widening` / `meet_or_narrowing` end up with the same partition:
    the classes of the result are those of the merged right operand (`ufJoin_setup`, from
    `mergeAll_finest`): every class of one lies inside a class of the other -/
theorem C04.packing_join_aligned {V : Type} [DecidableEq V] {N : NDom V} (g : N.B → N.B → N.B) (a b : List (Pack N))
    (ha : PK.WFl a) (hb : PK.WFl b) (res : PK N) (h : PK.ufJoin g a b = some res) :
    ∃ b2 Z, PK.mergeAll (fun _ => N.top) (PK.restrictTo a b) (PK.restrictTo b a) = some b2 ∧ res = .packs Z ∧
      PK.WFl Z ∧ PK.Coarser Z b2 ∧ PK.Coarser b2 (PK.restrictTo a b) ∧ PK.Coarser b2 (PK.restrictTo b a) := by
  obtain ⟨b2, Z, h1, _, h3, _, h5, h6, h7, h8⟩ := PK.ufJoin_setup ha hb h
  exact ⟨b2, Z, h1, h3, h7, h8, h6, h5⟩
