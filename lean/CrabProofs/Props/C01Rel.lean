import CrabProofs.Props.C01Engine
import CrabProofs.Props.C05Rel
import CrabProofs.Lemmas.RelDomItvEnv

/-!
# C01 ∘ C03 for zones and octagons

The interleaved fixpoint iterator (`Crab.Fix.run`, Props/C01Engine.lean) run on the zone / octagon
values of `Props/C03Rel.lean` with block transformers made of their statements (assume of a system
of in-language constraints, `x := k`, `x := y + k`, `x := -y + k` (octagons), havoc, `forget(vars)`,
`project(vars)`) returns tables that contain the collecting semantics of the program — for every
weak topological ordering, widening delay, number of descending iterations and assumption map.
The `Sem` contract of the engine is discharged from the per-operation theorems
(`RelDom.EngDom`, CrabProofs/Lemmas/RelDomEngine.lean — the analogue of `XDom.EngDom` for an
arbitrary state space and statement language).

Operations handed to the engine: zones — exact inclusion test, join, meet of the canonical model,
the widening of `split_dbm_domain` / `sparse_dbm_domain` as coded (any sound reading `ew`),
narrowing = meet as in the code; octagons — the same with the textbook widening (not the code's).
With `Props/C05Rel.lean` the runs also terminate: `C01.zones_run_total_sound`,
`C01.oct_run_total_sound`.
-/
open Crab Crab.Fix Crab.RelDom

/-- blocks of statements are sound block transformers, for every domain given by its
    per-operation laws -/
theorem C01.rel_block_sound {S : Type} (D : EngDom S) (b : List D.Stmt) (a : D.A) (s s' : S)
    (hg : D.γ a s) (hr : D.BlockRel b s s') : D.γ (D.execBlock b a) s' := D.execBlock_sound b a s s' hg hr

/-- the generic instance: the engine on any `RelDom.EngDom` -/
theorem C01.rel_run_sound {S : Type} (D : EngDom S) (prog : Nat → List D.Stmt) (preds : Nat → List Nat)
    (nesting : Nat → Option (List Nat)) (entry : Nat) (init : D.A)
    (assumptions : Option (List (Nat × D.A))) (delay descending : Nat) (w : List Comp)
    (fuel : Nat) (st : St D.A)
    (hwf : WtoWF (D.mkCtx prog preds nesting entry init assumptions delay descending) w)
    (hrun : run (D.mkCtx prog preds nesting entry init assumptions delay descending) fuel w = some st) :
    let sm := D.sem prog preds nesting entry init assumptions delay descending
    (∀ n s, ReachPre _ sm n s → D.γ (st.pre n) s) ∧ (∀ n s, ReachPost _ sm n s → D.γ (st.post n) s) :=
  C01.run_sound _ w S (D.sem prog preds nesting entry init assumptions delay descending) fuel st hwf hrun

/-- **the engine on zones**, for the widening of the code read through any sound `ew`
    (`splitEw`: split_dbm, `sparseEw`: sparse_dbm) -/
theorem C01.zones_run_sound {n : Nat} (ew : Zones.Zone n → Fin (n + 1) → Fin (n + 1) → Dbm.W)
    (hew : Zones.SoundEw ew) (prog : Nat → List (Zones.Stmt n)) (preds : Nat → List Nat)
    (nesting : Nat → Option (List Nat)) (entry : Nat) (init : Zones.ZVal n)
    (assumptions : Option (List (Nat × Zones.ZVal n))) (delay descending : Nat) (w : List Comp)
    (fuel : Nat) (st : St (Zones.ZVal n))
    (hwf : WtoWF ((Zones.eng n ew hew).mkCtx prog preds nesting entry init assumptions delay descending) w)
    (hrun : run ((Zones.eng n ew hew).mkCtx prog preds nesting entry init assumptions delay descending) fuel w
      = some st) :
    let sm := (Zones.eng n ew hew).sem prog preds nesting entry init assumptions delay descending
    (∀ k s, ReachPre _ sm k s → Zones.γv (st.pre k) s) ∧ (∀ k s, ReachPost _ sm k s → Zones.γv (st.post k) s) :=
  C01.rel_run_sound (Zones.eng n ew hew) prog preds nesting entry init assumptions delay descending w fuel st
    hwf hrun

/-- the instance for `split_dbm_domain`'s widening -/
theorem C01.zones_split_run_sound {n : Nat} (prog : Nat → List (Zones.Stmt n)) (preds : Nat → List Nat)
    (nesting : Nat → Option (List Nat)) (entry : Nat) (init : Zones.ZVal n)
    (assumptions : Option (List (Nat × Zones.ZVal n))) (delay descending : Nat) (w : List Comp)
    (fuel : Nat) (st : St (Zones.ZVal n))
    (hwf : WtoWF ((Zones.splitEng n).mkCtx prog preds nesting entry init assumptions delay descending) w)
    (hrun : run ((Zones.splitEng n).mkCtx prog preds nesting entry init assumptions delay descending) fuel w
      = some st) :
    let sm := (Zones.splitEng n).sem prog preds nesting entry init assumptions delay descending
    (∀ k s, ReachPre _ sm k s → Zones.γv (st.pre k) s) ∧ (∀ k s, ReachPost _ sm k s → Zones.γv (st.post k) s) :=
  C01.rel_run_sound (Zones.splitEng n) prog preds nesting entry init assumptions delay descending w fuel st
    hwf hrun

/-- **the engine on octagons** -/
theorem C01.oct_run_sound {n : Nat} (prog : Nat → List (Octagon.Stmt n)) (preds : Nat → List Nat)
    (nesting : Nat → Option (List Nat)) (entry : Nat) (init : Octagon.OVal n)
    (assumptions : Option (List (Nat × Octagon.OVal n))) (delay descending : Nat) (w : List Comp)
    (fuel : Nat) (st : St (Octagon.OVal n))
    (hwf : WtoWF ((Octagon.eng n).mkCtx prog preds nesting entry init assumptions delay descending) w)
    (hrun : run ((Octagon.eng n).mkCtx prog preds nesting entry init assumptions delay descending) fuel w
      = some st) :
    let sm := (Octagon.eng n).sem prog preds nesting entry init assumptions delay descending
    (∀ k s, ReachPre _ sm k s → Octagon.γv (st.pre k) s) ∧
    (∀ k s, ReachPost _ sm k s → Octagon.γv (st.post k) s) :=
  C01.rel_run_sound (Octagon.eng n) prog preds nesting entry init assumptions delay descending w fuel st
    hwf hrun

/-- zones: the analysis returns (some fuel suffices: the widening of the code stabilises against the
    exact inclusion test, `C05.zones_rel_run_terminates`) and what it returns is sound -/
theorem C01.zones_run_total_sound {n : Nat} (ew : Zones.Zone n → Fin (n + 1) → Fin (n + 1) → Dbm.W)
    (hew : Zones.SoundEw ew) (prog : Nat → List (Zones.Stmt n)) (preds : Nat → List Nat)
    (nesting : Nat → Option (List Nat)) (entry : Nat) (init : Zones.ZVal n)
    (assumptions : Option (List (Nat × Zones.ZVal n))) (delay descending : Nat) (w : List Comp)
    (hwf : WtoWF ((Zones.eng n ew hew).mkCtx prog preds nesting entry init assumptions delay descending) w) :
    let c := (Zones.eng n ew hew).mkCtx prog preds nesting entry init assumptions delay descending
    let sm := (Zones.eng n ew hew).sem prog preds nesting entry init assumptions delay descending
    ∃ fuel st, run c fuel w = some st ∧
      (∀ k s, ReachPre c sm k s → Zones.γv (st.pre k) s) ∧ (∀ k s, ReachPost c sm k s → Zones.γv (st.post k) s) := by
  obtain ⟨fuel, st, hrun⟩ := C05.zones_rel_run_terminates ew hew
    ((Zones.eng n ew hew).mkCtx prog preds nesting entry init assumptions delay descending) rfl rfl w
  exact ⟨fuel, st, hrun, C01.zones_run_sound ew hew prog preds nesting entry init assumptions delay descending
    w fuel st hwf hrun⟩

/-- octagons: the analysis returns and what it returns is sound -/
theorem C01.oct_run_total_sound {n : Nat} (prog : Nat → List (Octagon.Stmt n)) (preds : Nat → List Nat)
    (nesting : Nat → Option (List Nat)) (entry : Nat) (init : Octagon.OVal n)
    (assumptions : Option (List (Nat × Octagon.OVal n))) (delay descending : Nat) (w : List Comp)
    (hwf : WtoWF ((Octagon.eng n).mkCtx prog preds nesting entry init assumptions delay descending) w) :
    let c := (Octagon.eng n).mkCtx prog preds nesting entry init assumptions delay descending
    let sm := (Octagon.eng n).sem prog preds nesting entry init assumptions delay descending
    ∃ fuel st, run c fuel w = some st ∧
      (∀ k s, ReachPre c sm k s → Octagon.γv (st.pre k) s) ∧
      (∀ k s, ReachPost c sm k s → Octagon.γv (st.post k) s) := by
  obtain ⟨fuel, st, hrun⟩ := C05.oct_run_terminates
    ((Octagon.eng n).mkCtx prog preds nesting entry init assumptions delay descending) rfl rfl w
  exact ⟨fuel, st, hrun, C01.oct_run_sound prog preds nesting entry init assumptions delay descending
    w fuel st hwf hrun⟩

/-! ### non-vacuity: the counting loop `x := 0; y := 0; while (x ≤ 9) { x := x + 1; y := y + 1 }`

blocks: 0 = init, 1 = loop head (no statement), 2 = body (`assume x ≤ 9; x := x+1; y := y+1`),
3 = exit (`assume x ≥ 10`); ordering `0 (1 2) 3` (the one of `C01.Example`). -/

def C01.RelExample.zprog : Nat → List (Zones.Stmt 2)
  | 0 => [.assignCst 0 0, .assignCst 1 0]
  | 2 => [.assume [.ub 0 9], .assignVar 0 0 1, .assignVar 1 1 1]
  | 3 => [.assume [.lb 0 (-10)]]
  | _ => []

def C01.RelExample.oprog : Nat → List (Octagon.Stmt 2)
  | 0 => [.assignCst 0 0, .assignCst 1 0]
  | 2 => [.assume [.ub 0 9], .assignVar 0 0 1, .assignVar 1 1 1]
  | 3 => [.assume [.lb 0 (-10)]]
  | _ => []

/-- the zone analysis (split_dbm widening, delay 1, 1 descending iteration) returns, and finds
    `x = y ∧ 0 ≤ x ≤ 10` at the loop head (the bound `x ≤ 10` is lost by the widening and recovered
    by the descending iteration) and `x = y = 10` at the exit -/
example :
    let c := (Zones.splitEng 2).mkCtx C01.RelExample.zprog C01.Example.ctx.preds C01.Example.ctx.nesting 0
      Zones.ZVal.top none 1 1
    ((run c 20 C01.Example.wto).map fun st =>
      ((st.pre 1).map fun z => (Zones.entails z (.diff 0 1 0), Zones.entails z (.diff 1 0 0), Zones.bounds z 0),
       (st.post 3).map fun z => (Zones.entails z (.diff 0 1 0), Zones.bounds z 1))) =
    some (some (true, true, ⟨.fin 0, .fin 10⟩), some (true, ⟨.fin 10, .fin 10⟩)) := by decide +kernel

/-- the same with octagons -/
example :
    let c := (Octagon.eng 2).mkCtx C01.RelExample.oprog C01.Example.ctx.preds C01.Example.ctx.nesting 0
      Octagon.OVal.top none 1 1
    ((run c 20 C01.Example.wto).map fun st =>
      ((st.pre 1).map fun o => (Octagon.entails o (.diff 0 1 0), Octagon.entails o (.diff 1 0 0), Octagon.bounds o 0),
       (st.post 3).map fun o => (Octagon.entails o (.diff 0 1 0), Octagon.bounds o 1))) =
    some (some (true, true, ⟨.fin 0, .fin 10⟩), some (true, ⟨.fin 10, .fin 10⟩)) := by decide +kernel

/-- and the soundness theorem then applies to this run: the ordering is the well-formed one of
    `C01.Example` (same predecessor lists and nesting table) -/
example : WtoWF ((Zones.splitEng 2).mkCtx C01.RelExample.zprog C01.Example.ctx.preds C01.Example.ctx.nesting 0
    Zones.ZVal.top none 1 1) C01.Example.wto :=
  { nodup := C01.Example.wf.nodup, closed := C01.Example.wf.closed, edge := C01.Example.wf.edge,
    entry_mem := C01.Example.wf.entry_mem, nesting_in := C01.Example.wf.nesting_in,
    nesting_out := C01.Example.wf.nesting_out }

/-- **the engine on interval environments** (canonical reference model of C12) -/
theorem C01.itvenv_run_sound {n : Nat} (prog : Nat → List (ItvEnv.Stmt n)) (preds : Nat → List Nat)
    (nesting : Nat → Option (List Nat)) (entry : Nat) (init : ItvEnv.Env n)
    (assumptions : Option (List (Nat × ItvEnv.Env n))) (delay descending : Nat) (w : List Comp)
    (fuel : Nat) (st : St (ItvEnv.Env n))
    (hwf : WtoWF ((ItvEnv.eng n).mkCtx prog preds nesting entry init assumptions delay descending) w)
    (hrun : run ((ItvEnv.eng n).mkCtx prog preds nesting entry init assumptions delay descending) fuel w
      = some st) :
    let sm := (ItvEnv.eng n).sem prog preds nesting entry init assumptions delay descending
    (∀ k s, ReachPre _ sm k s → ItvEnv.γ (st.pre k) s) ∧ (∀ k s, ReachPost _ sm k s → ItvEnv.γ (st.post k) s) :=
  C01.rel_run_sound (ItvEnv.eng n) prog preds nesting entry init assumptions delay descending w fuel st
    hwf hrun
