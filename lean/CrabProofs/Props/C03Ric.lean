import CrabProofs.Lemmas.XDomRicInst
import CrabProofs.Props.C03
import CrabProofs.Props.C01Engine

/-!
# C03 for the "ric" domain `numerical_congruence_domain<interval_domain<z_number>>` — every
operation is sound, proved on the exact model

`Crab.RDom` (CrabModel/Dom/RicDomain.lean) is the branch-by-branch model of
`numerical_congruence_domain` (combined_congruences.hpp) over `reduced_domain_product2` /
`basic_domain_product2` (combined_domains.hpp: flag + two lazily canonicalised components) of
the exact models of `interval_domain` (`Crab.IDom`) and `congruence_domain` (`Crab.GDom`), with
the per-variable reduction `reduce_variable` through the constructor of `interval_congruence`
(`IC.reduce`).  It is tied to the real code by the exact correspondence `xdom`
(harness/h_cdom.cpp -DXDOM=4, Driver/XDomH.lean: both components after every operation of
random histories).

Concretisation: `Env.γ e σ := e.isBot = false ∧ e.f.γ σ ∧ e.s.γ σ` (the states described by the
interval component and by the congruence component).  `e.Inv`: the map invariants of the two
components, and a raised bottom flag means bottom components.  Other hypotheses (`x < 2^64`,
`CstOk c`, `GDom.Ok'`, the `Shl` side condition): as in Props/C03Cst.lean, C03CongDom.lean.

**Defect of the code (precision, not soundness)** — `reduce_variable` compares the reduced pair
with values it has just moved from (`interval_congruence_t val(std::move(i), std::move(c)); if
(val.first() != i) …; if (val.second() != c) …`): a moved-from `z_number` is 0, so the reduced
congruence is not stored when it is the constant 0, and the reduced interval is not stored when
it is `[0, 0]` and the interval had finite bounds.  The model has the comparisons as coded
(`firstChanged`, `secondChanged`); `C03.ricdom_reduce_variable_not_as_intended` is the witness
`x ∈ [0, 0]`: the congruence of `x` stays top instead of becoming 0.  Soundness is not affected
(`C03.ricdom_reduce_variable_sound` holds whatever the comparisons answer).
-/
open Crab Crab.RDom Crab.XDom Crab.Lin

/-! ### the reduction -/

/-- the constructor of `interval_congruence` (Granger's reduction) keeps the common members -/
theorem C03.ricdom_ic_reduce_sound (i : Itv) (c : Cong) (k : Int) (hi : Itv.mem k i) (hc : Cong.mem k c) :
    IC.mem k (icReduce i c) := icReduce_sound hi hc

/-- `reduce_variable(v)` keeps every state -/
theorem C03.ricdom_reduce_variable_sound (e : Env) (he : e.Inv) (σ : State) (v : Var) (hv : v < 2 ^ 64)
    (hg : e.γ σ) : (e.reduceVar v).γ σ := Env.reduceVar_sound he hg hv

/-- what the code intends: `reduce_variable` stores the reduced pair whenever it differs from the
    stored one -/
def C03.ricdom_reduce_variable_as_intended_Statement : Prop :=
  ∀ (e : Env) (v : Var), e.Inv → (e.reduceVar v).s = (e.reduceVarIntended v).s

/-- the use after move: for `x ∈ [0, 0]` with no congruence the code leaves the congruence of `x`
    top, the intended code stores the constant 0 -/
theorem C03.ricdom_reduce_variable_not_as_intended : ¬ C03.ricdom_reduce_variable_as_intended_Statement := by
  intro h
  let e : Env := ⟨false, IDom.Env.top.set 0 (Itv.single 0), GDom.Env.top⟩
  have he : e.Inv := ⟨IDom.Env.set_sorted _ _ _ IDom.Env.sorted_top, GDom.Env.inv_top, fun h => by cases h⟩
  have h1 : ((e.reduceVar 0).s).tree.lookup 0 = none := by decide +kernel
  have h2 : ((e.reduceVarIntended 0).s).tree.lookup 0 = some (Cong.ofInt 0) := by decide +kernel
  rw [h e 0 he, h2] at h1
  cases h1

/-! ### transformers -/

/-- `set(x, v)`: `x` receives any member of the pair -/
theorem C03.ricdom_set_sound (e : Env) (he : e.Inv) (σ : State) (x : Var) (hx : x < 2 ^ 64) (v : IC)
    (hw : Cong.WF v.c) (n : Int) (hg : e.γ σ) (hn : IC.mem n v) : (e.set x v).γ (upd σ x n) :=
  Env.set_sound he hg hx hw hn

/-- `assign(x, e)` -/
theorem C03.ricdom_assign_sound (e : Env) (he : e.Inv) (σ : State) (x : Var) (hx : x < 2 ^ 64) (ex : Expr)
    (hg : e.γ σ) : (e.assign x ex).γ (upd σ x (ex.eval σ)) := Env.assign_sound he hg hx ex

/-- `weak_assign(x, e)` -/
theorem C03.ricdom_weak_assign_sound (e : Env) (he : e.Inv) (σ : State) (x : Var) (hx : x < 2 ^ 64) (ex : Expr)
    (hg : e.γ σ) : (e.weakAssign x ex).γ σ ∧ (e.weakAssign x ex).γ (upd σ x (ex.eval σ)) :=
  Env.weakAssign_sound he hg hx ex

/-- `apply(arith op, x, y, z)` -/
theorem C03.ricdom_apply_arith_var_sound (e : Env) (he : e.Inv) (σ : State) (op : ArithOp) (x y z : Var)
    (hx : x < 2 ^ 64) (c : Int) (hg : e.γ σ) (hc : op.conc (σ y) (σ z) = some c) :
    (e.applyVar op x y z).γ (upd σ x c) := Env.applyVar_sound he hg op hx y z hc

/-- `apply(arith op, x, y, k)` -/
theorem C03.ricdom_apply_arith_cst_sound (e : Env) (he : e.Inv) (σ : State) (op : ArithOp) (x y : Var)
    (hx : x < 2 ^ 64) (k c : Int) (hg : e.γ σ) (hc : op.conc (σ y) k = some c) :
    (e.applyCst op x y k).γ (upd σ x c) := Env.applyCst_sound he hg op hx y k hc

/-- `apply(bitwise op, x, y, z)`; for `Shl` the modulus of the class of `z` must fit a machine word -/
theorem C03.ricdom_apply_bitwise_var_sound (e : Env) (he : e.Inv) (σ : State) (op : BitOp) (x y z : Var)
    (hx : x < 2 ^ 64) (c : Int) (hg : e.γ σ) (hc : op.conc (σ y) (σ z) = some c)
    (hz : op = .shl → (e.s.get z).a < 2 ^ 64) : (e.applyBitVar op x y z).γ (upd σ x c) :=
  Env.applyBitVar_sound he hg op hx y z hc hz

/-- `apply(bitwise op, x, y, k)` -/
theorem C03.ricdom_apply_bitwise_cst_sound (e : Env) (he : e.Inv) (σ : State) (op : BitOp) (x y : Var)
    (hx : x < 2 ^ 64) (k c : Int) (hg : e.γ σ) (hc : op.conc (σ y) k = some c) :
    (e.applyBitCst op x y k).γ (upd σ x c) := Env.applyBitCst_sound he hg op hx y k hc

/-- `operator+=(csts)`: both solvers, `reduce()`, then `reduce_variable` of every variable -/
theorem C03.ricdom_assume_sound (e : Env) (he : e.Inv) (σ : State) (csts : Sys) (hc : ∀ c ∈ csts, CstOk c)
    (hg : e.γ σ) (hsat : Sys.sat csts σ) : (e.add csts).γ σ := Env.add_sound he hg hc hsat

/-- `select(lhs, cond, e1, e2)` -/
theorem C03.ricdom_select_sound (e : Env) (he : e.Inv) (σ : State) (lhs : Var) (hx : lhs < 2 ^ 64)
    (cond : Lin.Cst) (e1 e2 : Expr) (hc : CstOk cond) (hg : e.γ σ) :
    (e.select lhs cond e1 e2).γ (upd σ lhs (if cond.sat σ then e1.eval σ else e2.eval σ)) :=
  Env.select_sound he hg hx hc e1 e2

/-- `operator-=(x)` -/
theorem C03.ricdom_forget_sound (e : Env) (he : e.Inv) (σ : State) (x : Var) (hx : x < 2 ^ 64) (n : Int)
    (hg : e.γ σ) : (e.forget x).γ (upd σ x n) := Env.forget_sound he hg hx n

/-- `forget(variables)` -/
theorem C03.ricdom_forget_vector_sound (e : Env) (he : e.Inv) (σ σ' : State) (vs : List Var)
    (hv : ∀ v ∈ vs, v < 2 ^ 64) (hg : e.γ σ) (h : ∀ y, y ∉ vs → σ' y = σ y) : (e.forgetAll vs).γ σ' :=
  Env.forgetAll_sound he hg hv h

/-- `project(variables)` -/
theorem C03.ricdom_project_sound (e : Env) (he : e.Inv) (σ σ' : State) (vs : List Var)
    (hv : ∀ v ∈ vs, v < 2 ^ 64) (hg : e.γ σ) (h : ∀ y ∈ vs, σ' y = σ y) : (e.project vs).γ σ' :=
  Env.project_sound he hg hv h

/-- `expand(x, new_x)` -/
theorem C03.ricdom_expand_sound (e : Env) (he : e.Inv) (σ : State) (x nx : Var) (hnx : nx < 2 ^ 64)
    (hg : e.γ σ) : (e.expand x nx).γ (upd σ nx (σ x)) := Env.expand_sound he hg x hnx

/-- `rename(from, to)` with distinct sources and distinct, fresh targets -/
theorem C03.ricdom_rename_sound (e e' : Env) (he : e.Inv) (σ σ' : State) (frm to : List Var) (hg : e.γ σ)
    (hr : e.rename frm to = some e') (hf : ∀ v ∈ frm, v < 2 ^ 64) (ht : ∀ v ∈ to, v < 2 ^ 64)
    (hnf : frm.Nodup) (hnt : to.Nodup) (hdis : ∀ y ∈ to, y ∉ frm)
    (hfresh : ∀ y ∈ to, IDom.Map.find e.f.m y = none ∧ e.s.tree.lookup y = none)
    (hrel : ∀ p ∈ frm.zip to, σ' p.2 = σ p.1) (hout : ∀ y, y ∉ frm → y ∉ to → σ' y = σ y) : e'.γ σ' :=
  Env.rename_sound he hg hr hf ht hnf hnt hdis hfresh hrel hout

/-- integer casts between integer variables -/
theorem C03.ricdom_cast_sound (e : Env) (he : e.Inv) (σ : State) (zext : Bool) (bw : Nat) (dst src : Var)
    (hd : dst < 2 ^ 64) (hg : e.γ σ) (hz : zext = true → σ src ≤ 2 ^ bw - 1) :
    (e.intCast zext bw dst src).γ (upd σ dst (σ src)) := Env.intCast_sound he hg zext bw hd src hz

/-- `to_linear_constraint_system()` holds in every state of `γ` -/
theorem C03.ricdom_to_csts_sound (e : Env) (he : e.Inv) (σ : State) (hg : e.γ σ) : Sys.sat e.toCsts σ :=
  Env.toCsts_sound he hg

/-- `at(v)` contains the value of `v` in every state of `γ` -/
theorem C03.ricdom_at_sound (e : Env) (σ : State) (x : Var) (hg : e.γ σ) : Itv.mem (σ x) (e.atItv x) :=
  Env.atItv_sound hg x

/-! ### the invariant -/

theorem C03.ricdom_top_bot_inv : RDom.Env.top.Inv ∧ RDom.Env.bot.Inv := ⟨RDom.Env.inv_top, RDom.Env.inv_bot⟩

theorem C03.ricdom_stmt_inv (st : Stmt) (hok : st.Ok) (a : Env) (h : a.Inv) : (exec st a).Inv := exec_inv st hok h

theorem C03.ricdom_lattice_inv (a b : Env) (ha : a.Inv) (hb : b.Inv) :
    (Env.join a b).Inv ∧ (Env.meet a b).Inv ∧ (Env.widen a b).Inv ∧ (Env.narrow a b).Inv ∧
    (Env.joinEq a b).Inv ∧ (Env.meetEq a b).Inv :=
  ⟨Env.join_inv ha hb, Env.meet_inv ha hb, Env.widen_inv ha hb, Env.narrow_inv ha hb,
   Env.joinEq_inv ha hb, Env.meetEq_inv ha hb⟩

/-! ### the operations as steps of the generic history contract -/

theorem C03.ricdom_step_trans_sound (d : Nat) (st : Stmt) (hok : GDom.Ok' st) :
    (Dom.Step.trans d ⟨execS st hok.1, st.rel⟩ : Dom.Step SEnv State).Sound SEnv.γ :=
  fun a _ _ hg hr => exec_sound st hok a.2 hg hr

theorem C03.ricdom_step_join_sound (d a b : Nat) :
    (Dom.Step.upper d a b SEnv.join : Dom.Step SEnv State).Sound SEnv.γ :=
  fun x y _ h => Env.join_upper x.2 y.2 h

/-- `operator|=` (no canonicalisation of the product) -/
theorem C03.ricdom_step_join_eq_sound (d a b : Nat) :
    (Dom.Step.upper d a b SEnv.joinEq : Dom.Step SEnv State).Sound SEnv.γ :=
  fun x y _ h => Env.joinEq_upper x.2 y.2 h

theorem C03.ricdom_step_widen_sound (d a b : Nat) :
    (Dom.Step.upper d a b SEnv.widen : Dom.Step SEnv State).Sound SEnv.γ :=
  fun x y _ h => Env.widen_upper x.2 y.2 h

theorem C03.ricdom_step_widen_thresholds_sound (d a b : Nat) (ts : IDom.Thresholds) (hw : ts.WF) :
    (Dom.Step.upper d a b (SEnv.widenTh ts) : Dom.Step SEnv State).Sound SEnv.γ :=
  fun x y _ h => Env.widenTh_upper hw x.2 y.2 h

theorem C03.ricdom_step_meet_sound (d a b : Nat) :
    (Dom.Step.lower d a b SEnv.meet : Dom.Step SEnv State).Sound SEnv.γ :=
  fun x y _ h1 h2 => Env.meet_sound x.2 y.2 h1 h2

/-- `operator&=` (no canonicalisation of the product) -/
theorem C03.ricdom_step_meet_eq_sound (d a b : Nat) :
    (Dom.Step.lower d a b SEnv.meetEq : Dom.Step SEnv State).Sound SEnv.γ :=
  fun x y _ h1 h2 => Env.meetEq_sound x.2 y.2 h1 h2

theorem C03.ricdom_step_narrow_sound (d a b : Nat) :
    (Dom.Step.lower d a b SEnv.narrow : Dom.Step SEnv State).Sound SEnv.γ :=
  fun x y _ h1 h2 => Env.narrow_sound x.2 y.2 h1 h2

/-- the steps an operation history of the "ric" domain is made of -/
inductive C03.RicdomStep : Dom.Step SEnv State → Prop
  | trans (d : Nat) (st : Stmt) (hok : GDom.Ok' st) : C03.RicdomStep (.trans d ⟨execS st hok.1, st.rel⟩)
  | join (d a b : Nat) : C03.RicdomStep (.upper d a b SEnv.join)
  | joinEq (d a b : Nat) : C03.RicdomStep (.upper d a b SEnv.joinEq)
  | widen (d a b : Nat) : C03.RicdomStep (.upper d a b SEnv.widen)
  | widenTh (d a b : Nat) (ts : IDom.Thresholds) (hw : ts.WF) : C03.RicdomStep (.upper d a b (SEnv.widenTh ts))
  | meet (d a b : Nat) : C03.RicdomStep (.lower d a b SEnv.meet)
  | meetEq (d a b : Nat) : C03.RicdomStep (.lower d a b SEnv.meetEq)
  | narrow (d a b : Nat) : C03.RicdomStep (.lower d a b SEnv.narrow)
  | copy (d s : Nat) : C03.RicdomStep (.copy d s)
  | setBot (d : Nat) : C03.RicdomStep (.setBot d SEnv.bot)

theorem C03.ricdom_step_sound (st : Dom.Step SEnv State) (h : C03.RicdomStep st) : st.Sound SEnv.γ := by
  cases h with
  | trans d s hok => exact C03.ricdom_step_trans_sound d s hok
  | join d a b => exact C03.ricdom_step_join_sound d a b
  | joinEq d a b => exact C03.ricdom_step_join_eq_sound d a b
  | widen d a b => exact C03.ricdom_step_widen_sound d a b
  | widenTh d a b ts hw => exact C03.ricdom_step_widen_thresholds_sound d a b ts hw
  | meet d a b => exact C03.ricdom_step_meet_sound d a b
  | meetEq d a b => exact C03.ricdom_step_meet_eq_sound d a b
  | narrow d a b => exact C03.ricdom_step_narrow_sound d a b
  | copy d s => trivial
  | setBot d => trivial

/-- **C03 for the "ric" domain**: after ANY history of its operations over a pool of values, every
    slot contains the collecting semantics of the history (instance of `C03.history_sound`) -/
theorem C03.ricdom_history_sound (hist : List (Dom.Step SEnv State)) (hs : ∀ st ∈ hist, C03.RicdomStep st)
    (p : Dom.Pool SEnv) (c : Dom.CPool State) (h : ∀ i s, c i s → (p i).γ s) :
    ∀ i s, (Dom.collHist c hist) i s → ((Dom.runHist p hist) i).γ s :=
  C03.history_sound SEnv.γ hist (fun st hst => C03.ricdom_step_sound st (hs st hst)) p c h

/-- a slot whose collecting semantics is inhabited is never reported bottom -/
theorem C03.ricdom_not_bottom_if_inhabited (hist : List (Dom.Step SEnv State))
    (hs : ∀ st ∈ hist, C03.RicdomStep st) (p : Dom.Pool SEnv) (c : Dom.CPool State)
    (h : ∀ i s, c i s → (p i).γ s) (i : Nat) (s : State) (hc : (Dom.collHist c hist) i s) :
    ((Dom.runHist p hist) i).1.isBottom = false :=
  Env.isBottom_false (C03.ricdom_history_sound hist hs p c h i s hc)

theorem C03.ricdom_history_inv (hist : List (Dom.Step SEnv State)) (p : Dom.Pool SEnv) (i : Nat) :
    ((Dom.runHist p hist) i).1.Inv := ((Dom.runHist p hist) i).2

/-- **C01 ∘ C03**: the fixpoint iterator on the "ric" domain returns tables that contain the
    collecting semantics of the program -/
theorem C03.ricdom_run_sound (prog : Nat → List eng.AStmt) (preds : Nat → List Nat)
    (nesting : Nat → Option (List Nat)) (entry : Nat) (init : SEnv)
    (assumptions : Option (List (Nat × SEnv))) (delay descending : Nat) (w : List Fix.Comp)
    (fuel : Nat) (st : Fix.St SEnv)
    (hwf : Fix.WtoWF (eng.mkCtx prog preds nesting entry init assumptions delay descending) w)
    (hrun : Fix.run (eng.mkCtx prog preds nesting entry init assumptions delay descending) fuel w = some st) :
    let sm := eng.sem prog preds nesting entry init assumptions delay descending
    (∀ n s, Fix.ReachPre _ sm n s → (st.pre n).γ s) ∧ (∀ n s, Fix.ReachPost _ sm n s → (st.post n).γ s) :=
  C01.run_sound _ w State (eng.sem prog preds nesting entry init assumptions delay descending) fuel st hwf hrun

/-! ### non-vacuity -/

/-- `x := 2y + 1; assume 1 <= x <= 6`: the reduction tightens the interval to `[1, 5]` -/
example :
    let e := exec (.assume [⟨⟨[(0, -1)], 1⟩, .leq⟩, ⟨⟨[(0, 1)], -6⟩, .leq⟩]) (exec (.assign 0 ⟨[(1, 2)], 1⟩) RDom.Env.top)
    e.f.get 0 = ⟨.fin 1, .fin 5⟩ ∧ e.s.get 0 = ⟨false, 2, 1⟩ ∧ e.isBottom = false := by decide +kernel

example : RDom.Env.γ (RDom.Env.top.set 0 ⟨⟨.fin 1, .fin 5⟩, ⟨false, 2, 1⟩⟩) (upd (fun _ => 3) 0 3) :=
  RDom.Env.set_sound RDom.Env.inv_top (RDom.Env.γ_top _) (by decide) (by decide) (by decide)
