import CrabProofs.Props.C05Chain
import CrabProofs.Lemmas.RelDomEngine

/-!
# C05 for the relational engines of `Props/C01Rel.lean`

`Props/C05Zones.lean` proves the chain condition of the zones widening w.r.t. the inclusion test
AS CODED (`leqE`, which ignores the diagonal and is only sound on graphs without self loops).  The
engine instances of `C01Rel` use the EXACT inclusion test of the canonical model (`ZVal.leq`,
sound on every matrix) together with the same widening of the code; here the chain condition is
proved for that pair of operations — a strict step still drops an edge of the unclosed left
operand (one that the right operand does not cover, or a self loop) — and for the octagon
operations (`OVal.leq`, textbook widening `OVal.widen`).
-/
open Crab Crab.Fix Crab.Dbm

section Zones
open Crab.Zones
variable {n : Nat}

/-- a strict step w.r.t. the exact inclusion test lowers (bottom flag, number of edges) -/
theorem C05.zones_rel_widen_measure (ew : Zone n → Fin (n + 1) → Fin (n + 1) → W) (hew : SoundEw ew)
    (x y : ZVal n) (h : ZVal.leq y x = false) :
    Prod.Lex (· < ·) (· < ·) (zmeas (widenE ew x y)) (zmeas x) := zmeas_widenE_lt_canon hew x y h

theorem C05.zones_rel_strictStep_wf (ew : Zone n → Fin (n + 1) → Fin (n + 1) → W) (hew : SoundEw ew) :
    WellFounded (C05.StrictStep ZVal.leq (widenE ew)) :=
  C05.strictStep_wf_of_measure ZVal.leq (widenE ew) _ (Prod.lex Nat.lt_wfRel Nat.lt_wfRel).wf zmeas
    (fun x y h => C05.zones_rel_widen_measure ew hew x y h)

theorem C05.zones_rel_widenStep_wf (ew : Zone n → Fin (n + 1) → Fin (n + 1) → W) (hew : SoundEw ew)
    (c : Ctx (ZVal n)) (hleq : c.ops.leq = ZVal.leq) (hw : c.ops.widen = widenE ew) :
    WellFounded (WidenStep c) := by
  rw [C05.widenStep_eq, hleq, hw]
  exact C05.zones_rel_strictStep_wf ew hew

/-- every analysis run over the exact inclusion test and the widening of the code terminates -/
theorem C05.zones_rel_run_terminates (ew : Zone n → Fin (n + 1) → Fin (n + 1) → W) (hew : SoundEw ew)
    (c : Ctx (ZVal n)) (hleq : c.ops.leq = ZVal.leq) (hw : c.ops.widen = widenE ew) (w : List Comp) :
    ∃ fuel st, run c fuel w = some st :=
  C05.run_terminates c w (C05.zones_rel_widenStep_wf ew hew c hleq hw)

/-- along `x₀ = l₀`, `xₖ₊₁ = xₖ ∇ yₖ` a covered `yₖ` occurs within `edges l₀ ≤ (n+1)²` steps -/
theorem C05.zones_rel_chain_first_stationary (ew : Zone n → Fin (n + 1) → Fin (n + 1) → W)
    (hew : SoundEw ew) (l0 : Zone n) (xs ys : Nat → ZVal n) (h0 : xs 0 = some l0)
    (hstep : ∀ k, xs (k + 1) = widenE ew (xs k) (ys k)) :
    ∃ k, k ≤ edges l0 ∧ k ≤ (n + 1) * (n + 1) ∧ ZVal.leq (ys k) (xs k) = true := by
  have key := chain_first_stationary_on (A := ZVal n) (B := ZVal n) (fun x => x.isSome = true)
    ZVal.leq (widenE ew) (fun x => (zmeas x).2)
    (by
      intro x y hx
      cases x with
      | none => cases hx
      | some l => cases y <;> rfl)
    (by
      intro x y hx h
      cases x with
      | none => cases hx
      | some l =>
        cases y with
        | none => simp [ZVal.leq] at h
        | some r =>
          have := zmeas_widenE_lt_canon hew (some l) (some r) h
          cases this with
          | left _ _ h1 => exact absurd h1 (by decide)
          | right _ h2 => exact h2)
    xs ys (by rw [h0]; rfl) hstep
  obtain ⟨k, hk, hl⟩ := key
  rw [h0] at hk
  exact ⟨k, hk, Nat.le_trans hk (edges_le l0), hl⟩

end Zones

section Octagons
open Crab.Octagon
variable {n : Nat}

/-- a strict step of the octagon widening drops an entry of the unclosed left operand -/
theorem C05.oct_widen_measure (x y : OVal n) (h : OVal.leq y x = false) :
    Prod.Lex (· < ·) (· < ·) (omeas (OVal.widen x y)) (omeas x) := omeas_widen_lt x y h

theorem C05.oct_strictStep_wf : WellFounded (C05.StrictStep (OVal.leq (n := n)) OVal.widen) :=
  C05.strictStep_wf_of_measure OVal.leq OVal.widen _ (Prod.lex Nat.lt_wfRel Nat.lt_wfRel).wf omeas
    (fun x y h => C05.oct_widen_measure x y h)

theorem C05.oct_widenStep_wf (c : Ctx (OVal n)) (hleq : c.ops.leq = OVal.leq) (hw : c.ops.widen = OVal.widen) :
    WellFounded (WidenStep c) := by
  rw [C05.widenStep_eq, hleq, hw]
  exact C05.oct_strictStep_wf

theorem C05.oct_run_terminates (c : Ctx (OVal n)) (hleq : c.ops.leq = OVal.leq)
    (hw : c.ops.widen = OVal.widen) (w : List Comp) : ∃ fuel st, run c fuel w = some st :=
  C05.run_terminates c w (C05.oct_widenStep_wf c hleq hw)

/-- a covered `yₖ` occurs within `edges l₀ ≤ (2n)²` steps -/
theorem C05.oct_chain_first_stationary (l0 : Oct n) (xs ys : Nat → OVal n) (h0 : xs 0 = some l0)
    (hstep : ∀ k, xs (k + 1) = OVal.widen (xs k) (ys k)) :
    ∃ k, k ≤ Zones.edges l0 ∧ k ≤ (2 * n) * (2 * n) ∧ OVal.leq (ys k) (xs k) = true := by
  have key := Zones.chain_first_stationary_on (A := OVal n) (B := OVal n) (fun x => x.isSome = true)
    OVal.leq OVal.widen (fun x => (omeas x).2)
    (by
      intro x y hx
      cases x with
      | none => cases hx
      | some l =>
        cases y with
        | none => rfl
        | some r => simp only [OVal.widen]; split <;> rfl)
    (by
      intro x y hx h
      cases x with
      | none => cases hx
      | some l =>
        cases y with
        | none => simp [OVal.leq] at h
        | some r =>
          obtain ⟨hb, i, j, hij⟩ := leq_false (a := r) (b := l) h
          simp only [OVal.widen, hb, Bool.false_eq_true, if_false]
          exact Mat.edges_widenStd_lt hij)
    xs ys (by rw [h0]; rfl) hstep
  obtain ⟨k, hk, hl⟩ := key
  rw [h0] at hk
  exact ⟨k, hk, Nat.le_trans hk (Zones.edges_le l0), hl⟩

/-- non-vacuity: a strict step on concrete octagons: `x ≤ 3` is not covered by `x ≤ 4` and is
    dropped (with its coherent twin it is one entry: 3 finite entries become 2) -/
example :
    let a : OVal 2 := OVal.exec (.assume [.ub 0 3, .sum 0 1 4]) OVal.top
    let b : OVal 2 := OVal.exec (.assume [.ub 0 4, .sum 0 1 4]) OVal.top
    OVal.leq b a = false ∧ omeas a = (0, 3) ∧ omeas (OVal.widen a b) = (0, 2) ∧
    OVal.leq b (OVal.widen a b) = true := by decide

end Octagons
