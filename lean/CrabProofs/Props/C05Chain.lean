import CrabProofs.Props.C05
import CrabProofs.Props.C05Itv
import CrabProofs.Props.C08Itv2
import CrabProofs.Lemmas.CongruenceWiden
import CrabProofs.Props.C08Fin
import CrabModel.Scalar.Constant

/-!
# C05 (chain part) — from a decreasing measure to the chain condition of the engine

`C05.run_terminates` needs `WellFounded (WidenStep c)`: no infinite sequence of *strict*
extrapolation steps `x ↦ x ∇ y` with `y ⋢ x`.  This file gives the generic route to that
hypothesis

* a measure into a well-founded order that strictly decreases on every strict step
  (`C05.widenStep_wf_of_measure`, natural numbers: `C05.widenStep_wf_of_nat_measure`);
* the same when the decrease is only known for *non-stationary* steps (`x ∇ y ⋢ x`) of a widening
  that is an upper bound of its right argument for a transitive inclusion test
  (`C05.widenStep_wf_of_upper_bound`);
* a bound on the position of the first stationary step of an arbitrary sequence
  (`C05.chain_first_stationary`)

and instantiates it for the scalar models that exist: intervals (`Crab.Itv`, at most 3 strict
steps), congruences (widening = join: bottom, a constant, then a chain of proper divisors),
constants and signs (finite height), and the interval domain (`Crab.IDom`).
-/
open Crab Crab.Fix

/-! ## generic lemmas -/

/-- the relation of strict widening steps of a bare (order test, widening) pair -/
def C05.StrictStep {A : Type} (leq : A → A → Bool) (widen : A → A → A) (x' x : A) : Prop :=
  ∃ y, leq y x = false ∧ x' = widen x y

/-- the engine's `WidenStep` is the strict-step relation of the context's operations -/
theorem C05.widenStep_eq {A : Type} (c : Ctx A) :
    WidenStep c = C05.StrictStep c.ops.leq c.ops.widen := rfl

/-- **generic chain lemma**: a measure into a well-founded order that strictly decreases on
    every strict widening step makes the strict steps well founded -/
theorem C05.strictStep_wf_of_measure {A B : Type} (leq : A → A → Bool) (widen : A → A → A)
    (r : B → B → Prop) (hr : WellFounded r) (μ : A → B)
    (hdec : ∀ x y, leq y x = false → r (μ (widen x y)) (μ x)) :
    WellFounded (C05.StrictStep leq widen) := by
  apply Subrelation.wf (r := InvImage r μ)
  · rintro x' x ⟨y, hy, rfl⟩
    exact hdec x y hy
  · exact InvImage.wf μ hr

/-- the hypothesis of `C05.run_terminates` from a decreasing measure -/
theorem C05.widenStep_wf_of_measure {A B : Type} (c : Ctx A) (r : B → B → Prop)
    (hr : WellFounded r) (μ : A → B)
    (hdec : ∀ x y, c.ops.leq y x = false → r (μ (c.ops.widen x y)) (μ x)) :
    WellFounded (WidenStep c) :=
  C05.strictStep_wf_of_measure c.ops.leq c.ops.widen r hr μ hdec

/-- natural-number measures -/
theorem C05.widenStep_wf_of_nat_measure {A : Type} (c : Ctx A) (μ : A → Nat)
    (hdec : ∀ x y, c.ops.leq y x = false → μ (c.ops.widen x y) < μ x) :
    WellFounded (WidenStep c) :=
  C05.widenStep_wf_of_measure c (· < ·) Nat.lt_wfRel.wf μ hdec

/-- a widening that (i) is an upper bound of its right argument for a transitive inclusion test
    and (ii) strictly decreases a natural-number measure on every **non-stationary** step
    (`x ∇ y ⋢ x`) satisfies the chain condition of the engine: a step with `y ⋢ x` cannot be
    stationary -/
theorem C05.widenStep_wf_of_upper_bound {A : Type} (c : Ctx A) (μ : A → Nat)
    (htrans : ∀ a b d, c.ops.leq a b = true → c.ops.leq b d = true → c.ops.leq a d = true)
    (hub : ∀ x y, c.ops.leq y (c.ops.widen x y) = true)
    (hdec : ∀ x y, c.ops.leq (c.ops.widen x y) x = false → μ (c.ops.widen x y) < μ x) :
    WellFounded (WidenStep c) := by
  apply C05.widenStep_wf_of_nat_measure c μ
  intro x y hy
  apply hdec
  cases hst : c.ops.leq (c.ops.widen x y) x
  · rfl
  · rw [htrans y _ x (hub x y) hst] at hy
    exact absurd hy (by decide)

/-- hence every analysis run over such a value type terminates -/
theorem C05.run_terminates_of_upper_bound {A : Type} (c : Ctx A) (μ : A → Nat)
    (htrans : ∀ a b d, c.ops.leq a b = true → c.ops.leq b d = true → c.ops.leq a d = true)
    (hub : ∀ x y, c.ops.leq y (c.ops.widen x y) = true)
    (hdec : ∀ x y, c.ops.leq (c.ops.widen x y) x = false → μ (c.ops.widen x y) < μ x)
    (w : List Comp) : ∃ fuel st, run c fuel w = some st :=
  C05.run_terminates c w (C05.widenStep_wf_of_upper_bound c μ htrans hub hdec)

/-- **arbitrary sequences**: along `x₀, xₙ₊₁ = xₙ ∇ yₙ` with arbitrary further values `yₙ`, a
    covered value (`yₙ ⊑ xₙ`, the test on which the iterator stops) occurs within the first
    `μ x₀ + 1` steps -/
theorem C05.chain_first_stationary {A : Type} (leq : A → A → Bool) (widen : A → A → A) (μ : A → Nat)
    (hdec : ∀ x y, leq y x = false → μ (widen x y) < μ x)
    (xs ys : Nat → A) (hstep : ∀ n, xs (n + 1) = widen (xs n) (ys n)) :
    ∃ n, n ≤ μ (xs 0) ∧ leq (ys n) (xs n) = true := by
  suffices h : ∀ k m, μ (xs m) ≤ k → ∃ n, m ≤ n ∧ n ≤ m + μ (xs m) ∧ leq (ys n) (xs n) = true by
    obtain ⟨n, _, h2, h3⟩ := h (μ (xs 0)) 0 (Nat.le_refl _)
    exact ⟨n, by omega, h3⟩
  intro k
  induction k with
  | zero =>
    intro m hm
    cases hl : leq (ys m) (xs m)
    · have := hdec (xs m) (ys m) hl
      omega
    · exact ⟨m, Nat.le_refl _, by omega, hl⟩
  | succ k ih =>
    intro m hm
    cases hl : leq (ys m) (xs m)
    · have hlt := hdec (xs m) (ys m) hl
      rw [← hstep m] at hlt
      obtain ⟨n, h1, h2, h3⟩ := ih (m + 1) (by omega)
      exact ⟨n, by omega, by omega, h3⟩
    · exact ⟨m, Nat.le_refl _, by omega, hl⟩

/-! ## intervals (`interval<z_number>::operator||`) -/

/-- the interval widening in the engine's form: every context whose order test and widening are
    the interval ones satisfies the chain condition -/
theorem C05.itv_widenStep_wf (c : Ctx Itv) (hleq : c.ops.leq = Itv.leq) (hw : c.ops.widen = Itv.widen) :
    WellFounded (WidenStep c) := by
  apply C05.widenStep_wf_of_nat_measure c Itv.wmeasure
  intro x y h
  rw [hleq] at h
  rw [hw]
  exact (C08.itv_widen_measure x y h).1

/-- any interval sequence `xₙ₊₁ = xₙ ∇ yₙ` meets a covered `yₙ` within the first four steps -/
theorem C05.itv_chain_first_stationary (xs ys : Nat → Itv)
    (hstep : ∀ n, xs (n + 1) = Itv.widen (xs n) (ys n)) :
    ∃ n, n ≤ 3 ∧ Itv.leq (ys n) (xs n) = true := by
  obtain ⟨n, h1, h2⟩ := C05.chain_first_stationary Itv.leq Itv.widen Itv.wmeasure
    (fun x y h => (C08.itv_widen_measure x y h).1) xs ys hstep
  have hle : Itv.wmeasure (xs 0) ≤ 3 := by
    cases hb : Itv.leq (Itv.single 0) (xs 0)
    · exact (C08.itv_widen_measure (xs 0) (Itv.single 0) hb).2
    · unfold Itv.wmeasure; split
      · exact Nat.le_refl _
      · split <;> split <;> omega
  exact ⟨n, by omega, h2⟩

/-! ## congruences (`congruence::operator||` = join) -/


/-- a strict congruence widening step lowers (rank, |modulus|) lexicographically -/
theorem C05.cong_widen_measure (x y : Cong) (h : Cong.leq y x = false) :
    Prod.Lex (· < ·) (· < ·) (Cong.wmeas (Cong.widen x y)) (Cong.wmeas x) := Cong.widen_wmeas_lt h

/-- chain condition of the congruence widening (on all values, normalised or not) -/
theorem C05.cong_widen_wf : WellFounded (C05.StrictStep Cong.leq Cong.widen) :=
  C05.strictStep_wf_of_measure Cong.leq Cong.widen _ (Prod.lex Nat.lt_wfRel Nat.lt_wfRel).wf Cong.wmeas
    (fun x y h => C05.cong_widen_measure x y h)

theorem C05.cong_widenStep_wf (c : Ctx Cong) (hleq : c.ops.leq = Cong.leq) (hw : c.ops.widen = Cong.widen) :
    WellFounded (WidenStep c) := by
  rw [C05.widenStep_eq, hleq, hw]
  exact C05.cong_widen_wf

/-! ## constants (`constant::operator||` = join) -/

/-- height of a constant value: bottom 2, a number 1, top 0 -/
def C05.cstMeasure : Cst → Nat
  | .bot => 2
  | .val _ => 1
  | .top => 0

theorem C05.cst_widen_measure (x y : Cst) (h : Cst.leq y x = false) :
    C05.cstMeasure (Cst.widen x y) < C05.cstMeasure x := by
  cases x <;> cases y <;>
    simp_all [Cst.leq, Cst.widen, Cst.join, Cst.isBottom, Cst.isTop, C05.cstMeasure]
  rename_i a b
  have hne : ¬ a = b := fun e => h e.symm
  simp [hne]

theorem C05.cst_widen_wf : WellFounded (C05.StrictStep Cst.leq Cst.widen) :=
  C05.strictStep_wf_of_measure Cst.leq Cst.widen (· < ·) Nat.lt_wfRel.wf C05.cstMeasure
    C05.cst_widen_measure

theorem C05.cst_widenStep_wf (c : Ctx Cst) (hleq : c.ops.leq = Cst.leq) (hw : c.ops.widen = Cst.widen) :
    WellFounded (WidenStep c) := by
  rw [C05.widenStep_eq, hleq, hw]
  exact C05.cst_widen_wf

/-- at most two strict steps from any constant value -/
theorem C05.cst_chain_first_stationary (xs ys : Nat → Cst)
    (hstep : ∀ n, xs (n + 1) = Cst.widen (xs n) (ys n)) :
    ∃ n, n ≤ 2 ∧ Cst.leq (ys n) (xs n) = true := by
  obtain ⟨n, h1, h2⟩ := C05.chain_first_stationary Cst.leq Cst.widen C05.cstMeasure
    C05.cst_widen_measure xs ys hstep
  have : C05.cstMeasure (xs 0) ≤ 2 := by cases xs 0 <;> simp [C05.cstMeasure]
  exact ⟨n, by omega, h2⟩

/-! ## signs (`sign_domain::operator||` = join of the extracted table) -/

/-- number of classes (negative, zero, positive) a sign value excludes -/
def C05.sgnMeasure (s : Sign) : Nat := (Cls.all.filter (fun c => !s.has c)).length

/-- the sign widening (the extracted join table) as a total function; `top` where the table has
    no entry (there is none: `C08.sgn_table_complete`) -/
def C05.sgnWiden (x y : Sign) : Sign := (Sign.binop .join x y).getD .top
def C05.sgnLeq (x y : Sign) : Bool := (Sign.leq x y).getD true

theorem C05.sgn_widen_measure (x y : Sign) (h : C05.sgnLeq y x = false) :
    C05.sgnMeasure (C05.sgnWiden x y) < C05.sgnMeasure x := by
  revert h
  cases x <;> cases y <;> decide +kernel

theorem C05.sgn_widen_wf : WellFounded (C05.StrictStep C05.sgnLeq C05.sgnWiden) :=
  C05.strictStep_wf_of_measure C05.sgnLeq C05.sgnWiden (· < ·) Nat.lt_wfRel.wf C05.sgnMeasure
    C05.sgn_widen_measure

/-- at most three strict steps from any sign value -/
theorem C05.sgn_chain_first_stationary (xs ys : Nat → Sign)
    (hstep : ∀ n, xs (n + 1) = C05.sgnWiden (xs n) (ys n)) :
    ∃ n, n ≤ 3 ∧ C05.sgnLeq (ys n) (xs n) = true := by
  obtain ⟨n, h1, h2⟩ := C05.chain_first_stationary C05.sgnLeq C05.sgnWiden C05.sgnMeasure
    C05.sgn_widen_measure xs ys hstep
  have : C05.sgnMeasure (xs 0) ≤ 3 := by cases xs 0 <;> decide
  exact ⟨n, by omega, h2⟩

/-! ## the interval domain (`interval_domain<z_number>`) through the generic lemma -/

/-- the measure of `C05.idom_widen_measure` fits the generic lemma (lexicographic order) -/
theorem C05.idom_strictStep_wf : WellFounded (C05.StrictStep IDom.Env.leq IDom.Env.widen) :=
  C05.strictStep_wf_of_measure IDom.Env.leq IDom.Env.widen _ (Prod.lex Nat.lt_wfRel Nat.lt_wfRel).wf
    IDom.Env.wmeas (fun x y h => C05.idom_widen_measure x y h)

/-! ## non-vacuity -/

example : Cong.leq (Cong.ofInt 7) (Cong.ofInt 3) = false ∧
    Cong.widen (Cong.ofInt 3) (Cong.ofInt 7) = ⟨false, 4, 3⟩ ∧
    Cong.leq (Cong.ofInt 5) ⟨false, 4, 3⟩ = false ∧
    Cong.widen ⟨false, 4, 3⟩ (Cong.ofInt 5) = ⟨false, 2, 1⟩ := by decide

example : C05.sgnLeq .gtz .eqz = false ∧ C05.sgnWiden .eqz .gtz = .gez ∧
    C05.sgnMeasure .gez < C05.sgnMeasure .eqz := by decide +kernel

example : Cst.leq (.val 2) (.val 1) = false ∧ Cst.widen (.val 1) (.val 2) = .top := by decide
