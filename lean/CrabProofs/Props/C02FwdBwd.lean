import CrabProofs.Lemmas.FwdBwdRun
import CrabProofs.Props.C01Engine

/-!
# C02 — the verdicts of the combined forward+backward analyzer (dominator-based discharge)

Model: `CrabModel/Analysis/FwdBwd.lean` (`runFB` = `intra_forward_backward_analyzer::run`,
`discharge` = `discharge_assertions`, `dominates`, `idomTree` = the tree built from
`graph_algo::dominator_tree`, `checkBlockFB` = the checker with `m_safe_assertions`).
Semantics: `CrabModel/IR/Semantics.lean`; `Arrives`, `FailsFrom`, `ErrArr`, `CoFail` (model file §4).

**What the code discharges** (`C02.discharge_exact`): when the tree is not empty, every assertion
located in a block `m` that is a PROPER descendant, in the immediate-dominator tree rooted at
`m_cfg.entry()`, of a block `n` of the CFG whose entry in `refined_assumptions` is bottom; when
the tree is empty (no block other than the entry is reachable, or Boost < 1.62), every assertion
if the entry of the entry block is bottom.  `refined_assumptions[n]` is the meet, over the
refinement iterations run so far, of the backward values at the ENTRY of `n` (and of the caller's
assumption), so it speaks about all the statements of `n`.

**What is proved**: the argument justifies more than the code uses — a bottom value at the entry
of `n` makes every assertion of every block dominated by `n` safe, `n` included
(`C02.bottom_block_no_failure_after`), back edges included (every visit of `m` is preceded by a
visit of `n` in the same execution; the lemma `arrives_through` needs no acyclicity).  The code
only uses strict descendants, so it never discharges too much: no defect in the discharge rule.

* (a) `C02.bottom_block_no_failure_after`, `C02.bottom_block_trace_safe`,
      `C02.dominated_discharge_sound`, `C02.tree_discharge_sound`;
* (b) `C02.dominators_sound` (the tree the model computes, every graph, every round bound),
      `C02.sdom_checker_sound` (the decidable strict-dominance test);
* (c) `C02.bwd_values_cover`, `C02.refine_keeps_cover`, `C02.refined_forward_sound` (the loop
      invariant `ErrCoverT`: every entry of the assumption table contains the states of the
      executions from the initial states that go on to violate an assertion),
      `C02.run_result_sound`, `C02.fwdbwd_checker_sound` (verdict `safe`),
      `C02.fwdbwd_unreachable_sound_partial` (verdict `unreachable`, `use_refined_invariants` off);
* a genuine finding: `run(entry, ...)` with `entry ≠ m_cfg.entry()` discharges with a dominator
  tree whose root is not the block where the executions start: an assertion that fails is
  reported `safe` — `C02.fwdbwd_checker_sound_Statement`, `C02.fwdbwd_checker_sound_counterexample`;
  all theorems about `runFB` carry the decidable hypothesis `x.cfgEntry = p.entry`;
* a genuine finding: with `use_refined_invariants = true` the stored "invariants" only describe
  the error-reaching executions, and the checker reports `unreachable` for assertions that every
  execution reaches — `C02.fwdbwd_unreachable_counterexample` (file `C02FwdBwdEx.lean`, with the
  replay of the real analyzer); examples of (d) are in the same file.
-/
open Crab Crab.Fix Crab.IR Crab.Analysis

/-! ### (b) dominators -/

/-- the decidable strict-dominance test of the model is correct: if it answers `true`, every
    path from the entry to `n` contains `d`, and `d ≠ n` -/
theorem C02.sdom_checker_sound (G : DGraph) (d n : Nat) (h : sdomB G d n = true) :
    (∀ l, PathTo G n l → d ∈ l) ∧ n ≠ d :=
  ⟨sdomB_sound G d n h, sdomB_ne G d n h⟩

/-- if the member function `dominates` answers `true` on the tree computed by the model, then
    every path of the CFG from the entry to `v` contains `u` — every graph (cycles, unreachable
    nodes, irreducible loops), every depth bound, every round bound of the closure -/
theorem C02.dominators_sound (G : DGraph) (fuel u v : Nat)
    (h : dominates (idomTree G) fuel u v = true) : ∀ l, PathTo G v l → u ∈ l :=
  dominates_sound G fuel u v h

/-! ### (a) a bottom backward value and the blocks it dominates -/

/-- if the table `X` contains, at every block, every state of an execution from `Init` that goes
    on to violate an assertion (the conclusion of `C11.bwd_precondition_sound`, see
    `C02.bwd_values_cover`) and `X d` is bottom, then no execution from the entry that arrives at
    `d` violates an assertion afterwards (in `d` or later) -/
theorem C02.bottom_block_no_failure_after {A : Type} (γ : A → State → Prop) (isBottom : A → Bool)
    (hbot : ∀ a σ, isBottom a = true → ¬ γ a σ) (p : Program) (Init : State → Prop) (X : Nat → A)
    (hX : ErrCover p Init γ X) (d : Nat) (hd : isBottom (X d) = true)
    (σ : State) (l : List Nat) (ha : Arrives p Init d σ l) : ¬ FailsFrom p d σ :=
  fun hf => hbot (X d) σ hd (hX d σ ⟨⟨l, ha⟩, hf⟩)

/-- the same on traces: once a run from an initial state has entered `d`, no continuation of it
    (whatever the remaining choices) contains a failed check -/
theorem C02.bottom_block_trace_safe {A : Type} (γ : A → State → Prop) (isBottom : A → Bool)
    (hbot : ∀ a σ, isBottom a = true → ¬ γ a σ) (p : Program) (Init : State → Prop) (X : Nat → A)
    (hX : ErrCover p Init γ X) (d : Nat) (hd : isBottom (X d) = true)
    (n : Nat) (σ0 : State) (ch : List Int) (h0 : Init σ0) (σd : State)
    (hen : Event.enter d σd ∈ IR.run p n σ0 ch)
    (n' : Nat) (ch' : List Int) (b j : Nat) (σ' : State) :
    Event.check b j σ' false ∉ exec p n' d σd ch' := by
  intro hc
  obtain ⟨l, hl⟩ := trace_arrives p Init n p.entry σ0 ch [p.entry] (Arrives.init σ0 h0) d σd hen
  exact C02.bottom_block_no_failure_after γ isBottom hbot p Init X hX d hd σd l hl
    (exec_fail_failsFrom p n' d σd ch' b j σ' hc)

/-- the discharge rule: `X d` bottom and `d` dominates `m` (every path from the entry to `m`
    passes through `d`; `d = m` allowed) ⇒ no assertion of `m` is ever violated -/
theorem C02.dominated_discharge_sound {A : Type} (γ : A → State → Prop) (isBottom : A → Bool)
    (hbot : ∀ a σ, isBottom a = true → ¬ γ a σ) (p : Program) (Init : State → Prop) (X : Nat → A)
    (hX : ErrCover p Init γ X) (d m : Nat) (hd : isBottom (X d) = true)
    (hdom : Dominates (progGraph p) d m)
    (n : Nat) (σ0 : State) (ch : List Int) (h0 : Init σ0) (j : Nat) (σ' : State) (ok : Bool)
    (hev : Event.check m j σ' ok ∈ IR.run p n σ0 ch) : ok = true := by
  cases ok with
  | true => rfl
  | false =>
    exfalso
    obtain ⟨σ, l, ha, hf⟩ := run_fail_arrives p Init n σ0 ch h0 m j σ' hev
    obtain ⟨σd, ⟨ld, had⟩, hfd⟩ := arrives_through p Init m σ l ha d
      (hdom l (arrives_path p Init m σ l ha)) (FailsFrom.here m σ hf)
    exact C02.bottom_block_no_failure_after γ isBottom hbot p Init X hX d hd σd ld had hfd

/-- the rule as the code applies it: `dominates(d, m, idom_tree)` answers `true` -/
theorem C02.tree_discharge_sound {A : Type} (γ : A → State → Prop) (isBottom : A → Bool)
    (hbot : ∀ a σ, isBottom a = true → ¬ γ a σ) (p : Program) (Init : State → Prop) (X : Nat → A)
    (hX : ErrCover p Init γ X) (d m fuel : Nat) (hd : isBottom (X d) = true)
    (hdom : dominates (idomTree (progGraph p)) fuel d m = true)
    (n : Nat) (σ0 : State) (ch : List Int) (h0 : Init σ0) (j : Nat) (σ' : State) (ok : Bool)
    (hev : Event.check m j σ' ok ∈ IR.run p n σ0 ch) : ok = true :=
  C02.dominated_discharge_sound γ isBottom hbot p Init X hX d m hd
    (C02.dominators_sound (progGraph p) fuel d m hdom) n σ0 ch h0 j σ' ok hev

/-- exactly which assertions `discharge_assertions` marks (see the header) -/
theorem C02.discharge_exact {A : Type} (o : FBOps A) (tree : List (Nat × List Nat)) (nodes : List Nat)
    (entry : Nat) (asm : AsmTable A) (asserts : List (Nat × Nat)) (kv : Nat × Nat) :
    kv ∈ (discharge o tree nodes entry asm ⟨asserts, []⟩).proved ↔
    kv ∈ asserts ∧
    ((tree ≠ [] ∧ ∃ n, n ∈ nodes ∧ botAt o asm n = true ∧
        dominates tree (tree.length + 1) n kv.1 = true) ∨
     (tree = [] ∧ botAt o asm entry = true)) :=
  Crab.Analysis.discharge_exact o tree nodes entry asm asserts kv

/-! ### (c) the refinement loop -/

/-- from the conclusion of C11 to the invariant: if the forward invariants `F` contain the
    error-reaching states and `B` contains every state from which an assertion violation is
    reachable along an execution consistent with `F`, then `B` contains the error-reaching
    states -/
theorem C02.bwd_values_cover {A : Type} (γ : A → State → Prop) (p : Program) (Init : State → Prop)
    (F B : Nat → A) (hF : ErrCover p Init γ F)
    (hB : ∀ n σ, CoFail p (fun n s => γ (F n) s) n σ → γ (B n) σ) : ErrCover p Init γ B :=
  fun b σ he => hB b σ (errArr_coFail p Init γ F hF b σ he)

/-- `refine`: the new assumption table (the backward value, met with the old entry when there is
    one) still contains the error-reaching states -/
theorem C02.refine_keeps_cover {A : Type} (γ : A → State → Prop) (o : FBOps A) (p : Program)
    (Init : State → Prop) (hmeet : ∀ a b σ, γ a σ → γ b σ → γ (o.meet a b) σ) (nodes : List Nat)
    (old : AsmTable A) (bv : Nat → A) (hold : ErrCoverT p Init γ old) (hbv : ErrCover p Init γ bv) :
    ErrCoverT p Init γ (refineAll o nodes old bv).2 :=
  refineAll_cover γ o p Init hmeet nodes old bv hold hbv

/-- the forward pass of a refinement iteration, on the proved engine (`C01.run_sound`): run with
    an assumption map that holds on the error-reaching states (`asmOk` = the filter `strengthen`
    applies), the `pre` table contains the error-reaching states.  It is NOT an invariant of the
    other executions. -/
theorem C02.refined_forward_sound {A : Type} (c : Ctx A) (w : List Comp) (p : Program)
    (sem : Sem c State) (hentry : c.entry = p.entry)
    (hpreds : ∀ b n, n ∈ (p.block b).succs → b ∈ c.preds n)
    (hstep : ∀ b σ σ', BlockStep p b σ σ' → sem.step b σ σ')
    (hwf : WtoWF c w) (fuel : Nat) (st : St A) (hrun : Crab.Fix.run c fuel w = some st)
    (hasm : ∀ b σ, ErrArr p (sem.γ c.init) b σ → asmOk c sem b σ) :
    ErrCover p (sem.γ c.init) sem.γ st.pre := by
  intro b σ he
  apply (C01.run_sound c w State sem fuel st hwf hrun).1
  obtain ⟨⟨l, ha⟩, hf⟩ := he
  induction ha with
  | init σ hi =>
    have := ReachPre.init (c := c) (sem := sem) σ hi
      (by rw [hentry]; exact hasm p.entry σ ⟨⟨_, Arrives.init σ hi⟩, hf⟩)
    rwa [hentry] at this
  | step b m σ σ' l ha hs hm ih =>
    have hpre := ih (FailsFrom.step b m σ σ' hs hm hf)
    exact ReachPre.flow b m σ' (hpreds b m hm) (ReachPost.step b σ σ' hpre (hstep b σ σ' hs))
      (hasm m σ' ⟨⟨_, Arrives.step b m σ σ' l ha hs hm⟩, hf⟩)

/-- the result of `run` started at `m_cfg.entry()` (`hce`), every parameter setting: the stored
    invariants contain the error-reaching states, and every discharged assertion is an assertion of the program located
    in a block from which no execution from the initial states can fail -/
theorem C02.run_result_sound {A : Type} (γ : A → State → Prop) (x : FBCtx A) (p : Program)
    (Init : State → Prop) (hs : FBSound γ x p Init) (hce : x.cfgEntry = p.entry) :
    ErrCover p Init γ (runFB x p).pre ∧
    ∀ kv, kv ∈ (runFB x p).proved → kv ∈ gatherAsserts p ∧ SafeBlock p Init kv.1 :=
  runFB_good γ x p Init hs hce

/-- the full statement for the verdict `safe`: every `entry` argument of `run`.  False for the
    code as it is (`C02.fwdbwd_checker_sound_counterexample` in `C02FwdBwdEx.lean`): the
    dominator tree is rooted at `m_cfg.entry()` even when the forward pass starts elsewhere. -/
def C02.fwdbwd_checker_sound_Statement : Prop :=
  ∀ (A : Type) (D : CheckDom A) (tr : Stmt → A → A) (x : FBCtx A) (p : Program) (Init : State → Prop),
    TrSound D tr → FBSound D.γ x p Init →
    ∀ n σ0 ch, Init σ0 → ∀ b j σ' ok v, Event.check b j σ' ok ∈ IR.run p n σ0 ch →
      (j, v) ∈ checkBlockFB D tr p (runFB x p) b → v = CheckKind.safe → ok = true

/-- C02 for the forward+backward analyzer, verdict `safe` (forward rule OR discharged), every
    parameter setting (`max_refine_iterations`, `use_refined_invariants`), every program, every
    execution, for `run` started at the entry block of the CFG (`hce`, decidable; always true for
    the overload of `run` without `entry` argument): under the contract `FBSound` (domain
    operations sound; forward pass sound on the error-reaching executions — C01,
    `C02.refined_forward_sound`; backward values = the C11 conclusion) an assertion reported
    `safe` is never violated. -/
theorem C02.fwdbwd_checker_sound {A : Type} (D : CheckDom A) (tr : Stmt → A → A) (htr : TrSound D tr)
    (x : FBCtx A) (p : Program) (Init : State → Prop) (hs : FBSound D.γ x p Init)
    (hce : x.cfgEntry = p.entry)
    (n : Nat) (σ0 : State) (ch : List Int) (h0 : Init σ0)
    (b j : Nat) (σ' : State) (ok : Bool) (v : CheckKind)
    (hev : Event.check b j σ' ok ∈ IR.run p n σ0 ch)
    (hv : (j, v) ∈ checkBlockFB D tr p (runFB x p) b) (hsafe : v = .safe) : ok = true := by
  cases ok with
  | true => rfl
  | false =>
    exfalso
    obtain ⟨σ, ch', hen, hc⟩ := exec_check_of_enter p n p.entry σ0 ch b j σ' false hev
    obtain ⟨l, ha⟩ := trace_arrives p Init n p.entry σ0 ch [p.entry] (Arrives.init σ0 h0) b σ hen
    have hf : FailsFrom p b σ := FailsFrom.here b σ ⟨ch', j, σ', hc⟩
    obtain ⟨hpre, hproved⟩ := C02.run_result_sound D.γ x p Init hs hce
    have hγ : D.γ ((runFB x p).pre b) σ := hpre b σ ⟨⟨l, ha⟩, hf⟩
    have := (checkStmtsFB_sound D tr htr (fun i => (runFB x p).proved.contains (b, i)) b
      (p.block b).stmts 0 _ σ ch' hγ j σ' false v hc hv).2 hsafe
    rcases this with h1 | h1
    · have hmem : (b, j) ∈ (runFB x p).proved := by simpa using h1
      exact (hproved (b, j) hmem).2 σ l ha hf
    · cases h1

/-- the same under the name required for a statement that does not hold in full -/
theorem C02.fwdbwd_checker_sound_partial {A : Type} (D : CheckDom A) (tr : Stmt → A → A)
    (htr : TrSound D tr) (x : FBCtx A) (p : Program) (Init : State → Prop) (hs : FBSound D.γ x p Init)
    (hce : x.cfgEntry = p.entry)
    (n : Nat) (σ0 : State) (ch : List Int) (h0 : Init σ0)
    (b j : Nat) (σ' : State) (ok : Bool) (v : CheckKind)
    (hev : Event.check b j σ' ok ∈ IR.run p n σ0 ch)
    (hv : (j, v) ∈ checkBlockFB D tr p (runFB x p) b) (hsafe : v = .safe) : ok = true :=
  C02.fwdbwd_checker_sound D tr htr x p Init hs hce n σ0 ch h0 b j σ' ok v hev hv hsafe

/-- the full statement for the verdict `unreachable` (false for the code as it is, see
    `C02.fwdbwd_unreachable_counterexample` in `C02FwdBwdEx.lean`): given moreover that the first
    forward pass returns invariants of ALL executions (C01) -/
def C02.fwdbwd_unreachable_sound_Statement : Prop :=
  ∀ (A : Type) (D : CheckDom A) (tr : Stmt → A → A) (x : FBCtx A) (p : Program) (Init : State → Prop),
    TrSound D tr → FBSound D.γ x p Init → x.cfgEntry = p.entry →
    (∀ n σ0 ch b σ, Init σ0 → Event.enter b σ ∈ IR.run p n σ0 ch → D.γ (x.fwd x.assumptions b) σ) →
    ∀ n σ0 ch, Init σ0 → ∀ b j σ' ok v, Event.check b j σ' ok ∈ IR.run p n σ0 ch →
      (j, v) ∈ checkBlockFB D tr p (runFB x p) b → v ≠ CheckKind.unreachable

/-- verdict `unreachable`, with the explicit decidable hypothesis `use_refined_invariants = false`
    (the default): the checker then works on the invariants of the first forward pass
    (`runFB_pre_first`), and an assertion reported `unreachable` is never executed -/
theorem C02.fwdbwd_unreachable_sound_partial {A : Type} (D : CheckDom A) (tr : Stmt → A → A)
    (htr : TrSound D tr) (x : FBCtx A) (p : Program) (Init : State → Prop)
    (hu : x.params.useRefined = false)
    (hfull : ∀ n σ0 ch b σ, Init σ0 → Event.enter b σ ∈ IR.run p n σ0 ch →
      D.γ (x.fwd x.assumptions b) σ)
    (n : Nat) (σ0 : State) (ch : List Int) (h0 : Init σ0)
    (b j : Nat) (σ' : State) (ok : Bool) (v : CheckKind)
    (hev : Event.check b j σ' ok ∈ IR.run p n σ0 ch)
    (hv : (j, v) ∈ checkBlockFB D tr p (runFB x p) b) : v ≠ .unreachable := by
  obtain ⟨σ, ch', hen, hc⟩ := exec_check_of_enter p n p.entry σ0 ch b j σ' ok hev
  have hγ : D.γ ((runFB x p).pre b) σ := by
    rw [runFB_pre_first x p hu]
    exact hfull n σ0 ch b σ h0 hen
  exact (checkStmtsFB_sound D tr htr (fun i => (runFB x p).proved.contains (b, i)) b
    (p.block b).stmts 0 _ σ ch' hγ j σ' ok v hc hv).1

/-- without `use_refined_invariants` the invariants handed to the checker (and to every other
    client of `get_pre`) are those of the plain forward analysis with the caller's assumptions -/
theorem C02.stored_invariants_first_pass {A : Type} (x : FBCtx A) (p : Program)
    (hu : x.params.useRefined = false) : (runFB x p).pre = x.fwd x.assumptions :=
  runFB_pre_first x p hu

/-- the loop of the model is the loop of the code: the iteration reached with
    `iters > max_refine_iterations` always leaves the loop -/
theorem C02.loop_exits_at_limit {A : Type} (x : FBCtx A) (p : Program) (tree : List (Nat × List Nat))
    (onlyFwd : Bool) (asserts : List (Nat × Nat)) (iters : Nat) (asm : AsmTable A) (stored : Nat → A)
    (h : iters > x.params.maxRefine) :
    ∃ r, fbIter x p tree onlyFwd asserts iters asm stored = .done r :=
  fbIter_done_of_limit x p tree onlyFwd asserts iters asm stored h
