import CrabProofs.Props.C01Prog
import CrabProofs.Lemmas.AbsTransformerChecker
import CrabProofs.Lemmas.AbsTransformerItvLaws

/-!
# C01 (transformer part) — `intra_abs_transformer` and `fwd_analyzer` are sound

Model: `CrabModel/Analysis/AbsTransformer.lean` — `execStmtE` = `intra_abs_transformer::exec`
(one branch per statement kind of the CrabIR fragment, the two `conv_op` tables,
`m_ignore_assert`, the `CrabSanityCheckFlag` epilogues, `none` = CRAB_ERROR), `analyze` =
`fwd_analyzer::analyze` (fold over the block, then `prune_dead_variables`), over an abstract
domain given as the record `NDom` of the methods these classes call.  Concrete side:
`CrabModel/IR/Semantics.lean`.

* `C01.exec_stmt_sound` : one statement, every kind, both flags, from the per-method laws
  `NDom.Laws` (what C03 proves of a domain).  Executions that stop (false `assume`, division by
  zero, `unreachable`), fail an `assert`, or leave crab's reading of an operation have no
  successor state: `C01.exec_no_successor` — nothing leaves the block, nothing is claimed.
* `C01.exec_no_crab_error`, `C01.exec_sanity_flag_only_aborts` : the CRAB_ERRORs of `exec`.
* `C01.exec_block_sound`, `C01.block_transformer_is_sem`, `C01.analyzer_sound` : the block
  transformer satisfies the `Sem` contract of the proved engine (`C01.run_sound`), hence the
  tables of the analyzer contain every state an execution arrives at / leaves a block with —
  C01 for the whole intra-procedural forward analyzer modulo per-method domain soundness.
* `C01.prune_dead_sound`, `C01.prune_checker_sound` : liveness pruning.
* `C01.idom_analyzer_sound` : the instance for the exact model of `interval_domain`.

Hypotheses about variable indices: statements define declared variables (`Program.defsOk`) and
the initial state has exactly the declared variables (`Shape`); the executable semantics ignores
a write to an undeclared index, which no domain does.
-/
open Crab Crab.Fix Crab.IR Crab.Analysis

/-! ### 1. one statement -/

/-- C01, one statement: if `σ ∈ γ(inv)`, the statement steps `σ → σ'` and `exec` returns `inv'`
    (whatever `m_ignore_assert` and the sanity flag are), then `σ' ∈ γ(inv')`. -/
theorem C01.exec_stmt_sound {A : Type} (D : NDom A) (L : D.Laws) (cfg : TrCfg) (nI nB : Nat)
    (s : Stmt) (inv inv' : A) (σ σ' : State) (ch : Int) (hd : s.defOk nI nB = true)
    (hsh : Shape nI nB σ) (hg : D.γ inv σ) (hs : stepStmt s σ ch = .next σ')
    (he : execStmtE D cfg s inv = some inv') : D.γ inv' σ' ∧ Shape nI nB σ' :=
  ⟨execStmtE_sound D L cfg nI nB s inv inv' σ σ' ch hd hsh hg hs he, stepStmt_shape hsh hs⟩

/-- the same for the transformer as it runs by default (sanity flag off): it is total -/
theorem C01.exec_stmt_sound_default {A : Type} (D : NDom A) (L : D.Laws) (ignoreAssert : Bool)
    (nI nB : Nat) (s : Stmt) (inv : A) (σ σ' : State) (ch : Int) (hd : s.defOk nI nB = true)
    (hsh : Shape nI nB σ) (hg : D.γ inv σ) (hs : stepStmt s σ ch = .next σ') :
    D.γ (execStmt D ignoreAssert s inv) σ' :=
  execStmtE_sound D L ⟨ignoreAssert, false⟩ nI nB s inv _ σ σ' ch hd hsh hg hs
    (execStmtE_sanity_off D ignoreAssert s inv)

/-- with the sanity flag off `exec` raises no CRAB_ERROR (in particular every
    `binary_operation_t` is in one of the two `conv_op` tables) -/
theorem C01.exec_no_crab_error {A : Type} (D : NDom A) (ignoreAssert : Bool) (s : Stmt) (inv : A) :
    execStmtE D ⟨ignoreAssert, false⟩ s inv = some (execStmt D ignoreAssert s inv) :=
  execStmtE_sanity_off D ignoreAssert s inv

/-- switching the sanity flag on never changes a result: it can only abort the analysis -/
theorem C01.exec_sanity_flag_only_aborts {A : Type} (D : NDom A) (ignoreAssert : Bool) (s : Stmt)
    (inv r : A) (h : execStmtE D ⟨ignoreAssert, true⟩ s inv = some r) :
    r = execStmt D ignoreAssert s inv := by
  have := execStmtE_sanity_mono D ignoreAssert s inv r h
  rw [execStmtE_sanity_off] at this
  exact (Option.some.inj this).symm

/-- a statement without successor state (false `assume`, division by zero, `unreachable`, failed
    `assert`, operation outside crab's reading) ends the execution of the block: no state
    leaves the block, so soundness asks nothing of the abstract result -/
theorem C01.exec_no_successor (b i : Nat) (s : Stmt) (ss : List Stmt) (σ : State) (ch : List Int)
    (h : ∀ c σ1, stepStmt s σ c ≠ .next σ1) (σ' : State) :
    (runStmts b i (s :: ss) σ ch).res ≠ .next σ' := by
  intro hr
  obtain ⟨σ1, c, _, hs, _⟩ := runStmts_cons_next b i s ss σ σ' ch hr
  exact h c σ1 hs

/-- the cases the semantics stops on -/
example (σ : State) (ch : Int) : stepStmt (.binop .sdiv 0 1 (.const 0)) σ ch = .stop := by
  simp [stepStmt, evalBin, Operand.eval]
example (σ : State) (ch : Int) : stepStmt (.assert ⟨.lt, ⟨0, []⟩⟩) σ ch = .fail := by
  simp [stepStmt, Cst.holds, Lin.eval]
example (σ : State) (ch : Int) : stepStmt .unreachable σ ch = .stop := rfl

/-- `exec(int_cast_t&)` (no cast statement in the IR fragment: the concrete step is
    `dst := src`, and for `zext` the source fits its width), from the law of the one method it
    calls -/
theorem C01.exec_int_cast_sound {A : Type} (D : NDom A) (cfg : TrCfg) (op : CastOp)
    (dst src bw : Nat) (inv inv' : A) (σ : State)
    (hlaw : ∀ a σ, D.γ a σ → dst < σ.iv.size → (convCast op = .zext → σ.geti src ≤ 2 ^ bw - 1) →
      D.γ (D.intCast a (convCast op) dst src bw) (σ.seti dst (σ.geti src)))
    (hd : dst < σ.iv.size) (hz : op = .zext → σ.geti src ≤ 2 ^ bw - 1) (hg : D.γ inv σ)
    (he : execIntCastE D cfg op dst src bw inv = some inv') :
    D.γ inv' (σ.seti dst (σ.geti src)) := by
  unfold execIntCastE at he
  rw [sanityGuard_some he]
  refine hlaw inv σ hg hd (fun h => hz ?_)
  cases op <;> simp [convCast] at h ⊢

/-! ### 2. blocks, the engine contract, the analyzer -/

/-- C01, the loop of `analyze` over a statement list: every state with which an execution leaves
    the list is described by the result of the fold -/
theorem C01.exec_block_sound {A : Type} (D : NDom A) (L : D.Laws) (cfg : TrCfg) (nI nB b i : Nat)
    (ss : List Stmt) (inv inv' : A) (σ σ' : State) (ch : List Int)
    (hd : ∀ s ∈ ss, s.defOk nI nB = true) (hsh : Shape nI nB σ) (hg : D.γ inv σ)
    (hr : (runStmts b i ss σ ch).res = .next σ') (he : execStmtsE D cfg ss inv = some inv') :
    D.γ inv' σ' ∧ Shape nI nB σ' :=
  (execStmtsE_sound D L cfg nI nB b ss i inv inv' σ σ' ch hd hsh hg hr he).symm

/-- `fwd_analyzer::analyze` (fold, then pruning of the dead variables) is sound w.r.t. the
    executable block semantics, with or without a liveness object -/
theorem C01.analyze_sound {A : Type} (D : NDom A) (L : D.Laws) (cfg : FwdCfg) (p : Program)
    (hp : p.defsOk = true) (node : Nat) (inv : A) (σ σ' : State) (hsh : Shape p.nI p.nB σ)
    (hg : D.γ inv σ) (hst : BlockStep p node σ σ') :
    D.γ (analyze D cfg p node inv) σ' ∧ Shape p.nI p.nB σ' :=
  (Analysis.analyze_sound D L cfg p hp node inv σ σ' hsh hg hst).symm

/-- the block transformer built from `exec` satisfies the contract `Sem` of `C01.run_sound`:
    there is a `Sem` instance for the analyzer's iterator context whose concretisation is the one
    of the domain (on states with the declared variables) and whose block relation is the
    executable block semantics -/
theorem C01.block_transformer_is_sem {A : Type} (D : NDom A) (L : D.Laws) (ops : Fix.Ops A)
    (LL : LatLaws ops D.γ) (cfg : FwdCfg) (p : Program) (hp : p.defsOk = true)
    (preds : Nat → List Nat) (nesting : Nat → Option (List Nat)) (init : A)
    (assumptions : Option (List (Nat × A))) (delay descending : Nat) :
    ∃ sem : Sem (mkCtx D ops cfg p preds nesting init assumptions delay descending) State,
      (∀ a σ, sem.γ a σ ↔ (Shape p.nI p.nB σ ∧ D.γ a σ)) ∧
      (∀ n σ σ', sem.step n σ σ' ↔ BlockStep p n σ σ') :=
  ⟨analyzerSem D L ops LL cfg p hp preds nesting init assumptions delay descending,
   fun _ _ => Iff.rfl, fun _ _ _ => Iff.rfl⟩

/-- the context `mkCtx` with the predecessor lists of the program and no assumption reads the
    program -/
theorem C01.reads_mkCtx {A : Type} (D : NDom A) (ops : Fix.Ops A) (cfg : FwdCfg) (p : Program)
    (nesting : Nat → Option (List Nat)) (init : A) (delay descending : Nat) :
    C01.Reads (mkCtx D ops cfg p (predsOf p) nesting init none delay descending) p where
  entry := rfl
  preds := fun b n h => predsOf_covers p b n h
  noAsm := rfl

/-- **C01 for the intra-procedural forward analyzer**: engine + `intra_abs_transformer` +
    (optional) liveness pruning.  For every domain record satisfying the method laws and the
    lattice laws, every program whose statements define declared variables, every well-formed
    ordering, fixpoint parameters, `m_ignore_assert`, liveness object: the tables the analyzer
    returns (`get_pre` / `get_post`) contain every concrete state with which an execution started
    in a state of the initial value arrives at / leaves a block. -/
theorem C01.analyzer_sound {A : Type} (D : NDom A) (L : D.Laws) (ops : Fix.Ops A)
    (LL : LatLaws ops D.γ) (cfg : FwdCfg) (p : Program) (hp : p.defsOk = true)
    (preds : Nat → List Nat) (nesting : Nat → Option (List Nat)) (init : A)
    (assumptions : Option (List (Nat × A))) (delay descending : Nat) (w : List Comp)
    (hr : C01.Reads (mkCtx D ops cfg p preds nesting init assumptions delay descending) p)
    (hwf : WtoWF (mkCtx D ops cfg p preds nesting init assumptions delay descending) w)
    (fuel : Nat) (st : St A)
    (hrun : Fix.run (mkCtx D ops cfg p preds nesting init assumptions delay descending) fuel w = some st)
    (σ0 : State) (hsh : Shape p.nI p.nB σ0) (hinit : D.γ init σ0) (n : Nat) (ch : List Int) :
    (∀ b σ, Event.enter b σ ∈ IR.run p n σ0 ch → D.γ (st.pre b) σ) ∧
    (∀ b σ, Event.leave b σ ∈ IR.run p n σ0 ch → D.γ (st.post b) σ) := by
  have h := C01.program_sound _ w p
    (analyzerSem D L ops LL cfg p hp preds nesting init assumptions delay descending) hr
    (fun _ _ _ h => h) hwf fuel st hrun σ0 ⟨hsh, hinit⟩ n ch
  exact ⟨fun b σ he => (h.1 b σ he).2, fun b σ he => (h.2 b σ he).2⟩

/-! ### 3. liveness pruning -/

/-- `prune_dead_variables`: forgetting variables only enlarges the concretisation, so the pruned
    invariant still contains every concrete state — for ANY set the liveness object reports
    (no hypothesis on the liveness analysis is needed for soundness; what liveness buys is
    precision: C18 is the statement that the forgotten variables are irrelevant afterwards) -/
theorem C01.prune_dead_sound {A : Type} (D : NDom A) (L : D.Laws) (dead : Nat → List AVar)
    (formals : List AVar) (node : Nat) (inv : A) (σ : State) (hg : D.γ inv σ) :
    D.γ (pruneDead D (some dead) formals node inv) σ :=
  pruneDead_sound D L (some dead) formals node inv σ hg

/-- without a liveness object nothing is pruned; a bottom or top invariant is left alone -/
theorem C01.prune_dead_noop {A : Type} (D : NDom A) (dead : Nat → List AVar) (formals : List AVar)
    (node : Nat) (inv : A) :
    pruneDead D none formals node inv = inv ∧
    ((D.isBottom inv || D.isTop inv) = true → pruneDead D (some dead) formals node inv = inv) := by
  refine ⟨rfl, fun h => ?_⟩
  simp only [pruneDead, h, if_true]

/-- the invariants at block entries AND exits stay sound when the analyzer prunes at every block
    exit whatever `dead_exit` returns (`C01.analyzer_sound` with a liveness object) -/
theorem C01.prune_dead_analyzer_sound {A : Type} (D : NDom A) (L : D.Laws) (ops : Fix.Ops A)
    (LL : LatLaws ops D.γ) (ignoreAssert : Bool) (dead : Nat → List AVar) (formals : List AVar)
    (p : Program) (hp : p.defsOk = true) (nesting : Nat → Option (List Nat)) (init : A)
    (delay descending : Nat) (w : List Comp) (fuel : Nat) (st : St A)
    (hwf : WtoWF (mkCtx D ops ⟨ignoreAssert, some dead, formals⟩ p (predsOf p) nesting init none
      delay descending) w)
    (hrun : Fix.run (mkCtx D ops ⟨ignoreAssert, some dead, formals⟩ p (predsOf p) nesting init none
      delay descending) fuel w = some st)
    (σ0 : State) (hsh : Shape p.nI p.nB σ0) (hinit : D.γ init σ0) (n : Nat) (ch : List Int) :
    (∀ b σ, Event.enter b σ ∈ IR.run p n σ0 ch → D.γ (st.pre b) σ) ∧
    (∀ b σ, Event.leave b σ ∈ IR.run p n σ0 ch → D.γ (st.post b) σ) :=
  C01.analyzer_sound D L ops LL ⟨ignoreAssert, some dead, formals⟩ p hp (predsOf p) nesting init none
    delay descending w (C01.reads_mkCtx D ops _ p nesting init delay descending) hwf fuel st hrun
    σ0 hsh hinit n ch

/-- pruning never makes the assertion checker answer `safe` (or `unreachable`) wrongly: the
    checker (`intra_checker::run`) re-propagates the block-entry invariants of the analyzer —
    computed with pruning at every block exit, for any liveness answer — with the analyzer's own
    transformer; an assert it classifies `unreachable` is not executed and one it classifies
    `safe` does not fail, in any execution from a state of the initial value. -/
theorem C01.prune_checker_sound {A : Type} (D : NDom A) (L : D.Laws) (ops : Fix.Ops A)
    (LL : LatLaws ops D.γ) (cfg : FwdCfg) (p : Program) (hp : p.defsOk = true)
    (preds : Nat → List Nat) (nesting : Nat → Option (List Nat)) (init : A)
    (assumptions : Option (List (Nat × A))) (delay descending : Nat) (w : List Comp)
    (hr : C01.Reads (mkCtx D ops cfg p preds nesting init assumptions delay descending) p)
    (hwf : WtoWF (mkCtx D ops cfg p preds nesting init assumptions delay descending) w)
    (fuel : Nat) (st : St A)
    (hrun : Fix.run (mkCtx D ops cfg p preds nesting init assumptions delay descending) fuel w = some st)
    (C : CheckDom A) (hC : C.γ = D.γ)
    (σ0 : State) (hsh : Shape p.nI p.nB σ0) (hinit : D.γ init σ0) (n : Nat) (ch : List Int)
    (b j : Nat) (σ' : State) (ok : Bool) (v : CheckKind)
    (hev : Event.check b j σ' ok ∈ IR.run p n σ0 ch)
    (hv : (j, v) ∈ checkBlock C (execStmt D cfg.ignoreAssert) p st.pre b) :
    v ≠ .unreachable ∧ (v = .safe → ok = true) := by
  obtain ⟨σ, ch', hen, hc⟩ := exec_check_of_enter p n p.entry σ0 ch b j σ' ok hev
  have h := (C01.program_sound _ w p
    (analyzerSem D L ops LL cfg p hp preds nesting init assumptions delay descending) hr
    (fun _ _ _ h => h) hwf fuel st hrun σ0 ⟨hsh, hinit⟩ n ch).1 b σ hen
  exact checkBlock_sound_exec D L C hC cfg.ignoreAssert p hp st.pre b σ ch' h.1 h.2 j σ' ok v hc hv

/-! ### 4. the interval domain -/

/-- **C01 ∘ C03 for `interval_domain`**: the forward analyzer run on the exact model of the
    interval domain (`ItvN.dom`: every method one call of `Crab.IDom`; method laws `ItvN.laws`
    from the soundness theorems of Props/C03Itv.lean) returns invariants that contain every
    concrete state — every program, ordering, fixpoint parameters, `m_ignore_assert`, liveness
    object. -/
theorem C01.idom_analyzer_sound (cfg : FwdCfg) (p : Program) (hp : p.defsOk = true)
    (preds : Nat → List Nat) (nesting : Nat → Option (List Nat)) (init : IDom.SEnv)
    (assumptions : Option (List (Nat × IDom.SEnv))) (delay descending : Nat) (w : List Comp)
    (hr : C01.Reads (mkCtx ItvN.dom IDom.SEnv.ops cfg p preds nesting init assumptions delay descending) p)
    (hwf : WtoWF (mkCtx ItvN.dom IDom.SEnv.ops cfg p preds nesting init assumptions delay descending) w)
    (fuel : Nat) (st : St IDom.SEnv)
    (hrun : Fix.run (mkCtx ItvN.dom IDom.SEnv.ops cfg p preds nesting init assumptions delay descending)
      fuel w = some st)
    (σ0 : State) (hsh : Shape p.nI p.nB σ0) (hinit : ItvN.dom.γ init σ0) (n : Nat) (ch : List Int) :
    (∀ b σ, Event.enter b σ ∈ IR.run p n σ0 ch → ItvN.dom.γ (st.pre b) σ) ∧
    (∀ b σ, Event.leave b σ ∈ IR.run p n σ0 ch → ItvN.dom.γ (st.post b) σ) :=
  C01.analyzer_sound ItvN.dom ItvN.laws IDom.SEnv.ops ItvN.latLaws cfg p hp preds nesting init
    assumptions delay descending w hr hwf fuel st hrun σ0 hsh hinit n ch

/-- read on the variables: the value of every integer variable at a block entry is in the
    interval the analyzer reports for it -/
theorem C01.idom_analyzer_sound_at (cfg : FwdCfg) (p : Program) (hp : p.defsOk = true)
    (preds : Nat → List Nat) (nesting : Nat → Option (List Nat)) (init : IDom.SEnv)
    (assumptions : Option (List (Nat × IDom.SEnv))) (delay descending : Nat) (w : List Comp)
    (hr : C01.Reads (mkCtx ItvN.dom IDom.SEnv.ops cfg p preds nesting init assumptions delay descending) p)
    (hwf : WtoWF (mkCtx ItvN.dom IDom.SEnv.ops cfg p preds nesting init assumptions delay descending) w)
    (fuel : Nat) (st : St IDom.SEnv)
    (hrun : Fix.run (mkCtx ItvN.dom IDom.SEnv.ops cfg p preds nesting init assumptions delay descending)
      fuel w = some st)
    (σ0 : State) (hsh : Shape p.nI p.nB σ0) (hinit : ItvN.dom.γ init σ0) (n : Nat) (ch : List Int)
    (b : Nat) (σ : State) (he : Event.enter b σ ∈ IR.run p n σ0 ch) (x : Nat) :
    (st.pre b).1.bottom = false ∧ Itv.mem (σ.geti x) ((st.pre b).1.get (2 * x)) := by
  have h := (C01.idom_analyzer_sound cfg p hp preds nesting init assumptions delay descending w hr hwf
    fuel st hrun σ0 hsh hinit n ch).1 b σ he
  refine ⟨h.1, ?_⟩
  have := h.2 (2 * x)
  rwa [ItvN.view_int] at this

/-! ### example: a three-block program with a loop, liveness pruning at the exit of `B0`

Replayed on the real analyzer (`python3 tools/hrun.py h_prog_1 --source h_prog --define -DVDOM=1 --
--ops f`, request `(prog.fwd intervals (params 1 1 0 1) (ivars v0 v1) (bvars b0) (entry B0)
(exit B2) (init) (blocks (B0 (stmts (assign v0 (lin 0)) (assign v1 (lin 5)) (bassign b0 (le (lin 0
(1 v0))))) (succs B1)) (B1 (stmts (assume (le (lin -9 (1 v0)))) (add v0 v0 1)) (succs B1 B2)) (B2
(stmts (assume (le (lin 10 (-1 v0)))) (mul v1 v0 2) (assert (le (lin -20 (1 v1))))) (succs))))`):
the six invariants and the verdict of `C01.TrEx.run_eq` / `check_eq` are the ones it prints; with
`live = 0` it prints `v1 = [5,5]` at the exit of `B0` and at the entries of `B1`, `B2` instead. -/

/-- `B0: v0 := 0; v1 := 5; b0 := (v0 <= 0); goto B1`
    `B1: assume v0 <= 9; v0 := v0 + 1; goto B1, B2`
    `B2: assume v0 >= 10; v1 := v0 * 2; assert v1 <= 20` -/
def C01.TrEx.prog : Program :=
  ⟨2, 1, 0, 2,
   #[⟨[.assign 0 ⟨0, []⟩, .assign 1 ⟨5, []⟩, .bassign 0 ⟨.le, ⟨0, [(1, 0)]⟩⟩], [1]⟩,
     ⟨[.assume ⟨.le, ⟨-9, [(1, 0)]⟩⟩, .binop .add 0 0 (.const 1)], [1, 2]⟩,
     ⟨[.assume ⟨.le, ⟨10, [(-1, 0)]⟩⟩, .binop .mul 1 0 (.const 2),
       .assert ⟨.le, ⟨-20, [(1, 1)]⟩⟩], []⟩]⟩

def C01.TrEx.wto : List Comp := [.vertex 0, .cycle 1 [], .vertex 2]
def C01.TrEx.nesting : Nat → Option (List Nat) := fun n => if n ≤ 2 then some [] else none

/-- the answers of `live_and_dead_analysis::dead_exit` on this program: `v1` and `b0` are dead at
    the exit of `B0` (`(USE ∪ DEF)(B0) \ live_out(B0)`), nothing at the exit of `B1`; `B2` has an
    empty live-out set, for which the class records no dead set -/
def C01.TrEx.cfg : FwdCfg := ⟨false, some (fun n => if n = 0 then [.int 1, .bool 0] else []), []⟩

/-- widening delay 1, one descending iteration, initial value top, no assumption -/
def C01.TrEx.ctx : Ctx IDom.SEnv :=
  mkCtx ItvN.dom IDom.SEnv.ops C01.TrEx.cfg C01.TrEx.prog (predsOf C01.TrEx.prog) C01.TrEx.nesting
    IDom.SEnv.top none 1 1

theorem C01.TrEx.defsOk : C01.TrEx.prog.defsOk = true := by decide

/-- the run: `v0` is key `0`, `v1` is key `2`; widening at the head `B1`, one narrowing step;
    `v1 = 5` pruned from the exit invariant of `B0` -/
theorem C01.TrEx.run_eq :
    ((Fix.run C01.TrEx.ctx 10 C01.TrEx.wto).map fun st =>
      [0, 1, 2].map fun b => ((st.pre b).1, (st.post b).1)) =
    some [(⟨false, []⟩, ⟨false, [(0, Itv.single 0)]⟩),
          (⟨false, [(0, ⟨.fin 0, .fin 10⟩)]⟩, ⟨false, [(0, ⟨.fin 1, .fin 10⟩)]⟩),
          (⟨false, [(0, ⟨.fin 1, .fin 10⟩)]⟩, ⟨false, [(0, Itv.single 10), (2, Itv.single 20)]⟩)] := by decide

/-- the checker on these invariants: the assert of `B2` is `safe` -/
theorem C01.TrEx.check_eq :
    (Fix.run C01.TrEx.ctx 10 C01.TrEx.wto).map (fun st =>
      checkBlock ItvN.checkDom (execStmt ItvN.dom false) C01.TrEx.prog st.pre 2) =
    some [(2, .safe)] := by decide

theorem C01.TrEx.edges (q n : Nat) (h : q ∈ predsOf C01.TrEx.prog n) :
    (q = 0 ∧ n = 1) ∨ (q = 1 ∧ n = 1) ∨ (q = 1 ∧ n = 2) := by
  unfold predsOf at h
  rw [List.mem_filter, List.mem_range] at h
  obtain ⟨hq, hs⟩ := h
  have hq' : q < 3 := hq
  have : q = 0 ∨ q = 1 ∨ q = 2 := by omega
  rcases this with h | h | h <;> subst h <;> simp [Program.block, C01.TrEx.prog] at hs <;> omega

theorem C01.TrEx.nodes : nodesList C01.TrEx.wto = [0, 1, 2] := by decide

theorem C01.TrEx.wf : WtoWF C01.TrEx.ctx C01.TrEx.wto where
  nodup := by decide
  closed := by
    intro q n hq _
    rw [C01.TrEx.nodes]
    rcases C01.TrEx.edges q n hq with ⟨_, h⟩ | ⟨_, h⟩ | ⟨_, h⟩ <;> subst h <;> decide
  edge := by
    intro q n hq _ _
    rcases C01.TrEx.edges q n hq with ⟨h1, h2⟩ | ⟨h1, h2⟩ | ⟨h1, h2⟩ <;> subst h1 <;> subst h2 <;>
      decide
  entry_mem := by decide
  nesting_in := by
    intro n hn
    rw [C01.TrEx.nodes] at hn
    simp only [List.mem_cons, List.not_mem_nil, or_false] at hn
    rcases hn with h | h | h <;> subst h <;> decide
  nesting_out := by
    intro n hn
    rw [C01.TrEx.nodes] at hn
    simp only [List.mem_cons, List.not_mem_nil, or_false, not_or] at hn
    have h3 : ¬ n ≤ 2 := by omega
    simp [C01.TrEx.ctx, mkCtx, C01.TrEx.nesting, h3]

/-- an execution goes ten times round the loop and reaches `B2` with `v0 = 10` -/
example : ((IR.run C01.TrEx.prog 13 ⟨#[7, 7], #[false]⟩ [0, 0, 0, 0, 0, 0, 0, 0, 0, 1]).filterMap
    (fun e => match e with | .enter 2 σ => some (σ.geti 0) | _ => none)) = [10] := by decide

/-- the theorem applied to the example: whatever the run returns contains every state with which
    an execution from any initial state with two integer variables and one boolean arrives at a
    block; in particular at `B2` the value of `v0` is in the reported interval -/
example (fuel : Nat) (st : St IDom.SEnv) (h : Fix.run C01.TrEx.ctx fuel C01.TrEx.wto = some st)
    (σ0 : State)
    (hsh : Shape 2 1 σ0) (n : Nat) (ch : List Int) (σ : State)
    (he : Event.enter 2 σ ∈ IR.run C01.TrEx.prog n σ0 ch) : Itv.mem (σ.geti 0) ((st.pre 2).1.get 0) :=
  (C01.idom_analyzer_sound_at C01.TrEx.cfg C01.TrEx.prog C01.TrEx.defsOk (predsOf C01.TrEx.prog)
    C01.TrEx.nesting IDom.SEnv.top none 1 1 C01.TrEx.wto
    (C01.reads_mkCtx ItvN.dom IDom.SEnv.ops C01.TrEx.cfg C01.TrEx.prog C01.TrEx.nesting IDom.SEnv.top 1 1)
    C01.TrEx.wf fuel st h σ0 hsh
    (ItvN.γ_top σ0) n ch 2 σ he 0).2

/-- and the `safe` verdict of the example is right in every execution (`C01.prune_checker_sound`
    with the pruning liveness object of `C01.TrEx.cfg`) -/
example (fuel : Nat) (st : St IDom.SEnv) (h : Fix.run C01.TrEx.ctx fuel C01.TrEx.wto = some st)
    (σ0 : State)
    (hsh : Shape 2 1 σ0) (n : Nat) (ch : List Int) (σ' : State) (ok : Bool)
    (hev : Event.check 2 2 σ' ok ∈ IR.run C01.TrEx.prog n σ0 ch)
    (hv : (2, CheckKind.safe) ∈
      checkBlock ItvN.checkDom (execStmt ItvN.dom false) C01.TrEx.prog st.pre 2) :
    ok = true :=
  (C01.prune_checker_sound ItvN.dom ItvN.laws IDom.SEnv.ops ItvN.latLaws C01.TrEx.cfg C01.TrEx.prog
    C01.TrEx.defsOk (predsOf C01.TrEx.prog)
    C01.TrEx.nesting IDom.SEnv.top none 1 1 C01.TrEx.wto
    (C01.reads_mkCtx ItvN.dom IDom.SEnv.ops C01.TrEx.cfg C01.TrEx.prog C01.TrEx.nesting IDom.SEnv.top 1 1)
    C01.TrEx.wf fuel st h
    ItvN.checkDom rfl σ0 hsh (ItvN.γ_top σ0) n ch 2 2 σ' ok .safe hev hv).2 rfl



/-- without the liveness object the exit invariant of `B0` keeps `v1 = 5` (as the real analyzer
    run with `live = 0`) -/
example : ((Fix.run (mkCtx ItvN.dom IDom.SEnv.ops {} C01.TrEx.prog (predsOf C01.TrEx.prog)
      C01.TrEx.nesting IDom.SEnv.top none 1 1) 10 C01.TrEx.wto).map fun st => (st.post 0).1) =
    some ⟨false, [(0, Itv.single 0), (2, Itv.single 5)]⟩ := by decide

/-! ### example: one block with the statement kinds of the fragment

`init: v3 ∈ [2,7]`; the real analyzer (same replay command, `(init (v3 2 7))`, statements in the
order below) prints `post: v0 = [8,28], v1 = [0,12], v2 = [1,17], v3 = [0,2]`, booleans top, and
the verdicts `(B0 14 safe) (B0 15 warning)`; `x := y sdiv 0`, `x := y srem z` with `z = 0` and a
block containing `unreachable` give bottom — as the model below. -/

def C01.TrEx.allKinds : List Stmt :=
  [.assign 0 ⟨3, [(2, 3)]⟩, .binop .add 1 0 (.var 3), .binop .sdiv 2 1 (.const 2),
   .select 2 ⟨.le, ⟨-5, [(1, 3)]⟩⟩ ⟨1, []⟩ ⟨0, [(1, 0)]⟩, .bassign 0 ⟨.le, ⟨0, [(1, 0)]⟩⟩,
   .bcopy 1 0 true, .bbin .bor 2 0 1, .bassume 2 false, .bselect 1 0 1 2,
   .binop .and 1 0 (.const 12), .binop .shl 0 3 (.const 2), .havoc 3,
   .assume ⟨.lt, ⟨-4, [(1, 3)]⟩⟩, .binop .urem 3 3 (.const 3), .assert ⟨.le, ⟨-2, [(1, 3)]⟩⟩,
   .bassert 0]

/-- `v3 ∈ [2,7]` built as the harness builds it: `top += (v3 >= 2); += (v3 <= 7)` -/
def C01.TrEx.init : IDom.SEnv :=
  ItvN.dom.addCst (ItvN.dom.addCst IDom.SEnv.top ⟨.le, ⟨2, [(-1, 3)]⟩⟩) ⟨.le, ⟨-7, [(1, 3)]⟩⟩

theorem C01.TrEx.allKinds_eq :
    (execStmts ItvN.dom false C01.TrEx.allKinds C01.TrEx.init).1 =
      ⟨false, [(0, ⟨.fin 8, .fin 28⟩), (2, ⟨.fin 0, .fin 12⟩), (4, ⟨.fin 1, .fin 17⟩),
               (6, ⟨.fin 0, .fin 2⟩)]⟩ ∧
    checkStmts ItvN.checkDom (execStmt ItvN.dom false) 0 C01.TrEx.allKinds C01.TrEx.init =
      [(14, .safe), (15, .warning)] := by decide

theorem C01.TrEx.bottom_cases :
    (execStmts ItvN.dom false [.binop .sdiv 1 0 (.const 0)] IDom.SEnv.top).1.bottom = true ∧
    (execStmts ItvN.dom false [.assign 1 ⟨0, []⟩, .binop .srem 1 0 (.var 1)] IDom.SEnv.top).1.bottom = true ∧
    (execStmts ItvN.dom false [.assign 1 ⟨9, []⟩, .unreachable, .assign 1 ⟨1, []⟩]
      IDom.SEnv.top).1.bottom = true := by decide
