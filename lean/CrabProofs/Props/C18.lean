import CrabProofs.Lemmas.TIRWf
import CrabProofs.Lemmas.TIRDce

/-!
# C18 — a variable reported dead at the end of a block is irrelevant for the rest of every execution

Model: `CrabModel/Transform/TIR.lean` (semantics `Exec`), `CrabModel/Transform/Liveness.lean`
(specification liveness `LiveAt`, its executable least solution `specLiveOut` / the decidable
solution test `isSpecSol`, and the model `codedLiveOut` of `liveness_analysis` as coded).

* `C18.dead_irrelevant` (full): if `x` is dead at the end of block `l` for the specification
  liveness, then changing `x` there does not change the events, the final status or the function
  outputs of any execution.
* `C18.solution_dead_irrelevant` (full): the same for ANY live-out map that passes the decidable
  test `isSpecSol` (this is what the driver checks for `specLiveOut` on every program).
* coded liveness: `C18.coded_sound_Statement v` says that the liveness computed by version `v`
  of the code contains the specification liveness on every well-formed CFG ("reported dead ⇒
  dead").  It is proved for the current tree (`C18.coded_sound`, hence
  `C18.coded_dead_irrelevant`), and for any version under the two hypotheses that the fixes
  d9754d9 / 2ccd3fb made unnecessary (`C18.coded_sound_under`).  The statement is FALSE for the
  behaviour before those fixes, selected by the explicit flags of `Variant`
  (`C18.old_coded_unsound_unreachable`, `C18.old_coded_unsound_seed`,
  `C18.old_reported_dead_but_relevant`).
-/
open Crab Crab.TIR

/-- states that agree on the variables live at a configuration have the same executions -/
theorem C18.agree_on_live (P : Prog) (stmts : List Stmt) (l : Label) (σ σ' : State)
    (t : List Event) (o : Outcome) (hag : ∀ y, LiveAt P stmts l y → σ y = σ' y)
    (h : Exec P stmts l σ t o) : Exec P stmts l σ' t o :=
  exec_agree P h σ' hag

/-- a variable dead at the end of block `l` can be changed there without changing the rest of
    any execution: same events, same final status, same outputs -/
theorem C18.dead_irrelevant (P : Prog) (l : Label) (x : Var) (hdead : ¬ LiveAt P [] l x)
    (σ : State) (v : Int) (t : List Event) (o : Outcome) :
    Exec P [] l σ t o ↔ Exec P [] l (σ.set x v) t o := by
  constructor
  · intro h
    refine exec_agree P h _ ?_
    intro y hy
    have : y ≠ x := by intro hc; subst hc; exact hdead hy
    simp [State.set, this]
  · intro h
    refine exec_agree P h _ ?_
    intro y hy
    have : y ≠ x := by intro hc; subst hc; exact hdead hy
    simp [State.set, this]

/-- every live-out map accepted by the decidable test `isSpecSol` contains the specification
    liveness -/
theorem C18.solution_contains_live (P : Prog) (L : LiveMap) (hsol : isSpecSol P L = true)
    (hex : P.exitPresent) (l : Label) (x : Var) (h : LiveAt P [] l x) : x ∈ L l := by
  simpa [specIn] using liveAt_sub_sol P L hsol hex h

theorem C18.solution_dead_irrelevant (P : Prog) (L : LiveMap) (hsol : isSpecSol P L = true)
    (hwf : P.wf = true) (l : Label) (x : Var) (hdead : x ∉ L l)
    (σ : State) (v : Int) (t : List Event) (o : Outcome) :
    Exec P [] l σ t o ↔ Exec P [] l (σ.set x v) t o :=
  C18.dead_irrelevant P l x
    (fun h => hdead (C18.solution_contains_live P L hsol (wf_exitPresent hwf) l x h)) σ v t o

/-! ### the coded liveness -/

/-- FULL statement: on every well-formed CFG, for every iteration order that covers the blocks,
    the liveness computed by the code (variant `v`) contains the specification liveness, i.e.
    "reported dead ⇒ dead" -/
def C18.coded_sound_Statement (v : Variant) : Prop :=
  ∀ (P : Prog) (order : List Label) (L : LiveMap), P.wf = true → (∀ l, l ∈ P.labels → l ∈ order) →
    codedLiveOut v P order = some L → ∀ l x, LiveAt P [] l x → x ∈ L l

/-- any version of the code, under the two (decidable) hypotheses: no block contains
    `unreachable` (or fix d9754d9 is in), and the seed block is the exit (true with fix 2ccd3fb)
    or nothing is live at the exit -/
theorem C18.coded_sound_under (v : Variant) (P : Prog) (order : List Label) (L : LiveMap)
    (hwf : P.wf = true) (hord : ∀ l, l ∈ P.labels → l ∈ order)
    (hun : v.unreachGen = true ∨ P.noUnreachable = true)
    (hseed : ∀ x, P.exit = some x → seedLabel v P order = some x ∨ P.liveAtExit = [])
    (h : codedLiveOut v P order = some L) : ∀ l x, LiveAt P [] l x → x ∈ L l :=
  coded_sound (v := v) (order := order)
    ⟨hord, fun _ _ hl => wf_succ_labels hwf hl, wf_exitPresent hwf, hun, hseed⟩ h

/-- hence a variable the coded liveness reports dead is irrelevant (same hypotheses) -/
theorem C18.coded_dead_irrelevant_under (v : Variant) (P : Prog) (order : List Label) (L : LiveMap)
    (hwf : P.wf = true) (hord : ∀ l, l ∈ P.labels → l ∈ order)
    (hun : v.unreachGen = true ∨ P.noUnreachable = true)
    (hseed : ∀ x, P.exit = some x → seedLabel v P order = some x ∨ P.liveAtExit = [])
    (h : codedLiveOut v P order = some L) (l : Label) (x : Var) (hdead : x ∉ L l)
    (σ : State) (w : Int) (t : List Event) (o : Outcome) :
    Exec P [] l σ t o ↔ Exec P [] l (σ.set x w) t o :=
  C18.dead_irrelevant P l x
    (fun hl => hdead (C18.coded_sound_under v P order L hwf hord hun hseed h l x hl)) σ w t o

/-- the current tree satisfies the full statement -/
theorem C18.coded_sound : C18.coded_sound_Statement Variant.cur := by
  intro P order L hwf hord h
  refine C18.coded_sound_under Variant.cur P order L hwf hord (Or.inl rfl) ?_ h
  intro x hx
  left
  simp [seedLabel, Variant.cur, hx]

/-- hence: a variable that the current liveness reports dead at the end of a block (`x ∉ get(l)`)
    can be changed there without changing the rest of any execution -/
theorem C18.coded_dead_irrelevant (P : Prog) (order : List Label) (L : LiveMap)
    (hwf : P.wf = true) (hord : ∀ l, l ∈ P.labels → l ∈ order)
    (h : codedLiveOut Variant.cur P order = some L) (l : Label) (x : Var) (hdead : x ∉ L l)
    (σ : State) (w : Int) (t : List Event) (o : Outcome) :
    Exec P [] l σ t o ↔ Exec P [] l (σ.set x w) t o :=
  C18.dead_irrelevant P l x (fun hl => hdead (C18.coded_sound P order L hwf hord h l x hl)) σ w t o

/-! ### the behaviour before the fixes (explicit old flags) -/

/-- DESIGN §4 #7:  b0: v0 = 5; goto b1, b2     b1: assert(v0 >= 1); unreachable     b2 (exit) -/
def C18.progUnreachable : Prog :=
  { nvars := 1, entry := 0, exit := some 2, hasFd := false, ins := [], outs := [],
    blocks := [⟨0, [.assign 0 ⟨5, []⟩], [1, 2], []⟩,
               ⟨1, [.assert ⟨.le, ⟨1, [(-1, 0)]⟩⟩, .unreachable], [], [0]⟩,
               ⟨2, [], [], [0]⟩] }

theorem C18.old_coded_unsound_unreachable : ¬ C18.coded_sound_Statement Variant.old := by
  intro hS
  have hwf : C18.progUnreachable.wf = true := by decide
  have hord : ∀ l, l ∈ C18.progUnreachable.labels → l ∈ [2, 1, 0] := by decide
  have hout : (codedLiveOut Variant.old C18.progUnreachable [2, 1, 0]).map (fun L => L 0) = some [] := by
    decide
  cases hc : codedLiveOut Variant.old C18.progUnreachable [2, 1, 0] with
  | none => rw [hc] at hout; cases hout
  | some L =>
    rw [hc] at hout
    simp only [Option.map_some, Option.some.injEq] at hout
    have hlive : LiveAt C18.progUnreachable [] 0 0 :=
      LiveAt.goto (l' := 1) (by decide) (by decide) (LiveAt.here (by decide))
    have := hS _ _ L hwf hord hc 0 0 hlive
    rw [hout] at this
    cases this

/-- second sink:  b0: goto b1, b2     b1 (exit): v1 = 5     b2: (sink)     outputs {v1};
    with the order [b2, b1, b0] the outputs are made live at b2 instead of the exit b1 -/
def C18.progSeed : Prog :=
  { nvars := 2, entry := 0, exit := some 1, hasFd := true, ins := [0], outs := [1],
    blocks := [⟨0, [], [1, 2], []⟩, ⟨1, [.assign 1 ⟨5, []⟩], [], [0]⟩, ⟨2, [], [], [0]⟩] }

theorem C18.old_coded_unsound_seed : ¬ C18.coded_sound_Statement ⟨true, true, false⟩ := by
  intro hS
  have hwf : C18.progSeed.wf = true := by decide
  have hord : ∀ l, l ∈ C18.progSeed.labels → l ∈ [2, 1, 0] := by decide
  have hout : (codedLiveOut ⟨true, true, false⟩ C18.progSeed [2, 1, 0]).map (fun L => L 1) = some [] := by
    decide
  cases hc : codedLiveOut ⟨true, true, false⟩ C18.progSeed [2, 1, 0] with
  | none => rw [hc] at hout; cases hout
  | some L =>
    rw [hc] at hout
    simp only [Option.map_some, Option.some.injEq] at hout
    have hlive : LiveAt C18.progSeed [] 1 1 := LiveAt.out (by decide) (by decide)
    have := hS _ _ L hwf hord hc 1 1 hlive
    rw [hout] at this
    cases this

/-- the semantic content of the first counterexample: at the end of b0 the code reports v0 dead
    (`get(b0) = {}`), yet changing v0 there turns a passing assertion into a failing one -/
theorem C18.old_reported_dead_but_relevant :
    (codedLiveOut Variant.old C18.progUnreachable [2, 1, 0]).map (fun L => L 0) = some [] ∧
    Exec C18.progUnreachable [] 0 (fun _ => 5) [⟨true, ⟨.le, ⟨1, [(-1, 0)]⟩⟩, true⟩] .blocked ∧
    Exec C18.progUnreachable [] 0 (State.set (fun _ => 5) 0 0)
      [⟨true, ⟨.le, ⟨1, [(-1, 0)]⟩⟩, false⟩] .failed := by
  refine ⟨by decide, ?_, ?_⟩
  · refine Exec.goto (l' := 1) (by decide) (by decide) ?_
    show Exec C18.progUnreachable [.assert ⟨.le, ⟨1, [(-1, 0)]⟩⟩, .unreachable] 1 (fun _ => 5) _ _
    exact Exec.cont (σ' := fun _ => 5) (ev := some ⟨true, ⟨.le, ⟨1, [(-1, 0)]⟩⟩, true⟩) (t := []) 0 rfl
      (Exec.stop (ev := none) 0 rfl)
  · refine Exec.goto (l' := 1) (by decide) (by decide) ?_
    show Exec C18.progUnreachable [.assert ⟨.le, ⟨1, [(-1, 0)]⟩⟩, .unreachable] 1 _ _ _
    exact Exec.stop (ev := some ⟨true, ⟨.le, ⟨1, [(-1, 0)]⟩⟩, false⟩) 0 rfl

/-- a looping program with a function output -/
def C18.progLoop : Prog :=
  { nvars := 2, entry := 0, exit := some 2, hasFd := true, ins := [0], outs := [1],
    blocks := [⟨0, [.assign 1 ⟨0, []⟩], [1], []⟩,
               ⟨1, [.bin .add 1 (.var 1) (.var 0)], [1, 2], [0, 1]⟩,
               ⟨2, [.assert ⟨.le, ⟨0, [(-1, 1)]⟩⟩], [], [1]⟩] }

/-- non-vacuity of `C18.coded_sound`: the model of the current code runs on `progLoop` and
    computes non-trivial sets -/
example :
    C18.progLoop.wf = true ∧ C18.progLoop.noUnreachable = true ∧
    seedLabel Variant.cur C18.progLoop [2, 1, 0] = some 2 ∧
    (codedLiveOut Variant.cur C18.progLoop [2, 1, 0]).map (fun L => ((L 0).eraseDups, (L 1).eraseDups, (L 2).eraseDups))
      = some ([1, 0], [1, 0], [1]) := by
  decide
