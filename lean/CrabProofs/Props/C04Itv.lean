import CrabProofs.Lemmas.IDomInst
import CrabProofs.Lemmas.IDomThresholds

/-!
# C04 for `interval_domain<z_number>` — inclusion test, lattice operations and `entails` agree
with the concretisation (proved on the exact model `Crab.IDom`, see `Props/C03Itv.lean`)
-/
open Crab Crab.IDom Crab.Lin

/-- a yes answer of `operator<=` is an inclusion of concretisations -/
theorem C04.idom_leq_sound (a b : Env) (σ : State) (h : Env.leq a b = true) (hg : a.γ σ) : b.γ σ :=
  Env.leq_sound h hg

/-- yes on equal values, with bottom on the left, with top on the right -/
theorem C04.idom_leq_refl (a : Env) (hs : a.m.Sorted) : Env.leq a a = true := Env.leq_refl hs
theorem C04.idom_leq_bottom_left (a b : Env) (h : a.bottom = true) : Env.leq a b = true := Env.leq_of_bottom h b
theorem C04.idom_bot_leq (b : Env) : Env.leq Env.bot b = true := Env.bot_leq b
theorem C04.idom_leq_top (a : Env) : Env.leq a Env.top = true := Env.leq_top a

/-- `is_bottom` / `make_bottom` describe no state, `make_top` describes every state and is top -/
theorem C04.idom_is_bottom_sound (e : Env) (σ : State) (h : e.isBottom = true) : ¬ e.γ σ := Env.not_γ_bottom h σ
theorem C04.idom_bot_empty (σ : State) : ¬ Env.bot.γ σ := Env.not_γ_bot σ
theorem C04.idom_top_all (σ : State) : Env.top.γ σ := Env.γ_top σ
theorem C04.idom_is_top_sound (e : Env) (σ : State) (h : e.isTop = true) : e.γ σ := Env.γ_of_isTop h σ
theorem C04.idom_top_is_top : Env.top.isTop = true ∧ Env.bot.isBottom = true := by decide

/-- join contains both arguments (keys bound on one side only are dropped: they are top there) -/
theorem C04.idom_join_upper (a b : Env) (σ : State) (hs : a.m.Sorted) (h : a.γ σ ∨ b.γ σ) : (Env.join a b).γ σ :=
  h.elim (fun h => Env.join_upper_left hs b h) (fun h => Env.join_upper_right hs h)

/-- meet describes exactly the common states -/
theorem C04.idom_meet_iff (a b : Env) (σ : State) (hs : a.m.Sorted) : (Env.meet a b).γ σ ↔ (a.γ σ ∧ b.γ σ) :=
  ⟨Env.meet_exact, fun ⟨h1, h2⟩ => Env.meet_sound hs h1 h2⟩

/-- widening (plain and with thresholds) contains both arguments -/
theorem C04.idom_widen_upper (a b : Env) (σ : State) (hs : a.m.Sorted) (h : a.γ σ ∨ b.γ σ) : (Env.widen a b).γ σ :=
  h.elim (fun h => Env.widen_upper_left hs b h) (fun h => Env.widen_upper_right hs h)

theorem C04.idom_widen_thresholds_upper (ts : Thresholds) (hw : ts.WF) (a b : Env) (σ : State) (hs : a.m.Sorted)
    (h : a.γ σ ∨ b.γ σ) : (Env.widenTh ts a b).γ σ :=
  h.elim (fun h => Env.widenTh_upper_left hw hs b h) (fun h => Env.widenTh_upper_right hw hs h)

/-- narrowing keeps the common states -/
theorem C04.idom_narrow_sound (a b : Env) (σ : State) (hs : a.m.Sorted) (ha : a.γ σ) (hb : b.γ σ) :
    (Env.narrow a b).γ σ := Env.narrow_sound hs ha hb

/-- `entails(cst)`: a yes answer holds in every state of `γ` -/
theorem C04.idom_entails_sound (e : Env) (σ : State) (c : Cst) (hc : c.expr.Canonical) (hg : e.γ σ)
    (h : e.entails c = true) : c.sat σ := Env.entails_sound hg hc h

/-- `entails` uses `+=` on a single constraint that is never a disequation: there the lowering of
    `+=` does nothing (this is how the model breaks the recursion `+=` → `lower_disequality` →
    `entails` → `+=`) -/
theorem C04.idom_add_single_eq_addRaw (e : Env) (c : Cst) (h : c.kind ≠ .neq) : e.add [c] = e.addRaw [c] :=
  Env.add_single_eq_addRaw e h

/-- the map invariant is preserved by the lattice operations -/
theorem C04.idom_lattice_sorted (a b : Env) (ha : a.Sorted) (hb : b.Sorted) :
    (Env.join a b).Sorted ∧ (Env.meet a b).Sorted ∧ (Env.widen a b).Sorted ∧ (Env.narrow a b).Sorted :=
  ⟨Env.upperWith_sorted _ ha hb, Env.lowerWith_sorted _ ha b, Env.upperWith_sorted _ ha hb, Env.lowerWith_sorted _ ha b⟩

/-- non-vacuity -/
example : Env.leq (Env.top.set 0 (Itv.single 3)) (Env.top.set 0 ⟨.fin 0, .pinf⟩) = true ∧
    (Env.top.set 0 (Itv.single 3)).entails ⟨(Expr.var 0).subNum 5, .leq⟩ = true := by decide
