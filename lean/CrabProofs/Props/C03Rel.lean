import CrabProofs.Lemmas.RelDomItvEnv
import CrabProofs.Props.C03

/-!
# C03 for the relational domains — zones and octagons are sound under arbitrary histories

Models: the canonical (proved-exact, property C12) models `Crab.Zones` (difference-bound matrices,
Floyd–Warshall closure) and `Crab.Octagon` (coherent `2n × 2n` matrices, tight closure over the
integers), extended by `CrabModel/Dom/ZonesOps.lean` / `OctagonOps.lean` with `forget(vars)`,
`project`, the assignments expressible in the constraint language (defined through forget + assume,
a translation of the matrix for `x := x + k`, an exchange of literals for `x := -x`) and values
with an explicit bottom flag (`ZVal n`, `OVal n` = `Option` of a matrix).
Concretisation: `γv v σ` over integer states `σ : Fin n → Int` (`none` describes no state).

* every transformer is sound — and is even the EXACT post-image of its concrete relation
  (`C03.zones_stmt_exact`, `C03.oct_stmt_exact`: best transformers; octagons need the coherence
  invariant `OVal.Coh` for exactness only, which `C03.oct_history_coherent` maintains);
* join, meet (= narrowing of the code), widening are sound: for zones the widening IS the model of
  `split_dbm_domain::operator||` / `sparse_dbm_domain::operator||` (`Dom/DbmWiden.lean`, left
  operand unclosed); for octagons it is the textbook widening, NOT `split_oct_domain`'s
  (see `OctagonOps.lean`);
* `C03.zones_history_sound`, `C03.oct_history_sound`: instances of `C03.history_sound`.

Tie to the code: `h_exact` / `Driver/ExactH.lean` compares is_bottom / operator[] / entails of the
shipped domains with these models after every step of histories of assume / join / meet / forget.
The assignments, `project`, `forget(vars)` and the widenings of this file are NOT exercised by that
correspondence (the zones widening is, separately, by the `zw` chains of C05).
-/
open Crab Crab.Dbm

/-! ## Zones -/
section Zones
open Crab.Zones
variable {n : Nat}

/-- `+=` of one in-language constraint keeps every state that satisfies it -/
theorem C03.zones_assume_sound (z : Zone n) (c : Zones.Cst n) (σ : State n) (h : γ z σ) (hc : c.sat σ) :
    γ (assumeCst z c) σ := (Zones.assumeCst_exact z c σ).2 ⟨h, hc⟩

/-- `+=` of a system -/
theorem C03.zones_assume_system_sound (z : Zone n) (cs : List (Zones.Cst n)) (σ : State n) (h : γ z σ)
    (hc : ∀ c ∈ cs, c.sat σ) : γ (assumeAll z cs) σ := (Zones.assumeAll_exact z cs σ).2 ⟨h, hc⟩

theorem C03.zones_join_sound (a b : ZVal n) (σ : State n) (h : γv a σ ∨ γv b σ) : γv (ZVal.join a b) σ :=
  ZVal.join_upper a b σ h

theorem C03.zones_meet_sound (a b : ZVal n) (σ : State n) (ha : γv a σ) (hb : γv b σ) :
    γv (ZVal.meet a b) σ := (ZVal.meet_exact a b σ).2 ⟨ha, hb⟩

/-- `operator-=`: the state may change on `x` -/
theorem C03.zones_forget_sound (z : Zone n) (x : Fin n) (σ σ' : State n) (h : γ z σ)
    (hσ : ∀ y, y ≠ x → σ' y = σ y) : γ (forget z x) σ' := Zones.forget_sound' z x σ σ' h hσ

/-- `forget(vars)`: the state may change on the forgotten variables only -/
theorem C03.zones_forget_vector_sound (z : Zone n) (xs : List (Fin n)) (σ σ' : State n) (h : γ z σ)
    (hσ : ∀ y, y ∉ xs → σ' y = σ y) : γ (forgetAll z xs) σ' := Zones.forgetAll_sound xs z σ σ' h hσ

/-- `project(vars)`: the state is kept on the projected variables only -/
theorem C03.zones_project_sound (z : Zone n) (keep : List (Fin n)) (σ σ' : State n) (h : γ z σ)
    (hσ : ∀ y, y ∈ keep → σ' y = σ y) : γ (project z keep) σ' :=
  (Zones.project_exact keep z σ').2 ⟨σ, h, hσ⟩

/-- a copy describes the same states -/
theorem C03.zones_copy_sound (v : ZVal n) (σ : State n) : γv (ZVal.copy v) σ ↔ γv v σ := Iff.rfl

/-- `x := k` -/
theorem C03.zones_assign_cst_sound (z : Zone n) (x : Fin n) (k : Int) (σ : State n) (h : γ z σ) :
    γ (assignCst z x k) (updS σ x k) := (Zones.assignCst_exact z x k _).2 ⟨σ, h, rfl⟩

/-- `x := y + k` (also for `y = x`) -/
theorem C03.zones_assign_var_sound (z : Zone n) (x y : Fin n) (k : Int) (σ : State n) (h : γ z σ) :
    γ (assignVar z x y k) (updS σ x (σ y + k)) := (Zones.assignVar_exact z x y k _).2 ⟨σ, h, rfl⟩

/-- `x := x + k` translates the matrix -/
theorem C03.zones_shift_sound (z : Zone n) (x : Fin n) (k : Int) (σ : State n) (h : γ z σ) :
    γ (z.shiftBy (shiftVec x k)) (updS σ x (σ x + k)) := by
  have := C03.zones_assign_var_sound z x x k σ h
  simpa [assignVar] using this

/-- the widening of `split_dbm_domain` (left operand unclosed, right operand normalised) -/
theorem C03.zones_widen_sound (a b : ZVal n) (σ : State n) (h : γv a σ ∨ γv b σ) :
    γv (SplitDbm.widen a b) σ :=
  h.elim (widenE_upper splitEw_soundEw a b σ).1 (widenE_upper splitEw_soundEw a b σ).2

/-- the widening of `sparse_dbm_domain` -/
theorem C03.zones_sparse_widen_sound (a b : ZVal n) (σ : State n) (h : γv a σ ∨ γv b σ) :
    γv (SparseDbm.widen a b) σ :=
  h.elim (widenE_upper sparseEw_soundEw a b σ).1 (widenE_upper sparseEw_soundEw a b σ).2

/-- **every statement** (assume of a system, `x := k`, `x := y + k`, havoc, `forget(vars)`,
    `project(vars)`) on a value with bottom flag is sound … -/
theorem C03.zones_stmt_sound (st : Zones.Stmt n) (v : ZVal n) (σ σ' : State n) (h : γv v σ)
    (hr : st.rel σ σ') : γv (ZVal.exec st v) σ' := (ZVal.exec_exact st v σ').2 ⟨σ, h, hr⟩

/-- … and describes nothing but the post-image: the transformers are the best ones -/
theorem C03.zones_stmt_exact (st : Zones.Stmt n) (v : ZVal n) (σ' : State n) :
    γv (ZVal.exec st v) σ' ↔ ∃ σ, γv v σ ∧ st.rel σ σ' := ZVal.exec_exact st v σ'

/-- the steps an operation history of a zone domain is made of -/
inductive C03.ZonesStep {n : Nat} : Dom.Step (ZVal n) (State n) → Prop
  | trans (d : Nat) (st : Zones.Stmt n) : C03.ZonesStep (.trans d ⟨ZVal.exec st, st.rel⟩)
  | join (d a b : Nat) : C03.ZonesStep (.upper d a b ZVal.join)
  | widen (d a b : Nat) : C03.ZonesStep (.upper d a b SplitDbm.widen)
  | widenSparse (d a b : Nat) : C03.ZonesStep (.upper d a b SparseDbm.widen)
  | widenThresholds (d a b : Nat) (ts : List Int) :
      C03.ZonesStep (.upper d a b (fun x y => SplitDbm.widenThresholds x y ts))
  | meet (d a b : Nat) : C03.ZonesStep (.lower d a b ZVal.meet)      -- also `operator&&`
  | copy (d s : Nat) : C03.ZonesStep (.copy d s)
  | setBot (d : Nat) : C03.ZonesStep (.setBot d ZVal.bot)

theorem C03.zones_step_sound (st : Dom.Step (ZVal n) (State n)) (h : C03.ZonesStep st) : st.Sound γv := by
  cases h with
  | trans d s => exact fun a σ σ' hg hr => C03.zones_stmt_sound s a σ σ' hg hr
  | join d a b => exact fun x y σ h => C03.zones_join_sound x y σ h
  | widen d a b => exact fun x y σ h => C03.zones_widen_sound x y σ h
  | widenSparse d a b => exact fun x y σ h => C03.zones_sparse_widen_sound x y σ h
  | widenThresholds d a b ts => exact fun x y σ h => C03.zones_widen_sound x y σ h
  | meet d a b => exact fun x y σ h1 h2 => C03.zones_meet_sound x y σ h1 h2
  | copy d s => trivial
  | setBot d => trivial

/-- **C03 for zones**: after ANY history of these operations over a pool of values, every slot
    contains the collecting semantics of the history (instance of `C03.history_sound`) -/
theorem C03.zones_history_sound (hist : List (Dom.Step (ZVal n) (State n)))
    (hs : ∀ st ∈ hist, C03.ZonesStep st) (p : Dom.Pool (ZVal n)) (c : Dom.CPool (State n))
    (h : ∀ i s, c i s → γv (p i) s) :
    ∀ i s, (Dom.collHist c hist) i s → γv ((Dom.runHist p hist) i) s :=
  C03.history_sound γv hist (fun st hst => C03.zones_step_sound st (hs st hst)) p c h

/-- a slot whose collecting semantics is inhabited is never reported bottom (neither by the flag
    nor by a negative cycle after closure) -/
theorem C03.zones_not_bottom_if_inhabited (hist : List (Dom.Step (ZVal n) (State n)))
    (hs : ∀ st ∈ hist, C03.ZonesStep st) (p : Dom.Pool (ZVal n)) (c : Dom.CPool (State n))
    (h : ∀ i s, c i s → γv (p i) s) (i : Nat) (s : State n) (hc : (Dom.collHist c hist) i s) :
    ZVal.isBottom ((Dom.runHist p hist) i) = false :=
  C03.not_bottom_if_inhabited γv ZVal.isBottom (fun a s hb => (ZVal.isBottom_iff a).1 hb s) hist
    (fun st hst => C03.zones_step_sound st (hs st hst)) p c h i s hc

/-- the interval reported for a variable contains its value in every state of the history -/
theorem C03.zones_bounds_sound (z : Zone n) (σ : State n) (h : γ z σ) (x : Fin n) :
    Itv.mem (σ x) (bounds z x) := Zones.bounds_sound z σ h x

/-! ### non-vacuity (2 variables: `x` = 0, `y` = 1) -/

/-- `x := 5; y := x + 3` from top gives `y = 8`, `y - x = 3`; then `x := x + 1` gives `x = 6`,
    `y - x ≤ 2` -/
example :
    let z : Zone 2 := assignVar (assignCst Zones.top 0 5) 1 0 3
    bounds z 1 = ⟨.fin 8, .fin 8⟩ ∧ entails z (.diff 1 0 3) = true ∧ entails z (.diff 1 0 2) = false ∧
    bounds (assignVar z 0 0 1) 0 = ⟨.fin 6, .fin 6⟩ ∧ entails (assignVar z 0 0 1) (.diff 1 0 2) = true := by
  decide

/-- a history: slot 0 := `x ≤ 3 ∧ y - x ≤ 0`; slot 1 := copy; slot 1: `x := x + 1`;
    slot 2 := slot 0 ⊔ slot 1; slot 3 := slot 0 ∇ slot 2 — the relation `y ≤ x` survives both -/
example :
    let hist : List (Dom.Step (ZVal 2) (State 2)) :=
      [.trans 0 ⟨ZVal.exec (.assume [.ub 0 3, .diff 1 0 0]), (Zones.Stmt.assume [.ub 0 3, .diff 1 0 0]).rel⟩,
       .copy 1 0, .trans 1 ⟨ZVal.exec (.assignVar 0 0 1), (Zones.Stmt.assignVar 0 0 1).rel⟩,
       .upper 2 0 1 ZVal.join, .upper 3 0 2 SplitDbm.widen]
    let p := Dom.runHist (fun _ => ZVal.top) hist
    (p 2).map (fun z => (bounds z 0, entails z (.diff 1 0 0))) = some (⟨.ninf, .fin 4⟩, true) ∧
    (p 3).map (fun z => (bounds z 0, entails z (.diff 1 0 0))) = some (⟨.ninf, .pinf⟩, true) := by
  decide

example : C03.ZonesStep (n := 2) (.trans 1 ⟨ZVal.exec (.assignVar 0 0 1), (Zones.Stmt.assignVar 0 0 1).rel⟩) :=
  .trans 1 _

end Zones


/-! ## Octagons -/
section Octagons
open Crab.Octagon
variable {n : Nat}

theorem C03.oct_assume_sound (o : Oct n) (c : Octagon.Cst n) (σ : Octagon.State n) (h : γ o σ)
    (hc : c.sat σ) : γ (assumeCst o c) σ := (Octagon.assumeCst_exact o c σ).2 ⟨h, hc⟩

theorem C03.oct_assume_system_sound (o : Oct n) (cs : List (Octagon.Cst n)) (σ : Octagon.State n)
    (h : γ o σ) (hc : ∀ c ∈ cs, c.sat σ) : γ (assumeAll o cs) σ :=
  (Octagon.assumeAll_exact o cs σ).2 ⟨h, hc⟩

theorem C03.oct_join_sound (a b : OVal n) (σ : Octagon.State n) (h : γv a σ ∨ γv b σ) :
    γv (OVal.join a b) σ := OVal.join_upper a b σ h

theorem C03.oct_meet_sound (a b : OVal n) (σ : Octagon.State n) (ha : γv a σ) (hb : γv b σ) :
    γv (OVal.meet a b) σ := (OVal.meet_exact a b σ).2 ⟨ha, hb⟩

theorem C03.oct_forget_sound (o : Oct n) (x : Fin n) (σ σ' : Octagon.State n) (h : γ o σ)
    (hσ : ∀ y, y ≠ x → σ' y = σ y) : γ (forget o x) σ' := Octagon.forget_sound' o x σ σ' h hσ

theorem C03.oct_forget_vector_sound (o : Oct n) (xs : List (Fin n)) (σ σ' : Octagon.State n) (h : γ o σ)
    (hσ : ∀ y, y ∉ xs → σ' y = σ y) : γ (forgetAll o xs) σ' := Octagon.forgetAll_sound xs o σ σ' h hσ

theorem C03.oct_project_sound (o : Oct n) (keep : List (Fin n)) (σ σ' : Octagon.State n) (h : γ o σ)
    (hσ : ∀ y, y ∈ keep → σ' y = σ y) : γ (project o keep) σ' := Octagon.project_sound keep o σ σ' h hσ

/-- `x := k` -/
theorem C03.oct_assign_cst_sound (o : Oct n) (x : Fin n) (k : Int) (σ : Octagon.State n) (h : γ o σ) :
    γ (assignCst o x k) (Octagon.updS σ x k) := Octagon.assignCst_sound o x k σ h

/-- `x := y + k` (also for `y = x`: translation of the matrix) -/
theorem C03.oct_assign_var_sound (o : Oct n) (x y : Fin n) (k : Int) (σ : Octagon.State n) (h : γ o σ) :
    γ (assignVar o x y k) (Octagon.updS σ x (σ y + k)) := Octagon.assignVar_sound o x y k σ h

/-- `x := -y + k` (also for `y = x`: exchange of the literals of `x`, then translation) -/
theorem C03.oct_assign_neg_sound (o : Oct n) (x y : Fin n) (k : Int) (σ : Octagon.State n) (h : γ o σ) :
    γ (assignNeg o x y k) (Octagon.updS σ x (-σ y + k)) := Octagon.assignNeg_sound o x y k σ h

/-- the two matrix-level transformers are exact on every matrix -/
theorem C03.oct_shift_exact (o : Oct n) (x : Fin n) (k : Int) (σ' : Octagon.State n) :
    γ (o.shiftBy (Octagon.shiftVec x k)) σ' ↔ γ o (Octagon.updS σ' x (σ' x - k)) := shift_γ o x k σ'

theorem C03.oct_negate_exact (o : Oct n) (x : Fin n) (σ' : Octagon.State n) :
    γ (negate o x) σ' ↔ γ o (Octagon.updS σ' x (-σ' x)) := negate_γ o x σ'

/-- the textbook widening (kept entries of the unclosed left operand; NOT `split_oct`'s) -/
theorem C03.oct_widen_sound (a b : OVal n) (σ : Octagon.State n) (h : γv a σ ∨ γv b σ) :
    γv (OVal.widen a b) σ := OVal.widen_upper a b σ h

/-- **every statement** is sound on every value (coherent or not) … -/
theorem C03.oct_stmt_sound (st : Octagon.Stmt n) (v : OVal n) (σ σ' : Octagon.State n) (h : γv v σ)
    (hr : st.rel σ σ') : γv (OVal.exec st v) σ' := OVal.exec_sound st v σ σ' h hr

/-- … and on coherent values it describes nothing but the post-image (best transformer over the
    integers, by the completeness of the tight closure) -/
theorem C03.oct_stmt_exact (st : Octagon.Stmt n) (v : OVal n) (hco : OVal.Coh v) (σ' : Octagon.State n) :
    γv (OVal.exec st v) σ' ↔ ∃ σ, γv v σ ∧ st.rel σ σ' := OVal.exec_exact st v hco σ'

inductive C03.OctStep {n : Nat} : Dom.Step (OVal n) (Octagon.State n) → Prop
  | trans (d : Nat) (st : Octagon.Stmt n) : C03.OctStep (.trans d ⟨OVal.exec st, st.rel⟩)
  | join (d a b : Nat) : C03.OctStep (.upper d a b OVal.join)
  | widen (d a b : Nat) : C03.OctStep (.upper d a b OVal.widen)
  | meet (d a b : Nat) : C03.OctStep (.lower d a b OVal.meet)        -- also `operator&&`
  | copy (d s : Nat) : C03.OctStep (.copy d s)
  | setBot (d : Nat) : C03.OctStep (.setBot d OVal.bot)

theorem C03.oct_step_sound (st : Dom.Step (OVal n) (Octagon.State n)) (h : C03.OctStep st) :
    st.Sound γv := by
  cases h with
  | trans d s => exact fun a σ σ' hg hr => C03.oct_stmt_sound s a σ σ' hg hr
  | join d a b => exact fun x y σ h => C03.oct_join_sound x y σ h
  | widen d a b => exact fun x y σ h => C03.oct_widen_sound x y σ h
  | meet d a b => exact fun x y σ h1 h2 => C03.oct_meet_sound x y σ h1 h2
  | copy d s => trivial
  | setBot d => trivial

/-- **C03 for octagons** (instance of `C03.history_sound`) -/
theorem C03.oct_history_sound (hist : List (Dom.Step (OVal n) (Octagon.State n)))
    (hs : ∀ st ∈ hist, C03.OctStep st) (p : Dom.Pool (OVal n)) (c : Dom.CPool (Octagon.State n))
    (h : ∀ i s, c i s → γv (p i) s) :
    ∀ i s, (Dom.collHist c hist) i s → γv ((Dom.runHist p hist) i) s :=
  C03.history_sound γv hist (fun st hst => C03.oct_step_sound st (hs st hst)) p c h

theorem C03.oct_not_bottom_if_inhabited (hist : List (Dom.Step (OVal n) (Octagon.State n)))
    (hs : ∀ st ∈ hist, C03.OctStep st) (p : Dom.Pool (OVal n)) (c : Dom.CPool (Octagon.State n))
    (h : ∀ i s, c i s → γv (p i) s) (i : Nat) (s : Octagon.State n) (hc : (Dom.collHist c hist) i s) :
    OVal.isBottom ((Dom.runHist p hist) i) = false :=
  C03.not_bottom_if_inhabited γv OVal.isBottom (fun a s hb => OVal.isBottom_sound a hb s) hist
    (fun st hst => C03.oct_step_sound st (hs st hst)) p c h i s hc

/-- one step keeps every slot coherent -/
theorem C03.oct_step_coherent (st : Dom.Step (OVal n) (Octagon.State n)) (h : C03.OctStep st)
    (p : Dom.Pool (OVal n)) (hp : ∀ i, OVal.Coh (p i)) : ∀ i, OVal.Coh ((st.run p) i) := by
  intro i
  cases h with
  | trans d s =>
    simp only [Dom.Step.run, Dom.Pool.set]; split
    · exact OVal.coh_exec s _ (hp d)
    · exact hp i
  | join d a b =>
    simp only [Dom.Step.run, Dom.Pool.set]; split
    · exact OVal.coh_join _ _ (hp a) (hp b)
    · exact hp i
  | widen d a b =>
    simp only [Dom.Step.run, Dom.Pool.set]; split
    · exact OVal.coh_widen _ _ (hp a) (hp b)
    · exact hp i
  | meet d a b =>
    simp only [Dom.Step.run, Dom.Pool.set]; split
    · exact OVal.coh_meet _ _ (hp a) (hp b)
    · exact hp i
  | copy d s =>
    simp only [Dom.Step.run, Dom.Pool.set]; split
    · exact hp s
    · exact hp i
  | setBot d =>
    simp only [Dom.Step.run, Dom.Pool.set]; split
    · exact OVal.coh_bot
    · exact hp i

/-- coherence (`m i j = m j̄ ī`, the hypothesis of the exactness theorems of C04 / C12) holds of
    every slot after any history started from coherent values -/
theorem C03.oct_history_coherent (hist : List (Dom.Step (OVal n) (Octagon.State n)))
    (hs : ∀ st ∈ hist, C03.OctStep st) (p : Dom.Pool (OVal n)) (hp : ∀ i, OVal.Coh (p i)) :
    ∀ i, OVal.Coh ((Dom.runHist p hist) i) := by
  induction hist generalizing p with
  | nil => exact hp
  | cons st rest ih =>
    simp only [Dom.runHist, List.foldl_cons]
    exact ih (fun x hx => hs x (List.mem_cons_of_mem _ hx)) _
      (C03.oct_step_coherent st (hs st List.mem_cons_self) p hp)

theorem C03.oct_bounds_sound (o : Oct n) (σ : Octagon.State n) (h : γ o σ) (x : Fin n) :
    Itv.mem (σ x) (bounds o x) := Octagon.bounds_sound o σ h x

/-! ### non-vacuity (2 variables: `x` = 0, `y` = 1) -/

/-- `x := 5; y := -x + 3` gives `y = -2`, `x + y = 3`; then `x := -x + 1` gives `x = -4` and
    `y - x ≤ 2` (from `x + y ≤ 3` and `x ↦ 1 - x`) -/
example :
    let o : Oct 2 := assignNeg (assignCst Octagon.top 0 5) 1 0 3
    bounds o 1 = ⟨.fin (-2), .fin (-2)⟩ ∧ entails o (.sum 0 1 3) = true ∧ entails o (.sum 0 1 2) = false ∧
    bounds (assignNeg o 0 0 1) 0 = ⟨.fin (-4), .fin (-4)⟩ ∧ entails (assignNeg o 0 0 1) (.diff 1 0 2) = true ∧
    bounds (assignVar o 0 0 2) 0 = ⟨.fin 7, .fin 7⟩ := by
  decide

/-- a history with a join and a widening: `x + y ≤ 4` survives, the bound of `x` is widened away -/
example :
    let hist : List (Dom.Step (OVal 2) (Octagon.State 2)) :=
      [.trans 0 ⟨OVal.exec (.assume [.ub 0 3, .sum 0 1 4]), (Octagon.Stmt.assume [.ub 0 3, .sum 0 1 4]).rel⟩,
       .copy 1 0, .trans 1 ⟨OVal.exec (.assignVar 0 0 1), (Octagon.Stmt.assignVar 0 0 1).rel⟩,
       .trans 1 ⟨OVal.exec (.assignVar 1 1 (-1)), (Octagon.Stmt.assignVar 1 1 (-1)).rel⟩,
       .upper 2 0 1 OVal.join, .upper 3 0 2 OVal.widen]
    let p := Dom.runHist (fun _ => OVal.top) hist
    (p 2).map (fun o => (bounds o 0, entails o (.sum 0 1 4))) = some (⟨.ninf, .fin 4⟩, true) ∧
    (p 3).map (fun o => (bounds o 0, entails o (.sum 0 1 4))) = some (⟨.ninf, .pinf⟩, true) := by
  decide

end Octagons

/-! ## Interval environments (the canonical non-relational reference model of C12)

The same instance for `Crab.ItvEnv` (language `±x ≤ k`; `x := k` by forget + assume, every other
assignment is a havoc; pointwise interval widening).  The branch-by-branch model of the shipped
`interval_domain` is `Crab.IDom` (Props/C03Itv.lean); this section only completes the picture for
the three canonical models of C12. -/
section ItvEnvs
open Crab.ItvEnv
variable {n : Nat}

theorem C03.itvenv_assume_sound (e : Env n) (cs : List (ItvEnv.Cst n)) (σ : ItvEnv.State n) (h : γ e σ)
    (hc : ∀ c ∈ cs, c.sat σ) : γ (assumeAll e cs) σ := (ItvEnv.assumeAll_exact e cs σ).2 ⟨h, hc⟩

theorem C03.itvenv_forget_sound (e : Env n) (x : Fin n) (σ σ' : ItvEnv.State n) (h : γ e σ)
    (hσ : ∀ y, y ≠ x → σ' y = σ y) : γ (forget e x) σ' := ItvEnv.forget_sound e x σ σ' h hσ

theorem C03.itvenv_assign_cst_sound (e : Env n) (x : Fin n) (k : Int) (σ : ItvEnv.State n) (h : γ e σ) :
    γ (assignCst e x k) (ItvEnv.updS σ x k) := ItvEnv.assignCst_sound e x k σ h

theorem C03.itvenv_stmt_sound (st : ItvEnv.Stmt n) (e : Env n) (σ σ' : ItvEnv.State n) (h : γ e σ)
    (hr : st.rel σ σ') : γ (st.exec e) σ' := ItvEnv.Stmt.exec_sound st e σ σ' h hr

/-- on well-formed environments the transformers are the best ones -/
theorem C03.itvenv_stmt_exact (st : ItvEnv.Stmt n) (e : Env n) (hw : EnvWF e) (σ' : ItvEnv.State n) :
    γ (st.exec e) σ' ↔ ∃ σ, γ e σ ∧ st.rel σ σ' := ItvEnv.Stmt.exec_exact st e hw σ'

theorem C03.itvenv_widen_sound (a b : Env n) (σ : ItvEnv.State n) (h : γ a σ ∨ γ b σ) : γ (widen a b) σ :=
  ItvEnv.widen_upper a b σ h

/-- `setBot` may store any value: the collecting semantics of the slot is empty -/
inductive C03.ItvEnvStep {n : Nat} : Dom.Step (Env n) (ItvEnv.State n) → Prop
  | trans (d : Nat) (st : ItvEnv.Stmt n) : C03.ItvEnvStep (.trans d ⟨st.exec, st.rel⟩)
  | join (d a b : Nat) : C03.ItvEnvStep (.upper d a b ItvEnv.join)
  | widen (d a b : Nat) : C03.ItvEnvStep (.upper d a b ItvEnv.widen)
  | meet (d a b : Nat) : C03.ItvEnvStep (.lower d a b ItvEnv.meet)
  | copy (d s : Nat) : C03.ItvEnvStep (.copy d s)
  | setBot (d : Nat) (b : Env n) : C03.ItvEnvStep (.setBot d b)

theorem C03.itvenv_step_sound (st : Dom.Step (Env n) (ItvEnv.State n)) (h : C03.ItvEnvStep st) :
    st.Sound γ := by
  cases h with
  | trans d s => exact fun a σ σ' hg hr => C03.itvenv_stmt_sound s a σ σ' hg hr
  | join d a b => exact fun x y σ h => ItvEnv.join_upper x y σ h
  | widen d a b => exact fun x y σ h => ItvEnv.widen_upper x y σ h
  | meet d a b => exact fun x y σ h1 h2 => (ItvEnv.meet_exact x y σ).2 ⟨h1, h2⟩
  | copy d s => trivial
  | setBot d b => trivial

theorem C03.itvenv_history_sound (hist : List (Dom.Step (Env n) (ItvEnv.State n)))
    (hs : ∀ st ∈ hist, C03.ItvEnvStep st) (p : Dom.Pool (Env n)) (c : Dom.CPool (ItvEnv.State n))
    (h : ∀ i s, c i s → γ (p i) s) :
    ∀ i s, (Dom.collHist c hist) i s → γ ((Dom.runHist p hist) i) s :=
  C03.history_sound γ hist (fun st hst => C03.itvenv_step_sound st (hs st hst)) p c h

theorem C03.itvenv_not_bottom_if_inhabited (hist : List (Dom.Step (Env n) (ItvEnv.State n)))
    (hs : ∀ st ∈ hist, C03.ItvEnvStep st) (p : Dom.Pool (Env n)) (c : Dom.CPool (ItvEnv.State n))
    (h : ∀ i s, c i s → γ (p i) s) (i : Nat) (s : ItvEnv.State n) (hc : (Dom.collHist c hist) i s) :
    isBottom ((Dom.runHist p hist) i) = false :=
  C03.not_bottom_if_inhabited γ isBottom (fun _ s hb => ItvEnv.not_γ_of_isBottom hb s) hist
    (fun st hst => C03.itvenv_step_sound st (hs st hst)) p c h i s hc

/-- well-formedness (hypothesis of the exactness theorems) is kept by every statement and widening
    (join / meet / forget / assume: `C12.itv_wf_invariant`) -/
theorem C03.itvenv_wf_invariant :
    (∀ (st : ItvEnv.Stmt n) (e : Env n), EnvWF e → EnvWF (st.exec e)) ∧
    (∀ a b : Env n, EnvWF a → EnvWF b → EnvWF (widen a b)) :=
  ⟨ItvEnv.Stmt.exec_WF, fun _ _ ha hb => ItvEnv.EnvWF_widen ha hb⟩

example :
    let e : Env 2 := assignCst (assumeAll ItvEnv.top [.ub 1 7, .lb 1 2]) 0 5
    bounds e 0 = ⟨.fin 5, .fin 5⟩ ∧ bounds e 1 = ⟨.fin (-2), .fin 7⟩ ∧
    bounds (widen e (assignCst e 0 6)) 0 = ⟨.fin 5, .pinf⟩ := by decide

end ItvEnvs
