import CrabProofs.Lemmas.InterTDRShare
import CrabProofs.Props.C10BottomUp

/-!
# C09 — the whole top-down inter-procedural analysis is sound

Model: `CrabModel/Inter/TopDownRun.lean` (`tdAnalyze` = `top_down_inter_analyzer::run`: on-demand
analysis of callees at call sites, calling-context table with subsumption / exact reuse,
`max_call_contexts` with joined = stale contexts, both treatments of recursion), running on the
state-passing model `Fix.runS` of the interleaved fixpoint iterator (soundness: `Fix.Sound.runS_sound`,
a port of the proof of `C01.run_sound`).  Concrete semantics: the call-stack machine of
`CrabModel/Inter/ISemantics.lean`.

* `C09.td_analysis_sound_partial` — for every well-formed program (any number of functions, any call
  graph), every abstract domain satisfying `IDom`, every `max_call_contexts`, exact or approximate
  reuse, every fixpoint parameter: `get_pre` / `get_post` of every block contain every frame with which
  an execution from `main` arrives at / leaves the block;
* `C09.td_summaries_valid_partial` — every stored (pre, post) summary that `get_summary` exposes is
  valid: a returned call whose entry frames are described by `pre` has its exit frames described by `post`.

Hypotheses that exclude the open findings (decidable):
* `callsWiringOK` (F29, `[xshare]`: sequential parameter wiring; `C09.callsWiringOK_of_not_crossShare`),
* `entriesOK` (F30, `[scc-multi-entry]`: its `pathsOK` part says that a function found on the call
  stack again is a widening point of the call graph; plus: `main` is a call-graph entry),
and the limit of the proof: `TDParams.simpleRec` — recursion is treated the default way
(`analyze_recursive_functions = false`: `top` entry for widening points, `top` result for a callee on the
call stack), or the call graph has no widening point.  The precise treatment of recursion (fixpoint over
the (entry, exit) pair) is modelled and executable but its end-to-end soundness is not proved.
`C09.td_wiring_counterexample`, `C09.td_multi_entry_counterexample`: the statements without the two
excluding hypotheses are false in the model.
-/
open Crab Crab.Inter Crab.Fix

/-- frames of the executions from `main` are inside the reported context-insensitive invariants -/
theorem C09.td_analysis_sound_partial (p : IProg) (hwf : p.wf = true) (hsc : p.scoped = true)
    (hwire : p.callsWiringOK = true) (D : IDom) (cfg : FixCfg) (hw : WtoHyp D p cfg) (P : TDParams)
    (hmode : P.simpleRec = true) (hent : entriesOK p P = true) (lvl : Nat) (init : D.A) (s : TDSt D)
    (hrun : tdAnalyze D p cfg P lvl init = some s)
    (ch : Choices) (hinit : EnvIn D.toAbsDom init (mkFrame p ch 0 p.main []).env)
    (fuel : Nat) (e : Event) (he : e ∈ (run p ch fuel).tr.events) :
    EnvIn D.toAbsDom (if e.atExit then s.getPost e.fn e.blk else s.getPre e.fn e.blk) e.env := by
  have hP := progOK_of_wf hwf hsc
  have hmain : p.main < p.funs.size := by
    have := hwf
    simp only [IProg.wf, Bool.and_eq_true, decide_eq_true_eq] at this
    exact this.1
  obtain ⟨hI, hstk, pre, post, hρm⟩ :=
    tdAnalyze_ok hP hmain hmode (wiringOK_of_bool hwire) hent cfg hw lvl init s hrun
  have hinv := final_inv hP hmain hI hstk ch ⟨_, hρm, rfl, hinit⟩ _ (reach_run ch fuel)
  obtain ⟨_, hev⟩ := hinv.evs e he
  obtain ⟨ρ, hρ, hfn, hat⟩ := final_at_run (hev trivial)
  obtain ⟨tp, tq, h1, h2, h3⟩ := hI.glob ρ hρ
  have hs := (hI.runs ρ hρ).2
  rw [hfn] at h1 h2
  unfold TDSt.getPre TDSt.getPost
  rw [h1, h2]
  simp only
  by_cases hx : e.atExit = true
  · simp only [hx, if_true] at hat ⊢
    exact (h3 e.blk).2.envIn ((hs e.blk _ e.env (by rw [hfn]; exact hat)).2 (by rw [hfn]))
  · simp only [hx] at hat ⊢
    exact (h3 e.blk).1.envIn ((hs e.blk _ e.env (by rw [hfn]; exact hat)).1 rfl)

/-- the summaries exposed by `get_summary` are valid: for every returned call `r` of `h` in an
    execution from `main`, if every frame with the input values of `r` is described by `pre`, then
    every frame with the input and output values of `r` is described by `post` -/
theorem C09.td_summaries_valid_partial (p : IProg) (hwf : p.wf = true) (hsc : p.scoped = true)
    (hwire : p.callsWiringOK = true) (D : IDom) (cfg : FixCfg) (hw : WtoHyp D p cfg) (P : TDParams)
    (hmode : P.simpleRec = true) (hent : entriesOK p P = true) (lvl : Nat) (init : D.A) (s : TDSt D)
    (hrun : tdAnalyze D p cfg P lvl init = some s)
    (h : Nat) (pre post : D.A) (hsum : (pre, post) ∈ s.summaries h)
    (ch : Choices) (fuel : Nat) (r : CallRec) (hr : r ∈ (run p ch fuel).tr.calls) (hfn : r.fn = h)
    (hpre : EntryIn D p h pre r.ins) : ExitIn D p h post r.ins r.outs := by
  have hP := progOK_of_wf hwf hsc
  have hmain : p.main < p.funs.size := by
    have := hwf
    simp only [IProg.wf, Bool.and_eq_true, decide_eq_true_eq] at this
    exact this.1
  obtain ⟨hI, _, _, _, _⟩ :=
    tdAnalyze_ok hP hmain hmode (wiringOK_of_bool hwire) hent cfg hw lvl init s hrun
  have hmnc : p.isCalled p.main = false := by
    have := hent
    simp only [entriesOK, Bool.and_eq_true, List.contains_eq_mem, decide_eq_true_eq, List.all_eq_true,
      Bool.not_eq_true'] at this
    exact (this.2 p.main this.1).1.1
  unfold TDSt.summaries at hsum
  obtain ⟨c, hc, hcp⟩ := List.mem_map.mp hsum
  obtain ⟨hcm, hst⟩ := List.mem_filter.mp hc
  have hst' : c.stale = false := by simpa using hst
  obtain ⟨hcalled, hv⟩ := hI.ctxs h c hcm
  obtain ⟨hfact, _⟩ := hv hst'
  cases hcp
  have ht : TrueCR p h r.ins r.outs := ⟨ch, _, reach_run ch fuel, by rw [← hfn]; exact hr⟩
  obtain ⟨_, hlen, hcov⟩ := (inv_reach hP hmain ch _ (reach_run ch fuel)).recs r hr
  have hli : r.ins.length = (p.fn h).ins.length := by
    rcases hlen with hl | hl
    · rw [← hfn]; exact hl
    · -- `main` is a call-graph entry that is never called: it has no stored context
      exfalso
      rw [hfn] at hl
      rw [hl, hmnc] at hcalled
      cases hcalled
  exact hfact r.ins r.outs ht hli (trueCR_facts hP hmain ht).2 hpre

/-- the hypothesis that excludes F29 holds whenever no call site shares a name with the callee's
    declaration at another position (`IProg.crossShare`, the driver's tag `[xshare]`) -/
theorem C09.callsWiringOK_of_not_crossShare (p : IProg) (hwf : p.wf = true) (h : p.crossShare = false) :
    p.callsWiringOK = true :=
  Crab.Inter.callsWiringOK_of_not_crossShare hwf h

/-! ### the excluded cases -/

/-- `C09.td_analysis_sound_partial` without `callsWiringOK`: FALSE (F29) -/
def C09.td_wiring_Statement : Prop :=
  ∀ (p : IProg), p.wf = true → p.scoped = true →
  ∀ (D : IDom) (cfg : FixCfg), WtoHyp D p cfg → ∀ (P : TDParams), P.simpleRec = true → entriesOK p P = true →
  ∀ (lvl : Nat) (init : D.A) (s : TDSt D), tdAnalyze D p cfg P lvl init = some s →
  ∀ (ch : Choices), EnvIn D.toAbsDom init (mkFrame p ch 0 p.main []).env →
  ∀ (fuel : Nat) (e : Event), e ∈ (run p ch fuel).tr.events →
    EnvIn D.toAbsDom (if e.atExit then s.getPost e.fn e.blk else s.getPre e.fn e.blk) e.env

/-- `C09.td_analysis_sound_partial` without the `pathsOK` part of `entriesOK`: FALSE (F30), also for
    widening sets that cut every cycle of the call graph (as the heads of a weak topological ordering do) -/
def C09.td_multi_entry_Statement : Prop :=
  ∀ (p : IProg), p.wf = true → p.scoped = true → p.callsWiringOK = true →
  ∀ (D : IDom) (cfg : FixCfg), WtoHyp D p cfg → ∀ (P : TDParams), P.simpleRec = true →
    wsetCutsCycles p P.wset = true → (tdEntries p P).contains p.main = true → p.isCalled p.main = false →
  ∀ (lvl : Nat) (init : D.A) (s : TDSt D), tdAnalyze D p cfg P lvl init = some s →
  ∀ (ch : Choices), EnvIn D.toAbsDom init (mkFrame p ch 0 p.main []).env →
  ∀ (fuel : Nat) (e : Event), e ∈ (run p ch fuel).tr.events →
    EnvIn D.toAbsDom (if e.atExit then s.getPost e.fn e.blk else s.getPre e.fn e.blk) e.env

namespace C09.Cex

/-- default parameters: unbounded contexts, exact reuse, default treatment of recursion -/
def params (W : List Nat) : TDParams :=
  { maxCtx := none, exactReuse := true, recursive := false, onlyMain := true, wset := W, cgNest := fun _ => [] }

/-- `main: v0 := 5; v1 := g(v0)`   `g(v0) -> v1: v1 := f(v0)`   `f(v0) -> v1: v2 := v0 + 1; v1 := g(v2)`;
    widening point of the cycle: `f` -/
def prog2 : IProg :=
  { nv := 3, main := 0,
    funs := #[
      { name := "main", ins := [], outs := [],
        blocks := #[{ stmts := #[.assign 0 ⟨5, []⟩, .call 1 [1] [0]], succs := #[] }] },
      { name := "g", ins := [0], outs := [1],
        blocks := #[{ stmts := #[.call 2 [1] [0]], succs := #[] }] },
      { name := "f", ins := [0], outs := [1],
        blocks := #[{ stmts := #[.bin .add 2 0 (.cst 1), .call 1 [1] [2]], succs := #[] }] }] }

def cfg2 : FixCfg := crabWto prog2 20 1 1

def st2 : TDSt C10.collIDom :=
  (tdAnalyze C10.collIDom prog2 cfg2 (params [2]) 4 C10.collIDom.top).getD (TDSt.empty _)

/-- the state computed for `C10.Cex.prog` (`f(v0, v1)` called as `f(v1, v0)`) -/
def st1 : TDSt C10.collIDom :=
  (tdAnalyze C10.collIDom C10.Cex.prog C10.Cex.cfg (params []) 5 C10.collIDom.top).getD (TDSt.empty _)

def ch0 : Choices := fun _ => 0
def m0 : Frame := mkFrame prog2 ch0 0 0 []
def menv : Env := m0.env.setIfInBounds 0 5
def g1 : Frame := mkFrame prog2 ch0 3 1 [menv.getD 0 0]
def f1 : Frame := mkFrame prog2 ch0 6 2 [g1.env.getD 0 0]
def fenv : Env := f1.env.setIfInBounds 2 (IOp.add.eval (f1.env.getD 0 0) 1)
def g2 : Frame := mkFrame prog2 ch0 9 1 [fenv.getD 2 0]

end C09.Cex

open C09.Cex in
theorem C09.Cex.st2_eq : tdAnalyze C10.collIDom prog2 cfg2 (params [2]) 4 C10.collIDom.top = some st2 := rfl

open C09.Cex in
theorem C09.Cex.st2_pre (σ : St) (h : st2.getPre 1 0 σ) : σ 0 = 5 := by
  obtain ⟨s, ⟨_, σ0, _, hs⟩, hp⟩ := h
  have h0 : σ 0 = s 0 := hp 0 (by decide)
  have hs' : s = σ0.upd 0 5 := hs
  rw [h0, hs', St.upd_same]

open C09.Cex in
theorem C09.Cex.ev2 : (⟨1, 0, false, g2.env⟩ : Event) ∈ (run prog2 ch0 5).tr.events := Array.mem_push_self

open C09.Cex in
theorem C09.Cex.g2_val : g2.env.getD 0 0 = 6 := by
  have hwf : prog2.wf = true := by simp [IProg.wf, IFun.wf, prog2, IStmt.defs]
  have hsc : prog2.scoped = true := by simp [IProg.scoped, IFun.scoped, prog2, IStmt.vars, ILin.vars]
  have hP := progOK_of_wf hwf hsc
  have h1 : (1 : Nat) < prog2.funs.size := by decide
  have h2 : (2 : Nat) < prog2.funs.size := by decide
  have hm0 : m0.env.size = 3 := mkFrame_env_size prog2 ch0 0 0 []
  have a1 : menv.getD 0 0 = 5 := getD_set_same _ _ _ (by rw [hm0]; decide)
  have a2 : g1.env.getD 0 0 = menv.getD 0 0 :=
    (mkFrame_match prog2 ch0 3 1 [menv.getD 0 0] (hP 1 h1).ins_nodup (hP 1 h1).ins_lt).1
  have a3 : f1.env.getD 0 0 = g1.env.getD 0 0 :=
    (mkFrame_match prog2 ch0 6 2 [g1.env.getD 0 0] (hP 2 h2).ins_nodup (hP 2 h2).ins_lt).1
  have a4 : fenv.getD 2 0 = IOp.add.eval (f1.env.getD 0 0) 1 :=
    getD_set_same _ _ _ (by rw [show f1.env.size = 3 from mkFrame_env_size prog2 ch0 6 2 _]; decide)
  have a5 : g2.env.getD 0 0 = fenv.getD 2 0 :=
    (mkFrame_match prog2 ch0 9 1 [fenv.getD 2 0] (hP 1 h1).ins_nodup (hP 1 h1).ins_lt).1
  rw [a5, a4, a3, a2, a1]; rfl

open C09.Cex in
theorem C09.Cex.st1_eq : tdAnalyze C10.collIDom C10.Cex.prog C10.Cex.cfg (params []) 5 C10.collIDom.top = some st1 := rfl

open C09.Cex in
/-- the invariant reported at the entry of `f` only contains states with `v0 = v1` -/
theorem C09.Cex.st1_pre (σ : St) (h : st1.getPre 1 0 σ) : σ 0 = σ 1 := by
  obtain ⟨s, ⟨_, s1, ⟨s0, _, hs1⟩, hs⟩, hp⟩ := h
  have h0 : σ 0 = s 0 := hp 0 (by decide)
  have h1 : σ 1 = s 1 := hp 1 (by decide)
  rw [h0, h1, hs, St.upd_same, St.upd_other _ _ (by decide)]


open C09.Cex in
theorem C09.td_wiring_counterexample : ¬ C09.td_wiring_Statement := by
  intro hS
  have hwf : C10.Cex.prog.wf = true := by simp [IProg.wf, IFun.wf, C10.Cex.prog, IStmt.defs]
  have hsc : C10.Cex.prog.scoped = true := by
    simp [IProg.scoped, IFun.scoped, C10.Cex.prog, IStmt.vars, ILin.vars]
  have hP := progOK_of_wf hwf hsc
  let fenv0 : Env := (mkFrame C10.Cex.prog (fun _ => 0) (run C10.Cex.prog (fun _ => 0) 2).ci 1
    ([1, 0].map (fun a => C10.Cex.frame.env.getD a 0))).env
  have hev : (⟨1, 0, false, fenv0⟩ : Event) ∈ (run C10.Cex.prog (fun _ => 0) 3).tr.events :=
    Array.mem_push_self
  have hc := hS C10.Cex.prog hwf hsc C10.collIDom C10.Cex.cfg (C10.crab_wto_ok _ hwf _ 20 1 1) (params [])
    (by decide) (by decide) 5 C10.collIDom.top st1 st1_eq (fun _ => 0) (fun σ _ => trivial) 3 _ hev
  have h1 : (1 : Nat) < C10.Cex.prog.funs.size := by decide
  have hm := mkFrame_match C10.Cex.prog (fun _ => 0) (run C10.Cex.prog (fun _ => 0) 2).ci 1
    ([1, 0].map (fun a => C10.Cex.frame.env.getD a 0)) (hP 1 h1).ins_nodup (hP 1 h1).ins_lt
  have hm' : MatchVals [0, 1] [C10.Cex.env.getD 1 0, C10.Cex.env.getD 0 0] (toSt fenv0) := hm
  have he := st1_pre _ (hc _ (Ext_toSt _))
  rw [hm'.1, hm'.2.1, C10.Cex.env_vals.1, C10.Cex.env_vals.2] at he
  exact absurd he (by decide)

open C09.Cex in
theorem C09.td_multi_entry_counterexample : ¬ C09.td_multi_entry_Statement := by
  intro hS
  have hwf : prog2.wf = true := by simp [IProg.wf, IFun.wf, prog2, IStmt.defs]
  have hsc : prog2.scoped = true := by simp [IProg.scoped, IFun.scoped, prog2, IStmt.vars, ILin.vars]
  have hwi : prog2.callsWiringOK = true := by
    simp [IProg.callsWiringOK, prog2, seqOKb, callOKb, IProg.fn]
  have hc := hS prog2 hwf hsc hwi C10.collIDom cfg2 (C10.crab_wto_ok _ hwf _ 20 1 1) (params [2])
    (by decide) (by decide) (by decide) (by decide) 4 C10.collIDom.top st2 st2_eq ch0 (fun σ _ => trivial) 5 _ ev2
  have he := st2_pre _ (hc _ (Ext_toSt _))
  have : toSt g2.env 0 = 6 := g2_val
  rw [this] at he
  exact absurd he (by decide)

/-! ### non-vacuity: the two-function program of `C10.Ex`, the collecting domain -/

namespace C09.Ex
/-- `max_call_contexts = 1`, approximate reuse, default treatment of recursion -/
def params : TDParams :=
  { maxCtx := some 1, exactReuse := false, recursive := false, onlyMain := true, wset := [], cgNest := fun _ => [] }

def st : TDSt C10.collIDom :=
  (tdAnalyze C10.collIDom C10.Ex.prog C10.Ex.cfg params 5 C10.collIDom.top).getD (TDSt.empty _)

/-- the summary stored for `f` -/
def sumF : (St → Prop) × (St → Prop) := (st.summaries 1).headD (fun _ => True, fun _ => True)
end C09.Ex

open C09.Ex in
theorem C09.Ex.st_eq : tdAnalyze C10.collIDom C10.Ex.prog C10.Ex.cfg params 5 C10.collIDom.top = some st := rfl

open C09.Ex in
theorem C09.Ex.sumF_mem : sumF ∈ st.summaries 1 := List.mem_cons_self ..

open C09.Ex in
theorem C09.Ex.hyps : C10.Ex.prog.callsWiringOK = true ∧ entriesOK C10.Ex.prog params = true ∧
    params.simpleRec = true :=
  ⟨by simp [IProg.callsWiringOK, C10.Ex.prog, seqOKb, callOKb, IProg.fn], by decide, by decide⟩

open C09.Ex in
/-- the hypotheses of `C09.td_analysis_sound_partial` hold for the example and the theorem says
    something: in every execution `f` is entered with `v0 = 5` -/
example (ch : Choices) (fuel : Nat) (e : Event) (he : e ∈ (run C10.Ex.prog ch fuel).tr.events) (hf : e.fn = 1)
    (hb : e.blk = 0) (hx : e.atExit = false) : e.env.getD 0 0 = 5 := by
  have h := C09.td_analysis_sound_partial C10.Ex.prog C10.Ex.prog_wf C10.Ex.prog_scoped hyps.1 C10.collIDom
    C10.Ex.cfg (C10.crab_wto_ok _ C10.Ex.prog_wf _ 20 1 1) params hyps.2.2 hyps.2.1 5 C10.collIDom.top st st_eq
    ch (fun σ _ => trivial) fuel e he
  rw [hf, hb, hx] at h
  have h' : st.getPre 1 0 (toSt e.env) := h _ (Ext_toSt _)
  obtain ⟨s, ⟨_, s0, ⟨σ00, _, hs0⟩, hs⟩, hp⟩ := h'
  have h0 : toSt e.env 0 = s 0 := hp 0 (by decide)
  have hs0' : s0 = σ00.upd 2 5 := hs0
  show toSt e.env 0 = 5
  rw [h0, hs, St.upd_same, hs0', St.upd_same]

open C09.Ex in
/-- and of `C09.td_summaries_valid_partial`: every returned call of `f` with input 5 has output 6 -/
example (ch : Choices) (fuel : Nat) (r : CallRec) (hr : r ∈ (run C10.Ex.prog ch fuel).tr.calls) (hf : r.fn = 1)
    (o : Int) (hi : r.ins = [5]) (ho : r.outs = [o]) : o = 6 := by
  have h := C09.td_summaries_valid_partial C10.Ex.prog C10.Ex.prog_wf C10.Ex.prog_scoped hyps.1 C10.collIDom
    C10.Ex.cfg (C10.crab_wto_ok _ C10.Ex.prog_wf _ 20 1 1) params hyps.2.2 hyps.2.1 5 C10.collIDom.top st st_eq
    1 sumF.1 sumF.2 sumF_mem ch fuel r hr hf
  rw [hi, ho] at h
  -- a frame with `v0 = 5`, `v1 = o`
  let env : Env := envOfSt 4 (fun v => if v = 0 then 5 else o)
  have hpre : EntryIn C10.collIDom C10.Ex.prog 1 sumF.1 [5] := by
    intro env1 hsz1 hm σ hσ
    have hv0 : σ 0 = 5 := by
      rw [hσ 0 (by rw [hsz1]; decide)]; exact hm.1
    exact ⟨(σ.upd 2 5).upd 0 5, ⟨trivial, σ.upd 2 5, ⟨σ, trivial, rfl⟩, rfl⟩,
      fun v hv => by
        have hv' : v ∈ ([0] : List Var) := hv
        have : v = 0 := by simpa using hv'
        subst this; rw [hv0, St.upd_same]⟩
  have hpost := h hpre env (envOfSt_size _ _) ⟨envOfSt_getD 4 _ 0 (by decide), trivial⟩
    ⟨envOfSt_getD 4 _ 1 (by decide), trivial⟩ (toSt env) (Ext_toSt env)
  obtain ⟨s, ⟨s', ⟨s2, ⟨_, s3, ⟨σ00, _, hs3⟩, hs2⟩, hp2⟩, hst⟩, hp⟩ := hpost
  have e1 : toSt env 1 = s 1 := hp 1 (by decide)
  have e2 : toSt env 1 = o := envOfSt_getD 4 _ 1 (by decide)
  have e3 : s = s'.upd 1 (s' 0 + 1) := hst
  have e4 : s' 0 = s2 0 := hp2 0 (by decide)
  have e5 : s3 = σ00.upd 2 5 := hs3
  rw [← e2, e1, e3, St.upd_same, e4, hs2, St.upd_same, e5, St.upd_same]
  rfl
