import CrabProofs.Lemmas.WDomVal

/-!
# C13 (part 4) — the wrapped interval *domain* follows bit-vector arithmetic

Property theorems only (helpers: `CrabProofs/Lemmas/WDomVal.lean`).  `Crab.WDom` is the
function-by-function model of `crab::domains::wrapped_interval_domain<z_number, VariableName>`
(`CrabModel/Dom/WIntDomain.lean`; tie: harness/h_wdom.cpp + Driver/WDomH.lean, tag `wdom`).

Every variable `v` has a declared bit-width `wd v` (`1 ≤ wd v ≤ 64`); a concrete state gives it a
bit-vector of that width.  What the environment returns for `v` (`_env.at(v)`) is the object
`top()` or an interval of width `wd v`: `Good (wd v)` (`top()` has width 3 whatever the variable).

This file: the *transfer functions on values* — the interval the domain computes and stores for
the target `x` contains the `BitVec` result of the operation on every choice of members of the
operands' values:
`eval_expr` (linear expression, wrap-around at the width), the `switch` of both arithmetic
`apply`, of both bitwise `apply`, the constant operand `mk_winterval(k, width(x))`, the casts
(`OP_TRUNC` stores top: the truncated interval is assigned to a shadowed local), `set(v, n)`,
`set(v, [lb, ub])`, `at(v)` (signed reading), the two exported constraints of a binding.

`C13WDomEnv.lean` lifts them to environments and states.
-/
open Crab Crab.WInt Crab.WrapInt Crab.WDom Crab.XDom Crab.Lin

/-- bit-vector meaning of the arithmetic operations (`none`: division by zero has no result) -/
def C13.bvArith {w : Nat} : ArithOp → BitVec w → BitVec w → Option (BitVec w)
  | .add, a, b => some (a + b)
  | .sub, a, b => some (a - b)
  | .mul, a, b => some (a * b)
  | .sdiv, a, b => if b = 0 then none else some (a.sdiv b)
  | .udiv, a, b => if b = 0 then none else some (a / b)
  | .srem, a, b => if b = 0 then none else some (a.srem b)
  | .urem, a, b => if b = 0 then none else some (a % b)

/-- bit-vector meaning of the bitwise operations (shifts by a bit-vector amount: an amount `≥ w`
    shifts everything out) -/
def C13.bvBit {w : Nat} : BitOp → BitVec w → BitVec w → BitVec w
  | .and, a, b => a &&& b
  | .or, a, b => a ||| b
  | .xor, a, b => a ^^^ b
  | .shl, a, b => a <<< b
  | .lshr, a, b => a >>> b
  | .ashr, a, b => a.sshiftRight' b

/-- **arithmetic `apply`**: the value stored for `x` contains the bit-vector result for every
    choice of members of the operands (all seven operations; division by zero has no successor) -/
theorem C13.wdom_apply_arith_sound (w : Nat) (h1 : 1 ≤ w) (hw : w ≤ 64) (op : ArithOp)
    (yi zi r : WInt) (hy : Good w yi) (hz : Good w zi) (h : arithEval op yi zi = some r)
    (a b c : BitVec w) (ha : memBV a yi) (hb : memBV b zi) (hc : C13.bvArith op a b = some c) :
    memBV c r := by
  have nby := ha.1
  have nbz := hb.1
  by_cases ht : (yi.isTop || zi.isTop) = true
  · have : r = WInt.top := by
      cases op <;>
        simp [arithEval, WInt.add, WInt.sub, WInt.mul, WInt.sdiv, WInt.udiv, WInt.defaultImpl, nby, nbz, ht] at h <;>
        exact h.symm
    rw [this]; exact mem_top _ _
  · have ht' : (yi.isTop || zi.isTop) = false := by simpa using ht
    simp only [Bool.or_eq_false_iff] at ht'
    have sy := good_shape hy ht'.1
    have sz := good_shape hz ht'.2
    cases op with
    | add =>
      simp only [arithEval, Option.some.injEq] at h; simp only [C13.bvArith, Option.some.injEq] at hc
      subst h; subst hc; exact C13.wint_add_sound w h1 hw yi zi sy sz a b ha hb
    | sub =>
      simp only [arithEval, Option.some.injEq] at h; simp only [C13.bvArith, Option.some.injEq] at hc
      subst h; subst hc; exact C13.wint_sub_sound w h1 hw yi zi sy sz a b ha hb
    | mul =>
      simp only [arithEval] at h; simp only [C13.bvArith, Option.some.injEq] at hc
      subst hc; exact C13.wint_mul_sound w h1 hw yi zi r sy sz h a b ha hb
    | sdiv =>
      simp only [arithEval] at h; simp only [C13.bvArith] at hc
      by_cases hb0 : b = 0
      · rw [if_pos hb0] at hc; cases hc
      · rw [if_neg hb0] at hc; injection hc with hc; subst hc
        exact C13.wint_sdiv_sound w h1 hw yi zi r sy sz h a b ha hb hb0
    | udiv =>
      simp only [arithEval] at h; simp only [C13.bvArith] at hc
      by_cases hb0 : b = 0
      · rw [if_pos hb0] at hc; cases hc
      · rw [if_neg hb0] at hc; injection hc with hc; subst hc
        exact C13.wint_udiv_sound w h1 hw yi zi r sy sz h a b ha hb hb0
    | srem =>
      simp only [arithEval, Option.some.injEq] at h; subst h
      exact C13.wint_default_sound w yi zi a b c ha hb
    | urem =>
      simp only [arithEval, Option.some.injEq] at h; subst h
      exact C13.wint_default_sound w yi zi a b c ha hb

/-- **bitwise `apply`**: `And/Or/Xor` (top), `Shl/LShr/AShr` (only a singleton amount refines) -/
theorem C13.wdom_apply_bitwise_sound (w : Nat) (h1 : 1 ≤ w) (hw : w ≤ 64) (op : BitOp)
    (yi zi r : WInt) (hy : Good w yi) (hz : Good w zi) (h : bitEval op yi zi = some r)
    (a b : BitVec w) (ha : memBV a yi) (hb : memBV b zi) : memBV (C13.bvBit op a b) r := by
  have nby := ha.1
  have nbz := hb.1
  have hdef : ∀ c : BitVec w, memBV c (yi.defaultImpl zi) := fun c => C13.wint_default_sound w yi zi a b c ha hb
  by_cases ht : (yi.isTop || zi.isTop) = true
  · -- a top operand: the answer is a top
    have hsing : zi.isTop = true → zi.isSingleton = false := by
      intro h; simp [WInt.isSingleton, h]
    have : r.isTop = true ∨ r = yi.defaultImpl zi := by
      cases op
      · right; simpa [bitEval] using h.symm
      · right; simpa [bitEval] using h.symm
      · right; simpa [bitEval] using h.symm
      all_goals
        left
        simp only [bitEval, WInt.shl, WInt.lshr, WInt.ashr, nby, Bool.false_eq_true, if_false] at h
        by_cases hs : zi.isSingleton = true
        · have hzt : zi.isTop = false := by
            cases hz' : zi.isTop
            · rfl
            · rw [hsing hz'] at hs; cases hs
          have hyt : yi.isTop = true := by simpa [hzt] using ht
          rw [if_pos hs] at h
          simp only [WInt.shlK, WInt.lshrK, WInt.ashrK, nby, hyt, Bool.false_eq_true, if_false, if_true,
            Option.some.injEq] at h
          rw [← h]; exact hyt
        · rw [if_neg hs] at h; injection h with h; rw [← h]; exact isTop_top
    rcases this with h | h
    · exact memBV_of_isTop h
    · rw [h]; exact hdef _
  · have ht' : (yi.isTop || zi.isTop) = false := by simpa using ht
    simp only [Bool.or_eq_false_iff] at ht'
    have sy := good_shape hy ht'.1
    have sz := good_shape hz ht'.2
    cases op with
    | and => simp only [bitEval, Option.some.injEq] at h; subst h; exact hdef _
    | or => simp only [bitEval, Option.some.injEq] at h; subst h; exact hdef _
    | xor => simp only [bitEval, Option.some.injEq] at h; subst h; exact hdef _
    | shl => exact C13.wint_shl_sound w h1 hw yi zi r sy sz h a b ha hb
    | lshr => exact C13.wint_lshr_sound w h1 hw yi zi r sy sz h a b ha hb
    | ashr => exact C13.wint_ashr_sound w h1 hw yi zi r sy sz h a b ha hb

/-- the constant operand of `apply(op, x, y, k)` and of `set(v, n)`: `mk_winterval(k, w)` is a
    value of width `w` that contains `k mod 2^w` -/
theorem C13.wdom_const_sound (w : Nat) (h1 : 1 ≤ w) (hw : w ≤ 64) (k : Int) (zi : WInt)
    (h : WInt.ofZ k w = some zi) : memBV (BitVec.ofInt w k) zi :=
  C13.wint_ofZ_sound w h1 hw k zi h

/-- `mk_winterval(k, w)` is `top()` or of width `w` (it can be chained with the other values) -/
theorem C13.wdom_const_good (w : Nat) (h1 : 1 ≤ w) (hw : w ≤ 64) (k : Int) (zi : WInt)
    (h : WInt.ofZ k w = some zi) : Good w zi := ofZ_good h1 hw h

/-- wrap-around value of a linear expression at width `w` (`σ v` = unsigned value of `v`; the
    residue does not depend on the signed/unsigned reading of the variables) -/
def C13.bvLin (w : Nat) (σ : Var → Nat) (ex : Expr) : BitVec w :=
  BitVec.ofInt w (ex.eval (fun v => (σ v : Int)))

/-- **`eval_expr(e, w)`**: for a state that gives every variable of `e` a `w`-bit member of its
    abstract value, the result contains the value of `e` computed modulo `2^w`; it is `top()` or of
    width `w`.  (All the variables of `e` have the width of the assigned variable: mixing widths
    is outside the model.) -/
theorem C13.wdom_eval_sound (w : Nat) (h1 : 1 ≤ w) (hw : w ≤ 64) (e : WDom.Env) (ex : Expr) (r : WInt)
    (σ : Var → Nat)
    (hσ : ∀ p ∈ ex.terms, σ p.1 < 2 ^ w ∧ mem w (σ p.1) (e.get p.1) ∧ Good w (e.get p.1))
    (h : e.evalExpr ex w = some r) : Good w r ∧ memBV (C13.bvLin w σ ex) r := by
  unfold WDom.Env.evalExpr at h
  rw [if_neg (by omega)] at h
  cases hc : WInt.ofZ ex.cst w with
  | none => rw [hc] at h; cases h
  | some r0 =>
    rw [hc] at h
    simp only at h
    obtain ⟨g, m⟩ := evalLoop_sound h1 hw e σ ex.terms r0 r ex.cst hσ (ofZ_good h1 hw hc) (ofZ_sound h1 hw hc) h
    refine ⟨g, ?_⟩
    unfold memBV C13.bvLin
    rw [BitVec.toNat_ofInt]
    have : ex.eval (fun v => (σ v : Int)) = ex.cst + Expr.evalTerms (fun v => (σ v : Int)) ex.terms := by
      unfold Expr.eval; omega
    rw [this]; exact m

/-- bit-vector meaning of the casts -/
def C13.bvCast {w : Nat} : CastOp → (w' : Nat) → BitVec w → BitVec w'
  | .zext, w', a => a.setWidth w'
  | .sext, w', a => a.signExtend w'
  | .trunc, w', a => a.setWidth w'

/-- **casts** (`apply(int_conv_operation_t, dst, src)`): the value stored for `dst` contains the
    zero extension / sign extension / truncation of every member of the value of `src`.
    (`OP_TRUNC` always stores top: the result of `Trunc` goes to a shadowed local variable.) -/
theorem C13.wdom_cast_sound (wd : Ty) (op : CastOp) (dst src : Var) (srcI r : WInt)
    (hs1 : 1 ≤ wd src) (hs64 : wd src ≤ 64) (hg : Good (wd src) srcI)
    (h : Env.castVal wd op dst src srcI = some r) (a : BitVec (wd src)) (ha : memBV a srcI) :
    memBV (C13.bvCast op (wd dst) a) r := by
  unfold Env.castVal at h
  have nb := ha.1
  cases hst : srcI.isTop
  · have sx := good_shape hg hst
    simp only [nb, hst, Bool.or_self, Bool.false_eq_true, if_false] at h
    revert h ha sx hs1 hs64 hg a
    generalize wd src = ws
    generalize wd dst = wdd
    intro hs1 hs64 _ a ha sx h
    cases op with
    | trunc =>
      simp only at h
      split at h
      · cases h
      · cases ht : srcI.trunc wdd with
        | none => rw [ht] at h; cases h
        | some t => rw [ht] at h; simp only [Option.some.injEq] at h; rw [← h]; exact mem_top _ _
    | zext =>
      simp only at h
      split at h
      · cases h
      · next hlt =>
        obtain ⟨k, rfl⟩ : ∃ k, wdd = ws + k := ⟨wdd - ws, by omega⟩
        rw [Nat.add_sub_cancel_left] at h
        exact C13.wint_zext_sound ws k hs1 hs64 srcI r sx h a ha
    | sext =>
      simp only at h
      split at h
      · cases h
      · next hlt =>
        obtain ⟨k, rfl⟩ : ∃ k, wdd = ws + k := ⟨wdd - ws, by omega⟩
        rw [Nat.add_sub_cancel_left] at h
        exact C13.wint_sext_sound ws k hs1 hs64 srcI r sx h a ha
  · simp only [nb, hst, Bool.or_true, if_true, Option.some.injEq] at h
    rw [← h]; exact memBV_of_isTop hst

/-- **`set(v, [lb, ub])`** (finite bounds): every `z` of the range, reduced modulo `2^w` -/
theorem C13.wdom_set_interval_sound (w : Nat) (h1 : 1 ≤ w) (hw : w ≤ 64) (lb ub z : Int) (r : WInt)
    (h : WInt.ofZ2 lb ub w = some r) (hl : lb ≤ z) (hu : z ≤ ub) : memBV (BitVec.ofInt w z) r :=
  C13.wint_ofZ2_sound w h1 hw lb ub z r h hl hu

/-- **`at(v)` / `operator[](v)`**: the unlimited interval contains the *signed* value of every
    member -/
theorem C13.wdom_at_sound (w : Nat) (h1 : 1 ≤ w) (hw : w ≤ 64) (x : WInt) (hg : Good w x) (i : Itv)
    (h : x.toInterval = some i) (a : BitVec w) (ha : memBV a x) : Itv.mem a.toInt i := by
  cases ht : x.isTop
  · exact C13.wint_toInterval_sound w h1 hw x (good_shape hg ht) i h a ha
  · unfold WInt.toInterval at h
    simp only [ha.1, ht, Bool.false_eq_true, if_false, if_true, Option.some.injEq] at h
    rw [← h]; exact Itv.mem_top _
