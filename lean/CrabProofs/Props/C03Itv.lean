import CrabProofs.Lemmas.IDomInst
import CrabProofs.Lemmas.IDomCsts
import CrabProofs.Lemmas.IDomThresholds
import CrabProofs.Lemmas.IDomWF
import CrabProofs.Lemmas.IDomFuel
import CrabProofs.Props.C03
import CrabProofs.Props.C01Engine

/-!
# C03 for `interval_domain<z_number>` — every operation is sound, proved on the exact model

`Crab.IDom` (CrabModel/Dom/IntervalDomain.lean) is the branch-by-branch model of
`ikos::interval_domain<z_number, VariableName>` with `separate_domain`, the constraint solver
`linear_interval_solver`, `lower_disequality` and the thresholds; it is tied to the real code by
the exact correspondence `idom` (harness/h_idom.cpp, Driver/IDomH.lean: every binding after every
operation).  Concretisation: `Env.γ e σ := e.bottom = false ∧ ∀ x, σ x ∈ e.get x`.

Hypotheses that appear below:
 * `e.m.Sorted` / `SEnv`: at most one binding per variable (the map invariant of the Patricia tree,
   preserved by every operation: `Stmt.exec_sorted`, `Env.upperWith_sorted`, …); needed by the
   operations that walk the bindings (lattice operations, exported constraints);
 * `Expr.Canonical` of the expressions of constraints: sorted variables, no zero coefficient — the
   invariant of the class `linear_expression` (every constructor/operator establishes it,
   `CrabProofs/Lemmas/LinExpr.lean`).
-/
open Crab Crab.IDom Crab.Lin

/-! ### transformers -/

/-- `set(x, i)`: `x` receives any member of `i` -/
theorem C03.idom_set_sound (e : Env) (σ : State) (x : Var) (i : Itv) (n : Int) (hg : e.γ σ) (hn : Itv.mem n i) :
    (e.set x i).γ (upd σ x n) := Env.set_sound hg hn x

/-- `assign(x, e)`, including the single-variable shortcut -/
theorem C03.idom_assign_sound (e : Env) (σ : State) (x : Var) (ex : Expr) (hg : e.γ σ) :
    (e.assign x ex).γ (upd σ x (ex.eval σ)) := Env.assign_sound hg x ex

/-- `weak_assign(x, e)`: both the old state and the updated state are described -/
theorem C03.idom_weak_assign_sound (e : Env) (σ : State) (x : Var) (ex : Expr) (hg : e.γ σ) :
    (e.weakAssign x ex).γ σ ∧ (e.weakAssign x ex).γ (upd σ x (ex.eval σ)) := Env.weakAssign_sound hg x ex

/-- `apply(arith op, x, y, z)` for every arithmetic operation (`ArithOp.conc` is the operation on
    mathematical integers; no successor for a division by zero) -/
theorem C03.idom_apply_arith_var_sound (e : Env) (σ : State) (op : ArithOp) (x y z : Var) (c : Int)
    (hg : e.γ σ) (hc : op.conc (σ y) (σ z) = some c) : (e.applyVar op x y z).γ (upd σ x c) :=
  Env.set_sound hg (op.eval_sound (hg.2 y) (hg.2 z) hc) x

/-- `apply(arith op, x, y, k)` -/
theorem C03.idom_apply_arith_cst_sound (e : Env) (σ : State) (op : ArithOp) (x y : Var) (k c : Int)
    (hg : e.γ σ) (hc : op.conc (σ y) k = some c) : (e.applyCst op x y k).γ (upd σ x c) :=
  Env.set_sound hg (op.eval_sound (hg.2 y) ((Itv.mem_single k k).2 rfl) hc) x

/-- full statement for the bitwise operations -/
def C03.idom_apply_bitwise_sound_Statement : Prop :=
  ∀ (e : Env) (σ : State) (op : BitOp) (x y : Var) (k c : Int),
    e.γ σ → op.conc (σ y) k = some c → (e.applyBitCst op x y k).γ (upd σ x c)

/-- `apply(bitwise op, x, y, k)`: sound except `LShr` by `2^64` or more (the scalar operation
    reduces the shift amount modulo `2^64`: known finding of `interval<z_number>::LShr`) -/
theorem C03.idom_apply_bitwise_sound_partial (e : Env) (σ : State) (op : BitOp) (x y : Var) (k c : Int)
    (hg : e.γ σ) (hc : op.conc (σ y) k = some c) (h64 : op = .lshr → k < 2 ^ 64) :
    (e.applyBitCst op x y k).γ (upd σ x c) :=
  Env.set_sound hg (op.eval_sound (hg.2 y) ((Itv.mem_single k k).2 rfl) hc h64) x

theorem C03.idom_apply_bitwise_var_sound_partial (e : Env) (σ : State) (op : BitOp) (x y z : Var) (c : Int)
    (hg : e.γ σ) (hc : op.conc (σ y) (σ z) = some c) (h64 : op = .lshr → σ z < 2 ^ 64) :
    (e.applyBitVar op x y z).γ (upd σ x c) :=
  Env.set_sound hg (op.eval_sound (hg.2 y) (hg.2 z) hc h64) x

/-- `y = 1`, `x := y LShr 2^64` gives `x = 1` instead of `0` -/
theorem C03.idom_apply_bitwise_sound_counterexample : ¬ C03.idom_apply_bitwise_sound_Statement := by
  intro h
  have hb := Itv.lshr_big_shift
  let e : Env := Env.top.set 0 (Itv.single 1)
  let σ : State := fun _ => 1
  have hg : e.γ σ := Env.set_sound_same (Env.γ_top σ) ((Itv.mem_single 1 1).2 rfl)
  have hc : BitOp.conc .lshr (σ 0) (2 ^ 64) = some ((1 : Int) / 2 ^ ((2 : Int) ^ 64).toNat) := by
    show (if (0 : Int) ≤ 2 ^ 64 then some ((1 : Int) / 2 ^ ((2 : Int) ^ 64).toNat) else none) = _
    rw [if_pos (by decide)]
  have := (h e σ .lshr 1 0 (2 ^ 64) _ hg hc).2 1
  rw [upd_same] at this
  have he : (e.applyBitCst .lshr 1 0 (2 ^ 64)).get 1 = Itv.lshr (Itv.single 1) (Itv.single (2 ^ 64)) := by decide
  rw [he] at this
  exact hb.2.2 this

/-- the hypotheses of the partial theorem are satisfiable by a non-trivial case -/
example : (Env.top.set 0 (Itv.single 12)).γ (fun _ => 12) ∧ BitOp.conc .lshr 12 2 = some 3 ∧
    ((Env.top.set 0 (Itv.single 12)).applyBitCst .lshr 1 0 2).get 1 = Itv.single 3 := by
  refine ⟨Env.set_sound_same (Env.γ_top _) ((Itv.mem_single 12 12).2 rfl), by decide, by decide⟩

/-- the constraint solver (`linear_interval_solver::run`): a state of `γ env` that satisfies the
    system is in `γ` of the result, for every cycle bound -/
theorem C03.idom_solver_sound (csts : Sys) (maxCycles : Nat) (env : Env) (σ : State)
    (hc : ∀ c ∈ csts, c.expr.Canonical) (hg : env.γ σ) (hsat : Sys.sat csts σ) :
    (solverRun csts maxCycles env).γ σ := solverRun_sound hc hsat maxCycles hg

/-- `operator+=(csts)`: lowering of disequations, then the solver -/
theorem C03.idom_assume_sound (e : Env) (σ : State) (csts : Sys) (hc : ∀ c ∈ csts, c.expr.Canonical)
    (hg : e.γ σ) (hsat : Sys.sat csts σ) : (e.add csts).γ σ := Env.add_sound hg hc hsat

/-- `select(lhs, cond, e1, e2)` -/
theorem C03.idom_select_sound (e : Env) (σ : State) (lhs : Var) (cond : Cst) (e1 e2 : Expr)
    (hc : cond.expr.Canonical) (hg : e.γ σ) :
    (e.select lhs cond e1 e2).γ (upd σ lhs (if cond.sat σ then e1.eval σ else e2.eval σ)) :=
  Env.select_sound hg lhs hc e1 e2

/-- `operator-=(x)` -/
theorem C03.idom_forget_sound (e : Env) (σ : State) (x : Var) (n : Int) (hg : e.γ σ) :
    (e.forget x).γ (upd σ x n) := Env.forget_sound hg x n

/-- `forget(variables)`: the state may change on the forgotten variables only -/
theorem C03.idom_forget_vector_sound (e : Env) (σ σ' : State) (vs : List Var) (hg : e.γ σ)
    (h : ∀ y, y ∉ vs → σ' y = σ y) : (e.forgetAll vs).γ σ' := Env.forgetAll_sound hg vs h

/-- `project(variables)`, both branches: the state is kept on the projected variables only -/
theorem C03.idom_project_sound (e : Env) (σ σ' : State) (vs : List Var) (hg : e.γ σ)
    (h : ∀ y ∈ vs, σ' y = σ y) : (e.project vs).γ σ' := Env.project_sound hg vs h

/-- `expand(x, new_x)`: `new_x` receives any value the domain allows for `x` (in particular the
    value of `x`) -/
theorem C03.idom_expand_sound (e : Env) (σ : State) (x nx : Var) (n : Int) (hg : e.γ σ)
    (hn : Itv.mem n (e.get x)) : (e.expand x nx).γ (upd σ nx n) := Env.expand_sound hg x nx hn

/-- `rename(from, to)` with distinct sources and distinct, fresh targets: `to[i]` receives the value
    of `from[i]` (`RenameRel`), the other variables outside `from` keep theirs -/
theorem C03.idom_rename_sound (e e' : Env) (σ σ' : State) (from' to' : List Var) (hg : e.γ σ)
    (hr : e.rename from' to' = some e') (hnf : from'.Nodup) (hnt : to'.Nodup)
    (hdis : ∀ y ∈ to', y ∉ from') (hfresh : ∀ y ∈ to', Map.find e.m y = none)
    (hrel : Env.RenameRel from' to' σ σ') (hout : ∀ y, y ∉ from' → y ∉ to' → σ' y = σ y) : e'.γ σ' :=
  Env.rename_sound hg hr hnf hnt hdis hfresh hrel hout

/-- `rename` raises CRAB_ERROR exactly on vectors of different lengths (unless nothing is to do) -/
theorem C03.idom_rename_defined (e : Env) (from' to' : List Var) :
    (e.rename from' to').isSome = (e.isTop || e.bottom || decide (from'.length = to'.length)) := by
  unfold Env.rename
  split
  · rename_i h; simp [h]
  · rename_i h
    split
    · rename_i h2; simp [h, h2]
    · rename_i h2; simp at h2; simp [h2]

/-- integer casts between integer variables (`assign`, plus `dst <= 2^bw - 1` for `zext`) -/
theorem C03.idom_cast_sound (e : Env) (σ : State) (zext : Bool) (bw : Nat) (dst src : Var) (hg : e.γ σ)
    (hz : zext = true → σ src ≤ 2 ^ bw - 1) : (e.intCast zext bw dst src).γ (upd σ dst (σ src)) :=
  Env.intCast_sound hg zext bw dst src hz

/-! ### exported constraints -/

/-- `to_linear_constraint_system()` holds in every state of `γ` … -/
theorem C03.idom_to_csts_sound (e : Env) (σ : State) (hs : e.m.Sorted) (hg : e.γ σ) : Sys.sat e.toCsts σ :=
  Env.toCsts_sound hs hg

/-- … and has no other solution (stored intervals are well formed: `lb ≠ +oo`, `ub ≠ -oo`) -/
theorem C03.idom_to_csts_complete (e : Env) (σ : State) (hw : ∀ p ∈ e.m, p.2.WF) (h : Sys.sat e.toCsts σ) :
    e.γ σ := Env.toCsts_complete hw h

/-! ### the operations as steps of the generic history contract -/

/-- every statement (one call of `assign` / `apply` / `+=` / `select` / `forget` / `project` /
    `expand` / cast) is a sound transformer step -/
theorem C03.idom_step_trans_sound (d : Nat) (st : Stmt) (hok : st.Ok) :
    (Dom.Step.trans d ⟨st.execS, st.rel⟩ : Dom.Step SEnv State).Sound SEnv.γ :=
  fun _ _ _ hg hr => st.exec_sound hok hg hr

theorem C03.idom_step_join_sound (d a b : Nat) : (Dom.Step.upper d a b SEnv.join : Dom.Step SEnv State).Sound SEnv.γ :=
  fun x y _ h => h.elim (fun h => Env.join_upper_left x.2 y.1 h) (fun h => Env.join_upper_right x.2 h)

theorem C03.idom_step_widen_sound (d a b : Nat) : (Dom.Step.upper d a b SEnv.widen : Dom.Step SEnv State).Sound SEnv.γ :=
  fun x y _ h => h.elim (fun h => Env.widen_upper_left x.2 y.1 h) (fun h => Env.widen_upper_right x.2 h)

/-- widening with thresholds, for every threshold vector built by the class (`-oo` first, `+oo` last:
    `Thresholds.init_wf`, `Thresholds.add_wf`) -/
theorem C03.idom_step_widen_thresholds_sound (d a b : Nat) (ts : Thresholds) (hw : ts.WF) :
    (Dom.Step.upper d a b (SEnv.widenTh ts) : Dom.Step SEnv State).Sound SEnv.γ :=
  fun x y _ h => h.elim (fun h => Env.widenTh_upper_left hw x.2 y.1 h) (fun h => Env.widenTh_upper_right hw x.2 h)

theorem C03.idom_thresholds_wf (ks : List Int) (cap : Nat) :
    (ks.foldl (fun ts k => Thresholds.add ts cap k) Thresholds.init).WF := by
  have : ∀ (ks : List Int) (ts : Thresholds), ts.WF → (ks.foldl (fun ts k => Thresholds.add ts cap k) ts).WF := by
    intro ks
    induction ks with
    | nil => intro ts h; exact h
    | cons k rest ih => intro ts h; exact ih _ (Thresholds.add_wf h cap k)
  exact this ks _ Thresholds.init_wf

theorem C03.idom_step_meet_sound (d a b : Nat) : (Dom.Step.lower d a b SEnv.meet : Dom.Step SEnv State).Sound SEnv.γ :=
  fun x _ _ h1 h2 => Env.meet_sound x.2 h1 h2

theorem C03.idom_step_narrow_sound (d a b : Nat) : (Dom.Step.lower d a b SEnv.narrow : Dom.Step SEnv State).Sound SEnv.γ :=
  fun x _ _ h1 h2 => Env.narrow_sound x.2 h1 h2

/-- the steps an operation history of the interval domain is made of -/
inductive C03.IdomStep : Dom.Step SEnv State → Prop
  | trans (d : Nat) (st : Stmt) (hok : st.Ok) : C03.IdomStep (.trans d ⟨st.execS, st.rel⟩)
  | join (d a b : Nat) : C03.IdomStep (.upper d a b SEnv.join)
  | widen (d a b : Nat) : C03.IdomStep (.upper d a b SEnv.widen)
  | widenTh (d a b : Nat) (ts : Thresholds) (hw : ts.WF) : C03.IdomStep (.upper d a b (SEnv.widenTh ts))
  | meet (d a b : Nat) : C03.IdomStep (.lower d a b SEnv.meet)
  | narrow (d a b : Nat) : C03.IdomStep (.lower d a b SEnv.narrow)
  | copy (d s : Nat) : C03.IdomStep (.copy d s)
  | setBot (d : Nat) : C03.IdomStep (.setBot d SEnv.bot)

theorem C03.idom_step_sound (st : Dom.Step SEnv State) (h : C03.IdomStep st) : st.Sound SEnv.γ := by
  cases h with
  | trans d s hok => exact C03.idom_step_trans_sound d s hok
  | join d a b => exact C03.idom_step_join_sound d a b
  | widen d a b => exact C03.idom_step_widen_sound d a b
  | widenTh d a b ts hw => exact C03.idom_step_widen_thresholds_sound d a b ts hw
  | meet d a b => exact C03.idom_step_meet_sound d a b
  | narrow d a b => exact C03.idom_step_narrow_sound d a b
  | copy d s => trivial
  | setBot d => trivial

/-- **C03 for the interval domain**: after ANY history of its operations over a pool of values,
    every slot contains the collecting semantics of the history -/
theorem C03.idom_history_sound (hist : List (Dom.Step SEnv State)) (hs : ∀ st ∈ hist, C03.IdomStep st)
    (p : Dom.Pool SEnv) (c : Dom.CPool State) (h : ∀ i s, c i s → (p i).γ s) :
    ∀ i s, (Dom.collHist c hist) i s → ((Dom.runHist p hist) i).γ s :=
  C03.history_sound SEnv.γ hist (fun st hst => C03.idom_step_sound st (hs st hst)) p c h

/-- a slot whose collecting semantics is inhabited is never reported bottom -/
theorem C03.idom_not_bottom_if_inhabited (hist : List (Dom.Step SEnv State)) (hs : ∀ st ∈ hist, C03.IdomStep st)
    (p : Dom.Pool SEnv) (c : Dom.CPool State) (h : ∀ i s, c i s → (p i).γ s) (i : Nat) (s : State)
    (hc : (Dom.collHist c hist) i s) : ((Dom.runHist p hist) i).1.bottom = false :=
  (C03.idom_history_sound hist hs p c h i s hc).1

/-! ### the contract of the fixpoint engine -/

/-- blocks of statements are sound block transformers -/
theorem C03.idom_block_sound (b : List Stmt) (hok : ∀ st ∈ b, st.Ok) (a : SEnv) (s s' : State)
    (hg : a.γ s) (hr : BlockRel b s s') : (execBlock b a).γ s' := execBlock_sound b hok a s s' hg hr

/-- **C01 ∘ C03**: the interleaved fixpoint iterator run on the interval domain with block
    transformers made of the operations above returns tables that contain the collecting
    semantics of the program (every ordering, widening delay, number of descending iterations,
    assumption map) -/
theorem C03.idom_run_sound (prog : Nat → List Stmt) (hok : ∀ n, ∀ st ∈ prog n, st.Ok) (preds : Nat → List Nat)
    (nesting : Nat → Option (List Nat)) (entry : Nat) (init : SEnv)
    (assumptions : Option (List (Nat × SEnv))) (delay descending : Nat) (w : List Fix.Comp)
    (fuel : Nat) (st : Fix.St SEnv)
    (hwf : Fix.WtoWF (mkCtx prog preds nesting entry init assumptions delay descending) w)
    (hrun : Fix.run (mkCtx prog preds nesting entry init assumptions delay descending) fuel w = some st) :
    let sm := sem prog hok preds nesting entry init assumptions delay descending
    (∀ n s, Fix.ReachPre _ sm n s → (st.pre n).γ s) ∧ (∀ n s, Fix.ReachPost _ sm n s → (st.post n).γ s) :=
  C01.run_sound _ w State (sem prog hok preds nesting entry init assumptions delay descending) fuel st hwf hrun

/-- non-vacuity: `x := 0; assume x <= 5; y := x + 1` from top gives exactly the expected bindings -/
example : (execBlock [.assign 0 (Expr.const 0), .assume [⟨(Expr.var 0).subNum 5, .leq⟩],
    .arithCst .add 1 0 1] SEnv.top).1 = ⟨false, [(0, Itv.single 0), (1, Itv.single 1)]⟩ := by decide

/-! ### exactness of the model: unreachable CRAB_ERROR, sufficient fuel -/

/-- every statement keeps every stored interval well formed (`lb ≠ +oo`, `ub ≠ -oo`) … -/
theorem C03.idom_stmt_valwf (st : Stmt) (a : Env) (h : a.ValWF) : (st.exec a).ValWF := st.exec_valwf h

/-- … and so do the lattice operations, `weak_assign` and `rename` -/
theorem C03.idom_lattice_valwf (a b : Env) (ha : a.ValWF) (hb : b.ValWF) :
    (Env.join a b).ValWF ∧ (Env.meet a b).ValWF ∧ (Env.widen a b).ValWF ∧ (Env.narrow a b).ValWF :=
  ⟨Env.upperWith_valwf (fun _ _ => Itv.wf_join) ha hb, Env.lowerWith_valwf (fun _ _ => Itv.wf_meet) ha hb,
   Env.upperWith_valwf (fun _ _ => Itv.wf_widen) ha hb, Env.lowerWith_valwf (fun _ _ => Itv.wf_narrow) ha hb⟩

theorem C03.idom_widen_thresholds_valwf (ts : Thresholds) (hw : ts.WF) (a b : Env) (ha : a.ValWF) (hb : b.ValWF) :
    (Env.widenTh ts a b).ValWF := Env.upperWith_valwf (fun _ _ => wf_widenTh hw) ha hb

theorem C03.idom_weak_assign_valwf (e : Env) (x : Var) (ex : Expr) (h : e.ValWF) : (e.weakAssign x ex).ValWF :=
  Env.weakAssign_valwf h x ex

theorem C03.idom_rename_valwf (e e' : Env) (f t : List Var) (hr : e.rename f t = some e') (h : e.ValWF) : e'.ValWF :=
  Env.rename_valwf hr h

theorem C03.idom_top_bot_valwf : Env.top.ValWF ∧ Env.bot.ValWF := ⟨Env.valwf_top, Env.valwf_bot⟩

/-- the invariant holds of every slot after any history that starts from well-formed values -/
theorem C03.idom_history_valwf (hist : List (Dom.Step SEnv State)) (hs : ∀ st ∈ hist, C03.IdomStep st)
    (p : Dom.Pool SEnv) (h : ∀ i, (p i).1.ValWF) : ∀ i, ((Dom.runHist p hist) i).1.ValWF := by
  induction hist generalizing p with
  | nil => exact h
  | cons st rest ih =>
    simp only [Dom.runHist, List.foldl_cons]
    apply ih (fun x hx => hs x (List.mem_cons_of_mem _ hx))
    intro i
    have hst := hs st List.mem_cons_self
    cases hst with
    | trans d s hok =>
      simp only [Dom.Step.run, Dom.Pool.set]; split
      · exact s.exec_valwf (h d)
      · exact h i
    | join d a b =>
      simp only [Dom.Step.run, Dom.Pool.set]; split
      · exact (C03.idom_lattice_valwf _ _ (h a) (h b)).1
      · exact h i
    | widen d a b =>
      simp only [Dom.Step.run, Dom.Pool.set]; split
      · exact (C03.idom_lattice_valwf _ _ (h a) (h b)).2.2.1
      · exact h i
    | widenTh d a b ts hw =>
      simp only [Dom.Step.run, Dom.Pool.set]; split
      · exact C03.idom_widen_thresholds_valwf ts hw _ _ (h a) (h b)
      · exact h i
    | meet d a b =>
      simp only [Dom.Step.run, Dom.Pool.set]; split
      · exact (C03.idom_lattice_valwf _ _ (h a) (h b)).2.1
      · exact h i
    | narrow d a b =>
      simp only [Dom.Step.run, Dom.Pool.set]; split
      · exact (C03.idom_lattice_valwf _ _ (h a) (h b)).2.2.2
      · exact h i
    | copy d s0 =>
      simp only [Dom.Step.run, Dom.Pool.set]; split
      · exact h s0
      · exact h i
    | setBot d =>
      simp only [Dom.Step.run, Dom.Pool.set]; split
      · exact Env.valwf_bot
      · exact h i

/-- on such environments the code paths that can raise CRAB_ERROR (`-oo + +oo` in
    `interval::operator+` / `operator-`) never do: the transcriptions with `Option` of
    `operator[](expr)` / `assign`, of `compute_residual` and of the `switch` of `apply` return
    `some` of the total functions the model uses -/
theorem C03.idom_no_crab_error_eval (e : Env) (h : e.ValWF) (ex : Expr) :
    Env.evalExprO e ex = some (e.evalExpr ex) := Env.evalExprO_eq h ex

theorem C03.idom_no_crab_error_residual (env : Env) (h : env.ValWF) (c : Cst) (pivot : Var) (n : Nat) :
    residualLoopO env pivot c.expr.terms (Itv.single c.constant) n = some (computeResidual c pivot env n) :=
  residualLoopO_eq h pivot c.expr.terms _ n (Itv.wf_single _)

theorem C03.idom_no_crab_error_apply (e : Env) (h : e.ValWF) (op : ArithOp) (y z : Var) (k : Int) :
    op.evalO (e.get y) (e.get z) = some (op.eval (e.get y) (e.get z)) ∧
    op.evalO (e.get y) (Itv.single k) = some (op.eval (e.get y) (Itv.single k)) :=
  ⟨op.evalO_eq (Env.get_wf h y) (Env.get_wf h z), op.evalO_eq (Env.get_wf h y) (Itv.wf_single k)⟩

/-- the exported system has exactly `γ` as solutions on every reachable value -/
theorem C03.idom_to_csts_iff (e : Env) (σ : State) (hs : e.m.Sorted) (hw : e.ValWF) :
    Sys.sat e.toCsts σ ↔ e.γ σ := ⟨Env.toCsts_complete hw, Env.toCsts_sound hs⟩

/-- the fuel `m_max_op + 1` given to the loop of `solve_large_system` is never exhausted: any larger
    fuel gives the same result (each iteration that goes on has increased `m_op_count`) -/
theorem C03.idom_solver_fuel_exact (tbl : List Cst) (maxOp : Nat) (st : SolverSt) (k : Nat) :
    solveLargeLoop tbl maxOp (maxOp + 1 + k) st = solveLargeLoop tbl maxOp (maxOp + 1) st :=
  solveLargeLoop_fuel tbl maxOp st k
