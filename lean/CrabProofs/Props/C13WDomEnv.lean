import CrabProofs.Props.C13WDom
import CrabProofs.Lemmas.WDomEnv

/-!
# C13 (part 5) — the wrapped interval domain on environments and bit-vector states

Property theorems only (helpers: `CrabProofs/Lemmas/WDomEnv.lean`, `WDomVal.lean`).

* typing `wd : Var → Nat` with `C13.TyOk wd` (`1 ≤ wd v ≤ 64`);
* a concrete state `σ : Var → Nat` gives every variable the unsigned value of a bit-vector of its
  declared width (`C13.StOk wd σ`); `C13.bv wd σ v : BitVec (wd v)` is that bit-vector;
* `WDom.γ wd e σ` : `e` is not bottom and `σ v ∈ γ(e[v])` at width `wd v`, for every `v`;
* `WDom.Inv e` (invariant of `separate_domain`) and `WDom.Typed wd e` (every binding has the
  declared width) hold of `top`, `bottom` and are preserved by every operation below.

Proved for all typings, environments and states: `assign`, the arithmetic and bitwise `apply`
(variable and constant operand), the casts, `operator-=`, `set`, `<=`, `|`, `||`, `is_bottom`,
`is_top`.  `operator+=` is **unsound** on the current tree (`C13.wdom_assume_counterexample`).
-/
open Crab Crab.WInt Crab.WrapInt Crab.WDom Crab.XDom Crab.Lin

def C13.TyOk (wd : Ty) : Prop := ∀ k, 1 ≤ wd k ∧ wd k ≤ 64
def C13.StOk (wd : Ty) (σ : Var → Nat) : Prop := ∀ k, σ k < 2 ^ wd k
/-- the bit-vector held by `v` -/
def C13.bv (wd : Ty) (σ : Var → Nat) (v : Var) : BitVec (wd v) := BitVec.ofNat (wd v) (σ v)

theorem C13.bv_toNat {wd : Ty} {σ : Var → Nat} (hσ : C13.StOk wd σ) (v : Var) : (C13.bv wd σ v).toNat = σ v := by
  unfold C13.bv; rw [BitVec.toNat_ofNat]; exact Nat.mod_eq_of_lt (hσ v)

theorem C13.memBV_bv {wd : Ty} {e : WDom.Env} {σ : Var → Nat} (hσ : C13.StOk wd σ) (hg : γ wd e σ) (v : Var) :
    memBV (C13.bv wd σ v) (e.get v) := by
  unfold memBV; rw [C13.bv_toNat hσ]; exact hg.2 v

theorem C13.stOk_upd {wd : Ty} {σ : Var → Nat} (hσ : C13.StOk wd σ) (x : Var) (b : BitVec (wd x)) :
    C13.StOk wd (upd σ x b.toNat) := by
  intro k; unfold upd; split
  · next h => subst h; exact b.isLt
  · exact hσ k

/-- the common last step of every transformer: `_env.set(x, i)` with a value that contains the
    new bit-vector of `x` (typing is kept when `i` is `top()` or of the width of `x`) -/
theorem C13.wdom_set_sound (wd : Ty) (e : WDom.Env) (x : Var) (hx : x < 2 ^ 64) (i : WInt)
    (he : Inv e) (σ : Var → Nat) (hg : γ wd e σ) (b : BitVec (wd x)) (hb : memBV b i) :
    γ wd (e.set x i) (upd σ x b.toNat) ∧ Inv (e.set x i) ∧
      (Typed wd e → Good (wd x) i → Typed wd (e.set x i)) :=
  ⟨set_sound he hx hg hb, (set_spec (wd := wd) he hx).1, (set_spec (wd := wd) he hx).2.1⟩

/-- `set` keeps the invariants whatever the state -/
theorem C13.wdom_set_inv_typed (wd : Ty) (e : WDom.Env) (x : Var) (hx : x < 2 ^ 64) (i : WInt)
    (he : Inv e) (ht : Typed wd e) (hi : Good (wd x) i) : Inv (e.set x i) ∧ Typed wd (e.set x i) :=
  ⟨(set_spec (wd := wd) he hx).1, (set_spec (wd := wd) he hx).2.1 ht hi⟩

/-- the results of the arithmetic `switch` are `top()` or of the width of the operands -/
theorem C13.wdom_apply_arith_good (w : Nat) (h1 : 1 ≤ w) (hw : w ≤ 64) (op : ArithOp) (yi zi r : WInt)
    (gy : Good w yi) (gz : Good w zi) (h : arithEval op yi zi = some r) : Good w r := by
  cases op <;> simp only [arithEval, Option.some.injEq] at h
  · subst h; exact add_good hw gy gz
  · subst h; exact sub_good hw gy gz
  · exact mul_good h1 hw gy gz h
  · exact sdiv_good h1 hw gy gz h
  · exact udiv_good h1 hw gy gz h
  · subst h; exact defaultImpl_good w yi zi
  · subst h; exact defaultImpl_good w yi zi

/-- members of the value of a variable `y` of the width of `x`, as a bit-vector of that width -/
theorem C13.memBV_cast {wd : Ty} {e : WDom.Env} {σ : Var → Nat} (hσ : C13.StOk wd σ) (hg : γ wd e σ)
    {x y : Var} (hy : wd y = wd x) : memBV ((C13.bv wd σ y).cast hy) (e.get y) := by
  unfold memBV; rw [BitVec.toNat_cast, C13.bv_toNat hσ, ← hy]; exact hg.2 y

/-- **`apply(op, x, y, z)`, arithmetic, variable operand** (`y`, `z` of the width of `x`): the
    successor state gives `x` the bit-vector result (no successor on a division by zero) -/
theorem C13.wdom_apply_arith_var_sound (wd : Ty) (hty : C13.TyOk wd) (e r : WDom.Env) (op : ArithOp)
    (x y z : Var) (hx : x < 2 ^ 64) (hy : wd y = wd x) (hz : wd z = wd x)
    (he : Inv e) (ht : Typed wd e) (h : e.applyVar op x y z = some r)
    (σ : Var → Nat) (hσ : C13.StOk wd σ) (hg : γ wd e σ) (c : BitVec (wd x))
    (hc : C13.bvArith op ((C13.bv wd σ y).cast hy) ((C13.bv wd σ z).cast hz) = some c) :
    γ wd r (upd σ x c.toNat) ∧ Inv r ∧ Typed wd r := by
  unfold Env.applyVar at h
  cases hv : arithEval op (e.get y) (e.get z) with
  | none => rw [hv] at h; cases h
  | some xi =>
    rw [hv] at h; injection h with h; subst h
    have gy : Good (wd x) (e.get y) := hy ▸ get_good ht y
    have gz : Good (wd x) (e.get z) := hz ▸ get_good ht z
    have gx := C13.wdom_apply_arith_good (wd x) (hty x).1 (hty x).2 op _ _ xi gy gz hv
    obtain ⟨a, b, c'⟩ := C13.wdom_set_sound wd e x hx xi he σ hg c
      (C13.wdom_apply_arith_sound (wd x) (hty x).1 (hty x).2 op _ _ xi gy gz hv _ _ c
        (C13.memBV_cast hσ hg hy) (C13.memBV_cast hσ hg hz) hc)
    exact ⟨a, b, c' ht gx⟩

/-- **`apply(op, x, y, k)`, arithmetic, constant operand**: `k` is read modulo `2^width(x)` -/
theorem C13.wdom_apply_arith_cst_sound (wd : Ty) (hty : C13.TyOk wd) (e r : WDom.Env) (op : ArithOp)
    (x y : Var) (k : Int) (hx : x < 2 ^ 64) (hy : wd y = wd x)
    (he : Inv e) (ht : Typed wd e) (h : e.applyCst wd op x y k = some r)
    (σ : Var → Nat) (hσ : C13.StOk wd σ) (hg : γ wd e σ) (c : BitVec (wd x))
    (hc : C13.bvArith op ((C13.bv wd σ y).cast hy) (BitVec.ofInt (wd x) k) = some c) :
    γ wd r (upd σ x c.toNat) ∧ Inv r ∧ Typed wd r := by
  unfold Env.applyCst at h
  cases hk : WInt.ofZ k (wd x) with
  | none => rw [hk] at h; cases h
  | some zi =>
    rw [hk] at h
    simp only at h
    cases hv : arithEval op (e.get y) zi with
    | none => rw [hv] at h; cases h
    | some xi =>
      rw [hv] at h; injection h with h; subst h
      have gy : Good (wd x) (e.get y) := hy ▸ get_good ht y
      have gz := C13.wdom_const_good (wd x) (hty x).1 (hty x).2 k zi hk
      have gx := C13.wdom_apply_arith_good (wd x) (hty x).1 (hty x).2 op _ _ xi gy gz hv
      obtain ⟨a, b, c'⟩ := C13.wdom_set_sound wd e x hx xi he σ hg c
        (C13.wdom_apply_arith_sound (wd x) (hty x).1 (hty x).2 op _ _ xi gy gz hv _ _ c
          (C13.memBV_cast hσ hg hy) (C13.wdom_const_sound (wd x) (hty x).1 (hty x).2 k zi hk) hc)
      exact ⟨a, b, c' ht gx⟩

/-- **bitwise `apply`**, variable operand: `r = e.set x xi` for the value `xi` of the `switch`;
    the typing is kept when `xi` is `top()` or of the width of `x` (always for `And/Or/Xor`) -/
theorem C13.wdom_apply_bitwise_var_sound (wd : Ty) (hty : C13.TyOk wd) (e r : WDom.Env) (op : BitOp)
    (x y z : Var) (hx : x < 2 ^ 64) (hy : wd y = wd x) (hz : wd z = wd x)
    (he : Inv e) (ht : Typed wd e) (h : e.applyBitVar op x y z = some r)
    (σ : Var → Nat) (hσ : C13.StOk wd σ) (hg : γ wd e σ) :
    γ wd r (upd σ x (C13.bvBit op ((C13.bv wd σ y).cast hy) ((C13.bv wd σ z).cast hz)).toNat) ∧ Inv r ∧
      ∃ xi, bitEval op (e.get y) (e.get z) = some xi ∧ (Good (wd x) xi → Typed wd r) ∧
        (op = .and ∨ op = .or ∨ op = .xor → Typed wd r) := by
  unfold Env.applyBitVar at h
  cases hv : bitEval op (e.get y) (e.get z) with
  | none => rw [hv] at h; cases h
  | some xi =>
    rw [hv] at h; injection h with h; subst h
    have gy : Good (wd x) (e.get y) := hy ▸ get_good ht y
    have gz : Good (wd x) (e.get z) := hz ▸ get_good ht z
    have hm := C13.wdom_apply_bitwise_sound (wd x) (hty x).1 (hty x).2 op _ _ xi gy gz hv _ _
      (C13.memBV_cast hσ hg hy) (C13.memBV_cast hσ hg hz)
    obtain ⟨a, b, c'⟩ := C13.wdom_set_sound wd e x hx xi he σ hg _ hm
    refine ⟨a, b, xi, rfl, c' ht, fun hop => ?_⟩
    have : xi = (e.get y).defaultImpl (e.get z) := by
      rcases hop with rfl | rfl | rfl <;> simpa [bitEval] using hv.symm
    exact c' ht (this ▸ defaultImpl_good (wd x) _ _)

/-- **bitwise `apply`**, constant operand -/
theorem C13.wdom_apply_bitwise_cst_sound (wd : Ty) (hty : C13.TyOk wd) (e r : WDom.Env) (op : BitOp)
    (x y : Var) (k : Int) (hx : x < 2 ^ 64) (hy : wd y = wd x)
    (he : Inv e) (ht : Typed wd e) (h : e.applyBitCst wd op x y k = some r)
    (σ : Var → Nat) (hσ : C13.StOk wd σ) (hg : γ wd e σ) :
    γ wd r (upd σ x (C13.bvBit op ((C13.bv wd σ y).cast hy) (BitVec.ofInt (wd x) k)).toNat) ∧ Inv r ∧
      ∃ zi xi, WInt.ofZ k (wd x) = some zi ∧ bitEval op (e.get y) zi = some xi ∧
        (Good (wd x) xi → Typed wd r) := by
  unfold Env.applyBitCst at h
  cases hk : WInt.ofZ k (wd x) with
  | none => rw [hk] at h; cases h
  | some zi =>
    rw [hk] at h
    simp only at h
    cases hv : bitEval op (e.get y) zi with
    | none => rw [hv] at h; cases h
    | some xi =>
      rw [hv] at h; injection h with h; subst h
      have gy : Good (wd x) (e.get y) := hy ▸ get_good ht y
      have gz := C13.wdom_const_good (wd x) (hty x).1 (hty x).2 k zi hk
      have hm := C13.wdom_apply_bitwise_sound (wd x) (hty x).1 (hty x).2 op _ _ xi gy gz hv _ _
        (C13.memBV_cast hσ hg hy) (C13.wdom_const_sound (wd x) (hty x).1 (hty x).2 k zi hk)
      obtain ⟨a, b, c'⟩ := C13.wdom_set_sound wd e x hx xi he σ hg _ hm
      exact ⟨a, b, zi, xi, rfl, hv, c' ht⟩

/-- **`assign(x, e)`** (all the variables of `e` have the width of `x`): the successor state gives
    `x` the value of `e` computed modulo `2^width(x)` -/
theorem C13.wdom_assign_sound (wd : Ty) (hty : C13.TyOk wd) (e r : WDom.Env) (x : Var) (ex : Expr)
    (hx : x < 2 ^ 64) (hex : ∀ p ∈ ex.terms, wd p.1 = wd x)
    (he : Inv e) (ht : Typed wd e) (h : e.assign wd x ex = some r)
    (σ : Var → Nat) (hσ : C13.StOk wd σ) (hg : γ wd e σ) :
    γ wd r (upd σ x (C13.bvLin (wd x) σ ex).toNat) ∧ Inv r ∧ Typed wd r := by
  have hterms : ∀ p ∈ ex.terms, σ p.1 < 2 ^ wd x ∧ mem (wd x) (σ p.1) (e.get p.1) ∧ Good (wd x) (e.get p.1) := by
    intro p hp
    have hw := hex p hp
    exact ⟨hw ▸ hσ p.1, hw ▸ hg.2 p.1, hw ▸ get_good ht p.1⟩
  unfold Env.assign at h
  cases hv : getVariable ex with
  | some v =>
    rw [hv] at h; simp only [Option.some.injEq] at h; subst h
    -- `e` is the variable `v`
    have hshape : ex.terms = [(v, 1)] ∧ ex.cst = 0 := by
      unfold getVariable at hv
      split at hv
      · simp at hv
      · split at hv
        · rename_i hc
          split at hv
          · rename_i v' c hts
            split at hv
            · rename_i h1
              simp only [Option.some.injEq] at hv
              subst hv; subst h1; exact ⟨hts, hc.1⟩
            · simp at hv
          · simp at hv
        · simp at hv
    have hvw : wd v = wd x := hex (v, 1) (by rw [hshape.1]; exact List.mem_cons_self ..)
    have hval : (C13.bvLin (wd x) σ ex).toNat = σ v := by
      unfold C13.bvLin Expr.eval
      rw [hshape.1, hshape.2]
      simp only [Expr.evalTerms, Int.one_mul, Int.add_zero, BitVec.toNat_ofInt]
      have hlt : σ v < 2 ^ wd x := hvw ▸ hσ v
      have hlt' : ((σ v : Nat) : Int) < ((2 ^ wd x : Nat) : Int) := by exact_mod_cast hlt
      rw [Int.emod_eq_of_lt (by omega) hlt']
      rfl
    have hm : memBV (C13.bvLin (wd x) σ ex) (e.get v) := by
      unfold memBV; rw [hval, ← hvw]; exact hg.2 v
    obtain ⟨a, b, c'⟩ := C13.wdom_set_sound wd e x hx (e.get v) he σ hg _ hm
    exact ⟨a, b, c' ht (hvw ▸ get_good ht v)⟩
  | none =>
    rw [hv] at h; simp only at h
    cases hr : e.evalExpr ex (wd x) with
    | none => rw [hr] at h; cases h
    | some ri =>
      rw [hr] at h; injection h with h; subst h
      obtain ⟨g, m⟩ := C13.wdom_eval_sound (wd x) (hty x).1 (hty x).2 e ex ri σ hterms hr
      obtain ⟨a, b, c'⟩ := C13.wdom_set_sound wd e x hx ri he σ hg _ m
      exact ⟨a, b, c' ht g⟩

/-- **casts on environments** (`apply(int_conv_operation_t, dst, src)`): the successor state gives
    `dst` the zero extension / sign extension / truncation of the bit-vector of `src` -/
theorem C13.wdom_cast_env_sound (wd : Ty) (hty : C13.TyOk wd) (e r : WDom.Env) (op : CastOp)
    (dst src : Var) (hd : dst < 2 ^ 64) (he : Inv e) (ht : Typed wd e)
    (h : e.cast wd op dst src = some r) (σ : Var → Nat) (hσ : C13.StOk wd σ) (hg : γ wd e σ) :
    γ wd r (upd σ dst (C13.bvCast op (wd dst) (C13.bv wd σ src)).toNat) ∧ Inv r ∧
      ∃ di, Env.castVal wd op dst src (e.get src) = some di ∧ (Good (wd dst) di → Typed wd r) := by
  unfold Env.cast at h
  cases hv : Env.castVal wd op dst src (e.get src) with
  | none => rw [hv] at h; cases h
  | some di =>
    rw [hv] at h; injection h with h; subst h
    have hm := C13.wdom_cast_sound wd op dst src (e.get src) di (hty src).1 (hty src).2 (get_good ht src) hv
      (C13.bv wd σ src) (C13.memBV_bv hσ hg src)
    obtain ⟨a, b, c'⟩ := C13.wdom_set_sound wd e dst hd di he σ hg _ hm
    exact ⟨a, b, di, rfl, c' ht⟩

/-- **`operator-=(x)`**: `x` may take any value afterwards -/
theorem C13.wdom_forget_sound (wd : Ty) (e : WDom.Env) (x : Var) (hx : x < 2 ^ 64) (he : Inv e)
    (ht : Typed wd e) (σ : Var → Nat) (hg : γ wd e σ) (n : Nat) :
    γ wd (XDom.Env.forget wintLattice e x) (upd σ x n) ∧ Inv (XDom.Env.forget wintLattice e x) ∧
      Typed wd (XDom.Env.forget wintLattice e x) :=
  ⟨(forget_spec' he ht hx).2.2 σ hg n, (forget_spec' he ht hx).1, (forget_spec' he ht hx).2.1⟩

/-- **`expand(x, new_x)`** (`new_x` of the width of `x`): `new_x` becomes a copy of `x` -/
theorem C13.wdom_expand_sound (wd : Ty) (e : WDom.Env) (x nx : Var) (hnx : nx < 2 ^ 64) (hw : wd nx = wd x)
    (he : Inv e) (ht : Typed wd e) (σ : Var → Nat) (hg : γ wd e σ) :
    γ wd (XDom.Env.expand wintLattice e x nx) (upd σ nx (σ x)) ∧ Inv (XDom.Env.expand wintLattice e x nx) ∧
      Typed wd (XDom.Env.expand wintLattice e x nx) := by
  unfold XDom.Env.expand
  split
  · next hbt =>
    have hbt' : e.isTop = true := by
      simp only [Bool.or_eq_true] at hbt
      rcases hbt with hb | hb
      · have : e.isBot = true := hb
        rw [hg.1] at this; cases this
      · exact hb
    refine ⟨⟨hg.1, fun k => ?_⟩, he, ht⟩
    have hemp : e.tree = .empty := by
      unfold XDom.Env.isTop SepDom.isTop at hbt'
      have hsz : e.tree.size = 0 := by simpa [hg.1] using hbt'
      cases htr : e.tree with
      | empty => rfl
      | leaf k v => rw [htr] at hsz; simp [Patricia.Tree.size] at hsz
      | node p m l r =>
        exfalso
        rw [htr] at hsz
        have hwf := he.1; rw [htr] at hwf
        obtain ⟨⟨k1, hk1⟩, _⟩ := hwf.node_keys
        have h0 : 0 < l.toList.length := by
          obtain ⟨v, hv⟩ := Patricia.mem_keys_iff_toList.mp hk1
          exact List.length_pos_of_mem hv
        simp only [Patricia.Tree.size] at hsz
        have := Patricia.size_eq_length l
        omega
    rw [get_eq, hg.1, hemp]
    exact mem_top _ _
  · have hm : mem (wd nx) (σ x) (e.get x) := hw ▸ hg.2 x
    have := set_sound (wd := wd) he hnx hg hm
    exact ⟨this, (set_spec (wd := wd) he hnx).1, (set_spec (wd := wd) he hnx).2.1 ht (hw ▸ get_good ht x)⟩

/-! ## lattice operations -/

/-- **`operator<=`**: a yes answer is an inclusion of concretisations -/
theorem C13.wdom_leq_sound (wd : Ty) (hty : C13.TyOk wd) (a b : WDom.Env) (ha : Inv a) (hb : Inv b)
    (ta : Typed wd a) (tb : Typed wd b) (h : XDom.Env.leq wintLattice a b = true)
    (σ : Var → Nat) (hσ : C13.StOk wd σ) (hg : γ wd a σ) : γ wd b σ :=
  leq_sound (fun k => (hty k).2) ha hb ta tb h hσ hg

/-- **`operator|`** is an upper bound, and keeps the invariants -/
theorem C13.wdom_join_upper (wd : Ty) (hty : C13.TyOk wd) (a b : WDom.Env) (ha : Inv a) (hb : Inv b)
    (ta : Typed wd a) (tb : Typed wd b) (σ : Var → Nat) (hσ : C13.StOk wd σ) (hg : γ wd a σ ∨ γ wd b σ) :
    γ wd (XDom.Env.join wintLattice a b) σ :=
  upper_sound (fun _ _ => join_nonbot) (fun _ => join_self)
    (fun _ hw _ _ hx hy _ hv hm => WInt.join_upper hw hx hy hv hm) (fun k => (hty k).2) ha hb ta tb hσ hg

theorem C13.wdom_join_inv (wd : Ty) (hty : C13.TyOk wd) (a b : WDom.Env) (ha : Inv a) (hb : Inv b)
    (ta : Typed wd a) (tb : Typed wd b) :
    Inv (XDom.Env.join wintLattice a b) ∧ Typed wd (XDom.Env.join wintLattice a b) :=
  upper_inv (fun _ _ => join_nonbot) (fun _ => join_self) (fun _ _ _ _ hx hy => join_good' hx hy)
    (fun k => (hty k).2) ha hb ta tb

/-- **`operator||`** is an upper bound of both operands, and keeps the invariants -/
theorem C13.wdom_widen_upper (wd : Ty) (hty : C13.TyOk wd) (a b : WDom.Env) (ha : Inv a) (hb : Inv b)
    (ta : Typed wd a) (tb : Typed wd b) (σ : Var → Nat) (hσ : C13.StOk wd σ) (hg : γ wd a σ ∨ γ wd b σ) :
    γ wd (XDom.Env.widen wintLattice a b) σ :=
  upper_sound (fun _ _ => widen_nonbot) (fun _ => widen_self)
    (fun _ hw _ _ hx hy _ hv hm => WInt.widen_sound hw hx hy hv hm) (fun k => (hty k).2) ha hb ta tb hσ hg

theorem C13.wdom_widen_inv (wd : Ty) (hty : C13.TyOk wd) (a b : WDom.Env) (ha : Inv a) (hb : Inv b)
    (ta : Typed wd a) (tb : Typed wd b) :
    Inv (XDom.Env.widen wintLattice a b) ∧ Typed wd (XDom.Env.widen wintLattice a b) :=
  upper_inv (fun _ _ => widen_nonbot) (fun _ => widen_self) (fun _ hw _ _ hx hy => widen_good hw hx hy)
    (fun k => (hty k).2) ha hb ta tb

/-- **`operator&`** keeps every common state.  (That the result again satisfies the invariant "top
    is never stored" is not proved here; it is what the harness observes.) -/
theorem C13.wdom_meet_sound (wd : Ty) (hty : C13.TyOk wd) (a b : WDom.Env) (ha : Inv a) (hb : Inv b)
    (ta : Typed wd a) (tb : Typed wd b) (σ : Var → Nat) (hσ : C13.StOk wd σ) (hga : γ wd a σ) (hgb : γ wd b σ) :
    γ wd (XDom.Env.meet wintLattice a b) σ :=
  meet_sound (fun k => (hty k).2) ha hb ta tb hσ hga hgb

/-- **`operator&&`** (the meet of the values) keeps every common state -/
theorem C13.wdom_narrow_sound (wd : Ty) (hty : C13.TyOk wd) (a b : WDom.Env) (ha : Inv a) (hb : Inv b)
    (ta : Typed wd a) (tb : Typed wd b) (σ : Var → Nat) (hσ : C13.StOk wd σ) (hga : γ wd a σ) (hgb : γ wd b σ) :
    γ wd (XDom.Env.narrow wintLattice a b) σ :=
  meet_sound (fun k => (hty k).2) ha hb ta tb hσ hga hgb

/-- **`is_bottom()`**: a yes answer describes no state -/
theorem C13.wdom_is_bottom_sound (wd : Ty) (e : WDom.Env) (h : XDom.Env.isBottom e = true) (σ : Var → Nat) :
    ¬ γ wd e σ := not_γ_of_bot h σ

/-- **`is_top()`**: a yes answer describes every state -/
theorem C13.wdom_is_top_sound (wd : Ty) (e : WDom.Env) (he : Inv e) (h : XDom.Env.isTop e = true)
    (σ : Var → Nat) : γ wd e σ := by
  unfold XDom.Env.isTop SepDom.isTop at h
  cases hb : e.isBot
  · have hsz : e.tree.size = 0 := by simpa [hb] using h
    have hemp : e.tree = .empty := by
      cases htr : e.tree with
      | empty => rfl
      | leaf k v => rw [htr] at hsz; simp [Patricia.Tree.size] at hsz
      | node p m l r =>
        exfalso
        rw [htr] at hsz
        have hwf := he.1; rw [htr] at hwf
        obtain ⟨⟨k1, hk1⟩, _⟩ := hwf.node_keys
        have h0 : 0 < l.toList.length := by
          obtain ⟨v, hv⟩ := Patricia.mem_keys_iff_toList.mp hk1
          exact List.length_pos_of_mem hv
        simp only [Patricia.Tree.size] at hsz
        have := Patricia.size_eq_length l
        omega
    refine ⟨hb, fun k => ?_⟩
    rw [get_eq, hb, hemp]
    exact mem_top _ _
  · simp [hb] at h

/-- `top` describes every state, `bottom` none -/
theorem C13.wdom_top_bottom (wd : Ty) (σ : Var → Nat) : γ wd WDom.Env.top σ ∧ ¬ γ wd WDom.Env.bot σ :=
  ⟨γ_top wd σ, not_γ_of_bot rfl σ⟩
