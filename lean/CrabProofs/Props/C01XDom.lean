import CrabProofs.Lemmas.XDomEngineInst
import CrabProofs.Props.C01Engine

/-!
# C01 ∘ C03 for `constant_domain`, `sign_domain`, `congruence_domain`

The interleaved fixpoint iterator (`Crab.Fix.run`, Props/C01Engine.lean) run on the exact models
of the three domains (`Crab.CDom`, `Crab.SDom`, `Crab.GDom`, see Props/C03Cst.lean, C03Sgn.lean,
C03CongDom.lean) with block transformers made of their operations (blocks of admissible
statements of `XDom.Stmt`: `Stmt.Ok`, resp. `GDom.Ok'`) returns tables that contain the
collecting semantics of the program — for every weak topological ordering, widening delay,
number of descending iterations and assumption map.  The `Sem` contract of the engine is
discharged from the per-operation theorems (`XDom.EngDom`, CrabProofs/Lemmas/XDomEngine.lean,
XDomEngineInst.lean).
-/
open Crab Crab.XDom Crab.Fix

/-- blocks of admissible statements are sound block transformers, for every domain given by its
    per-operation laws -/
theorem C01.xdom_block_sound (D : EngDom) (b : List D.AStmt) (a : D.A) (s s' : State)
    (hg : D.γ a s) (hr : D.BlockRel b s s') : D.γ (D.execBlock b a) s' := D.execBlock_sound b a s s' hg hr

/-- the generic instance: the engine on any `EngDom` -/
theorem C01.xdom_run_sound (D : EngDom) (prog : Nat → List D.AStmt) (preds : Nat → List Nat)
    (nesting : Nat → Option (List Nat)) (entry : Nat) (init : D.A)
    (assumptions : Option (List (Nat × D.A))) (delay descending : Nat) (w : List Comp)
    (fuel : Nat) (st : St D.A)
    (hwf : WtoWF (D.mkCtx prog preds nesting entry init assumptions delay descending) w)
    (hrun : run (D.mkCtx prog preds nesting entry init assumptions delay descending) fuel w = some st) :
    let sm := D.sem prog preds nesting entry init assumptions delay descending
    (∀ n s, ReachPre _ sm n s → D.γ (st.pre n) s) ∧ (∀ n s, ReachPost _ sm n s → D.γ (st.post n) s) :=
  C01.run_sound _ w State (D.sem prog preds nesting entry init assumptions delay descending) fuel st hwf hrun

/-- **the engine on the constant domain** -/
theorem C01.cstdom_run_sound (prog : Nat → List CDom.eng.AStmt) (preds : Nat → List Nat)
    (nesting : Nat → Option (List Nat)) (entry : Nat) (init : CDom.SEnv)
    (assumptions : Option (List (Nat × CDom.SEnv))) (delay descending : Nat) (w : List Comp)
    (fuel : Nat) (st : St CDom.SEnv)
    (hwf : WtoWF (CDom.eng.mkCtx prog preds nesting entry init assumptions delay descending) w)
    (hrun : run (CDom.eng.mkCtx prog preds nesting entry init assumptions delay descending) fuel w = some st) :
    let sm := CDom.eng.sem prog preds nesting entry init assumptions delay descending
    (∀ n s, ReachPre _ sm n s → (st.pre n).γ s) ∧ (∀ n s, ReachPost _ sm n s → (st.post n).γ s) :=
  C01.xdom_run_sound CDom.eng prog preds nesting entry init assumptions delay descending w fuel st hwf hrun

/-- **the engine on the sign domain** -/
theorem C01.sgndom_run_sound (prog : Nat → List SDom.eng.AStmt) (preds : Nat → List Nat)
    (nesting : Nat → Option (List Nat)) (entry : Nat) (init : SDom.SEnv)
    (assumptions : Option (List (Nat × SDom.SEnv))) (delay descending : Nat) (w : List Comp)
    (fuel : Nat) (st : St SDom.SEnv)
    (hwf : WtoWF (SDom.eng.mkCtx prog preds nesting entry init assumptions delay descending) w)
    (hrun : run (SDom.eng.mkCtx prog preds nesting entry init assumptions delay descending) fuel w = some st) :
    let sm := SDom.eng.sem prog preds nesting entry init assumptions delay descending
    (∀ n s, ReachPre _ sm n s → (st.pre n).γ s) ∧ (∀ n s, ReachPost _ sm n s → (st.post n).γ s) :=
  C01.xdom_run_sound SDom.eng prog preds nesting entry init assumptions delay descending w fuel st hwf hrun

/-- **the engine on the congruence domain** (statements: `GDom.Ok'`, i.e. no left shift by a
    variable amount, see Props/C03CongDom.lean) -/
theorem C01.congdom_run_sound (prog : Nat → List GDom.eng.AStmt) (preds : Nat → List Nat)
    (nesting : Nat → Option (List Nat)) (entry : Nat) (init : GDom.SEnv)
    (assumptions : Option (List (Nat × GDom.SEnv))) (delay descending : Nat) (w : List Comp)
    (fuel : Nat) (st : St GDom.SEnv)
    (hwf : WtoWF (GDom.eng.mkCtx prog preds nesting entry init assumptions delay descending) w)
    (hrun : run (GDom.eng.mkCtx prog preds nesting entry init assumptions delay descending) fuel w = some st) :
    let sm := GDom.eng.sem prog preds nesting entry init assumptions delay descending
    (∀ n s, ReachPre _ sm n s → (st.pre n).γ s) ∧ (∀ n s, ReachPost _ sm n s → (st.post n).γ s) :=
  C01.xdom_run_sound GDom.eng prog preds nesting entry init assumptions delay descending w fuel st hwf hrun

/-- non-vacuity: the constraint `x + y - 5 == 0` is admissible … -/
theorem C01.xdom_example_ok : Stmt.Ok (.assume [⟨⟨[(0, 1), (1, 1)], -5⟩, .eq⟩]) := by
  intro c hc
  simp only [List.mem_cons, List.not_mem_nil, or_false] at hc
  subst hc
  exact ⟨by decide, by intro p hp; simp at hp; rcases hp with h | h <;> subst h <;> decide⟩

/-- … and the block `x := 3; assume x + y = 5; z := x * y` computes the expected bindings from top -/
example :
    let s1 : CDom.eng.AStmt := ⟨.assign 0 (Lin.Expr.const 3), (by show (0 : Nat) < 2 ^ 64; decide)⟩
    let s2 : CDom.eng.AStmt := ⟨.assume [⟨⟨[(0, 1), (1, 1)], -5⟩, .eq⟩], C01.xdom_example_ok⟩
    let s3 : CDom.eng.AStmt := ⟨.arithVar .mul 2 0 1, (by show (2 : Nat) < 2 ^ 64; decide)⟩
    XDom.Env.bindings (CDom.eng.execBlock [s1, s2, s3] CDom.SEnv.top).1
      = [(0, .val 3), (1, .val 2), (2, .val 6)] := by
  decide
