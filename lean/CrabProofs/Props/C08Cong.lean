import CrabProofs.Lemmas.CongruenceBits

/-!
# C08 (congruences) — `ikos::congruence<z_number>` over-approximates the concrete operations

Property theorems only (helper lemmas live in `CrabProofs/Lemmas/Congruence*.lean`,
`ZNumBits.lean`).  `Crab.Cong` is the branch-by-branch model of the class
(`CrabModel/Scalar/Congruence.lean`); `Cong.mem k c` is `k ∈ γ(c)`: `c` is not bottom and
`c.a ∣ k - c.b` (so `k = c.b` when `c.a = 0`).  All statements quantify over *all* values
(any modulus, also negative, any residue, also not reduced, bottom included) and all integers.

Concrete semantics (fixed by the project): `sdiv`/`srem` truncate (`Int.tdiv`/`Int.tmod`),
a zero divisor has no successor (hypothesis `b ≠ 0`), `shl k` is `* 2^k`, `ashr k`/`lshr k` are
the floor division by `2^k` (`k ≥ 0`; `lshr` only for a non-negative left operand, where it
coincides with `ashr`), `and/or/xor` are `ZNum.land/lor/lxor`.

The code as it is violates the statement for `&`, `/`, `%`, `Shl` and raises CRAB_ERROR in `<=`
and `%`: those are stated as `…_Statement`, proved on an explicit decidable part of the domain
(`…_partial`) and refuted on a concrete witness (`…_counterexample`).
-/
open Crab Crab.Cong

/-! ## order -/

/-- a yes answer of `operator<=` is an inclusion of concretisations -/
theorem C08.cg_leq_sound (c d : Cong) (h : leq c d = some true) (k : Int) (hk : mem k c) : mem k d :=
  leq_sound h hk
theorem C08.cg_leq_refl (c : Cong) : leq c c = some true := leq_refl c
theorem C08.cg_bot_leq (c d : Cong) (h : c.isBot = true) : leq c d = some true := leq_of_isBot h d
theorem C08.cg_leq_top (c : Cong) : leq c top = some true := leq_top c

/-- `operator<=` never raises CRAB_ERROR — false for the code as it is -/
def C08.cg_leq_defined_Statement : Prop := ∀ c d : Cong, WF c → WF d → (leq c d).isSome = true

/-- it is defined unless a class (non-constant) is compared with a constant of another residue -/
theorem C08.cg_leq_defined_partial (c d : Cong)
    (h : c.isBot = true ∨ d.isBot = true ∨ c.a = 0 ∨ d.a ≠ 0 ∨ Int.tmod c.b c.a = Int.tmod d.b c.a) :
    (leq c d).isSome = true := by
  unfold leq leqFinal
  cases hc : c.isBot
  · cases hd : d.isBot
    · simp only [Bool.false_eq_true, if_false]
      rcases h with h | h | h | h | h
      · simp [hc] at h
      · simp [hd] at h
      · by_cases hda : d.a = 0 <;> simp [h, hda]
        split <;> simp
      · by_cases hca : c.a = 0 <;> simp [h, hca]
        split <;> simp
      · by_cases hca : c.a = 0 <;> by_cases hda : d.a = 0 <;> simp [hca, hda, h]
        split <;> simp
    · simp
  · simp

/-- `(2Z+0) <= 1` evaluates `m_a % 0` : CRAB_ERROR("z_number: division by zero") -/
theorem C08.cg_leq_defined_counterexample : ¬ C08.cg_leq_defined_Statement := by
  intro h
  exact absurd (h (mk' 2 0) (ofInt 1) (by decide) (by decide)) (by decide)

/-- `operator<=` decides inclusion — false for the code as it is (truncated residues) -/
def C08.cg_leq_complete_Statement : Prop :=
  ∀ c d : Cong, WF c → WF d → (∀ k, mem k c → mem k d) → leq c d = some true

/-- `2Z-1` (= `C(-1)|C(1)`) and `2Z+1` denote the same set but are not `<=` -/
theorem C08.cg_leq_complete_counterexample : ¬ C08.cg_leq_complete_Statement := by
  intro h
  have := h ⟨false, 2, -1⟩ ⟨false, 2, 1⟩ (by decide) (by decide)
    (by intro k hk; have h2 : (2 : Int) ∣ k - (-1) := hk.2; exact ⟨rfl, (by show (2 : Int) ∣ k - 1; omega)⟩)
  exact absurd this (by decide)

/-! ## join, widening, narrowing -/

/-- `operator|` is an upper bound -/
theorem C08.cg_join_upper (c d : Cong) (k : Int) (hk : mem k c ∨ mem k d) : mem k (join c d) :=
  hk.elim join_upper_left join_upper_right

/-- `operator||` is an upper bound of both operands -/
theorem C08.cg_widen_upper (c d : Cong) (k : Int) (hk : mem k c ∨ mem k d) : mem k (widen c d) :=
  hk.elim join_upper_left join_upper_right

/-- `operator&&` keeps the common members -/
theorem C08.cg_narrow_sound (c d : Cong) (k : Int) (hc : mem k c) (hd : mem k d) :
    mem k (narrow c d) := narrow_sound hc hd

/-! ## meet -/

/-- `operator&` contains the intersection — false for the code as it is -/
def C08.cg_meet_sound_Statement : Prop :=
  ∀ c d : Cong, WF c → WF d → ∀ k : Int, mem k c → mem k d → mem k (meet c d)

/-- it does when an operand is bottom or a constant, or the residues are recognised as
    compatible (`b % g == b' % g`) and already congruent modulo the lcm (`Cong.meetSafe`) -/
theorem C08.cg_meet_sound_partial (c d : Cong) (hs : meetSafe c d) (k : Int) (hc : mem k c)
    (hd : mem k d) : mem k (meet c d) := meet_sound_of_safe hs hc hd

/-- `(2Z+1) & (3Z+0) = 6Z+1`, which misses 3 (the representative `max(b,b')` is not a common
    solution) -/
theorem C08.cg_meet_sound_counterexample : ¬ C08.cg_meet_sound_Statement := by
  intro h
  exact absurd (h ⟨false, 2, 1⟩ ⟨false, 3, 0⟩ (by decide) (by decide) 3 (by decide) (by decide)) (by decide)

/-- `(2Z-1) & (2Z+1) = bottom` although both are the odd numbers (truncated residues
    `-1 % 2 ≠ 1 % 2`) -/
theorem C08.cg_meet_sound_counterexample_bottom : ¬ C08.cg_meet_sound_Statement := by
  intro h
  exact absurd (h ⟨false, 2, -1⟩ ⟨false, 2, 1⟩ (by decide) (by decide) 1 (by decide) (by decide)) (by decide)

/-! ## ring operations -/

theorem C08.cg_add_sound (x y : Cong) (a b : Int) (ha : mem a x) (hb : mem b y) :
    mem (a + b) (add x y) := add_sound ha hb
theorem C08.cg_sub_sound (x y : Cong) (a b : Int) (ha : mem a x) (hb : mem b y) :
    mem (a - b) (sub x y) := sub_sound ha hb
theorem C08.cg_neg_sound (x : Cong) (a : Int) (ha : mem a x) : mem (-a) (neg x) := neg_sound ha
theorem C08.cg_mul_sound (x y : Cong) (a b : Int) (ha : mem a x) (hb : mem b y) :
    mem (a * b) (mul x y) := mul_sound ha hb

/-! ## signed division and remainder -/

/-- `operator/` contains every truncated quotient — false for the code as it is -/
def C08.cg_div_sound_Statement : Prop :=
  ∀ x y : Cong, WF x → WF y → ∀ a b : Int, mem a x → mem b y → b ≠ 0 → mem (Int.tdiv a b) (div x y)

/-- sound except (1) a non-zero constant divided by a class (`Cong.divCstByClass`) and
    (2) a class divided by a constant that divides the modulus but not the residue
    (`Cong.divClassByCst`), where it is still sound for non-negative dividends with a
    non-negative residue -/
theorem C08.cg_div_sound_partial (x y : Cong) (a b : Int) (ha : mem a x) (hb : mem b y) (hb0 : b ≠ 0)
    (h1 : ¬ divCstByClass x y) (h2 : ¬ divClassByCst x y ∨ (0 ≤ a ∧ 0 ≤ x.b)) :
    mem (Int.tdiv a b) (div x y) := div_sound_of_safe ha hb hb0 h1 h2

/-- `(4Z+3) / 2 = 2Z+1` but `-1 / 2 = 0` -/
theorem C08.cg_div_sound_counterexample : ¬ C08.cg_div_sound_Statement := by
  intro h
  exact absurd (h ⟨false, 4, 3⟩ (ofInt 2) (by decide) (by decide) (-1) 2 (by decide) (by decide) (by decide))
    (by decide)

/-- `7 / (2Z+1) = 0` but `7 / 1 = 7` -/
theorem C08.cg_div_sound_counterexample_cst : ¬ C08.cg_div_sound_Statement := by
  intro h
  exact absurd (h (ofInt 7) ⟨false, 2, 1⟩ (by decide) (by decide) 7 1 (by decide) (by decide) (by decide))
    (by decide)

/-- `operator%` (SRem) contains every truncated remainder and does not raise CRAB_ERROR —
    false for the code as it is -/
def C08.cg_srem_sound_Statement : Prop :=
  ∀ x y : Cong, WF x → WF y → ∀ a b : Int, mem a x → mem b y → b ≠ 0 →
    ∃ r, srem x y = some r ∧ mem (Int.tmod a b) r

/-- whenever it answers, the answer is sound outside the two excluded shapes of `/` -/
theorem C08.cg_srem_sound_partial (x y r : Cong) (a b : Int) (ha : mem a x) (hb : mem b y) (hb0 : b ≠ 0)
    (h1 : ¬ divCstByClass x y) (h2 : ¬ divClassByCst x y ∨ (0 ≤ a ∧ 0 ≤ x.b))
    (hr : srem x y = some r) : mem (Int.tmod a b) r := srem_sound_of_safe ha hb hb0 h1 h2 hr

/-- it answers (no CRAB_ERROR) unless a constant is divided by a class -/
theorem C08.cg_srem_defined_partial (x y : Cong) (h : x.isBot = true ∨ y.isBot = true ∨ x.a ≠ 0 ∨ y.a = 0) :
    (srem x y).isSome = true := by
  unfold srem
  cases hx : x.isBot
  · cases hy : y.isBot
    · simp only [Bool.or_self, Bool.false_eq_true, if_false]
      split
      · rfl
      · split
        · rfl
        · split
          · split <;> rfl
          · rename_i hya
            rcases h with h | h | h | h
            · simp [hx] at h
            · simp [hy] at h
            · simp [h]
            · exact absurd h hya
    · simp
  · simp

/-- `(4Z+3) % 2 = 1` but `-1 % 2 = -1` -/
theorem C08.cg_srem_sound_counterexample : ¬ C08.cg_srem_sound_Statement := by
  intro h
  obtain ⟨r, h1, h2⟩ := h ⟨false, 4, 3⟩ (ofInt 2) (by decide) (by decide) (-1) 2 (by decide) (by decide) (by decide)
  have : r = mk' 0 1 := by
    have e : srem ⟨false, 4, 3⟩ (ofInt 2) = some (mk' 0 1) := by decide
    rw [e] at h1; cases h1; rfl
  rw [this] at h2; exact absurd h2 (by decide)

/-- `7 % (2Z+1)` reaches CRAB_ERROR("unreachable") -/
theorem C08.cg_srem_sound_counterexample_error : ¬ C08.cg_srem_sound_Statement := by
  intro h
  obtain ⟨r, h1, _⟩ := h (ofInt 7) ⟨false, 2, 1⟩ (by decide) (by decide) 7 1 (by decide) (by decide) (by decide)
  have e : srem (ofInt 7) ⟨false, 2, 1⟩ = none := by decide
  rw [e] at h1; cases h1

/-- `UDiv` / `URem` answer top: everything is contained -/
theorem C08.cg_udiv_sound (x y : Cong) (k : Int) : mem k (udiv x y) := mem_top k
theorem C08.cg_urem_sound (x y : Cong) (k : Int) : mem k (urem x y) := mem_top k

/-! ## bitwise operations -/

theorem C08.cg_and_sound (x y : Cong) (a b : Int) (ha : mem a x) (hb : mem b y) :
    mem (ZNum.land a b) (and x y) := and_sound ha hb
theorem C08.cg_or_sound (x y : Cong) (a b : Int) (ha : mem a x) (hb : mem b y) :
    mem (ZNum.lor a b) (or x y) := or_sound ha hb
theorem C08.cg_xor_sound (x y : Cong) (a b : Int) (ha : mem a x) (hb : mem b y) :
    mem (ZNum.lxor a b) (xor x y) := xor_sound ha hb

/-! ## shifts -/

/-- `AShr`: floor division by `2^k` for every non-negative shift amount -/
theorem C08.cg_ashr_sound (x y : Cong) (a k : Int) (ha : mem a x) (hk : mem k y) (hk0 : 0 ≤ k) :
    mem (a / 2 ^ k.toNat) (ashr x y) := ashr_sound ha hk hk0

/-- `LShr`: floor division by `2^k` for shift amounts that fit a machine word (the answer is
    top whenever the left operand is negative, so no sign hypothesis is needed) -/
theorem C08.cg_lshr_sound (x y : Cong) (a k : Int) (ha : mem a x) (hk : mem k y) (hk0 : 0 ≤ k)
    (hk1 : k < 2 ^ 64) : mem (a / 2 ^ k.toNat) (lshr x y) := lshr_sound ha hk hk0 hk1

/-- `Shl` contains `a * 2^k` for all members and all non-negative amounts — false for the code -/
def C08.cg_shl_sound_Statement : Prop :=
  ∀ x y : Cong, WF x → WF y → ∀ a k : Int, mem a x → mem k y → 0 ≤ k → k < 2 ^ 64 →
    mem (a * 2 ^ k.toNat) (shl x y)

/-- sound for constant amounts below `2^64` and for classes whose residue is non-negative
    and reduced and whose modulus is below `2^64` (`Cong.shlSafe`) -/
theorem C08.cg_shl_sound_partial (x y : Cong) (a k : Int) (ha : mem a x) (hk : mem k y) (hk0 : 0 ≤ k)
    (hs : shlSafe y) : mem (a * 2 ^ k.toNat) (shl x y) := shl_sound_of_safe ha hk hk0 hs

/-- `1 << (3Z-1) = 14Z+2` (the code shifts by `|-1|`) but `1 << 2 = 4` -/
theorem C08.cg_shl_sound_counterexample : ¬ C08.cg_shl_sound_Statement := by
  intro h
  exact absurd (h (ofInt 1) ⟨false, 3, -1⟩ (by decide) (by decide) 1 2 (by decide) (by decide) (by decide) (by decide))
    (by decide)

/-! ## non-vacuity: the hypotheses are met by non-trivial values -/

example : mem 11 (mk' 4 3) ∧ mem (-6) (mk' 3 0) ∧ WF (mk' 4 3) ∧ mul (mk' 4 3) (mk' 3 0) = mk' 3 0 ∧
    join (ofInt 3) (ofInt 7) = mk' 4 3 := by
  refine ⟨by decide, by decide, by decide, by decide, by decide⟩
example : meetSafe (mk' 4 1) (mk' 6 1) ∧ meet (mk' 4 1) (mk' 6 1) = mk' 12 1 ∧ mem 13 (mk' 4 1) ∧ mem 13 (mk' 6 1) := by
  refine ⟨by decide, by decide, by decide, by decide⟩
example : ¬ divCstByClass (mk' 6 4) (ofInt 2) ∧ ¬ divClassByCst (mk' 6 4) (ofInt 2) ∧
    div (mk' 6 4) (ofInt 2) = mk' 3 2 ∧ mem (-8) (mk' 6 4) := by
  refine ⟨by decide, by decide, by decide, by decide⟩
example : shlSafe (mk' 3 2) ∧ mem 5 (mk' 3 2) ∧ shl (ofInt 1) (mk' 3 2) = mk' 28 4 := by
  refine ⟨by decide, by decide, by decide⟩
