import CrabProofs.Lemmas.CongruenceBits

/-!
# C08 (congruences) — `ikos::congruence<z_number>` over-approximates the concrete operations

Property theorems only (helper lemmas live in `CrabProofs/Lemmas/Congruence*.lean`,
`ZNumBits.lean`).  `Crab.Cong` is the branch-by-branch model of the class
(`CrabModel/Scalar/Congruence.lean`); `Cong.mem k c` is `k ∈ γ(c)`: `c` is not bottom and
`c.a ∣ k - c.b` (so `k = c.b` when `c.a = 0`).  Unless a hypothesis `WF` appears, a statement
quantifies over *all* values (any modulus, any residue, also not in standard form, bottom
included) and all integers.

Concrete semantics (fixed by the project): `sdiv`/`srem` truncate (`Int.tdiv`/`Int.tmod`),
a zero divisor has no successor (hypothesis `b ≠ 0`), `shl k` is `* 2^k`, `ashr k`/`lshr k` are
the floor division by `2^k` (`k ≥ 0`; `lshr` only for a non-negative left operand, where it
coincides with `ashr`), `and/or/xor` are `ZNum.land/lor/lxor`.  Shift amounts (and, for `Shl`,
the modulus of the class of amounts) are below `2^64`: `z_number::operator<<` shifts by
`mpz_get_ui` of the amount.

History: the tree used to violate the statement for `<=` (CRAB_ERROR), `&`, `/`, `%`, `Shl`
(counterexamples recorded in /verif/corpus/h_cong/defects.ops); after the "fix:" commits on
`congruence_impl.hpp` every statement below holds in full.
-/
open Crab Crab.Cong

/-! ## standard form -/

/-- the normalising constructor produces the standard form `a ≥ 0`, `0 ≤ b < a` -/
theorem C08.cg_mk_wf (a b : Int) : WF (mk' a b) := wf_mk' a b
/-- and denotes the class it is given -/
theorem C08.cg_mk_exact (a b k : Int) : mem k (mk' a b) ↔ a ∣ k - b := mem_mk' k a b

/-! ## order -/

/-- a yes answer of `operator<=` is an inclusion of concretisations -/
theorem C08.cg_leq_sound (c d : Cong) (h : leq c d = true) (k : Int) (hk : mem k c) : mem k d :=
  leq_sound h hk
/-- `operator<=` decides the inclusion (no hypothesis on the representation) -/
theorem C08.cg_leq_complete (c d : Cong) (h : ∀ k, mem k c → mem k d) : leq c d = true :=
  leq_complete h
theorem C08.cg_leq_refl (c : Cong) : leq c c = true := leq_refl c
theorem C08.cg_bot_leq (c d : Cong) (h : c.isBot = true) : leq c d = true := leq_of_isBot h d
theorem C08.cg_leq_top (c : Cong) : leq c top = true := leq_top c

/-! ## join, widening, narrowing -/

/-- `operator|` is an upper bound -/
theorem C08.cg_join_upper (c d : Cong) (k : Int) (hk : mem k c ∨ mem k d) : mem k (join c d) :=
  hk.elim join_upper_left join_upper_right

/-- `operator||` is an upper bound of both operands -/
theorem C08.cg_widen_upper (c d : Cong) (k : Int) (hk : mem k c ∨ mem k d) : mem k (widen c d) :=
  hk.elim join_upper_left join_upper_right

/-- `operator&&` keeps the common members -/
theorem C08.cg_narrow_sound (c d : Cong) (k : Int) (hc : mem k c) (hd : mem k d) :
    mem k (narrow c d) := narrow_sound hc hd

/-! ## meet -/

/-- `operator&` is exactly the intersection (Chinese remainder through the extended Euclid
    helper `bezout`) -/
theorem C08.cg_meet_exact (c d : Cong) (k : Int) : mem k (meet c d) ↔ (mem k c ∧ mem k d) :=
  ⟨meet_exact, fun ⟨h1, h2⟩ => meet_sound h1 h2⟩

/-- `bezout(x, y, u)` returns a common divisor `g` of `x` and `y` with `x*u ≡ g (mod y)` -/
theorem C08.cg_bezout_spec (x y : Int) :
    (bezout x y).1 ∣ x ∧ (bezout x y).1 ∣ y ∧ y ∣ x * (bezout x y).2 - (bezout x y).1 := bezout_spec x y

/-! ## ring operations -/

theorem C08.cg_add_sound (x y : Cong) (a b : Int) (ha : mem a x) (hb : mem b y) :
    mem (a + b) (add x y) := add_sound ha hb
theorem C08.cg_sub_sound (x y : Cong) (a b : Int) (ha : mem a x) (hb : mem b y) :
    mem (a - b) (sub x y) := sub_sound ha hb
theorem C08.cg_neg_sound (x : Cong) (a : Int) (ha : mem a x) : mem (-a) (neg x) := neg_sound ha
theorem C08.cg_mul_sound (x y : Cong) (a b : Int) (ha : mem a x) (hb : mem b y) :
    mem (a * b) (mul x y) := mul_sound ha hb

/-! ## division and remainder -/

/-- `operator/` (SDiv) contains every truncated quotient -/
theorem C08.cg_div_sound (x y : Cong) (a b : Int) (ha : mem a x) (hb : mem b y) (hb0 : b ≠ 0) :
    mem (Int.tdiv a b) (div x y) := div_sound ha hb hb0

/-- `operator%` (SRem) contains every truncated remainder (and cannot raise CRAB_ERROR: the
    model is total) -/
theorem C08.cg_srem_sound (x y : Cong) (a b : Int) (ha : mem a x) (hb : mem b y) (hb0 : b ≠ 0) :
    mem (Int.tmod a b) (srem x y) := srem_sound ha hb hb0

/-- `UDiv` / `URem` answer top: everything is contained -/
theorem C08.cg_udiv_sound (x y : Cong) (k : Int) : mem k (udiv x y) := mem_top k
theorem C08.cg_urem_sound (x y : Cong) (k : Int) : mem k (urem x y) := mem_top k

/-! ## bitwise operations -/

theorem C08.cg_and_sound (x y : Cong) (a b : Int) (ha : mem a x) (hb : mem b y) :
    mem (ZNum.land a b) (and x y) := and_sound ha hb
theorem C08.cg_or_sound (x y : Cong) (a b : Int) (ha : mem a x) (hb : mem b y) :
    mem (ZNum.lor a b) (or x y) := or_sound ha hb
theorem C08.cg_xor_sound (x y : Cong) (a b : Int) (ha : mem a x) (hb : mem b y) :
    mem (ZNum.lxor a b) (xor x y) := xor_sound ha hb

/-! ## shifts -/

/-- `AShr`: floor division by `2^k` for every non-negative shift amount -/
theorem C08.cg_ashr_sound (x y : Cong) (a k : Int) (ha : mem a x) (hk : mem k y) (hk0 : 0 ≤ k) :
    mem (a / 2 ^ k.toNat) (ashr x y) := ashr_sound ha hk hk0

/-- `LShr`: floor division by `2^k` for shift amounts that fit a machine word (the answer is
    top whenever the left operand is negative, so no sign hypothesis is needed) -/
theorem C08.cg_lshr_sound (x y : Cong) (a k : Int) (ha : mem a x) (hk : mem k y) (hk0 : 0 ≤ k)
    (hk1 : k < 2 ^ 64) : mem (a / 2 ^ k.toNat) (lshr x y) := lshr_sound ha hk hk0 hk1

/-- `Shl`: `a * 2^k` for every member `a` and every non-negative amount `k` of a class of
    amounts in standard form (what the constructor guarantees, `cg_mk_wf`) whose modulus
    fits a machine word -/
theorem C08.cg_shl_sound (x y : Cong) (a k : Int) (hw : WF y) (hya : y.a < 2 ^ 64)
    (ha : mem a x) (hk : mem k y) (hk0 : 0 ≤ k) (hk1 : k < 2 ^ 64) :
    mem (a * 2 ^ k.toNat) (shl x y) := by
  apply shl_sound_of_safe ha hk hk0
  unfold shlSafe
  obtain ⟨w1, w2, _⟩ := hw
  by_cases h0 : y.a = 0
  · left
    have := eq_of_mem_cst hk h0
    exact ⟨h0, by omega⟩
  · right
    obtain ⟨w3, w4⟩ := w2 h0
    refine ⟨h0, w3, by omega, by omega⟩

/-- the standard form is needed: on a class written with a residue outside `[0, a)` the code
    would start from a wrong least amount (`3Z-1`, not constructible through the API) -/
theorem C08.cg_shl_needs_wf : ¬ (∀ (x y : Cong) (a k : Int), mem a x → mem k y → 0 ≤ k → k < 2 ^ 64 →
    mem (a * 2 ^ k.toNat) (shl x y)) := by
  intro h
  exact absurd (h (ofInt 1) ⟨false, 3, -1⟩ 1 2 (by decide) (by decide) (by decide) (by decide)) (by decide)

/-! ## non-vacuity: the hypotheses are met by non-trivial values -/

example : mem 11 (mk' 4 3) ∧ mem (-6) (mk' 3 0) ∧ WF (mk' 4 3) ∧ mul (mk' 4 3) (mk' 3 0) = mk' 3 0 ∧
    join (ofInt 3) (ofInt 7) = mk' 4 3 ∧ join (ofInt (-1)) (ofInt 1) = mk' 2 1 := by
  refine ⟨by decide, by decide, by decide, by decide, by decide, by decide⟩
example : meet (mk' 2 1) (mk' 3 0) = mk' 6 3 ∧ meet (mk' 4 1) (mk' 6 1) = mk' 12 1 ∧
    meet (mk' 4 1) (mk' 6 0) = bot ∧ mem 13 (mk' 4 1) ∧ mem 13 (mk' 6 1) := by
  refine ⟨by decide, by decide, by decide, by decide, by decide⟩
example : div (mk' 6 4) (ofInt 2) = mk' 3 2 ∧ mem (-8) (mk' 6 4) ∧ div (mk' 4 3) (ofInt 2) = top ∧
    srem (mk' 4 3) (ofInt 2) = mk' 2 1 ∧ srem (ofInt 7) (mk' 2 1) = top ∧ leq (mk' 2 0) (ofInt 1) = false := by
  refine ⟨by decide, by decide, by decide, by decide, by decide, by decide⟩
example : WF (mk' 3 2) ∧ mem 5 (mk' 3 2) ∧ shl (ofInt 1) (mk' 3 2) = mk' 28 4 := by
  refine ⟨by decide, by decide, by decide⟩
