import CrabProofs.Lemmas.FunctorFlatBoolLat2
import CrabProofs.Lemmas.FunctorFlatBoolInst
import CrabProofs.Lemmas.FunctorFlatBoolWF2
import CrabProofs.Lemmas.FunctorHistory

/-!
# C04 for `flat_boolean_numerical_domain<Dom>` — inclusion and lattice operations vs. concretisation

Model `Crab.Dom.Fct.FBN N` over any lawful base (see `Props/C03FlatBool.lean` for the model, the
concretisation `FBN.γ` and the invariant of the three auxiliary components).  Precision laws of the
base are explicit hypotheses (`LDom.LeqRefl`, `LeqTop`, `TopNotBot`, `TopIsTop`, `TopSound`,
`MeetLower`); the flat Boolean component satisfies all of them (`fb_*`).

* `operator<=` (after 6293d89) compares the product, the two maps and the unchanged set: a yes is an
  inclusion of concretisations, INCLUDING the recorded equivalences and implications;
* `is_top()` (after 67052d5) also asks the maps to be top; it reads neither `m_is_bottom` nor
  `m_unchanged_vars`, which is right on the values that satisfy the representation invariant
  `FBN.WF`, preserved by every operation (`C04.flatbool_wf_step`, `_wf_history`);
* `|` is an upper bound; `&` (after ef2ddd6) is sound, its product component is a lower bound, and
  "`γ(a & b) = γ(a) ∩ γ(b)`" holds for operands that mark the same variables unchanged; in general
  the result can be above an operand (`C04.flatbool_meet_lower_counterexample`: precision only).
-/
open Crab Crab.Dom Crab.Dom.Fct

variable {V : Type} [DecidableEq V] {K : CSig V} {N : BNDom V K}

/-- a yes answer of `operator<=` is an inclusion of concretisations -/
theorem C04.flatbool_leq_sound (a b : FBN N) (s : CSt V) (h : FBN.leq a b = true) (hg : a.γ s) : b.γ s :=
  FBN.leq_sound h hg

theorem C04.flatbool_leq_refl (hr : N.LeqRefl) (a : FBN N) : FBN.leq a a = true := FBN.leq_refl hr a

/-- every value that `is_bottom()` recognises is below everything; `make_bottom()` is such a value -/
theorem C04.flatbool_bot_le (a b : FBN N) (h : a.isBottom = true) : FBN.leq a b = true :=
  FBN.leq_of_isBottom h b

theorem C04.flatbool_make_bottom (b : FBN N) :
    (FBN.bottom : FBN N).isBottom = true ∧ FBN.leq FBN.bottom b = true ∧ ∀ s, ¬ (FBN.bottom : FBN N).γ s :=
  ⟨rfl, FBN.leq_of_isBottom rfl b, FBN.not_γ_bottom⟩

/-- `make_top()` is above everything and is recognised by `is_top()` -/
theorem C04.flatbool_le_top (h2 : N.TopNotBot) (l2 : N.LeqTop) (a : FBN N) : FBN.leq a FBN.top = true :=
  FBN.leq_top h2 l2 a

theorem C04.flatbool_make_top (h2 : N.TopIsTop) :
    (FBN.top : FBN N).isTop = true ∧ ∀ s, (FBN.top : FBN N).γ s := ⟨FBN.isTop_top h2, FBN.γ_top⟩

/-- `|`, `|=` and `||` are upper bounds -/
theorem C04.flatbool_join_upper (w2 : N.B → N.B → N.B) (hw : N.USound w2) (a b : FBN N) (s : CSt V)
    (h : a.γ s ∨ b.γ s) : (FBN.join a b).γ s ∧ (FBN.joinEq a b).γ s ∧ (FBN.widenWith w2 a b).γ s :=
  ⟨FBN.join_sound h, FBN.joinEq_sound h, FBN.widenWith_sound hw h⟩

/-- `&`, `&=`, `&&` are sound (C03) and their product component is a lower bound -/
theorem C04.flatbool_meet_lower_product (m2 : N.MeetLower) (t2 : N.TopSound) (a b : FBN N) (ha : a.prod.WF)
    (hb : b.prod.WF) (s : CSt V) (h : (FBN.meet a b).γ s) : a.prod.γ s ∧ b.prod.γ s :=
  FBN.meet_lower_prod m2 t2 ha hb h

/-- `b10 := (v0 ≥ 1)` -/
def C04FB.a : FBN FBInst.N0 := FBN.assignBoolCst id 10 (FBInst.C0.ge 0 1) FBN.top
/-- `v0 = 0`, every Boolean true -/
def C04FB.s : CSt Nat := ⟨fun _ => 0, fun _ => true⟩

/-- full statement: `a & b` is below both operands -/
def C04.flatbool_meet_lower_Statement : Prop :=
  ∀ (V : Type) [DecidableEq V] (K : CSig V) (N : BNDom V K), N.MeetLower → N.TopSound →
    ∀ (a b : FBN N), a.prod.WF → b.prod.WF → ∀ s, (FBN.meet a b).γ s → a.γ s ∧ b.γ s

/-- ... it is when both operands mark the same variables unchanged -/
theorem C04.flatbool_meet_lower_partial (m2 : N.MeetLower) (t2 : N.TopSound) (a b : FBN N) (ha : a.prod.WF)
    (hb : b.prod.WF) (hs : FBN.sameUnch a b = true) (s : CSt V) (h : (FBN.meet a b).γ s) : a.γ s ∧ b.γ s :=
  FBN.meet_lower m2 t2 ha hb hs h

/-- ... and then `&` is exactly the intersection -/
theorem C04.flatbool_meet_iff (m2 : N.MeetLower) (t2 : N.TopSound) (a b : FBN N) (ha : a.prod.WF)
    (hb : b.prod.WF) (hs : FBN.sameUnch a b = true) (s : CSt V) : (FBN.meet a b).γ s ↔ a.γ s ∧ b.γ s :=
  ⟨FBN.meet_lower m2 t2 ha hb hs, fun h => FBN.meet_sound h.1 h.2⟩

/-- ... not in general (a loss of precision of the fix ef2ddd6, not of soundness): the result keeps
    only the marks common to both operands, so a constraint that one operand could use alone is
    unusable afterwards.  `(b10 := (v0 ≥ 1)) & top` still records `v0 ≥ 1` for `b10` but marks
    nothing: it contains `b10 = true, v0 = 0`, which the left operand excludes.  (Keeping the union
    of the marks and dropping, from each operand's map, the constraints that operand cannot use
    would be sound AND a lower bound.) -/
theorem C04.flatbool_meet_lower_counterexample : ¬ C04.flatbool_meet_lower_Statement := by
  intro h
  have hm : (FBN.meet C04FB.a FBN.top).γ C04FB.s := by
    have hp : (FBN.meet C04FB.a FBN.top).prod = ⟨false, .env [], []⟩ := rfl
    have hl : (FBN.meet C04FB.a FBN.top).lin = .env [(10, [FBInst.C0.ge 0 1])] := rfl
    have hun' : (FBN.meet C04FB.a FBN.top).unch = .fin [] := rfl
    refine ⟨?_, by rw [hl]; rfl, rfl, by rw [hun']; rfl, ?_, ?_⟩
    · rw [hp]
      exact ⟨rfl, (FB Nat).top_sound _, FBInst.N0.top_sound _⟩
    · intro k c hc hun
      have hu : FBN.unchanged (K := FBInst.K0) (FBN.meet C04FB.a FBN.top).unch c = false := by
        rw [hun']
        rw [hl] at hc
        simp only [SEnv.look, AL.get, DSet.mem] at hc
        split at hc
        · have : c = FBInst.C0.ge 0 1 := by
            have hc' : c ∈ ([FBInst.C0.ge 0 1] : List FBInst.K0.C) := by simpa using hc
            exact List.mem_singleton.1 hc'
          subst this; rfl
        · simp at hc
      rw [hu] at hun; cases hun
    · intro k k' hk; cases hk
  have := (h Nat FBInst.K0 FBInst.N0 FBInst.n0_meetLower FBInst.n0_topSound C04FB.a FBN.top
    (Prod2.wf_of_not_isBot rfl) (Prod2.wf_of_not_isBot rfl) C04FB.s hm).1
  have := (this.2.2.2.2.1 10 (FBInst.C0.ge 0 1) (by rfl) (by rfl)).1 rfl
  simp [FBInst.K0, FBInst.C0.holds, C04FB.s] at this

/-- the hypothesis of the partial theorem is satisfiable by non-trivial values -/
example : FBN.sameUnch (FBN.assignBoolCst (N := FBInst.N0) id 10 (FBInst.C0.ge 0 1) FBN.top)
    (FBN.assignBoolCst (N := FBInst.N0) id 11 (FBInst.C0.lt 0 5) FBN.top) = true := rfl

/-- a yes of `is_bottom()` means no state -/
theorem C04.flatbool_is_bottom_sound (a : FBN N) (s : CSt V) (h : a.isBottom = true) : ¬ a.γ s :=
  FBN.not_γ_of_isBottom h s

/-- a yes of `is_top()` means every state, on every value that satisfies the representation
    invariant `FBN.WF` (well-formed product; `m_unchanged_vars` bottom only under a bottom flat
    part) — an invariant of every operation (`C04.flatbool_wf_step`), so no side condition is left
    for the values a history can produce (`C04.flatbool_is_top_sound_history`) -/
theorem C04.flatbool_is_top_sound (t2 : N.TopSound) (a : FBN N) (hw : a.WF) (h : a.isTop = true)
    (s : CSt V) : a.γ s := FBN.γ_of_isTop_wf t2 hw h s

/-- every value that has a state at all is well formed -/
theorem C04.flatbool_wf_of_γ (a : FBN N) (s : CSt V) (hg : a.γ s) : a.WF :=
  FBN.wf_of_unch (Prod2.wf_of_not_isBot hg.1.1) hg.2.2.2.1

/-- every constructor, transformer (with strict base functions) and lattice operation yields a
    well-formed value from well-formed values -/
theorem C04.flatbool_wf_step (isBool : V → Bool) (hN : FBN.StrictRed N) (op : FBN.Op N)
    (hop : op.BaseStrict) : Step.Preserves FBN.WF (op.toStep isBool) := by
  cases op with
  | bcst d f2 x c => exact fun a ha => FBN.wf_assignBoolCst hop x c ha
  | bvar d f2 x y neg => exact fun a ha => FBN.wf_assignBoolVar hop x y neg ha
  | bbin d f2 op x y z => exact fun a ha => FBN.wf_applyBinaryBool hop op x y z ha
  | bassume d f2 x neg => exact fun a ha => FBN.wf_assumeBool hN hop x neg ha
  | bsel d f2 f2' lhs cond b1 b2 => exact fun a ha => FBN.wf_selectBool hop.1 hop.2 lhs cond b1 b2 ha
  | numDef d m f2 x r => exact fun a ha => FBN.wf_numDef m hop x ha
  | addCsts d t nb lits f2 r => exact fun a ha => FBN.wf_addCsts t nb lits hop ha
  | forget1 d f2 v => exact fun a ha => FBN.wf_forget1 isBool hop v ha
  | forget d f2 vs => exact fun a ha => FBN.wf_forget isBool hop vs ha
  | project d f2 vs => exact fun a ha => FBN.wf_project hop vs ha
  | wbcst d f2 x c => exact fun a ha => FBN.wf_weakAssignBoolCst hop x c ha
  | wbvar d f2 x y neg => exact fun a ha => FBN.wf_weakAssignBoolVar hop x y neg ha
  | trunc d dst src => exact fun a ha => FBN.wf_castTrunc dst src ha
  | ext d funk dst src => exact fun a ha => FBN.wf_castExt hN hop dst src ha
  | castOther d f2 dst r => exact fun a ha => FBN.wf_castOther hop dst ha
  | join d a b => exact fun a b ha hb => FBN.wf_join ha hb
  | joinEq d a b => exact fun a b ha hb => FBN.wf_joinEq ha hb
  | widen d a b w2 => exact fun a b ha hb => FBN.wf_widenWith w2 ha hb
  | meet d a b => exact fun a b ha hb => FBN.wf_meet ha hb
  | meetEq d a b => exact fun a b ha hb => FBN.wf_meetEq ha hb
  | narrow d a b => exact fun a b ha hb => FBN.wf_narrow ha hb
  | copy d s => trivial
  | setTop d => exact fun _ _ => FBN.wf_top
  | setBottom d => exact FBN.wf_bottom

theorem C04.flatbool_wf_history (isBool : V → Bool) (hN : FBN.StrictRed N) (ops : List (FBN.Op N))
    (hops : ∀ op ∈ ops, op.BaseStrict) (p : Pool (FBN N)) (h0 : ∀ i, (p i).WF) :
    ∀ i, (runHist p (FBN.toHist isBool ops) i).WF := by
  apply runHist_preserves FBN.WF _ _ p h0
  intro st hst
  simp only [FBN.toHist, List.mem_map] at hst
  obtain ⟨op, hop, rfl⟩ := hst
  exact C04.flatbool_wf_step isBool hN op (hops op hop)

/-- **`is_top()` after any history**: whatever the history did to a pool of well-formed values
    (e.g. `make_top()` / `make_bottom()` everywhere), a yes of `is_top()` on a slot means every
    state — no side condition on the value -/
theorem C04.flatbool_is_top_sound_history (isBool : V → Bool) (t2 : N.TopSound) (hN : FBN.StrictRed N)
    (ops : List (FBN.Op N)) (hops : ∀ op ∈ ops, op.BaseStrict) (p : Pool (FBN N)) (h0 : ∀ i, (p i).WF)
    (i : Nat) (h : (runHist p (FBN.toHist isBool ops) i).isTop = true) (s : CSt V) :
    (runHist p (FBN.toHist isBool ops) i).γ s :=
  FBN.γ_of_isTop_wf t2 (C04.flatbool_wf_history isBool hN ops hops p h0 i) h s

/-- without the invariant the answer can be wrong: a set bottom flag over top components -/
theorem C04.flatbool_is_top_needs_wf :
    let a : FBN FBInst.N0 := ⟨⟨true, .env [], []⟩, .top, .top, .fin []⟩
    a.isTop = true ∧ (∀ s, ¬ a.γ s) ∧ ¬ a.WF := by
  intro a
  refine ⟨rfl, ?_, ?_⟩
  · intro s h
    have : (true : Bool) = false := h.1.1
    cases this
  · intro h
    exact (h.1 rfl).1 ⟨fun _ => 0, fun _ => true⟩ ((FB Nat).top_sound _)

/-- the old `is_top()` (before 67052d5: `m_product.is_top()` alone) was wrong: this value has a top
    product, and excludes the state `b10 = true, v0 = 0` -/
theorem C04.flatbool_is_top_needs_maps :
    let a : FBN FBInst.N0 := FBN.assignBoolCst id 10 (FBInst.C0.ge 0 1) FBN.top
    a.prod.isTop = true ∧ a.isTop = false ∧ ¬ a.γ ⟨fun _ => 0, fun _ => true⟩ := by
  refine ⟨rfl, rfl, ?_⟩
  intro hg
  have := (hg.2.2.2.2.1 10 (FBInst.C0.ge 0 1) (by rfl) (by rfl)).1 rfl
  simp [FBInst.K0, FBInst.C0.holds] at this
