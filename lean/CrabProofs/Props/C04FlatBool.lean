import CrabProofs.Lemmas.FunctorFlatBoolLat2
import CrabProofs.Lemmas.FunctorFlatBoolInst

/-!
# C04 for `flat_boolean_numerical_domain<Dom>` — inclusion and lattice operations vs. concretisation

Model `Crab.Dom.Fct.FBN N` over any lawful base (see `Props/C03FlatBool.lean` for the model, the
concretisation `FBN.γ` and the invariant of the three auxiliary components).  Precision laws of the
base are explicit hypotheses (`LDom.LeqRefl`, `LeqTop`, `TopNotBot`, `TopIsTop`, `TopSound`,
`MeetLower`); the flat Boolean component satisfies all of them (`fb_*`).

* `operator<=` (after 6293d89) compares the product, the two maps and the unchanged set: a yes is an
  inclusion of concretisations, INCLUDING the recorded equivalences and implications;
* `is_top()` (after 67052d5) also asks the maps to be top; it does not read `m_unchanged_vars`,
  which is right because that set is never the bottom of its lattice on a non-bottom value;
* `|` is an upper bound; `&` is a lower bound but NOT sound (it loses states): the statement
  "`γ(a & b) = γ(a) ∩ γ(b)`" only holds for operands that mark the same variables unchanged
  (`C03.flatbool_meet_sound_counterexample`).
-/
open Crab Crab.Dom Crab.Dom.Fct

variable {V : Type} [DecidableEq V] {K : CSig V} {N : BNDom V K}

/-- a yes answer of `operator<=` is an inclusion of concretisations -/
theorem C04.flatbool_leq_sound (a b : FBN N) (s : CSt V) (h : FBN.leq a b = true) (hg : a.γ s) : b.γ s :=
  FBN.leq_sound h hg

theorem C04.flatbool_leq_refl (hr : N.LeqRefl) (a : FBN N) : FBN.leq a a = true := FBN.leq_refl hr a

/-- every value that `is_bottom()` recognises is below everything; `make_bottom()` is such a value -/
theorem C04.flatbool_bot_le (a b : FBN N) (h : a.isBottom = true) : FBN.leq a b = true :=
  FBN.leq_of_isBottom h b

theorem C04.flatbool_make_bottom (b : FBN N) :
    (FBN.bottom : FBN N).isBottom = true ∧ FBN.leq FBN.bottom b = true ∧ ∀ s, ¬ (FBN.bottom : FBN N).γ s :=
  ⟨rfl, FBN.leq_of_isBottom rfl b, FBN.not_γ_bottom⟩

/-- `make_top()` is above everything and is recognised by `is_top()` -/
theorem C04.flatbool_le_top (h2 : N.TopNotBot) (l2 : N.LeqTop) (a : FBN N) : FBN.leq a FBN.top = true :=
  FBN.leq_top h2 l2 a

theorem C04.flatbool_make_top (h2 : N.TopIsTop) :
    (FBN.top : FBN N).isTop = true ∧ ∀ s, (FBN.top : FBN N).γ s := ⟨FBN.isTop_top h2, FBN.γ_top⟩

/-- `|`, `|=` and `||` are upper bounds -/
theorem C04.flatbool_join_upper (w2 : N.B → N.B → N.B) (hw : N.USound w2) (a b : FBN N) (s : CSt V)
    (h : a.γ s ∨ b.γ s) : (FBN.join a b).γ s ∧ (FBN.joinEq a b).γ s ∧ (FBN.widenWith w2 a b).γ s :=
  ⟨FBN.join_sound h, FBN.joinEq_sound h, FBN.widenWith_sound hw h⟩

/-- `&` is a lower bound (on values whose product is well formed: `Prod2.WF`) -/
theorem C04.flatbool_meet_lower (m2 : N.MeetLower) (t2 : N.TopSound) (a b : FBN N) (ha : a.prod.WF)
    (hb : b.prod.WF) (s : CSt V) (h : (FBN.meet a b).γ s) : a.γ s ∧ b.γ s := FBN.meet_lower m2 t2 ha hb h

/-- ... and exactly the intersection when both operands mark the same variables unchanged -/
theorem C04.flatbool_meet_iff (m2 : N.MeetLower) (t2 : N.TopSound) (a b : FBN N) (ha : a.prod.WF)
    (hb : b.prod.WF) (hs : FBN.sameUnch a b = true) (s : CSt V) : (FBN.meet a b).γ s ↔ a.γ s ∧ b.γ s :=
  ⟨FBN.meet_lower m2 t2 ha hb, fun h => (FBN.meet_sound_of_sameUnch hs h.1 h.2).1⟩

/-- a yes of `is_bottom()` means no state -/
theorem C04.flatbool_is_bottom_sound (a : FBN N) (s : CSt V) (h : a.isBottom = true) : ¬ a.γ s :=
  FBN.not_γ_of_isBottom h s

/-- a yes of `is_top()` means every state; the two side conditions hold for every value that has
    a state at all (`C04.flatbool_is_top_side_conditions`) and for `make_top()` -/
theorem C04.flatbool_is_top_sound (t2 : N.TopSound) (a : FBN N) (hw : a.prod.WF)
    (hu : a.unch.isBot = false) (h : a.isTop = true) (s : CSt V) : a.γ s := FBN.γ_of_isTop t2 hw hu h s

theorem C04.flatbool_is_top_side_conditions (a : FBN N) (s : CSt V) (hg : a.γ s) :
    a.prod.WF ∧ a.unch.isBot = false := ⟨Prod2.wf_of_not_isBot hg.1.1, hg.2.2.2.1⟩

/-- the old `is_top()` (before 67052d5: `m_product.is_top()` alone) was wrong: this value has a top
    product, and excludes the state `b10 = true, v0 = 0` -/
theorem C04.flatbool_is_top_needs_maps :
    let a : FBN FBInst.N0 := FBN.assignBoolCst id 10 (FBInst.C0.ge 0 1) FBN.top
    a.prod.isTop = true ∧ a.isTop = false ∧ ¬ a.γ ⟨fun _ => 0, fun _ => true⟩ := by
  refine ⟨rfl, rfl, ?_⟩
  intro hg
  have := (hg.2.2.2.2.1 10 (FBInst.C0.ge 0 1) (by rfl) (by rfl)).1 rfl
  simp [FBInst.K0, FBInst.C0.holds] at this
