import CrabProofs.Props.C11
import CrabProofs.Lemmas.FwdBwdDom

/-!
# C02 / C11 — the discharge rule on top of the proved backward analysis

`C02FwdBwd.lean` assumes the conclusion of C11 in the vocabulary of `CrabModel/IR` (`CoFail`).
This file states the discharge rule directly over the model of C11 (`CrabModel/Bwd`, programs
`Bwd.Prog`, semantics `Bwd.CoReach`), where the hypothesis is the THEOREM
`C11.bwd_precondition_sound` applied to the table returned by the modelled backward iterator:

* `C02.c11_bottom_block_safe` : what `analyzer[d]` bottom means (every block, not only the entry);
* `C02.c11_dominated_discharge_sound` : if the value the backward analysis (error mode, refined
  with the forward invariants `S.invAbs`) returns for `d` is bottom and `d` dominates `m`, then no
  execution from the entry block whose block-entry states satisfy the forward invariants arrives
  at `m` in a state from which an assertion of `m` — or of a later block — fails.
-/
open Crab Crab.Bwd Crab.Fix Crab.Analysis

/-- the graph of a `Bwd.Prog` (the round bound plays no role in the statements) -/
def C02.bwdGraph (p : Prog) : DGraph := ⟨fun n => (p.block n).succs, p.entry, 0⟩

/-- an execution from the entry block, consistent with the invariants at every block entry,
    arrives at `b` with σ after visiting the blocks `l` (last first) -/
inductive C02.BArrives (p : Prog) (inv : Nat → State → Prop) : Nat → State → List Nat → Prop
  | init (σ : State) : inv p.entry σ → C02.BArrives p inv p.entry σ [p.entry]
  | step (b m : Nat) (σ σ' : State) (l : List Nat) : C02.BArrives p inv b σ l →
      StmtsStep (p.block b).stmts σ σ' → m ∈ (p.block b).succs → inv m σ' →
      C02.BArrives p inv m σ' (m :: l)

theorem C02.bArrives_inv (p : Prog) (inv : Nat → State → Prop) (b : Nat) (σ : State) (l : List Nat)
    (h : C02.BArrives p inv b σ l) : inv b σ := by
  cases h with
  | init _ hi => exact hi
  | step _ _ _ _ _ _ _ _ hi => exact hi

theorem C02.bArrives_path (p : Prog) (inv : Nat → State → Prop) (b : Nat) (σ : State) (l : List Nat)
    (h : C02.BArrives p inv b σ l) : PathTo (C02.bwdGraph p) b l := by
  induction h with
  | init σ _ => exact PathTo.entry
  | step b m σ σ' l _ _ hm _ ih => exact PathTo.step b m l ih hm

/-- an execution that visited `d` and from whose current state an error is co-reachable was, at
    `d`, in a state from which an error is co-reachable -/
theorem C02.bArrives_through (p : Prog) (inv : Nat → State → Prop) (fin : State → Prop)
    (m : Nat) (σ : State) (l : List Nat) (h : C02.BArrives p inv m σ l) (d : Nat) (hd : d ∈ l)
    (hc : CoReach p inv true fin m σ) : ∃ σd, CoReach p inv true fin d σd := by
  induction h with
  | init σ _ =>
    simp only [List.mem_singleton] at hd
    subst hd
    exact ⟨σ, hc⟩
  | step b m σ σ' l ha hs hm _ ih =>
    simp only [List.mem_cons] at hd
    rcases hd with hd | hd
    · subst hd; exact ⟨σ', hc⟩
    · exact ih hd (CoReach.flow b m σ σ' (C02.bArrives_inv p inv b σ l ha) hm hs hc)

/-- `analyzer[d]` bottom (error mode): no state at the entry of `d` satisfying the forward
    invariants leads to an assertion violation -/
theorem C02.c11_bottom_block_safe {A : Type} (S : Setup A) (w : List Comp) (fuel : Nat) (st : St A)
    (hw : WtoWF S.ctx w) (hrun : run S.ctx fuel w = some st) (d : Nat)
    (hbot : S.D.isBottom (preAt S.D S.p st.post d) = true) (σ : State) :
    ¬ CoReach S.p S.inv (!S.good) (S.γ S.fin) d σ :=
  fun h => S.sound.isBottom_sound _ σ hbot (C11.bwd_precondition_sound S w fuel st hw hrun d σ h)

/-- the discharge rule over the proved backward analysis -/
theorem C02.c11_dominated_discharge_sound {A : Type} (S : Setup A) (hgood : S.good = false)
    (w : List Comp) (fuel : Nat) (st : St A) (hw : WtoWF S.ctx w) (hrun : run S.ctx fuel w = some st)
    (d m : Nat) (hbot : S.D.isBottom (preAt S.D S.p st.post d) = true)
    (hdom : Dominates (C02.bwdGraph S.p) d m)
    (σ : State) (l : List Nat) (ha : C02.BArrives S.p S.inv m σ l) :
    ¬ CoReach S.p S.inv true (S.γ S.fin) m σ ∧ ¬ StmtsFail (S.p.block m).stmts σ := by
  have hno : ¬ CoReach S.p S.inv true (S.γ S.fin) m σ := by
    intro hc
    obtain ⟨σd, hcd⟩ := C02.bArrives_through S.p S.inv (S.γ S.fin) m σ l ha d
      (hdom l (C02.bArrives_path S.p S.inv m σ l ha)) hc
    have := C02.c11_bottom_block_safe S w fuel st hw hrun d hbot σd
    rw [hgood] at this
    exact this hcd
  exact ⟨hno, fun hf => hno (CoReach.fail m σ rfl (C02.bArrives_inv S.p S.inv m σ l ha) hf)⟩

/-- non-vacuity on the program of `C11.Cex` (`E: havoc(x); goto A, X`, `A: assert(x != 3)` dead
    end, `X` exit) with the current model: the exit block `X` gets bottom and dominates itself,
    so nothing fails from `X` — while the entry block gets top (`C11.Cex.run_entry_top`) -/
example (st : St Bool) (h : run C11.Cex.setup.ctx 10 C11.Cex.wto = some st)
    (hb : C11.Cex.flatDom.isBottom (preAt C11.Cex.flatDom C11.Cex.prog st.post 2) = true)
    (σ : State) (l : List Nat) (ha : C02.BArrives C11.Cex.prog C11.Cex.setup.inv 2 σ l) :
    ¬ StmtsFail (C11.Cex.prog.block 2).stmts σ :=
  (C02.c11_dominated_discharge_sound C11.Cex.setup rfl C11.Cex.wto 10 st C11.Cex.wf h 2 2 hb
    (dominates_refl _ 2) σ l ha).2

example : (run C11.Cex.setup.ctx 10 C11.Cex.wto).map
    (fun st => C11.Cex.flatDom.isBottom (preAt C11.Cex.flatDom C11.Cex.prog st.post 2)) = some true := by
  decide
