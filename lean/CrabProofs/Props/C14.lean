import CrabProofs.Lemmas.ArraySmash
import CrabProofs.Lemmas.ArrayCells
import CrabProofs.Props.C03

/-!
# C14 — array domains never lose a value that a cell can hold

## Array smashing (`array_smashing.hpp`) over ANY base domain

`Crab.Dom.Smash` models the functor over a base domain given only by its operations and their
soundness laws (`Smash.Base`: assign, weak_assign, expand with the summarized-dimension
semantics, forget, assume, join, widening, is_bottom).  The concretisation `Smash.γ` says: the
base domain accepts the program variables together with, for EVERY choice of one cell per tracked
array, the value of that cell as the value of the array's summary variable.

* `C14.smash_step_sound`: every operation of the history language satisfies `Step.Sound`
  (History.lean).
* `C14.smash_history_sound`: after any history every state of the collecting semantics is in `γ`.
* `C14.smash_load_sound`: whatever history produced the abstract value, every value a concrete
  load can return is a value the base domain allows for the loaded variable.
* `C14.smash_never_bottom_on_reachable`.
* `C14.smash_old_array_assign_counterexample`: the statement fails for `array_assign` as it was
  before the repair (`Smash.aAssignOld`): after
  `array_init(a0,..,5); a1[0] := 7; array_assign(a0, a1); x := a0[0]` the base domain says x = 5.

## Array adaptive (`array_adaptive.hpp`): the cell algebra only (partial)

`Crab.Dom.Cells` models `cell_t`, `offset_map_t` (`get_cell`, `mk_cell`, overlap, kill by erasing
or by marking as removed) and the offset-map part of a store at a constant offset.

* `C14.adaptive_cells_cover`: after any sequence of constant-offset stores (any offsets and sizes,
  both kill modes) every live cell is the target of a store that no later store overlaps — the
  ghost variable of a live cell holds exactly the last value written to all its bytes.
* `C14.adaptive_written_cell_live`: the written cell is live after the store.
* `C14.adaptive_old_mk_cell_counterexample`: with `mk_cell` as it was before the repair
  (`Cells.mkCellOld`) a store to a cell marked as removed leaves it marked as removed.
Not covered by proof (tested only, mechanism R): the scan of `get_overlap_cells`, ghost naming,
smashing decisions from the parameters, the all-cells-known flag, joins of offset maps,
delegation to the base domain.

The strong-update flag is trusted only under the client contract (`singleCell`, part of the
transition relation of a strong store); uniform element sizes per array are the function `esz`.
-/
open Crab Crab.Dom Crab.Dom.Arr Crab.Dom.Smash

/-- Every operation satisfies its soundness law w.r.t. `γ`. -/
theorem C14.smash_step_sound (Bs : Base) (esz : Nat → Nat) (op : Op) :
    (op.toStep (Bs := Bs) esz).Sound (γ esz) := by
  cases op with
  | assign d x e =>
    intro st s s' hγ hr
    simp only at hr; subst hr
    exact nAssign_sound x e hγ
  | assume d c =>
    intro st s s' hγ hr
    obtain ⟨hc, rfl⟩ := hr
    exact nAssume_sound c hγ hc
  | forget d x =>
    intro st s s' hγ hr
    obtain ⟨v, rfl⟩ := hr
    exact nForget_sound x v hγ
  | aInit d a lb ub val =>
    intro st s s' hγ hr
    exact aInit_sound a lb ub val hγ hr
  | aLoad d x a i =>
    intro st s s' hγ hr
    exact aLoad_sound x a i hγ hr
  | aStore d a i val strong =>
    intro st s s' hγ hr
    exact aStore_sound a i val strong hγ hr.1 hr.2
  | aStoreRange d a lb ub val =>
    intro st s s' hγ hr
    exact aStoreRange_sound a lb ub val hγ hr
  | aAssign d lhs rhs =>
    intro st s s' hγ hr
    exact aAssign_sound lhs rhs hγ hr.1 hr.2
  | join d p q =>
    intro a b s h
    exact sJoin_sound h
  | widen d p q =>
    intro a b s h
    exact sWiden_sound h
  | copy d p => trivial

/-- **History soundness of the smashing functor** for every base domain, pool, history length and
    interleaving of numeric operations, initialisations, strong (legal) / weak / range stores,
    loads, array copies, joins, widenings and copies. -/
theorem C14.smash_history_sound (Bs : Base) (esz : Nat → Nat) (ops : List Op)
    (p : Pool (St Bs)) (c : CPool CState) (h0 : ∀ i s, c i s → γ esz (p i) s) :
    ∀ i s, collHist c (toHist (Bs := Bs) esz ops) i s → γ esz (runHist p (toHist esz ops) i) s := by
  apply C03.history_sound (γ esz) (toHist esz ops) _ p c h0
  intro st hst
  simp only [toHist, List.mem_map] at hst
  obtain ⟨op, _, rfl⟩ := hst
  exact C14.smash_step_sound Bs esz op

/-- **C14 for array smashing**: whatever history produced the abstract value, a load `x := a[i]`
    executed on any state of the collecting semantics yields a value that the base domain allows
    for `x` — all histories, all base domains, all element sizes. -/
theorem C14.smash_load_sound (Bs : Base) (esz : Nat → Nat) (ops : List Op)
    (p : Pool (St Bs)) (c : CPool CState) (h0 : ∀ i s, c i s → γ esz (p i) s)
    (d x a : Nat) (i : Lin) (s s' : CState)
    (hs : collHist c (toHist (Bs := Bs) esz ops) d s) (hl : cLoad (esz a) x a i.eval s = some s') :
    ValIn (runHist p (toHist esz (ops ++ [Op.aLoad d x a i])) d) x (s'.iv x) := by
  have hcoll : collHist c (toHist (Bs := Bs) esz (ops ++ [Op.aLoad d x a i])) d s' := by
    simp only [toHist, List.map_append, List.map_cons, List.map_nil, collHist, List.foldl_append,
      List.foldl_cons, List.foldl_nil]
    simp only [Op.toStep, Op.toStepWith, Step.coll, CPool.set, if_true]
    exact ⟨s, hs, hl⟩
  exact valIn_of_γ (C14.smash_history_sound Bs esz _ p c h0 d s' hcoll) x

/-- Array operations never turn a value that some execution reaches into bottom. -/
theorem C14.smash_never_bottom_on_reachable (Bs : Base) (esz : Nat → Nat) (ops : List Op)
    (p : Pool (St Bs)) (c : CPool CState) (h0 : ∀ i s, c i s → γ esz (p i) s)
    (d : Nat) (s : CState) (hs : collHist c (toHist (Bs := Bs) esz ops) d s) :
    (runHist p (toHist esz ops) d).isBottom = false :=
  not_bottom_of_γ (C14.smash_history_sound Bs esz ops p c h0 d s hs)

/-! ### `array_assign` before the repair violated the statement (untracked right-hand side) -/

/-- the statement of `C14.smash_load_sound` over the OLD `array_assign` (`Smash.aAssignOld`) -/
def C14.smash_old_array_assign_Statement : Prop :=
  ∀ (Bs : Base) (esz : Nat → Nat) (ops : List Op) (p : Pool (St Bs)) (c : CPool CState),
    (∀ i s, c i s → γ esz (p i) s) →
    ∀ (d x a : Nat) (i : Lin) (s s' : CState),
      collHist c (toHistOld (Bs := Bs) esz ops) d s → cLoad (esz a) x a i.eval s = some s' →
      ValIn (runHist p (toHistOld esz (ops ++ [Op.aLoad d x a i])) d) x (s'.iv x)

namespace C14cex

/-- a base domain that satisfies every law: constants (`none` = unknown) -/
abbrev CB := Var → Option Int

def evalR (b : CB) : RExpr → Option Int
  | .lin e => if e.ts = [] then some e.c else none
  | .var v => b v

def cstBase : Base where
  B := CB
  γ := fun b ρ => ∀ v k, b v = some k → ρ v = k
  top := fun _ => none
  assign := fun b x e => fun y => if y = x then evalR b e else b y
  weakAssign := fun b x e => fun y => if y = x then (if b x = evalR b e then b x else none) else b y
  expand := fun b x y => fun z => if z = y then b x else b z
  forget := fun b x => fun z => if z = x then none else b z
  assume := fun b _ => b
  join := fun a b => fun z => if a z = b z then a z else none
  widen := fun a b => fun z => if a z = b z then a z else none
  isBot := fun _ => false
  top_sound := by intro ρ v k h; simp at h
  assign_sound := by
    intro b x e ρ h v k hv
    by_cases hvx : v = x
    · subst hvx
      simp only [if_true] at hv
      simp only [Env.set, if_true]
      cases e with
      | lin e =>
        simp only [evalR] at hv
        split at hv
        · rename_i hts
          simp only [RExpr.eval, Lin.eval, hts, List.foldl_nil]
          exact Option.some.inj hv
        · simp at hv
      | var w => exact h w k hv
    · simp only [hvx, if_false] at hv
      simp only [Env.set, hvx, if_false]
      exact h v k hv
  weakAssign_sound := by
    intro b x e ρ h
    constructor
    · intro v k hv
      by_cases hvx : v = x
      · subst hvx
        simp only [if_true] at hv
        split at hv
        · exact h v k hv
        · simp at hv
      · simp only [hvx, if_false] at hv; exact h v k hv
    · intro v k hv
      by_cases hvx : v = x
      · subst hvx
        simp only [if_true] at hv
        simp only [Env.set, if_true]
        split at hv
        · rename_i heq
          rw [heq] at hv
          cases e with
          | lin e =>
            simp only [evalR] at hv
            split at hv
            · rename_i hts
              simp only [RExpr.eval, Lin.eval, hts, List.foldl_nil]
              exact Option.some.inj hv
            · simp at hv
          | var w => exact h w k hv
        · simp at hv
      · simp only [hvx, if_false] at hv
        simp only [Env.set, hvx, if_false]
        exact h v k hv
  expand_sound := by
    intro b x y ρ₁ ρ₂ h1 h2 _ v k hv
    by_cases hvy : v = y
    · subst hvy
      simp only [if_true] at hv
      simp only [Env.set, if_true]
      exact h2 x k hv
    · simp only [hvy, if_false] at hv
      simp only [Env.set, hvy, if_false]
      exact h1 v k hv
  forget_sound := by
    intro b x ρ w h v k hv
    by_cases hvx : v = x
    · subst hvx; simp at hv
    · simp only [hvx, if_false] at hv
      simp only [Env.set, hvx, if_false]
      exact h v k hv
  assume_sound := fun _ _ _ h _ => h
  join_sound_l := by
    intro a b ρ h v k hv
    dsimp only at hv
    split at hv
    · exact h v k hv
    · simp at hv
  join_sound_r := by
    intro a b ρ h v k hv
    dsimp only at hv
    split at hv
    · rename_i heq; rw [heq] at hv; exact h v k hv
    · simp at hv
  widen_sound_l := by
    intro a b ρ h v k hv
    dsimp only at hv
    split at hv
    · exact h v k hv
    · simp at hv
  widen_sound_r := by
    intro a b ρ h v k hv
    dsimp only at hv
    split at hv
    · rename_i heq; rw [heq] at hv; exact h v k hv
    · simp at hv
  isBot_sound := by intro b ρ h; simp at h

def k (n : Int) : Lin := ⟨n, []⟩

/-- `array_init(a0, 4, 0, 3, 5); array_store(a1, 4, 0, 7, weak); array_assign(a0, a1)` -/
def ops : List Op := [.aInit 0 0 (k 0) (k 3) (k 5), .aStore 0 1 (k 0) (k 7) false, .aAssign 0 0 1]

def s0 : CState := ⟨fun _ => 0, fun _ => Mem.empty⟩
def s1 : CState := s0.setArr 0 (Mem.init 4 0 3 5)
def s2 : CState := s1.setArr 1 ((s1.ar 1).store 0 7)
def s3 : CState := s2.setArr 0 (s2.ar 1)
def s4 : CState := s3.setVar 0 7

end C14cex

open C14cex in
theorem C14.smash_old_array_assign_counterexample : ¬ C14.smash_old_array_assign_Statement := by
  intro h
  have hv := h cstBase (fun _ => 4) C14cex.ops (fun _ => St.top) (fun _ s => s = s0)
    (fun _ s _ => γ_top s) 0 0 0 (k 0) s3 s4
    (by
      simp only [C14cex.ops, toHistOld, List.map_cons, List.map_nil, collHist, Op.toStepWith]
      simp only [List.foldl, Step.coll, CPool.set, if_true]
      refine ⟨s2, ⟨s1, ⟨s0, rfl, ?_⟩, ?_, ?_⟩, trivial, ?_⟩
      · rfl
      · rfl
      · intro hf; exact absurd hf (by decide)
      · rfl)
    (by rfl)
  obtain ⟨ρ, hρ, hx⟩ := hv
  have h5 : ρ (.prog 0) = 5 := hρ (.prog 0) 5 (by rfl)
  have h7 : ρ (.prog 0) = 7 := hx
  rw [h5] at h7
  exact absurd h7 (by decide)

/-- the same history with the repaired `array_assign`: the base domain no longer claims x = 5
    (the summary of a0 is forgotten) -/
example : (runHist (fun _ => (St.top : St C14cex.cstBase))
      (toHist (fun _ => 4) (C14cex.ops ++ [Op.aLoad 0 0 0 (C14cex.k 0)])) 0).base (.prog 0) = none := by rfl

/-- non-vacuity: the hypotheses of `smash_load_sound` are satisfiable with a non-trivial value:
    after `array_init(a0, 4, 0, 3, 5)` on the constants base, the load `x := a0[0]` is defined and
    the base domain says `x = 5` -/
example : ValIn (runHist (fun _ => (St.top : St C14cex.cstBase))
      (toHist (fun _ => 4) [Op.aInit 0 0 (C14cex.k 0) (C14cex.k 3) (C14cex.k 5), Op.aLoad 0 0 0 (C14cex.k 0)]) 0) 0 5 :=
  C14.smash_load_sound C14cex.cstBase (fun _ => 4) [Op.aInit 0 0 (C14cex.k 0) (C14cex.k 3) (C14cex.k 5)]
    (fun _ => St.top) (fun _ s => s = C14cex.s0) (fun _ s _ => γ_top s) 0 0 0 (C14cex.k 0) C14cex.s1
    (C14cex.s1.setVar 0 5)
    (by
      simp only [toHist, List.map_cons, List.map_nil, collHist, Op.toStep, Op.toStepWith]
      simp only [List.foldl, Step.coll, CPool.set, if_true]
      exact ⟨C14cex.s0, rfl, rfl⟩)
    (by rfl)

/-! ## array_adaptive: the cell algebra -/
open Crab.Dom.Cells

/-- **Cells cover**: every live cell of the offset map is the target of a store that no later
    store overlaps (stores listed most recent first), for both kill modes. -/
theorem C14.adaptive_cells_cover (smashable : Bool) (hist : List (Int × Nat)) (c : Cell)
    (h : c ∈ live (runStores smashable hist)) :
    ∃ newer older, hist = newer ++ (c.off, c.size) :: older ∧
      ∀ s ∈ newer, rangesMeet c.off c.size s.1 s.2 = false := by
  induction hist with
  | nil => simp [runStores, live] at h
  | cons s rest ih =>
    simp only [runStores] at h
    rcases live_storeConst h with h1 | ⟨h1, h2⟩
    · subst h1
      exact ⟨[], rest, rfl, by simp⟩
    · obtain ⟨newer, older, heq, hno⟩ := ih h1
      refine ⟨s :: newer, older, by rw [heq]; rfl, ?_⟩
      intro t ht
      rcases List.mem_cons.1 ht with h3 | h3
      · subst h3; exact h2
      · exact hno t h3

/-- the cell written by a constant-offset store is live afterwards (every map, both kill modes) -/
theorem C14.adaptive_written_cell_live (smashable : Bool) (om : OMap) (o : Int) (sz : Nat) :
    (⟨o, sz, false⟩ : Cell) ∈ live (storeConst smashable om o sz) :=
  written_live

/-- the same statement over `mk_cell` as it was before the repair (`Cells.mkCellOld`) -/
def C14.adaptive_old_mk_cell_Statement : Prop :=
  ∀ (smashable : Bool) (om : OMap) (o : Int) (sz : Nat),
    (⟨o, sz, false⟩ : Cell) ∈ live (storeConstOld smashable om o sz)

/-- before the repair a store to a cell marked as removed left it marked as removed -/
theorem C14.adaptive_old_mk_cell_counterexample : ¬ C14.adaptive_old_mk_cell_Statement := by
  intro h
  have := h true [⟨0, 4, true⟩] 0 4
  revert this
  decide

/-- non-vacuity of `adaptive_cells_cover`: `a[0..3] := _; a[8..11] := _; a[2..5] := _` leaves the
    cells (8,4) and (2,4) live (erase mode) -/
example : live (runStores false [(2, 4), (8, 4), (0, 4)]) = [⟨2, 4, false⟩, ⟨8, 4, false⟩] := by decide
