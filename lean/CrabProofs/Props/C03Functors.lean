import CrabProofs.Lemmas.FunctorProductLat
import CrabProofs.Lemmas.FunctorPowersetOps
import CrabProofs.Lemmas.FunctorInst
import CrabProofs.Lemmas.FunctorPackingBin3
import CrabProofs.Lemmas.FunctorHistory
import CrabProofs.Lemmas.FunctorInstPack
import CrabProofs.Props.C03

/-!
# C03 for the domain COMBINATORS, as functors over any base domain

`Props/C03*.lean` prove history soundness for exact models of base domains.  The combinators that
crab ships on top of them are modelled here as functors over an arbitrary base domain given by its
operations and their soundness laws (`Crab.Dom.Fct.LDom`, file `CrabModel/Dom/Functors/Base.lean`):
every theorem holds for every instantiation at once.

* `basic_domain_product2` / `reduced_domain_product2` / `reduced_numerical_domain_product2`
  (combined_domains.hpp), model `Crab.Dom.Fct.Prod2`, γ = intersection of the components (nothing
  when `m_is_bottom` is set);
* `powerset_domain` (powerset_domain.hpp), model `Crab.Dom.Fct.PSet`, γ = union of the disjuncts;
* `numerical_packing_domain` (numerical_packing.hpp + the part of union_find_domain.hpp it uses),
  model `Crab.Dom.Fct.PK` at the level of the partition, γc = intersection over the packs of the
  cylinder of the base value over the variables of the pack (`PK.γc`; it implies the plain
  intersection `PK.γ` of the base concretisations).  The laws hold on values whose packs are
  pairwise disjoint and non-empty (`PK.WF`), an invariant of every operation
  (`packing_step_wf`); the history theorem is `history_sound_on` (Lemmas/FunctorHistory.lean).

Hypotheses on the base (and nothing else): each component transformer abstracts the concrete
relation of the statement (`LDom.TSound`), widenings are upper bounds (`LDom.USound`), the
reduction hook of `reduce_variable` keeps the states of the meet (`Prod2.RedSound`), and — for the
powerset only, whose early returns trust it — a yes of the base `is_top` means every state
(`LDom.TopSound`).
-/
open Crab Crab.Dom Crab.Dom.Fct

/-! ## products -/

/-- every operation of the products satisfies its soundness law (History.lean) -/
theorem C03.product_step_sound {S V : Type} {D1 D2 : LDom S} (P : Prod2.NParams)
    (red : V → D1.B → D2.B → D1.B × D2.B) (hred : Prod2.RedSound red) (op : Prod2.Op D1 D2 V)
    (hop : op.BaseSound) : (op.toStep P red).Sound Prod2.γ := by
  cases op with
  | meth d m f1 f2 r => exact fun a s s' hg hr => Prod2.op_sound m hop.1 hop.2 hg hr
  | nmeth d m f1 f2 vs r => exact fun a s s' hg hr => Prod2.nop_sound P hred m hop.1 hop.2 vs hg hr
  | join d a b => exact fun a b s h => Prod2.join_sound h
  | joinEq d a b => exact fun a b s h => Prod2.joinEq_sound h
  | meet d a b => exact fun a b s ha hb => Prod2.meet_sound ha hb
  | meetEq d a b => exact fun a b s ha hb => Prod2.meetEq_sound ha hb
  | widen d a b w1 w2 => exact fun a b s h => Prod2.widenWith_sound hop.1 hop.2 h
  | narrow d a b => exact fun a b s ha hb => Prod2.narrow_sound ha hb
  | copy d s => trivial
  | setTop d => exact fun a s s' _ _ => Prod2.γ_top s'
  | setBottom d => trivial

/-- **History soundness of the three product combinators** for every pair of base domains, every
    reduction hook that keeps the meet, every pool, history length and interleaving of
    transformers (with and without `reduce()` / `reduce_variable`), `|`, `|=`, `&`, `&=`, `||`,
    `widening_thresholds`, `&&`, copies, `set_to_top`, `set_to_bottom`. -/
theorem C03.product_history_sound {S V : Type} {D1 D2 : LDom S} (P : Prod2.NParams)
    (red : V → D1.B → D2.B → D1.B × D2.B) (hred : Prod2.RedSound red) (ops : List (Prod2.Op D1 D2 V))
    (hops : ∀ op ∈ ops, op.BaseSound) (p : Pool (Prod2 D1 D2)) (c : CPool S)
    (h0 : ∀ i s, c i s → (p i).γ s) :
    ∀ i s, collHist c (Prod2.toHist P red ops) i s → (runHist p (Prod2.toHist P red ops) i).γ s := by
  apply C03.history_sound Prod2.γ _ _ p c h0
  intro st hst
  simp only [Prod2.toHist, List.mem_map] at hst
  obtain ⟨op, hop, rfl⟩ := hst
  exact C03.product_step_sound P red hred op (hops op hop)

/-- `reduce_variable` alone: whatever the hook does within its law, no state of the value is lost -/
theorem C03.product_reduce_variable_sound {S V : Type} {D1 D2 : LDom S} (P : Prod2.NParams)
    (red : V → D1.B → D2.B → D1.B × D2.B) (hred : Prod2.RedSound red) (vs : List V) (p : Prod2 D1 D2) (s : S)
    (h : p.γ s) : (Prod2.reduceVars P red vs p).γ s := Prod2.reduceVars_sound P hred vs h

/-- a slot that some execution reaches is never reported bottom, neither by the flag nor by a
    component -/
theorem C03.product_not_bottom_on_reachable {S V : Type} {D1 D2 : LDom S} (P : Prod2.NParams)
    (red : V → D1.B → D2.B → D1.B × D2.B) (hred : Prod2.RedSound red) (ops : List (Prod2.Op D1 D2 V))
    (hops : ∀ op ∈ ops, op.BaseSound) (p : Pool (Prod2 D1 D2)) (c : CPool S)
    (h0 : ∀ i s, c i s → (p i).γ s) (i : Nat) (s : S) (hc : collHist c (Prod2.toHist P red ops) i s) :
    (runHist p (Prod2.toHist P red ops) i).isBottom = false := by
  cases hb : (runHist p (Prod2.toHist P red ops) i).isBottom
  · rfl
  · exact absurd (C03.product_history_sound P red hred ops hops p c h0 i s hc) (Prod2.not_γ_of_isBottom hb s)

/-! ## powerset -/

/-- the four shapes of transformers of `powerset_domain` (pointwise; pointwise + removal of bottom
    disjuncts; `+=` with its two syntactic early tests; `forget` with its collapse to top) -/
theorem C03.powerset_trans_sound {S : Type} {D : LDom S} (k : PSet.TKind) (f : D.B → D.B) (r : S → S → Prop)
    (hf : D.TSound f r)
    (hk : match k with
      | .add t fl => (t = true → ∀ s s', r s s' → s' = s) ∧ (fl = true → ∀ s s', ¬ r s s')
      | _ => True)
    (ps : PSet D) (s s' : S) (hg : PSet.γ ps s) (hr : r s s') : PSet.γ (PSet.trans k f ps) s' := by
  cases k with
  | map => exact PSet.mapOp_sound hf hg hr
  | filter => exact PSet.filterOp_sound hf hg hr
  | forget => exact PSet.forgetOp_sound hf hg hr
  | add t fl => exact PSet.addOp_sound hf t fl hk.1 hk.2 hg hr

theorem C03.powerset_join_sound {S : Type} {D : LDom S} (t : D.TopSound) (P : PParams) (a b : PSet D) (s : S)
    (h : PSet.γ a s ∨ PSet.γ b s) : PSet.γ (PSet.join P a b) s ∧ PSet.γ (PSet.joinEq P a b) s :=
  ⟨PSet.join_sound t P h, PSet.joinEq_sound t P h⟩

/-- widening (`||`, `widening_thresholds`): both operands are smashed first -/
theorem C03.powerset_widen_sound {S : Type} {D : LDom S} (w : D.B → D.B → D.B) (hw : D.USound w)
    (a b : PSet D) (s : S) (h : PSet.γ a s ∨ PSet.γ b s) : PSet.γ (PSet.widenWith w a b) s :=
  PSet.widenWith_sound hw h

/-- meet in both modes (`powerset_exact_meet`) and narrowing keep the common states -/
theorem C03.powerset_meet_sound {S : Type} {D : LDom S} (P : PParams) (a b : PSet D) (s : S)
    (ha : PSet.γ a s) (hb : PSet.γ b s) : PSet.γ (PSet.meet P a b) s ∧ PSet.γ (PSet.narrow a b) s :=
  ⟨PSet.meet_sound P ha hb, PSet.narrow_sound ha hb⟩

/-- `smash_disjuncts` (both versions) contains every disjunct -/
theorem C03.powerset_smash_sound {S : Type} {D : LDom S} (ps : PSet D) (s : S) (h : PSet.γ ps s) :
    D.γ (PSet.smash ps) s ∧ PSet.γ (PSet.smashInPlace ps) s :=
  ⟨PSet.smash_sound h, PSet.smashInPlace_sound h⟩

theorem C03.powerset_step_sound {S : Type} {D : LDom S} (t : D.TopSound) (P : PParams) (op : PSet.Op D)
    (hop : op.BaseSound) : (op.toStep P).Sound PSet.γ := by
  cases op with
  | trans d k f r =>
    intro a s s' hg hr
    exact C03.powerset_trans_sound k f r hop.1 hop.2 a s s' hg hr
  | join d a b => exact fun a b s h => PSet.join_sound t P h
  | joinEq d a b => exact fun a b s h => PSet.joinEq_sound t P h
  | meet d a b => exact fun a b s ha hb => PSet.meet_sound P ha hb
  | widen d a b w => exact fun a b s h => PSet.widenWith_sound hop h
  | narrow d a b => exact fun a b s ha hb => PSet.narrow_sound ha hb
  | copy d s => trivial
  | setTop d => exact fun a s s' _ _ => PSet.γ_top s'
  | setBottom d => trivial

/-- **History soundness of `powerset_domain`** for every base domain with a sound `is_top`, every
    setting of `max_disjuncts` / `exact_meet`, every pool, history length and interleaving. -/
theorem C03.powerset_history_sound {S : Type} {D : LDom S} (t : D.TopSound) (P : PParams) (ops : List (PSet.Op D))
    (hops : ∀ op ∈ ops, op.BaseSound) (p : Pool (PSet D)) (c : CPool S)
    (h0 : ∀ i s, c i s → PSet.γ (p i) s) :
    ∀ i s, collHist c (PSet.toHist P ops) i s → PSet.γ (runHist p (PSet.toHist P ops) i) s := by
  apply C03.history_sound PSet.γ _ _ p c h0
  intro st hst
  simp only [PSet.toHist, List.mem_map] at hst
  obtain ⟨op, hop, rfl⟩ := hst
  exact C03.powerset_step_sound t P op (hops op hop)

theorem C03.powerset_not_bottom_on_reachable {S : Type} {D : LDom S} (t : D.TopSound) (P : PParams)
    (ops : List (PSet.Op D)) (hops : ∀ op ∈ ops, op.BaseSound) (p : Pool (PSet D)) (c : CPool S)
    (h0 : ∀ i s, c i s → PSet.γ (p i) s) (i : Nat) (s : S) (hc : collHist c (PSet.toHist P ops) i s) :
    PSet.isBottom (runHist p (PSet.toHist P ops) i) = false :=
  PSet.isBottom_false_of_γ (C03.powerset_history_sound t P ops hops p c h0 i s hc)

/-! ## non-vacuity: intervals × congruences, powerset of intervals (one variable) -/
namespace C03FunctorsEx

/-- x ∈ [0,4] ∧ x ≡ 0 (mod 2) -/
def p0 : Prod2 itvDom congDom := Prod2.mk' (WItv.mk 0 4) (Cong.mk' 2 0)

/-- `x := x + 1` through `reduced_numerical_domain_product2::apply` -/
def addOne (d : Nat) : Prod2.Op itvDom congDom Unit :=
  .nmeth d .apply (itvAddK 1) (congAddK 1) [()] (fun s s' => s' = s + 1)

/-- the model computes: after `x := x + 1; x := x + 1; join with the start value` the value is
    `[0,6]`, `0 mod 2`, not bottom -/
def r0 : Prod2 itvDom congDom :=
  runHist (fun _ => p0) (Prod2.toHist {} redIC [addOne 0, addOne 0, .join 0 0 1]) 0

def r0fst : Itv := r0.fst.1
def r0snd : Cong := r0.snd

example : r0fst = ⟨.fin 0, .fin 6⟩ ∧ r0snd = ⟨false, 2, 0⟩ ∧ r0.isBottom = false := by decide

/-- ... and `product_history_sound` applies to it: 2 ↦ 3 ↦ 4 is an execution, 4 is in the result -/
example : (runHist (fun _ => p0) (Prod2.toHist {} redIC [addOne 0, addOne 0, .join 0 0 1]) 0).γ 4 :=
  C03.product_history_sound {} redIC redIC_sound _
    (by intro op hop; simp only [List.mem_cons, List.mem_nil_iff, or_false] at hop
        rcases hop with rfl | rfl | rfl
        · exact ⟨itvAddK_sound 1, congAddK_sound 1⟩
        · exact ⟨itvAddK_sound 1, congAddK_sound 1⟩
        · trivial)
    (fun _ => p0) (fun _ s => s = 2)
    (by intro i s hs; subst hs; exact (Prod2.γ_mk' _ _ _ _).2
          ⟨show Itv.mem 2 _ by decide, (Cong.contains_iff _ _).1 (by decide)⟩) 0 4
    (by simp only [Prod2.toHist, List.map, collHist, List.foldl, addOne, Prod2.Op.toStep, Step.coll, CPool.set]
        simp)

/-- `reduce_variable` finds the empty meet that the components do not see -/
def p1 : Prod2 itvDom congDom := Prod2.mk' (WItv.mk 1 1) (Cong.mk' 2 0)

example : p1.isBottom = false ∧ (Prod2.reduceVariable {} redIC () p1).isBottom = true := by decide

/-- powerset of intervals, `max_disjuncts = 2`: `{[0,0],[2,2]}`, `x := x + 1`, join with `{[5,5]}`
    (three disjuncts: smashed), `<=` -/
def q0 : PSet itvDom := [WItv.mk 0 0, WItv.mk 2 2]
def q1 : PSet itvDom := [WItv.mk 5 5]

def pAddOne (d : Nat) : PSet.Op itvDom := .trans d .map (itvAddK 1) (fun s s' => s' = s + 1)

def rq : Pool (PSet itvDom) :=
  runHist (fun i => if i = 0 then q0 else q1) (PSet.toHist ⟨2, true⟩ [pAddOne 0, .copy 2 0, .join 0 0 1])

def rqv (i : Nat) : List Itv := (rq i).map (·.1)

example : rqv 2 = [⟨.fin 1, .fin 1⟩, ⟨.fin 3, .fin 3⟩] ∧ rqv 0 = [⟨.fin 1, .fin 5⟩] ∧
    PSet.leq (rq 2) (rq 0) = true ∧ PSet.leq (rq 0) (rq 2) = false := by decide

example : PSet.γ (runHist (fun i => if i = 0 then q0 else q1)
    (PSet.toHist ⟨2, true⟩ [pAddOne 0, .copy 2 0, .join 0 0 1]) 0) 3 :=
  C03.powerset_history_sound itvDom_topSound ⟨2, true⟩ _
    (by intro op hop; simp only [List.mem_cons, List.mem_nil_iff, or_false] at hop
        rcases hop with rfl | rfl | rfl
        · exact ⟨itvAddK_sound 1, trivial⟩
        · trivial
        · trivial)
    _ (fun i s => i = 0 ∧ s = 2)
    (by rintro i s ⟨rfl, rfl⟩; exact ⟨WItv.mk 2 2, List.mem_cons_of_mem _ List.mem_cons_self, show Itv.mem 2 _ by decide⟩) 0 3
    (by simp only [PSet.toHist, List.map, collHist, List.foldl, pAddOne, PSet.Op.toStep, Step.coll, CPool.set]
        simp)

end C03FunctorsEx

/-! ## numerical packing -/

/-- **statements** (`assign`, `weak_assign`, every `apply`, `select`, `expand`: the wrappers of
    `CrabModel/Dom/Functors/Packing.lean` are instances of `PK.stmt`): on a well-formed value that
    has a state the statement raises no CRAB_ERROR and its result accepts every successor state.
    `r` must be local to the variables handed to `merge` (`PK.Local`). -/
theorem C03.packing_stmt_sound {V : Type} [DecidableEq V] {N : NDom V} (fx : Option V) (vars : List V)
    (hv : vars ≠ []) (f : N.B → N.B) (normBot errOnNull : Bool) (r : St V → St V → Prop) (hf : N.TSound f r)
    (hloc : PK.Local r vars) (a : PK N) (hw : a.WF) (s s' : St V) (h : PK.γc a s) (hr : r s s') :
    ∃ b, PK.stmt fx vars f normBot errOnNull a = some b ∧ PK.γc b s' ∧ b.WF := by
  obtain ⟨b, hb, hg⟩ := PK.stmt_sound fx hv normBot errOnNull hf hloc hw h hr
  exact ⟨b, hb, hg, PK.stmt_wf fx vars f normBot errOnNull hw b hb⟩

/-- `operator+=`: every constraint is handled as coded (contradiction, tautology, no variable,
    merge of the packs of its variables, bottom test) -/
theorem C03.packing_add_sound {V : Type} [DecidableEq V] {N : NDom V} (cs : List (PK.CstInfo N))
    (hcs : ∀ c ∈ cs, (c.contra = true → ∀ s, ¬ c.sat s) ∧ N.TSound c.f (fun s s' => c.sat s ∧ s' = s) ∧
      (∀ s t, PK.agree c.vars s t → c.sat s → c.sat t))
    (a : PK N) (hw : a.WF) (s : St V) (h : PK.γc a s) (hsat : ∀ c ∈ cs, c.sat s) :
    PK.γc (PK.addCsts cs a) s ∧ (PK.addCsts cs a).WF :=
  ⟨PK.addCsts_sound cs hcs hw h hsat, PK.addCsts_wf cs hw⟩

/-- `operator-=` / `forget` (after b231e50: also on values whose base values are all top) -/
theorem C03.packing_forget_sound {V : Type} [DecidableEq V] {N : NDom V} (xs : List V) (a : PK N) (hw : a.WF)
    (s s' : St V) (h : PK.γc a s) (hr : PK.forgetRel xs s s') :
    PK.γc (PK.forgetAll xs a) s' ∧ (PK.forgetAll xs a).WF :=
  ⟨PK.forgetAll_sound xs hw h hr, PK.forgetAll_wf xs hw⟩

/-- `|`, `||`, `widening_thresholds`: whenever a value is returned it contains both operands (the
    partitions are aligned to their finest common coarsening first) -/
theorem C03.packing_join_sound {V : Type} [DecidableEq V] {N : NDom V} (t : N.TopSound) (g : N.B → N.B → N.B)
    (hg : N.USound g) (a b : PK N) (ha : a.WF) (hb : b.WF) (res : PK N) (h : PK.joinWith g a b = some res)
    (s : St V) (hs : PK.γc a s ∨ PK.γc b s) : PK.γc res s ∧ res.WF :=
  ⟨PK.joinWith_sound t hg ha hb h hs, PK.joinWith_wf ha hb h⟩

/-- `&`, `&&` keep the common states -/
theorem C03.packing_meet_sound {V : Type} [DecidableEq V] {N : NDom V} (g : N.B → N.B → N.B)
    (hg : ∀ x y t, N.γ x t → N.γ y t → N.γ (g x y) t) (a b : PK N) (ha : a.WF) (hb : b.WF) (res : PK N)
    (h : PK.meetWith g a b = some res) (s : St V) (hsa : PK.γc a s) (hsb : PK.γc b s) : PK.γc res s ∧ res.WF :=
  ⟨PK.meetWith_sound hg ha hb h hsa hsb, PK.meetWith_wf ha hb h⟩

/-- `normalize_if_bottom` (851b9a3): when the base operation makes the merged pack bottom the whole
    value is bottom -/
theorem C03.packing_bottom_when_pack_bottom {V : Type} [DecidableEq V] {N : NDom V} (vars : List V) (f : N.B → N.B)
    (errOnNull : Bool) (l : List (Pack N)) (acc : Pack N) (rest : List (Pack N))
    (hm : PK.merge N.top l vars = some (acc, rest)) (hb : N.isBot (f acc.val) = true) :
    PK.stmt none vars f true errOnNull (.packs l) = some .bot ∧ PK.isBottom (.bot : PK N) = true := by
  simp [PK.stmt, PK.stmtOn, hm, hb, PK.isBottom]

theorem C03.packing_step_sound {V : Type} [DecidableEq V] {N : NDom V} (t : N.TopSound) (op : PK.Op N)
    (hop : op.BaseSound) : Step.SoundOn PK.WF PK.γc op.toStep := by
  cases op with
  | stmt d fx vars f nb en r =>
    intro a s s' hw hg hr
    obtain ⟨b, hb, hgb⟩ := PK.stmt_sound fx hop.2.2 nb en hop.1 hop.2.1 hw hg hr
    simp only [hb, Option.getD_some]; exact hgb
  | add d cs =>
    intro a s s' hw hg hr
    obtain ⟨rfl, hsat⟩ := hr
    exact PK.addCsts_sound cs hop hw hg hsat
  | forget d xs => exact fun a s s' hw hg hr => PK.forgetAll_sound xs hw hg hr
  | join d a b g =>
    intro x y s hx hy hs
    show PK.γc ((PK.joinWith g x y).getD PK.top) s
    cases h : PK.joinWith g x y with
    | none => exact PK.γc_top s
    | some res => exact PK.joinWith_sound t hop hx hy h hs
  | meet d a b g =>
    intro x y s hx hy hsx hsy
    show PK.γc ((PK.meetWith g x y).getD PK.top) s
    cases h : PK.meetWith g x y with
    | none => exact PK.γc_top s
    | some res => exact PK.meetWith_sound hop hx hy h hsx hsy
  | copy d s => trivial
  | setTop d => exact fun a s s' _ _ _ => PK.γc_top s'
  | setBottom d => trivial

/-- every operation keeps the packs pairwise disjoint and non-empty -/
theorem C03.packing_step_wf {V : Type} [DecidableEq V] {N : NDom V} (op : PK.Op N) :
    Step.Preserves PK.WF op.toStep := by
  have htop : (PK.top : PK N).WF := ⟨List.Pairwise.nil, fun p hp => by simp at hp⟩
  cases op with
  | stmt d fx vars f nb en r =>
    intro a hw
    show PK.WF ((PK.stmt fx vars f nb en a).getD PK.top)
    cases h : PK.stmt fx vars f nb en a with
    | none => exact htop
    | some b => exact PK.stmt_wf fx vars f nb en hw b h
  | add d cs => exact fun a hw => PK.addCsts_wf cs hw
  | forget d xs => exact fun a hw => PK.forgetAll_wf xs hw
  | join d a b g =>
    intro x y hx hy
    show PK.WF ((PK.joinWith g x y).getD PK.top)
    cases h : PK.joinWith g x y with
    | none => exact htop
    | some res => exact PK.joinWith_wf hx hy h
  | meet d a b g =>
    intro x y hx hy
    show PK.WF ((PK.meetWith g x y).getD PK.top)
    cases h : PK.meetWith g x y with
    | none => exact htop
    | some res => exact PK.meetWith_wf hx hy h
  | copy d s => trivial
  | setTop d => exact fun _ _ => htop
  | setBottom d => trivial

/-- **History soundness of `numerical_packing_domain`** for every base numerical domain with a
    sound `is_top`, every pool of well-formed values, history length and interleaving of
    statements (with pack merging), `+=`, `forget`, `|`, `||`, `&`, `&&`, copies, `set_to_top`,
    `set_to_bottom`; for the cylindrical concretisation and hence for the plain intersection. -/
theorem C03.packing_history_sound {V : Type} [DecidableEq V] {N : NDom V} (t : N.TopSound) (ops : List (PK.Op N))
    (hops : ∀ op ∈ ops, op.BaseSound) (p : Pool (PK N)) (c : CPool (St V)) (hwf : ∀ i, (p i).WF)
    (h0 : ∀ i s, c i s → PK.γc (p i) s) :
    ∀ i s, collHist c (PK.toHist ops) i s →
      PK.γc (runHist p (PK.toHist ops) i) s ∧ PK.γ (runHist p (PK.toHist ops) i) s ∧
      (runHist p (PK.toHist ops) i).WF := by
  intro i s hc
  have h1 := history_sound_on PK.WF PK.γc (PK.toHist ops)
    (by intro st hst
        simp only [PK.toHist, List.mem_map] at hst
        obtain ⟨op, hop, rfl⟩ := hst
        exact C03.packing_step_sound t op (hops op hop))
    (by intro st hst
        simp only [PK.toHist, List.mem_map] at hst
        obtain ⟨op, _, rfl⟩ := hst
        exact C03.packing_step_wf op) p c hwf h0 i s hc
  refine ⟨h1, PK.γ_of_γc h1, ?_⟩
  apply runHist_preserves PK.WF _ _ p hwf
  intro st hst
  simp only [PK.toHist, List.mem_map] at hst
  obtain ⟨op, _, rfl⟩ := hst
  exact C03.packing_step_wf op

theorem C03.packing_not_bottom_on_reachable {V : Type} [DecidableEq V] {N : NDom V} (t : N.TopSound)
    (ops : List (PK.Op N)) (hops : ∀ op ∈ ops, op.BaseSound) (p : Pool (PK N)) (c : CPool (St V))
    (hwf : ∀ i, (p i).WF) (h0 : ∀ i s, c i s → PK.γc (p i) s) (i : Nat) (s : St V)
    (hc : collHist c (PK.toHist ops) i s) : PK.isBottom (runHist p (PK.toHist ops) i) = false := by
  cases hb : PK.isBottom (runHist p (PK.toHist ops) i)
  · rfl
  · exact absurd (C03.packing_history_sound t ops hops p c hwf h0 i s hc).1 (PK.not_γc_of_isBottom hb s)

/-! ### non-vacuity: packing over constants (three variables) -/
namespace C03PackingEx
open PK PackEx

/-- the partition and one value of a packing value, for `decide` -/
def shape (a : PK constDom) : Option (List (List V3)) :=
  match a with
  | .bot => none
  | .packs l => some (l.map (·.vars))

def valAt (a : PK constDom) (i : Nat) (v : V3) : Option Int :=
  match a with
  | .bot => none
  | .packs l => match l[i]? with
    | some p => (match p.val with | some m => m v | none => none)
    | none => none

def run (ops : List (Op constDom)) : Pool (PK constDom) := runHist (fun _ => PK.top) (toHist ops)

/-- the model computes: `v0 := 5; v1 := v0; v2 := 7` gives the packs `{v2}`, `{v0, v1}`;
    `forget(v0)` leaves `{v2}`, `{v1}` with `v1 = 5`; `assume v1 == 6` makes a pack bottom and
    with it the whole value (851b9a3), the copy taken before is untouched -/
example : shape (run [op1, op2, op3] 0) = some [[2], [0, 1]] ∧ valAt (run [op1, op2, op3] 0) 1 1 = some 5 ∧
    shape (run [op1, op2, op3, .forget 0 [0]] 0) = some [[2], [1]] ∧
    valAt (run [op1, op2, op3, .forget 0 [0]] 0) 1 1 = some 5 ∧
    isBottom (run [op1, op2, op3, .forget 0 [0], .copy 1 0, op4] 0) = true ∧
    isBottom (run [op1, op2, op3, .forget 0 [0], .copy 1 0, op4] 1) = false := by decide

/-- `|` aligns `{v2},{v0,v1}` with `{v2},{v1}`: common variables v1, v2, classes `{v1}`, `{v2}` -/
example : shape (run [op1, op2, op3, .copy 1 0, .forget 0 [0], .join 2 0 1 constDom.join] 2) = some [[1], [2]] ∧
    valAt (run [op1, op2, op3, .copy 1 0, .forget 0 [0], .join 2 0 1 constDom.join] 2) 0 1 = some 5 := by
  decide

/-- `&` of the same two values: the classes of the right operand are added on the left:
    `{v0, v1}`, `{v2}` with `v0 = 5` (the real code prints the same packs for P1..P4 of this
    scenario over split_dbm: `{x,y},{z}` / `{y},{z}` / join `{y},{z}` / meet `{x,y},{z}` / bottom) -/
example : shape (run [op1, op2, op3, .copy 1 0, .forget 0 [0], .meet 2 0 1 constDom.meet] 2) = some [[0, 1], [2]] ∧
    valAt (run [op1, op2, op3, .copy 1 0, .forget 0 [0], .meet 2 0 1 constDom.meet] 2) 0 0 = some 5 := by
  decide

/-- `packing_history_sound` applies: the run (0,0,0) ↦ (5,0,0) ↦ (5,5,0) ↦ (5,5,7) is in the result -/
example : PK.γ (run [op1, op2, op3] 0) (fun v => if v = 2 then 7 else 5) :=
  (C03.packing_history_sound constDom_topSound [op1, op2, op3]
    (fun op hop => ops_baseSound op (by
      simp only [List.mem_cons, List.mem_nil_iff, or_false] at hop ⊢
      rcases hop with h | h | h <;> simp [h]))
    (fun _ => PK.top) (fun _ s => s = fun _ => 0)
    (fun _ => ⟨List.Pairwise.nil, fun p hp => by simp at hp⟩)
    (fun _ s _ => PK.γc_top s) 0 _
    (by
      simp only [toHist, List.map, collHist, List.foldl, op1, op2, op3, Op.toStep, Step.coll, CPool.set, if_true]
      refine ⟨St.set (St.set (fun _ => 0) 0 5) 1 5, ⟨St.set (fun _ => 0) 0 5, ⟨fun _ => 0, rfl, rfl⟩, rfl⟩, ?_⟩
      funext v
      match v with
      | 0 => rfl
      | 1 => rfl
      | 2 => rfl)).2.1

end C03PackingEx
