import CrabProofs.Lemmas.WtoFixBridge
import CrabProofs.Props.C07

/-!
# C07 (bridge) — an ordering accepted by `checkWto` is well-formed for the fixpoint iterator

`Crab.Fix.WtoWF c w` (CrabModel/Fix/Semantics.lean) is the hypothesis of the iterator soundness
theorem `C01.run_sound`.  It holds for the translation `toCompL w` of every ordering accepted by
the checker, for every iterator context `c` whose predecessor lists only contain edges of the
graph, whose start block is the entry and whose nesting table is the checked one.
-/
open Crab Crab.Wto

theorem C07.wtowf_implies_fix_wtowf {A : Type} (g : Graph) (e : Nat) (w : List WtoC)
    (nest : Nat → Option (List Nat)) (h : WtoWF g e w nest) (c : Fix.Ctx A)
    (hpreds : ∀ p n, p ∈ c.preds n → n ∈ g.succ p) (hentry : c.entry = e)
    (hnest : c.nesting = nest) : Fix.WtoWF c (toCompL w) :=
  fix_wtowf_of_wtowf h c hpreds hentry hnest

theorem C07.checkWto_implies_fix_wtowf {A : Type} (g : Graph) (e : Nat) (w : List WtoC)
    (tbl : List (Nat × List Nat)) (h : checkWto g e w tbl = true) (c : Fix.Ctx A)
    (hpreds : ∀ p n, p ∈ c.preds n → n ∈ g.succ p) (hentry : c.entry = e)
    (hnest : c.nesting = fun v => tbl.lookup v) : Fix.WtoWF c (toCompL w) :=
  fix_wtowf_of_wtowf (checkWto_sound' h) c hpreds hentry hnest

/-- non-vacuity: the context read off the example graph of `C07.lean` with the model's ordering -/
example : checkWto
    { n := 3, succ := fun u => match u with | 0 => [1] | 1 => [1, 2] | _ => [] } 0
    [.vertex 0, .cycle 1 [], .vertex 2] [(0, []), (1, []), (2, [])] = true := by decide

/-- with `C07.build_wf`: the ordering the model builds is well-formed for the fixpoint iterator,
    for every graph, with no check left -/
theorem C07.build_fix_wtowf {A : Type} (g : Graph) (hg : g.WF) (e : Nat) (he : e < g.n) (c : Fix.Ctx A)
    (hpreds : ∀ p n, p ∈ c.preds n → n ∈ g.succ p) (hentry : c.entry = e)
    (hnest : c.nesting = nesting (build g e)) : Fix.WtoWF c (toCompL (build g e)) :=
  fix_wtowf_of_wtowf (C07.build_wf g hg e he) c hpreds hentry hnest
