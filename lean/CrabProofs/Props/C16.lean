import CrabModel.Dom.History

/-!
# C16 — abstract values have value semantics and a representation-independent meaning

Reference semantics the implementation is compared with: in the functional model of a pool of
values an operation writes exactly one slot; every other slot — in particular every earlier
copy of the written value — is untouched, after any history.
-/
open Crab Crab.Dom

def C16.target {A S : Type} : Step A S → Nat
  | .trans d _ => d | .upper d _ _ _ => d | .lower d _ _ _ => d | .copy d _ => d | .setBot d _ => d

/-- one step leaves every other slot unchanged -/
theorem C16.step_frame {A S : Type} (st : Step A S) (p : Pool A) (i : Nat) (h : i ≠ C16.target st) :
    (st.run p) i = p i := by
  cases st <;> simp_all [Step.run, Pool.set, C16.target]

/-- after copying slot `s` into `d`, any history that never writes `d` leaves the copy equal to
    the value `s` had at the time of the copy, whatever happens to `s` afterwards -/
theorem C16.copy_independent {A S : Type} (p : Pool A) (d s : Nat) (hist : List (Step A S))
    (hd : ∀ st ∈ hist, C16.target st ≠ d) :
    (runHist ((Step.copy d s : Step A S).run p) hist) d = p s := by
  have key : ∀ (q : Pool A), (∀ st ∈ hist, C16.target st ≠ d) → (runHist q hist) d = q d := by
    induction hist with
    | nil => intro q _; rfl
    | cons st rest ih =>
      intro q hq
      simp only [runHist, List.foldl_cons]
      have := ih (fun x hx => hd x (List.mem_cons_of_mem _ hx)) (st.run q)
        (fun x hx => hq x (List.mem_cons_of_mem _ hx))
      simp only [runHist] at this
      rw [this]
      exact C16.step_frame st q d (fun h => hq st List.mem_cons_self h.symm)
  rw [key _ hd]
  simp [Step.run, Pool.set]

/-- queries and normalisation are transformers with the identity relation: a transformer whose
    abstract function preserves the concretisation does not change what the value describes -/
theorem C16.normalize_preserves_meaning {A S : Type} (γ : A → S → Prop) (norm : A → A)
    (h : ∀ a s, γ (norm a) s ↔ γ a s) (p : Pool A) (d : Nat) (s : S) :
    γ (((Step.trans d ⟨norm, fun x y => y = x⟩ : Step A S).run p) d) s ↔ γ (p d) s := by
  simp [Step.run, Pool.set, h]
