import CrabProofs.Lemmas.TIRCrawlerExec

/-!
# C18 (second half) — the assertion crawler over-approximates the real dependences

Model: `CrabModel/Transform/Crawler.lean` — transcription of `assertion_crawler`
(`xferStmt`, `xferFrom`, `crawl`, `stmtFacts`; control-dependence graph and block order are
inputs), the data-dependence inequations `isDataSol`, the concrete semantics with observations
(`runWith`) and the specification by paired executions (`RelevantData`, `RelevantCtrl`).

Proved (all inputs, no size bound):
* `C18.crawler_stmt_sound`, `C18.crawler_straightline_sound`, `C18.crawler_straightline_independent`:
  the data part of the transfer function (`dataStep` = `add_data_deps` / `remove_deps`) on one
  statement and on straight-line code: if `x` is not in the set propagated backwards from the
  variables of a condition, the value of the condition after the code does not depend on `x`.
* `C18.crawler_block_transfer_sound`: the same for `analyze` of the MODEL of the code
  (`xferFrom`, both variants, any control-dependence graph): what it answers for an assertion of
  the block is enough to determine the outcome of the assertion.
* `C18.crawler_data_sound`, `C18.crawler_data_independent`: across blocks.  For ANY answer `F`
  that passes the decidable test `isDataSol` (the driver runs it on the implementation's answer
  for every program, in both modes), along ANY path of the CFG from the entry of a block `l0` to
  an assertion `A`: if `x` is not in `F l0 A`, then the value of `A`'s condition at `A` does not
  depend on the value of `x` at the entry of `l0` (same havoc values; outcomes of the `assume`s
  and of the other assertions on the way are irrelevant).
* `C18.crawler_transfer_flow`, `C18.crawler_transfer_gen`: the block transfer of the model
  satisfies the two inequations of `isDataSol` (flow through a block, generation at an assert).
* `C18.crawler_model_isDataSol`, `C18.crawler_model_data_independent`: the fixpoint computed by
  the model of the code (`crawl`: round robin of `run_bwd_fixpo` with "assertions are generated
  at their first visit only", both variants, data-only or with any control-dependence graph, any
  block order covering the blocks) IS a solution of `isDataSol`; so the path statement holds
  for the model's answers unconditionally.
* `C18.crawler_data_not_relevant`, `C18.crawler_model_data_not_relevant`: the same at the level of
  the SPECIFICATION (`RelevantData`: paired executions of the concrete semantics, second run
  forced along the path of the first): an unlisted variable is never relevant through data
  dependences, for any answer that passes `isDataSol` and for the model's answers.
Control dependences: the full statement `C18.crawler_ctrl_sound_Statement` is FALSE for the tree as
it is (`C18.crawler_ctrl_counterexample`, `C18.crawler_ctrl_self_loop_counterexample`,
`C18.crawler_ctrl_sink_counterexample`); what holds is the same-path statement above.  The
per-statement answers of the tree as it is are not even data-sound
(`C18.crawler_stmt_answers_counterexample`).
-/
open Crab Crab.TIR

/-- one statement (`add_data_deps`, `remove_deps`): states that agree on the set propagated
    backwards have successor states that agree on the set -/
theorem C18.crawler_stmt_sound (s : Stmt) (D : VarSet) (σ σ' τ τ' : State) (hv : Int)
    (hag : agreeOn (dataStep s D) σ σ') (h1 : s.effect σ hv = some τ) (h2 : s.effect σ' hv = some τ') :
    agreeOn D τ τ' :=
  dataStep_sound s D σ σ' τ τ' hv hag h1 h2

/-- straight-line code -/
theorem C18.crawler_straightline_sound (ss : List Stmt) (D : VarSet) (hv : Nat → Int) (i : Nat)
    (σ σ' τ τ' : State) (hag : agreeOn (bwdData ss D) σ σ')
    (h1 : effects hv i ss σ = some τ) (h2 : effects hv i ss σ' = some τ') : agreeOn D τ τ' :=
  bwdData_sound hv ss i D σ σ' τ τ' hag h1 h2

/-- straight-line code followed by `assert c`: a variable that is not in the propagated set
    cannot change the outcome of the assertion -/
theorem C18.crawler_straightline_independent (ss : List Stmt) (c : Cst) (x : Var)
    (hx : x ∉ bwdData ss c.vars) (σ : State) (v : Int) (hv : Nat → Int) (i : Nat) (τ τ' : State)
    (h1 : effects hv i ss σ = some τ) (h2 : effects hv i ss (σ.set x v) = some τ') :
    c.holds τ = c.holds τ' :=
  Cst.holds_congr c τ τ' (bwdData_sound hv ss i c.vars σ (σ.set x v) τ τ' (agreeOn_set hx σ v) h1 h2)

/-! ### the block transfer of the model -/

/-- flow inequation: whatever `analyze` (the model `xferFrom`, any variant, any graph) is given
    for an assertion, its answer contains the data propagation of it -/
theorem C18.crawler_transfer_flow (v : CrawlVariant) (g : Cdg) (preds : List Label) (l : Label)
    (ss : List Stmt) (k : Nat) (X : XState) (hX : X.regInv) (a : AId) :
    VarSet.subset (bwdData ss (X.facts.get a)) ((xferFrom v g preds l k ss X).facts.get a) = true :=
  VarSet.subset_iff.mpr (xferFrom_bwdData v g preds l ss k X hX a)

/-- generation inequation: statement `j` of the block is `assert c`, visited for the first time
    (or the repaired `process_assertion`): the answer for it contains the variables of the
    condition propagated back through the statements in front of it -/
theorem C18.crawler_transfer_gen (v : CrawlVariant) (g : Cdg) (preds : List Label) (l : Label)
    (ss : List Stmt) (k : Nat) (X : XState) (j : Nat) (c : Cst) (hX : X.regInv)
    (hreg : (l, k + j) ∉ X.reg ∨ v.stmtFromOut = true) (hj : ss[j]? = some (.assert c)) :
    VarSet.subset (bwdData (ss.take j) c.vars) ((xferFrom v g preds l k ss X).facts.get (l, k + j)) = true :=
  xferFrom_gen v g preds l ss k X j c hX hreg hj

/-- `analyze` of the model on ONE block, started from nothing: if `x` is not in the answer for
    the assertion at index `j`, the outcome of that assertion does not depend on `x` -/
theorem C18.crawler_block_transfer_sound (v : CrawlVariant) (g : Cdg) (preds : List Label) (l : Label)
    (ss : List Stmt) (j : Nat) (c : Cst) (hj : ss[j]? = some (.assert c)) (x : Var)
    (hx : x ∉ (xferFrom v g preds l 0 ss ⟨[], []⟩).facts.get (l, j))
    (σ : State) (w : Int) (hv : Nat → Int) (i : Nat) (τ τ' : State)
    (h1 : effects hv i (ss.take j) σ = some τ) (h2 : effects hv i (ss.take j) (σ.set x w) = some τ') :
    c.holds τ = c.holds τ' := by
  have hX : (⟨[], []⟩ : XState).regInv := by intro b hb; simp [Facts.has, List.lookup] at hb
  have hsub := VarSet.subset_iff.mp
    (xferFrom_gen v g preds l ss 0 ⟨[], []⟩ j c hX (Or.inl (by simp)) hj)
  simp only [Nat.zero_add] at hsub
  exact C18.crawler_straightline_independent (ss.take j) c x (fun h => hx (hsub x h)) σ w hv i τ τ' h1 h2

/-! ### across blocks: every solution of the data-dependence inequations -/

/-- ACROSS BLOCKS.  `F` = any answer (facts at block entries) that passes `isDataSol`;
    `l0 :: π` = any path of the CFG that ends in the block of the assertion `(lA, k)` with
    condition `c`.  States that agree on `F l0 (lA, k)` at the entry of `l0` give the condition
    the same value when the assertion is reached along the path (same havoc values). -/
theorem C18.crawler_data_sound (P : Prog) (F : Label → Facts) (hsol : isDataSol P F = true)
    (l0 : Label) (π : List Label) (lA : Label) (k : Nat) (c : Cst)
    (hpath : isPath P (l0 :: π) = true) (hlast : (l0 :: π).getLast? = some lA)
    (hA : (P.stmtsOf lA)[k]? = some (.assert c))
    (hv : Nat → Int) (σ σ' τ τ' : State) (hag : agreeOn ((F l0).get (lA, k)) σ σ')
    (h1 : effects hv 0 (pathStmts P (l0 :: π) k) σ = some τ)
    (h2 : effects hv 0 (pathStmts P (l0 :: π) k) σ' = some τ') : c.holds τ = c.holds τ' :=
  crawler_path P F hsol (lA, k) c (mem_asserts hA) hv π l0 hpath hlast 0 σ σ' τ τ' hag h1 h2

/-- the property in its own words: if the answer does NOT list `x` for the assertion at the
    entry of `l0`, changing `x` there never changes the value of the assertion's condition along
    any fixed path -/
theorem C18.crawler_data_independent (P : Prog) (F : Label → Facts) (hsol : isDataSol P F = true)
    (l0 : Label) (π : List Label) (lA : Label) (k : Nat) (c : Cst)
    (hpath : isPath P (l0 :: π) = true) (hlast : (l0 :: π).getLast? = some lA)
    (hA : (P.stmtsOf lA)[k]? = some (.assert c))
    (x : Var) (hx : x ∉ (F l0).get (lA, k))
    (hv : Nat → Int) (σ : State) (w : Int) (τ τ' : State)
    (h1 : effects hv 0 (pathStmts P (l0 :: π) k) σ = some τ)
    (h2 : effects hv 0 (pathStmts P (l0 :: π) k) (σ.set x w) = some τ') : c.holds τ = c.holds τ' :=
  C18.crawler_data_sound P F hsol l0 π lA k c hpath hlast hA hv σ (σ.set x w) τ τ' (agreeOn_set hx σ w) h1 h2

/-- THE MODEL OF THE CODE: the fixpoint computed by `crawl` (round robin of `run_bwd_fixpo`;
    tree as it is or repaired; data-only `g = []` or any control-dependence graph; any block
    order that covers the blocks) satisfies the data-dependence inequations -/
theorem C18.crawler_model_isDataSol (v : CrawlVariant) (P : Prog) (g : Cdg) (order : List Label) (M : InMap)
    (hwf : P.wf = true) (hord : ∀ l, l ∈ P.labels → l ∈ order) (h : crawl v P g order = some M) :
    isDataSol P M.get = true :=
  crawl_isDataSol v P g order M (WFp.of_wf hwf).nodup hord h

/-- hence, for the model of the code in both modes: a variable that is not listed for an
    assertion at the entry of a block cannot change the value of the assertion's condition
    along any fixed path from there -/
theorem C18.crawler_model_data_independent (v : CrawlVariant) (P : Prog) (g : Cdg) (order : List Label)
    (M : InMap) (hwf : P.wf = true) (hord : ∀ l, l ∈ P.labels → l ∈ order) (h : crawl v P g order = some M)
    (l0 : Label) (π : List Label) (lA : Label) (k : Nat) (c : Cst)
    (hpath : isPath P (l0 :: π) = true) (hlast : (l0 :: π).getLast? = some lA)
    (hA : (P.stmtsOf lA)[k]? = some (.assert c))
    (x : Var) (hx : x ∉ (M.get l0).get (lA, k))
    (hv : Nat → Int) (σ : State) (w : Int) (τ τ' : State)
    (h1 : effects hv 0 (pathStmts P (l0 :: π) k) σ = some τ)
    (h2 : effects hv 0 (pathStmts P (l0 :: π) k) (σ.set x w) = some τ') : c.holds τ = c.holds τ' :=
  C18.crawler_data_independent P M.get (C18.crawler_model_isDataSol v P g order M hwf hord h)
    l0 π lA k c hpath hlast hA x hx hv σ w τ τ' h1 h2

/-- SPECIFICATION LEVEL (paired executions of `runWith`, real semantics: false `assume`s and
    failed assertions stop the runs).  For any answer that passes `isDataSol`: a variable that is
    not listed for assertion `(lA, k)` at the entry of block `l` is not relevant there through
    data dependences, i.e. no two executions from states that differ only in that variable, the
    second following the path of the first, with the same havoc values, ever give the assertion
    different outcomes at the same position.  This is exactly the judgement of the driver's
    (R) check in the data-only mode: with (S) it can never fire. -/
theorem C18.crawler_data_not_relevant (P : Prog) (F : Label → Facts) (hsol : isDataSol P F = true)
    (lA : Label) (k : Nat) (c : Cst) (hA : (P.stmtsOf lA)[k]? = some (.assert c))
    (l : Label) (x : Var) (hx : x ∉ (F l).get (lA, k)) : ¬ RelevantData P (lA, k) l 0 x :=
  not_relevantData P F hsol (lA, k) c (mem_asserts hA) l x hx

/-- the same for the answers of the model of the code (both variants, data-only or with any
    control-dependence graph) -/
theorem C18.crawler_model_data_not_relevant (v : CrawlVariant) (P : Prog) (g : Cdg) (order : List Label)
    (M : InMap) (hwf : P.wf = true) (hord : ∀ l, l ∈ P.labels → l ∈ order) (h : crawl v P g order = some M)
    (lA : Label) (k : Nat) (c : Cst) (hA : (P.stmtsOf lA)[k]? = some (.assert c))
    (l : Label) (x : Var) (hx : x ∉ (M.get l).get (lA, k)) : ¬ RelevantData P (lA, k) l 0 x :=
  C18.crawler_data_not_relevant P M.get (C18.crawler_model_isDataSol v P g order M hwf hord h) lA k c hA l x hx

/-- real executions are covered: a statement that continues has the state effect used above -/
theorem C18.crawler_effect_of_step (s : Stmt) (σ σ' : State) (hv : Int) (ev : Option Event)
    (h : stepStmt s σ hv = .cont σ' ev) : s.effect σ hv = some σ' :=
  effect_of_step h

/-! ### control dependences: the tree as it is -/

/-- FULL statement for version `v` of the code, with the control-dependence graph of the
    definition (Ferrante-Ottenstein-Warren), on CFGs all of whose blocks reach the exit: a
    variable that the data+control answer does not list for an assertion at the entry of a block
    is not relevant there (paired executions under one scheduler, `RelevantCtrl`) -/
def C18.crawler_ctrl_sound_Statement (v : CrawlVariant) : Prop :=
  ∀ (P : Prog) (x : Label) (order : List Label) (M : InMap),
    P.wf = true → P.exit = some x → (∀ l, l ∈ P.labels → l ∈ P.coReachable x) →
    (∀ l, l ∈ P.labels → l ∈ order) → crawl v P (P.cdgSpec x) order = some M →
    ∀ (a : AId) (l : Label) (y : Var), l ∈ P.labels → y ∉ (M.get l).get a → ¬ RelevantCtrl P a l 0 y

/-- `if (v0 <= 0) v1 := 0 else v1 := 1;  assert(v1 <= 0)` -/
def C18.progCtrlDef : Prog :=
  { nvars := 2, entry := 0, exit := some 3, hasFd := false, ins := [], outs := [],
    blocks := [⟨0, [], [1, 2], []⟩,
               ⟨1, [.assume ⟨.le, ⟨0, [(1, 0)]⟩⟩, .assign 1 ⟨0, []⟩], [3], [0]⟩,
               ⟨2, [.assume ⟨.le, ⟨1, [(-1, 0)]⟩⟩, .assign 1 ⟨1, []⟩], [3], [0]⟩,
               ⟨3, [.assert ⟨.le, ⟨0, [(1, 1)]⟩⟩], [], [1, 2]⟩] }

/-- what the model of the tree as it is answers on `progCtrlDef` (the implementation answers the
    same: corpus/h_crawl/defects.ops line 1): nothing is listed for the assertion at `b0` -/
theorem C18.crawler_ctrl_answer_progCtrlDef :
    C18.progCtrlDef.cdgSpec 3 = [(0, [1, 2])] ∧
    (crawl CrawlVariant.cur C18.progCtrlDef [(0, [1, 2])] [3, 1, 2, 0]).map (fun M => (M.get 0).get (3, 0))
      = some [] := by
  decide

/-- ... but `v0` is relevant there: with `v0 = 0` the assertion holds, with `v0 = 1` it fails -/
theorem C18.crawler_ctrl_relevant_progCtrlDef : RelevantCtrl C18.progCtrlDef (3, 0) 0 0 0 :=
  ⟨fun _ => 0, 1, fun _ _ => 0, fun _ _ _ => 0, 6, by decide⟩

theorem C18.crawler_ctrl_counterexample : ¬ C18.crawler_ctrl_sound_Statement CrawlVariant.cur := by
  intro hS
  have hans := C18.crawler_ctrl_answer_progCtrlDef
  cases hc : crawl CrawlVariant.cur C18.progCtrlDef [(0, [1, 2])] [3, 1, 2, 0] with
  | none => rw [hc] at hans; simp at hans
  | some M =>
    have h2 := hans.2
    rw [hc] at h2
    simp only [Option.map_some, Option.some.injEq] at h2
    have := hS C18.progCtrlDef 3 [3, 1, 2, 0] M (by decide) rfl (by decide) (by decide)
      (by rw [hans.1]; exact hc) (3, 0) 0 0 (by decide) (by rw [h2]; simp)
    exact this C18.crawler_ctrl_relevant_progCtrlDef

/-- the repaired `add_control_deps` (`CrawlVariant.fixed`) lists `v0` on this program -/
example :
    (crawl CrawlVariant.fixed C18.progCtrlDef [(0, [1, 2])] [3, 1, 2, 0]).map (fun M => (M.get 0).get (3, 0))
      = some [0, 0] := by
  decide

/-- the assertion sits in the loop header:  `b1: assert(v1 <= 0); if (v0 <= 0) { v0++; goto b1 }` -/
def C18.progLoopHeader : Prog :=
  { nvars := 2, entry := 0, exit := some 3, hasFd := false, ins := [], outs := [],
    blocks := [⟨0, [], [1], []⟩,
               ⟨1, [.assert ⟨.le, ⟨0, [(1, 1)]⟩⟩], [2, 3], [0, 2]⟩,
               ⟨2, [.assume ⟨.le, ⟨0, [(1, 0)]⟩⟩, .bin .add 0 (.var 0) (.const 1)], [1], [1]⟩,
               ⟨3, [.assume ⟨.le, ⟨1, [(-1, 0)]⟩⟩], [], [1]⟩] }

/-- by the definition the loop header `b1` is control dependent on itself; the graph computed by
    `graph_algo::control_dep_graph` is `[(1, [2])]` (corpus/h_crawl/defects.ops line 2): the walk
    in `dominance` stops at `runner == n`.  With that graph `v0` is not listed for the assertion,
    with the graph of the definition it is; and `v0` is relevant: it decides how often the
    assertion is executed. -/
theorem C18.crawler_ctrl_self_loop_counterexample :
    C18.progLoopHeader.cdgSpec 3 = [(1, [1, 2])] ∧
    (crawl CrawlVariant.cur C18.progLoopHeader [(1, [2])] [3, 2, 1, 0]).map (fun M => (M.get 0).get (1, 0))
      = some [1] ∧
    (crawl CrawlVariant.cur C18.progLoopHeader [(1, [1, 2])] [3, 2, 1, 0]).map
      (fun M => ((M.get 0).get (1, 0)).contains 0) = some true ∧
    RelevantCtrl C18.progLoopHeader (1, 0) 0 0 0 :=
  ⟨by decide, by decide, by decide,
   ⟨fun y => if y = 0 then 1 else 0, 0, fun _ _ => 0, fun _ _ _ => 0, 8, by decide⟩⟩

/-- `if (v0 <= 0) stop;  else assert(v1 <= 0)`  with a sink that is not the exit block -/
def C18.progSink : Prog :=
  { nvars := 2, entry := 0, exit := some 2, hasFd := false, ins := [], outs := [],
    blocks := [⟨0, [], [1, 2], []⟩,
               ⟨1, [.assume ⟨.le, ⟨0, [(1, 0)]⟩⟩], [], [0]⟩,
               ⟨2, [.assume ⟨.le, ⟨1, [(-1, 0)]⟩⟩, .assert ⟨.le, ⟨0, [(1, 1)]⟩⟩], [], [0]⟩] }

/-- the implementation's graph is `[(0, [1])]` (post-dominance only sees the blocks that reach the
    exit; corpus/h_crawl/defects.ops line 3): `v0` is not listed although it decides whether the
    assertion is executed -/
theorem C18.crawler_ctrl_sink_counterexample :
    (crawl CrawlVariant.cur C18.progSink [(0, [1])] [1, 2, 0]).map (fun M => (M.get 0).get (2, 1))
      = some [1] ∧
    RelevantCtrl C18.progSink (2, 1) 0 0 0 :=
  ⟨by decide, ⟨fun _ => 1, 0, fun _ _ => 0, fun _ _ _ => 0, 6, by decide⟩⟩

/-- `b0: v0 := v1; assert(v0 <= 0)` -/
def C18.progStmt : Prog :=
  { nvars := 2, entry := 0, exit := some 0, hasFd := false, ins := [], outs := [],
    blocks := [⟨0, [.assign 0 ⟨0, [(1, 1)]⟩, .assert ⟨.le, ⟨0, [(1, 0)]⟩⟩], [], []⟩] }

/-- the per-statement answers of the tree as it is (`get_results(b, map)` starts from the facts
    at the ENTRY of the block and skips known assertions): in front of the assertion `{v1}` is
    answered (corpus/h_crawl/defects.ops line 4), `v0` is relevant there even on a fixed path;
    the repaired code answers `{v0}` -/
theorem C18.crawler_stmt_answers_counterexample :
    (crawl CrawlVariant.cur C18.progStmt [] [0]).map
      (fun M => ((stmtFacts CrawlVariant.cur C18.progStmt [] 0 M.get).lookup 1).map (fun F => F.get (0, 1)))
      = some (some [1]) ∧
    RelevantData C18.progStmt (0, 1) 0 1 0 ∧
    (crawl CrawlVariant.fixed C18.progStmt [] [0]).map
      (fun M => ((stmtFacts CrawlVariant.fixed C18.progStmt [] 0 M.get).lookup 1).map (fun F => F.get (0, 1)))
      = some (some [0]) :=
  ⟨by decide, ⟨fun _ => 0, 1, fun _ _ => 0, fun _ _ _ => 0, 3, by decide⟩, by decide⟩

/-- non-vacuity of `C18.crawler_data_sound`: the answers of the model on `progCtrlDef` pass
    `isDataSol`, and the path b0 b1 b3 satisfies the hypotheses -/
example :
    (crawl CrawlVariant.cur C18.progCtrlDef [(0, [1, 2])] [3, 1, 2, 0]).map (fun M => isDataSol C18.progCtrlDef M.get)
      = some true ∧
    isPath C18.progCtrlDef [0, 1, 3] = true ∧ [0, 1, 3].getLast? = some 3 ∧
    (C18.progCtrlDef.stmtsOf 3)[0]? = some (.assert ⟨.le, ⟨0, [(1, 1)]⟩⟩) := by
  decide
