import CrabProofs.Props.C11
import CrabProofs.Lemmas.BwdInstItv
import CrabProofs.Lemmas.BwdInstXDom
import CrabProofs.Lemmas.BwdInstRel

/-!
# C11 instantiated on the exact domain models

`Props/C11.lean` proves the necessary-precondition analysis sound for EVERY domain record that
satisfies the per-operation contract `BDomSound`.  Here the contract is DISCHARGED for the exact
executable models of the shipped domains, and the generic theorems are instantiated:

| instance | record | `backward_assign` / `backward_apply` modelled | real code |
|---|---|---|---|
| intervals | `ItvB.dom` over `IDom.SEnv` | `BackwardAssignOps` over the model's own `+=`, `-=`, `apply`, `rename`, `&` | `interval_domain::backward_assign/backward_apply` (intervals.hpp) → `BackwardAssignOps<interval_domain_t>::assign/apply` (backward_assign_operations.hpp, incl. the `OP_SDIV` branch of commit ac800bc) |
| constants | `constDom` over `CDom.SEnv` | `-= x`, `& inv` | `constant_domain::backward_assign/backward_apply` (commit ced0dcf) |
| signs | `signDom` over `SDom.SEnv` | `-= x`, `& inv` | `sign_domain::backward_assign/backward_apply` (commit ced0dcf) |
| congruences | `withGenBwd congFwd rename bound` | `BackwardAssignOps`, CONDITIONAL on the contracts of `rename` / fresh variable | `congruence_domain::backward_assign/backward_apply` |
| zones | `RB.dom (zoneLang n)` over `Zones.ZVal n` | `BackwardAssignOps` recipe over the CANONICAL model (not split_dbm's operations) | — (recipe of `split_dbm_domain::backward_*`) |
| octagons | `RB.dom (octLang n)` over `Octagon.OVal n` | same, canonical octagon model | — (recipe of `split_oct_domain::backward_*`) |

For each: `*_backward_assign_sound`, `*_backward_apply_sound` (every `BinOp`, variable or constant
operand), `*_bwd_stmt_sound`, `*_bwd_stmt_fail_sound`, `*_bwd_block_sound`, `*_bwd_run_sound`,
`*_bwd_precondition_sound`, `*_empty_entry_precondition_safe`; then computed non-trivial
preconditions (`C11.Ex.*`): `x := y + 1; assert(x <= 5)` backward from the error gives exactly
`y >= 5` on intervals and zones, `x := y / 2; assert(x <= 3)` gives `y >= 7`.
-/
open Crab Crab.Bwd Crab.Fix

/-! ### the generic theorems with the `Setup` unfolded -/

/-- the analysis problem of a domain record that satisfies the contract -/
def C11.mkSetup {A : Type} (D : BDom A) (γ : A → State → Prop) (hD : BDomSound D γ) (p : Prog)
    (good : Bool) (invAbs : Nat → A) (fin : A) (nesting : Nat → Option (List Nat))
    (delay descending : Nat) : Setup A :=
  { D := D, γ := γ, sound := hD, p := p, good := good, invAbs := invAbs, fin := fin,
    nesting := nesting, delay := delay, descending := descending }

/-- `C11.bwd_run_sound` stated on the fixpoint problem `bwdCtx D p ...` itself -/
theorem C11.inst_bwd_run_sound {A : Type} (D : BDom A) (γ : A → State → Prop) (hD : BDomSound D γ)
    (p : Prog) (good : Bool) (invAbs : Nat → A) (fin : A) (nesting : Nat → Option (List Nat))
    (delay descending : Nat) (w : List Comp) (fuel : Nat) (st : St A)
    (hw : WtoWF (bwdCtx D p good invAbs fin nesting delay descending) w)
    (hrun : run (bwdCtx D p good invAbs fin nesting delay descending) fuel w = some st)
    (n : Nat) (σ : State) (hn : ReachesExit p n)
    (h : CoReach p (fun m τ => γ (invAbs m) τ) (!good) (γ fin) n σ) : γ (st.post n) σ :=
  C11.bwd_run_sound (C11.mkSetup D γ hD p good invAbs fin nesting delay descending) w fuel st hw hrun
    n σ hn h

/-- `C11.bwd_precondition_sound` stated on `bwdCtx D p ...` -/
theorem C11.inst_bwd_precondition_sound {A : Type} (D : BDom A) (γ : A → State → Prop)
    (hD : BDomSound D γ) (p : Prog) (good : Bool) (invAbs : Nat → A) (fin : A)
    (nesting : Nat → Option (List Nat)) (delay descending : Nat) (w : List Comp) (fuel : Nat)
    (st : St A) (hw : WtoWF (bwdCtx D p good invAbs fin nesting delay descending) w)
    (hrun : run (bwdCtx D p good invAbs fin nesting delay descending) fuel w = some st)
    (n : Nat) (σ : State)
    (h : CoReach p (fun m τ => γ (invAbs m) τ) (!good) (γ fin) n σ) : γ (preAt D p st.post n) σ :=
  C11.bwd_precondition_sound (C11.mkSetup D γ hD p good invAbs fin nesting delay descending) w fuel st
    hw hrun n σ h

/-- `C11.empty_entry_precondition_safe` stated on `bwdCtx D p ...` -/
theorem C11.inst_empty_entry_precondition_safe {A : Type} (D : BDom A) (γ : A → State → Prop)
    (hD : BDomSound D γ) (p : Prog) (good : Bool) (invAbs : Nat → A) (fin : A)
    (nesting : Nat → Option (List Nat)) (delay descending : Nat) (w : List Comp) (fuel : Nat)
    (st : St A) (hw : WtoWF (bwdCtx D p good invAbs fin nesting delay descending) w)
    (hrun : run (bwdCtx D p good invAbs fin nesting delay descending) fuel w = some st)
    (hbot : D.isBottom (preAt D p st.post p.entry) = true) (σ : State) :
    ¬ CoReach p (fun m τ => γ (invAbs m) τ) (!good) (γ fin) p.entry σ :=
  C11.empty_entry_precondition_safe (C11.mkSetup D γ hD p good invAbs fin nesting delay descending)
    w fuel st hw hrun hbot σ

/-! ### `interval_domain` -/

/-- what the two backward operations of the interval record are: `BackwardAssignOps` over the
    forward operations of the exact model, with a fresh index above the statement and above
    every variable bound in `post` -/
theorem C11.idom_backward_ops_eq (x y : Var) (e : Lin) (op : BinOp) (z : Operand)
    (post inv : IDom.SEnv) :
    ItvB.dom.bwdAssign x e post inv =
      genBwdAssign ItvB.fwd ItvB.rename (freshFor (ItvB.bound post) (x :: e.vars)) x e post inv ∧
    ItvB.dom.bwdApply op x y z post inv =
      genBwdApply ItvB.fwd ItvB.rename (freshFor (ItvB.bound post) (x :: y :: z.vars)) op x y z post inv :=
  ⟨rfl, rfl⟩

/-- the forward fields are single calls of the exact model `IDom.Env` -/
theorem C11.idom_forward_ops_eq (x y w : Var) (k : Int) (e e1 e2 : Lin) (c : Bwd.Cst) (op : BinOp)
    (a b : IDom.SEnv) :
    (ItvB.dom.assume c a).1 = a.1.add [c.toLin] ∧
    (ItvB.dom.forget x a).1 = a.1.forget x ∧
    (ItvB.dom.assign x e a).1 = a.1.assign x e.toExpr ∧
    (ItvB.dom.apply op x y (.var w) a).1 = a.1.applyVar (itvOp op) x y w ∧
    (ItvB.dom.apply op x y (.const k) a).1 = a.1.applyCst (itvOp op) x y k ∧
    (ItvB.dom.select x c e1 e2 a).1 = a.1.select x c.toLin e1.toExpr e2.toExpr ∧
    (ItvB.dom.meet a b).1 = IDom.Env.meet a.1 b.1 ∧
    (ItvB.dom.join a b).1 = IDom.Env.join a.1 b.1 ∧
    (ItvB.rename y x a).1 = ItvB.rename1 a.1 y x ∧
    a.1.rename [y] [x] = some (ItvB.rename1 a.1 y x) :=
  ⟨rfl, rfl, rfl, rfl, rfl, rfl, rfl, rfl, rfl, ItvB.rename1_eq a.1 y x⟩

/-- the interval domain satisfies the whole per-operation contract of C11 -/
theorem C11.idom_contract : BDomSound ItvB.dom IDom.SEnv.γ := ItvB.dom_sound

/-- `interval_domain::backward_assign`: a state of the forward invariant whose successor by
    `x := e` is in `post` is in the result -/
theorem C11.idom_backward_assign_sound (x : Var) (e : Lin) (post inv : IDom.SEnv) (σ : State)
    (hinv : IDom.SEnv.γ inv σ) (hpost : IDom.SEnv.γ post (Bwd.upd σ x (e.eval σ))) :
    IDom.SEnv.γ (ItvB.dom.bwdAssign x e post inv) σ :=
  ItvB.dom_sound.bwdAssign_sound x e post inv σ hinv hpost

/-- the same for ANY fresh variable (not `x`, not in `e`, unconstrained by `post`): the choice of
    `vfac.get()` does not matter for soundness -/
theorem C11.idom_backward_assign_sound_any_fresh (fresh x : Var) (e : Lin) (post inv : IDom.SEnv)
    (σ : State) (hfx : fresh ≠ x) (hfe : fresh ∉ e.vars)
    (hfp : ∀ τ v, IDom.SEnv.γ post τ → IDom.SEnv.γ post (Bwd.upd τ fresh v))
    (hinv : IDom.SEnv.γ inv σ) (hpost : IDom.SEnv.γ post (Bwd.upd σ x (e.eval σ))) :
    IDom.SEnv.γ (genBwdAssign ItvB.fwd ItvB.rename fresh x e post inv) σ :=
  genBwdAssign_sound' ItvB.fwd_sound ItvB.rename ItvB.rename_after_forget fresh x e post inv σ
    hfx hfe hfp hinv hpost

/-- `interval_domain::backward_apply`, every arithmetic operation of a `bin_op` statement
    (`+`, `-`, `*`, `/`), variable or constant right operand; in particular the division by a
    constant as repaired by commit ac800bc -/
theorem C11.idom_backward_apply_sound (op : BinOp) (x y : Var) (z : Operand) (post inv : IDom.SEnv)
    (σ : State) (v : Int) (hinv : IDom.SEnv.γ inv σ)
    (hv : binSem op (σ y) (z.eval σ) = some v) (hpost : IDom.SEnv.γ post (Bwd.upd σ x v)) :
    IDom.SEnv.γ (ItvB.dom.bwdApply op x y z post inv) σ :=
  ItvB.dom_sound.bwdApply_sound op x y z post inv σ v hinv hv hpost

/-- division by a constant, spelled out: every `y` with `y / k` in the postcondition of `x` -/
theorem C11.idom_backward_sdiv_const_sound (x y : Var) (k : Int) (hk : k ≠ 0) (post inv : IDom.SEnv)
    (σ : State) (hinv : IDom.SEnv.γ inv σ) (hpost : IDom.SEnv.γ post (Bwd.upd σ x ((σ y).tdiv k))) :
    IDom.SEnv.γ (ItvB.dom.bwdApply .sdiv x y (.const k) post inv) σ :=
  C11.idom_backward_apply_sound .sdiv x y (.const k) post inv σ _ hinv
    (by simp [binSem, Operand.eval, hk]) hpost

theorem C11.idom_bwd_stmt_sound (good : Bool) (s : Stmt) (post inv : IDom.SEnv) (σ σ' : State)
    (hinv : IDom.SEnv.γ inv σ) (hstep : StmtStep s σ σ') (hpost : IDom.SEnv.γ post σ') :
    IDom.SEnv.γ (bwdExec ItvB.dom good s post inv) σ :=
  C11.bwd_stmt_sound ItvB.dom_sound good s post inv σ σ' hinv hstep hpost

theorem C11.idom_bwd_stmt_fail_sound (s : Stmt) (post inv : IDom.SEnv) (σ : State)
    (hfail : StmtFails s σ) : IDom.SEnv.γ (bwdExec ItvB.dom false s post inv) σ :=
  C11.bwd_stmt_fail_sound ItvB.dom_sound s post inv σ hfail

theorem C11.idom_bwd_block_sound (good : Bool) (ss : List Stmt) (post inv : IDom.SEnv)
    (σ σ' : State) (hinv : IDom.SEnv.γ inv σ) (hrun : StmtsStep ss σ σ')
    (hpost : IDom.SEnv.γ post σ') : IDom.SEnv.γ (bwdStmts ItvB.dom good ss post inv) σ :=
  C11.bwd_block_sound ItvB.dom_sound good ss post inv σ σ' hinv hrun hpost

theorem C11.idom_bwd_block_fail_sound (ss : List Stmt) (post inv : IDom.SEnv) (σ : State)
    (hinv : IDom.SEnv.γ inv σ) (hfail : StmtsFail ss σ) :
    IDom.SEnv.γ (bwdStmts ItvB.dom false ss post inv) σ :=
  C11.bwd_block_fail_sound ItvB.dom_sound ss post inv σ hinv hfail

/-- C11 for the interval domain, whole run: every state at a block (that reaches the exit) from
    which some execution consistent with the supplied invariants fails an assertion (error mode)
    or ends in `fin` is in the stored precondition -/
theorem C11.idom_bwd_run_sound (p : Prog) (good : Bool) (invAbs : Nat → IDom.SEnv) (fin : IDom.SEnv)
    (nesting : Nat → Option (List Nat)) (delay descending : Nat) (w : List Comp) (fuel : Nat)
    (st : St IDom.SEnv)
    (hw : WtoWF (bwdCtx ItvB.dom p good invAbs fin nesting delay descending) w)
    (hrun : run (bwdCtx ItvB.dom p good invAbs fin nesting delay descending) fuel w = some st)
    (n : Nat) (σ : State) (hn : ReachesExit p n)
    (h : CoReach p (fun m τ => IDom.SEnv.γ (invAbs m) τ) (!good) (IDom.SEnv.γ fin) n σ) :
    IDom.SEnv.γ (st.post n) σ :=
  C11.inst_bwd_run_sound ItvB.dom _ ItvB.dom_sound p good invAbs fin nesting delay descending w fuel
    st hw hrun n σ hn h

/-- what `analyzer[n]` returns, every block -/
theorem C11.idom_bwd_precondition_sound (p : Prog) (good : Bool) (invAbs : Nat → IDom.SEnv)
    (fin : IDom.SEnv) (nesting : Nat → Option (List Nat)) (delay descending : Nat) (w : List Comp)
    (fuel : Nat) (st : St IDom.SEnv)
    (hw : WtoWF (bwdCtx ItvB.dom p good invAbs fin nesting delay descending) w)
    (hrun : run (bwdCtx ItvB.dom p good invAbs fin nesting delay descending) fuel w = some st)
    (n : Nat) (σ : State)
    (h : CoReach p (fun m τ => IDom.SEnv.γ (invAbs m) τ) (!good) (IDom.SEnv.γ fin) n σ) :
    IDom.SEnv.γ (preAt ItvB.dom p st.post n) σ :=
  C11.inst_bwd_precondition_sound ItvB.dom _ ItvB.dom_sound p good invAbs fin nesting delay
    descending w fuel st hw hrun n σ h

theorem C11.idom_empty_entry_precondition_safe (p : Prog) (good : Bool) (invAbs : Nat → IDom.SEnv)
    (fin : IDom.SEnv) (nesting : Nat → Option (List Nat)) (delay descending : Nat) (w : List Comp)
    (fuel : Nat) (st : St IDom.SEnv)
    (hw : WtoWF (bwdCtx ItvB.dom p good invAbs fin nesting delay descending) w)
    (hrun : run (bwdCtx ItvB.dom p good invAbs fin nesting delay descending) fuel w = some st)
    (hbot : (preAt ItvB.dom p st.post p.entry).1.isBottom = true) (σ : State) :
    ¬ CoReach p (fun m τ => IDom.SEnv.γ (invAbs m) τ) (!good) (IDom.SEnv.γ fin) p.entry σ :=
  C11.inst_empty_entry_precondition_safe ItvB.dom _ ItvB.dom_sound p good invAbs fin nesting delay
    descending w fuel st hw hrun hbot σ

/-! ### `constant_domain` -/

/-- the constant domain satisfies the whole per-operation contract of C11 -/
theorem C11.cst_contract : BDomSound constDom CDom.SEnv.γ := constDom_sound

/-- the backward operations of the record are "forget `x`, meet with the invariant" -/
theorem C11.cst_backward_ops_eq (x y : Var) (e : Lin) (op : BinOp) (z : Operand)
    (post inv : CDom.SEnv) :
    constDom.bwdAssign x e post inv = constDom.meet (constDom.forget x post) inv ∧
    constDom.bwdApply op x y z post inv = constDom.meet (constDom.forget x post) inv :=
  ⟨rfl, rfl⟩

/-- on the statements a real program can contain (variable indices fit `index_t`) the forward
    fields are single calls of the exact model `CDom.Env` (the top fallback of `XB.run` is not
    taken) -/
theorem C11.cst_forward_ops_eq (x y w : Var) (k : Int) (e : Lin) (c : Bwd.Cst) (op : BinOp)
    (a : CDom.SEnv) (hx : x < 2 ^ 64) (hc : ∀ v ∈ c.e.vars, v < 2 ^ 64) :
    (constDom.assume c a).1 = a.1.add [c.toLin] ∧
    (constDom.forget x a).1 = XDom.Env.forget CDom.cstLattice a.1 x ∧
    (constDom.assign x e a).1 = a.1.assign x e.toExpr ∧
    (constDom.apply op x y (.var w) a).1 = a.1.applyVar (xOp op) x y w ∧
    (constDom.apply op x y (.const k) a).1 = a.1.applyCst (xOp op) x y k := by
  have hcs : (XDom.Stmt.assume [c.toLin]).Ok := by
    intro c' hc'; rw [List.mem_singleton.1 hc']; exact cstOk_toLin c hc
  exact ⟨congrArg Subtype.val (XB.run_adm CDom.eng constX (.assume [c.toLin]) hcs a),
    congrArg Subtype.val (XB.run_adm CDom.eng constX (.forget x) hx a),
    congrArg Subtype.val (XB.run_adm CDom.eng constX (.assign x e.toExpr) hx a),
    congrArg Subtype.val (XB.run_adm CDom.eng constX (.arithVar (xOp op) x y w) hx a),
    congrArg Subtype.val (XB.run_adm CDom.eng constX (.arithCst (xOp op) x y k) hx a)⟩

theorem C11.cst_backward_assign_sound (x : Var) (e : Lin) (post inv : CDom.SEnv) (σ : State)
    (hinv : CDom.SEnv.γ inv σ) (hpost : CDom.SEnv.γ post (Bwd.upd σ x (e.eval σ))) :
    CDom.SEnv.γ (constDom.bwdAssign x e post inv) σ :=
  constDom_sound.bwdAssign_sound x e post inv σ hinv hpost

theorem C11.cst_backward_apply_sound (op : BinOp) (x y : Var) (z : Operand) (post inv : CDom.SEnv)
    (σ : State) (v : Int) (hinv : CDom.SEnv.γ inv σ)
    (hv : binSem op (σ y) (z.eval σ) = some v) (hpost : CDom.SEnv.γ post (Bwd.upd σ x v)) :
    CDom.SEnv.γ (constDom.bwdApply op x y z post inv) σ :=
  constDom_sound.bwdApply_sound op x y z post inv σ v hinv hv hpost

theorem C11.cst_bwd_stmt_sound (good : Bool) (s : Stmt) (post inv : CDom.SEnv) (σ σ' : State)
    (hinv : CDom.SEnv.γ inv σ) (hstep : StmtStep s σ σ') (hpost : CDom.SEnv.γ post σ') :
    CDom.SEnv.γ (bwdExec constDom good s post inv) σ :=
  C11.bwd_stmt_sound constDom_sound good s post inv σ σ' hinv hstep hpost

theorem C11.cst_bwd_stmt_fail_sound (s : Stmt) (post inv : CDom.SEnv) (σ : State)
    (hfail : StmtFails s σ) : CDom.SEnv.γ (bwdExec constDom false s post inv) σ :=
  C11.bwd_stmt_fail_sound constDom_sound s post inv σ hfail

theorem C11.cst_bwd_run_sound (p : Prog) (good : Bool) (invAbs : Nat → CDom.SEnv) (fin : CDom.SEnv)
    (nesting : Nat → Option (List Nat)) (delay descending : Nat) (w : List Comp) (fuel : Nat)
    (st : St CDom.SEnv)
    (hw : WtoWF (bwdCtx constDom p good invAbs fin nesting delay descending) w)
    (hrun : run (bwdCtx constDom p good invAbs fin nesting delay descending) fuel w = some st)
    (n : Nat) (σ : State) (hn : ReachesExit p n)
    (h : CoReach p (fun m τ => CDom.SEnv.γ (invAbs m) τ) (!good) (CDom.SEnv.γ fin) n σ) :
    CDom.SEnv.γ (st.post n) σ :=
  C11.inst_bwd_run_sound constDom _ constDom_sound p good invAbs fin nesting delay descending w fuel
    st hw hrun n σ hn h

theorem C11.cst_bwd_precondition_sound (p : Prog) (good : Bool) (invAbs : Nat → CDom.SEnv)
    (fin : CDom.SEnv) (nesting : Nat → Option (List Nat)) (delay descending : Nat) (w : List Comp)
    (fuel : Nat) (st : St CDom.SEnv)
    (hw : WtoWF (bwdCtx constDom p good invAbs fin nesting delay descending) w)
    (hrun : run (bwdCtx constDom p good invAbs fin nesting delay descending) fuel w = some st)
    (n : Nat) (σ : State)
    (h : CoReach p (fun m τ => CDom.SEnv.γ (invAbs m) τ) (!good) (CDom.SEnv.γ fin) n σ) :
    CDom.SEnv.γ (preAt constDom p st.post n) σ :=
  C11.inst_bwd_precondition_sound constDom _ constDom_sound p good invAbs fin nesting delay
    descending w fuel st hw hrun n σ h

/-! ### `sign_domain` -/

theorem C11.sgn_contract : BDomSound signDom SDom.SEnv.γ := signDom_sound

theorem C11.sgn_backward_ops_eq (x y : Var) (e : Lin) (op : BinOp) (z : Operand)
    (post inv : SDom.SEnv) :
    signDom.bwdAssign x e post inv = signDom.meet (signDom.forget x post) inv ∧
    signDom.bwdApply op x y z post inv = signDom.meet (signDom.forget x post) inv :=
  ⟨rfl, rfl⟩

theorem C11.sgn_forward_ops_eq (x y w : Var) (k : Int) (e : Lin) (c : Bwd.Cst) (op : BinOp)
    (a : SDom.SEnv) (hx : x < 2 ^ 64) (hc : ∀ v ∈ c.e.vars, v < 2 ^ 64) :
    (signDom.assume c a).1 = a.1.add [c.toLin] ∧
    (signDom.forget x a).1 = XDom.Env.forget SDom.signLattice a.1 x ∧
    (signDom.assign x e a).1 = a.1.assign x e.toExpr ∧
    (signDom.apply op x y (.var w) a).1 = a.1.applyVar (xOp op) x y w ∧
    (signDom.apply op x y (.const k) a).1 = a.1.applyCst (xOp op) x y k := by
  have hcs : (XDom.Stmt.assume [c.toLin]).Ok := by
    intro c' hc'; rw [List.mem_singleton.1 hc']; exact cstOk_toLin c hc
  exact ⟨congrArg Subtype.val (XB.run_adm SDom.eng signX (.assume [c.toLin]) hcs a),
    congrArg Subtype.val (XB.run_adm SDom.eng signX (.forget x) hx a),
    congrArg Subtype.val (XB.run_adm SDom.eng signX (.assign x e.toExpr) hx a),
    congrArg Subtype.val (XB.run_adm SDom.eng signX (.arithVar (xOp op) x y w) hx a),
    congrArg Subtype.val (XB.run_adm SDom.eng signX (.arithCst (xOp op) x y k) hx a)⟩

theorem C11.sgn_backward_assign_sound (x : Var) (e : Lin) (post inv : SDom.SEnv) (σ : State)
    (hinv : SDom.SEnv.γ inv σ) (hpost : SDom.SEnv.γ post (Bwd.upd σ x (e.eval σ))) :
    SDom.SEnv.γ (signDom.bwdAssign x e post inv) σ :=
  signDom_sound.bwdAssign_sound x e post inv σ hinv hpost

theorem C11.sgn_backward_apply_sound (op : BinOp) (x y : Var) (z : Operand) (post inv : SDom.SEnv)
    (σ : State) (v : Int) (hinv : SDom.SEnv.γ inv σ)
    (hv : binSem op (σ y) (z.eval σ) = some v) (hpost : SDom.SEnv.γ post (Bwd.upd σ x v)) :
    SDom.SEnv.γ (signDom.bwdApply op x y z post inv) σ :=
  signDom_sound.bwdApply_sound op x y z post inv σ v hinv hv hpost

theorem C11.sgn_bwd_stmt_sound (good : Bool) (s : Stmt) (post inv : SDom.SEnv) (σ σ' : State)
    (hinv : SDom.SEnv.γ inv σ) (hstep : StmtStep s σ σ') (hpost : SDom.SEnv.γ post σ') :
    SDom.SEnv.γ (bwdExec signDom good s post inv) σ :=
  C11.bwd_stmt_sound signDom_sound good s post inv σ σ' hinv hstep hpost

theorem C11.sgn_bwd_stmt_fail_sound (s : Stmt) (post inv : SDom.SEnv) (σ : State)
    (hfail : StmtFails s σ) : SDom.SEnv.γ (bwdExec signDom false s post inv) σ :=
  C11.bwd_stmt_fail_sound signDom_sound s post inv σ hfail

theorem C11.sgn_bwd_run_sound (p : Prog) (good : Bool) (invAbs : Nat → SDom.SEnv) (fin : SDom.SEnv)
    (nesting : Nat → Option (List Nat)) (delay descending : Nat) (w : List Comp) (fuel : Nat)
    (st : St SDom.SEnv)
    (hw : WtoWF (bwdCtx signDom p good invAbs fin nesting delay descending) w)
    (hrun : run (bwdCtx signDom p good invAbs fin nesting delay descending) fuel w = some st)
    (n : Nat) (σ : State) (hn : ReachesExit p n)
    (h : CoReach p (fun m τ => SDom.SEnv.γ (invAbs m) τ) (!good) (SDom.SEnv.γ fin) n σ) :
    SDom.SEnv.γ (st.post n) σ :=
  C11.inst_bwd_run_sound signDom _ signDom_sound p good invAbs fin nesting delay descending w fuel
    st hw hrun n σ hn h

theorem C11.sgn_bwd_precondition_sound (p : Prog) (good : Bool) (invAbs : Nat → SDom.SEnv)
    (fin : SDom.SEnv) (nesting : Nat → Option (List Nat)) (delay descending : Nat) (w : List Comp)
    (fuel : Nat) (st : St SDom.SEnv)
    (hw : WtoWF (bwdCtx signDom p good invAbs fin nesting delay descending) w)
    (hrun : run (bwdCtx signDom p good invAbs fin nesting delay descending) fuel w = some st)
    (n : Nat) (σ : State)
    (h : CoReach p (fun m τ => SDom.SEnv.γ (invAbs m) τ) (!good) (SDom.SEnv.γ fin) n σ) :
    SDom.SEnv.γ (preAt signDom p st.post n) σ :=
  C11.inst_bwd_precondition_sound signDom _ signDom_sound p good invAbs fin nesting delay
    descending w fuel st hw hrun n σ h

/-! ### `congruence_domain` (conditional: forward part discharged) -/

/-- the forward operations of the congruence model satisfy the contract -/
theorem C11.cong_forward_contract : BDomSound congFwd GDom.SEnv.γ := congFwd_sound

/-- `congruence_domain::backward_assign / backward_apply` = `BackwardAssignOps`: the contract of
    C11 holds for every model of `rename({y}, {x})` that is a renaming right after `-= x` and
    every bound of the variables a value constrains (these two side contracts are NOT discharged
    for the Patricia-tree environment of `GDom`) -/
theorem C11.cong_contract_of (rename : Var → Var → GDom.SEnv → GDom.SEnv)
    (hren : RenameAfterForget congFwd GDom.SEnv.γ rename) (bound : GDom.SEnv → Nat)
    (hb : BoundOk GDom.SEnv.γ bound) :
    BDomSound (withGenBwd congFwd rename bound) GDom.SEnv.γ :=
  congDom_sound_of rename hren bound hb

/-! ### the canonical zone model (generic `BackwardAssignOps` recipe, NOT split_dbm's code) -/

/-- zones over the variables `0 .. n-1` with the recipe of `BackwardAssignOps` -/
abbrev C11.zoneDom (n : Nat) : BDom (Zones.ZVal n) := RB.dom (zoneLang n)
/-- concretisation: the tracked part of the state is described by the matrix -/
abbrev C11.zoneγ (n : Nat) : Zones.ZVal n → State → Prop := RB.γ (zoneLang n)

theorem C11.zones_contract (n : Nat) : BDomSound (C11.zoneDom n) (C11.zoneγ n) :=
  RB.dom_sound (zoneLang n)

/-- the backward operations are `BackwardAssignOps` over the canonical forward operations with an
    untracked fresh index (`>= n`) -/
theorem C11.zones_backward_ops_eq (n : Nat) (x y : Var) (e : Lin) (op : BinOp) (z : Operand)
    (post inv : Zones.ZVal n) :
    (C11.zoneDom n).bwdAssign x e post inv =
      genBwdAssign (RB.fwd (zoneLang n)) (RB.rename (zoneLang n)) (freshFor n (x :: e.vars)) x e post inv ∧
    (C11.zoneDom n).bwdApply op x y z post inv =
      genBwdApply (RB.fwd (zoneLang n)) (RB.rename (zoneLang n)) (freshFor n (x :: y :: z.vars))
        op x y z post inv :=
  ⟨rfl, rfl⟩

theorem C11.zones_backward_assign_sound (n : Nat) (x : Var) (e : Lin) (post inv : Zones.ZVal n)
    (σ : State) (hinv : C11.zoneγ n inv σ) (hpost : C11.zoneγ n post (Bwd.upd σ x (e.eval σ))) :
    C11.zoneγ n ((C11.zoneDom n).bwdAssign x e post inv) σ :=
  (C11.zones_contract n).bwdAssign_sound x e post inv σ hinv hpost

theorem C11.zones_backward_apply_sound (n : Nat) (op : BinOp) (x y : Var) (z : Operand)
    (post inv : Zones.ZVal n) (σ : State) (v : Int) (hinv : C11.zoneγ n inv σ)
    (hv : binSem op (σ y) (z.eval σ) = some v) (hpost : C11.zoneγ n post (Bwd.upd σ x v)) :
    C11.zoneγ n ((C11.zoneDom n).bwdApply op x y z post inv) σ :=
  (C11.zones_contract n).bwdApply_sound op x y z post inv σ v hinv hv hpost

theorem C11.zones_bwd_stmt_sound (n : Nat) (good : Bool) (s : Stmt) (post inv : Zones.ZVal n)
    (σ σ' : State) (hinv : C11.zoneγ n inv σ) (hstep : StmtStep s σ σ')
    (hpost : C11.zoneγ n post σ') : C11.zoneγ n (bwdExec (C11.zoneDom n) good s post inv) σ :=
  C11.bwd_stmt_sound (C11.zones_contract n) good s post inv σ σ' hinv hstep hpost

theorem C11.zones_bwd_stmt_fail_sound (n : Nat) (s : Stmt) (post inv : Zones.ZVal n) (σ : State)
    (hfail : StmtFails s σ) : C11.zoneγ n (bwdExec (C11.zoneDom n) false s post inv) σ :=
  C11.bwd_stmt_fail_sound (C11.zones_contract n) s post inv σ hfail

theorem C11.zones_bwd_run_sound (k : Nat) (p : Prog) (good : Bool) (invAbs : Nat → Zones.ZVal k)
    (fin : Zones.ZVal k) (nesting : Nat → Option (List Nat)) (delay descending : Nat)
    (w : List Comp) (fuel : Nat) (st : St (Zones.ZVal k))
    (hw : WtoWF (bwdCtx (C11.zoneDom k) p good invAbs fin nesting delay descending) w)
    (hrun : run (bwdCtx (C11.zoneDom k) p good invAbs fin nesting delay descending) fuel w = some st)
    (n : Nat) (σ : State) (hn : ReachesExit p n)
    (h : CoReach p (fun m τ => C11.zoneγ k (invAbs m) τ) (!good) (C11.zoneγ k fin) n σ) :
    C11.zoneγ k (st.post n) σ :=
  C11.inst_bwd_run_sound (C11.zoneDom k) _ (C11.zones_contract k) p good invAbs fin nesting delay
    descending w fuel st hw hrun n σ hn h

theorem C11.zones_bwd_precondition_sound (k : Nat) (p : Prog) (good : Bool)
    (invAbs : Nat → Zones.ZVal k) (fin : Zones.ZVal k) (nesting : Nat → Option (List Nat))
    (delay descending : Nat) (w : List Comp) (fuel : Nat) (st : St (Zones.ZVal k))
    (hw : WtoWF (bwdCtx (C11.zoneDom k) p good invAbs fin nesting delay descending) w)
    (hrun : run (bwdCtx (C11.zoneDom k) p good invAbs fin nesting delay descending) fuel w = some st)
    (n : Nat) (σ : State)
    (h : CoReach p (fun m τ => C11.zoneγ k (invAbs m) τ) (!good) (C11.zoneγ k fin) n σ) :
    C11.zoneγ k (preAt (C11.zoneDom k) p st.post n) σ :=
  C11.inst_bwd_precondition_sound (C11.zoneDom k) _ (C11.zones_contract k) p good invAbs fin nesting
    delay descending w fuel st hw hrun n σ h

/-! ### the canonical octagon model (generic `BackwardAssignOps` recipe, NOT split_oct's code) -/

abbrev C11.octDom (n : Nat) : BDom (Octagon.OVal n) := RB.dom (octLang n)
abbrev C11.octγ (n : Nat) : Octagon.OVal n → State → Prop := RB.γ (octLang n)

theorem C11.oct_contract (n : Nat) : BDomSound (C11.octDom n) (C11.octγ n) :=
  RB.dom_sound (octLang n)

theorem C11.oct_backward_ops_eq (n : Nat) (x y : Var) (e : Lin) (op : BinOp) (z : Operand)
    (post inv : Octagon.OVal n) :
    (C11.octDom n).bwdAssign x e post inv =
      genBwdAssign (RB.fwd (octLang n)) (RB.rename (octLang n)) (freshFor n (x :: e.vars)) x e post inv ∧
    (C11.octDom n).bwdApply op x y z post inv =
      genBwdApply (RB.fwd (octLang n)) (RB.rename (octLang n)) (freshFor n (x :: y :: z.vars))
        op x y z post inv :=
  ⟨rfl, rfl⟩

theorem C11.oct_backward_assign_sound (n : Nat) (x : Var) (e : Lin) (post inv : Octagon.OVal n)
    (σ : State) (hinv : C11.octγ n inv σ) (hpost : C11.octγ n post (Bwd.upd σ x (e.eval σ))) :
    C11.octγ n ((C11.octDom n).bwdAssign x e post inv) σ :=
  (C11.oct_contract n).bwdAssign_sound x e post inv σ hinv hpost

theorem C11.oct_backward_apply_sound (n : Nat) (op : BinOp) (x y : Var) (z : Operand)
    (post inv : Octagon.OVal n) (σ : State) (v : Int) (hinv : C11.octγ n inv σ)
    (hv : binSem op (σ y) (z.eval σ) = some v) (hpost : C11.octγ n post (Bwd.upd σ x v)) :
    C11.octγ n ((C11.octDom n).bwdApply op x y z post inv) σ :=
  (C11.oct_contract n).bwdApply_sound op x y z post inv σ v hinv hv hpost

theorem C11.oct_bwd_stmt_sound (n : Nat) (good : Bool) (s : Stmt) (post inv : Octagon.OVal n)
    (σ σ' : State) (hinv : C11.octγ n inv σ) (hstep : StmtStep s σ σ')
    (hpost : C11.octγ n post σ') : C11.octγ n (bwdExec (C11.octDom n) good s post inv) σ :=
  C11.bwd_stmt_sound (C11.oct_contract n) good s post inv σ σ' hinv hstep hpost

theorem C11.oct_bwd_stmt_fail_sound (n : Nat) (s : Stmt) (post inv : Octagon.OVal n) (σ : State)
    (hfail : StmtFails s σ) : C11.octγ n (bwdExec (C11.octDom n) false s post inv) σ :=
  C11.bwd_stmt_fail_sound (C11.oct_contract n) s post inv σ hfail

theorem C11.oct_bwd_run_sound (k : Nat) (p : Prog) (good : Bool) (invAbs : Nat → Octagon.OVal k)
    (fin : Octagon.OVal k) (nesting : Nat → Option (List Nat)) (delay descending : Nat)
    (w : List Comp) (fuel : Nat) (st : St (Octagon.OVal k))
    (hw : WtoWF (bwdCtx (C11.octDom k) p good invAbs fin nesting delay descending) w)
    (hrun : run (bwdCtx (C11.octDom k) p good invAbs fin nesting delay descending) fuel w = some st)
    (n : Nat) (σ : State) (hn : ReachesExit p n)
    (h : CoReach p (fun m τ => C11.octγ k (invAbs m) τ) (!good) (C11.octγ k fin) n σ) :
    C11.octγ k (st.post n) σ :=
  C11.inst_bwd_run_sound (C11.octDom k) _ (C11.oct_contract k) p good invAbs fin nesting delay
    descending w fuel st hw hrun n σ hn h

theorem C11.oct_bwd_precondition_sound (k : Nat) (p : Prog) (good : Bool)
    (invAbs : Nat → Octagon.OVal k) (fin : Octagon.OVal k) (nesting : Nat → Option (List Nat))
    (delay descending : Nat) (w : List Comp) (fuel : Nat) (st : St (Octagon.OVal k))
    (hw : WtoWF (bwdCtx (C11.octDom k) p good invAbs fin nesting delay descending) w)
    (hrun : run (bwdCtx (C11.octDom k) p good invAbs fin nesting delay descending) fuel w = some st)
    (n : Nat) (σ : State)
    (h : CoReach p (fun m τ => C11.octγ k (invAbs m) τ) (!good) (C11.octγ k fin) n σ) :
    C11.octγ k (preAt (C11.octDom k) p st.post n) σ :=
  C11.inst_bwd_precondition_sound (C11.octDom k) _ (C11.oct_contract k) p good invAbs fin nesting
    delay descending w fuel st hw hrun n σ h
