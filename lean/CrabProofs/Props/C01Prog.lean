import CrabProofs.Props.C01Engine
import CrabProofs.Lemmas.IRTrace

/-!
# C01 (program part) — from executions of CrabIR programs to the collecting semantics of the engine

`CrabModel/IR/Semantics.lean` is the executable semantics the program-level harness (`prog`)
runs.  This file ties it to the relational collecting semantics `ReachPre` / `ReachPost` that
the proved engine theorem `C01.run_sound` speaks about:

* `C01.trace_reach` : every `enter b σ` (`leave b σ`) event of an execution started in a state
  described by the initial value is a member of `ReachPre b` (`ReachPost b`), when the iterator
  context reads the program (same entry, predecessor lists cover the edges, no assumption map)
  and the block relation of the contract covers the executable block transformer `BlockStep`;
* `C01.program_sound` : hence the tables returned by the iterator contain every state with which
  an execution arrives at / leaves a block; `C01.bottom_block_never_entered`.

What remains a hypothesis is the contract `Sem` (soundness of the domain operations and of
`analyze` = the statement → operation mapping of `intra_abs_transformer` on the shipped domain),
which the harness samples against the real code.
-/
open Crab Crab.Fix Crab.IR

/-- the iterator context `c` analyses program `p` -/
structure C01.Reads {A : Type} (c : Ctx A) (p : Program) : Prop where
  entry : c.entry = p.entry
  preds : ∀ b n, n ∈ (p.block b).succs → b ∈ c.preds n
  noAsm : hasAssumptions c = false

theorem C01.asmOk_of_noAsm {A : Type} (c : Ctx A) (sem : Sem c State) (h : hasAssumptions c = false)
    (n : Nat) (s : State) : asmOk c sem n s := by
  simp [asmOk, h]

/-- every state an execution arrives with at (leaves) a block is in the collecting semantics -/
theorem C01.trace_reach {A : Type} (c : Ctx A) (p : Program) (sem : Sem c State)
    (hr : C01.Reads c p)
    (hstep : ∀ b σ σ', BlockStep p b σ σ' → sem.step b σ σ') :
    ∀ (fuel b0 : Nat) (σ0 : State) (ch : List Int), ReachPre c sem b0 σ0 →
      (∀ b σ, Event.enter b σ ∈ exec p fuel b0 σ0 ch → ReachPre c sem b σ) ∧
      (∀ b σ, Event.leave b σ ∈ exec p fuel b0 σ0 ch → ReachPost c sem b σ) := by
  intro fuel
  induction fuel with
  | zero => intro b0 σ0 ch _; simp [exec]
  | succ fuel ih =>
    intro b0 σ0 ch h0
    -- the events of the block itself are `check` events
    have hev : ∀ e, e ∈ (runBlock p b0 σ0 ch).events → ∃ j σ' ok, e = Event.check b0 j σ' ok := by
      intro e he
      obtain ⟨j, σ', ok, h, _⟩ := runStmts_events_check b0 _ 0 σ0 ch e he
      exact ⟨j, σ', ok, h⟩
    unfold exec
    simp only [List.mem_cons, List.mem_append]
    cases hres : (runBlock p b0 σ0 ch).res with
    | next σ1 =>
      have hpost : ReachPost c sem b0 σ1 := .step b0 σ0 σ1 h0 (hstep b0 σ0 σ1 ⟨ch, hres⟩)
      cases hp : pickSucc (p.block b0).succs (runBlock p b0 σ0 ch).rest with
      | none =>
        constructor
        · intro b σ h
          rcases h with h | h | h
          · cases h; exact h0
          · obtain ⟨_, _, _, he⟩ := hev _ h; cases he
          · simp at h
        · intro b σ h
          rcases h with h | h | h
          · cases h
          · obtain ⟨_, _, _, he⟩ := hev _ h; cases he
          · simp only [List.mem_cons] at h
            rcases h with h | h | h
            · cases h; exact hpost
            · cases h
            · simp at h
      | some sc =>
        obtain ⟨s, ch1⟩ := sc
        have hs : s ∈ (p.block b0).succs := pickSucc_mem _ _ _ _ hp
        have hpre : ReachPre c sem s σ1 :=
          .flow b0 s σ1 (hr.preds b0 s hs) hpost (C01.asmOk_of_noAsm c sem hr.noAsm _ _)
        have ih' := ih s σ1 ch1 hpre
        constructor
        · intro b σ h
          rcases h with h | h | h
          · cases h; exact h0
          · obtain ⟨_, _, _, he⟩ := hev _ h; cases he
          · simp only [List.mem_cons] at h
            rcases h with h | h
            · cases h
            · exact ih'.1 b σ h
        · intro b σ h
          rcases h with h | h | h
          · cases h
          · obtain ⟨_, _, _, he⟩ := hev _ h; cases he
          · simp only [List.mem_cons] at h
            rcases h with h | h
            · cases h; exact hpost
            · exact ih'.2 b σ h
    | stop =>
      constructor
      · intro b σ h
        rcases h with h | h | h
        · cases h; exact h0
        · obtain ⟨_, _, _, he⟩ := hev _ h; cases he
        · simp at h
      · intro b σ h
        rcases h with h | h | h
        · cases h
        · obtain ⟨_, _, _, he⟩ := hev _ h; cases he
        · simp at h
    | fail =>
      constructor
      · intro b σ h
        rcases h with h | h | h
        · cases h; exact h0
        · obtain ⟨_, _, _, he⟩ := hev _ h; cases he
        · simp at h
      · intro b σ h
        rcases h with h | h | h
        · cases h
        · obtain ⟨_, _, _, he⟩ := hev _ h; cases he
        · simp at h
    | undef =>
      constructor
      · intro b σ h
        rcases h with h | h | h
        · cases h; exact h0
        · obtain ⟨_, _, _, he⟩ := hev _ h; cases he
        · simp at h
      · intro b σ h
        rcases h with h | h | h
        · cases h
        · obtain ⟨_, _, _, he⟩ := hev _ h; cases he
        · simp at h

/-- C01 for programs: the tables the iterator returns contain every concrete state with which
    an execution of `p`, started in a state described by the initial value, arrives at (leaves)
    a block — for every fuel, choice stream, fixpoint parameter setting and value type satisfying
    the contract. -/
theorem C01.program_sound {A : Type} (c : Ctx A) (w : List Comp) (p : Program) (sem : Sem c State)
    (hr : C01.Reads c p) (hstep : ∀ b σ σ', BlockStep p b σ σ' → sem.step b σ σ')
    (hwf : WtoWF c w) (fuel : Nat) (st : St A) (hrun : Crab.Fix.run c fuel w = some st)
    (σ0 : State) (hinit : sem.γ c.init σ0) (n : Nat) (ch : List Int) :
    (∀ b σ, Event.enter b σ ∈ IR.run p n σ0 ch → sem.γ (st.pre b) σ) ∧
    (∀ b σ, Event.leave b σ ∈ IR.run p n σ0 ch → sem.γ (st.post b) σ) := by
  have hs := C01.run_sound c w State sem fuel st hwf hrun
  have h0 : ReachPre c sem p.entry σ0 := by
    have := ReachPre.init (c := c) (sem := sem) σ0 hinit (C01.asmOk_of_noAsm c sem hr.noAsm _ _)
    rwa [hr.entry] at this
  have ht := C01.trace_reach c p sem hr hstep n p.entry σ0 ch h0
  exact ⟨fun b σ h => hs.1 b σ (ht.1 b σ h), fun b σ h => hs.2 b σ (ht.2 b σ h)⟩

/-- a block whose invariant is bottom (describes no state) is never entered -/
theorem C01.bottom_block_never_entered {A : Type} (c : Ctx A) (w : List Comp) (p : Program)
    (sem : Sem c State) (hr : C01.Reads c p)
    (hstep : ∀ b σ σ', BlockStep p b σ σ' → sem.step b σ σ')
    (hwf : WtoWF c w) (fuel : Nat) (st : St A) (hrun : Crab.Fix.run c fuel w = some st)
    (b : Nat) (hbot : ∀ σ, ¬ sem.γ (st.pre b) σ)
    (σ0 : State) (hinit : sem.γ c.init σ0) (n : Nat) (ch : List Int) (σ : State) :
    Event.enter b σ ∉ IR.run p n σ0 ch :=
  fun h => hbot σ ((C01.program_sound c w p sem hr hstep hwf fuel st hrun σ0 hinit n ch).1 b σ h)

/-! ### non-vacuity: a program with a loop read by the example context of `C01Engine` -/

/-- `B0: v0 := 0; goto B1`  `B1: goto B2, B3`  `B2: v0 := v0 + 1; goto B1`  `B3:` (exit) -/
def C01.ProgExample.prog : Program :=
  ⟨1, 0, 0, 3, #[⟨[.assign 0 ⟨0, []⟩], [1]⟩, ⟨[], [2, 3]⟩, ⟨[.binop .add 0 0 (.const 1)], [1]⟩, ⟨[], []⟩]⟩

theorem C01.ProgExample.reads : C01.Reads C01.Example.ctx C01.ProgExample.prog where
  entry := rfl
  noAsm := rfl
  preds := by
    intro b n h
    match b, h with
    | 0, h => simp [Program.block, C01.ProgExample.prog] at h; subst h; decide
    | 1, h =>
      simp [Program.block, C01.ProgExample.prog] at h
      rcases h with h | h <;> subst h <;> decide
    | 2, h => simp [Program.block, C01.ProgExample.prog] at h; subst h; decide
    | 3, h => simp [Program.block, C01.ProgExample.prog] at h
    | k + 4, h => simp [Program.block, C01.ProgExample.prog] at h

/-- a contract over program states for the example value type (`γ true` = every state) -/
def C01.ProgExample.sem : Sem C01.Example.ctx State where
  γ := fun a _ => a = true
  step := fun _ _ _ => True
  analyze_sound := by intro n a s s' h _; simpa [C01.Example.ctx] using h
  join_left := by intro a b s h; simp [C01.Example.ctx, h]
  join_right := by intro a b s h; simp [C01.Example.ctx, h]
  widen_left := by intro a b s h; simp [C01.Example.ctx, h]
  widen_right := by intro a b s h; simp [C01.Example.ctx, h]
  meet_sound := by intro a b s h1 h2; simp [C01.Example.ctx, h1, h2]
  narrow_sound := by intro a b s h1 h2; simp [C01.Example.ctx, h1, h2]
  leq_sound := by intro a b s h1 h2; simpa [C01.Example.ctx, h2] using h1

/-- an execution of the example goes round the loop and reaches the exit: the trace is not empty -/
example : (IR.run C01.ProgExample.prog 6 ⟨#[7], #[]⟩ [0, 1]).filterMap
    (fun e => match e with | .enter b σ => some (b, σ.geti 0) | _ => none) =
    [(0, 7), (1, 0), (2, 0), (1, 1), (3, 1)] := by decide

/-- and `C01.program_sound` applies to it -/
example (fuel : Nat) (st : St Bool) (h : Crab.Fix.run C01.Example.ctx fuel C01.Example.wto = some st)
    (b : Nat) (σ : State) (he : Event.enter b σ ∈ IR.run C01.ProgExample.prog 6 ⟨#[7], #[]⟩ [0, 1]) :
    st.pre b = true :=
  (C01.program_sound C01.Example.ctx C01.Example.wto C01.ProgExample.prog C01.ProgExample.sem
    C01.ProgExample.reads (fun _ _ _ _ => trivial) C01.Example.wf fuel st h ⟨#[7], #[]⟩ rfl 6 [0, 1]).1 b σ he
