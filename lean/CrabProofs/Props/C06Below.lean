import CrabProofs.Lemmas.FixBelow

/-!
# C06 (upper half) — with an exact value type the iterator stays below the collecting semantics

Every state described by an entry of the `pre` / `post` tables returned by `Crab.Fix.run` is
reachable (`ReachPre` / `ReachPost`), for every ordering term containing the start block, every
parameter setting and every assumption map; no well-formedness of the ordering is needed.
Together with C01 (`RunSound`) the tables are exactly the collecting semantics.
-/
open Crab Crab.Fix

/-- C06, upper half (`RunBelowReach c w` unfolds to: for every `sem : Sem c S` with
    `Exact c sem`, if `c.entry ∈ nodesList w` and `run c fuel w = some st` then
    `γ (st.pre n) s → ReachPre c sem n s` and `γ (st.post n) s → ReachPost c sem n s`) -/
theorem C06.run_below_reach {A : Type} (c : Ctx A) (w : List Comp) : RunBelowReach c w :=
  fun _ _ fuel st ex hw h => run_below ex w hw fuel st h

/-- the invariant behind it, for one component visited from arbitrary tables: posts stay below
    `ReachPost`, every `pre` entry that was below `ReachPre` stays so, and the entry of the start
    block is (re)computed, hence below `ReachPre`, when the component contains it -/
theorem C06.visit_below {A S : Type} (c : Ctx A) (sem : Sem c S) (ex : Exact c sem)
    (fuel : Nat) (st r : St A) (x : Comp)
    (hpost : ∀ n s, sem.γ (st.post n) s → ReachPost c sem n s)
    (h : visitComp c fuel st x = some r) :
    (∀ n s, sem.γ (r.post n) s → ReachPost c sem n s) ∧
    (∀ n, (∀ s, sem.γ (st.pre n) s → ReachPre c sem n s) →
          ∀ s, sem.γ (r.pre n) s → ReachPre c sem n s) ∧
    (c.entry ∈ x.nodes → ∀ s, sem.γ (r.pre c.entry) s → ReachPre c sem c.entry s) :=
  (below_aux ex fuel).1 st x r hpost h

/-! ### non-vacuity: an exact value type -/

/-- two-point lattice, one concrete state; `true` describes it, `false` nothing -/
def C06.boolCtx : Ctx Bool where
  ops := { bot := false, top := true, leq := fun a b => !a || b, join := (· || ·),
           meet := (· && ·), widen := (· || ·), narrow := (· && ·) }
  analyze := fun _ a => a
  preds := fun n => if n = 0 then [1] else if n = 1 then [0] else []
  nesting := fun n => if n = 0 then some [] else if n = 1 then some [0] else none
  entry := 0
  init := true
  assumptions := none
  delay := 1
  descending := 2

def C06.boolSem : Sem C06.boolCtx Unit where
  γ := fun a _ => a = true
  step := fun _ _ _ => True
  analyze_sound := by intro n a s s' h _; exact h
  join_left := by intro a b s h; simp_all [C06.boolCtx]
  join_right := by intro a b s h; simp_all [C06.boolCtx]
  widen_left := by intro a b s h; simp_all [C06.boolCtx]
  widen_right := by intro a b s h; simp_all [C06.boolCtx]
  meet_sound := by intro a b s h1 h2; simp_all [C06.boolCtx]
  narrow_sound := by intro a b s h1 h2; simp_all [C06.boolCtx]
  leq_sound := by intro a b s h1 h2; simp_all [C06.boolCtx]

example : Exact C06.boolCtx C06.boolSem where
  bot_empty := by intro s h; simp [C06.boolSem, C06.boolCtx] at h
  join_exact := by intro a b s h; simpa [C06.boolSem, C06.boolCtx] using h
  meet_exact := by intro a b s h; simpa [C06.boolSem, C06.boolCtx] using h
  analyze_exact := by intro n a s' h; exact ⟨(), h, trivial⟩
  widen_is_join := by intro a b; rfl
  narrow_is_meet := by intro a b; rfl

example : C06.boolCtx.entry ∈ nodesList [.cycle 0 [.vertex 1]] := by decide

example : (run C06.boolCtx 10 [.cycle 0 [.vertex 1]]).isSome = true := by decide
