import CrabProofs.Props.C05Chain
import CrabProofs.Lemmas.DbmWiden

/-!
# C05 (zones part) — the widening of `split_dbm_domain` / `sparse_dbm_domain` stabilises every chain

Model: `CrabModel/Dom/DbmWiden.lean` (`split_dbm.hpp` `operator||` + `split_widen`,
`sparse_dbm.hpp` `operator||` + `GrOps::widen`, and the `operator<=` of both).  The code keeps
exactly the edges of the **unclosed** left operand whose weight is `≥` the weight the normalised
right operand gives to the same pair of vertices; `widening_thresholds` ignores its thresholds.

* `C05.zones_widen_keeps_exactly`, `C05.zones_widen_upper`: the result has exactly those edges and
  contains both operands;
* `C05.zones_leq_iff_stationary`: the inclusion test `y ⊑ x` on which the iterator stops (it
  normalises a copy of `y`) succeeds iff `x ∇ y = x`;
* `C05.zones_widen_measure`, `C05.zones_strictStep_wf`, `C05.zones_widenStep_wf`,
  `C05.zones_run_terminates`, `C05.zones_chain_first_stationary`: a strict step drops an edge, so
  strict steps are well founded for every number of variables, every analysis run over these
  operations terminates, and a chain started from a graph `l` is stationary within `edges l`
  steps; the statements hold for *every* way `ew` of reading weights off the right operand
  (so for split_dbm, sparse_dbm, and both normalisation algorithms);
* `C05.zones_closed_left_diverges`, `C05.zones_closed_left_not_wf`: if the left operand is closed
  before each widening (what `term_domain` did through assign/project before repo commit
  307309d), the two-counter chain is strictly increasing for all `k`;
  `C05.zones_two_counter_stabilises`: on the same inputs the code's widening is stationary from
  step 2 on.
-/
open Crab Crab.Fix Crab.Dbm Crab.Zones

/-! ## the result of the widening -/

/-- **exactly the stable edges**: `(i, j, k)` is an edge of `l ∇ r` iff it is an (off-diagonal)
    edge of the unclosed left operand `l` and the right operand's weight for `(i, j)` is `≤ k` -/
theorem C05.zones_widen_keeps_exactly {n : Nat} (ew : Fin (n + 1) → Fin (n + 1) → W) (l : Zone n)
    (i j : Fin (n + 1)) (k : Int) :
    (widenBy ew l).get i j = some k ↔ i ≠ j ∧ l.get i j = some k ∧ W.le (ew i j) (some k) = true := by
  constructor
  · intro h
    obtain ⟨h1, h2, h3⟩ := widenBy_some h
    exact ⟨h1, h2, W.le_some_iff.2 h3⟩
  · rintro ⟨h1, h2, h3⟩
    rw [get_widenBy, h2, if_pos ⟨h1, h3⟩]

/-- the widening is an upper bound of both operands, for every sound reading of the right one -/
theorem C05.zones_widenE_upper {n : Nat} {ew : Zone n → Fin (n + 1) → Fin (n + 1) → W}
    (hew : SoundEw ew) (x y : ZVal n) (σ : State n) :
    (γv x σ → γv (widenE ew x y) σ) ∧ (γv y σ → γv (widenE ew x y) σ) :=
  widenE_upper hew x y σ

/-- `split_dbm_domain::operator||` contains both operands -/
theorem C05.zones_widen_upper {n : Nat} (x y : ZVal n) (σ : State n) :
    (γv x σ → γv (SplitDbm.widen x y) σ) ∧ (γv y σ → γv (SplitDbm.widen x y) σ) :=
  widenE_upper splitEw_soundEw x y σ

/-- `sparse_dbm_domain::operator||` contains both operands -/
theorem C05.zones_sparse_widen_upper {n : Nat} (x y : ZVal n) (σ : State n) :
    (γv x σ → γv (SparseDbm.widen x y) σ) ∧ (γv y σ → γv (SparseDbm.widen x y) σ) :=
  widenE_upper sparseEw_soundEw x y σ

/-- `widening_thresholds` (thresholds ignored by the code) contains both operands -/
theorem C05.zones_widen_thresholds_upper {n : Nat} (x y : ZVal n) (ts : List Int) (σ : State n) :
    (γv x σ → γv (SplitDbm.widenThresholds x y ts) σ) ∧
    (γv y σ → γv (SplitDbm.widenThresholds x y ts) σ) :=
  C05.zones_widen_upper x y σ

/-! ## the inclusion test -/

/-- the test on which the iterator stops is **exactly** stationarity of the widening: `y ⊑ x`
    (a copy of `y` is normalised and read with `ew`) succeeds iff `x ∇ y = x` -/
theorem C05.zones_leq_iff_stationary {n : Nat} (ew : Zone n → Fin (n + 1) → Fin (n + 1) → W)
    (l r : Zone n) (hl : NoSelfLoop l) :
    leqE ew (some r) (some l) = true ↔ widenE ew (some l) (some r) = some l := by
  constructor
  · intro h
    show some (widenBy (ew r) l) = some l
    rw [widenBy_eq_self hl h]
  · intro h
    have h' : widenBy (ew r) l = l := Option.some.inj h
    cases hq : leqE ew (some r) (some l)
    · have := edges_widenBy_lt (ew := ew r) (x := l) hq
      rw [h'] at this
      omega
    · rfl

/-- the inclusion test is sound -/
theorem C05.zones_leq_sound {n : Nat} {ew : Zone n → Fin (n + 1) → Fin (n + 1) → W} (hew : SoundEw ew)
    (y : ZVal n) (l : Zone n) (hl : NoSelfLoop l) (h : leqE ew y (some l) = true) (σ : State n)
    (hy : γv y σ) : γv (some l) σ := by
  cases y with
  | none => exact hy.elim
  | some r => exact leqBy_sat hl h _ (hew r _ hy)

/-- the widening never creates self loops, so the hypothesis `NoSelfLoop` holds along a chain -/
theorem C05.zones_widen_noSelfLoop {n : Nat} (ew : Zone n → Fin (n + 1) → Fin (n + 1) → W)
    (l r : Zone n) : ∃ g, widenE ew (some l) (some r) = some g ∧ NoSelfLoop g :=
  ⟨_, rfl, widenBy_noSelfLoop _ _⟩

/-! ## the chain condition -/

/-- a strict step (`y ⋢ x`) lowers (is bottom, number of edges) lexicographically; between two
    graphs it drops at least one edge — for every reading `ew`, every number of variables -/
theorem C05.zones_widen_measure {n : Nat} (ew : Zone n → Fin (n + 1) → Fin (n + 1) → W)
    (x y : ZVal n) (h : leqE ew y x = false) :
    Prod.Lex (· < ·) (· < ·) (zmeas (widenE ew x y)) (zmeas x) :=
  zmeas_widenE_lt ew x y h

/-- between two graphs: the number of edges strictly decreases on every non-stationary step -/
theorem C05.zones_widen_edges {n : Nat} (ew : Zone n → Fin (n + 1) → Fin (n + 1) → W)
    (l r : Zone n) (h : leqE ew (some r) (some l) = false) :
    edges (widenBy (ew r) l) < edges l ∧ edges l ≤ (n + 1) * (n + 1) :=
  ⟨edges_widenBy_lt h, edges_le l⟩

/-- **chain condition of the zones widening** (left operand never closed) -/
theorem C05.zones_strictStep_wf {n : Nat} (ew : Zone n → Fin (n + 1) → Fin (n + 1) → W) :
    WellFounded (C05.StrictStep (leqE ew) (widenE ew)) :=
  C05.strictStep_wf_of_measure (leqE ew) (widenE ew) _ (Prod.lex Nat.lt_wfRel Nat.lt_wfRel).wf zmeas
    (fun x y h => C05.zones_widen_measure ew x y h)

theorem C05.zones_split_strictStep_wf {n : Nat} :
    WellFounded (C05.StrictStep (SplitDbm.leq (n := n)) SplitDbm.widen) :=
  C05.zones_strictStep_wf splitEw

theorem C05.zones_sparse_strictStep_wf {n : Nat} :
    WellFounded (C05.StrictStep (SparseDbm.leq (n := n)) SparseDbm.widen) :=
  C05.zones_strictStep_wf sparseEw

/-- the same with a (finite) threshold set: the code ignores it -/
theorem C05.zones_thresholds_strictStep_wf {n : Nat} (ts : List Int) :
    WellFounded (C05.StrictStep (SplitDbm.leq (n := n)) (fun x y => SplitDbm.widenThresholds x y ts)) :=
  C05.zones_strictStep_wf splitEw

/-- in the engine's form: every context whose order test and widening are the zones ones -/
theorem C05.zones_widenStep_wf {n : Nat} (ew : Zone n → Fin (n + 1) → Fin (n + 1) → W)
    (c : Ctx (ZVal n)) (hleq : c.ops.leq = leqE ew) (hw : c.ops.widen = widenE ew) :
    WellFounded (WidenStep c) := by
  rw [C05.widenStep_eq, hleq, hw]
  exact C05.zones_strictStep_wf ew

/-- every analysis run over the zones operations terminates -/
theorem C05.zones_run_terminates {n : Nat} (ew : Zone n → Fin (n + 1) → Fin (n + 1) → W)
    (c : Ctx (ZVal n)) (hleq : c.ops.leq = leqE ew) (hw : c.ops.widen = widenE ew) (w : List Comp) :
    ∃ fuel st, run c fuel w = some st :=
  C05.run_terminates c w (C05.zones_widenStep_wf ew c hleq hw)

/-- **every chain is eventually stationary**: along `x₀ = l₀`, `xₖ₊₁ = xₖ ∇ yₖ` with arbitrary
    `yₖ`, a covered `yₖ` occurs within the first `edges l₀ + 1 ≤ (n+1)² + 1` steps -/
theorem C05.zones_chain_first_stationary {n : Nat} (ew : Zone n → Fin (n + 1) → Fin (n + 1) → W)
    (l0 : Zone n) (xs ys : Nat → ZVal n) (h0 : xs 0 = some l0)
    (hstep : ∀ k, xs (k + 1) = widenE ew (xs k) (ys k)) :
    ∃ k, k ≤ edges l0 ∧ k ≤ (n + 1) * (n + 1) ∧ leqE ew (ys k) (xs k) = true := by
  have key := chain_first_stationary_on (A := ZVal n) (B := ZVal n) (fun x => x.isSome = true)
    (leqE ew) (widenE ew) (fun x => (zmeas x).2)
    (by
      intro x y hx
      cases x with
      | none => cases hx
      | some l => cases y <;> rfl)
    (by
      intro x y hx h
      cases x with
      | none => cases hx
      | some l =>
        cases y with
        | none => simp [leqE] at h
        | some r => exact edges_widenBy_lt h)
    xs ys (by rw [h0]; rfl) hstep
  obtain ⟨k, hk, hl⟩ := key
  rw [h0] at hk
  have hb := edges_le l0
  exact ⟨k, hk, Nat.le_trans hk hb, hl⟩

/-! ## why the left operand must not be closed: the two-counter chain -/

open Crab.Zones.TwoCounter

/-- **closing the left operand breaks the chain condition.**  Two counters, start
    `x₀ = {0 ≤ y ≤ x ≤ y+1, x ≤ 1, y ≤ 1}`, further values `yₖ` = the same relation with the bound of
    `x` (even `k`) resp. `y` (odd `k`) raised by one.  If the left operand is closed before each
    widening (`xₖ₊₁ = close(xₖ) ∇ yₖ`), then for **every** `k` the concretisation of `xₖ₊₁`
    contains that of `xₖ`, contains a state that `xₖ` does not, and `yₖ ⋢ xₖ`: an infinite
    strictly ascending chain (the closure re-derives from `y ≤ x ≤ y+1` the bound that the
    previous widening dropped). -/
theorem C05.zones_closed_left_diverges (k : Nat) :
    (∀ σ, γv (badChain splitEw k) σ → γv (badChain splitEw (k + 1)) σ) ∧
    (∃ σ, γv (badChain splitEw (k + 1)) σ ∧ ¬ γv (badChain splitEw k) σ) ∧
    SplitDbm.leq (ys k) (badChain splitEw k) = false :=
  ⟨fun σ => bad_incl splitEw_soundEw k σ, (bad_strict splitEw_readsClosed k).1,
   (bad_strict splitEw_readsClosed k).2⟩

/-- the same for `sparse_dbm_domain` -/
theorem C05.zones_sparse_closed_left_diverges (k : Nat) :
    (∀ σ, γv (badChain sparseEw k) σ → γv (badChain sparseEw (k + 1)) σ) ∧
    (∃ σ, γv (badChain sparseEw (k + 1)) σ ∧ ¬ γv (badChain sparseEw k) σ) ∧
    SparseDbm.leq (ys k) (badChain sparseEw k) = false :=
  ⟨fun σ => bad_incl sparseEw_soundEw k σ, (bad_strict sparseEw_readsClosed k).1,
   (bad_strict sparseEw_readsClosed k).2⟩

/-- the explicit values of the diverging chain: the bounds grow without limit -/
theorem C05.zones_closed_left_chain_values (m : Nat) :
    badChain splitEw (2 * m + 1) = some (formY ((m : Int) + 1)) ∧
    badChain splitEw (2 * m + 2) = some (formX ((m : Int) + 2)) :=
  bad_forms splitEw_readsClosed m

/-- hence the widening with a closed left operand does **not** satisfy the chain condition -/
theorem C05.zones_closed_left_not_wf :
    ¬ WellFounded (C05.StrictStep (SplitDbm.leq (n := 2)) (widenClosedLeft splitEw)) :=
  not_wf_of_chain _ (badChain splitEw)
    (fun k => ⟨ys k, (C05.zones_closed_left_diverges k).2.2, rfl⟩)

/-- on the very same inputs the widening of the code (left operand as it is) reaches the
    relational part `{0 ≤ y ≤ x ≤ y+1}` at step 2 and every later `yₖ` is covered -/
theorem C05.zones_two_counter_stabilises (k : Nat) (hk : 2 ≤ k) :
    goodChain splitEw k = some rel ∧ SplitDbm.leq (ys k) (goodChain splitEw k) = true :=
  good_forms splitEw_readsClosed k hk

/-! ## non-vacuity -/

/-- a strict step on concrete graphs: `x ≤ 1` is dropped, 5 edges become 4 -/
example : SplitDbm.leq (ys 0) x0 = false ∧ SplitDbm.widen x0 (ys 0) = some (rawY 1) ∧
    edges (raw 1 1) = 5 ∧ edges (rawY 1) = 4 := by
  refine ⟨(C05.zones_closed_left_diverges 0).2.2, ?_, by decide, by decide⟩
  show some (widenBy (splitEw (raw (((0 / 2 : Nat) : Int) + 2) ((((0 + 1) / 2 : Nat) : Int) + 1))) (raw 1 1)) = _
  congr 1 <;> exact widenBy_raw_dropX (splitEw_readsClosed _ _ (by omega) (by omega) (by omega))
    (by omega) (by omega)

/-- the hypotheses of `C05.zones_leq_sound` / `C05.zones_leq_iff_stationary` are satisfiable -/
example : NoSelfLoop rel ∧ SoundEw (n := 2) splitEw ∧ γv (some rel) (st 3 2) := by
  refine ⟨noSelfLoop_rel, splitEw_soundEw, ?_⟩
  simp [γv, rel, γ_m3_st]

/-- `C05.zones_chain_first_stationary` applies to the two-counter chain -/
example : ∃ k, k ≤ 5 ∧ SplitDbm.leq (ys k) (goodChain splitEw k) = true := by
  obtain ⟨k, h1, _, h3⟩ := C05.zones_chain_first_stationary splitEw (raw 1 1) (goodChain splitEw) ys rfl
    (fun _ => rfl)
  have : edges (raw 1 1) = 5 := by decide
  exact ⟨k, by omega, h3⟩
