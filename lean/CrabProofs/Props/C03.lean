import CrabModel.Dom.History
import CrabProofs.Props.C08

/-!
# C03 — every abstract-domain operation is sound under arbitrary operation histories

Generic part: for ANY domain whose individual operations satisfy their soundness law
(`Step.Sound`), the value held in every pool slot after ANY finite history contains the
collecting semantics of that history.  Nothing is assumed about monotonicity, normal forms or
sharing: only the per-operation laws, so lazily normalised representations are covered as long
as each operation is sound on whatever representation it receives.
-/
open Crab Crab.Dom

theorem C03.step_sound {A S : Type} (γ : A → S → Prop) (st : Step A S) (hs : st.Sound γ)
    (p : Pool A) (c : CPool S) (h : ∀ i s, c i s → γ (p i) s) :
    ∀ i s, (st.coll c) i s → γ ((st.run p) i) s := by
  intro i s hc
  cases st with
  | trans d t =>
    simp only [Step.coll, CPool.set, Step.run, Pool.set] at hc ⊢
    split
    · rename_i hi; simp only [hi, if_true] at hc
      obtain ⟨s0, h0, hr⟩ := hc
      exact hs _ _ _ (h d s0 h0) hr
    · rename_i hi; simp only [hi, if_false] at hc; exact h i s hc
  | upper d a b g =>
    simp only [Step.coll, CPool.set, Step.run, Pool.set] at hc ⊢
    split
    · rename_i hi; simp only [hi, if_true] at hc
      exact hs _ _ _ (hc.elim (fun x => Or.inl (h a s x)) (fun x => Or.inr (h b s x)))
    · rename_i hi; simp only [hi, if_false] at hc; exact h i s hc
  | lower d a b g =>
    simp only [Step.coll, CPool.set, Step.run, Pool.set] at hc ⊢
    split
    · rename_i hi; simp only [hi, if_true] at hc
      exact hs _ _ _ (h a s hc.1) (h b s hc.2)
    · rename_i hi; simp only [hi, if_false] at hc; exact h i s hc
  | copy d s0 =>
    simp only [Step.coll, CPool.set, Step.run, Pool.set] at hc ⊢
    split
    · rename_i hi; simp only [hi, if_true] at hc; exact h s0 s hc
    · rename_i hi; simp only [hi, if_false] at hc; exact h i s hc
  | setBot d bot =>
    simp only [Step.coll, CPool.set, Step.run, Pool.set] at hc ⊢
    split
    · rename_i hi; simp only [hi, if_true] at hc
    · rename_i hi; simp only [hi, if_false] at hc; exact h i s hc

/-- **History soundness** — by induction on the history, for every pool size, every history
    length and every interleaving of copies, transformers and lattice operations. -/
theorem C03.history_sound {A S : Type} (γ : A → S → Prop) (hist : List (Step A S))
    (hs : ∀ st ∈ hist, st.Sound γ) (p : Pool A) (c : CPool S)
    (h : ∀ i s, c i s → γ (p i) s) :
    ∀ i s, (collHist c hist) i s → γ ((runHist p hist) i) s := by
  induction hist generalizing p c with
  | nil => simpa [collHist, runHist] using h
  | cons st rest ih =>
    simp only [collHist, runHist, List.foldl_cons]
    exact ih (fun x hx => hs x (List.mem_cons_of_mem _ hx)) _ _
      (C03.step_sound γ st (hs st (List.mem_cons_self)) p c h)

/-- a slot whose collecting semantics is inhabited is never reported bottom (for any sound
    bottom test) -/
theorem C03.not_bottom_if_inhabited {A S : Type} (γ : A → S → Prop) (isBot : A → Bool)
    (hb : ∀ a s, isBot a = true → ¬ γ a s)
    (hist : List (Step A S)) (hs : ∀ st ∈ hist, st.Sound γ) (p : Pool A) (c : CPool S)
    (h : ∀ i s, c i s → γ (p i) s) (i : Nat) (s : S) (hc : (collHist c hist) i s) :
    isBot ((runHist p hist) i) = false := by
  cases hbb : isBot ((runHist p hist) i)
  · rfl
  · exact absurd (C03.history_sound γ hist hs p c h i s hc) (hb _ _ hbb)

/-- instance of the per-step laws for the interval scalar (a one-variable domain): join and
    widening are `upper` steps, meet and narrowing `lower` steps, `x := x * k` a transformer -/
example : (Step.upper 0 0 1 Itv.join : Step Itv Int).Sound (fun i k => Itv.mem k i) :=
  fun a b s h => h.elim Itv.join_upper_left Itv.join_upper_right
example : (Step.upper 0 0 1 Itv.widen : Step Itv Int).Sound (fun i k => Itv.mem k i) :=
  fun a b s h => h.elim Itv.widen_upper_left Itv.widen_upper_right
example : (Step.lower 0 0 1 Itv.narrow : Step Itv Int).Sound (fun i k => Itv.mem k i) :=
  fun a b s ha hb => Itv.narrow_sound ha hb
example (k : Int) : (Step.trans 0 ⟨fun i => Itv.mul i (Itv.single k), fun s s' => s' = s * k⟩ : Step Itv Int).Sound
    (fun i k => Itv.mem k i) :=
  fun a s s' h hr => by subst hr; exact Itv.mul_sound h ((Itv.mem_single k k).2 rfl)
