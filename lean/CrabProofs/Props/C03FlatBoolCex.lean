import CrabProofs.Props.C03FlatBool

/-!
# C03 for `flat_boolean_numerical_domain`: the meet-like operations, regressions, non-vacuity

All on the concrete lawful instance `FBInst.N0` (`Lemmas/FunctorFlatBoolInst.lean`): constraints
`x ≥ k`, `x < k`, `true`, `false`; a base value is the list of the constraints asserted so far.
Variables are numbers: `0..9` numerical, `10..` Boolean.

## genuine defect: `operator&`, `operator&=`, `operator&&` revive stale constraints

`m_unchanged_vars & other.m_unchanged_vars` is the meet of `dual_set_domain`, i.e. the UNION of the
two sets, and the maps are united too.  A constraint recorded by one operand whose variable was
changed afterwards (so: not marked there) becomes usable again when the OTHER operand marks that
variable.  Real code (`flat_boolean_numerical_domain<interval_domain>`, replay with
`python3 tools/hrun.py h_dom2_14 --source h_dom2 --define -DVDOM=14 -- --ops file`):

    (dom2.hist flat-bool-intervals (params) (ops (bcst 0 b0 (lt (lin 0 (-1 v0)))) (arith 0 sub v0 v0 5)
       (bcst 1 b1 (le (lin -100 (1 v0)))) (meet 2 0 1) (bassume 2 b0 0)))

answers `v0 ∈ [1, +oo]` for slot 2, although the state `v0 = -3, b0 = b1 = true` is produced by
both operand histories (from `v0 = 2`: `b0 := (v0 > 0); v0 := v0 - 5`, and from `v0 = -3`:
`b1 := (v0 <= 100)`) and passes `assume(b0)`.  Same with `narrow` and `copy; meeteq`.
-/
set_option linter.unusedSimpArgs false
open Crab Crab.Dom Crab.Dom.Fct Crab.Dom.Fct.FBInst

namespace C03FB
def isB (v : Nat) : Bool := decide (10 ≤ v)
def T : St0 := FBN.top
/-- `v0 := v0 - 5` -/
def rSub5 (s s' : CSt Nat) : Prop := s' = s.setN 0 (s.num 0 - 5)
/-- `b10 := (v0 ≥ 1); v0 := v0 - 5` -/
def A : St0 := FBN.numDef .apply (fforget 0) 0 (FBN.assignBoolCst id 10 (.ge 0 1) T)
/-- `b11 := (v0 < 101)` -/
def B : St0 := FBN.assignBoolCst id 11 (.lt 0 101) T
def p0 : Pool St0 := fun _ => T
def c0 : CPool (CSt Nat) := fun _ _ => True
def sInit : CSt Nat := ⟨fun v => if v = 0 then 2 else 0, fun _ => true⟩
/-- `v0 = -3`, every Boolean true -/
def s0 : CSt Nat := (sInit.setB 10 true).setN 0 (-3)

end C03FB
open C03FB

theorem C03.flatbool_cex_defines : FBN.DefinesNum 0 rSub5 := fun s _ h => ⟨s.num 0 - 5, h⟩

/-- the state `v0 = -3, b10 = true` is a state of `b10 := (v0 ≥ 1); v0 := v0 - 5` (from `v0 = 2`) -/
theorem C03.flatbool_cex_in_A : A.γ s0 := by
  have h1 : (FBN.assignBoolCst id 10 (C0.ge 0 1) T).γ (sInit.setB 10 true) :=
    FBN.assignBoolCst_sound (N := N0) (id_sound_bool 10 _) (FBN.γ_top sInit)
      ⟨true, by simp [K0, C0.holds, sInit], rfl⟩
  exact FBN.numDef_sound .apply (fforget_sound 0 rSub5 C03.flatbool_cex_defines) C03.flatbool_cex_defines h1 (by
    show s0 = (sInit.setB 10 true).setN 0 ((sInit.setB 10 true).num 0 - 5)
    rfl)

/-- ... and of `b11 := (v0 < 101)` -/
theorem C03.flatbool_cex_in_B : B.γ s0 := by
  have := FBN.assignBoolCst_sound (N := N0) (x := 11) (c := C0.lt 0 101) (id_sound_bool 11 _)
    (FBN.γ_top s0) ⟨true, by simp [K0, C0.holds, s0, CSt.setN], rfl⟩
  have e : s0.setB 11 true = s0 := FEnv.setB_self s0 11
  rw [e] at this; exact this

/-- ... and of none of `A & B`, `A &= B`, `A && B` -/
theorem C03.flatbool_cex_not_in_meet : ¬ (FBN.meet A B).γ s0 ∧ ¬ (FBN.meetEq A B).γ s0 ∧ ¬ (FBN.narrow A B).γ s0 := by
  have key : ∀ (m : St0), (m.lin.look 10).mem (C0.ge 0 1) = true → FBN.unchanged (K := K0) m.unch (C0.ge 0 1) = true →
      ¬ m.γ s0 := by
    intro m h1 h2 hg
    have := (hg.2.2.2.2.1 10 (C0.ge 0 1) h1 h2).1 rfl
    simp [K0, C0.holds, s0, CSt.setN] at this
  exact ⟨key _ (by rfl) (by rfl), key _ (by rfl) (by rfl), key _ (by rfl) (by rfl)⟩

/-- full statement: `&`, `&=`, `&&` keep the states common to both operands -/
def C03.flatbool_meet_sound_Statement : Prop :=
  ∀ (V : Type) [DecidableEq V] (K : CSig V) (N : BNDom V K) (a b : FBN N) (s : CSt V),
    a.γ s → b.γ s → (FBN.meet a b).γ s ∧ (FBN.meetEq a b).γ s ∧ (FBN.narrow a b).γ s

/-- ... they do when both operands mark the same variables unchanged -/
theorem C03.flatbool_meet_sound_partial {V : Type} [DecidableEq V] {K : CSig V} {N : BNDom V K}
    (a b : FBN N) (s : CSt V) (hs : FBN.sameUnch a b = true) (ha : a.γ s) (hb : b.γ s) :
    (FBN.meet a b).γ s ∧ (FBN.meetEq a b).γ s ∧ (FBN.narrow a b).γ s :=
  FBN.meet_sound_of_sameUnch hs ha hb

/-- ... and not in general: `(b10 := (v0 ≥ 1); v0 := v0 - 5) & (b11 := (v0 < 101))` claims
    `b10 ⇔ v0 ≥ 1` with `v0` unchanged; the state `v0 = -3, b10 = true` of both operands is lost -/
theorem C03.flatbool_meet_sound_counterexample : ¬ C03.flatbool_meet_sound_Statement := by
  intro h
  exact C03.flatbool_cex_not_in_meet.1 (h Nat K0 N0 C03FB.A C03FB.B C03FB.s0 C03.flatbool_cex_in_A C03.flatbool_cex_in_B).1

/-- the hypothesis of the partial theorem is satisfiable by non-trivial values, and fails on the
    counterexample -/
example : FBN.sameUnch C03FB.B C03FB.B = true ∧ FBN.sameUnch C03FB.A C03FB.B = false := by
  constructor <;> rfl

/-- what the lost state costs: after `assume(b10)` on the meet the BASE holds `v0 ≥ 1` -/
theorem C03.flatbool_meet_then_assume_observable :
    (FBN.assumeBool id 10 false (FBN.meet C03FB.A C03FB.B)).prod.snd = [C0.ge 0 1] ∧
    ¬ C0.holds (C0.ge 0 1) C03FB.s0.num := by
  constructor
  · rfl
  · simp [C0.holds, C03FB.s0, CSt.setN]

/-- the history-level statement fails with it -/
theorem C03.flatbool_history_sound_counterexample : ¬ C03.flatbool_history_sound_Statement := by
  intro h
  let ops : List (FBN.Op N0) :=
    [.bcst 0 id 10 (C0.ge 0 1), .numDef 0 .apply (fforget 0) 0 C03FB.rSub5,
     .bcst 1 id 11 (C0.lt 0 101), .meet 2 0 1]
  have hops : ∀ op ∈ ops, op.BaseSound C03FB.isB := by
    intro op hop
    simp only [ops, List.mem_cons, List.not_mem_nil, or_false] at hop
    rcases hop with rfl | rfl | rfl | rfl
    · exact id_sound_bool 10 _
    · exact ⟨fforget_sound 0 _ C03.flatbool_cex_defines, C03.flatbool_cex_defines⟩
    · exact id_sound_bool 11 _
    · trivial
  have := h Nat K0 N0 C03FB.isB ops hops C03FB.p0 C03FB.c0 (fun _ s _ => FBN.γ_top s)
    2 C03FB.s0 (by
      simp only [ops, collHist, FBN.toHist, List.map_cons, List.map_nil, List.foldl_cons, List.foldl_nil,
        FBN.Op.toStep, Step.coll, CPool.set, C03FB.c0]
      simp only [if_true]
      refine ⟨?_, ?_⟩
      · -- slot 0
        simp only [show (0 : Nat) ≠ 1 by decide, show (0 : Nat) ≠ 2 by decide, if_false, if_true]
        exact ⟨C03FB.sInit.setB 10 true,
          ⟨C03FB.sInit, trivial, true, by simp [K0, C0.holds, C03FB.sInit], rfl⟩, rfl⟩
      · -- slot 1
        simp only [show (1 : Nat) ≠ 0 by decide, if_false, if_true]
        exact ⟨C03FB.s0, trivial, true, by simp [K0, C0.holds, C03FB.s0, CSt.setN],
          (FEnv.setB_self C03FB.s0 11).symm⟩)
  exact C03.flatbool_cex_not_in_meet.1 this

/-! ## regressions: the histories of the old defects on the CURRENT model

Each statement evaluates the model on the history of a fixed defect of
`flat_boolean_numerical_domain` (commit in the name) and shows what the value holds afterwards; the
soundness theorems above guarantee that nothing else can happen, these show that the histories run
through the branches in question (non-vacuity) and pin the behaviour. `bK` = variable `10 + K`. -/
namespace C03FB
/-- what a value holds: the two maps, the unchanged set, the flat environment, the base -/
def view (a : St0) := (a.lin, a.bools, a.unch, a.prod.fst, a.prod.snd)
abbrev bcst (x : Nat) (c : C0) (a : St0) : St0 := FBN.assignBoolCst id x c a
abbrev bvar (x y : Nat) (neg : Bool) (a : St0) : St0 := FBN.assignBoolVar id x y neg a
abbrev bassume (x : Nat) (a : St0) : St0 := FBN.assumeBool id x false a
abbrev assign (x : Nat) (a : St0) : St0 := FBN.numDef .assign (fforget x) x a
end C03FB
open C03FB

/-- the reduction does fire: `b0 := (v0 ≥ 1); assume(b0)` gives `v0 ≥ 1` to the base; through a
    negation: `b1 := not(b0); assume(b1)` gives `v0 < 1` -/
theorem C03.flatbool_reduction_fires :
    (bassume 10 (bcst 10 (.ge 0 1) T)).prod.snd = [C0.ge 0 1] ∧
    (bassume 11 (bvar 11 10 true (bcst 10 (.ge 0 1) T))).prod.snd = [C0.lt 0 1] := ⟨rfl, rfl⟩

/-- a80cc0d (stale constraint revived by a later `b := cst` on the same variable):
    `b0 := (v0 ≥ 1); v0 := *; b1 := (v0 < 5); assume(b0)` — the entry of `b0` is gone, the base
    learns nothing -/
theorem C03.flatbool_regress_a80cc0d :
    view (bassume 10 (bcst 11 (.lt 0 5) (assign 0 (bcst 10 (.ge 0 1) T)))) =
      (.env [(11, [C0.lt 0 5])], .env [], .fin [0], .env [(10, true)], []) := rfl

/-- 54ec9a1 (`b1 := b0; b0 := not(b0); assume(b1)`): `b1 implies b0` is forgotten when `b0` is
    redefined, `b0` stays unknown -/
theorem C03.flatbool_regress_54ec9a1 :
    view (bassume 11 (bvar 10 10 true (bvar 11 10 false T))) =
      (.env [], .env [], .fin [], .env [(11, true)], []) := rfl

/-- 4866b89 (`b0 := (v0 ≥ 1); b0 := true; v0 := *; assume(b0)`): the constant definition removes the
    old entry -/
theorem C03.flatbool_regress_4866b89 :
    view (bassume 10 (assign 0 (bcst 10 .tru (bcst 10 (.ge 0 1) T)))) =
      (.env [], .env [], .fin [], .env [(10, true)], []) := rfl

/-- 2ee56db (`b0 := (v0 ≥ 1); b0 := not(b1)` with nothing recorded for `b1`; `assume(b0)`) -/
theorem C03.flatbool_regress_2ee56db :
    view (bassume 10 (bvar 10 11 true (bcst 10 (.ge 0 1) T))) =
      (.env [], .env [], .fin [0], .env [(10, true)], []) := rfl

/-- 8d85025 (`b0 := (v0 ≥ 1); b0 := trunc(v1); assume(b0)`) -/
theorem C03.flatbool_regress_8d85025 :
    view (bassume 10 (FBN.castTrunc 10 1 (bcst 10 (.ge 0 1) T))) =
      (.env [], .env [], .fin [0], .env [(10, true)], []) := rfl

/-- 67052d5, 6293d89: a value with a recorded implication is not top, and top is not below it -/
theorem C03.flatbool_regress_67052d5_6293d89 :
    FBN.isTop (bcst 10 (.ge 0 1) T) = false ∧ FBN.leq T (bcst 10 (.ge 0 1) T) = false ∧
    FBN.leq (bcst 10 (.ge 0 1) T) T = true := ⟨rfl, rfl, rfl⟩

/-- 945538d (`forget` on a value whose product is top): `b0 := (v0 ≥ 1); forget(v0); assume(b0)` -/
theorem C03.flatbool_regress_945538d :
    view (bassume 10 (FBN.forget isB (fforget 0) [0] (bcst 10 (.ge 0 1) T))) =
      (.env [(10, [C0.ge 0 1])], .env [], .fin [], .env [(10, true)], []) := rfl

/-- bb23efe (`b0 := (v1 ≥ 1); expand(v0, v1); assume(b0)`): `v1` is marked as changed -/
theorem C03.flatbool_regress_bb23efe :
    view (bassume 10 (FBN.expand isB (fforget 1) 0 1 (bcst 10 (.ge 1 1) T))) =
      (.env [(10, [C0.ge 1 1])], .env [], .fin [], .env [(10, true)], []) := rfl

/-- 8b4b7ba (an empty `rename` keeps `b1 implies b0`) -/
theorem C03.flatbool_regress_8b4b7ba :
    (FBN.rename isB id [] [] (bvar 11 10 false T)).bools = .env [(11, [10])] := rfl

/-- 26c913b / f6e88df (`b2 := false; b3 := select(b1, b0, b2)` only IMPLIES `b1 and b0`):
    the implication is used positively (`assume(b3)` reaches `v0 ≥ 1` through `b0`), and nothing is
    negated: `b4 := not(b3); assume(b4)` teaches the base nothing -/
theorem C03.flatbool_regress_26c913b :
    let a := FBN.selectBool id id 13 11 10 12 (bcst 12 .fls (bcst 10 (.ge 0 1) T))
    a.lin = .env [(10, [C0.ge 0 1])] ∧ a.bools = .env [(13, [10, 11])] ∧
    (bassume 13 a).prod.snd = [C0.ge 0 1] ∧ (bassume 14 (bvar 14 13 true a)).prod.snd = [] :=
  ⟨rfl, rfl, rfl, rfl⟩

/-- the same history on a select whose operand is the result itself (f6e88df):
    `b0 := select(b1, b0, b2)` reads `b0` before it is assigned -/
example : (FBN.selectBool id id 10 11 10 12 (bcst 12 .fls (bcst 10 (.ge 0 1) T))).prod.fst =
    .env [(12, false)] := rfl

/-! ## the suggested fix of `&`, `&=`, `&&` is sound

Take the dual JOIN (intersection) of the two unchanged-variable sets instead of the dual meet:
`m_unchanged_vars | other.m_unchanged_vars`.  Every constraint of the united maps that is usable in
the result is then usable in the operand it comes from. -/

/-- `operator&` with the suggested fix (`meetLike` = `Prod2.meet`, `Prod2.meetEq` or `Prod2.narrow`) -/
def C03FB.meetFixed {V : Type} [DecidableEq V] {K : CSig V} {N : BNDom V K}
    (meetLike : Prod2 (FB V) N.toLDom → Prod2 (FB V) N.toLDom → Prod2 (FB V) N.toLDom) (a b : FBN N) : FBN N :=
  ⟨meetLike a.prod b.prod, a.lin.meet b.lin, a.bools.meet b.bools, a.unch.join b.unch⟩

theorem C03.flatbool_meet_fix_sound {V : Type} [DecidableEq V] {K : CSig V} {N : BNDom V K}
    (meetLike : Prod2 (FB V) N.toLDom → Prod2 (FB V) N.toLDom → Prod2 (FB V) N.toLDom)
    (hm : ∀ p q s, p.γ s → q.γ s → (meetLike p q).γ s) (a b : FBN N) (s : CSt V) (ha : a.γ s) (hb : b.γ s) :
    (C03FB.meetFixed meetLike a b).γ s := by
  obtain ⟨hp, hlb, hbb, hub, hL, hB⟩ := ha
  obtain ⟨hp', hlb', hbb', hub', hL', hB'⟩ := hb
  refine ⟨hm _ _ _ hp hp', by simp [C03FB.meetFixed, SEnv.isBot_meet, hlb, hlb'],
    by simp [C03FB.meetFixed, SEnv.isBot_meet, hbb, hbb'],
    by simp [C03FB.meetFixed, DSet.isBot_join, hub], ?_, ?_⟩
  · intro k c hc hu
    simp only [C03FB.meetFixed, SEnv.look_meet, DSet.mem_meet] at hc
    simp only [C03FB.meetFixed] at hu
    rw [FBN.unchanged_iff] at hu
    rcases hc with hc | hc
    · exact hL k c hc ((FBN.unchanged_iff _ _).2 (fun v hv => ((DSet.mem_join _ _ v).1 (hu v hv)).1))
    · exact hL' k c hc ((FBN.unchanged_iff _ _).2 (fun v hv => ((DSet.mem_join _ _ v).1 (hu v hv)).2))
  · intro k k' hk
    simp only [C03FB.meetFixed, SEnv.look_meet, DSet.mem_meet] at hk
    rcases hk with hk | hk
    · exact hB k k' hk
    · exact hB' k k' hk

/-- on the counterexample the fixed meet keeps the state and `assume(b10)` adds nothing -/
example : (C03FB.meetFixed Prod2.meet A B).γ s0 ∧
    (FBN.assumeBool id 10 false (C03FB.meetFixed Prod2.meet A B)).prod.snd = [] :=
  ⟨C03.flatbool_meet_fix_sound Prod2.meet (fun _ _ _ hp hq => Prod2.meet_sound hp hq) A B s0
    C03.flatbool_cex_in_A C03.flatbool_cex_in_B, rfl⟩
