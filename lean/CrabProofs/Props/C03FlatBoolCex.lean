import CrabProofs.Props.C03FlatBool

/-!
# C03 for `flat_boolean_numerical_domain`: the old meet, regressions, non-vacuity, `+=` on Booleans

All on the concrete lawful instance `FBInst.N0` (`Lemmas/FunctorFlatBoolInst.lean`): constraints
`x ≥ k`, `x < k`, `true`, `false`; a base value is the list of the constraints asserted so far.
Variables are numbers: `0..9` numerical, `10..` Boolean.

## defect of the pinned tree, FIXED by repo commit ef2ddd6: `&`, `&=`, `&&` revived stale constraints

`m_unchanged_vars & other.m_unchanged_vars` is the meet of `dual_set_domain`, i.e. the UNION of the
two sets, and the maps are united too.  A constraint recorded by one operand whose variable was
changed afterwards (so: not marked there) became usable again when the OTHER operand marked that
variable.  Model of that behaviour: `FBN.meetOld`, `FBN.meetEqOld`, `FBN.narrowOld` (NOT the current
code).  On the tree before ef2ddd6 (`flat_boolean_numerical_domain<interval_domain>`, replay with
`python3 tools/hrun.py h_dom2_14 --source h_dom2 --define -DVDOM=14 -- --ops file`):

    (dom2.hist flat-bool-intervals (params) (ops (bcst 0 b0 (lt (lin 0 (-1 v0)))) (arith 0 sub v0 v0 5)
       (bcst 1 b1 (le (lin -100 (1 v0)))) (meet 2 0 1) (bassume 2 b0 0)))

answered `v0 ∈ [1, +oo]` for slot 2, although the state `v0 = -3, b0 = b1 = true` is produced by
both operand histories (from `v0 = 2`: `b0 := (v0 > 0); v0 := v0 - 5`, and from `v0 = -3`:
`b1 := (v0 <= 100)`) and passes `assume(b0)`.  Same with `narrow` and `copy; meeteq`.  The fix
(intersection of the marks: `m_unchanged_vars | other.m_unchanged_vars`) is what `FBN.meet` models
now; it is proved sound in `C03.flatbool_meet_sound` and the history below is a regression.
-/
set_option linter.unusedSimpArgs false
open Crab Crab.Dom Crab.Dom.Fct Crab.Dom.Fct.FBInst

namespace C03FB
def isB (v : Nat) : Bool := decide (10 ≤ v)
def T : St0 := FBN.top
/-- `v0 := v0 - 5` -/
def rSub5 (s s' : CSt Nat) : Prop := s' = s.setN 0 (s.num 0 - 5)
/-- `b10 := (v0 ≥ 1); v0 := v0 - 5` -/
def A : St0 := FBN.numDef .apply (fforget 0) 0 (FBN.assignBoolCst id 10 (.ge 0 1) T)
/-- `b11 := (v0 < 101)` -/
def B : St0 := FBN.assignBoolCst id 11 (.lt 0 101) T
def sInit : CSt Nat := ⟨fun v => if v = 0 then 2 else 0, fun _ => true⟩
/-- `v0 = -3`, every Boolean true -/
def s0 : CSt Nat := (sInit.setB 10 true).setN 0 (-3)
end C03FB
open C03FB

theorem C03.flatbool_cex_defines : FBN.DefinesNum 0 rSub5 := fun s _ h => ⟨s.num 0 - 5, h⟩

/-- the state `v0 = -3, b10 = true` is a state of `b10 := (v0 ≥ 1); v0 := v0 - 5` (from `v0 = 2`) -/
theorem C03.flatbool_cex_in_A : A.γ s0 := by
  have h1 : (FBN.assignBoolCst id 10 (C0.ge 0 1) T).γ (sInit.setB 10 true) :=
    FBN.assignBoolCst_sound (N := N0) (id_sound_bool 10 _) (FBN.γ_top sInit)
      ⟨true, by simp [K0, C0.holds, sInit], rfl⟩
  exact FBN.numDef_sound .apply (fforget_sound 0 rSub5 C03.flatbool_cex_defines) C03.flatbool_cex_defines h1 (by
    show s0 = (sInit.setB 10 true).setN 0 ((sInit.setB 10 true).num 0 - 5)
    rfl)

/-- ... and of `b11 := (v0 < 101)` -/
theorem C03.flatbool_cex_in_B : B.γ s0 := by
  have := FBN.assignBoolCst_sound (N := N0) (x := 11) (c := C0.lt 0 101) (id_sound_bool 11 _)
    (FBN.γ_top s0) ⟨true, by simp [K0, C0.holds, s0, CSt.setN], rfl⟩
  have e : s0.setB 11 true = s0 := FEnv.setB_self s0 11
  rw [e] at this; exact this

/-- ... and of none of the OLD `A & B`, `A &= B`, `A && B` (pinned tree, before ef2ddd6) -/
theorem C03.flatbool_cex_not_in_meetOld :
    ¬ (FBN.meetOld A B).γ s0 ∧ ¬ (FBN.meetEqOld A B).γ s0 ∧ ¬ (FBN.narrowOld A B).γ s0 := by
  have key : ∀ (m : St0), (m.lin.look 10).mem (C0.ge 0 1) = true →
      FBN.unchanged (K := K0) m.unch (C0.ge 0 1) = true → ¬ m.γ s0 := by
    intro m h1 h2 hg
    have := (hg.2.2.2.2.1 10 (C0.ge 0 1) h1 h2).1 rfl
    simp [K0, C0.holds, s0, CSt.setN] at this
  exact ⟨key _ (by rfl) (by rfl), key _ (by rfl) (by rfl), key _ (by rfl) (by rfl)⟩

/-- **pinned-tree behaviour, fixed by repo commit ef2ddd6** (replay line in the header): the old
    `&`, `&=`, `&&` (union of the unchanged-variable sets) lose states common to both operands:
    `(b10 := (v0 ≥ 1); v0 := v0 - 5) & (b11 := (v0 < 101))` claimed `b10 ⇔ v0 ≥ 1` with `v0`
    unchanged and lost `v0 = -3, b10 = true` -/
theorem C03.flatbool_meetOld_counterexample :
    ¬ (∀ (V : Type) [DecidableEq V] (K : CSig V) (N : BNDom V K) (a b : FBN N) (s : CSt V),
        a.γ s → b.γ s → (FBN.meetOld a b).γ s ∧ (FBN.meetEqOld a b).γ s ∧ (FBN.narrowOld a b).γ s) := by
  intro h
  exact C03.flatbool_cex_not_in_meetOld.1
    (h Nat K0 N0 A B s0 C03.flatbool_cex_in_A C03.flatbool_cex_in_B).1

/-- what the lost state cost: after `assume(b10)` on the OLD meet the base held `v0 ≥ 1` -/
theorem C03.flatbool_meetOld_then_assume_observable :
    (FBN.assumeBool id 10 false (FBN.meetOld A B)).prod.snd = [C0.ge 0 1] ∧
    ¬ C0.holds (C0.ge 0 1) s0.num := by
  constructor
  · rfl
  · simp [C0.holds, s0, CSt.setN]

/-- regression for ef2ddd6 on the CURRENT model: the meet keeps the state, marks nothing unchanged
    (`v0` is marked by one operand only), and `assume(b10)` teaches the base nothing -/
theorem C03.flatbool_regress_ef2ddd6 :
    (FBN.meet A B).γ s0 ∧ (FBN.meet A B).unch = .fin [] ∧
    (FBN.meet A B).lin = .env [(10, [C0.ge 0 1]), (11, [C0.lt 0 101])] ∧
    (FBN.assumeBool id 10 false (FBN.meet A B)).prod.snd = [] ∧
    (FBN.assumeBool id 10 false (FBN.narrow A B)).prod.snd = [] ∧
    (FBN.assumeBool id 10 false (FBN.meetEq A B)).prod.snd = [] :=
  ⟨FBN.meet_sound C03.flatbool_cex_in_A C03.flatbool_cex_in_B, rfl, rfl, rfl, rfl, rfl⟩

/-- the meet still transmits what BOTH operands can use: `(b10 := (v0 ≥ 1)) & (b11 := (v0 < 101))`
    followed by `assume(b10)` reaches `v0 ≥ 1` -/
example : (FBN.assumeBool id 10 false (FBN.meet (FBN.assignBoolCst (N := N0) id 10 (C0.ge 0 1) T) B)).prod.snd =
    [C0.ge 0 1] := rfl

/-! ## regressions: the histories of the old defects on the CURRENT model

Each statement evaluates the model on the history of a fixed defect of
`flat_boolean_numerical_domain` (commit in the name) and shows what the value holds afterwards; the
soundness theorems above guarantee that nothing else can happen, these show that the histories run
through the branches in question (non-vacuity) and pin the behaviour. `bK` = variable `10 + K`. -/
namespace C03FB
/-- what a value holds: the two maps, the unchanged set, the flat environment, the base -/
def view (a : St0) := (a.lin, a.bools, a.unch, a.prod.fst, a.prod.snd)
abbrev bcst (x : Nat) (c : C0) (a : St0) : St0 := FBN.assignBoolCst id x c a
abbrev bvar (x y : Nat) (neg : Bool) (a : St0) : St0 := FBN.assignBoolVar id x y neg a
abbrev bassume (x : Nat) (a : St0) : St0 := FBN.assumeBool id x false a
abbrev assign (x : Nat) (a : St0) : St0 := FBN.numDef .assign (fforget x) x a
end C03FB
open C03FB

/-- the reduction does fire: `b0 := (v0 ≥ 1); assume(b0)` gives `v0 ≥ 1` to the base; through a
    negation: `b1 := not(b0); assume(b1)` gives `v0 < 1` -/
theorem C03.flatbool_reduction_fires :
    (bassume 10 (bcst 10 (.ge 0 1) T)).prod.snd = [C0.ge 0 1] ∧
    (bassume 11 (bvar 11 10 true (bcst 10 (.ge 0 1) T))).prod.snd = [C0.lt 0 1] := ⟨rfl, rfl⟩

/-- a80cc0d (stale constraint revived by a later `b := cst` on the same variable):
    `b0 := (v0 ≥ 1); v0 := *; b1 := (v0 < 5); assume(b0)` — the entry of `b0` is gone, the base
    learns nothing -/
theorem C03.flatbool_regress_a80cc0d :
    view (bassume 10 (bcst 11 (.lt 0 5) (assign 0 (bcst 10 (.ge 0 1) T)))) =
      (.env [(11, [C0.lt 0 5])], .env [], .fin [0], .env [(10, true)], []) := rfl

/-- 54ec9a1 (`b1 := b0; b0 := not(b0); assume(b1)`): `b1 implies b0` is forgotten when `b0` is
    redefined, `b0` stays unknown -/
theorem C03.flatbool_regress_54ec9a1 :
    view (bassume 11 (bvar 10 10 true (bvar 11 10 false T))) =
      (.env [], .env [], .fin [], .env [(11, true)], []) := rfl

/-- 4866b89 (`b0 := (v0 ≥ 1); b0 := true; v0 := *; assume(b0)`): the constant definition removes the
    old entry -/
theorem C03.flatbool_regress_4866b89 :
    view (bassume 10 (assign 0 (bcst 10 .tru (bcst 10 (.ge 0 1) T)))) =
      (.env [], .env [], .fin [], .env [(10, true)], []) := rfl

/-- 2ee56db (`b0 := (v0 ≥ 1); b0 := not(b1)` with nothing recorded for `b1`; `assume(b0)`) -/
theorem C03.flatbool_regress_2ee56db :
    view (bassume 10 (bvar 10 11 true (bcst 10 (.ge 0 1) T))) =
      (.env [], .env [], .fin [0], .env [(10, true)], []) := rfl

/-- 8d85025 (`b0 := (v0 ≥ 1); b0 := trunc(v1); assume(b0)`) -/
theorem C03.flatbool_regress_8d85025 :
    view (bassume 10 (FBN.castTrunc 10 1 (bcst 10 (.ge 0 1) T))) =
      (.env [], .env [], .fin [0], .env [(10, true)], []) := rfl

/-- 67052d5, 6293d89: a value with a recorded implication is not top, and top is not below it -/
theorem C03.flatbool_regress_67052d5_6293d89 :
    FBN.isTop (bcst 10 (.ge 0 1) T) = false ∧ FBN.leq T (bcst 10 (.ge 0 1) T) = false ∧
    FBN.leq (bcst 10 (.ge 0 1) T) T = true := ⟨rfl, rfl, rfl⟩

/-- 945538d (`forget` on a value whose product is top): `b0 := (v0 ≥ 1); forget(v0); assume(b0)` -/
theorem C03.flatbool_regress_945538d :
    view (bassume 10 (FBN.forget isB (fforget 0) [0] (bcst 10 (.ge 0 1) T))) =
      (.env [(10, [C0.ge 0 1])], .env [], .fin [], .env [(10, true)], []) := rfl

/-- bb23efe (`b0 := (v1 ≥ 1); expand(v0, v1); assume(b0)`): `v1` is marked as changed -/
theorem C03.flatbool_regress_bb23efe :
    view (bassume 10 (FBN.expand isB (fforget 1) 0 1 (bcst 10 (.ge 1 1) T))) =
      (.env [(10, [C0.ge 1 1])], .env [], .fin [], .env [(10, true)], []) := rfl

/-- 8b4b7ba (an empty `rename` keeps `b1 implies b0`) -/
theorem C03.flatbool_regress_8b4b7ba :
    (FBN.rename isB id [] [] (bvar 11 10 false T)).bools = .env [(11, [10])] := rfl

/-- 26c913b / f6e88df (`b2 := false; b3 := select(b1, b0, b2)` only IMPLIES `b1 and b0`):
    the implication is used positively (`assume(b3)` reaches `v0 ≥ 1` through `b0`), and nothing is
    negated: `b4 := not(b3); assume(b4)` teaches the base nothing -/
theorem C03.flatbool_regress_26c913b :
    let a := FBN.selectBool id id 13 11 10 12 (bcst 12 .fls (bcst 10 (.ge 0 1) T))
    a.lin = .env [(10, [C0.ge 0 1])] ∧ a.bools = .env [(13, [10, 11])] ∧
    (bassume 13 a).prod.snd = [C0.ge 0 1] ∧ (bassume 14 (bvar 14 13 true a)).prod.snd = [] :=
  ⟨rfl, rfl, rfl, rfl⟩

/-- the same history on a select whose operand is the result itself (f6e88df):
    `b0 := select(b1, b0, b2)` reads `b0` before it is assigned -/
example : (FBN.selectBool id id 10 11 10 12 (bcst 12 .fls (bcst 10 (.ge 0 1) T))).prod.fst =
    .env [(12, false)] := rfl


/-! ## `operator+=` on an equality over one Boolean: the sign of the constant

The loop of `operator+=` looks at a normalised equality `1*b + k == 0` over a single Boolean `b`
through `exp.constant()` (= `k`) and calls `assume_bool(b, true)` when `k == 0`,
`assume_bool(b, false)` when `k == 1`, nothing otherwise; in all three cases the constraint is NOT
passed on to the numerical domain.  So `b == 1` (which is `b - 1 == 0`, `k = -1`) is ignored and
`b + 1 == 0` (`b = -1`) makes `b` true.  Observed on the real code (`flat-bool-intervals`):
`(assume 0 (eq (lin -1 (1 b0))))` leaves `b0` unknown, `(assume 0 (eq (lin 1 (1 b0))))` gives
`b0 = 1`.  With Booleans read as 0/1 this is a loss of PRECISION only:
* `k = 0`: `b = 0`, the literal `not b` is right;
* `k = 1`: no Boolean satisfies `b + 1 == 0`, the statement has no execution, any answer is sound
  (the precise answer would be bottom);
* other `k` (incl. `k = -1`, the intended `b == 1`): the constraint is dropped, which is the
  identity on states: sound, nothing is learnt. -/

namespace C03FB
/-- the integer reading of a Boolean -/
def b2i (b : Bool) : Int := if b then 1 else 0
/-- `is_negated` of the `assume_bool(b, ·)` call made for `b + k == 0` (`none`: no call) -/
def plusEqLit (k : Int) : Option Bool := if k = 0 then some true else if k = 1 then some false else none
/-- the literals handed to `m_product.first().assume_bool` -/
def plusEqLits (x : Nat) (k : Int) : List (Nat × Bool) :=
  match plusEqLit k with
  | some neg => [(x, neg)]
  | none => []
/-- `assume(b_x + k == 0)` -/
def rPlusEq (x : Nat) (k : Int) (s s' : CSt Nat) : Prop := s' = s ∧ b2i (s.bool x) + k = 0
end C03FB

/-- whenever the code extracts a literal from `b + k == 0`, every 0/1 value of `b` that satisfies
    the equality satisfies the literal (for `k = 1` because there is none) -/
theorem C03.flatbool_add_bool_equality_lit_sound (k : Int) (b neg : Bool)
    (h : plusEqLit k = some neg) (hc : b2i b + k = 0) : b = !neg := by
  unfold plusEqLit at h
  split at h
  · rename_i hk; cases h; subst hk
    cases b <;> simp [b2i] at hc ⊢
  · split at h
    · rename_i hk; cases h; subst hk
      cases b <;> simp [b2i] at hc
    · cases h

/-- the three outcomes: `b == 0` is used, `b == 1` (constant `-1`) is ignored — precision only —,
    and `b + 1 == 0` asks for `b`, which costs nothing because no Boolean satisfies it -/
theorem C03.flatbool_add_bool_equality_sign :
    plusEqLit 0 = some true ∧ plusEqLit (-1) = none ∧ plusEqLit 1 = some false ∧
    (∀ b, b2i b + 1 ≠ 0) ∧ (∀ b, b2i b + (-1) = 0 ↔ b = true) := by
  refine ⟨rfl, rfl, rfl, ?_, ?_⟩
  · intro b; cases b <;> simp [b2i]
  · intro b; cases b <;> simp [b2i]

/-- hence `operator+=` is sound on such an equality whatever `k` is (instance of
    `C03.flatbool_add_constraints_sound` over the test base, the base being given nothing) -/
theorem C03.flatbool_add_bool_equality_sound (x : Nat) (k : Int) (a : St0) (s s' : CSt Nat) (hg : a.γ s)
    (hr : rPlusEq x k s s') : (FBN.addCsts false false (plusEqLits x k) id a).γ s' := by
  apply FBN.addCsts_sound false false (r := rPlusEq x k) (id_sound_filter _ (fun _ _ h => h.1))
    (fun _ _ h => h.1) _ hg hr
  intro t t' ht l hl
  unfold plusEqLits at hl
  cases hlit : plusEqLit k with
  | none => rw [hlit] at hl; cases hl
  | some neg =>
    rw [hlit] at hl
    have : l = (x, neg) := by simpa using hl
    subst this
    exact C03.flatbool_add_bool_equality_lit_sound k _ neg hlit ht.2
