import CrabProofs.Lemmas.DisIntervalOps

/-!
# C08 — disjunctive intervals (`crab::domains::dis_interval<z_number>`)

Property theorems only (helper lemmas: `CrabProofs/Lemmas/DisInterval*.lean`).  `Crab.Dis` is the
branch-by-branch model of the class (state BOT / FINITE / TOP + vector of intervals), tied to the
code by `harness/h_dis.cpp` + `Driver/DisH.lean`.  `Dis.mem k x` is `k ∈ γ(x)`.

* `Dis.WF` is the invariant of the class (what `check_well_formed` tests, plus non-adjacency and the
  bound of 49 disjuncts): BOT / TOP carry no vector, a FINITE value a non-empty vector of fewer than 50
  proper intervals, sorted, pairwise separated by at least one integer.
* `Dis.EWF` only says that the intervals of the vector (any order, overlapping, bottom/top allowed)
  have `lb ≠ +oo`, `ub ≠ -oo`; it is all the arithmetic, `|`, `&`, `normalize`, `trim` need.

The constructor merges all intervals when 50 remain (`max_num_disjunctions`): meet / join are then
no longer exact and — defect — the merged interval can be `[-oo,+oo]` kept in a FINITE value.
-/
open Crab Crab.Dis

/-! ## 1. order -/

theorem C08.dis_leq_sound (x y : Dis) (h : leq x y = true) (k : Int) (hk : mem k x) : mem k y :=
  leq_sound h hk
theorem C08.dis_leq_refl (x : Dis) : leq x x = true := leq_refl x
theorem C08.dis_bot_le (y : Dis) : leq Dis.bot y = true := bot_leq _ y rfl
theorem C08.dis_le_top (x : Dis) : leq x Dis.top = true := leq_top x _ rfl
/-- on normalised values the test is complete: inclusion of concretisations is answered yes -/
theorem C08.dis_leq_complete (x y : Dis) (hx : x.WF) (hy : y.WF) (h : ∀ k, mem k x → mem k y) :
    leq x y = true := leq_complete hx hy h

/-! ## 2. constructors, `normalize`, invariant -/

theorem C08.dis_ofItv_exact (i : Itv) (hw : i.WF) (k : Int) : mem k (ofItv i) ↔ Itv.mem k i :=
  mem_ofItv hw k
theorem C08.dis_wf_ofItv (i : Itv) (hw : i.WF) : (ofItv i).WF := ofItv_wf hw
theorem C08.dis_wf_bot_top : Dis.bot.WF ∧ Dis.top.WF := by decide

/-- the list constructor describes at least the union of the vector … -/
theorem C08.dis_mkList_upper (l : List Itv) (hl : ∀ i ∈ l, i.WF) (k : Int) (i : Itv) (hi : i ∈ l)
    (hk : Itv.mem k i) : mem k (mkList l) := mkList_mem_upper hl ⟨i, hi, hk⟩
/-- … and exactly the union below 50 intervals -/
theorem C08.dis_mkList_exact (l : List Itv) (hl : ∀ i ∈ l, i.WF) (hne : l ≠ [])
    (hlen : l.length < maxDisjunctions) (k : Int) (hk : mem k (mkList l)) : ∃ i ∈ l, Itv.mem k i :=
  mkList_mem_exact hl hne hlen hk
/-- it establishes the invariant (a vector of one interval is kept as it is) -/
theorem C08.dis_wf_mkList (l : List Itv) (hl : ∀ i ∈ l, i.WF) (h1 : ∀ a, l = [a] → proper a = true)
    (hlen : l.length < maxDisjunctions) : (mkList l).WF := mkList_wf hl h1 hlen
/-- a normalised vector is a fixed point -/
theorem C08.dis_mkList_fixed (x : Dis) (hx : x.WF) (hf : x.st = .fin) : mkList x.l = x := by
  obtain ⟨s, l⟩ := x
  simp only at hf; subst hf
  exact mkList_of_wf hx.2.2 hx.1 hx.2.1

theorem C08.dis_normalize_sound (x : Dis) (hx : x.EWF) (k : Int) (h : mem k x) : mem k (normalize x) :=
  normalize_mem_upper hx h
theorem C08.dis_normalize_exact (x : Dis) (hx : x.EWF) (hne : x.l ≠ []) (k : Int)
    (h : mem k (normalize x)) : mem k x := normalize_mem_exact hx hne h
theorem C08.dis_normalize_fixed (x : Dis) (hx : x.WF) : normalize x = x := normalize_of_wf hx
/-- `check_well_formed` accepts the values that satisfy the invariant -/
theorem C08.dis_checkWellFormed (x : Dis) (hx : x.WF) : checkWellFormed x = some true :=
  checkWellFormed_of_wf hx
theorem C08.dis_contains_iff (x : Dis) (k : Int) : x.contains k = true ↔ mem k x := contains_iff x k
theorem C08.dis_approx_sound (x : Dis) (hx : x.WF) :
    ∃ i, approx x = some i ∧ ∀ k, mem k x → Itv.mem k i := approx_sound hx

/-! ## 3. join -/

theorem C08.dis_join_upper (x y : Dis) (hx : x.EWF) (hy : y.EWF) (k : Int) (h : mem k x ∨ mem k y) :
    mem k (join x y) := join_mem_upper hx hy h

/-- full statement: the join of two values that satisfy the invariant satisfies it -/
def C08.dis_wf_join_Statement : Prop := ∀ x y : Dis, x.WF → y.WF → (join x y).WF

theorem C08.dis_wf_join_partial (x y : Dis) (hx : x.WF) (hy : y.WF)
    (hlen : x.l.length + y.l.length < maxDisjunctions) : (join x y).WF := join_wf hx hy hlen

/-- 30 + 30 interleaved intervals, the first unbounded below, the last unbounded above -/
def C08.disA : Dis :=
  ⟨.fin, ⟨.ninf, .fin 0⟩ :: (List.range 29).map (fun i => Itv.single (4 * (Int.ofNat i + 1)))⟩
def C08.disB : Dis :=
  ⟨.fin, (List.range 29).map (fun i => Itv.single (4 * Int.ofNat i + 2)) ++ [⟨.fin 200, .pinf⟩]⟩

/-- the 60 pieces are merged into `[-oo,+oo]`, which is left in a FINITE value -/
theorem C08.dis_join_top_in_finite : join C08.disA C08.disB = ⟨.fin, [Itv.top]⟩ := by decide +kernel

theorem C08.dis_wf_join_counterexample : ¬ C08.dis_wf_join_Statement := by
  have aux : ∀ (x y r : Dis), join x y = r → ¬ r.WF → x.WF → y.WF → ¬ C08.dis_wf_join_Statement :=
    fun x y r e hr hx hy h => hr (e ▸ h x y hx hy)
  exact aux C08.disA C08.disB _ C08.dis_join_top_in_finite (by decide) (by decide +kernel)
    (by decide +kernel)

/-! ## 4. meet, narrowing -/

theorem C08.dis_meet_sound (x y : Dis) (hx : x.EWF) (hy : y.EWF) (k : Int) (h1 : mem k x)
    (h2 : mem k y) : mem k (meet x y) := meet_mem_sound hx hy h1 h2
/-- `operator&&` is the meet: it keeps every common member, in particular every member of its
    second argument when that is below the first -/
theorem C08.dis_narrow_sound (x y : Dis) (hx : x.EWF) (hy : y.EWF) (k : Int) (h1 : mem k x)
    (h2 : mem k y) : mem k (narrow x y) := meet_mem_sound hx hy h1 h2

/-- full statement: the meet describes exactly the common members -/
def C08.dis_meet_exact_Statement : Prop :=
  ∀ (x y : Dis) (k : Int), x.WF → y.WF → (mem k (meet x y) ↔ (mem k x ∧ mem k y))

theorem C08.dis_meet_exact_partial (x y : Dis) (hx : x.EWF) (hy : y.EWF)
    (hsmall : x.l.length * y.l.length < maxDisjunctions) (k : Int) :
    mem k (meet x y) ↔ (mem k x ∧ mem k y) :=
  ⟨meet_mem_exact hx hy hsmall, fun ⟨h1, h2⟩ => meet_mem_sound hx hy h1 h2⟩

def C08.disC : Dis :=
  ⟨.fin, (List.range 49).map (fun i => ⟨.fin (4 * Int.ofNat i), .fin (4 * Int.ofNat i + 2)⟩)⟩
def C08.disD : Dis :=
  ⟨.fin, (List.range 49).map (fun i => ⟨.fin (4 * Int.ofNat i + 2), .fin (4 * Int.ofNat i + 4)⟩)⟩

/-- 97 common points are merged into their hull -/
theorem C08.dis_meet_merged : meet C08.disC C08.disD = ⟨.fin, [⟨.fin 2, .fin 194⟩]⟩ := by
  decide +kernel

theorem C08.dis_meet_exact_counterexample : ¬ C08.dis_meet_exact_Statement := by
  have aux : ∀ (x y r : Dis) (k : Int), meet x y = r → mem k r → ¬ mem k x → x.WF → y.WF →
      ¬ C08.dis_meet_exact_Statement :=
    fun x y r k e hr hx wx wy h => hx ((h x y k wx wy).mp (e ▸ hr)).1
  refine aux C08.disC C08.disD _ 3 C08.dis_meet_merged
    (mem_fin.mpr ⟨⟨.fin 2, .fin 194⟩, List.mem_singleton.mpr rfl, by decide⟩) ?_
    (by decide +kernel) (by decide +kernel)
  rw [← C08.dis_contains_iff]
  decide +kernel

theorem C08.dis_wf_meet (x y : Dis) (hx : x.WF) (hy : y.WF)
    (hsmall : x.l.length * y.l.length < maxDisjunctions) : (meet x y).WF := meet_wf hx hy hsmall

/-! ## 5. widening -/

theorem C08.dis_widen_upper (x y : Dis) (hx : x.WF) (hy : y.WF) (k : Int) (h : mem k x ∨ mem k y) :
    mem k (widen x y) := widenWith_upper wop_widen hx hy h
theorem C08.dis_widenTh_upper (ts : IDom.Thresholds) (hts : ts.WF) (x y : Dis) (hx : x.WF) (hy : y.WF)
    (k : Int) (h : mem k x ∨ mem k y) : mem k (widenTh ts x y) :=
  widenWith_upper (wop_widenTh hts) hx hy h
theorem C08.dis_wf_widen (x y : Dis) (hx : x.WF) (hy : y.WF) : (widen x y).WF :=
  widenWith_wf wop_widen hx hy
theorem C08.dis_wf_widenTh (ts : IDom.Thresholds) (hts : ts.WF) (x y : Dis) (hx : x.WF) (hy : y.WF) :
    (widenTh ts x y).WF := widenWith_wf (wop_widenTh hts) hx hy

/-! ## 6. arithmetic (`apply_bin_op`): soundness for every operation

`r` is the answer (`some`: no CRAB_ERROR).  Operands only need `Dis.EWF`: unsorted or overlapping
vectors are fine. -/

theorem C08.dis_add_sound (x y r : Dis) (hx : x.EWF) (hy : y.EWF) (h : Dis.add x y = some r)
    (a b : Int) (ha : mem a x) (hb : mem b y) : mem (a + b) r :=
  binOp_sound opSound_add true hx hy h ha hb rfl
theorem C08.dis_sub_sound (x y r : Dis) (hx : x.EWF) (hy : y.EWF) (h : Dis.sub x y = some r)
    (a b : Int) (ha : mem a x) (hb : mem b y) : mem (a - b) r :=
  binOp_sound opSound_sub true hx hy h ha hb rfl
theorem C08.dis_mul_sound (x y r : Dis) (hx : x.EWF) (hy : y.EWF) (h : Dis.mul x y = some r)
    (a b : Int) (ha : mem a x) (hb : mem b y) : mem (a * b) r :=
  binOp_sound opSound_mul true hx hy h ha hb rfl
theorem C08.dis_div_sound (x y r : Dis) (hx : x.EWF) (hy : y.EWF) (h : Dis.div x y = some r)
    (a b : Int) (ha : mem a x) (hb : mem b y) (hb0 : b ≠ 0) : mem (Int.tdiv a b) r :=
  binOp_sound opSound_div false hx hy h ha hb ⟨hb0, rfl⟩
/-- `UDiv` is coded with the signed interval division: sound on the unsigned range -/
theorem C08.dis_udiv_sound (x y r : Dis) (hx : x.EWF) (hy : y.EWF) (h : Dis.udiv x y = some r)
    (a b : Int) (ha : mem a x) (hb : mem b y) (ha0 : 0 ≤ a) (hb0 : 0 < b) : mem (a / b) r :=
  binOp_sound opSound_udiv false hx hy h ha hb ⟨ha0, hb0, rfl⟩
theorem C08.dis_srem_sound (x y r : Dis) (hx : x.EWF) (hy : y.EWF) (h : Dis.srem x y = some r)
    (a b : Int) (ha : mem a x) (hb : mem b y) (hb0 : b ≠ 0) : mem (Int.tmod a b) r :=
  binOp_sound opSound_srem false hx hy h ha hb ⟨hb0, rfl⟩
theorem C08.dis_urem_sound (x y r : Dis) (hx : x.EWF) (hy : y.EWF) (h : Dis.urem x y = some r)
    (a b : Int) (ha : mem a x) (hb : mem b y) (ha0 : 0 ≤ a) (hb0 : 0 < b) : mem (a % b) r :=
  binOp_sound opSound_urem false hx hy h ha hb ⟨ha0, hb0, rfl⟩
theorem C08.dis_and_sound (x y r : Dis) (hx : x.EWF) (hy : y.EWF) (h : Dis.and x y = some r)
    (a b : Int) (ha : mem a x) (hb : mem b y) : mem (ZNum.land a b) r :=
  binOp_sound opSound_and false hx hy h ha hb rfl
theorem C08.dis_or_sound (x y r : Dis) (hx : x.EWF) (hy : y.EWF) (h : Dis.or x y = some r)
    (a b : Int) (ha : mem a x) (hb : mem b y) : mem (ZNum.lor a b) r :=
  binOp_sound opSound_or false hx hy h ha hb rfl
theorem C08.dis_xor_sound (x y r : Dis) (hx : x.EWF) (hy : y.EWF) (h : Dis.xor x y = some r)
    (a b : Int) (ha : mem a x) (hb : mem b y) : mem (ZNum.lxor a b) r :=
  binOp_sound opSound_xor false hx hy h ha hb rfl
theorem C08.dis_shl_sound (x y r : Dis) (hx : x.EWF) (hy : y.EWF) (h : Dis.shl x y = some r)
    (a k : Int) (ha : mem a x) (hk : mem k y) (h0 : 0 ≤ k) : mem (a * 2 ^ k.toNat) r :=
  binOp_sound opSound_shl false hx hy h ha hk ⟨h0, rfl⟩
theorem C08.dis_ashr_sound (x y r : Dis) (hx : x.EWF) (hy : y.EWF) (h : Dis.ashr x y = some r)
    (a k : Int) (ha : mem a x) (hk : mem k y) (h0 : 0 ≤ k) : mem (a / 2 ^ k.toNat) r :=
  binOp_sound opSound_ashr false hx hy h ha hk ⟨h0, rfl⟩
/-- `LShr` inherits the restriction of the interval operation (`C08.itv_lshr_sound_partial`):
    shift amounts below `2^64` -/
theorem C08.dis_lshr_sound_partial (x y r : Dis) (hx : x.EWF) (hy : y.EWF) (h : Dis.lshr x y = some r)
    (a k : Int) (ha : mem a x) (hk : mem k y) (h0 : 0 ≤ k) (h64 : k < 2 ^ 64) (ha0 : 0 ≤ a) :
    mem (a / 2 ^ k.toNat) r :=
  binOp_sound opSound_lshr false hx hy h ha hk ⟨h0, h64, ha0, rfl⟩

/-- generic form: any interval operation that over-approximates a relation `R` on well-formed
    intervals lifts to disjunctive intervals (both settings of `shortcut_top`) -/
theorem C08.dis_binop_sound (op : Itv → Itv → Option Itv) (R : Int → Int → Int → Prop)
    (hop : OpSound op R) (sc : Bool) (x y r : Dis) (hx : x.EWF) (hy : y.EWF)
    (h : binOp op sc x y = some r) (a b c : Int) (ha : mem a x) (hb : mem b y) (hR : R a b c) :
    mem c r := binOp_sound hop sc hx hy h ha hb hR

/-! ## 7. unary operations, `trim_interval` -/

theorem C08.dis_neg_sound (x r : Dis) (hx : x.EWF) (h : Dis.neg x = some r) (a : Int) (ha : mem a x) :
    mem (-a) r :=
  unOp_sound (R := fun i c => c = -i)
    (fun _ hw => ⟨Itv.neg_wf hw, fun _ _ hi hc => hc ▸ Itv.neg_sound hi⟩) hx h ha rfl
theorem C08.dis_lowerHalfLine_sound (x r : Dis) (hx : x.EWF) (h : Dis.lowerHalfLine x = some r)
    (a c : Int) (ha : mem a x) (hc : c ≤ a) : mem c r :=
  unOp_sound (R := fun i c => c ≤ i)
    (fun _ hw => ⟨Itv.wf_lowerHalfLine hw, fun _ _ hi hc => lowerHalfLine_sound hi hc⟩) hx h ha hc
theorem C08.dis_upperHalfLine_sound (x r : Dis) (hx : x.EWF) (h : Dis.upperHalfLine x = some r)
    (a c : Int) (ha : mem a x) (hc : a ≤ c) : mem c r :=
  unOp_sound (R := fun i c => i ≤ c)
    (fun _ hw => ⟨Itv.wf_upperHalfLine hw, fun _ _ hi hc => upperHalfLine_sound hi hc⟩) hx h ha hc
/-- trimming by `y` keeps every member of `x` unless `y` is the singleton of that member -/
theorem C08.dis_trim_sound (x y r : Dis) (hx : x.EWF) (h : trim x y = some r) (k : Int) (hk : mem k x)
    (hne : singleton? y ≠ some (some k)) : mem k r := trim_sound hx h hk hne

/-! ## 8. invariant and absence of CRAB_ERROR for the arithmetic -/

/-- below 50 pairs of intervals every arithmetic result satisfies the invariant -/
theorem C08.dis_wf_binop (op : Itv → Itv → Option Itv)
    (hop : ∀ a b r, a.WF → b.WF → op a b = some r → r.WF) (sc : Bool) (x y r : Dis) (hx : x.WF)
    (hy : y.WF) (hsmall : x.l.length * y.l.length < maxDisjunctions) (h : binOp op sc x y = some r) :
    r.WF := binOp_wf hop sc hx hy hsmall h
theorem C08.dis_wf_add (x y r : Dis) (hx : x.WF) (hy : y.WF)
    (hsmall : x.l.length * y.l.length < maxDisjunctions) (h : Dis.add x y = some r) : r.WF :=
  binOp_wf (fun _ _ _ ha hb h => Itv.add_wf ha hb h) true hx hy hsmall h
theorem C08.dis_wf_sub (x y r : Dis) (hx : x.WF) (hy : y.WF)
    (hsmall : x.l.length * y.l.length < maxDisjunctions) (h : Dis.sub x y = some r) : r.WF :=
  binOp_wf (fun _ _ _ ha hb h => Itv.sub_wf ha hb h) true hx hy hsmall h
theorem C08.dis_wf_mul (x y r : Dis) (hx : x.WF) (hy : y.WF)
    (hsmall : x.l.length * y.l.length < maxDisjunctions) (h : Dis.mul x y = some r) : r.WF :=
  binOp_wf (fun a b r ha hb h => (opSound_mul a b r ha hb h).1) true hx hy hsmall h
theorem C08.dis_wf_div (x y r : Dis) (hx : x.WF) (hy : y.WF)
    (hsmall : x.l.length * y.l.length < maxDisjunctions) (h : Dis.div x y = some r) : r.WF :=
  binOp_wf (fun _ _ _ ha hb h => Itv.wf_div ha hb h) false hx hy hsmall h
theorem C08.dis_wf_neg (x r : Dis) (hx : x.WF) (h : Dis.neg x = some r) : r.WF :=
  unOp_wf (fun _ hw => Itv.neg_wf hw) hx h

theorem C08.dis_add_defined (x y : Dis) (hx : x.EWF) (hy : y.EWF) : (Dis.add x y).isSome = true :=
  binOp_defined (fun _ _ ha hb => Itv.add_defined ha hb) true hx hy
theorem C08.dis_sub_defined (x y : Dis) (hx : x.EWF) (hy : y.EWF) : (Dis.sub x y).isSome = true :=
  binOp_defined (fun _ _ ha hb => Itv.sub_defined ha hb) true hx hy
theorem C08.dis_div_defined (x y : Dis) (hx : x.EWF) (hy : y.EWF) : (Dis.div x y).isSome = true :=
  binOp_defined (fun a b _ _ => Itv.div_defined a b) false hx hy
theorem C08.dis_neg_defined (x : Dis) (hx : x.WF) : (Dis.neg x).isSome = true := unOp_defined _ hx

/-! ## non-vacuity -/

/-- a normalised value, an unnormalised one, and what the operations answer on them -/
example :
    let x : Dis := ⟨.fin, [⟨.ninf, .fin (-3)⟩, ⟨.fin 0, .fin 2⟩, ⟨.fin 7, .fin 7⟩]⟩
    let y : Dis := ⟨.fin, [⟨.fin 1, .fin 4⟩, ⟨.fin 6, .pinf⟩]⟩
    x.WF ∧ y.WF ∧ mem 7 x ∧ mem 2 x ∧ ¬ mem 3 x ∧
    join x y = ⟨.fin, [⟨.ninf, .fin (-3)⟩, ⟨.fin 0, .fin 4⟩, ⟨.fin 6, .pinf⟩]⟩ ∧
    meet x y = ⟨.fin, [⟨.fin 1, .fin 2⟩, ⟨.fin 7, .fin 7⟩]⟩ ∧
    leq (meet x y) x = true ∧ leq x y = false ∧
    Dis.add x (ofItv (Itv.single 1)) =
      some ⟨.fin, [⟨.ninf, .fin (-2)⟩, ⟨.fin 1, .fin 3⟩, ⟨.fin 8, .fin 8⟩]⟩ := by
  intro x y
  decide +kernel

example :
    mkList [⟨.fin 5, .fin 6⟩, Itv.bot, ⟨.fin 0, .fin 2⟩, ⟨.fin 3, .fin 3⟩, ⟨.fin 5, .fin 6⟩] =
      ⟨.fin, [⟨.fin 0, .fin 3⟩, ⟨.fin 5, .fin 6⟩]⟩ ∧
    mkList [⟨.fin 5, .fin 6⟩, Itv.top] = Dis.top ∧ mkList [Itv.bot, Itv.bot] = Dis.bot ∧
    (⟨.fin, [⟨.fin 5, .fin 6⟩, Itv.bot, ⟨.fin 0, .fin 2⟩]⟩ : Dis).EWF ∧
    ¬ (⟨.fin, [⟨.fin 5, .fin 6⟩, Itv.bot, ⟨.fin 0, .fin 2⟩]⟩ : Dis).WF := by
  decide +kernel

/-- the widening keeps a stable interior and gives up the disjunction when the interior grows
    (commit 2e81953) -/
example :
    widen ⟨.fin, [⟨.fin 0, .fin 1⟩, ⟨.fin 4, .fin 4⟩, ⟨.fin 9, .fin 9⟩]⟩
          ⟨.fin, [⟨.fin 0, .fin 1⟩, ⟨.fin 4, .fin 4⟩, ⟨.fin 9, .fin 12⟩]⟩ =
      ⟨.fin, [⟨.fin 0, .fin 1⟩, ⟨.fin 4, .fin 4⟩, ⟨.fin 9, .pinf⟩]⟩ ∧
    widen ⟨.fin, [⟨.fin 0, .fin 1⟩, ⟨.fin 9, .fin 9⟩]⟩
          ⟨.fin, [⟨.fin 0, .fin 1⟩, ⟨.fin 4, .fin 4⟩, ⟨.fin 9, .fin 9⟩]⟩ = ⟨.fin, [⟨.fin 0, .fin 9⟩]⟩ := by
  decide +kernel
