import CrabProofs.Lemmas.IntervalCongruence
import CrabProofs.Lemmas.IntervalMul

/-!
# C08 (interval–congruence pairs) — `interval_congruence<z_number>::reduce()` is sound and exact

`Crab.IC` is the model of the reduced product (CrabModel/Scalar/IntervalCongruence.lean);
`IC.mem k p` : `k` is in the interval and in the congruence.  Every operation of the class is
the component-wise operation followed by `reduce()`; its soundness is the soundness of the
two components (C08.itv_*, C08.cg_*) plus `ic_reduce_sound`.  It is spelled out for `+ - * | &`
(the other operations have the same shape; the driver evaluates all of them).
-/
open Crab

/-- the reduction loses no common member -/
theorem C08.ic_reduce_sound (p q : IC) (k : Int) (h : IC.reduce p = some q) (hk : IC.mem k p) :
    IC.mem k q := IC.reduce_sound hk h
/-- the reduction is exact: same concretisation before and after -/
theorem C08.ic_reduce_exact (p q : IC) (k : Int) (h : IC.reduce p = some q) :
    IC.mem k q ↔ IC.mem k p := ⟨fun hk => IC.reduce_exact hk h, fun hk => IC.reduce_sound hk h⟩
/-- the reduction never raises CRAB_ERROR -/
theorem C08.ic_reduce_defined (p : IC) : (IC.reduce p).isSome = true := IC.reduce_defined p

theorem C08.ic_ofInt_exact (n k : Int) : IC.mem k (IC.ofInt n) ↔ k = n := by
  simp only [IC.mem, IC.ofInt, Itv.mem_single, Cong.mem_ofInt, and_self]

theorem C08.ic_add_sound (p q r : IC) (a b : Int) (ha : IC.mem a p) (hb : IC.mem b q)
    (h : IC.add p q = some r) : IC.mem (a + b) r := by
  unfold IC.add at h
  split at h
  · rename_i i hi
    exact IC.reduce_sound ⟨Itv.add_sound ha.1 hb.1 hi, Cong.add_sound ha.2 hb.2⟩ h
  · cases h

theorem C08.ic_sub_sound (p q r : IC) (a b : Int) (ha : IC.mem a p) (hb : IC.mem b q)
    (h : IC.sub p q = some r) : IC.mem (a - b) r := by
  unfold IC.sub at h
  split at h
  · rename_i i hi
    exact IC.reduce_sound ⟨Itv.sub_sound ha.1 hb.1 hi, Cong.sub_sound ha.2 hb.2⟩ h
  · cases h

theorem C08.ic_mul_sound (p q r : IC) (a b : Int) (ha : IC.mem a p) (hb : IC.mem b q)
    (h : IC.mul p q = some r) : IC.mem (a * b) r :=
  IC.reduce_sound ⟨Itv.mul_sound ha.1 hb.1, Cong.mul_sound ha.2 hb.2⟩ h

theorem C08.ic_join_upper (p q r : IC) (k : Int) (hk : IC.mem k p ∨ IC.mem k q)
    (h : IC.join p q = some r) : IC.mem k r := by
  rcases hk with hk | hk
  · exact IC.reduce_sound ⟨Itv.join_upper_left hk.1, Cong.join_upper_left hk.2⟩ h
  · exact IC.reduce_sound ⟨Itv.join_upper_right hk.1, Cong.join_upper_right hk.2⟩ h

/-- `operator&` is exactly the intersection -/
theorem C08.ic_meet_exact (p q r : IC) (k : Int) (h : IC.meet p q = some r) :
    IC.mem k r ↔ (IC.mem k p ∧ IC.mem k q) := by
  have hred := C08.ic_reduce_exact ⟨Itv.meet p.i q.i, Cong.meet p.c q.c⟩ r k h
  rw [hred]
  constructor
  · intro ⟨h1, h2⟩
    have a1 := Itv.meet_exact h1
    have a2 := Cong.meet_exact h2
    exact ⟨⟨a1.1, a2.1⟩, ⟨a1.2, a2.2⟩⟩
  · intro ⟨h1, h2⟩
    exact ⟨Itv.meet_sound h1.1 h2.1, Cong.meet_sound h1.2 h2.2⟩

/-- non-vacuity: `[12,+oo] ∩ (4Z-1)` reduces to `[15,+oo]`, `[-12,-7] ∩ (6Z-3)` to the constant -9 -/
example : IC.reduce ⟨⟨.fin 12, .pinf⟩, ⟨false, 4, -1⟩⟩ = some ⟨⟨.fin 15, .pinf⟩, ⟨false, 4, -1⟩⟩ ∧
    IC.reduce ⟨⟨.fin (-12), .fin (-7)⟩, ⟨false, 6, -3⟩⟩ = some ⟨Itv.single (-9), Cong.ofInt (-9)⟩ ∧
    IC.mem 19 ⟨⟨.fin 12, .pinf⟩, ⟨false, 4, -1⟩⟩ := by
  refine ⟨by decide, by decide, by decide⟩
