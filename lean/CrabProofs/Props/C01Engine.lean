import CrabProofs.Lemmas.FixSoundRun

/-!
# C01 (engine part) — the interleaved fixpoint iterator is sound

`Crab.Fix.run` is the transcription of `wto_iterator`
(include/crab/fixpoint/interleaved_fixpoint_iterator.hpp); `Crab.Fix.RunSound` is stated in
`CrabModel/Fix/Semantics.lean`: whenever the iterator returns (any fuel, any widening delay, any
number of descending iterations, any assumption map, start block anywhere in the ordering), the
`pre`/`post` tables contain the collecting semantics, for every value type that satisfies the
soundness contract `Sem` (no monotonicity of the transformers, no lattice laws beyond `Sem`)
and every well-formed weak topological ordering.

Proof: `CrabProofs/Lemmas/FixSoundStruct.lean` (what is used of the ordering),
`FixSoundSem.lean` (least solution of a region relative to the posts outside of it),
`FixSoundMain.lean` (the four mutually recursive visit functions, by induction on the fuel),
`FixSoundRun.lean` (skipping up to the start block, global collecting semantics).
-/
open Crab Crab.Fix Crab.Fix.Sound

/-- C01: the tables returned by the iterator contain the collecting semantics. -/
theorem C01.run_sound {A : Type} (c : Crab.Fix.Ctx A) (w : List Crab.Fix.Comp) :
    Crab.Fix.RunSound c w :=
  run_sound_of c w

/-- The same with the hypotheses spelled out: of `WtoWF` only `nodup`, `closed`, `edge` and
    `entry_mem` are needed; the nesting table of the ordering plays no role for soundness. -/
theorem C01.run_sound_any_nesting {A S : Type} (c : Ctx A) (w : List Comp) (sem : Sem c S)
    (fuel : Nat) (st : St A)
    (hnodup : (nodesList w).Nodup)
    (hclosed : ∀ p n, p ∈ c.preds n → p ∈ nodesList w → n ∈ nodesList w)
    (hedge : ∀ p n, p ∈ c.preds n → p ∈ nodesList w → n ∈ nodesList w →
      pos w p < pos w n ∨ n ∈ headsOfList p w)
    (hentry : c.entry ∈ nodesList w)
    (hrun : run c fuel w = some st) :
    (∀ n s, ReachPre c sem n s → sem.γ (st.pre n) s) ∧
    (∀ n s, ReachPost c sem n s → sem.γ (st.post n) s) :=
  run_sound_core c w sem fuel st hnodup hclosed hedge hentry hrun

/-- C01, one component: a visit of a component (with skipping already switched off) changes
    only the tables of its own blocks, and afterwards these contain the least solution of the
    flow equations of the component relative to the posts of all other blocks
    (`LPre … (Ext sem st)`), whatever the tables were before. -/
theorem C01.component_sound {A S : Type} (c : Ctx A) (sem : Sem c S) (fuel : Nat)
    (st st' : St A) (x : Comp)
    (hrun : visitComp c fuel st x = some st') (hskip : st.skip = false)
    (hok : CompOK c x) (hnodup : x.nodes.Nodup) :
    (∀ n, n ∉ x.nodes → st'.pre n = st.pre n ∧ st'.post n = st.post n) ∧
    (∀ n s, LPre c sem x.nodes (Ext sem st) n s →
      sem.γ (st'.pre n) s ∧ ∀ s', sem.step n s s' → sem.γ (st'.post n) s') :=
  let h := (visit_all c sem fuel).1 st x st' hrun hskip hok hnodup
  ⟨h.1.2, h.2⟩

/-! ### non-vacuity: a well-formed ordering with a loop on which the iterator returns -/

/-- `0 → 1 → 2 → 1`, `1 → 3`; value type `Bool` (`false` = unreachable) -/
def C01.Example.ctx : Ctx Bool where
  ops := { bot := false, top := true, leq := fun a b => !a || b, join := (· || ·),
           meet := (· && ·), widen := (· || ·), narrow := (· && ·) }
  analyze := fun _ a => a
  preds := fun n => if n = 1 then [0, 2] else if n = 2 then [1] else if n = 3 then [1] else []
  nesting := fun n => if n = 2 then some [1] else if n ≤ 3 then some [] else none
  entry := 0
  init := true
  assumptions := none
  delay := 1
  descending := 1

def C01.Example.wto : List Comp := [.vertex 0, .cycle 1 [.vertex 2], .vertex 3]

theorem C01.Example.nodes : nodesList C01.Example.wto = [0, 1, 2, 3] := by decide

theorem C01.Example.wf : WtoWF C01.Example.ctx C01.Example.wto where
  nodup := by decide
  closed := by
    intro p n hp _
    have hn : n = 1 ∨ n = 2 ∨ n = 3 := by
      by_cases h1 : n = 1; · exact Or.inl h1
      by_cases h2 : n = 2; · exact Or.inr (Or.inl h2)
      by_cases h3 : n = 3; · exact Or.inr (Or.inr h3)
      simp [C01.Example.ctx, h1, h2, h3] at hp
    rw [C01.Example.nodes]
    rcases hn with h | h | h <;> simp [h]
  edge := by
    intro p n hp _ _
    have hn : (n = 1 ∧ (p = 0 ∨ p = 2)) ∨ (n = 2 ∧ p = 1) ∨ (n = 3 ∧ p = 1) := by
      by_cases h1 : n = 1
      · subst h1; simpa [C01.Example.ctx] using hp
      by_cases h2 : n = 2
      · subst h2; simpa [C01.Example.ctx] using hp
      by_cases h3 : n = 3
      · subst h3; simpa [C01.Example.ctx] using hp
      simp [C01.Example.ctx, h1, h2, h3] at hp
    rcases hn with ⟨h, h' | h'⟩ | ⟨h, h'⟩ | ⟨h, h'⟩ <;> subst h <;> subst h' <;> decide
  entry_mem := by decide
  nesting_in := by
    intro n hn
    rw [C01.Example.nodes] at hn
    simp only [List.mem_cons, List.not_mem_nil, or_false] at hn
    rcases hn with h | h | h | h <;> subst h <;> decide
  nesting_out := by
    intro n hn
    rw [C01.Example.nodes] at hn
    simp only [List.mem_cons, List.not_mem_nil, or_false, not_or] at hn
    have h2 : n ≠ 2 := hn.2.2.1
    have h3 : ¬ n ≤ 3 := by omega
    simp [C01.Example.ctx, h2, h3]

/-- the iterator returns on it, and reaches every block -/
example : ((run C01.Example.ctx 10 C01.Example.wto).map fun st => [st.pre 0, st.pre 1, st.pre 2, st.pre 3]) =
    some [true, true, true, true] := by decide

/-- the soundness contract is satisfiable for this value type (`γ true` = every state) -/
def C01.Example.sem : Sem C01.Example.ctx Unit where
  γ := fun a _ => a = true
  step := fun _ _ _ => True
  analyze_sound := by intro n a s s' h _; simpa [C01.Example.ctx] using h
  join_left := by intro a b s h; simp [C01.Example.ctx, h]
  join_right := by intro a b s h; simp [C01.Example.ctx, h]
  widen_left := by intro a b s h; simp [C01.Example.ctx, h]
  widen_right := by intro a b s h; simp [C01.Example.ctx, h]
  meet_sound := by intro a b s h1 h2; simp [C01.Example.ctx, h1, h2]
  narrow_sound := by intro a b s h1 h2; simp [C01.Example.ctx, h1, h2]
  leq_sound := by intro a b s h1 h2; simpa [C01.Example.ctx, h2] using h1

/-- and the theorem then says something: block 3 is reachable, so every run stores `true` -/
example (fuel : Nat) (st : St Bool) (h : run C01.Example.ctx fuel C01.Example.wto = some st) :
    st.pre 3 = true := by
  have hs := (C01.run_sound C01.Example.ctx C01.Example.wto Unit C01.Example.sem fuel st
    C01.Example.wf h).1 3 ()
  apply hs
  have asm : ∀ n, asmOk C01.Example.ctx C01.Example.sem n () := by
    intro n; simp [asmOk, hasAssumptions, C01.Example.ctx]
  have r0 : ReachPre C01.Example.ctx C01.Example.sem 0 () := .init () rfl (asm _)
  have r1 : ReachPre C01.Example.ctx C01.Example.sem 1 () :=
    .flow 0 1 () (by simp [C01.Example.ctx]) (.step 0 () () r0 trivial) (asm _)
  exact .flow 1 3 () (by simp [C01.Example.ctx]) (.step 1 () () r1 trivial) (asm _)
