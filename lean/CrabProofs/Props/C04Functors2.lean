import CrabProofs.Lemmas.FunctorVPartInst
import CrabProofs.Lemmas.FunctorUfRefl

/-!
# C04 — inclusion test and lattice operations vs. concretisation, functor part 2:
# `value_partitioning_domain` over an arbitrary base

Model `Crab.Dom.Fct.VP` (`CrabModel/Dom/Functors/ValuePartitioning.lean`).  `operator<=` after repo
commits eb25fa6 (no join of the right partitions) is sound for every pairing case; `is_bottom` /
`is_top` mean "every partition is"; the canonical bottom is ONE bottom partition (335d5b6).
Reflexivity of `<=` needs separated intervals: `update_partitions()` guarantees them after repo
commit 8f4c9c7 (`C04.vpart_leq_refl_after_update`); the counterexample is a value the pinned tree
computed (`VP.updatePartsOld`; scenario and replay line in the header of `Props/C03Functors2.lean`),
and the statement over all values with `VP.Inv` stays `_partial` (see that header).
-/
open Crab Crab.Dom Crab.Dom.Fct

variable {V S : Type} [DecidableEq V] {D : VDom V S}

/-- a yes of `operator<=` is an inclusion: bottom/top shortcuts, no variable, different variables
    (each left partition in some right partition), same variable (the sweep over both vectors) -/
theorem C04.vpart_leq_sound (t : D.TopSound) {a b : VP D} (ha : VP.Inv a) (hb : VP.Inv b)
    (h : VP.leq a b = true) (s : S) : VP.γ a s → VP.γ b s := VP.leq_sound t ha hb h s

def C04.vpart_leq_refl_Statement : Prop :=
  ∀ (V S : Type) [DecidableEq V] (D : VDom V S), D.LeqRefl → ∀ a : VP D, VP.Inv a → VP.leq a a = true

/-- reflexive without partitioning variable, and with one when the intervals are non-empty and
    each strictly before the next (decidable: `VP.keysSep`) -/
theorem C04.vpart_leq_refl_partial (hr : D.LeqRefl) {a : VP D} (ha : VP.Inv a)
    (hk : a.var = none ∨ VP.keysSep a.parts = true) : VP.leq a a = true := by
  unfold VP.leq
  split
  · rfl
  · split
    · rfl
    · split
      · rename_i hv
        simp only [Bool.and_eq_true, Option.isNone_iff_eq_none] at hv
        obtain ⟨p, hp⟩ := ha.single hv.1
        rw [hp]; exact hr p.val
      · split
        · rename_i hne; exact absurd rfl hne
        · rename_i hn _
          rcases hk with hk | hk
          · exact absurd (by simp [hk]) hn
          · exact VP.leqSame_refl hr _ hk

/-- every value is `<=` itself right after `update_partitions()` (assignment to the partitioning
    variable, constraint on it, partition start) -/
theorem C04.vpart_leq_refl_after_update (hr : D.LeqRefl) {a : VP D} (ha : VP.Inv a) (hv : a.var ≠ none) :
    VP.leq (VP.updateParts a) (VP.updateParts a) = true :=
  C04.vpart_leq_refl_partial hr (VP.updateParts_inv ha) (Or.inr (VP.updateParts_sep hv))

open VPartEx in
/-- pinned-tree value (old merge loop, fixed by 8f4c9c7) -/
theorem C04.vpart_leq_refl_counterexample : ¬ C04.vpart_leq_refl_Statement := by
  intro h
  have h1 := h V3 (St V3) constVDom
    (by
      intro a
      match a with
      | none => rfl
      | some m =>
        show allV (fun v => (m v).isNone || decide (m v = m v)) = true
        apply (allV_iff _).2; intro v; simp)
    (xyOld W0) inv_xyOld_W0
  revert h1
  decide

/-- everything `is_bottom()` recognises is below everything -/
theorem C04.vpart_bot_le {a : VP D} (h : VP.isBottom a = true) (b : VP D) : VP.leq a b = true := by
  unfold VP.leq; rw [h]; rfl

/-- `make_bottom()` / `set_to_bottom()` is ONE bottom partition: recognised as soon as the base
    recognises its own bottom, empty in any case, and well-formed -/
theorem C04.vpart_make_bottom (hb : D.BotIsBot) (a : VP D) :
    VP.isBottom (VP.bottom : VP D) = true ∧ VP.isBottom (VP.setBottom a) = true ∧
    (∀ s, ¬ VP.γ (VP.bottom : VP D) s) ∧ (∀ s, ¬ VP.γ (VP.setBottom a) s) ∧
    VP.Inv (VP.bottom : VP D) ∧ VP.Inv (VP.setBottom a) := by
  have h1 : VP.isBottom (VP.bottom : VP D) = true := by
    simp only [VP.isBottom, VP.bottom, List.all_cons, List.all_nil, Bool.and_true]; exact hb
  have h2 : VP.isBottom (VP.setBottom a) = true := by
    simp only [VP.isBottom, VP.setBottom, List.all_cons, List.all_nil, Bool.and_true]; exact hb
  exact ⟨h1, h2, VP.not_γ_of_isBottom h1, VP.not_γ_of_isBottom h2, VP.inv_single _ _, VP.inv_single _ _⟩

/-- everything is below `make_top()` -/
theorem C04.vpart_le_top (ht : D.TopIsTop) (a : VP D) : VP.leq a VP.top = true := by
  unfold VP.leq
  split
  · rfl
  · have : VP.isTop (VP.top : VP D) = true := by
      simp only [VP.isTop, VP.top, List.all_cons, List.all_nil, Bool.and_true]; exact ht
    rw [this]; rfl

/-- `|`, `|=` are upper bounds -/
theorem C04.vpart_join_upper {a b : VP D} (ha : VP.Inv a) (hb : VP.Inv b) (s : S) :
    (VP.γ a s → VP.γ (VP.join a b) s) ∧ (VP.γ b s → VP.γ (VP.join a b) s) :=
  ⟨fun h => VP.join_sound ha hb s (Or.inl h), fun h => VP.join_sound ha hb s (Or.inr h)⟩

/-- `&` contains the intersection unless it pairs several partitions by position
    (`C03.vpart_meet_sound_counterexample` for that branch) -/
theorem C04.vpart_meet_sound_partial {a b : VP D} (ha : VP.Inv a) (hb : VP.Inv b)
    (he : VP.eltwise a b = false) (s : S) : VP.γ a s → VP.γ b s → VP.γ (VP.meet a b) s :=
  VP.meet_sound_guard ha hb he s

/-- `&` is NOT below its operands (the partitions are joined first when the operands partition
    differently: "the solution here is sub-optimal"): a precision statement that fails by design -/
def C04.vpart_meet_lower_Statement : Prop :=
  ∀ (V S : Type) [DecidableEq V] (D : VDom V S), D.MeetLower → ∀ (a b : VP D) (s : S),
    VP.Inv a → VP.Inv b → VP.γ (VP.meet a b) s → VP.γ a s

/-- `{x=[0,0] → [0,0], x=[2,2] → [2,2]} & [0,5]` (no partitioning on the right) is `[0,2]` -/
theorem C04.vpart_meet_lower_counterexample : ¬ C04.vpart_meet_lower_Statement := by
  intro h
  let a : VP itvVDom := ⟨some (), [⟨Itv.single 0, WItv.mk 0 0⟩, ⟨Itv.single 2, WItv.mk 2 2⟩]⟩
  let b : VP itvVDom := ⟨none, [⟨Itv.top, WItv.mk 0 5⟩]⟩
  have h1 := h Unit Int itvVDom itvDom_meetLower a b 1 (VP.inv_of_some (x := ()) rfl (by simp [a]))
    (VP.inv_single _ _) ⟨_, List.mem_singleton.2 rfl, by decide⟩
  obtain ⟨p, hp, hg⟩ := h1
  simp only [a, List.mem_cons, List.mem_nil_iff, or_false] at hp
  rcases hp with rfl | rfl
  · exact absurd hg (by decide)
  · exact absurd hg (by decide)

/-- `is_bottom()` = every partition is bottom: a yes means empty; it is exact when the base's is -/
theorem C04.vpart_is_bottom_sound {a : VP D} (h : VP.isBottom a = true) (s : S) : ¬ VP.γ a s :=
  VP.not_γ_of_isBottom h s

theorem C04.vpart_is_bottom_complete (hc : D.BotComplete) {a : VP D} (h : ∀ s, ¬ VP.γ a s) :
    VP.isBottom a = true := by
  apply List.all_eq_true.2
  intro p hp
  exact hc p.val (fun s hg => h s ⟨p, hp, hg⟩)

/-- `is_top()` = every partition is top: a yes means every state (the vector is never empty) -/
theorem C04.vpart_is_top_sound (t : D.TopSound) {a : VP D} (ha : VP.Inv a) (h : VP.isTop a = true) (s : S) :
    VP.γ a s := VP.γ_of_isTop t ha.1 h s

/-! ### non-vacuity over the interval instance -/
namespace C04VPartEx

def keys (a : VP itvVDom) : List Itv := a.parts.map (·.key)
def vals (a : VP itvVDom) : List Itv := a.parts.map (·.val.1)

/-- `x ∈ [0,0]`, `x ∈ [5,6]`, `x ∈ [6,20]` without partitioning -/
def a0 : VP itvVDom := ⟨none, [⟨Itv.top, WItv.mk 0 0⟩]⟩
def a1 : VP itvVDom := ⟨none, [⟨Itv.top, WItv.mk 5 6⟩]⟩
def a2 : VP itvVDom := ⟨none, [⟨Itv.top, WItv.mk 6 20⟩]⟩

def s0 := VP.vpStart () a0
def s1 := VP.vpStart () a1
def s2 := VP.vpStart () a2

/-- partition start computes the interval; `|` keeps separated partitions apart and merges the
    ones the third operand overlaps; `<=` sweeps both vectors -/
example : keys s0 = [Itv.single 0] ∧ keys (VP.join s0 s1) = [Itv.single 0, ⟨.fin 5, .fin 6⟩] ∧
    keys (VP.join (VP.join s0 s1) s2) = [Itv.single 0, ⟨.fin 5, .fin 20⟩] ∧
    vals (VP.join (VP.join s0 s1) s2) = [Itv.single 0, ⟨.fin 5, .fin 20⟩] ∧
    VP.leq (VP.join s0 s1) (VP.join (VP.join s0 s1) s2) = true ∧
    VP.leq (VP.join (VP.join s0 s1) s2) (VP.join s0 s1) = false ∧
    VP.leq (VP.join s0 s1) (VP.join s0 s1) = true ∧
    VP.keysSep (VP.join s0 s1).parts = true := by decide

/-- `x := x + 6` recomputes the intervals (`update_partitions`); partition end joins everything -/
example : keys (VP.assignOp () (itvAddK 6) (VP.join s0 s1)) = [Itv.single 6, ⟨.fin 11, .fin 12⟩] ∧
    vals (VP.vpEnd () (VP.join s0 s1)) = [⟨.fin 0, .fin 6⟩] ∧
    (VP.vpEnd () (VP.join s0 s1)).var = none := by decide

/-- `&` with the same partitions is element-wise, with different ones on the joined values -/
example : vals (VP.meet (VP.join s0 s1) (VP.join s0 s1)) = [Itv.single 0, ⟨.fin 5, .fin 6⟩] ∧
    VP.eltwise (VP.join s0 s1) (VP.join s0 s1) = true ∧
    vals (VP.meet (VP.join s0 s1) s2) = [⟨.fin 6, .fin 6⟩] ∧ VP.eltwise (VP.join s0 s1) s2 = false := by
  decide

/-- the hypotheses of `vpart_leq_sound` hold on this pair: `0 ∈ γ` is carried over -/
example : VP.γ (VP.join (VP.join s0 s1) s2) 0 :=
  C04.vpart_leq_sound itvDom_topSound (a := VP.join s0 s1) (b := VP.join (VP.join s0 s1) s2)
    (VP.join_inv (VP.vpStart_inv _ (VP.inv_single _ _)) (VP.vpStart_inv _ (VP.inv_single _ _)))
    (VP.join_inv (VP.join_inv (VP.vpStart_inv _ (VP.inv_single _ _)) (VP.vpStart_inv _ (VP.inv_single _ _)))
      (VP.vpStart_inv _ (VP.inv_single _ _)))
    (by decide) 0 (VPartEx.γ_of_iMem (by decide))

end C04VPartEx

/-! # `uf_domain`

`operator<=` after repo commit 7d37137 (the loop runs over the variables the RIGHT operand tracks,
the left operand gets a fresh term for a variable it does not track). -/
section uf
open Uf
variable {V F : Type} [DecidableEq V] [DecidableEq F] (I : F → List Int → Int)

/-- a yes of `operator<=` is an inclusion, for every interpretation of the symbols -/
theorem C04.uf_leq_sound {a b : UF V F} (ha : a.WF) (h : UF.leq a b = true) (s : St V) :
    UF.γ I a s → UF.γ I b s := leq_sound I ha h s

/-- reflexive (no variable is tracked twice: `m_var_map` is a `flat_map`) -/
theorem C04.uf_leq_refl (a : UF V F) (hn : match a with | .bot => True | .val u => KeysNodup u.map) :
    UF.leq a a = true := leq_refl a hn

theorem C04.uf_bot_le (b : UF V F) : UF.leq (UF.bottom : UF V F) b = true := rfl

theorem C04.uf_le_top (a : UF V F) : UF.leq a (UF.top : UF V F) = true := by
  match a with
  | .bot => rfl
  | .val u => rfl

/-- `|` (= `||`) is an upper bound -/
theorem C04.uf_join_upper {a b : UF V F} (hb : b.WF) (s : St V) :
    (UF.γ I a s → UF.γ I (UF.join a b) s) ∧ (UF.γ I b s → UF.γ I (UF.join a b) s) :=
  ⟨fun h => join_sound I hb s (Or.inl h), fun h => join_sound I hb s (Or.inr h)⟩

/-- `&` (= `&&`) contains the intersection -/
theorem C04.uf_meet_sound {choose : List (Term F) → Option (Term F)} (hch : ChooseOK choose) {a b : UF V F}
    (ha : a.WF) (s : St V) : UF.γ I a s → UF.γ I b s → UF.γ I (UF.meet choose a b) s := meet_sound I hch ha s

theorem C04.uf_is_bottom_sound {a : UF V F} (h : UF.isBottom a = true) (s : St V) : ¬ UF.γ I a s :=
  not_γ_of_isBottom I h s

theorem C04.uf_is_top_sound {a : UF V F} (h : UF.isTop a = true) (s : St V) : UF.γ I a s :=
  γ_of_isTop I h s

/-- `&` is not below its operands: the pseudo-meet rebuilds every shared variable from its class
    and a class without TERM_APP member becomes a fresh term variable, so constants are lost -/
def C04.uf_meet_lower_Statement : Prop :=
  ∀ (I : Nat → List Int → Int) (choose : List (Term Nat) → Option (Term Nat)), ChooseOK choose →
    ∀ (a b : UF Nat Nat) (s : St Nat), a.WF → b.WF → UF.γ I (UF.meet choose a b) s → UF.γ I a s

/-- `{v0 -> 5} & {v0 -> 5} = {v0 -> $VAR_0}` (printed so by the real code) contains `v0 = 6` -/
theorem C04.uf_meet_lower_counterexample : ¬ C04.uf_meet_lower_Statement := by
  intro h
  let a : UF Nat Nat := UF.assign 0 (.const 5) UF.top
  have ha : a.WF := assign_wf 0 _ wf_top
  have h1 := h (fun _ _ => 0) List.head? (fun l t ht => List.mem_of_mem_head? ht) a a (fun _ => 6) ha ha
    ⟨fun _ => 6, by
      intro p hp
      have : p = (0, Term.var 0) := by revert hp; decide +revert
      rw [this]; rfl⟩
  obtain ⟨ρ, hm⟩ := h1
  have := hm (0, .const 5) (by decide)
  simp [Term.eval] at this

end uf

