import CrabProofs.Lemmas.InterCex

/-!
  C09 — top-down inter-procedural analysis: the call / return transformers and the
  calling-context table (`CrabModel/Inter/TopDown.lean`).
-/
open Crab Crab.Inter

/-- `get_callee_entry` is sound: if the caller's state is in the caller's value and the entry
    state of the callee gets `formals := actuals` (parallel), the entry state is in `restrict`. -/
theorem C09.restrict_sound (D : AbsDom) (ins args : List Var) (caller callee : D.A) (σ τ : St)
    (hσ : D.γ caller σ) (hc : D.γ callee (seqAssign σ ins args))
    (hnd : ins.Nodup) (hok : SeqOK ins args) (hlen : ins.length ≤ args.length)
    (hτ : AllPairs (fun f a => τ f = σ a) ins args) :
    D.γ (restrict D ins args caller callee) τ := by
  unfold restrict
  by_cases hb : D.isBot caller = true
  · exact absurd hσ (D.isBot_sound hb)
  · simp only [hb]
    apply D.project_sound ins (D.meet_sound hc (unifySeq_sound D ins args caller σ hσ))
    intro v hv
    obtain ⟨a, _, h1, h2⟩ := AllPairs.exists_of_mem ((seqAssign_pairs ins args σ hnd hok).and hτ) hlen v hv
    rw [h1, h2]

/-- the callee's initial value is `top` in every use of `get_callee_entry` -/
theorem C09.restrict_sound_top (D : AbsDom) (ins args : List Var) (caller : D.A) (σ τ : St)
    (hσ : D.γ caller σ) (hnd : ins.Nodup) (hok : SeqOK ins args) (hlen : ins.length ≤ args.length)
    (hτ : AllPairs (fun f a => τ f = σ a) ins args) :
    D.γ (restrict D ins args caller D.top) τ :=
  C09.restrict_sound D ins args caller D.top σ τ hσ (D.top_sound _) hnd hok hlen hτ

/-- `get_caller_continuation` (after the projection of the callee's exit value on its
    parameters) is sound: `σ` caller state at the call, `ρ` the callee's state at its exit whose
    inputs still hold the actuals, `σ'` = `σ` with `lhs := outputs`. -/
theorem C09.call_sound (D : AbsDom) (ins outs lhs args : List Var) (caller exit : D.A) (σ ρ σ' : St)
    (hok : CallOK ins outs lhs args)
    (hσ : D.γ caller σ) (hρ : D.γ exit ρ)
    (hin : AllPairs (fun f a => ρ f = σ a) ins args)
    (hout : AllPairs (fun l o => σ' l = ρ o) lhs outs)
    (hfr : ∀ v, v ∉ lhs → σ' v = σ v) :
    D.γ (callReturn D ins outs lhs args caller exit) σ' := by
  obtain ⟨hl1, hl2, hnd, hseq, hpos, hlhs⟩ := hok
  let ρ' : St := fun v => if v ∈ ins ++ outs then ρ v else σ' v
  have hρ' : D.γ (D.project exit (ins ++ outs)) ρ' :=
    D.project_sound _ hρ (by intro v hv; simp only [ρ', hv, if_true])
  unfold callReturn extend
  by_cases hb1 : D.isBot caller = true
  · exact absurd hσ (D.isBot_sound hb1)
  by_cases hb2 : D.isBot (D.project exit (ins ++ outs)) = true
  · exact absurd hρ' (D.isBot_sound hb2)
  simp only [hb1, hb2]
  apply D.meet_sound
  · exact D.forget_sound lhs hσ (fun v hv => hfr v hv)
  · have h2 := wireInputs_sound D args lhs ins args _ _ (unifySeq_sound D lhs outs _ _ hρ')
    apply D.forget_sound _ h2
    intro v hv
    have hP := seqAssign_pairs lhs outs ρ' hnd hseq
    rcases wireInputsSt_spec args lhs ins args (seqAssign ρ' lhs outs) (fun a ha => ha) v with
      h | ⟨f, a, hp, hva, hfa, hal, h⟩
    · rw [h]
      by_cases hvl : v ∈ lhs
      · obtain ⟨o, ho, hq1, hq2⟩ := AllPairs.exists_of_mem (hP.and hout) (Nat.le_of_eq hl2) v hvl
        have hmem : o ∈ ins ++ outs := List.mem_append.mpr (Or.inr ho)
        have : ρ' o = ρ o := by simp only [ρ', hmem, if_true]
        rw [hq2, hq1, this]
      · rw [seqAssign_other lhs outs ρ' v hvl]
        by_cases hio : v ∈ ins ++ outs
        · have hk : v ∈ ins ∧ v ∈ args := by
            have hc : (List.filter (fun f => decide (f ∈ args)) ins ++ lhs).contains v = true := by
              cases hcv : (List.filter (fun f => decide (f ∈ args)) ins ++ lhs).contains v with
              | true => rfl
              | false =>
                exfalso; apply hv
                simp only [calleeLocals, List.mem_filter, hcv, Bool.not_false, and_true]
                exact hio
            rcases List.mem_append.mp (List.contains_iff_mem.mp hc) with h | h
            · have := List.mem_filter.mp h
              exact ⟨this.1, of_decide_eq_true this.2⟩
            · exact absurd h hvl
          obtain ⟨a, _, hq1, hq2⟩ := AllPairs.exists_of_mem (hpos.and hin) (Nat.le_of_eq hl1) v hk.1
          have hav : a = v := hq1 hk.2
          have : ρ' v = ρ v := by simp only [ρ', hio, if_true]
          rw [this, hq2, hav, hfr v hvl]
        · simp only [ρ', hio, if_false]
    · rw [h]
      have hfi : f ∈ ins := hp.mem_left
      have hfl : f ∉ lhs := fun e => hfa (hlhs f hfi e)
      rw [seqAssign_other lhs outs ρ' f hfl]
      have hmem : f ∈ ins ++ outs := List.mem_append.mpr (Or.inl hfi)
      have : ρ' f = ρ f := by simp only [ρ', hmem, if_true]
      rw [this, AllPairs.of_paired hin hp, hva, hfr a hal]

/-- a summary computed for `pre` may be reused for every `d ≤ pre`
    (from the collecting semantics of the callee, not from monotonicity of abstract transformers) -/
theorem C09.reuse_exact_sound (L : Lat) (F : St → St → Prop) (pre post d : L.A)
    (hv : SummaryValid L F pre post) (hle : L.leq d pre = true) : SummaryValid L F d post :=
  fun σ τ hd hF => hv σ τ (L.leq_sound hle hd) hF

theorem C09.isSubsumed_leq {L : Lat} (c : Ctx L) (d : L.A) (e : Bool)
    (h : c.isSubsumed d e = true) : L.leq d c.pre = true := by
  unfold Ctx.isSubsumed at h
  by_cases hc : (c.exact && e) = true
  · simp only [hc, if_true, Bool.and_eq_true] at h; exact h.1
  · simp only [hc] at h; exact h

/-- the scan of the table only returns posts that are valid for the looked-up entry, provided
    every stored context is valid -/
theorem C09.lookup_sound (L : Lat) (F : St → St → Prop) :
    ∀ (ccs : List (Ctx L)) (d post : L.A) (e : Bool), TableValid L F ccs →
      lookup ccs d e = some post → SummaryValid L F d post
  | [], _, _, _, _, h => by simp [lookup] at h
  | c :: cs, d, post, e, hv, h => by
    unfold lookup at h
    by_cases hs : c.isSubsumed d e = true
    · simp only [hs, if_true, Option.some.injEq] at h
      subst h
      exact C09.reuse_exact_sound L F c.pre c.post d (hv c (List.mem_cons_self ..)) (C09.isSubsumed_leq c d e hs)
    · simp only [hs] at h
      exact C09.lookup_sound L F cs d post e (fun c' hc' => hv c' (List.mem_cons_of_mem _ hc')) h

/-- Full statement about the context policy: adding a valid context keeps the table valid.
    FALSE for the code as it is (the join of two valid contexts is not a valid context). -/
def C09.joined_summary_Statement : Prop :=
  ∀ (L : Lat) (F : St → St → Prop) (max : Option Nat) (ccs : List (Ctx L)) (cc : Ctx L),
    TableValid L F ccs → SummaryValid L F cc.pre cc.post → TableValid L F (policyAdd max ccs cc)

theorem C09.joined_summary_partial (L : Lat) (F : St → St → Prop) (max : Option Nat)
    (ccs : List (Ctx L)) (cc : Ctx L) (hno : policyJoins max ccs = false)
    (hv : TableValid L F ccs) (hc : SummaryValid L F cc.pre cc.post) :
    TableValid L F (policyAdd max ccs cc) := by
  have happ : TableValid L F (ccs ++ [cc]) := by
    intro c hcm
    rcases List.mem_append.mp hcm with h | h
    · exact hv c h
    · have : c = cc := by simpa using h
      subst this; exact hc
  unfold policyAdd
  cases max with
  | none => exact happ
  | some m =>
    match ccs, hno, hv, happ with
    | [], _, _, happ => exact happ
    | [_], _, _, happ => exact happ
    | c1 :: c2 :: rest, hno, _, happ =>
      have hlen : ¬ ((c1 :: c2 :: rest).length > m) := by
        simp only [policyJoins, List.length_cons, Bool.and_eq_false_imp, decide_eq_true_eq, decide_eq_false_iff_not] at hno
        exact hno (by omega)
      simp only [hlen, if_false]
      exact happ

/-- what the joined context would have to satisfy: the statement about one join -/
def C09.join_contexts_Statement : Prop :=
  ∀ (L : Lat) (F : St → St → Prop) (c1 c2 : Ctx L),
    SummaryValid L F c1.pre c1.post → SummaryValid L F c2.pre c2.post →
    SummaryValid L F (c1.joinWith c2).pre (c1.joinWith c2).post

/-- the joined post is valid for the entries already covered by one of the two contexts -/
theorem C09.join_contexts_partial (L : Lat) (F : St → St → Prop) (c1 c2 : Ctx L) (d : L.A)
    (h1 : SummaryValid L F c1.pre c1.post) (h2 : SummaryValid L F c2.pre c2.post)
    (hd : (L.leq d c1.pre || L.leq d c2.pre) = true) :
    SummaryValid L F d (c1.joinWith c2).post := by
  intro σ τ hσ hF
  rcases Bool.or_eq_true _ _ |>.mp hd with h | h
  · exact L.join_left (h1 σ τ (L.leq_sound h hσ) hF)
  · exact L.join_right (h2 σ τ (L.leq_sound h hσ) hF)

theorem C09.join_contexts_counterexample : ¬ C09.join_contexts_Statement := by
  intro h
  have hj := h boxLat gapF (gapC 0) (gapC 2) (gapC_valid 0 (by decide)) (gapC_valid 2 (by decide))
  -- the entry x = 1 lies in the hull [0,2]; its output is 5
  let σ : St := fun v => if v = 0 then 1 else 0
  let τ : St := fun v => if v = 0 then 1 else 5
  have hσ : boxLat.γ ((gapC 0).joinWith (gapC 2)).pre σ := by
    show (min (0:Int) 2 ≤ (1:Int) ∧ (1:Int) ≤ max (0:Int) 2 ∧ min (0:Int) 0 ≤ (0:Int) ∧ (0:Int) ≤ max (0:Int) 0)
    decide
  have hF : gapF σ τ := by simp [gapF, σ, τ]
  have := hj σ τ hσ hF
  have h4 : τ 1 ≤ max (0:Int) 0 := this.2.2.2
  simp [τ] at h4

/-- `main` calls `f(0), f(2), f(4)` with `max_call_contexts = 1`: after the third call the table
    holds the join of the first two contexts, which is not a valid summary (it answers `[0,0]` for `f(1)`). -/
theorem C09.joined_summary_counterexample : ¬ C09.joined_summary_Statement := by
  intro h
  have hv : TableValid boxLat gapF [gapC 0, gapC 2] := by
    intro c hc
    simp only [List.mem_cons, List.mem_nil_iff, or_false] at hc
    rcases hc with rfl | rfl
    · exact gapC_valid 0 (by decide)
    · exact gapC_valid 2 (by decide)
  have ht := h boxLat gapF (some 1) [gapC 0, gapC 2] (gapC 4) hv (gapC_valid 4 (by decide))
  have hmem : (gapC 0).joinWith (gapC 2) ∈ policyAdd (some 1) [gapC 0, gapC 2] (gapC 4) := by
    simp [policyAdd]
  have hj := ht _ hmem
  let σ : St := fun v => if v = 0 then 1 else 0
  let τ : St := fun v => if v = 0 then 1 else 5
  have hσ : boxLat.γ ((gapC 0).joinWith (gapC 2)).pre σ := by
    show (min (0:Int) 2 ≤ (1:Int) ∧ (1:Int) ≤ max (0:Int) 2 ∧ min (0:Int) 0 ≤ (0:Int) ∧ (0:Int) ≤ max (0:Int) 0)
    decide
  have hF : gapF σ τ := by simp [gapF, σ, τ]
  have := hj σ τ hσ hF
  have h4 : τ 1 ≤ max (0:Int) 0 := this.2.2.2
  simp [τ] at h4

/-- and the scan then reuses it: `lookup` answers the joined post `[0,0]` for the entry `x = 1`,
    which is not a valid summary for that entry -/
theorem C09.lookup_joined_counterexample :
    ∃ post, lookup (policyAdd (some 1) [gapC 0, gapC 2] (gapC 4)) (((1, 1), (0, 0)) : boxLat.A) true = some post ∧
      ¬ SummaryValid boxLat gapF (((1, 1), (0, 0)) : boxLat.A) post := by
  refine ⟨((gapC 0).joinWith (gapC 2)).post, by rfl, ?_⟩
  intro hv
  let σ : St := fun v => if v = 0 then 1 else 0
  let τ : St := fun v => if v = 0 then 1 else 5
  have hσ : boxLat.γ (((1, 1), (0, 0)) : boxLat.A) σ := by
    show ((1:Int) ≤ (1:Int) ∧ (1:Int) ≤ (1:Int) ∧ (0:Int) ≤ (0:Int) ∧ (0:Int) ≤ (0:Int))
    decide
  have hF : gapF σ τ := by simp [gapF, σ, τ]
  have := hv σ τ hσ hF
  have h4 : τ 1 ≤ max (0:Int) 0 := this.2.2.2
  simp [τ] at h4

/-- non-vacuity: valid tables and contexts exist, and the non-joining case is reachable -/
example : TableValid boxLat gapF [gapC 0] ∧ policyJoins (some 1) [gapC 0] = false :=
  ⟨fun c hc => by
      have : c = gapC 0 := by simpa using hc
      subst this; exact gapC_valid 0 (by decide), by decide⟩

/-! #### the repaired table -/

/-- with the repair, adding a context keeps every *reusable* context valid, whatever the bound -/
theorem C09.fixed_policy_add_valid (L : Lat) (F : St → St → Prop) (max : Option Nat)
    (ccs : List (FCtx L)) (cc : FCtx L) (hv : TableValidF L F ccs)
    (hc : cc.stale = false → SummaryValid L F cc.pre cc.post) :
    TableValidF L F (policyAddFixed max ccs cc) := by
  have happ : TableValidF L F (ccs ++ [cc]) := by
    intro c hcm hs
    rcases List.mem_append.mp hcm with h | h
    · exact hv c h hs
    · have : c = cc := by simpa using h
      subst this; exact hc hs
  unfold policyAddFixed
  cases max with
  | none => exact happ
  | some m =>
    match ccs, hv, happ with
    | [], _, happ => exact happ
    | [_], _, happ => exact happ
    | c1 :: c2 :: rest, _, happ =>
      by_cases hlen : (c1 :: c2 :: rest).length > m
      · simp only [hlen, if_true]
        intro c hcm hs
        rcases List.mem_cons.mp hcm with rfl | h
        · simp [FCtx.joinWith] at hs
        · have hmem := (List.mem_filter.mp h).1
          apply happ c _ hs
          rcases List.mem_append.mp hmem with h' | h'
          · exact List.mem_append.mpr (Or.inl (List.mem_cons_of_mem _ (List.mem_cons_of_mem _ h')))
          · exact List.mem_append.mpr (Or.inr h')
      · simp only [hlen, if_false]
        exact happ

theorem C09.fixed_isSubsumed_leq {L : Lat} (c : FCtx L) (d : L.A) (e : Bool)
    (h : c.isSubsumed d e = true) : L.leq d c.pre = true := by
  unfold FCtx.isSubsumed at h
  by_cases hc : (c.exact && e) = true
  · simp only [hc, if_true, Bool.and_eq_true] at h; exact h.1
  · simp only [hc] at h; exact h

/-- the repaired scan: a reused post is a valid summary for the looked-up entry, and a
    re-analysis entry contains the looked-up entry -/
theorem C09.fixed_lookup_sound (L : Lat) (F : St → St → Prop) :
    ∀ (ccs : List (FCtx L)) (d : L.A) (e : Bool), TableValidF L F ccs →
      (∀ post, lookupFixed ccs d e = .hit post → SummaryValid L F d post) ∧
      (∀ entry, lookupFixed ccs d e = .reanalyze entry → L.leq d entry = true)
  | [], _, _, _ => by constructor <;> intro _ h <;> simp [lookupFixed] at h
  | c :: cs, d, e, hv => by
    have ih := C09.fixed_lookup_sound L F cs d e (fun c' hc' => hv c' (List.mem_cons_of_mem _ hc'))
    unfold lookupFixed
    by_cases hs : c.isSubsumed d e = true
    · have hle := C09.fixed_isSubsumed_leq c d e hs
      by_cases hst : c.stale = true
      · simp only [hs, hst, if_true]
        constructor
        · intro _ h; cases h
        · intro entry h
          cases h
          exact hle
      · have hst' : c.stale = false := by simpa using hst
        simp only [hs, hst', if_true]
        constructor
        · intro post h
          cases h
          exact C09.reuse_exact_sound L F c.pre c.post d (hv c (List.mem_cons_self ..) hst') hle
        · intro _ h; cases h
    · simp only [hs]
      exact ih

/-- the repaired `get_summary` only exposes valid summaries -/
theorem C09.fixed_exposed_valid (L : Lat) (F : St → St → Prop) (ccs : List (FCtx L))
    (hv : TableValidF L F ccs) : ∀ c, c ∈ exposedFixed ccs → SummaryValid L F c.pre c.post := by
  intro c hc
  have := List.mem_filter.mp hc
  exact hv c this.1 (by simpa using this.2)

/-! #### parameter wiring without the name-sharing hypothesis -/

/-- `restrict_sound` without `SeqOK`: FALSE, `get_callee_entry` assigns the formals one after the
    other (`f(a, b)` called as `f(b, a)` reads the already overwritten `a`) -/
def C09.restrict_anynames_Statement : Prop :=
  ∀ (D : AbsDom) (ins args : List Var) (caller : D.A) (σ τ : St),
    D.γ caller σ → ins.Nodup → ins.length = args.length →
    AllPairs (fun f a => τ f = σ a) ins args → D.γ (restrict D ins args caller D.top) τ

theorem C09.restrict_anynames_counterexample : ¬ C09.restrict_anynames_Statement := by
  intro h
  -- f(v0, v1) called as f(v1, v0) with v0 = 10, v1 = 20
  let σ : St := fun v => if v = 0 then 10 else 20
  let τ : St := fun v => if v = 0 then 20 else 10
  have hτ : AllPairs (fun f a => τ f = σ a) [0, 1] [1, 0] := by
    refine ⟨?_, ?_, trivial⟩ <;> decide
  have hr := h collDom [0, 1] [1, 0] (fun s => s = σ) σ τ rfl (by decide) rfl hτ
  -- unfold what `restrict` computed
  have hr' : ∃ s : St, (True ∧ ∃ s1 : St, (∃ s0 : St, s0 = σ ∧ s1 = s0.upd 0 (s0 1)) ∧ s = s1.upd 1 (s1 0)) ∧
      ∀ v, v ∈ ([0, 1] : List Var) → τ v = s v := hr
  obtain ⟨s, ⟨_, s1, ⟨s0, hs0, hs1⟩, hs⟩, hproj⟩ := hr'
  have h1 : τ 1 = s 1 := hproj 1 (by decide)
  subst hs0
  have : s 1 = 20 := by
    rw [hs, St.upd_same, hs1, St.upd_same]
    decide
  rw [this] at h1
  exact absurd h1 (by decide)

/-- `restrict_sound` applies to a non-trivial call: `f(v0, v1)` called as `f(v2, v3)` -/
example : SeqOK [0, 1] [2, 3] ∧ ([0, 1] : List Var).Nodup := by
  refine ⟨⟨Or.inr (by decide), Or.inr (by decide), trivial⟩, by decide⟩

/-- `call_sound` applies to `v2 := f(v2)` with `f(v0) -> v1` (the output overwrites the argument)
    and to a call that reuses the formal's name at its own position -/
example : CallOK [0] [1] [2] [2] ∧ CallOK [0] [1] [5] [0] := by
  refine ⟨⟨rfl, rfl, by decide, ⟨Or.inr (by decide), trivial⟩, ⟨by decide, trivial⟩, by decide⟩,
          ⟨rfl, rfl, by decide, ⟨Or.inr (by decide), trivial⟩, ⟨by decide, trivial⟩, by decide⟩⟩
