import CrabModel.Scalar.Constant
import CrabProofs.Lemmas.ZNumBits

/-!
# C08 (constants) — `crab::domains::constant<z_number>` over-approximates the concrete operations

`Crab.Cst` is the branch-by-branch model (`CrabModel/Scalar/Constant.lean`); `Cst.mem k c` is
`k ∈ γ(c)`.  All statements quantify over all abstract values (bottom, top, every constant)
and all integers; concrete semantics as fixed by the project (see `C08Cong.lean`).
Shift amounts are required to fit a machine word (`k < 2^64`): `z_number::operator<<`/`>>`
shift by `mpz_get_ui` of the amount.
-/
open Crab Crab.Cst

theorem C08.cst_leq_sound (c d : Cst) (h : leq c d = true) (k : Int) (hk : mem k c) : mem k d := by
  cases c <;> cases d <;> simp_all [leq, mem, isBottom, isTop]
theorem C08.cst_leq_refl (c : Cst) : leq c c = true := by cases c <;> simp [leq, isBottom, isTop]
theorem C08.cst_bot_leq (d : Cst) : leq bot d = true := by simp [leq, isBottom]
theorem C08.cst_leq_top (c : Cst) : leq c top = true := by simp [leq, isTop]
/-- the order is exact: it answers yes exactly on included concretisations -/
theorem C08.cst_leq_exact (c d : Cst) : leq c d = true ↔ ∀ k, mem k c → mem k d := by
  constructor
  · intro h k hk; exact C08.cst_leq_sound c d h k hk
  · intro h
    cases c with
    | bot => simp [leq, isBottom]
    | top =>
      cases d with
      | bot => exact absurd (h 0 trivial) (by simp [mem])
      | top => simp [leq, isTop]
      | val n => have := h (n + 1) trivial; simp only [mem] at this; omega
    | val a =>
      cases d with
      | bot => exact absurd (h a rfl) (by simp [mem])
      | top => simp [leq, isTop]
      | val n => have := h a rfl; simp [mem] at this; simp [leq, isBottom, isTop, this]

theorem C08.cst_join_upper (c d : Cst) (k : Int) (hk : mem k c ∨ mem k d) : mem k (join c d) := by
  cases c with
  | bot => cases d <;> simp_all [join, mem, isBottom, isTop]
  | top => cases d <;> simp_all [join, mem, isBottom, isTop]
  | val a =>
    cases d with
    | bot => simp_all [join, mem, isBottom, isTop]
    | top => simp_all [join, mem, isBottom, isTop]
    | val b =>
      simp only [join, isBottom, isTop, Bool.or_self, Bool.false_eq_true, if_false]
      by_cases h : a = b
      · subst h; simp only [mem] at hk; simp only [if_true, mem]; omega
      · simp [h, mem]
theorem C08.cst_widen_upper (c d : Cst) (k : Int) (hk : mem k c ∨ mem k d) : mem k (widen c d) :=
  C08.cst_join_upper c d k hk
/-- meet is exact -/
theorem C08.cst_meet_exact (c d : Cst) (k : Int) : mem k (meet c d) ↔ (mem k c ∧ mem k d) := by
  cases c <;> cases d <;> simp [meet, mem, isBottom, isTop]
  rename_i a b
  by_cases h : a = b
  · simp [h]
  · simp [h]; omega
theorem C08.cst_narrow_sound (c d : Cst) (k : Int) (hc : mem k c) (hd : mem k d) : mem k (narrow c d) :=
  (C08.cst_meet_exact c d k).mpr ⟨hc, hd⟩

theorem C08.cst_add_sound (x y : Cst) (a b : Int) (ha : mem a x) (hb : mem b y) : mem (a + b) (add x y) := by
  cases x <;> cases y <;> simp_all [add, mem]
theorem C08.cst_sub_sound (x y : Cst) (a b : Int) (ha : mem a x) (hb : mem b y) : mem (a - b) (sub x y) := by
  cases x <;> cases y <;> simp_all [sub, mem]
theorem C08.cst_mul_sound (x y : Cst) (a b : Int) (ha : mem a x) (hb : mem b y) : mem (a * b) (mul x y) := by
  cases x <;> cases y <;> simp_all [mul, mem]
theorem C08.cst_sdiv_sound (x y : Cst) (a b : Int) (ha : mem a x) (hb : mem b y) (hb0 : b ≠ 0) :
    mem (Int.tdiv a b) (sdiv x y) := by
  cases x <;> cases y <;> simp_all [sdiv, mem]
theorem C08.cst_srem_sound (x y : Cst) (a b : Int) (ha : mem a x) (hb : mem b y) (hb0 : b ≠ 0) :
    mem (Int.tmod a b) (srem x y) := by
  cases x <;> cases y <;> simp_all [srem, mem]
theorem C08.cst_udiv_sound (x y : Cst) (a b : Int) (_ha : mem a x) (hb : mem b y) (hb0 : 0 < b) :
    mem (a / b) (udiv x y) := by
  cases y with
  | bot => exact absurd hb (by simp [mem])
  | top => simp [udiv, mem]
  | val n =>
    have : n ≠ 0 := by simp only [mem] at hb; omega
    simp [udiv, mem, this]
theorem C08.cst_urem_sound (x y : Cst) (a b : Int) (_ha : mem a x) (hb : mem b y) (hb0 : 0 < b) :
    mem (a % b) (urem x y) := by
  cases y with
  | bot => exact absurd hb (by simp [mem])
  | top => simp [urem, mem]
  | val n =>
    have : n ≠ 0 := by simp only [mem] at hb; omega
    simp [urem, mem, this]
theorem C08.cst_and_sound (x y : Cst) (a b : Int) (ha : mem a x) (hb : mem b y) :
    mem (ZNum.land a b) (and x y) := by
  cases x <;> cases y <;> simp_all [Cst.and, mem]
theorem C08.cst_or_sound (x y : Cst) (a b : Int) (ha : mem a x) (hb : mem b y) :
    mem (ZNum.lor a b) (or x y) := by
  cases x <;> cases y <;> simp_all [Cst.or, mem]
theorem C08.cst_xor_sound (x y : Cst) (a b : Int) (ha : mem a x) (hb : mem b y) :
    mem (ZNum.lxor a b) (xor x y) := by
  cases x <;> cases y <;> simp_all [Cst.xor, mem]

theorem C08.cst_shl_sound (x y : Cst) (a k : Int) (ha : mem a x) (hk : mem k y) (hk0 : 0 ≤ k)
    (hk1 : k < 2 ^ 64) : mem (a * 2 ^ k.toNat) (shl x y) := by
  cases x <;> cases y <;> simp_all [shl, mem]
  rename_i n m
  subst ha; subst hk
  simp [ZNum.shl_eq hk0 hk1]
theorem C08.cst_ashr_sound (x y : Cst) (a k : Int) (ha : mem a x) (hk : mem k y) (hk0 : 0 ≤ k)
    (hk1 : k < 2 ^ 64) : mem (a / 2 ^ k.toNat) (ashr x y) := by
  cases x <;> cases y <;> simp_all [ashr, mem]
  rename_i n m
  subst ha; subst hk
  simp [ZNum.shr_eq hk0 hk1]
/-- `BitwiseLShr` answers top for a negative left operand, so no sign hypothesis is needed -/
theorem C08.cst_lshr_sound (x y : Cst) (a k : Int) (ha : mem a x) (hk : mem k y) (hk0 : 0 ≤ k)
    (hk1 : k < 2 ^ 64) : mem (a / 2 ^ k.toNat) (lshr x y) := by
  cases x <;> cases y <;> simp_all [lshr, mem]
  rename_i n m
  subst ha; subst hk
  by_cases h : 0 ≤ a <;> simp [h, ZNum.shr_eq hk0 hk1]

/-- non-vacuity -/
example : mem 6 (val 6) ∧ mem (-4) (val (-4)) ∧ sdiv (val 6) (val (-4)) = val (-1) ∧
    join (val 1) (val 2) = top ∧ meet (val 1) (val 2) = bot := by
  refine ⟨by decide, by decide, by decide, by decide, by decide⟩
