import CrabProofs.Lemmas.InterTDSound
import CrabProofs.Lemmas.InterWto
import CrabProofs.Props.C07Fix
import CrabProofs.Lemmas.InterCex

/-!
# C10 — the summary-based (bottom-up + top-down) analysis is sound

Model: `CrabModel/Inter/BottomUp.lean` (`analyze` = `bottom_up_inter_analyzer::run`), concrete
semantics: the call-stack machine of `CrabModel/Inter/ISemantics.lean`.  Every theorem is for all
programs (any number of functions, any call graph, recursion included: the code treats it by
havoc / `top` contexts, and so do the proofs), all abstract domains satisfying the contract
`IDom` (+ `RenameSound` for the bottom-up domain), all fixpoint parameters.

* `C10.bu_call_sound`, `C10.td_call_sound` — (b) the call transformers of the two phases;
* `C10.summary_sound` — (a) every stored summary contains the (inputs, outputs) of every returned
  call of every execution; induction over the processing order `Justified.phase`;
* `C10.td_context_sound_partial` — (c) the entry value of every analysed function contains the frame
  of every call (order induction: `tdRun_before`), under `callsSeqOK` (finding F29, `[xshare]`);
* `C10.analysis_sound_partial` — (d) `get_pre` / `get_post` contain every reachable frame;
* `C10.td_context_sound_Statement`, `C10.analysis_sound_Statement` (the same without `callsSeqOK`) are
  FALSE: `C10.td_context_sound_counterexample`, `C10.analysis_sound_counterexample` (`f(v0, v1)` called
  as `f(v1, v0)`, collecting domain); `C10.callsSeqOK_of_not_crossShare`: the hypothesis holds for every
  program the driver does not tag `[xshare]`;
* non-vacuity: `C10.Ex` (a two-function program, the collecting domain): all hypotheses hold and the
  theorems yield concrete facts about every execution.

Frames are related to abstract values by `EnvIn` (every total state extending the frame is
described).  The intra-procedural solver is `Fix.run`; its soundness is `C01.run_sound`, its
hypothesis `WtoWF` is `WtoHyp` here (`C10.crab_wto_ok`: it holds for the orderings of `ikos::wto`).
-/
open Crab Crab.Inter Crab.Fix

theorem C10.main_lt {p : IProg} (hwf : p.wf = true) : p.main < p.funs.size := by
  have := hwf
  simp only [IProg.wf, Bool.and_eq_true, decide_eq_true_eq] at this
  exact this.1

/-- (b) `bu_summ_abs_transformer::exec(callsite)`: reuse of the summary if there is one, havoc of
    the lhs otherwise.  `env` = the caller's frame at a well-formed call site, described by `a`;
    the callee returns `ov`, and when it has a summary the summary describes this call. -/
theorem C10.bu_call_sound (p : IProg) (hwf : p.wf = true) (hsc : p.scoped = true) (D : IDom)
    (hren : D.toAbsDom.RenameSound) (T : SumTable D) (hT : TableDecl p T)
    (f : IFun) (h : Nat) (lhs args : List Var) (hS : StmtOK p f (.call h lhs args))
    (a : D.A) (env : Env) (ov : List Int) (hsz : env.size = p.nv) (ha : EnvIn D.toAbsDom a env)
    (hcr : ∀ s, T h = some s → SumHolds s (args.map (fun x => env.getD x 0)) ov) :
    EnvIn D.toAbsDom (buCall D p.nv T h lhs args a) (setMany env lhs ov) :=
  buCall_sound (progOK_of_wf hwf hsc) D hren T hT f h lhs args a env ov hS hsz ha hcr

/-- (b) for the top-down phase: `td_summ_abs_transformer::exec(callsite)` (continuation) -/
theorem C10.td_call_sound (p : IProg) (hwf : p.wf = true) (hsc : p.scoped = true) (BU TD : IDom)
    (cv : Conv BU TD) (hren : BU.toAbsDom.RenameSound) (T : SumTable BU) (hT : TableDecl p T)
    (f : IFun) (h : Nat) (lhs args : List Var) (hS : StmtOK p f (.call h lhs args))
    (a : TD.A) (env : Env) (ov : List Int) (hsz : env.size = p.nv) (ha : EnvIn TD.toAbsDom a env)
    (hcr : ∀ s, T h = some s → SumHolds s (args.map (fun x => env.getD x 0)) ov) :
    EnvIn TD.toAbsDom (tdCall BU TD cv p.nv T h lhs args a) (setMany env lhs ov) :=
  tdCall_sound (progOK_of_wf hwf hsc) BU TD cv hren T hT f h lhs args a env ov hS hsz ha hcr

/-- (a) Every summary stored by the bottom-up phase contains every (inputs, outputs) pair of a
    returned call: `r` is a call record of an execution that starts `g` in isolation with the
    inputs `iv` (`g = main`, `iv = []`: the executions of the program), `s` the summary of the
    returning function; every state giving the formal inputs / outputs the recorded values is in
    `γ s.sum`.  `order` is any list of functions (the reverse topological order in the code:
    only precision depends on it). -/
theorem C10.summary_sound (p : IProg) (hwf : p.wf = true) (hsc : p.scoped = true) (D : IDom)
    (hren : D.toAbsDom.RenameSound) (cfg : FixCfg) (hw : WtoHyp D p cfg) (order : List Nat)
    (T : SumTable D) (hrun : buPhase D p cfg order (fun _ => none) = some T)
    (ch : Choices) (g : Nat) (iv : List Int) (hg : g < p.funs.size)
    (hiv : iv.length = (p.fn g).ins.length ∨ g = p.main)
    (fuel : Nat) (r : CallRec) (hr : r ∈ (runFrom p ch fuel (callConfig p ch g iv)).tr.calls)
    (s : Summary D) (hs : T r.fn = some s) (ρ : St)
    (hin : MatchVals (p.fn r.fn).ins r.ins ρ) (hout : MatchVals (p.fn r.fn).outs r.outs ρ) :
    D.γ s.sum ρ := by
  have hP := progOK_of_wf hwf hsc
  obtain ⟨Tg, hJ⟩ := Justified.phase order _ T _ (Justified.empty D p cfg) hrun
  have h0 : Inv p (buSpec p T Tg) (callConfig p ch g iv) :=
    Inv.start hP ch g iv hg hiv (fun _ => mkFrame_env_size p ch 0 g iv)
  have hinv := bu_inv_run hP hren hw hJ ch fuel _ h0
  obtain ⟨hh, hl⟩ := bu_recs hP hren hw hJ _ hinv r hr s hs
  obtain ⟨hi, ho⟩ := hJ.decl _ _ hs
  exact SumHolds.gamma hh hl ρ (by rw [hi]; exact hin) (by rw [ho]; exact hout)

/-- (a) for the executions of the program from `main` -/
theorem C10.summary_sound_main (p : IProg) (hwf : p.wf = true) (hsc : p.scoped = true) (D : IDom)
    (hren : D.toAbsDom.RenameSound) (cfg : FixCfg) (hw : WtoHyp D p cfg) (order : List Nat)
    (T : SumTable D) (hrun : buPhase D p cfg order (fun _ => none) = some T)
    (ch : Choices) (fuel : Nat) (r : CallRec) (hr : r ∈ (run p ch fuel).tr.calls)
    (s : Summary D) (hs : T r.fn = some s) (ρ : St)
    (hin : MatchVals (p.fn r.fn).ins r.ins ρ) (hout : MatchVals (p.fn r.fn).outs r.outs ρ) :
    D.γ s.sum ρ := by
  exact C10.summary_sound p hwf hsc D hren cfg hw order T hrun ch p.main [] (C10.main_lt hwf) (Or.inr rfl) fuel r
    (by rw [← initConfig_eq]; exact hr) s hs ρ hin hout

/-- (c) The entry value a function was analysed with in the top-down phase (the joined calling
    context read from `call_ctx_table`, `init` for the root, `top` joined in for recursive
    components) contains the frame of every call: whenever an execution from `main` is about to
    execute a call site of `h`, the frame the call creates is described by the entry value of `h`.
    Excluding hypothesis: `callsSeqOK` (the formals are wired one after the other). -/
theorem C10.td_context_sound_partial (p : IProg) (hwf : p.wf = true) (hsc : p.scoped = true)
    (hseqok : p.callsSeqOK = true) (BU TD : IDom) (cv : Conv BU TD) (hren : BU.toAbsDom.RenameSound)
    (cfg : FixCfg) (hwBU : WtoHyp BU p cfg) (hwTD : WtoHyp TD p cfg) (comps : List (List Nat))
    (hord : orderOK p comps = true) (init : TD.A) (extra : Nat → List (Nat × TD.A)) (res : BUResult BU TD)
    (hrun : analyze BU TD cv p cfg comps init extra = some res)
    (ch : Choices) (hinit : InitOK p TD init (rootFn p comps) ch)
    (fuel : Nat) (fr : Frame) (rest : List Frame) (h : Nat) (lhs args : List Var)
    (hst : (run p ch fuel).stack = fr :: rest)
    (hs : ((p.fn fr.fn).blk fr.blk).stmts.getD fr.pc default = .call h lhs args)
    (e : TD.A) (he : res.td.entry h = some e) :
    EnvIn TD.toAbsDom e (mkFrame p ch (run p ch fuel).ci h (args.map (fun a => fr.env.getD a 0))).env := by
  have hP := progOK_of_wf hwf hsc
  obtain ⟨l, hF, _, hentry, hinv⟩ :=
    td_core hP (C10.main_lt hwf) hseqok hren hwBU hwTD hrun hord ch hinit
  have hc := hinv fuel
  have hfrm : fr ∈ (run p ch fuel).stack := by rw [hst]; exact List.mem_cons_self ..
  have hok := hc.frames fr hfrm
  have hpc : fr.pc < ((p.fn fr.fn).blk fr.blk).stmts.size := by
    by_cases hpc : fr.pc < ((p.fn fr.fn).blk fr.blk).stmts.size
    · exact hpc
    · exfalso
      rw [Array.getD_eq_getD_getElem?, Array.getElem?_eq_none (Nat.le_of_not_lt hpc)] at hs
      cases hs
  have hS := (hP fr.fn hok.1).stmts fr.blk fr.pc hpc
  rw [hs] at hS
  have hh : h < p.funs.size := hS.2.2.1
  have hcov := hF.covAll h (hF.entryCov h e he)
  exact (hentry fr.fn h fr.blk fr.pc fr.env lhs args _ hok.1 hcov (hc.loc fr hfrm) hpc hs hok.2.1
    (mkFrame_env_size p ch _ h _) (mkFrame_match p ch _ h _ (hP h hh).ins_nodup (hP h hh).ins_lt)).2 e he

/-- (d) The invariants reported by the analysis contain every reachable frame: every event
    `(function, block, at entry / at exit, frame)` of every execution from `main` is described by
    `get_pre` / `get_post` of that block (`top` for functions that were not analysed). -/
theorem C10.analysis_sound_partial (p : IProg) (hwf : p.wf = true) (hsc : p.scoped = true)
    (hseqok : p.callsSeqOK = true) (BU TD : IDom) (cv : Conv BU TD) (hren : BU.toAbsDom.RenameSound)
    (cfg : FixCfg) (hwBU : WtoHyp BU p cfg) (hwTD : WtoHyp TD p cfg) (comps : List (List Nat))
    (hord : orderOK p comps = true) (init : TD.A) (extra : Nat → List (Nat × TD.A)) (res : BUResult BU TD)
    (hrun : analyze BU TD cv p cfg comps init extra = some res)
    (ch : Choices) (hinit : InitOK p TD init (rootFn p comps) ch)
    (fuel : Nat) (e : Event) (he : e ∈ (run p ch fuel).tr.events) :
    EnvIn TD.toAbsDom (if e.atExit then res.post e.fn e.blk else res.pre e.fn e.blk) e.env := by
  have hP := progOK_of_wf hwf hsc
  obtain ⟨l, hF, hT, _, hinv⟩ :=
    td_core hP (C10.main_lt hwf) hseqok hren hwBU hwTD hrun hord ch hinit
  obtain ⟨hlt, hev⟩ := (hinv fuel).evs e he
  unfold BUResult.pre BUResult.post
  cases hi : res.td.invs e.fn with
  | none =>
    simp only
    split <;> exact envIn_top TD _
  | some st =>
    simp only
    have hat := td_at_sound BU TD cv cfg res.sums init hP hren hwTD hT hF hlt hi (hev ⟨st, hi⟩)
    by_cases hx : e.atExit = true
    · simp only [hx, if_true] at hat ⊢
      exact hat.2.2 trivial
    · simp only [hx] at hat ⊢
      simpa [execPrefix] using hat.1

/-- the orderings built by `ikos::wto` (model `Wto.build`, theorem `C07.build_wf`) satisfy the
    hypothesis of the theorems, for every well-formed program -/
theorem C10.crab_wto_ok (p : IProg) (hwf : p.wf = true) (D : IDom) (fuel delay descending : Nat) :
    WtoHyp D p (crabWto p fuel delay descending) := by
  intro g hg analyze init
  obtain ⟨h1, h2⟩ := wf_graph hwf hg
  have := C07.build_fix_wtowf (p.fn g).graph h1 0 h2
    (mkCtx D (crabWto p fuel delay descending) g (p.fn g) analyze init) ?_ rfl rfl
  · simpa [crabWto, wtoCompL_eq] using this
  · intro b n hb
    simp only [mkCtx, IFun.preds, List.mem_filter] at hb
    simpa [IFun.graph] using hb.2

/-! ### the excluded case: call sites that share names across positions -/

/-- the excluding hypothesis of (c) / (d) holds whenever no call site shares a name with the
    callee's declaration at another position (`IProg.crossShare`, the driver's tag `[xshare]`) -/
theorem C10.callsSeqOK_of_not_crossShare (p : IProg) (h : p.crossShare = false) : p.callsSeqOK = true :=
  Crab.Inter.callsSeqOK_of_not_crossShare p h

/-- (c) without the hypothesis `callsSeqOK`.  FALSE for the code as it is (finding F29, driver tag
    `[xshare]`): `td_summ_abs_transformer::exec` wires `formals := actuals` one after the other. -/
def C10.td_context_sound_Statement : Prop :=
  ∀ (p : IProg), p.wf = true → p.scoped = true →
  ∀ (BU TD : IDom) (cv : Conv BU TD), BU.toAbsDom.RenameSound →
  ∀ (cfg : FixCfg), WtoHyp BU p cfg → WtoHyp TD p cfg →
  ∀ (comps : List (List Nat)), orderOK p comps = true →
  ∀ (init : TD.A) (extra : Nat → List (Nat × TD.A)) (res : BUResult BU TD),
    analyze BU TD cv p cfg comps init extra = some res →
  ∀ (ch : Choices), InitOK p TD init (rootFn p comps) ch →
  ∀ (fuel : Nat) (fr : Frame) (rest : List Frame) (h : Nat) (lhs args : List Var),
    (run p ch fuel).stack = fr :: rest →
    ((p.fn fr.fn).blk fr.blk).stmts.getD fr.pc default = .call h lhs args →
  ∀ (e : TD.A), res.td.entry h = some e →
    EnvIn TD.toAbsDom e (mkFrame p ch (run p ch fuel).ci h (args.map (fun a => fr.env.getD a 0))).env

/-- the collecting domain as an `IDom`: sets of total states, every operation is the exact image
    (`rename` answers `top`, which is sound) -/
def C10.collIDom : IDom where
  toAbsDom := collDom
  bot := fun _ => False
  widen := fun a b σ => a σ ∨ b σ
  narrow := fun a b σ => a σ ∧ b σ
  stmt := fun a s σ' => ∃ σ, a σ ∧ StStep s σ σ'
  widen_left := fun h => Or.inl h
  widen_right := fun h => Or.inr h
  narrow_sound := fun h1 h2 => ⟨h1, h2⟩
  stmt_sound := fun {_ σ _} _ h hs => ⟨σ, h, hs⟩

theorem C10.collIDom_rename : C10.collIDom.toAbsDom.RenameSound := fun _ _ _ _ _ _ _ _ => trivial

namespace C10.Cex



/-- `main: v0 := 10; v1 := 20; v3 := f(v1, v0)`   `f(v0, v1) -> v2: v2 := v0` -/
def prog : IProg :=
  { nv := 4, main := 0,
    funs := #[
      { name := "main", ins := [], outs := [],
        blocks := #[{ stmts := #[.assign 0 ⟨10, []⟩, .assign 1 ⟨20, []⟩, .call 1 [3] [1, 0]], succs := #[] }] },
      { name := "f", ins := [0, 1], outs := [2],
        blocks := #[{ stmts := #[.assign 2 ⟨0, [(1, 0)]⟩], succs := #[] }] }] }

def cfg : FixCfg := crabWto prog 20 1 1

def res : BUResult C10.collIDom C10.collIDom :=
  (analyze C10.collIDom C10.collIDom (Conv.same _) prog cfg [[1], [0]] C10.collIDom.top (fun _ => [])).getD
    ⟨fun _ => none, TDState.empty _⟩

end C10.Cex

open C10.Cex in
theorem C10.Cex.res_eq : analyze C10.collIDom C10.collIDom (Conv.same _) prog cfg [[1], [0]] C10.collIDom.top
    (fun _ => []) = some res := rfl

namespace C10.Cex

/-- the entry value computed for `f` -/
def entry : St → Prop := (res.td.entry 1).getD (fun _ => True)

end C10.Cex

open C10.Cex in
theorem C10.Cex.entry_eq : res.td.entry 1 = some entry := rfl

open C10.Cex in
/-- it only contains states with `v0 = v1` (both formals received the value of `v1`) -/
theorem C10.Cex.entry_spec (σ : St) (h : entry σ) : σ 0 = σ 1 := by
  obtain ⟨s, ⟨s1, ⟨s0, _, hs1⟩, hs⟩, hp⟩ := h
  have h0 : σ 0 = s 0 := hp 0 (by decide)
  have h1 : σ 1 = s 1 := hp 1 (by decide)
  rw [h0, h1, hs, St.upd_same, St.upd_other _ _ (by decide)]

namespace C10.Cex

def env0 : Env := (Array.range 4).map (fun i => (fun _ => (0 : Int)) (0 + i))

def env : Env := (env0.setIfInBounds 0 10).setIfInBounds 1 20

/-- the frame of `main` at the call site (choice stream constant 0) -/
def frame : Frame := { fn := 0, blk := 0, pc := 2, env := env, inVals := [] }

end C10.Cex

open C10.Cex in
theorem C10.Cex.stack_eq : (run prog (fun _ => 0) 2).stack = [frame] := rfl

open C10.Cex in
theorem C10.Cex.env_vals : env.getD 0 0 = 10 ∧ env.getD 1 0 = 20 := by
  have h0 : env0.size = 4 := by simp [env0]
  refine ⟨?_, ?_⟩
  · unfold env
    rw [getD_set_other _ _ _ _ (by decide), getD_set_same _ _ _ (by rw [h0]; decide)]
  · unfold env
    rw [getD_set_same _ _ _ (by rw [Array.size_setIfInBounds, h0]; decide)]

open C10.Cex in
theorem C10.td_context_sound_counterexample : ¬ C10.td_context_sound_Statement := by
  intro hS
  have hwf : prog.wf = true := by simp [IProg.wf, IFun.wf, prog, IStmt.defs]
  have hsc : prog.scoped = true := by simp [IProg.scoped, IFun.scoped, prog, IStmt.vars, ILin.vars]
  have hP := progOK_of_wf hwf hsc
  have hc := hS prog hwf hsc C10.collIDom C10.collIDom (Conv.same _) C10.collIDom_rename cfg
    (C10.crab_wto_ok prog hwf _ 20 1 1) (C10.crab_wto_ok prog hwf _ 20 1 1) [[1], [0]] (by decide)
    C10.collIDom.top (fun _ => []) res res_eq (fun _ => 0) (Or.inl (fun _ _ σ _ => trivial))
    2 frame [] 1 [3] [1, 0] stack_eq rfl entry entry_eq
  have h1 : (1 : Nat) < prog.funs.size := by decide
  have hm := mkFrame_match prog (fun _ => 0) (run prog (fun _ => 0) 2).ci 1
    ([1, 0].map (fun a => frame.env.getD a 0)) (hP 1 h1).ins_nodup (hP 1 h1).ins_lt
  have hm' : MatchVals [0, 1] [env.getD 1 0, env.getD 0 0] _ := hm
  have he := entry_spec _ (hc _ (Ext_toSt _))
  rw [hm'.1, hm'.2.1, env_vals.1, env_vals.2] at he
  exact absurd he (by decide)

/-- (d) without `callsSeqOK`: FALSE as well (the callee is analysed from the wrong entry value) -/
def C10.analysis_sound_Statement : Prop :=
  ∀ (p : IProg), p.wf = true → p.scoped = true →
  ∀ (BU TD : IDom) (cv : Conv BU TD), BU.toAbsDom.RenameSound →
  ∀ (cfg : FixCfg), WtoHyp BU p cfg → WtoHyp TD p cfg →
  ∀ (comps : List (List Nat)), orderOK p comps = true →
  ∀ (init : TD.A) (extra : Nat → List (Nat × TD.A)) (res : BUResult BU TD),
    analyze BU TD cv p cfg comps init extra = some res →
  ∀ (ch : Choices), InitOK p TD init (rootFn p comps) ch →
  ∀ (fuel : Nat) (e : Event), e ∈ (run p ch fuel).tr.events →
    EnvIn TD.toAbsDom (if e.atExit then res.post e.fn e.blk else res.pre e.fn e.blk) e.env

open C10.Cex in
theorem C10.analysis_sound_counterexample : ¬ C10.analysis_sound_Statement := by
  intro hS
  have hwf : prog.wf = true := by simp [IProg.wf, IFun.wf, prog, IStmt.defs]
  have hsc : prog.scoped = true := by simp [IProg.scoped, IFun.scoped, prog, IStmt.vars, ILin.vars]
  have hP := progOK_of_wf hwf hsc
  -- the event of the entry of `f`
  let fenv : Env := (mkFrame prog (fun _ => 0) (run prog (fun _ => 0) 2).ci 1
    ([1, 0].map (fun a => frame.env.getD a 0))).env
  have hev : (⟨1, 0, false, fenv⟩ : Event) ∈ (run prog (fun _ => 0) 3).tr.events := Array.mem_push_self
  have hc := hS prog hwf hsc C10.collIDom C10.collIDom (Conv.same _) C10.collIDom_rename cfg
    (C10.crab_wto_ok prog hwf _ 20 1 1) (C10.crab_wto_ok prog hwf _ 20 1 1) [[1], [0]] (by decide)
    C10.collIDom.top (fun _ => []) res res_eq (fun _ => 0) (Or.inl (fun _ _ σ _ => trivial))
    3 _ hev
  have h1 : (1 : Nat) < prog.funs.size := by decide
  have hm := mkFrame_match prog (fun _ => 0) (run prog (fun _ => 0) 2).ci 1
    ([1, 0].map (fun a => frame.env.getD a 0)) (hP 1 h1).ins_nodup (hP 1 h1).ins_lt
  have hm' : MatchVals [0, 1] [env.getD 1 0, env.getD 0 0] (toSt fenv) := hm
  have hpre : entry (toSt fenv) := hc _ (Ext_toSt _)
  have he := entry_spec _ hpre
  rw [hm'.1, hm'.2.1, env_vals.1, env_vals.2] at he
  exact absurd he (by decide)

/-! ### non-vacuity: a two-function program analysed with the collecting domain -/

namespace C10.Ex



/-- `main: v2 := 5; v3 := f(v2)`   `f(v0) -> v1: v1 := v0 + 1` -/
def prog : IProg :=
  { nv := 4, main := 0,
    funs := #[
      { name := "main", ins := [], outs := [],
        blocks := #[{ stmts := #[.assign 2 ⟨5, []⟩, .call 1 [3] [2]], succs := #[] }] },
      { name := "f", ins := [0], outs := [1],
        blocks := #[{ stmts := #[.bin .add 1 0 (.cst 1)], succs := #[] }] }] }

def cfg : FixCfg := crabWto prog 20 1 1

def sums : SumTable C10.collIDom := (buPhase C10.collIDom prog cfg [1, 0] (fun _ => none)).getD (fun _ => none)

end C10.Ex

open C10.Ex in
theorem C10.Ex.sums_eq : buPhase C10.collIDom prog cfg [1, 0] (fun _ => none) = some sums := rfl

namespace C10.Ex

def sumF : Summary C10.collIDom := (sums 1).getD ⟨fun _ => True, [], []⟩

end C10.Ex

open C10.Ex in
theorem C10.Ex.sumF_eq : sums 1 = some sumF := rfl

namespace C10.Ex

def res : BUResult C10.collIDom C10.collIDom :=
  (analyze C10.collIDom C10.collIDom (Conv.same _) prog cfg [[1], [0]] C10.collIDom.top (fun _ => [])).getD
    ⟨fun _ => none, TDState.empty _⟩

end C10.Ex

open C10.Ex in
theorem C10.Ex.res_eq : analyze C10.collIDom C10.collIDom (Conv.same _) prog cfg [[1], [0]] C10.collIDom.top
    (fun _ => []) = some res := rfl

open C10.Ex in
theorem C10.Ex.prog_wf : prog.wf = true := by simp [IProg.wf, IFun.wf, prog, IStmt.defs]

open C10.Ex in
theorem C10.Ex.prog_scoped : prog.scoped = true := by simp [IProg.scoped, IFun.scoped, prog, IStmt.vars, ILin.vars]

open C10.Ex in
theorem C10.Ex.prog_seqok : prog.callsSeqOK = true := by simp [IProg.callsSeqOK, prog, seqOKb]

open C10.Ex in
/-- the hypotheses of (a) hold for the example and the theorem says something: in every execution,
    every returned call of `f` has output = input + 1 (read off the stored summary) -/
example (ch : Choices) (fuel : Nat) (r : CallRec) (hr : r ∈ (run prog ch fuel).tr.calls) (hf : r.fn = 1)
    (i o : Int) (hi : r.ins = [i]) (ho : r.outs = [o]) : o = i + 1 := by
  have h := C10.summary_sound_main prog prog_wf prog_scoped C10.collIDom C10.collIDom_rename cfg
    (C10.crab_wto_ok prog prog_wf _ 20 1 1) [1, 0] sums sums_eq ch fuel r hr sumF (by rw [hf]; exact sumF_eq)
    (fun v => if v = 0 then i else o) (by rw [hf, hi]; exact ⟨rfl, trivial⟩) (by rw [hf, ho]; exact ⟨rfl, trivial⟩)
  obtain ⟨σ, ⟨σ0, _, hst⟩, hp⟩ := h
  have h0 : i = σ 0 := hp 0 (by decide)
  have h1 : o = σ 1 := hp 1 (by decide)
  have hst' : σ = σ0.upd 1 (σ0 0 + 1) := hst
  rw [h0, h1, hst', St.upd_same, St.upd_other _ _ (by decide)]

open C10.Ex in
/-- the hypotheses of (c) / (d) hold for the example and the theorem says something: in every
    execution, `f` is entered with `v0 = 5` (read off the reported pre-invariant of its entry block) -/
example (ch : Choices) (fuel : Nat) (e : Event) (he : e ∈ (run prog ch fuel).tr.events) (hf : e.fn = 1)
    (hb : e.blk = 0) (hx : e.atExit = false) : e.env.getD 0 0 = 5 := by
  have h := C10.analysis_sound_partial prog prog_wf prog_scoped prog_seqok C10.collIDom C10.collIDom (Conv.same _)
    C10.collIDom_rename cfg (C10.crab_wto_ok prog prog_wf _ 20 1 1) (C10.crab_wto_ok prog prog_wf _ 20 1 1)
    [[1], [0]] (by decide) C10.collIDom.top (fun _ => []) res res_eq ch (Or.inl (fun _ _ σ _ => trivial))
    fuel e he
  rw [hf, hb, hx] at h
  have h' : res.pre 1 0 (toSt e.env) := h _ (Ext_toSt _)
  obtain ⟨s, ⟨s0, ⟨σ00, _, hs0⟩, hs⟩, hp⟩ := h'
  have h0 : toSt e.env 0 = s 0 := hp 0 (by decide)
  have hs0' : s0 = σ00.upd 2 5 := hs0
  show toSt e.env 0 = 5
  rw [h0, hs, St.upd_same, hs0', St.upd_same]
