import CrabProofs.Lemmas.TIRRemoveSem

/-!
# C17 (simplify) — `cfg::simplify()` preserves behaviour and well-formedness

Model: `CrabModel/Transform/Simplify.lean` (`merge_blocks_rec` in the DFS order of the code,
`remove`, `remove_unreachable_blocks`, `remove_useless_blocks`).  All theorems hold for every
version flag of `Variant` (the flag only decides whether the entry block may be folded, which
in the old version ends in CRAB_ERROR, i.e. `none`).

Hypotheses: the input is well formed (`Prog.wf`, what `>>` / `-=` maintain) and its exit block
has no successor (`Prog.exitNoSucc`: executions end when they complete the exit block;
`C17.simplify_exit_successor_counterexample` shows that the hypothesis is needed).

* `C17.simplify_preserves` : the exit-reaching executions (input, events, outputs) of the result
  are exactly those of the original;
* `C17.simplify_wf` : the result is well formed and has the same entry and exit;
* `C17.merge_blocks_preserves`, `C17.remove_unreachable_preserves` : these two phases preserve
  ALL executions from the entry (any final status), `C17.remove_useless_preserves` the
  exit-reaching ones.
Not proved (tested only): that the current `simplify` never raises CRAB_ERROR on a well-formed
CFG (the statements are conditional on `= some T`).
-/
open Crab Crab.TIR

theorem C17.sinv_of_wf {P : Prog} (hwf : P.wf = true) (hx : P.exitNoSucc = true) : SInv P := by
  refine ⟨WFp.of_wf hwf, ?_⟩
  intro x hxe
  unfold Prog.exitNoSucc at hx
  rw [hxe] at hx
  simpa using hx

theorem C17.simplify_preserves (v : Variant) (P T : Prog) (hwf : P.wf = true) (hx : P.exitNoSucc = true)
    (h : simplify v P = some T) (σ : State) (t : List Event) (outs : List Int) :
    ExitBeh P σ t outs ↔ ExitBeh T σ t outs :=
  (simplify_good v (C17.sinv_of_wf hwf hx) h).beh σ t outs

theorem C17.simplify_wf (v : Variant) (P T : Prog) (hwf : P.wf = true) (hx : P.exitNoSucc = true)
    (h : simplify v P = some T) : T.wf = true ∧ T.entry = P.entry ∧ T.exit = P.exit := by
  have g := simplify_good v (C17.sinv_of_wf hwf hx) h
  exact ⟨g.inv.wf.to_wf, g.entry, g.exit⟩

/-- merging blocks (the whole DFS) preserves every execution from the entry -/
theorem C17.merge_blocks_preserves (v : Variant) (P T : Prog) (hwf : P.wf = true) (hx : P.exitNoSucc = true)
    (h : mergeBlocks v P = some T) (σ : State) (t : List Event) (o : Outcome) :
    (Beh P σ t o ↔ Beh T σ t o) ∧ T.wf = true := by
  have g := mergeBlocks_good v (C17.sinv_of_wf hwf hx) h
  exact ⟨g.beh σ t o, g.inv.wf.to_wf⟩

/-- removing the blocks unreachable from the entry preserves every execution from the entry -/
theorem C17.remove_unreachable_preserves (P T : Prog) (hwf : P.wf = true) (hx : P.exitNoSucc = true)
    (h : removeUnreachable P = some T) (σ : State) (t : List Event) (o : Outcome) :
    (Beh P σ t o ↔ Beh T σ t o) ∧ T.wf = true := by
  have g := removeUnreachable_good (C17.sinv_of_wf hwf hx) h
  exact ⟨g.beh σ t o, g.inv.wf.to_wf⟩

/-- removing the blocks that cannot reach the exit preserves the exit-reaching executions -/
theorem C17.remove_useless_preserves (P T : Prog) (hwf : P.wf = true) (hx : P.exitNoSucc = true)
    (h : removeUseless P = some T) (σ : State) (t : List Event) (outs : List Int) :
    (ExitBeh P σ t outs ↔ ExitBeh T σ t outs) ∧ T.wf = true := by
  have g := removeUseless_good (C17.sinv_of_wf hwf hx) h
  exact ⟨g.beh σ t outs, g.inv.wf.to_wf⟩

/-- `cfg::remove` keeps a well-formed CFG well formed -/
theorem C17.remove_wf (P T : Prog) (l : Label) (hwf : P.wf = true) (h : P.remove l = some T) : T.wf = true :=
  ((remove_spec (WFp.of_wf hwf) h).wfp (WFp.of_wf hwf)).to_wf

/-- why `exitNoSucc` is a hypothesis:  b0 → b1 (exit) → b2 → b1,  b2: v0 = 7,  output v0.
    `simplify` folds b2 into the exit block b1, after which every execution that completes the
    exit block has executed `v0 = 7` -/
def C17.progExitSucc : Prog :=
  { nvars := 1, entry := 0, exit := some 1, hasFd := true, ins := [], outs := [0],
    blocks := [⟨0, [], [1], []⟩, ⟨1, [], [2], [0, 2]⟩, ⟨2, [.assign 0 ⟨7, []⟩], [1], [1]⟩] }

def C17.progExitSuccRes : Prog :=
  { C17.progExitSucc with blocks := [⟨0, [], [1], []⟩, ⟨1, [.assign 0 ⟨7, []⟩], [1], [0, 1]⟩] }

theorem C17.simplify_exit_successor_counterexample :
    C17.progExitSucc.wf = true ∧ simplify Variant.cur C17.progExitSucc = some C17.progExitSuccRes ∧
    ExitBeh C17.progExitSucc (fun _ => 0) [] [0] ∧ ¬ ExitBeh C17.progExitSuccRes (fun _ => 0) [] [0] := by
  refine ⟨by decide, by decide, ?_, ?_⟩
  · exact Exec.goto (l' := 1) (by decide) (by decide) (Exec.exit (by decide))
  · intro h
    unfold ExitBeh Beh at h
    have e0 : C17.progExitSuccRes.stmtsOf C17.progExitSuccRes.entry = [] := by decide
    rw [e0] at h
    rcases Exec.nil_inv h with ⟨hex, _⟩ | ⟨_, l', hmem, hrest⟩ | ⟨_, _, _, ho⟩
    · revert hex; decide
    · have hl : l' = 1 := by
        have : C17.progExitSuccRes.succsOf C17.progExitSuccRes.entry = [1] := by decide
        rw [this] at hmem; simpa using hmem
      subst hl
      have e1 : C17.progExitSuccRes.stmtsOf 1 = [.assign 0 ⟨7, []⟩] := by decide
      rw [e1] at hrest
      obtain ⟨hv, ⟨σ', ev, t', hstep, hr2, _⟩ | ⟨ev, hstep, _⟩⟩ := Exec.cons_inv hrest
      · simp only [stepStmt, StepRes.cont.injEq] at hstep
        obtain ⟨rfl, _⟩ := hstep
        rcases Exec.nil_inv hr2 with ⟨_, _, ho⟩ | ⟨hex, _⟩ | ⟨hex, _⟩
        · simp only [Outcome.exit.injEq] at ho
          have : C17.progExitSuccRes.outputs = [0] := by decide
          rw [this] at ho
          simp [State.set, Lin.eval, evalTerms] at ho
        · revert hex; decide
        · revert hex; decide
      · simp [stepStmt] at hstep
    · cases ho

/-- a chain with a branch, a block that cannot reach the exit (b4) and an unreachable block (b5) -/
def C17.progDemo : Prog :=
  { nvars := 1, entry := 0, exit := some 3, hasFd := false, ins := [], outs := [],
    blocks := [⟨0, [.havoc 0], [1], []⟩, ⟨1, [.assume ⟨.le, ⟨0, [(1, 0)]⟩⟩], [2, 4], [0]⟩,
               ⟨2, [.assert ⟨.le, ⟨-1, [(1, 0)]⟩⟩], [3], [1]⟩, ⟨3, [], [], [2]⟩,
               ⟨4, [.unreachable], [], [1]⟩, ⟨5, [], [], []⟩] }

/-- non-vacuity: `simplify` merges the chain b0 b1 b2 and deletes b4 and b5 -/
example :
    C17.progDemo.wf = true ∧ C17.progDemo.exitNoSucc = true ∧
    (simplify Variant.cur C17.progDemo).map (fun T => (T.labels, T.stmtsOf 0, T.succsOf 0)) =
      some ([0, 3], [.havoc 0, .assume ⟨.le, ⟨0, [(1, 0)]⟩⟩, .assert ⟨.le, ⟨-1, [(1, 0)]⟩⟩], [3]) := by
  decide
