import CrabProofs.Lemmas.FunctorFlatBoolInst
import CrabProofs.Lemmas.FunctorFlatBoolOps4
import CrabProofs.Lemmas.FunctorFlatBoolRename
import CrabProofs.Props.C03

/-!
# C03 for `flat_boolean_numerical_domain<Dom>`, as a functor over any lawful numerical base

Model: `Crab.Dom.Fct.FBN N` (`CrabModel/Dom/Functors/FlatBool*.lean`) over a base `N : BNDom V K`
(the laws of `LDom` plus `+=`, `entails`, the two interval tests of `trunc`, `assign(x, k)`) and a
signature of constraints `K : CSig V` (`negate` is exact, a constraint only reads its variables).
Concrete states `CSt V`: an integer valuation and a Boolean valuation.

**The invariant** (`FBN.Inv`, part of `FBN.γ`): for every Boolean `b`
* every constraint `c` recorded in `m_bool_to_lincsts[b]` whose variables are all in
  `m_unchanged_vars` is EQUIVALENT to `b` in the state (`FBN.LinInvOf`) — an equivalence, not an
  implication: this is what makes `b := not(c)` / the negative reduction right, and it is why
  `select_bool` must not record what it only implies (26c913b);
* every Boolean recorded in `m_bool_to_bools[b]` is implied by `b` (`FBN.BoolInvOf`);
* none of the three components is the bottom of its lattice.

Every operation re-establishes it (`C03.flatbool_inv_step`), the meet-like ones included since
repo commit ef2ddd6: `&`, `&=`, `&&` unite the maps and INTERSECT the unchanged-variable sets, so
that a constraint that is usable in the result is usable in the operand that recorded it.  Before
that commit they took the union of the sets, which revived stale constraints of one operand
through the marks of the other: `FBN.meetOld`, `C03.flatbool_meetOld_counterexample` in
`Props/C03FlatBoolCex.lean` (found by this proof, replayed on the real code).

Hypotheses on the base besides `LDom`'s laws: each transformer `f2` the product forwards to the base
abstracts the concrete relation of the statement (`LDom.TSound`); `b := trunc(x)` does not call the
base at all, so the base must not constrain the Boolean `b` (`FBN.IgnoresBool`, true of the shipped
numerical domains: `int_cast_domain_traits` forgets, it never relates a Boolean).  `expand` and
`rename` are proved under their documented contract (the target is not in the abstract state:
`FBN.BoolFresh`, `FBN.Fresh`, established by `forget`), `rename` for one pair of variables.
Not proved: `rename` of several variables at once, the reference-constraint map, backward
operations.
-/
open Crab Crab.Dom Crab.Dom.Fct

variable {V : Type} [DecidableEq V] {K : CSig V} {N : BNDom V K}

/-! ## the operations one by one -/

/-- `b := cst` (linear constraint), incl. the constant cases, `mark_vars_as_unchanged` and the
    removal of what was recorded for / about the old `b` -/
theorem C03.flatbool_assign_bool_cst_sound (f2 : N.B → N.B) (x : V) (c : K.C)
    (hf2 : N.TSound f2 (FBN.relBcst x c)) (a : FBN N) (s s' : CSt V) (hg : a.γ s)
    (hr : FBN.relBcst x c s s') : (FBN.assignBoolCst f2 x c a).γ s' := FBN.assignBoolCst_sound hf2 hg hr

/-- `b := c`, `b := not(c)` -/
theorem C03.flatbool_assign_bool_var_sound (f2 : N.B → N.B) (x y : V) (neg : Bool)
    (hf2 : N.TSound f2 (FBN.relBvar x y neg)) (a : FBN N) (s s' : CSt V) (hg : a.γ s)
    (hr : FBN.relBvar x y neg s s') : (FBN.assignBoolVar f2 x y neg a).γ s' :=
  FBN.assignBoolVar_sound hf2 hg hr

/-- `b := c and/or/xor d` -/
theorem C03.flatbool_apply_binary_bool_sound (f2 : N.B → N.B) (op : BBin) (x y z : V)
    (hf2 : N.TSound f2 (FBN.relBbin op x y z)) (a : FBN N) (s s' : CSt V) (hg : a.γ s)
    (hr : FBN.relBbin op x y z s s') : (FBN.applyBinaryBool f2 op x y z a).γ s' :=
  FBN.applyBinaryBool_sound hf2 hg hr

/-- `assume(b)` / `assume(not(b))` with the reduction that pushes the recorded constraints whose
    variables are unchanged into the numerical value -/
theorem C03.flatbool_assume_bool_sound (f2 : N.B → N.B) (x : V) (neg : Bool)
    (hf2 : N.TSound f2 (FBN.relAssume x neg)) (a : FBN N) (s s' : CSt V) (hg : a.γ s)
    (hr : FBN.relAssume x neg s s') : (FBN.assumeBool f2 x neg a).γ s' := FBN.assumeBool_sound hf2 hg hr

/-- the reduction alone, both polarities (the negative one is dead code in `assume_bool`) -/
theorem C03.flatbool_reduction_sound (x : V) (neg : Bool) (a : FBN N) (s : CSt V) (hg : a.γ s)
    (hx : s.bool x = !neg) :
    (FBN.reduceBoolToCsts x neg a).γ s ∧ (FBN.bwdReductionAssumeBool x neg a).γ s :=
  ⟨FBN.reduceBoolToCsts_sound x neg hg hx, FBN.bwdReductionAssumeBool_sound x neg hg hx⟩

/-- `lhs := select(cond, b1, b2)` -/
theorem C03.flatbool_select_bool_sound (f2 f2' : N.B → N.B) (lhs cond b1 b2 : V)
    (hf2 : N.TSound f2 (FBN.relBsel lhs cond b1 b2))
    (hf2' : b1 = b2 → N.TSound f2' (FBN.relBvar lhs b1 false)) (a : FBN N) (s s' : CSt V) (hg : a.γ s)
    (hr : FBN.relBsel lhs cond b1 b2 s s') : (FBN.selectBool f2 f2' lhs cond b1 b2 a).γ s' :=
  FBN.selectBool_sound hf2 hf2' hg hr

/-- `assign`, `weak_assign`, `apply` (arithmetic / bitwise), `select`, `set`, `array_load`, .. on a
    numerical `x`: the constraints that mention `x` become unusable (`m_unchanged_vars -= x`) -/
theorem C03.flatbool_numerical_sound (m : Prod2.Meth) (f2 : N.B → N.B) (x : V) (r : CSt V → CSt V → Prop)
    (hf2 : N.TSound f2 r) (hd : FBN.DefinesNum x r) (a : FBN N) (s s' : CSt V) (hg : a.γ s) (hr : r s s') :
    (FBN.numDef m f2 x a).γ s' := FBN.numDef_sound m hf2 hd hg hr

/-- `operator+=` (all three paths) -/
theorem C03.flatbool_add_constraints_sound (isTrue allNonBool : Bool) (lits : List (V × Bool))
    (f2 : N.B → N.B) (r : CSt V → CSt V → Prop) (hf2 : N.TSound f2 r) (hd : FBN.Filters r)
    (hl : ∀ s s', r s s' → ∀ l ∈ lits, s.bool l.1 = !l.2) (a : FBN N) (s s' : CSt V) (hg : a.γ s)
    (hr : r s s') : (FBN.addCsts isTrue allNonBool lits f2 a).γ s' :=
  FBN.addCsts_sound isTrue allNonBool hf2 hd hl hg hr

/-- `operator-=` on a Boolean or on a numerical variable -/
theorem C03.flatbool_forget1_sound (isBool : V → Bool) (f2 : N.B → N.B) (v : V)
    (hf2 : N.TSound f2 (FBN.relForget1 isBool v)) (a : FBN N) (s s' : CSt V) (hg : a.γ s)
    (hr : FBN.relForget1 isBool v s s') : (FBN.forget1 isBool f2 v a).γ s' :=
  FBN.forget1_sound isBool hf2 hg hr

/-- `forget(variables)` (Booleans and numerical variables mixed) -/
theorem C03.flatbool_forget_sound (isBool : V → Bool) (f2 : N.B → N.B) (vs : List V)
    (hf2 : N.TSound f2 (FBN.relForget isBool vs)) (a : FBN N) (s s' : CSt V) (hg : a.γ s)
    (hr : FBN.relForget isBool vs s s') : (FBN.forget isBool f2 vs a).γ s' :=
  FBN.forget_sound isBool hf2 hg hr

/-- `project(variables)`: the three auxiliary components are reset -/
theorem C03.flatbool_project_sound (f2 : N.B → N.B) (vs : List V) (hf2 : N.TSound f2 (FBN.relProject vs))
    (a : FBN N) (s s' : CSt V) (hg : a.γ s) (hr : FBN.relProject vs s s') : (FBN.project f2 vs a).γ s' :=
  FBN.project_sound hf2 hg hr

/-- `expand(x, new_x)`.  The code does not touch `m_bool_to_bools`: for a Boolean `x` the target
    must not occur in it (contract of `expand`: `new_x` is not in the abstract state; a `forget`
    establishes it — without it the real code is unsound, see the final report).  For a numerical
    `x` the maps need nothing: `new_x` is marked as changed (bb23efe). -/
theorem C03.flatbool_expand_sound (isBool : V → Bool) (f2 : N.B → N.B) (x nx : V)
    (hf2 : N.TSound f2 (FBN.relExpand isBool x nx)) (a : FBN N) (s s' : CSt V) (hg : a.γ s)
    (hfresh : isBool x = true → FBN.BoolFresh nx a.bools)
    (hty : isBool x = false → a.prod.fst.get x = .top)
    (hr : FBN.relExpand isBool x nx s s') : (FBN.expand isBool f2 x nx a).γ s' :=
  FBN.expand_sound isBool hf2 hg hfresh hty hr

/-- `rename({x}, {y})` of one variable, `y` of the type of `x` and not in the abstract state
    (`FBN.Fresh`: the documented contract of `rename`; without it the real code is unsound) -/
theorem C03.flatbool_rename1_sound (isBool : V → Bool) (f2 : N.B → N.B) (x y : V) (hxy : x ≠ y)
    (hty : isBool y = isBool x) (hf2 : N.TSound f2 (FBN.relRename1 isBool x y)) (a : FBN N) (s s' : CSt V)
    (hg : a.γ s) (hfresh : FBN.Fresh isBool y a) (htx : isBool x = false → a.prod.fst.get x = .top)
    (hr : FBN.relRename1 isBool x y s s') : (FBN.rename isBool f2 [x] [y] a).γ s' :=
  FBN.rename1_sound isBool hxy hty hf2 hg hfresh htx hr

/-- `-= y` establishes the part of the freshness contract that concerns the three auxiliary
    components (what `expand` and `rename` rely on) -/
theorem C03.flatbool_forget1_fresh (isBool : V → Bool) (f2 : N.B → N.B) (y : V) (a : FBN N)
    (hl : a.lin.isBot = false) (hb : a.bools.isBot = false) (hu : a.unch.isBot = false) :
    if isBool y then
      (∀ c, ((FBN.forget1 isBool f2 y a).lin.look y).mem c = false) ∧
        FBN.BoolFresh y (FBN.forget1 isBool f2 y a).bools
    else (FBN.forget1 isBool f2 y a).unch.mem y = false := by
  unfold FBN.forget1
  cases hy : isBool y with
  | true =>
    simp only [if_true]
    constructor
    · intro c
      cases h : ((a.lin.del y).look y).mem c
      · rfl
      · exact absurd rfl ((SEnv.mem_look_del hl y y c).1 h).1
    · intro k k' hk
      rw [FBN.mem_forgetImpliedBool (by rw [SEnv.isBot_del]; exact hb), SEnv.mem_look_del hb] at hk
      exact ⟨hk.2.1, hk.1⟩
  | false =>
    simp only [Bool.false_eq_true, if_false]
    cases h : (a.unch.remove y).mem y
    · rfl
    · exact absurd rfl ((DSet.mem_remove _ hu y y).1 h).1

/-- `weak_assign_bool_cst`, `weak_assign_bool_var` (copy, strong assignment, `|=`) -/
theorem C03.flatbool_weak_assign_bool_sound (f2 : N.B → N.B) (x y : V) (neg : Bool) (c : K.C) (a : FBN N)
    (s s' : CSt V) (hg : a.γ s) :
    (N.TSound f2 (FBN.relBcst x c) → FBN.relWeak (FBN.relBcst x c) s s' →
      (FBN.weakAssignBoolCst f2 x c a).γ s') ∧
    (N.TSound f2 (FBN.relBvar x y neg) → FBN.relWeak (FBN.relBvar x y neg) s s' →
      (FBN.weakAssignBoolVar f2 x y neg a).γ s') :=
  ⟨fun h hr => FBN.weakAssignBoolCst_sound h hg hr, fun h hr => FBN.weakAssignBoolVar_sound h hg hr⟩

/-- `to_linear_constraint_system()`: the Boolean part (`b == 1` / `b == 0` for the definite
    Booleans) holds in every state of the value (the numerical part is the base's) -/
theorem C03.flatbool_to_linear_constraint_system_sound (a : FBN N) (s : CSt V) (hg : a.γ s) :
    ∃ l, FBN.boolFacts a = some l ∧ ∀ p ∈ l, s.bool p.1 = p.2 := FBN.boolFacts_sound hg

/-- `b := trunc(x)`: needs a base that does not constrain the Boolean `b` (it is not called) -/
theorem C03.flatbool_cast_trunc_sound (dst src : V) (hN : FBN.IgnoresBool N dst) (a : FBN N)
    (s s' : CSt V) (hg : a.γ s) (hr : FBN.relTrunc dst src s s') : (FBN.castTrunc dst src a).γ s' :=
  FBN.castTrunc_sound hN hg hr

/-- `x := zext(b)` (three cases on the flat value of `b`) -/
theorem C03.flatbool_cast_ext_sound (funk : N.B → N.B) (dst src : V)
    (hf : N.TSound funk (FBN.relExt dst src)) (a : FBN N) (s s' : CSt V) (hg : a.γ s)
    (hr : FBN.relExt dst src s s') : (FBN.castExt funk dst src a).γ s' := FBN.castExt_sound hf hg hr

theorem C03.flatbool_cast_other_sound (f2 : N.B → N.B) (dst : V) (r : CSt V → CSt V → Prop)
    (hf2 : N.TSound f2 r) (hd : FBN.DefinesNum dst r) (a : FBN N) (s s' : CSt V) (hg : a.γ s)
    (hr : r s s') : (FBN.castOther f2 dst a).γ s' := FBN.castOther_sound hf2 hd hg hr

/-- `|`, `|=`: the maps and the unchanged set are intersected -/
theorem C03.flatbool_join_sound (a b : FBN N) (s : CSt V) (h : a.γ s ∨ b.γ s) :
    (FBN.join a b).γ s ∧ (FBN.joinEq a b).γ s := ⟨FBN.join_sound h, FBN.joinEq_sound h⟩

/-- `||`, `widening_thresholds` -/
theorem C03.flatbool_widen_sound (w2 : N.B → N.B → N.B) (hw : N.USound w2) (a b : FBN N) (s : CSt V)
    (h : a.γ s ∨ b.γ s) : (FBN.widenWith w2 a b).γ s := FBN.widenWith_sound hw h

/-- `&`, `&=`, `&&` (after ef2ddd6) keep every state common to both operands -/
theorem C03.flatbool_meet_sound (a b : FBN N) (s : CSt V) (ha : a.γ s) (hb : b.γ s) :
    (FBN.meet a b).γ s ∧ (FBN.meetEq a b).γ s ∧ (FBN.narrow a b).γ s :=
  ⟨FBN.meet_sound ha hb, FBN.meetEq_sound ha hb, FBN.narrow_sound ha hb⟩

theorem C03.flatbool_make_top_bottom (s : CSt V) : (FBN.top : FBN N).γ s ∧ ¬ (FBN.bottom : FBN N).γ s :=
  ⟨FBN.γ_top s, FBN.not_γ_bottom s⟩

/-! ## histories -/

/-- every operation of the language satisfies its soundness law (History.lean) on every abstract
    value -/
theorem C03.flatbool_step_sound (isBool : V → Bool) (op : FBN.Op N) (hop : op.BaseSound isBool) :
    (op.toStep isBool).Sound FBN.γ := by
  cases op with
  | bcst d f2 x c => exact fun a s s' hg hr => FBN.assignBoolCst_sound hop hg hr
  | bvar d f2 x y neg => exact fun a s s' hg hr => FBN.assignBoolVar_sound hop hg hr
  | bbin d f2 op x y z => exact fun a s s' hg hr => FBN.applyBinaryBool_sound hop hg hr
  | bassume d f2 x neg => exact fun a s s' hg hr => FBN.assumeBool_sound hop hg hr
  | bsel d f2 f2' lhs cond b1 b2 => exact fun a s s' hg hr => FBN.selectBool_sound hop.1 hop.2 hg hr
  | numDef d m f2 x r => exact fun a s s' hg hr => FBN.numDef_sound m hop.1 hop.2 hg hr
  | addCsts d t nb lits f2 r => exact fun a s s' hg hr => FBN.addCsts_sound t nb hop.1 hop.2.1 hop.2.2 hg hr
  | forget1 d f2 v => exact fun a s s' hg hr => FBN.forget1_sound isBool hop hg hr
  | forget d f2 vs => exact fun a s s' hg hr => FBN.forget_sound isBool hop hg hr
  | project d f2 vs => exact fun a s s' hg hr => FBN.project_sound hop hg hr
  | wbcst d f2 x c => exact fun a s s' hg hr => FBN.weakAssignBoolCst_sound hop hg hr
  | wbvar d f2 x y neg => exact fun a s s' hg hr => FBN.weakAssignBoolVar_sound hop hg hr
  | trunc d dst src => exact fun a s s' hg hr => FBN.castTrunc_sound hop hg hr
  | ext d funk dst src => exact fun a s s' hg hr => FBN.castExt_sound hop hg hr
  | castOther d f2 dst r => exact fun a s s' hg hr => FBN.castOther_sound hop.1 hop.2 hg hr
  | join d a b => exact fun a b s h => FBN.join_sound h
  | joinEq d a b => exact fun a b s h => FBN.joinEq_sound h
  | widen d a b w2 => exact fun a b s h => FBN.widenWith_sound hop h
  | meet d a b => exact fun a b s ha hb => FBN.meet_sound ha hb
  | meetEq d a b => exact fun a b s ha hb => FBN.meetEq_sound ha hb
  | narrow d a b => exact fun a b s ha hb => FBN.narrow_sound ha hb
  | copy d s => trivial
  | setTop d => exact fun a s s' _ _ => FBN.γ_top s'
  | setBottom d => trivial

/-- **the invariant is preserved by every operation**: after a transformer the auxiliary components
    of the result describe the new state; after `|`, `|=`, `||` they describe every state of either
    operand; after `&`, `&=`, `&&` every state of both -/
theorem C03.flatbool_inv_step (isBool : V → Bool) (op : FBN.Op N) (hop : op.BaseSound isBool) :
    match op.toStep isBool with
    | .trans _ t => ∀ a s s', FBN.γ a s → t.r s s' → FBN.Inv (t.f a) s'
    | .upper _ _ _ g => ∀ a b s, (FBN.γ a s ∨ FBN.γ b s) → FBN.Inv (g a b) s
    | .lower _ _ _ g => ∀ a b s, FBN.γ a s → FBN.γ b s → FBN.Inv (g a b) s
    | _ => True := by
  have h := C03.flatbool_step_sound isBool op hop
  cases op <;> simp only [FBN.Op.toStep] at h ⊢
  all_goals first
    | trivial
    | exact fun a s s' hg hr => (h a s s' hg hr).2
    | exact fun a b s hg => (h a b s hg).2
    | exact fun a b s ha hb => (h a b s ha hb).2

/-- **History soundness of `flat_boolean_numerical_domain`** over every lawful base: every pool,
    history length and interleaving of Boolean statements and reductions, numerical statements,
    casts, `-=`, `forget`, `project`, weak assignments, `|`, `|=`, `||`, `&`, `&=`, `&&`, copies,
    `set_to_top`, `set_to_bottom`. -/
theorem C03.flatbool_history_sound (isBool : V → Bool) (ops : List (FBN.Op N))
    (hops : ∀ op ∈ ops, op.BaseSound isBool) (p : Pool (FBN N)) (c : CPool (CSt V))
    (h0 : ∀ i s, c i s → FBN.γ (p i) s) :
    ∀ i s, collHist c (FBN.toHist isBool ops) i s → FBN.γ (runHist p (FBN.toHist isBool ops) i) s := by
  apply C03.history_sound FBN.γ _ _ p c h0
  intro st hst
  simp only [FBN.toHist, List.mem_map] at hst
  obtain ⟨op, hop, rfl⟩ := hst
  exact C03.flatbool_step_sound isBool op (hops op hop)

/-- a slot that some execution reaches is never reported bottom -/
theorem C03.flatbool_not_bottom_on_reachable (isBool : V → Bool) (ops : List (FBN.Op N))
    (hops : ∀ op ∈ ops, op.BaseSound isBool) (p : Pool (FBN N)) (c : CPool (CSt V))
    (h0 : ∀ i s, c i s → FBN.γ (p i) s) (i : Nat) (s : CSt V)
    (hc : collHist c (FBN.toHist isBool ops) i s) :
    (runHist p (FBN.toHist isBool ops) i).isBottom = false := by
  cases hb : (runHist p (FBN.toHist isBool ops) i).isBottom
  · rfl
  · exact absurd (C03.flatbool_history_sound isBool ops hops p c h0 i s hc) (FBN.not_γ_of_isBottom hb s)
