import CrabProofs.Lemmas.ZSpecBits
import CrabProofs.Lemmas.ZSpecOps
import CrabProofs.Lemmas.ZSpecStr
import CrabProofs.Lemmas.QNumSpec
import CrabProofs.Lemmas.SafeIntSpec
import CrabProofs.Lemmas.LinTerm

/-!
# C20 — numbers and linear constraints keep their mathematical meaning

Property theorems only (helper lemmas live in `CrabProofs/Lemmas`).  Models:
`Crab.ZNum` (`ikos::z_number`), `Crab.QNum` (`ikos::q_number`), `Crab.SafeInt` (`crab::safe_i64`),
`Crab.Lin.Expr` / `Cst` / `Sys` (`ikos::linear_expression` / `linear_constraint` /
`linear_constraint_system` over `z_number`), `Crab.Lin.Term` / `CTerm` (construction histories).
Every statement quantifies over all numbers / expressions / valuations.  Where the code as it is
violates the full statement, the statement is kept as a `def …_Statement`, with a `_partial`
theorem (explicit decidable hypothesis) and a `_counterexample` (left: shift amounts `≥ 2^64`,
and the `mpz_import` construction path that is dead code on LP64).
-/
open Crab

/-! ## z_number -/

/-- int64 round trip: `(int64_t) z_number(x) = x` for every `int64_t` x -/
theorem C20.z_int64_roundtrip (x : Int) (h : ZNum.fitsInt64 x = true) :
    ZNum.toInt64? (ZNum.X.ofInt64' x) = some x := by
  have h' := (ZNum.Spec.fitsInt64_iff x).1 h
  rw [ZNum.Spec.ofInt64'_eq x h'.1 h'.2, ZNum.Spec.toInt64?_eq, if_pos h]

/-- `operator int64_t`: the value itself when it fits, CRAB_ERROR exactly outside the range -/
theorem C20.z_to_int64_exact (x : Int) :
    ZNum.toInt64? x = if ZNum.fitsInt64 x then some x else none := ZNum.Spec.toInt64?_eq x

theorem C20.z_fits_int64_iff (x : Int) :
    ZNum.fitsInt64 x = true ↔ (-(2 ^ 63) ≤ x ∧ x ≤ 2 ^ 63 - 1) := ZNum.Spec.fitsInt64_iff x

/-- uint64 round trip: `from_uint64(n)` has the value `n` -/
theorem C20.z_uint64_roundtrip (n : Nat) (h : n < 2 ^ 64) : ZNum.X.ofUInt64 n = (n : Int) :=
  ZNum.Spec.ofUInt64_eq n h

/-- both construction paths of `z_number(int64_t)` keep the value: violated by the
    `mpz_import` path (taken only where `signed long` is narrower than 64 bits) on negatives -/
def C20.z_of_int64_paths_Statement : Prop :=
  ∀ n : Int, -(2 ^ 63) ≤ n → n ≤ 2 ^ 63 - 1 → ZNum.X.ofInt64Si n = n ∧ ZNum.X.ofInt64Import n = n

theorem C20.z_of_int64_paths_partial (n : Int) (h0 : 0 ≤ n) (h2 : n ≤ 2 ^ 63 - 1) :
    ZNum.X.ofInt64Si n = n ∧ ZNum.X.ofInt64Import n = n :=
  ⟨rfl, ZNum.Spec.ofInt64Import_nonneg n h0 h2⟩

theorem C20.z_of_int64_paths_counterexample : ¬ C20.z_of_int64_paths_Statement := by
  intro h
  have := (h (-5) (by decide) (by decide)).2
  revert this
  decide

/-- text round trip in every base 2..36: `z_number(x.get_str(b), b) = x` -/
theorem C20.z_string_roundtrip (b : Nat) (hb : 2 ≤ b) (hb' : b ≤ 36) (x : Int) :
    ZNum.X.ofStr? b (ZNum.X.toStr b x) = some x := ZNum.Spec.ofStr?_toStr b hb hb' x

/-- `/` and `%` are truncating: `a = b*q + r`, `|r| < |b|`, `r` has the sign of `a`, and these
    conditions determine `q` and `r` -/
theorem C20.z_div_rem_spec (a b q r : Int) (hb : b ≠ 0) :
    (ZNum.div? a b = some q ∧ ZNum.rem? a b = some r) ↔
      (a = b * q + r ∧ r.natAbs < b.natAbs ∧ (0 ≤ a → 0 ≤ r) ∧ (a ≤ 0 → r ≤ 0)) :=
  ZNum.Spec.div_rem_spec a b q r hb

/-- division and remainder raise CRAB_ERROR exactly on a zero divisor -/
theorem C20.z_div_rem_error_iff (a b : Int) :
    (ZNum.div? a b = none ↔ b = 0) ∧ (ZNum.rem? a b = none ↔ b = 0) :=
  ⟨ZNum.Spec.div?_none_iff a b, ZNum.Spec.rem?_none_iff a b⟩

/-- `>>` is the floor quotient by `2^k` for every non-negative amount: violated for amounts
    `≥ 2^64`, which `mpz_get_ui` silently reduces modulo `2^64` -/
def C20.z_shr_floor_Statement : Prop :=
  ∀ a k : Int, 0 ≤ k → ZNum.shr a k = a / 2 ^ k.toNat

theorem C20.z_shr_floor_partial (a k : Int) (h0 : 0 ≤ k) (h1 : k < 2 ^ 64) :
    ZNum.shr a k = a / 2 ^ k.toNat := ZNum.Spec.shr_floor a k h0 h1

theorem C20.z_shr_floor_counterexample : ¬ C20.z_shr_floor_Statement := by
  intro h
  have h1 := h 1 (2 ^ 64) (by decide)
  rw [ZNum.Spec.shr_one_two_pow_64, ZNum.Spec.one_div_two_pow _ (by decide)] at h1
  exact absurd h1 (by decide)

/-- what `>>` computes for any amount: floor quotient by `2^(|k| mod 2^64)` -/
theorem C20.z_shr_as_coded (a k : Int) : ZNum.shr a k = a / 2 ^ (k.natAbs % 2 ^ 64) :=
  ZNum.Spec.shr_eq a k

/-- `<<` multiplies by `2^k` for every non-negative amount: same restriction -/
def C20.z_shl_Statement : Prop :=
  ∀ a k : Int, 0 ≤ k → ZNum.shl a k = a * 2 ^ k.toNat

theorem C20.z_shl_partial (a k : Int) (h0 : 0 ≤ k) (h1 : k < 2 ^ 64) :
    ZNum.shl a k = a * 2 ^ k.toNat := ZNum.Spec.shl_eq a k h0 h1

theorem C20.z_shl_counterexample : ¬ C20.z_shl_Statement := by
  intro h
  have h1 := h 1 (2 ^ 64) (by decide)
  have h2 : ZNum.shl 1 (2 ^ 64) = 1 := by decide
  rw [h2, Int.one_mul] at h1
  have h3 := ZNum.Spec.one_lt_two_pow_int (2 ^ 64 : Int).toNat (by decide)
  rw [← h1] at h3
  exact absurd h3 (by decide)

/-- meaning of a bit in infinite two's complement: parity of the floor quotient by `2^i` -/
theorem C20.z_bit_meaning (x : Int) (i : Nat) :
    ZNum.X.bit x i = decide ((x / 2 ^ i) % 2 = 1) := ZNum.Spec.bit_eq_div_mod x i

/-- an integer is determined by its bits -/
theorem C20.z_bit_ext (x y : Int) (h : ∀ i, ZNum.X.bit x i = ZNum.X.bit y i) : x = y :=
  ZNum.Spec.bit_ext h

/-- `&`, `|`, `^` act bit by bit on the infinite two's-complement representations, for all
    operands (negative ones included) and all bit positions -/
theorem C20.z_and_bitwise (a b : Int) (i : Nat) :
    ZNum.X.bit (ZNum.land a b) i = (ZNum.X.bit a i && ZNum.X.bit b i) := ZNum.Spec.bit_land a b i
theorem C20.z_or_bitwise (a b : Int) (i : Nat) :
    ZNum.X.bit (ZNum.lor a b) i = (ZNum.X.bit a i || ZNum.X.bit b i) := ZNum.Spec.bit_lor a b i
theorem C20.z_xor_bitwise (a b : Int) (i : Nat) :
    ZNum.X.bit (ZNum.lxor a b) i = (ZNum.X.bit a i ^^ ZNum.X.bit b i) := ZNum.Spec.bit_lxor a b i

/-- on non-negative operands they are the bitwise operations of the natural numbers -/
theorem C20.z_bitwise_nonneg (m n : Nat) :
    ZNum.land (m : Int) (n : Int) = ((m &&& n : Nat) : Int) ∧
    ZNum.lor (m : Int) (n : Int) = ((m ||| n : Nat) : Int) ∧
    ZNum.lxor (m : Int) (n : Int) = ((m ^^^ n : Nat) : Int) :=
  ⟨ZNum.Spec.land_natCast m n, ZNum.Spec.lor_natCast m n, ZNum.Spec.lxor_natCast m n⟩

/-- `fill_ones` of `x ≥ 0` is the least number of the form `2^j - 1` that is `≥ x` -/
theorem C20.z_fill_ones_spec (x : Int) (hx : 0 ≤ x) :
    ∃ j : Nat, ZNum.fillOnes x = 2 ^ j - 1 ∧ x ≤ ZNum.fillOnes x ∧
      ∀ k : Nat, x ≤ 2 ^ k - 1 → ZNum.fillOnes x ≤ 2 ^ k - 1 := ZNum.Spec.fillOnes_spec x hx

/-! ## q_number -/

/-- `q_number(num, den)`: CRAB_ERROR exactly on a zero denominator; otherwise (denominator of
    either sign, common factors allowed) the stored pair is canonical and denotes `num / den` -/
theorem C20.q_constructor (n d : Int) :
    (QNum.mk? n d = none ↔ d = 0) ∧
    (d ≠ 0 → ∃ q, QNum.mk? n d = some q ∧ q.Canonical ∧ q.toRat = Rat.divInt n d) :=
  ⟨QNum.mk?_none_iff n d, QNum.mk?_spec n d⟩

/-- `round_to_lower` is the floor, for ALL pairs with a non-zero denominator -/
theorem C20.q_round_lower (n d : Int) (h : d ≠ 0) :
    ∃ q, QNum.mk? n d = some q ∧ QNum.roundToLower q = some (Rat.divInt n d).floor :=
  QNum.roundToLower_mk n d h

/-- `round_to_upper` is the ceiling, for ALL pairs with a non-zero denominator -/
theorem C20.q_round_upper (n d : Int) (h : d ≠ 0) :
    ∃ q, QNum.mk? n d = some q ∧ QNum.roundToUpper q = some (Rat.divInt n d).ceil :=
  QNum.roundToUpper_mk n d h

/-- on any stored pair with a positive denominator (every value of the class): floor / ceiling of
    the denoted rational, i.e. floor division of the raw numerator by the raw denominator -/
theorem C20.q_round_stored (q : QNum) (h : 0 < q.den) :
    QNum.roundToLower q = some q.toRat.floor ∧ QNum.roundToUpper q = some q.toRat.ceil ∧
    QNum.roundToLower q = some (q.num / q.den) ∧ QNum.roundToUpper q = some (-((-q.num) / q.den)) :=
  ⟨QNum.roundToLower_floor q h, QNum.roundToUpper_ceil q h, QNum.roundToLower_pos q h,
   QNum.roundToUpper_pos q h⟩

/-- on a raw pair the rounding functions raise CRAB_ERROR exactly on a zero denominator (which the
    constructor no longer lets through) -/
theorem C20.q_round_error_iff (q : QNum) :
    (QNum.roundToLower q = none ↔ q.den = 0) ∧ (QNum.roundToUpper q = none ↔ q.den = 0) :=
  ⟨QNum.roundToLower_none_iff q, QNum.roundToUpper_none_iff q⟩

/-- `+`, `-`, `*` (and `+=`, `-=`, `*=`) return a canonical pair that denotes the exact result -/
theorem C20.q_arith_exact (a b : QNum) (ha : 0 < a.den) (hb : b.den ≠ 0) :
    (∃ r, QNum.add a b = .ok r ∧ r.Canonical ∧ r.toRat = a.toRat + b.toRat) ∧
    (∃ r, QNum.sub a b = .ok r ∧ r.Canonical ∧ r.toRat = a.toRat - b.toRat) ∧
    (∃ r, QNum.mul a b = .ok r ∧ r.Canonical ∧ r.toRat = a.toRat * b.toRat) :=
  ⟨QNum.bin_spec _ a b ha hb, QNum.bin_spec _ a b ha hb, QNum.bin_spec _ a b ha hb⟩

theorem C20.q_arith_assign_exact (a b : QNum) (ha : a.den ≠ 0) (hb : b.den ≠ 0) :
    (∃ r, QNum.addAssign a b = .ok r ∧ r.Canonical ∧ r.toRat = a.toRat + b.toRat) ∧
    (∃ r, QNum.subAssign a b = .ok r ∧ r.Canonical ∧ r.toRat = a.toRat - b.toRat) ∧
    (∃ r, QNum.mulAssign a b = .ok r ∧ r.Canonical ∧ r.toRat = a.toRat * b.toRat) :=
  ⟨QNum.binAssign_spec _ a b ha hb, QNum.binAssign_spec _ a b ha hb, QNum.binAssign_spec _ a b ha hb⟩

/-- `/` : CRAB_ERROR exactly on a zero divisor, otherwise the exact quotient -/
theorem C20.q_div_exact (a b : QNum) (ha : 0 < a.den) (hb : b.den ≠ 0) :
    (b.toRat = 0 → QNum.div a b = .err) ∧
    (b.toRat ≠ 0 → ∃ r, QNum.div a b = .ok r ∧ r.Canonical ∧ r.toRat = a.toRat / b.toRat) :=
  QNum.div_spec a b ha hb

/-! ## safe_i64 -/

/-- a checked operation answers `r` iff `r` is the exact result and fits `int64_t`; otherwise it
    raises CRAB_ERROR: it never wraps silently -/
theorem C20.safe_add_exact (a b r : Int) (ha : SafeInt.inRange a = true) (hb : SafeInt.inRange b = true) :
    SafeInt.add a b = some r ↔ (r = a + b ∧ SafeInt.inRange r = true) := SafeInt.add_spec a b r ha hb
theorem C20.safe_sub_exact (a b r : Int) (ha : SafeInt.inRange a = true) (hb : SafeInt.inRange b = true) :
    SafeInt.sub a b = some r ↔ (r = a - b ∧ SafeInt.inRange r = true) := SafeInt.sub_spec a b r ha hb
theorem C20.safe_mul_exact (a b r : Int) (ha : SafeInt.inRange a = true) (hb : SafeInt.inRange b = true) :
    SafeInt.mul a b = some r ↔ (r = a * b ∧ SafeInt.inRange r = true) := SafeInt.mul_spec a b r ha hb
theorem C20.safe_div_exact (a b r : Int) (ha : SafeInt.inRange a = true) (hb : b ≠ 0) :
    SafeInt.div a b = .ok r ↔ (r = a.tdiv b ∧ SafeInt.inRange r = true) := SafeInt.div_spec a b r ha hb
theorem C20.safe_neg_exact (a r : Int) (ha : SafeInt.inRange a = true) :
    SafeInt.neg a = some r ↔ (r = -a ∧ SafeInt.inRange r = true) := SafeInt.neg_spec a r ha
theorem C20.safe_of_z_exact (n r : Int) :
    SafeInt.ofZ n = some r ↔ (r = n ∧ SafeInt.inRange r = true) := SafeInt.ofZ_spec n r

/-- CRAB_ERROR exactly when the exact result does not fit -/
theorem C20.safe_error_iff (a b : Int) (ha : SafeInt.inRange a = true) (hb : SafeInt.inRange b = true) :
    (SafeInt.add a b = none ↔ SafeInt.inRange (a + b) = false) ∧
    (SafeInt.sub a b = none ↔ SafeInt.inRange (a - b) = false) ∧
    (SafeInt.mul a b = none ↔ SafeInt.inRange (a * b) = false) ∧
    (b ≠ 0 → (SafeInt.div a b = .err ↔ SafeInt.inRange (a.tdiv b) = false)) :=
  ⟨SafeInt.add_none a b ha hb, SafeInt.sub_none a b ha hb, SafeInt.mul_none a b ha hb,
   fun h => SafeInt.div_err a b ha h⟩

/-- the 128-bit intermediate of every checked operation holds the exact result -/
theorem C20.safe_wide_exact (a b : Int) (ha : SafeInt.inRange a = true) (hb : SafeInt.inRange b = true) :
    SafeInt.wide (a + b) = a + b ∧ SafeInt.wide (a - b) = a - b ∧ SafeInt.wide (a * b) = a * b ∧
    SafeInt.wide (a.tdiv b) = a.tdiv b := by
  have ha' := (SafeInt.inRange_iff a).1 ha
  have hb' := (SafeInt.inRange_iff b).1 hb
  have hm := SafeInt.mul_bound ha hb
  have hd := SafeInt.tdiv_bound b ha
  exact ⟨SafeInt.wide_eq (by omega) (by omega), SafeInt.wide_eq (by omega) (by omega),
    SafeInt.wide_eq hm.1 hm.2, SafeInt.wide_eq hd.1 hd.2⟩

/-! ## linear expressions -/
open Crab.Lin

/-- evaluation is a homomorphism for sum, difference, scaling, negation and the mixed operators -/
theorem C20.lin_eval_add (a b : Expr) (σ : Var → Int) :
    (Expr.add a b).eval σ = a.eval σ + b.eval σ := Expr.eval_add a b σ
theorem C20.lin_eval_sub (a b : Expr) (σ : Var → Int) :
    (Expr.sub a b).eval σ = a.eval σ - b.eval σ := Expr.eval_sub a b σ
theorem C20.lin_eval_scale (e : Expr) (n : Int) (σ : Var → Int) :
    (Expr.scale e n).eval σ = n * e.eval σ := Expr.eval_scale e n σ
theorem C20.lin_eval_neg (e : Expr) (σ : Var → Int) :
    (Expr.neg e).eval σ = -e.eval σ := Expr.eval_neg e σ
theorem C20.lin_eval_mixed (e : Expr) (n : Int) (x : Var) (σ : Var → Int) :
    (Expr.addNum e n).eval σ = e.eval σ + n ∧ (Expr.subNum e n).eval σ = e.eval σ - n ∧
    (Expr.addVar e x).eval σ = e.eval σ + σ x ∧ (Expr.subVar e x).eval σ = e.eval σ - σ x ∧
    (Expr.const n).eval σ = n ∧ (Expr.var x).eval σ = σ x ∧ (Expr.term n x).eval σ = n * σ x :=
  ⟨Expr.eval_addNum e n σ, Expr.eval_subNum e n σ, Expr.eval_addVar e x σ, Expr.eval_subVar e x σ,
   Expr.eval_const n σ, Expr.eval_var x σ, Expr.eval_term n x σ⟩

/-- renaming (any map, injective or not) evaluates as the original under the renamed
    valuation; the hypothesis is the map invariant of `flat_map` (strictly increasing keys) -/
theorem C20.lin_eval_rename (e : Expr) (h : e.Sorted) (m : List (Var × Var)) (σ : Var → Int) :
    (Expr.rename e m).eval σ = e.eval (fun v => σ (Expr.renVar m v)) := Expr.eval_rename h m σ

/-- the operators preserve the canonical form (sorted map without zero coefficient) of their
    left operand, whatever the right operand is; scaling, negation and renaming always return
    zero-free maps -/
theorem C20.lin_canonical_preserved (a b : Expr) (n : Int) (x : Var) (m : List (Var × Var))
    (h : a.Canonical) :
    (Expr.add a b).Canonical ∧ (Expr.sub a b).Canonical ∧ (Expr.scale a n).Canonical ∧
    (Expr.neg a).Canonical ∧ (Expr.addNum a n).Canonical ∧ (Expr.subNum a n).Canonical ∧
    (Expr.addVar a x).Canonical ∧ (Expr.subVar a x).Canonical ∧ (Expr.rename b m).Canonical :=
  ⟨⟨Expr.sorted_add b h.1, Expr.noZero_add b h.2⟩, ⟨Expr.sorted_sub b h.1, Expr.noZero_sub b h.2⟩,
   ⟨Expr.sorted_scale n h.1, Expr.noZero_scale a n⟩, ⟨Expr.sorted_neg h.1, Expr.noZero_neg a⟩,
   ⟨Expr.sorted_addNum n h.1, Expr.noZero_addNum n h.2⟩, ⟨Expr.sorted_subNum n h.1, Expr.noZero_subNum n h.2⟩,
   ⟨Expr.sorted_addVar x h.1, Expr.noZero_addVar x h.2⟩, ⟨Expr.sorted_subVar x h.1, Expr.noZero_subVar x h.2⟩,
   ⟨Expr.sorted_rename b m, Expr.noZero_rename b m⟩⟩

/-- whole histories: every expression built with the public constructors and operators has a
    sorted map and evaluates to what the history denotes, under every valuation -/
theorem C20.lin_history_value (t : Term) (σ : Var → Int) :
    t.interp.Sorted ∧ t.interp.eval σ = t.den σ := ⟨Term.interp_sorted t, Term.eval_interp t σ⟩

/-- every expression built through the public interface is canonical (sorted map without zero
    coefficient), `0 * x` and `linear_expression(Number 0, variable)` included -/
theorem C20.lin_canonical (t : Term) : t.interp.Canonical := Term.interp_canonical t

/-- `equal` is equality of the stored maps and constants -/
theorem C20.lin_equal_iff (e o : Expr) : e.equal o = true ↔ e = o := Expr.equal_iff e o

/-! ## linear constraints -/

/-- negation is the exact complement over the integers, for every kind of constraint -/
theorem C20.lin_negate_complement (c : Cst) (σ : Var → Int) :
    (Cst.negate c).sat σ ↔ ¬ c.sat σ := Cst.sat_negate c σ

/-- the generic inequality case (used when the numbers are not integers) is a complement too -/
theorem C20.lin_negate_generic_complement (c : Cst) (σ : Var → Int) :
    (Cst.negateGeneric c).sat σ ↔ ¬ c.sat σ := Cst.sat_negateGeneric c σ

/-- a yes of either test is correct for every constraint -/
theorem C20.lin_tests_sound (c : Cst) (σ : Var → Int) :
    (c.isTautology = true → c.sat σ) ∧ (c.isContradiction = true → ¬ c.sat σ) :=
  ⟨fun h => Cst.sat_of_isTautology h σ, fun h => Cst.not_sat_of_isContradiction h σ⟩

/-- both tests are exact on constraints whose expression has an empty map ... -/
theorem C20.lin_tests_exact_on_constants (c : Cst) (hc : c.expr.isConstant = true) :
    (c.isTautology = true ↔ ∀ σ, c.sat σ) ∧ (c.isContradiction = true ↔ ∀ σ, ¬ c.sat σ) :=
  ⟨Cst.isTautology_iff_of_constant hc, Cst.isContradiction_iff_of_constant hc⟩

/-- ... and answer no on every other constraint -/
theorem C20.lin_tests_false_otherwise (c : Cst) (hc : c.expr.isConstant = false) :
    c.isTautology = false ∧ c.isContradiction = false := Cst.tests_false_of_not_constant hc

/-- the tests are exact on every canonical constraint whose expression denotes a constant
    function ... -/
theorem C20.lin_tests_semantic_canonical (c : Cst) (hc : c.expr.Canonical)
    (hk : ∃ k, ∀ σ, c.expr.eval σ = k) :
    (c.isTautology = true ↔ ∀ σ, c.sat σ) ∧ (c.isContradiction = true ↔ ∀ σ, ¬ c.sat σ) := by
  obtain ⟨k, hk⟩ := hk
  exact C20.lin_tests_exact_on_constants c (Expr.isConstant_of_constant_fun hc k hk)

/-- ... hence on every constraint built through the public interface (constructors, relational
    operators, negate, strict-to-non-strict, rename) that denotes a constant function:
    `0*x - 5 <= 0` is recognised as a tautology -/
theorem C20.lin_tests_semantic (c : CTerm) (r : Cst) (h : c.interp = some r)
    (hk : ∃ k, ∀ σ, r.expr.eval σ = k) :
    (r.isTautology = true ↔ ∀ σ, r.sat σ) ∧ (r.isContradiction = true ↔ ∀ σ, ¬ r.sat σ) :=
  C20.lin_tests_semantic_canonical r (CTerm.interp_canonical h) hk

/-- strict to non-strict over the integers: `e < 0` and `e + 1 <= 0` have the same solutions -/
theorem C20.lin_strict_to_non_strict (c r : Cst) (h : c.strictToNonStrict? = some r) (σ : Var → Int) :
    r.kind = .leq ∧ (r.sat σ ↔ c.sat σ) := by
  refine ⟨?_, Cst.sat_strictToNonStrict h σ⟩
  obtain ⟨_, hr⟩ := (Cst.strictToNonStrict_iff c r).1 h
  rw [hr]

/-- renaming a constraint -/
theorem C20.lin_cst_rename (c : Cst) (h : c.expr.Sorted) (m : List (Var × Var)) (σ : Var → Int) :
    (Cst.rename c m).sat σ ↔ c.sat (fun v => σ (Expr.renVar m v)) := Cst.sat_rename h m σ

/-- whole histories of constraints (constructors, relational operators, negate,
    strict-to-non-strict, rename): the result holds exactly where the history's meaning holds -/
theorem C20.lin_history_constraint (c : CTerm) (r : Cst) (h : c.interp = some r) (σ : Var → Int) :
    r.expr.Canonical ∧ (r.sat σ ↔ c.den σ) := ⟨CTerm.interp_canonical h, CTerm.sat_interp h σ⟩

/-! ## constraint systems -/

/-- `+=` adds exactly the given constraint to the solutions' conditions (duplicates dropped) -/
theorem C20.lin_system_add (s : Sys) (c : Cst) (σ : Var → Int) :
    Sys.sat (Sys.addCst s c) σ ↔ (Sys.sat s σ ∧ c.sat σ) := Sys.sat_addCst s c σ

theorem C20.lin_system_union (a b : Sys) (σ : Var → Int) :
    Sys.sat (Sys.union a b) σ ↔ (Sys.sat a σ ∧ Sys.sat b σ) := Sys.sat_union a b σ

/-- `normalize()` preserves the solution set, for every system (duplicates, constants,
    several pairs `e <= 0`, `-e <= 0` included) -/
theorem C20.lin_normalize_preserves (s : Sys) (σ : Var → Int) :
    Sys.sat (Sys.normalize s) σ ↔ Sys.sat s σ := Sys.sat_normalize s σ

/-! ## non-vacuity -/

example : ZNum.fitsInt64 (-(2 ^ 63)) = true ∧ ZNum.toInt64? (-(2 ^ 63)) = some (-(2 ^ 63)) ∧
    ZNum.toInt64? (2 ^ 63) = none := by decide

example : ZNum.div? (-7) 2 = some (-3) ∧ ZNum.rem? (-7) 2 = some (-1) ∧ ZNum.shr (-7) 1 = -4 ∧
    ZNum.land (-4) 6 = 4 ∧ ZNum.lor (-4) 1 = -3 ∧ ZNum.lxor (-1) 5 = -6 ∧ ZNum.fillOnes 9 = 15 := by
  decide

example : QNum.roundToLower ⟨-7, 2⟩ = some (-4) ∧ QNum.roundToUpper ⟨-7, 2⟩ = some (-3) ∧
    QNum.roundToLower ⟨7, 0⟩ = none ∧ QNum.mk? 7 0 = none := by decide

example : SafeInt.inRange (2 ^ 63 - 1) = true ∧ SafeInt.add (2 ^ 63 - 1) 1 = none ∧
    SafeInt.mul (-(2 ^ 63)) (-1) = none ∧ SafeInt.div (-(2 ^ 63)) (-1) = .err ∧
    SafeInt.mul 3037000499 3037000499 = some 9223372030926249001 := by decide

example : (Term.add (.term 2 0) (.term 3 1)).interp = ⟨[(0, 2), (1, 3)], 0⟩ ∧
    (Term.term 0 1).interp = Expr.const 0 ∧
    (Term.sub (.term 2 0) (.term 2 0)).interp = Expr.const 0 ∧
    (CTerm.mk .leq (.addn (.term 0 1) (-5))).interp = some ⟨Expr.const (-5), .leq⟩ ∧
    Cst.isTautology ⟨Expr.const (-5), .leq⟩ = true := by decide

example : Sys.normalize [⟨Expr.term 2 1, .leq⟩, ⟨Expr.term (-2) 1, .leq⟩, ⟨Expr.var 0, .lt⟩]
    = [⟨Expr.term 2 1, .eq⟩, ⟨Expr.var 0, .lt⟩] := by decide

example : Cst.negate ⟨Expr.addNum (Expr.var 0) (-3), .leq⟩ = ⟨Expr.addNum (Expr.term (-1) 0) 4, .leq⟩ := by
  decide

example : QNum.mk? 3 (-2) = some ⟨-3, 2⟩ ∧ QNum.mk? 4 (-6) = some ⟨-2, 3⟩ ∧
    (QNum.mk? 3 (-2)).bind QNum.roundToUpper = some (-1) ∧
    (QNum.mk? 3 (-2)).bind QNum.roundToLower = some (-2) := by decide
