import CrabProofs.Lemmas.XDomSgnInst

/-!
# C04 for `sign_domain<z_number>` — inclusion test, lattice operations, `is_bottom`, `is_top`
and `entails` agree with the concretisation (proved on the exact model `Crab.SDom`, see
`Props/C03Sgn.lean` for the model, the correspondence and the hypotheses `Inv`, `CstOk`).
Widening is the join and narrowing the meet in this domain.
-/
open Crab Crab.SDom Crab.XDom Crab.Lin

/-- a yes answer of `operator<=` is an inclusion of concretisations -/
theorem C04.sgndom_leq_sound (a b : Env) (ha : a.Inv) (hb : b.Inv) (σ : State)
    (h : XDom.Env.leq signLattice a b = true) (hg : a.γ σ) : b.γ σ := XDom.Env.leq_sound signLaws ha hb h hg

/-- yes on equal values, with bottom on the left, with top on the right -/
theorem C04.sgndom_leq_refl (a : Env) (ha : a.Inv) : XDom.Env.leq signLattice a a = true :=
  XDom.Env.leq_refl signLaws ha
theorem C04.sgndom_bot_le (b : Env) : XDom.Env.leq signLattice SDom.Env.bot b = true :=
  XDom.Env.leq_of_bot rfl b
theorem C04.sgndom_leq_bottom_left (a b : Env) (h : a.isBot = true) : XDom.Env.leq signLattice a b = true :=
  XDom.Env.leq_of_bot h b
theorem C04.sgndom_le_top (a : Env) (ha : a.Inv) : XDom.Env.leq signLattice a SDom.Env.top = true :=
  XDom.Env.leq_top signLaws ha

/-- `is_bottom()` answers yes exactly on the values that describe no state -/
theorem C04.sgndom_is_bottom_iff (e : Env) (he : e.Inv) : XDom.Env.isBottom e = true ↔ ∀ σ, ¬ e.γ σ :=
  XDom.Env.isBottom_iff signLaws he

/-- `is_top()` answers yes exactly on the values that describe every state -/
theorem C04.sgndom_is_top_iff (e : Env) (he : e.Inv) : XDom.Env.isTop e = true ↔ ∀ σ, e.γ σ :=
  XDom.Env.isTop_iff signLaws he

/-- `make_bottom` describes no state, `make_top` describes every state -/
theorem C04.sgndom_bot_empty (σ : State) : ¬ SDom.Env.bot.γ σ := XDom.Env.not_γ_bot σ
theorem C04.sgndom_top_all (σ : State) : SDom.Env.top.γ σ := XDom.Env.γ_top signLaws σ
theorem C04.sgndom_top_is_top : XDom.Env.isTop SDom.Env.top = true ∧ XDom.Env.isBottom SDom.Env.bot = true := by
  decide

/-- join contains both arguments -/
theorem C04.sgndom_join_upper (a b : Env) (ha : a.Inv) (hb : b.Inv) (σ : State) (h : a.γ σ ∨ b.γ σ) :
    Env.γ (XDom.Env.join signLattice a b) σ := XDom.Env.upper_sound signLaws signLaws.join ha hb h

/-- meet is below both arguments … -/
theorem C04.sgndom_meet_lower (a b : Env) (ha : a.Inv) (hb : b.Inv) (σ : State)
    (h : Env.γ (XDom.Env.meet signLattice a b) σ) : a.γ σ ∧ b.γ σ :=
  XDom.Env.lower_below signLaws signLaws.meet (fun _ _ _ hk => meet_lower hk) ha hb h

/-- … and describes exactly the common states -/
theorem C04.sgndom_meet_iff (a b : Env) (ha : a.Inv) (hb : b.Inv) (σ : State) :
    Env.γ (XDom.Env.meet signLattice a b) σ ↔ (a.γ σ ∧ b.γ σ) :=
  ⟨C04.sgndom_meet_lower a b ha hb σ, fun ⟨h1, h2⟩ => XDom.Env.lower_sound signLaws signLaws.meet ha hb h1 h2⟩

/-- widening (`operator||`, `widening_thresholds`: the join) contains both arguments -/
theorem C04.sgndom_widen_upper (a b : Env) (ha : a.Inv) (hb : b.Inv) (σ : State) (h : a.γ σ ∨ b.γ σ) :
    (SEnv.widen ⟨a, ha⟩ ⟨b, hb⟩).γ σ := XDom.Env.upper_sound signLaws signLaws.join ha hb h

/-- narrowing (`operator&&`: the meet) keeps the common states -/
theorem C04.sgndom_narrow_sound (a b : Env) (ha : a.Inv) (hb : b.Inv) (σ : State) (h1 : a.γ σ) (h2 : b.γ σ) :
    (SEnv.narrow ⟨a, ha⟩ ⟨b, hb⟩).γ σ := XDom.Env.lower_sound signLaws signLaws.meet ha hb h1 h2

/-- `entails(cst)` (`DEFAULT_ENTAILS`): a yes answer holds in every state of `γ` -/
theorem C04.sgndom_entails_sound (e : Env) (he : e.Inv) (σ : State) (c : Lin.Cst) (hc : CstOk c) (hg : e.γ σ)
    (h : e.entails c = true) : c.sat σ := SDom.Env.entails_sound he hg hc h

/-- non-vacuity: `{x > 0} <= {x >= 0}`, not the converse; `{x > 0}` entails `-x <= 0` -/
example : XDom.Env.leq signLattice (SDom.Env.top.set 0 .gtz) (SDom.Env.top.set 0 .gez) = true ∧
    XDom.Env.leq signLattice (SDom.Env.top.set 0 .gez) (SDom.Env.top.set 0 .gtz) = false ∧
    (SDom.Env.top.set 0 .gtz).entails ⟨⟨[(0, -1)], 0⟩, .leq⟩ = true ∧
    XDom.Env.bindings (XDom.Env.join signLattice (SDom.Env.top.set 0 .gtz) (SDom.Env.top.set 0 .eqz)) = [(0, .gez)] := by
  decide +kernel
