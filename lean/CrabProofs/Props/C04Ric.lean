import CrabProofs.Lemmas.XDomRicInst

/-!
# C04 for the "ric" domain `numerical_congruence_domain<interval_domain<z_number>>` — inclusion
test, lattice operations, `is_bottom`, `is_top` and `entails` agree with the concretisation
(proved on the exact model `Crab.RDom`, see Props/C03Ric.lean for the model, the correspondence
and the hypotheses).

`is_bottom()` is sound but, by design of the product, not complete: the lattice operations
combine the components without the per-variable reduction, so a value can describe no state and
not be bottom (`C04.ricdom_is_bottom_incomplete`: `x ∈ [1, 2]` met with `x ∈ 4Z`).
-/
open Crab Crab.RDom Crab.XDom Crab.Lin

/-- a yes answer of `operator<=` is an inclusion of concretisations -/
theorem C04.ricdom_leq_sound (a b : Env) (ha : a.Inv) (hb : b.Inv) (σ : State) (h : Env.leq a b = true)
    (hg : a.γ σ) : b.γ σ := Env.leq_sound ha hb h hg

/-- yes on equal values, with bottom on the left, with top on the right -/
theorem C04.ricdom_leq_refl (a : Env) (ha : a.Inv) : Env.leq a a = true := Env.leq_refl ha
theorem C04.ricdom_bot_le (b : Env) : Env.leq RDom.Env.bot b = true := Env.leq_of_isBottom rfl b
theorem C04.ricdom_leq_bottom_left (a b : Env) (h : a.isBottom = true) : Env.leq a b = true :=
  Env.leq_of_isBottom h b
theorem C04.ricdom_le_top (a : Env) (ha : a.Inv) : Env.leq a RDom.Env.top = true := Env.leq_top ha

/-- `is_bottom()` answers yes only on values that describe no state -/
theorem C04.ricdom_is_bottom_sound (e : Env) (σ : State) (h : e.isBottom = true) : ¬ e.γ σ :=
  Env.not_γ_of_isBottom h σ

/-- the full statement: `is_bottom()` answers yes exactly on the values that describe no state -/
def C04.ricdom_is_bottom_iff_Statement : Prop :=
  ∀ e : Env, e.Inv → (e.isBottom = true ↔ ∀ σ, ¬ e.γ σ)

/-- the meet of `x ∈ [1, 2]` and `x ∈ 4Z` (two reduced values) describes no state and is not bottom:
    `operator&` meets the components and does not call `reduce_variable` -/
theorem C04.ricdom_is_bottom_incomplete : ¬ C04.ricdom_is_bottom_iff_Statement := by
  intro h
  let a : Env := RDom.Env.top.set 0 ⟨⟨.fin 1, .fin 2⟩, Cong.top⟩
  let b : Env := RDom.Env.top.set 0 ⟨Itv.top, ⟨false, 4, 0⟩⟩
  have ha : a.Inv := Env.set_inv RDom.Env.inv_top (by decide) (by decide)
  have hb : b.Inv := Env.set_inv RDom.Env.inv_top (by decide) (by decide)
  have hm := Env.meet_inv ha hb
  have hvals : (Env.meet a b).isBottom = false ∧ (Env.meet a b).f.get 0 = ⟨.fin 1, .fin 2⟩ ∧
      (Env.meet a b).s.get 0 = ⟨false, 4, 0⟩ := by decide +kernel
  have hno : ∀ σ, ¬ (Env.meet a b).γ σ := by
    intro σ hg
    have h1 := hg.2.1.2 0
    have h2 := GDom.Env.get_mem hg.2.2 0
    rw [hvals.2.1] at h1
    rw [hvals.2.2] at h2
    simp only [Itv.mem, Bound.le, decide_eq_true_eq] at h1
    obtain ⟨_, k, hk⟩ := h2
    simp only at hk
    omega
  have := (h _ hm).mpr hno
  rw [hvals.1] at this
  cases this

/-- `is_top()` answers yes only on values that describe every state -/
theorem C04.ricdom_is_top_sound (e : Env) (he : e.Inv) (σ : State) (h : e.isTop = true) : e.γ σ :=
  Env.γ_of_isTop he h σ

theorem C04.ricdom_bot_empty (σ : State) : ¬ RDom.Env.bot.γ σ := Env.not_γ_bot σ
theorem C04.ricdom_top_all (σ : State) : RDom.Env.top.γ σ := Env.γ_top σ
theorem C04.ricdom_top_is_top : RDom.Env.top.isTop = true ∧ RDom.Env.bot.isBottom = true := by decide

/-- join (`operator|`, `operator|=`) contains both arguments -/
theorem C04.ricdom_join_upper (a b : Env) (ha : a.Inv) (hb : b.Inv) (σ : State) (h : a.γ σ ∨ b.γ σ) :
    (Env.join a b).γ σ ∧ (Env.joinEq a b).γ σ := ⟨Env.join_upper ha hb h, Env.joinEq_upper ha hb h⟩

/-- meet is below both arguments … -/
theorem C04.ricdom_meet_lower (a b : Env) (ha : a.Inv) (hb : b.Inv) (σ : State) (h : (Env.meet a b).γ σ) :
    a.γ σ ∧ b.γ σ := Env.meet_lower ha hb h

/-- … and describes exactly the common states -/
theorem C04.ricdom_meet_iff (a b : Env) (ha : a.Inv) (hb : b.Inv) (σ : State) :
    (Env.meet a b).γ σ ↔ (a.γ σ ∧ b.γ σ) :=
  ⟨Env.meet_lower ha hb, fun ⟨h1, h2⟩ => Env.meet_sound ha hb h1 h2⟩

/-- `operator&=` keeps the common states -/
theorem C04.ricdom_meet_eq_sound (a b : Env) (ha : a.Inv) (hb : b.Inv) (σ : State) (h1 : a.γ σ) (h2 : b.γ σ) :
    (Env.meetEq a b).γ σ := Env.meetEq_sound ha hb h1 h2

/-- widening (`operator||`, no canonicalisation) contains both arguments -/
theorem C04.ricdom_widen_upper (a b : Env) (ha : a.Inv) (hb : b.Inv) (σ : State) (h : a.γ σ ∨ b.γ σ) :
    (Env.widen a b).γ σ := Env.widen_upper ha hb h

/-- widening with thresholds contains both arguments -/
theorem C04.ricdom_widen_thresholds_upper (ts : IDom.Thresholds) (hw : ts.WF) (a b : Env) (ha : a.Inv) (hb : b.Inv)
    (σ : State) (h : a.γ σ ∨ b.γ σ) : (Env.widenTh ts a b).γ σ := Env.widenTh_upper hw ha hb h

/-- narrowing keeps the common states -/
theorem C04.ricdom_narrow_sound (a b : Env) (ha : a.Inv) (hb : b.Inv) (σ : State) (h1 : a.γ σ) (h2 : b.γ σ) :
    (Env.narrow a b).γ σ := Env.narrow_sound ha hb h1 h2

/-- `entails(cst)`: a yes answer of either component holds in every state of `γ` -/
theorem C04.ricdom_entails_sound (e : Env) (he : e.Inv) (σ : State) (c : Lin.Cst) (hc : CstOk c) (hg : e.γ σ)
    (h : e.entails c = true) : c.sat σ := Env.entails_sound he hg hc h

/-- non-vacuity: `{x ∈ [1,5] ∩ 4Z+1} <= {x ∈ [0,9] ∩ 2Z+1}`, not the converse; the first entails `x - 5 <= 0` -/
example :
    let a : Env := RDom.Env.top.set 0 ⟨⟨.fin 1, .fin 5⟩, ⟨false, 4, 1⟩⟩
    let b : Env := RDom.Env.top.set 0 ⟨⟨.fin 1, .fin 9⟩, ⟨false, 2, 1⟩⟩
    Env.leq a b = true ∧ Env.leq b a = false ∧ a.entails ⟨(Expr.var 0).subNum 5, .leq⟩ = true := by
  decide +kernel
