import CrabProofs.Lemmas.WInterval

/-!
# C13 (part 2) — wrapped intervals over-approximate bit-vector operations

Property theorems only (helper lemmas: `CrabProofs/Lemmas/WInterval.lean`).
`Crab.WInt` is the branch-by-branch model of `crab::domains::wrapped_interval<z_number>`
(`CrabModel/Scalar/WInterval.lean`).

* `Shape w x` : `x` is bottom, or its two end points are reduced wrapints of width `w`
  (this includes every full circle of width `w`, which `is_top()` recognises).
* `mem w v x` : the value `v < 2^w` belongs to `γ(x)`: `x` is not bottom and (`x.isTop`, or walking
  clockwise from `start`, `v` comes no later than `end`:
  `(v - start) mod 2^w ≤ (end - start) mod 2^w`, written with the circular distance `D`).
  `memBV v x` is the same for `v : BitVec w`.

Every statement quantifies over all widths `1 ≤ w ≤ 64`, all intervals of that width (arbitrary
`start`, `end`: crossing the north pole, the south pole, both or none; top; bottom) and all
members.

Proved for all widths: the specification of `at`, soundness of `<=`, `|` (upper bound), `&`
(keeps the common members), `+`, binary `-`, unary `-`.
Violated by the code as it is (found by the exhaustive run at widths 3 and 4 and the random
run, reproduced here by `decide` on the model, which agrees with the code on every one of the
1.5 million cases of the complete tables): `*`, `UDiv`, the widening `||`:
`_Statement` / `_partial` / `_counterexample` below.
Only tested (sound on everything explored): `SDiv`, `Shl/LShr/AShr`, `ZExt/SExt/Trunc`,
`to_interval`, half lines, `trim_interval`, `mk_winterval`.
-/
open Crab Crab.WInt Crab.WrapInt

/-! ## membership -/

/-- circular distance is the modular difference -/
theorem C13.wint_dist_spec (M s v : Nat) (hs : s < M) (hv : v < M) :
    D M s v = (v + M - s) % M := D_eq_mod hs hv

/-- specification of `at` on a non-bottom interval `(start, end)` of width `w`:
    `at(v) ↔ is_top ∨ (v - start) mod 2^w ≤ (end - start) mod 2^w`, and `is_top` is
    `(end - start) mod 2^w = 2^w - 1` -/
theorem C13.wint_at_spec (w : Nat) (hw : w ≤ 64) (s e v : Nat)
    (hs : s < 2 ^ w) (he : e < 2 ^ w) (hv : v < 2 ^ w) :
    ((W w s e false).at ⟨w, v⟩ = true ↔
      ((e + 2 ^ w - s) % 2 ^ w = 2 ^ w - 1 ∨ (v + 2 ^ w - s) % 2 ^ w ≤ (e + 2 ^ w - s) % 2 ^ w)) ∧
    ((W w s e false).isTop = true ↔ (e + 2 ^ w - s) % 2 ^ w = 2 ^ w - 1) := by
  rw [at_W_iff hw hs he hv, isTop_W hw hs he]
  unfold A
  rw [D_eq_mod hs he, D_eq_mod hs hv]
  simp
/-- the same with bit-vectors: `at(v) ↔ end - start = 11…1 ∨ v - start ≤ᵤ end - start` -/
theorem C13.wint_at_spec_bitvec (w : Nat) (hw : w ≤ 64) (S E V : BitVec w) :
    (W w S.toNat E.toNat false).at (ofBV V) = true ↔
      (E - S = BitVec.allOnes w ∨ V - S ≤ E - S) := by
  rw [at_W_iff hw S.isLt E.isLt V.isLt]
  unfold A
  rw [← bv_sub_toNat_D, ← bv_sub_toNat_D, BitVec.le_def, ← BitVec.toNat_inj, BitVec.toNat_allOnes]
/-- `at` decides membership; bottom has no member, top has them all -/
theorem C13.wint_at_iff_mem (w : Nat) (hw : w ≤ 64) (s e v : Nat)
    (hs : s < 2 ^ w) (he : e < 2 ^ w) (hv : v < 2 ^ w) :
    (W w s e false).at ⟨w, v⟩ = true ↔ mem w v (W w s e false) := by
  rw [at_W_iff hw hs he hv, mem_W hw hs he]; rfl
theorem C13.wint_bottom_empty (w v : Nat) (x : WInt) (h : x.isBottom = true) :
    ¬ mem w v x ∧ x.at ⟨w, v⟩ = false := by
  refine ⟨mem_bottom_false h, ?_⟩
  simp [WInt.at, h]
theorem C13.wint_top_full (w v : Nat) : mem w v WInt.top := mem_top w v

/-! ## order and lattice operations -/

/-- a yes answer of `<=` is an inclusion of concretisations -/
theorem C13.wint_leq_sound (w : Nat) (hw : w ≤ 64) (x y : WInt) (hx : Shape w x) (hy : Shape w y)
    (h : x.leq y = true) (v : BitVec w) (hv : memBV v x) : memBV v y :=
  leq_sound hw hx hy v.isLt h hv
/-- `|` is an upper bound of both operands -/
theorem C13.wint_join_upper (w : Nat) (hw : w ≤ 64) (x y : WInt) (hx : Shape w x) (hy : Shape w y)
    (v : BitVec w) (hv : memBV v x ∨ memBV v y) : memBV v (x.join y) :=
  join_upper hw hx hy v.isLt hv
/-- `&` (and `&&`, which calls it) keeps every common member -/
theorem C13.wint_meet_sound (w : Nat) (hw : w ≤ 64) (x y : WInt) (hx : Shape w x) (hy : Shape w y)
    (v : BitVec w) (h1 : memBV v x) (h2 : memBV v y) : memBV v (x.meet y) :=
  meet_sound hw hx hy v.isLt h1 h2

/-! ## arithmetic under wrap-around semantics -/

theorem C13.wint_add_sound (w : Nat) (h1 : 1 ≤ w) (hw : w ≤ 64) (x y : WInt)
    (hx : Shape w x) (hy : Shape w y) (a b : BitVec w) (ha : memBV a x) (hb : memBV b y) :
    memBV (a + b) (x.add y) := by
  obtain ⟨s1, e1, a1, a2, rfl⟩ := shape_cases hx ha.1
  obtain ⟨s2, e2, a3, a4, rfl⟩ := shape_cases hy hb.1
  unfold memBV
  rw [BitVec.toNat_add]
  exact add_W_sound h1 hw a1 a2 a3 a4 a.isLt b.isLt ha hb
theorem C13.wint_sub_sound (w : Nat) (h1 : 1 ≤ w) (hw : w ≤ 64) (x y : WInt)
    (hx : Shape w x) (hy : Shape w y) (a b : BitVec w) (ha : memBV a x) (hb : memBV b y) :
    memBV (a - b) (x.sub y) := by
  obtain ⟨s1, e1, a1, a2, rfl⟩ := shape_cases hx ha.1
  obtain ⟨s2, e2, a3, a4, rfl⟩ := shape_cases hy hb.1
  unfold memBV
  rw [bv_sub_toNat_D]
  exact sub_W_sound h1 hw a1 a2 a3 a4 a.isLt b.isLt ha hb
theorem C13.wint_neg_sound (w : Nat) (hw : w ≤ 64) (x : WInt) (hx : Shape w x)
    (a : BitVec w) (ha : memBV a x) : memBV (-a) x.neg := by
  obtain ⟨s, e, a1, a2, rfl⟩ := shape_cases hx ha.1
  unfold memBV
  rw [bv_neg_toNat_D]
  exact neg_W_sound hw a1 a2 a.isLt ha
/-- bottom operands give bottom, top operands give top -/
theorem C13.wint_arith_bottom_top (x y : WInt) :
    (x.isBottom = true ∨ y.isBottom = true → x.add y = WInt.bottom ∧ x.sub y = WInt.bottom) ∧
    (x.isBottom = false → y.isBottom = false → x.isTop = true ∨ y.isTop = true →
      x.add y = WInt.top ∧ x.sub y = WInt.top) := by
  constructor
  · rintro (h | h) <;> simp [WInt.add, WInt.sub, h]
  · intro hx hy h
    rcases h with h | h <;> simp [WInt.add, WInt.sub, hx, hy, h]

/-! ## statements violated by the code as it is -/

/-- the widening is an upper bound of its operands -/
def C13.wint_widen_Statement : Prop :=
  ∀ (w : Nat), 1 ≤ w → w ≤ 64 → ∀ (x y r : WInt), Shape w x → Shape w y → x.widen y = some r →
    ∀ v : BitVec w, memBV v x ∨ memBV v y → memBV v r
/-- it holds on the paths that do not extrapolate (an operand bottom, or `y <= x`) -/
theorem C13.wint_widen_partial (w : Nat) (hw : w ≤ 64) (x y r : WInt) (hx : Shape w x) (hy : Shape w y)
    (hex : x.isBottom = true ∨ y.isBottom = true ∨
           (x.isTop = false ∧ y.isTop = false ∧ y.leq x = true))
    (h : x.widen y = some r) (v : BitVec w) (hv : memBV v x ∨ memBV v y) : memBV v r := by
  unfold WInt.widen at h
  rcases hex with hb | hb | ⟨t1, t2, hl⟩
  · simp only [hb, if_true, Option.some.injEq] at h
    subst h
    rcases hv with hv | hv
    · exact absurd hv (mem_bottom_false hb)
    · exact hv
  · cases hxb : x.isBottom
    · simp only [hxb, hb, Bool.false_eq_true, if_false, if_true, Option.some.injEq] at h
      subst h
      rcases hv with hv | hv
      · exact hv
      · exact absurd hv (mem_bottom_false hb)
    · simp only [hxb, if_true, Option.some.injEq] at h
      subst h
      rcases hv with hv | hv
      · exact absurd hv (mem_bottom_false hxb)
      · exact hv
  · cases hxb : x.isBottom
    · cases hyb : y.isBottom
      · simp only [hxb, hyb, t1, t2, hl, Bool.false_eq_true, if_false, if_true, Bool.or_self,
          Option.some.injEq] at h
        subst h
        rcases hv with hv | hv
        · exact hv
        · exact leq_sound hw hy hx v.isLt hl hv
      · simp only [hxb, hyb, Bool.false_eq_true, if_false, if_true, Option.some.injEq] at h
        subst h
        rcases hv with hv | hv
        · exact hv
        · exact absurd hv (mem_bottom_false hyb)
    · simp only [hxb, if_true, Option.some.injEq] at h
      subst h
      rcases hv with hv | hv
      · exact absurd hv (mem_bottom_false hxb)
      · exact hv
/-- width 7: `[53,64] || [61,54]` returns `[61,54]`, which does not contain `55 ∈ [53,64]`
    (third branch of `operator||`: both ends of the old interval lie in the new one, but the
    old interval covers the gap of the new one; the join computed just before is top) -/
theorem C13.wint_widen_counterexample : ¬ C13.wint_widen_Statement := by
  intro h
  have := h 7 (by decide) (by decide) (W 7 53 64 false) (W 7 61 54 false) (W 7 61 54 false)
    (by decide) (by decide) (by decide) 55#7 (Or.inl (by decide))
  revert this
  decide

/-- multiplication over-approximates the products modulo 2^w -/
def C13.wint_mul_Statement : Prop :=
  ∀ (w : Nat), 1 ≤ w → w ≤ 64 → ∀ (x y r : WInt), Shape w x → Shape w y → x.mul y = some r →
    ∀ a b : BitVec w, memBV a x → memBV b y → memBV (a * b) r
/-- it holds trivially when an operand is top (the result is top) -/
theorem C13.wint_mul_partial (w : Nat) (x y r : WInt)
    (hex : x.isBottom = false ∧ y.isBottom = false ∧ (x.isTop = true ∨ y.isTop = true))
    (h : x.mul y = some r) (v : BitVec w) : memBV v r := by
  obtain ⟨hx, hy, ht⟩ := hex
  have : x.mul y = some WInt.top := by
    rcases ht with ht | ht <;> simp [WInt.mul, hx, hy, ht]
  rw [this] at h
  injection h with h
  subst h
  exact mem_top w _
/-- width 3: `[5,5] * [5,3]` returns `[3,1]`, but `5 * 2 = 10 = 2 (mod 8)` is not in it
    (`signed_mul` tests the overflow on the *unsigned* readings of negative bounds: for the cut
    `[5,5] x [0,3]` it computes `5*0 - 5*3 = -15 < 7` and answers `[7,0]`) -/
theorem C13.wint_mul_counterexample : ¬ C13.wint_mul_Statement := by
  intro h
  have := h 3 (by decide) (by decide) (W 3 5 5 false) (W 3 5 3 false) (W 3 3 1 false)
    (by decide) (by decide) (by decide) 5#3 2#3 (by decide) (by decide)
  revert this
  decide

/-- unsigned division over-approximates the quotients (divisor ≠ 0) -/
def C13.wint_udiv_Statement : Prop :=
  ∀ (w : Nat), 1 ≤ w → w ≤ 64 → ∀ (x y r : WInt), Shape w x → Shape w y → x.udiv y = some r →
    ∀ a b : BitVec w, memBV a x → memBV b y → b ≠ 0 → memBV (a / b) r
theorem C13.wint_udiv_partial (w : Nat) (x y r : WInt)
    (hex : x.isBottom = false ∧ y.isBottom = false ∧ (x.isTop = true ∨ y.isTop = true))
    (h : x.udiv y = some r) (v : BitVec w) : memBV v r := by
  obtain ⟨hx, hy, ht⟩ := hex
  have : x.udiv y = some WInt.top := by
    rcases ht with ht | ht <;> simp [WInt.udiv, hx, hy, ht]
  rw [this] at h
  injection h with h
  subst h
  exact mem_top w _
/-- width 2: `[2,0] /u [2,0]` returns `[0,0]`, but `2 / 2 = 1`
    (`UDiv` cuts its operands at the north pole with `signed_split`; an interval that crosses
    the south pole, where the unsigned order wraps, reaches `unsigned_div` uncut) -/
theorem C13.wint_udiv_counterexample : ¬ C13.wint_udiv_Statement := by
  intro h
  have := h 2 (by decide) (by decide) (W 2 2 0 false) (W 2 2 0 false) (W 2 0 0 false)
    (by decide) (by decide) (by decide) 2#2 2#2 (by decide) (by decide) (by decide)
  revert this
  decide

/-- non-vacuity: intervals crossing the poles with concrete members, and the operations on them -/
example : Shape 8 (W 8 250 3 false) ∧ Shape 8 (W 8 120 130 false) ∧
    memBV 255#8 (W 8 250 3 false) ∧ memBV 2#8 (W 8 250 3 false) ∧ ¬ memBV 4#8 (W 8 250 3 false) ∧
    memBV 128#8 (W 8 120 130 false) ∧
    (W 8 250 3 false).add (W 8 120 130 false) = W 8 114 133 false ∧
    (W 8 250 3 false).join (W 8 120 130 false) = W 8 250 130 false ∧
    (W 8 250 3 false).meet (W 8 0 10 false) = W 8 0 3 false := by decide
