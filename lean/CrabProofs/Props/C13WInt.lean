import CrabProofs.Lemmas.WInterval

/-!
# C13 (part 2) — wrapped intervals over-approximate bit-vector operations

Property theorems only (helper lemmas: `CrabProofs/Lemmas/WInterval.lean`).
`Crab.WInt` is the branch-by-branch model of `crab::domains::wrapped_interval<z_number>`
(`CrabModel/Scalar/WInterval.lean`).

* `Shape w x` : `x` is bottom, or its two end points are reduced wrapints of width `w`
  (this includes every full circle of width `w`, which `is_top()` recognises).
* `mem w v x` : the value `v < 2^w` belongs to `γ(x)`: `x` is not bottom and (`x.isTop`, or walking
  clockwise from `start`, `v` comes no later than `end`:
  `(v - start) mod 2^w ≤ (end - start) mod 2^w`, written with the circular distance `D`).
  `memBV v x` is the same for `v : BitVec w`.

Every statement quantifies over all widths `1 ≤ w ≤ 64`, all intervals of that width (arbitrary
`start`, `end`: crossing the north pole, the south pole, both or none; top; bottom) and all
members.

Proved for all widths: the specification of `at`, soundness of `<=`, `|` (upper bound), `&`
(keeps the common members), the widening `||` (upper bound of both operands), `+`, binary `-`,
unary `-`, `UDiv` (all the way through `unsigned_split`, `trim_zero`, `unsigned_div` and the
three nested loops).
Only tested (sound on everything explored: the complete tables of every operation over every
pair of intervals of width 3 and 4, 1.14 million cases, and random cases at every width
1..64; the model agrees with the code on all of them): `*`, `SDiv`, `Shl/LShr/AShr`,
`ZExt/SExt/Trunc`, `to_interval`, half lines, `trim_interval`, `mk_winterval`.  For `*` only the
trivial case is stated below (`_partial`).

State of the code: after the fixes to `signed_mul` (overflow tests on signed values), `UDiv`
(`unsigned_split`), the widening (third case guarded by `*this <= x`) — before them `*`, `UDiv`
and `||` lost members (`[5,5]*[5,3]` at width 3, `[2,0]/u[2,0]` at width 2, `[53,64] || [61,54]`
at width 7); the examples at the end check the repaired answers.
-/
open Crab Crab.WInt Crab.WrapInt

/-! ## membership -/

/-- circular distance is the modular difference -/
theorem C13.wint_dist_spec (M s v : Nat) (hs : s < M) (hv : v < M) :
    D M s v = (v + M - s) % M := D_eq_mod hs hv

/-- specification of `at` on a non-bottom interval `(start, end)` of width `w`:
    `at(v) ↔ is_top ∨ (v - start) mod 2^w ≤ (end - start) mod 2^w`, and `is_top` is
    `(end - start) mod 2^w = 2^w - 1` -/
theorem C13.wint_at_spec (w : Nat) (hw : w ≤ 64) (s e v : Nat)
    (hs : s < 2 ^ w) (he : e < 2 ^ w) (hv : v < 2 ^ w) :
    ((W w s e false).at ⟨w, v⟩ = true ↔
      ((e + 2 ^ w - s) % 2 ^ w = 2 ^ w - 1 ∨ (v + 2 ^ w - s) % 2 ^ w ≤ (e + 2 ^ w - s) % 2 ^ w)) ∧
    ((W w s e false).isTop = true ↔ (e + 2 ^ w - s) % 2 ^ w = 2 ^ w - 1) := by
  rw [at_W_iff hw hs he hv, isTop_W hw hs he]
  unfold A
  rw [D_eq_mod hs he, D_eq_mod hs hv]
  simp
/-- the same with bit-vectors: `at(v) ↔ end - start = 11…1 ∨ v - start ≤ᵤ end - start` -/
theorem C13.wint_at_spec_bitvec (w : Nat) (hw : w ≤ 64) (S E V : BitVec w) :
    (W w S.toNat E.toNat false).at (ofBV V) = true ↔
      (E - S = BitVec.allOnes w ∨ V - S ≤ E - S) := by
  rw [at_W_iff hw S.isLt E.isLt V.isLt]
  unfold A
  rw [← bv_sub_toNat_D, ← bv_sub_toNat_D, BitVec.le_def, ← BitVec.toNat_inj, BitVec.toNat_allOnes]
/-- `at` decides membership; bottom has no member, top has them all -/
theorem C13.wint_at_iff_mem (w : Nat) (hw : w ≤ 64) (s e v : Nat)
    (hs : s < 2 ^ w) (he : e < 2 ^ w) (hv : v < 2 ^ w) :
    (W w s e false).at ⟨w, v⟩ = true ↔ mem w v (W w s e false) := by
  rw [at_W_iff hw hs he hv, mem_W hw hs he]; rfl
theorem C13.wint_bottom_empty (w v : Nat) (x : WInt) (h : x.isBottom = true) :
    ¬ mem w v x ∧ x.at ⟨w, v⟩ = false := by
  refine ⟨mem_bottom_false h, ?_⟩
  simp [WInt.at, h]
theorem C13.wint_top_full (w v : Nat) : mem w v WInt.top := mem_top w v

/-! ## order and lattice operations -/

/-- a yes answer of `<=` is an inclusion of concretisations -/
theorem C13.wint_leq_sound (w : Nat) (hw : w ≤ 64) (x y : WInt) (hx : Shape w x) (hy : Shape w y)
    (h : x.leq y = true) (v : BitVec w) (hv : memBV v x) : memBV v y :=
  leq_sound hw hx hy v.isLt h hv
/-- `|` is an upper bound of both operands -/
theorem C13.wint_join_upper (w : Nat) (hw : w ≤ 64) (x y : WInt) (hx : Shape w x) (hy : Shape w y)
    (v : BitVec w) (hv : memBV v x ∨ memBV v y) : memBV v (x.join y) :=
  join_upper hw hx hy v.isLt hv
/-- `&` (and `&&`, which calls it) keeps every common member -/
theorem C13.wint_meet_sound (w : Nat) (hw : w ≤ 64) (x y : WInt) (hx : Shape w x) (hy : Shape w y)
    (v : BitVec w) (h1 : memBV v x) (h2 : memBV v y) : memBV v (x.meet y) :=
  meet_sound hw hx hy v.isLt h1 h2

/-! ## arithmetic under wrap-around semantics -/

theorem C13.wint_add_sound (w : Nat) (h1 : 1 ≤ w) (hw : w ≤ 64) (x y : WInt)
    (hx : Shape w x) (hy : Shape w y) (a b : BitVec w) (ha : memBV a x) (hb : memBV b y) :
    memBV (a + b) (x.add y) := by
  obtain ⟨s1, e1, a1, a2, rfl⟩ := shape_cases hx ha.1
  obtain ⟨s2, e2, a3, a4, rfl⟩ := shape_cases hy hb.1
  unfold memBV
  rw [BitVec.toNat_add]
  exact add_W_sound h1 hw a1 a2 a3 a4 a.isLt b.isLt ha hb
theorem C13.wint_sub_sound (w : Nat) (h1 : 1 ≤ w) (hw : w ≤ 64) (x y : WInt)
    (hx : Shape w x) (hy : Shape w y) (a b : BitVec w) (ha : memBV a x) (hb : memBV b y) :
    memBV (a - b) (x.sub y) := by
  obtain ⟨s1, e1, a1, a2, rfl⟩ := shape_cases hx ha.1
  obtain ⟨s2, e2, a3, a4, rfl⟩ := shape_cases hy hb.1
  unfold memBV
  rw [bv_sub_toNat_D]
  exact sub_W_sound h1 hw a1 a2 a3 a4 a.isLt b.isLt ha hb
theorem C13.wint_neg_sound (w : Nat) (hw : w ≤ 64) (x : WInt) (hx : Shape w x)
    (a : BitVec w) (ha : memBV a x) : memBV (-a) x.neg := by
  obtain ⟨s, e, a1, a2, rfl⟩ := shape_cases hx ha.1
  unfold memBV
  rw [bv_neg_toNat_D]
  exact neg_W_sound hw a1 a2 a.isLt ha
/-- bottom operands give bottom, top operands give top -/
theorem C13.wint_arith_bottom_top (x y : WInt) :
    (x.isBottom = true ∨ y.isBottom = true → x.add y = WInt.bottom ∧ x.sub y = WInt.bottom) ∧
    (x.isBottom = false → y.isBottom = false → x.isTop = true ∨ y.isTop = true →
      x.add y = WInt.top ∧ x.sub y = WInt.top) := by
  constructor
  · rintro (h | h) <;> simp [WInt.add, WInt.sub, h]
  · intro hx hy h
    rcases h with h | h <;> simp [WInt.add, WInt.sub, hx, hy, h]

/-! ## widening -/

/-- the widening is an upper bound of both operands -/
theorem C13.wint_widen_upper (w : Nat) (hw : w ≤ 64) (x y : WInt) (hx : Shape w x) (hy : Shape w y)
    (v : BitVec w) (hv : memBV v x ∨ memBV v y) : memBV v (x.widen y) :=
  widen_sound hw hx hy v.isLt hv

/-! ## multiplication (trivial case only, the rest is tested) and unsigned division -/

/-- multiplication over-approximates the products modulo 2^w: not proved in general -/
def C13.wint_mul_Statement : Prop :=
  ∀ (w : Nat), 1 ≤ w → w ≤ 64 → ∀ (x y r : WInt), Shape w x → Shape w y → x.mul y = some r →
    ∀ a b : BitVec w, memBV a x → memBV b y → memBV (a * b) r
/-- it holds when an operand is top (the result is top) -/
theorem C13.wint_mul_partial (w : Nat) (x y r : WInt)
    (hex : x.isBottom = false ∧ y.isBottom = false ∧ (x.isTop = true ∨ y.isTop = true))
    (h : x.mul y = some r) (v : BitVec w) : memBV v r := by
  obtain ⟨hx, hy, ht⟩ := hex
  have : x.mul y = some WInt.top := by
    rcases ht with ht | ht <;> simp [WInt.mul, hx, hy, ht]
  rw [this] at h
  injection h with h
  subst h
  exact mem_top w _

/-- `UDiv` over-approximates the unsigned quotients (divisor ≠ 0; a zero divisor has no
    quotient), whenever it returns a value (`none` = CRAB_ERROR, never observed) -/
theorem C13.wint_udiv_sound (w : Nat) (h1 : 1 ≤ w) (hw : w ≤ 64) (x y r : WInt)
    (hx : Shape w x) (hy : Shape w y) (h : x.udiv y = some r)
    (a b : BitVec w) (ha : memBV a x) (hb : memBV b y) (hb0 : b ≠ 0) : memBV (a / b) r := by
  have hb1 : 1 ≤ b.toNat := by
    rcases Nat.eq_zero_or_pos b.toNat with h0 | h0
    · exact absurd (BitVec.eq_of_toNat_eq (by simpa using h0)) hb0
    · exact h0
  unfold memBV
  rw [BitVec.toNat_udiv]
  exact udiv_sound h1 hw hx hy h a.isLt b.isLt hb1 ha hb

/-- the inputs that used to lose members, on the repaired code -/
example : (W 3 5 5 false).mul (W 3 5 3 false) = some WInt.top ∧
    (W 2 2 0 false).udiv (W 2 2 0 false) = some (W 2 0 1 false) ∧
    ((W 7 53 64 false).widen (W 7 61 54 false)).isTop = true := by decide

/-- non-vacuity: intervals crossing the poles with concrete members, and the operations on them -/
example : Shape 8 (W 8 250 3 false) ∧ Shape 8 (W 8 120 130 false) ∧
    memBV 255#8 (W 8 250 3 false) ∧ memBV 2#8 (W 8 250 3 false) ∧ ¬ memBV 4#8 (W 8 250 3 false) ∧
    memBV 128#8 (W 8 120 130 false) ∧
    (W 8 250 3 false).add (W 8 120 130 false) = W 8 114 133 false ∧
    (W 8 250 3 false).join (W 8 120 130 false) = W 8 250 130 false ∧
    (W 8 250 3 false).meet (W 8 0 10 false) = W 8 0 3 false := by decide
