import CrabProofs.Lemmas.SignCls
import CrabProofs.Lemmas.BoolTable
import CrabProofs.Lemmas.SignItv

/-!
# C08 (finite abstractions) — `sign<z_number>` and `boolean_value`, proved about the extracted tables

`CrabModel/Gen/SignTable.lean` and `BoolTable.lean` are regenerated from the current tree by
every check (`tools/tables.py`, `harness/t_tables.cpp`): they list the answer of the code for
**every** operation on **every** pair of abstract values.  The model of an operation is the
table lookup (`Sign.binop`, `BoolV.binop`, …).  The theorems below are proved from

* a kernel-evaluated check of every entry against a decidable class-level side condition
  (`Sign.entryOk`, `BoolV.entryOk`) — `decide +kernel`, re-run whenever the table changes;
  an entry that stops satisfying it makes this file fail to build;
* the partition lemma `SOp.clsOp_sound` (once and for all): on all integers, the sign class
  of `op a b` is among `SOp.clsOp op (class a) (class b)`.

`Sign.mem k s` : `k ∈ γ(s)` (γ(ltz) = negative numbers, …); `BoolV.mem b v` likewise over `Bool`.
What is claimed per operation is `SOp.clsOp` (CrabModel/Scalar/FinTypes.lean): exact classes for
`+ - * / srem udiv urem shl ashr lshr`; for `and or xor` only "0 is absorbing/neutral".
Concrete operations: `SOp.conc` (`none` = no successor: zero divisor, negative shift amount,
unsigned operation on a negative number).
-/
open Crab

/-! ## sign -/

/-- the table has exactly one entry for each of the 15 × 8 × 8 cases, in canonical order -/
theorem C08.sgn_table_complete : Sign.keysCheck = true := by decide +kernel

/-- every entry (none is a CRAB_ERROR) passes the side condition -/
theorem C08.sgn_table_ok : Sign.tableCheck = true := by decide +kernel

/-- every operation of `sign` over-approximates the concrete one: all operations × all pairs
    of abstract values × all integers -/
theorem C08.sgn_op_sound (op : SOp) (x y res : Sign) (a b r : Int)
    (hl : Sign.binop op x y = some res)
    (ha : Sign.mem a x) (hb : Sign.mem b y) (hc : op.conc a b = some r) : Sign.mem r res := by
  have := List.all_eq_true.mp C08.sgn_table_ok _ (Sign.binop_mem hl)
  exact Sign.entryOk_sound this ha hb hc

/-- `operator|` is an upper bound -/
theorem C08.sgn_join_upper (x y res : Sign) (k : Int) (hl : Sign.binop .join x y = some res)
    (hk : Sign.mem k x ∨ Sign.mem k y) : Sign.mem k res := by
  have := List.all_eq_true.mp C08.sgn_table_ok _ (Sign.binop_mem hl)
  exact Sign.entryOk_join this hk

/-- `operator&` contains the intersection -/
theorem C08.sgn_meet_sound (x y res : Sign) (k : Int) (hl : Sign.binop .meet x y = some res)
    (hx : Sign.mem k x) (hy : Sign.mem k y) : Sign.mem k res := by
  have := List.all_eq_true.mp C08.sgn_table_ok _ (Sign.binop_mem hl)
  exact Sign.entryOk_meet this hx hy

/-- `operator<=` answers exactly the inclusion of concretisations and `operator==` the
    equality, on all 64 pairs -/
theorem C08.sgn_leq_table_exact : Sign.leqCheck = true := by decide +kernel

theorem C08.sgn_leq_eq_incl (x y : Sign) : Sign.leq x y = some (Sign.incl x y) := by
  have h1 := List.all_eq_true.mp C08.sgn_leq_table_exact x (Sign.mem_all x)
  have h2 := List.all_eq_true.mp h1 y (Sign.mem_all y)
  simp only [Bool.and_eq_true, beq_iff_eq] at h2
  exact h2.1

theorem C08.sgn_leq_sound (x y : Sign) (h : Sign.leq x y = some true) (k : Int)
    (hk : Sign.mem k x) : Sign.mem k y := by
  rw [C08.sgn_leq_eq_incl] at h
  simp only [Option.some.injEq] at h
  have := List.all_eq_true.mp h (Cls.of k) (Cls.mem_all _)
  rw [(Sign.mem_iff k x).mp hk] at this
  exact (Sign.mem_iff k y).mpr (by simpa using this)

theorem C08.sgn_leq_refl (x : Sign) : Sign.leq x x = some true := by
  rw [C08.sgn_leq_eq_incl]; cases x <;> decide
theorem C08.sgn_bot_leq (y : Sign) : Sign.leq .bot y = some true := by
  rw [C08.sgn_leq_eq_incl]; cases y <;> decide
theorem C08.sgn_leq_top (x : Sign) : Sign.leq x .top = some true := by
  rw [C08.sgn_leq_eq_incl]; cases x <;> decide

/-- `sign(Number c)` contains `c`; the hand model agrees with the extracted representatives -/
theorem C08.sgn_ofInt_sound (k : Int) : Sign.mem k (Sign.ofInt k) := by
  unfold Sign.ofInt Sign.mem Cls.of
  by_cases h0 : k = 0
  · simp [h0, Sign.has]
  · by_cases h1 : k < 0 <;> simp [h0, h1, Sign.has]
theorem C08.sgn_ofInt_table : Gen.signOfNumTable.all (fun e => Sign.ofInt e.1 == e.2) = true := by
  decide +kernel

/-- `to_interval()` contains the concretisation (checked on the extracted table of the 8 values) -/
theorem C08.sgn_toInterval_table_ok : Sign.toItvCheck = true := by decide +kernel
theorem C08.sgn_toInterval_sound (x : Sign) (i : Itv) (k : Int) (hl : Sign.toInterval x = some i)
    (hk : Sign.mem k x) : Itv.mem k i := by
  have h1 := List.all_eq_true.mp C08.sgn_toInterval_table_ok x (Sign.mem_all x)
  rw [hl] at h1
  have h2 := List.all_eq_true.mp h1 (Cls.of k) (Cls.mem_all _)
  rw [(Sign.mem_iff k x).mp hk] at h2
  exact Sign.clsInItv_sound (by simpa using h2)

/-- `from_interval(i)` (hand model, tied by the differential run) contains every member of `i` -/
theorem C08.sgn_fromInterval_sound (i : Itv) (k : Int) (hk : Itv.mem k i) :
    Sign.mem k (Sign.fromInterval i) := Sign.fromInterval_sound hk

/-! ## boolean_value -/

theorem C08.bool_table_complete : BoolV.keysCheck = true := by decide +kernel
/-- every entry of the 7 × 4 × 4 table (none is a CRAB_ERROR) passes the side condition -/
theorem C08.bool_table_ok : BoolV.tableCheck = true := by decide +kernel

/-- `And`, `Or`, `Xor` over-approximate the boolean operations -/
theorem C08.bool_op_sound (op : BOp) (x y res : BoolV) (a b r : Bool)
    (hl : BoolV.binop op x y = some res) (ha : BoolV.mem a x) (hb : BoolV.mem b y)
    (hc : op.conc a b = some r) : BoolV.mem r res := by
  have := List.all_eq_true.mp C08.bool_table_ok _ (BoolV.binop_mem hl)
  exact BoolV.entryOk_sound this ha hb hc

/-- `operator|` and `operator||` are upper bounds -/
theorem C08.bool_join_upper (op : BOp) (hop : op = .join ∨ op = .widen) (x y res : BoolV) (k : Bool)
    (hl : BoolV.binop op x y = some res) (hk : BoolV.mem k x ∨ BoolV.mem k y) : BoolV.mem k res := by
  have := List.all_eq_true.mp C08.bool_table_ok _ (BoolV.binop_mem hl)
  exact BoolV.entryOk_upper hop this hk

/-- `operator&` and `operator&&` contain the intersection -/
theorem C08.bool_meet_sound (op : BOp) (hop : op = .meet ∨ op = .narrow) (x y res : BoolV) (k : Bool)
    (hl : BoolV.binop op x y = some res) (hx : BoolV.mem k x) (hy : BoolV.mem k y) : BoolV.mem k res := by
  have := List.all_eq_true.mp C08.bool_table_ok _ (BoolV.binop_mem hl)
  exact BoolV.entryOk_lower hop this hx hy

/-- `Negate` over-approximates the negation (and never raises CRAB_ERROR) -/
theorem C08.bool_neg_table_ok : BoolV.negCheck = true := by decide +kernel
theorem C08.bool_neg_sound (x res : BoolV) (a : Bool) (hl : BoolV.neg x = some res)
    (ha : BoolV.mem a x) : BoolV.mem (!a) res := by
  have h1 := List.all_eq_true.mp C08.bool_neg_table_ok x (BoolV.mem_all x)
  rw [hl] at h1
  have h2 := List.all_eq_true.mp h1 a (BoolV.mem_bools a)
  rw [(BoolV.mem_iff a x).mp ha] at h2
  exact (BoolV.mem_iff _ res).mpr (by simpa using h2)

/-- `operator<=` is exactly the inclusion, `operator==` the equality, on all 16 pairs -/
theorem C08.bool_leq_table_exact : BoolV.leqCheck = true := by decide +kernel
theorem C08.bool_leq_eq_incl (x y : BoolV) : BoolV.leq x y = some (BoolV.incl x y) := by
  have h1 := List.all_eq_true.mp C08.bool_leq_table_exact x (BoolV.mem_all x)
  have h2 := List.all_eq_true.mp h1 y (BoolV.mem_all y)
  simp only [Bool.and_eq_true, beq_iff_eq] at h2
  exact h2.1
theorem C08.bool_leq_sound (x y : BoolV) (h : BoolV.leq x y = some true) (k : Bool)
    (hk : BoolV.mem k x) : BoolV.mem k y := by
  rw [C08.bool_leq_eq_incl] at h
  simp only [Option.some.injEq] at h
  have := List.all_eq_true.mp h k (BoolV.mem_bools k)
  rw [(BoolV.mem_iff k x).mp hk] at this
  exact (BoolV.mem_iff k y).mpr (by simpa using this)

/-! ## non-vacuity -/
example : Sign.binop .mul .ltz .lez = some .gez ∧ Sign.mem (-3) .ltz ∧ Sign.mem 0 .lez ∧
    SOp.conc .mul (-3) 0 = some 0 ∧ Sign.binop .div .gtz .gtz = some .gez ∧ SOp.conc .div 1 2 = some 0 := by
  refine ⟨by decide +kernel, by decide, by decide, by decide, by decide +kernel, by decide⟩
example : BoolV.binop .and .tt .top = some .top ∧ BoolV.mem true .tt ∧ BoolV.mem false .top := by
  refine ⟨by decide +kernel, by decide, by decide⟩
