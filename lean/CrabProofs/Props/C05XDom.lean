import CrabProofs.Lemmas.XDomEngineInst
import CrabProofs.Props.C05Chain

/-!
# C05 for `constant_domain`, `sign_domain`, `congruence_domain` — the widening satisfies the
chain condition, and the iterator terminates on them

A widening step `x ∇ y` with `y` not below `x` strictly decreases the measure (bottom flag,
Σ over the bindings of `1 + rank`, Σ over the bindings of the second component of the scalar
measure) lexicographically (`XDom.Env.upper_wmeas_lt`, CrabProofs/Lemmas/XDomWiden.lean).  As for
the interval domain (`C05.idom_strictStep_wf`) no bound on the set of variables is needed: the
widening of `separate_domain` only keeps keys of its left argument and a Patricia tree has
finitely many bindings, so the statement holds for environments over any — in particular every
finite — set of variables.  The values are the environments that satisfy the invariant of
`separate_domain` (`SEnv`, preserved by every operation: `C03.*dom_history_inv`).

Scalar measures: constants — the height (a number 1, top 0); signs — the number of excluded
classes (a check of the extracted join table, `SDom.widenCheck`); congruences — (rank, |modulus|)
(`Cong.widen_wmeas_lt`).
-/
open Crab Crab.XDom Crab.Fix

/-! ### constants -/

/-- the measure decreases on a strict widening step -/
theorem C05.cstdom_widen_measure (x y : CDom.SEnv) (h : CDom.SEnv.leq y x = false) :
    Prod.Lex (· < ·) (Prod.Lex (· < ·) (· < ·))
      (XDom.Env.wmeas CDom.cstMu (CDom.SEnv.widen x y).1) (XDom.Env.wmeas CDom.cstMu x.1) :=
  XDom.Env.upper_wmeas_lt CDom.cstLaws CDom.cstLaws.widen CDom.cstWidenMeasure x.2 y.2 h

/-- **chain condition**: no infinite sequence `x₀, x₁ = x₀ ∇ y₀, x₂ = x₁ ∇ y₁, …` with every
    `yᵢ` not below `xᵢ` -/
theorem C05.cstdom_strictStep_wf : WellFounded (C05.StrictStep CDom.SEnv.leq CDom.SEnv.widen) :=
  C05.strictStep_wf_of_measure CDom.SEnv.leq CDom.SEnv.widen _
    (Prod.lex Nat.lt_wfRel (Prod.lex Nat.lt_wfRel Nat.lt_wfRel)).wf
    (fun x => XDom.Env.wmeas CDom.cstMu x.1) C05.cstdom_widen_measure

/-- the same in the form the fixpoint engine uses (`Fix.WidenStep`) -/
theorem C05.cstdom_widenStep_wf (c : Ctx CDom.SEnv) (hops : c.ops = CDom.SEnv.ops) : WellFounded (WidenStep c) := by
  rw [C05.widenStep_eq, hops]; exact C05.cstdom_strictStep_wf

/-- **the iterator terminates on the constant domain**: for every program of admissible
    statements, every ordering and every parameter setting some fuel suffices -/
theorem C05.cstdom_run_terminates (prog : Nat → List CDom.eng.AStmt) (preds : Nat → List Nat)
    (nesting : Nat → Option (List Nat)) (entry : Nat) (init : CDom.SEnv)
    (assumptions : Option (List (Nat × CDom.SEnv))) (delay descending : Nat) (w : List Comp) :
    ∃ fuel st, run (CDom.eng.mkCtx prog preds nesting entry init assumptions delay descending) fuel w = some st :=
  C05.run_terminates _ w (C05.cstdom_widenStep_wf _ rfl)

/-! ### signs (`operator||` = join) -/

theorem C05.sgndom_widen_measure (x y : SDom.SEnv) (h : SDom.SEnv.leq y x = false) :
    Prod.Lex (· < ·) (Prod.Lex (· < ·) (· < ·))
      (XDom.Env.wmeas SDom.signMu (SDom.SEnv.widen x y).1) (XDom.Env.wmeas SDom.signMu x.1) :=
  XDom.Env.upper_wmeas_lt SDom.signLaws SDom.signLaws.join SDom.signWidenMeasure x.2 y.2 h

theorem C05.sgndom_strictStep_wf : WellFounded (C05.StrictStep SDom.SEnv.leq SDom.SEnv.widen) :=
  C05.strictStep_wf_of_measure SDom.SEnv.leq SDom.SEnv.widen _
    (Prod.lex Nat.lt_wfRel (Prod.lex Nat.lt_wfRel Nat.lt_wfRel)).wf
    (fun x => XDom.Env.wmeas SDom.signMu x.1) C05.sgndom_widen_measure

theorem C05.sgndom_widenStep_wf (c : Ctx SDom.SEnv) (hops : c.ops = SDom.SEnv.ops) : WellFounded (WidenStep c) := by
  rw [C05.widenStep_eq, hops]; exact C05.sgndom_strictStep_wf

/-- **the iterator terminates on the sign domain** -/
theorem C05.sgndom_run_terminates (prog : Nat → List SDom.eng.AStmt) (preds : Nat → List Nat)
    (nesting : Nat → Option (List Nat)) (entry : Nat) (init : SDom.SEnv)
    (assumptions : Option (List (Nat × SDom.SEnv))) (delay descending : Nat) (w : List Comp) :
    ∃ fuel st, run (SDom.eng.mkCtx prog preds nesting entry init assumptions delay descending) fuel w = some st :=
  C05.run_terminates _ w (C05.sgndom_widenStep_wf _ rfl)

/-! ### congruences (`operator||` of the values = join, "domain is flat") -/

theorem C05.congdom_widen_measure (x y : GDom.SEnv) (h : GDom.SEnv.leq y x = false) :
    Prod.Lex (· < ·) (Prod.Lex (· < ·) (· < ·))
      (XDom.Env.wmeas Cong.wmeas (GDom.SEnv.widen x y).1) (XDom.Env.wmeas Cong.wmeas x.1) :=
  XDom.Env.upper_wmeas_lt GDom.congLaws GDom.congLaws.widen GDom.congWidenMeasure x.2 y.2 h

theorem C05.congdom_strictStep_wf : WellFounded (C05.StrictStep GDom.SEnv.leq GDom.SEnv.widen) :=
  C05.strictStep_wf_of_measure GDom.SEnv.leq GDom.SEnv.widen _
    (Prod.lex Nat.lt_wfRel (Prod.lex Nat.lt_wfRel Nat.lt_wfRel)).wf
    (fun x => XDom.Env.wmeas Cong.wmeas x.1) C05.congdom_widen_measure

theorem C05.congdom_widenStep_wf (c : Ctx GDom.SEnv) (hops : c.ops = GDom.SEnv.ops) : WellFounded (WidenStep c) := by
  rw [C05.widenStep_eq, hops]; exact C05.congdom_strictStep_wf

/-- **the iterator terminates on the congruence domain** -/
theorem C05.congdom_run_terminates (prog : Nat → List GDom.eng.AStmt) (preds : Nat → List Nat)
    (nesting : Nat → Option (List Nat)) (entry : Nat) (init : GDom.SEnv)
    (assumptions : Option (List (Nat × GDom.SEnv))) (delay descending : Nat) (w : List Comp) :
    ∃ fuel st, run (GDom.eng.mkCtx prog preds nesting entry init assumptions delay descending) fuel w = some st :=
  C05.run_terminates _ w (C05.congdom_widenStep_wf _ rfl)

/-! ### non-vacuity: strict steps exist and lower the measure -/

example : XDom.Env.leq CDom.cstLattice (CDom.Env.top.set 0 (.val 2)) (CDom.Env.top.set 0 (.val 1)) = false ∧
    XDom.Env.wmeas CDom.cstMu (CDom.Env.top.set 0 (.val 1)) = (0, 2, 0) ∧
    XDom.Env.wmeas CDom.cstMu (XDom.Env.widen CDom.cstLattice (CDom.Env.top.set 0 (.val 1)) (CDom.Env.top.set 0 (.val 2))) = (0, 0, 0) := by
  decide +kernel

example : XDom.Env.leq GDom.congLattice (GDom.Env.top.set 0 (Cong.ofInt 7)) (GDom.Env.top.set 0 (Cong.ofInt 3)) = false ∧
    XDom.Env.wmeas Cong.wmeas (GDom.Env.top.set 0 (Cong.ofInt 3)) = (0, 2, 0) ∧
    XDom.Env.wmeas Cong.wmeas (XDom.Env.widen GDom.congLattice (GDom.Env.top.set 0 (Cong.ofInt 3)) (GDom.Env.top.set 0 (Cong.ofInt 7))) = (0, 1, 4) := by
  decide +kernel
