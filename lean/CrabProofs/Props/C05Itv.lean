import CrabProofs.Lemmas.IDomInst
import CrabProofs.Props.C05

/-!
# C05 for `interval_domain<z_number>` — the widening satisfies the chain condition

A widening step `x ∇ y` with `y` not below `x` strictly decreases the measure
(bottom flag, number of bindings + number of finite bounds) lexicographically.  Widening only
keeps keys of its left argument (keys bound on one side only are dropped), so the statement holds
for environments over any set of variables, in particular every finite one.
-/
open Crab Crab.IDom Crab.Fix

/-- the measure decreases on a strict widening step -/
theorem C05.idom_widen_measure (x y : Env) (h : Env.leq y x = false) :
    Prod.Lex (· < ·) (· < ·) (Env.wmeas (Env.widen x y)) (Env.wmeas x) := Env.widen_wmeas_lt h

/-- **chain condition**: no infinite sequence `x₀, x₁ = x₀ ∇ y₀, x₂ = x₁ ∇ y₁, …` with every
    `yᵢ` not below `xᵢ` -/
theorem C05.idom_widen_wf : WellFounded (fun x' x : Env => ∃ y, Env.leq y x = false ∧ x' = Env.widen x y) :=
  Env.widen_wf

/-- the same in the form the fixpoint engine uses (`Fix.WidenStep`) -/
theorem C05.idom_widenStep_wf (c : Ctx SEnv) (hops : c.ops = SEnv.ops) : WellFounded (WidenStep c) :=
  widenStep_wf c hops

/-- **the iterator terminates on the interval domain**: for every program of statements, every
    ordering and every parameter setting some fuel suffices -/
theorem C05.idom_run_terminates (prog : Nat → List Stmt) (preds : Nat → List Nat)
    (nesting : Nat → Option (List Nat)) (entry : Nat) (init : SEnv)
    (assumptions : Option (List (Nat × SEnv))) (delay descending : Nat) (w : List Comp) :
    ∃ fuel st, run (mkCtx prog preds nesting entry init assumptions delay descending) fuel w = some st :=
  C05.run_terminates _ w (widenStep_wf _ rfl)

/-- non-vacuity: a strict step exists and lowers the measure -/
example : Env.leq (Env.top.set 0 ⟨.fin 0, .fin 9⟩) (Env.top.set 0 ⟨.fin 0, .fin 5⟩) = false ∧
    Env.widen (Env.top.set 0 ⟨.fin 0, .fin 5⟩) (Env.top.set 0 ⟨.fin 0, .fin 9⟩) = Env.top.set 0 ⟨.fin 0, .pinf⟩ := by
  decide
