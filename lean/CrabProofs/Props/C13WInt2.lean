import CrabProofs.Lemmas.WIntExtra10
import CrabProofs.Props.C13WInt

/-!
# C13 (part 3) — wrapped intervals: the remaining operations, at full strength

Property theorems only (helper lemmas: `CrabProofs/Lemmas/WIntExtra1.lean` … `WIntExtra10.lean`).
`Crab.WInt` is the branch-by-branch model of `crab::domains::wrapped_interval<z_number>`
(`CrabModel/Scalar/WInterval.lean`), `Shape`, `memBV` are those of `C13WInt.lean`.

Every statement quantifies over all widths `1 ≤ w ≤ 64`, all intervals of that width (top, bottom,
crossing one pole, both or none) and all members, given as bit-vectors; the concrete operation is
the one of `BitVec w`.  `none` = CRAB_ERROR (the statements are about the answers).

* splits: `signed_split` (cut at the north pole), `unsigned_split` (south pole),
  `signed_and_unsigned_split`: the pieces do not cross the pole(s) and every member is in a piece;
* casts: `Trunc`, `ZExt`, `SExt`;
* shifts: `Shl`, `LShr`, `AShr` by a constant and by an interval;
* `URem`, `SRem`, `And`, `Or`, `Xor` (`default_implementation`: top unless an operand is bottom);
* `SDiv` (divisor ≠ 0; `MIN / -1` wraps to `MIN` as `BitVec.sdiv` does);
* `operator*` at full strength: `C13.wint_mul_Statement` of `C13WInt.lean` holds;
* `lower_half_line` / `upper_half_line`, signed and unsigned;
* `to_interval`, `trim_interval`, `mk_winterval(n, w)`;
* `mk_winterval(lb, ub, w)`: sound only when `lb ≤ ub` and `ub - lb < 2^w`.  The code builds
  `[lb mod 2^w, ub mod 2^w]` whatever the distance between the bounds, so a range wider than the
  circle loses members (`mk_winterval(0, 9, 3) = [0, 1]` has lost 2 … 7):
  `C13.wint_ofZ2_sound`.

Not covered: `widening_thresholds` (not in the model: it needs the thresholds object).

The private functions `LShr(uint64_t k)` / `AShr(uint64_t k)` build `wrapint(k, b)`, which reduces
`k` modulo `2^b`: they are only sound for `k < 2^b` (see `C13.wint_lshrK_needs_small_amount`).
Their only callers, `LShr/AShr(const wrapped_interval&)`, pass the value of a `b`-bit singleton, so
the public operations are sound for every amount.
-/
open Crab Crab.WInt Crab.WrapInt

/-! ## the splits -/

/-- `signed_split`: each piece `[a, b]` has `a ≤ₛ b` and is a part of `x`; every member of `x`
    lies in a piece, between its end points in the signed order -/
theorem C13.wint_ssplit_cover (w : Nat) (h1 : 1 ≤ w) (hw : w ≤ 64) (x : WInt) (hx : Shape w x)
    (l : List WInt) (h : x.signedSplit? = some l) :
    (∀ p ∈ l, ∃ a b : BitVec w, p = W w a.toNat b.toNat false ∧ a.sle b = true ∧
      ∀ v : BitVec w, a.sle v = true → v.sle b = true → memBV v x) ∧
    (∀ v : BitVec w, memBV v x → ∃ a b : BitVec w, W w a.toNat b.toNat false ∈ l ∧
      a.sle v = true ∧ v.sle b = true) := by
  cases hb : x.isBottom
  · obtain ⟨s, e, hs, he, rfl⟩ := shape_cases hx hb
    obtain ⟨pieces, cover⟩ := ssplit_cover h1 hw hs he h
    constructor
    · intro p hp
      obtain ⟨a, b, rfl, ha, hb', hab, hin⟩ := pieces p hp
      refine ⟨BitVec.ofNatLT a ha, BitVec.ofNatLT b hb', rfl, ?_, ?_⟩
      · rw [BitVec.sle_iff_toInt_le, ← sg_toInt, ← sg_toInt]; exact hab
      · intro v h1' h2'
        rw [BitVec.sle_iff_toInt_le, ← sg_toInt, ← sg_toInt] at h1' h2'
        exact hin v.toNat v.isLt h1' h2'
    · intro v hv
      obtain ⟨a, b, hmem, h1', h2'⟩ := cover v.toNat v.isLt hv
      obtain ⟨_, _, e1, ha, hb', _, _⟩ := pieces _ hmem
      obtain ⟨rfl, rfl⟩ := W_inj e1
      refine ⟨BitVec.ofNatLT _ ha, BitVec.ofNatLT _ hb', hmem, ?_, ?_⟩
      · rw [BitVec.sle_iff_toInt_le, ← sg_toInt, ← sg_toInt]; exact h1'
      · rw [BitVec.sle_iff_toInt_le, ← sg_toInt, ← sg_toInt]; exact h2'
  · have : l = [] := by simpa [signedSplit?, hb] using h.symm
    subst this
    exact ⟨fun p hp => (by cases hp), fun v hv => absurd hv (mem_bottom_false hb)⟩

/-- `unsigned_split`: each piece `[a, b]` has `a ≤ᵤ b` and is a part of `x`; every member of `x`
    lies in a piece -/
theorem C13.wint_usplit_cover (w : Nat) (h1 : 1 ≤ w) (hw : w ≤ 64) (x : WInt) (hx : Shape w x)
    (l : List WInt) (h : x.unsignedSplit? = some l) :
    (∀ p ∈ l, ∃ a b : BitVec w, p = W w a.toNat b.toNat false ∧ a ≤ b ∧
      ∀ v : BitVec w, a ≤ v → v ≤ b → memBV v x) ∧
    (∀ v : BitVec w, memBV v x → ∃ a b : BitVec w, W w a.toNat b.toNat false ∈ l ∧ a ≤ v ∧ v ≤ b) := by
  cases hb : x.isBottom
  · obtain ⟨s, e, hs, he, rfl⟩ := shape_cases hx hb
    obtain ⟨pieces, cover⟩ := usplit_cover h1 hw hs he h
    constructor
    · intro p hp
      obtain ⟨a, b, rfl, hab, hb', hin⟩ := pieces p hp
      refine ⟨BitVec.ofNatLT a (by omega), BitVec.ofNatLT b hb', rfl, ?_, ?_⟩
      · rw [BitVec.le_def]; exact hab
      · intro v h1' h2'
        rw [BitVec.le_def] at h1' h2'
        exact hin v.toNat h1' h2'
    · intro v hv
      obtain ⟨a, b, hmem, h1', h2'⟩ := cover v.toNat v.isLt hv
      obtain ⟨_, _, e1, hab, hb', _⟩ := pieces _ hmem
      obtain ⟨rfl, rfl⟩ := W_inj e1
      refine ⟨BitVec.ofNatLT _ (by omega : a < 2 ^ w), BitVec.ofNatLT _ hb', hmem, ?_, ?_⟩
      · rw [BitVec.le_def]; exact h1'
      · rw [BitVec.le_def]; exact h2'
  · have : l = [] := by simpa [unsignedSplit?, hb] using h.symm
    subst this
    exact ⟨fun p hp => (by cases hp), fun v hv => absurd hv (mem_bottom_false hb)⟩

/-- `signed_and_unsigned_split`: each piece `[a, b]` has `a ≤ᵤ b` and both end points in the same
    hemisphere (same sign bit); every member of `x` lies in a piece -/
theorem C13.wint_cut_cover (w : Nat) (h1 : 1 ≤ w) (hw : w ≤ 64) (x : WInt) (hx : Shape w x)
    (l : List WInt) (h : x.cut? = some l) :
    (∀ p ∈ l, ∃ a b : BitVec w, p = W w a.toNat b.toNat false ∧ a ≤ b ∧ a.msb = b.msb) ∧
    (∀ v : BitVec w, memBV v x → ∃ a b : BitVec w, W w a.toNat b.toNat false ∈ l ∧ a ≤ v ∧ v ≤ b) := by
  cases hb : x.isBottom
  · obtain ⟨s, e, hs, he, rfl⟩ := shape_cases hx hb
    obtain ⟨pieces, cover⟩ := cut_spec h1 hw hs he h
    constructor
    · intro p hp
      obtain ⟨a, b, rfl, hab, hb', hh⟩ := pieces p hp
      refine ⟨BitVec.ofNatLT a (by omega), BitVec.ofNatLT b hb', rfl, ?_, ?_⟩
      · rw [BitVec.le_def]; exact hab
      · rw [BitVec.msb_eq_decide, BitVec.msb_eq_decide, BitVec.toNat_ofNatLT, BitVec.toNat_ofNatLT]
        rcases hh with hh | hh
        · have c1 : ¬ 2 ^ (w - 1) ≤ a := by omega
          have c2 : ¬ 2 ^ (w - 1) ≤ b := by omega
          simp [c1, c2]
        · have c1 : 2 ^ (w - 1) ≤ a := hh
          have c2 : 2 ^ (w - 1) ≤ b := by omega
          simp [c1, c2]
    · intro v hv
      obtain ⟨a, b, hmem, h1', h2'⟩ := cover v.toNat v.isLt hv
      obtain ⟨_, _, e1, hab, hb', _⟩ := pieces _ hmem
      obtain ⟨rfl, rfl⟩ := W_inj e1
      refine ⟨BitVec.ofNatLT _ (by omega : a < 2 ^ w), BitVec.ofNatLT _ hb', hmem, ?_, ?_⟩
      · rw [BitVec.le_def]; exact h1'
      · rw [BitVec.le_def]; exact h2'
  · have : l = [] := by
      have h' : x.cut? = some [] := by simp [cut?, signedSplit?, hb]
      rw [h'] at h; injection h with h; exact h.symm
    subst this
    exact ⟨fun p hp => (by cases hp), fun v hv => absurd hv (mem_bottom_false hb)⟩

/-! ## casts -/

/-- `Trunc(k)`, `k ≤ w`: the low `k` bits of every member -/
theorem C13.wint_trunc_sound (w k : Nat) (h1 : 1 ≤ w) (hw : w ≤ 64) (hk : k ≤ w) (x r : WInt)
    (hx : Shape w x) (h : x.trunc k = some r) (a : BitVec w) (ha : memBV a x) :
    memBV (a.setWidth k) r := by
  unfold memBV
  rw [BitVec.toNat_setWidth]
  exact trunc_sound h1 hw hk hx h a.isLt ha

/-- `ZExt(k)`: the zero extension of every member to `w + k` bits -/
theorem C13.wint_zext_sound (w k : Nat) (h1 : 1 ≤ w) (hw : w ≤ 64) (x r : WInt)
    (hx : Shape w x) (h : x.zext k = some r) (a : BitVec w) (ha : memBV a x) :
    memBV (a.setWidth (w + k)) r := by
  unfold memBV
  rw [BitVec.toNat_setWidth, Nat.mod_eq_of_lt
    (Nat.lt_of_lt_of_le a.isLt (Nat.pow_le_pow_right (by decide) (by omega)))]
  exact zext_sound h1 hw hx h a.isLt ha

/-- `SExt(k)`: the sign extension of every member to `w + k` bits -/
theorem C13.wint_sext_sound (w k : Nat) (h1 : 1 ≤ w) (hw : w ≤ 64) (x r : WInt)
    (hx : Shape w x) (h : x.sext k = some r) (a : BitVec w) (ha : memBV a x) :
    memBV (a.signExtend (w + k)) r := by
  unfold memBV
  rw [sextN_bv]
  exact sext_sound h1 hw hx h a.isLt ha

/-! ## shifts -/

/-- `Shl(uint64_t k)`, every `k` -/
theorem C13.wint_shl_const_sound (w k : Nat) (h1 : 1 ≤ w) (hw : w ≤ 64) (x r : WInt)
    (hx : Shape w x) (h : x.shlK k = some r) (a : BitVec w) (ha : memBV a x) :
    memBV (a <<< k) r := by
  unfold memBV
  rw [BitVec.toNat_shiftLeft, Nat.shiftLeft_eq]
  exact shlK_sound h1 hw hx h a.isLt ha

/-- `Shl(const wrapped_interval&)` -/
theorem C13.wint_shl_sound (w : Nat) (h1 : 1 ≤ w) (hw : w ≤ 64) (x y r : WInt)
    (hx : Shape w x) (hy : Shape w y) (h : x.shl y = some r) (a b : BitVec w)
    (ha : memBV a x) (hb : memBV b y) : memBV (a <<< b) r := by
  unfold memBV
  rw [BitVec.shiftLeft_eq', BitVec.toNat_shiftLeft, Nat.shiftLeft_eq]
  exact shl_sound h1 hw hx hy h a.isLt b.isLt ha hb

/-- `LShr(uint64_t k)` for an amount that `wrapint(k, w)` does not reduce -/
theorem C13.wint_lshr_const_sound (w k : Nat) (h1 : 1 ≤ w) (hw : w ≤ 64) (hk : k < 2 ^ w) (x r : WInt)
    (hx : Shape w x) (h : x.lshrK k = some r) (a : BitVec w) (ha : memBV a x) :
    memBV (a >>> k) r := by
  unfold memBV
  rw [BitVec.toNat_ushiftRight, Nat.shiftRight_eq_div_pow]
  exact lshrK_sound h1 hw hk hx h a.isLt ha

/-- the side condition is needed: `wrapint(4, 2)` is the amount 0 -/
theorem C13.wint_lshrK_needs_small_amount :
    (W 2 1 2 false).lshrK 4 = some (W 2 1 2 false) ∧ memBV 1#2 (W 2 1 2 false) ∧
      ¬ memBV (1#2 >>> 4) (W 2 1 2 false) := by decide

/-- `LShr(const wrapped_interval&)` -/
theorem C13.wint_lshr_sound (w : Nat) (h1 : 1 ≤ w) (hw : w ≤ 64) (x y r : WInt)
    (hx : Shape w x) (hy : Shape w y) (h : x.lshr y = some r) (a b : BitVec w)
    (ha : memBV a x) (hb : memBV b y) : memBV (a >>> b) r := by
  unfold memBV
  rw [BitVec.ushiftRight_eq', BitVec.toNat_ushiftRight, Nat.shiftRight_eq_div_pow]
  exact lshr_sound h1 hw hx hy h a.isLt b.isLt ha hb

/-- `AShr(uint64_t k)` for an amount that `wrapint(k, w)` does not reduce -/
theorem C13.wint_ashr_const_sound (w k : Nat) (h1 : 1 ≤ w) (hw : w ≤ 64) (hk : k < 2 ^ w) (x r : WInt)
    (hx : Shape w x) (h : x.ashrK k = some r) (a : BitVec w) (ha : memBV a x) :
    memBV (a.sshiftRight k) r := by
  unfold memBV
  rw [ashrN_bv]
  exact ashrK_sound h1 hw hk hx h a.isLt ha

/-- `AShr(const wrapped_interval&)` -/
theorem C13.wint_ashr_sound (w : Nat) (h1 : 1 ≤ w) (hw : w ≤ 64) (x y r : WInt)
    (hx : Shape w x) (hy : Shape w y) (h : x.ashr y = some r) (a b : BitVec w)
    (ha : memBV a x) (hb : memBV b y) : memBV (a.sshiftRight' b) r := by
  unfold memBV
  rw [BitVec.sshiftRight_eq', ashrN_bv]
  exact ashr_sound h1 hw hx hy h a.isLt b.isLt ha hb

/-! ## `URem`, `SRem`, `And`, `Or`, `Xor`: `default_implementation` -/

/-- `default_implementation` is top as soon as both operands have a member -/
theorem C13.wint_default_sound (w : Nat) (x y : WInt) (a b v : BitVec w)
    (ha : memBV a x) (hb : memBV b y) : memBV v (x.defaultImpl y) := by
  have : x.defaultImpl y = WInt.top := by simp [defaultImpl, ha.1, hb.1]
  rw [this]; exact mem_top _ _
theorem C13.wint_urem_sound (w : Nat) (x y : WInt) (a b : BitVec w) (ha : memBV a x) (hb : memBV b y) :
    memBV (a % b) (x.defaultImpl y) := C13.wint_default_sound w x y a b _ ha hb
theorem C13.wint_srem_sound (w : Nat) (x y : WInt) (a b : BitVec w) (ha : memBV a x) (hb : memBV b y) :
    memBV (a.srem b) (x.defaultImpl y) := C13.wint_default_sound w x y a b _ ha hb
theorem C13.wint_and_sound (w : Nat) (x y : WInt) (a b : BitVec w) (ha : memBV a x) (hb : memBV b y) :
    memBV (a &&& b) (x.defaultImpl y) := C13.wint_default_sound w x y a b _ ha hb
theorem C13.wint_or_sound (w : Nat) (x y : WInt) (a b : BitVec w) (ha : memBV a x) (hb : memBV b y) :
    memBV (a ||| b) (x.defaultImpl y) := C13.wint_default_sound w x y a b _ ha hb
theorem C13.wint_xor_sound (w : Nat) (x y : WInt) (a b : BitVec w) (ha : memBV a x) (hb : memBV b y) :
    memBV (a ^^^ b) (x.defaultImpl y) := C13.wint_default_sound w x y a b _ ha hb

/-! ## signed division and multiplication -/

/-- `SDiv` over-approximates the signed quotients (divisor ≠ 0) -/
theorem C13.wint_sdiv_sound (w : Nat) (h1 : 1 ≤ w) (hw : w ≤ 64) (x y r : WInt)
    (hx : Shape w x) (hy : Shape w y) (h : x.sdiv y = some r)
    (a b : BitVec w) (ha : memBV a x) (hb : memBV b y) (hb0 : b ≠ 0) : memBV (a.sdiv b) r := by
  have hb1 : 1 ≤ b.toNat := by
    rcases Nat.eq_zero_or_pos b.toNat with h0 | h0
    · exact absurd (BitVec.eq_of_toNat_eq (by simpa using h0)) hb0
    · exact h0
  unfold memBV
  rw [sdivN_bv]
  exact sdiv_sound h1 hw hx hy h a.isLt b.isLt hb1 ha hb

/-- `operator*` over-approximates the products modulo `2^w`: the statement left open in
    `C13WInt.lean` -/
theorem C13.wint_mul_sound : C13.wint_mul_Statement := by
  intro w h1 hw x y r hx hy h a b ha hb
  unfold memBV
  rw [BitVec.toNat_mul]
  exact mul_sound h1 hw hx hy h a.isLt b.isLt ha hb

/-- `unsigned_mul` and `signed_mul` on pieces of `signed_and_unsigned_split` (`a ≤ᵤ b`, `c ≤ᵤ d`,
    each with its end points in one hemisphere) -/
theorem C13.wint_piece_mul_sound (w : Nat) (h1 : 1 ≤ w) (hw : w ≤ 64) (a b c d u v : BitVec w)
    (hab : a ≤ b) (hcd : c ≤ d) (m1 : a.msb = b.msb) (m2 : c.msb = d.msb)
    (hau : a ≤ u) (hub : u ≤ b) (hcv : c ≤ v) (hvd : v ≤ d) :
    memBV (u * v) (unsignedMul (W w a.toNat b.toNat false) (W w c.toNat d.toNat false)) ∧
    memBV (u * v) (signedMul (W w a.toNat b.toNat false) (W w c.toNat d.toNat false)) := by
  rw [BitVec.le_def] at hab hcd hau hub hcv hvd
  have hemi : ∀ p q : BitVec w, p.toNat ≤ q.toNat → p.msb = q.msb → Hemi w p.toNat q.toNat := by
    intro p q hpq hm
    refine ⟨hpq, q.isLt, ?_⟩
    rw [BitVec.msb_eq_decide, BitVec.msb_eq_decide] at hm
    by_cases c1 : 2 ^ (w - 1) ≤ p.toNat
    · exact Or.inr c1
    · left
      have : ¬ 2 ^ (w - 1) ≤ q.toNat := by
        intro c2; simp [c1, c2] at hm
      omega
  unfold memBV
  rw [BitVec.toNat_mul]
  exact ⟨unsignedMul_sound hw hau hub hcv hvd,
    signedMul_sound h1 hw (hemi a b hab m1) (hemi c d hcd m2) hau hub hcv hvd⟩

/-! ## half lines -/

/-- `lower_half_line(is_signed = true)` contains everything `≤ₛ` a member -/
theorem C13.wint_lower_half_line_signed (w : Nat) (h1 : 1 ≤ w) (hw : w ≤ 64) (x : WInt) (hx : Shape w x)
    (a v : BitVec w) (ha : memBV a x) (hle : v.sle a = true) : memBV v (x.lowerHalfLine true) := by
  rw [BitVec.sle_iff_toInt_le, ← sg_toInt, ← sg_toInt] at hle
  exact lowerHalfLine_signed_sound h1 hw hx a.isLt v.isLt ha hle
/-- `lower_half_line(is_signed = false)` contains everything `≤ᵤ` a member -/
theorem C13.wint_lower_half_line_unsigned (w : Nat) (h1 : 1 ≤ w) (hw : w ≤ 64) (x : WInt)
    (hx : Shape w x) (a v : BitVec w) (ha : memBV a x) (hle : v ≤ a) :
    memBV v (x.lowerHalfLine false) := by
  rw [BitVec.le_def] at hle
  exact lowerHalfLine_unsigned_sound h1 hw hx a.isLt ha hle
/-- `upper_half_line(is_signed = true)` contains everything `≥ₛ` a member -/
theorem C13.wint_upper_half_line_signed (w : Nat) (h1 : 1 ≤ w) (hw : w ≤ 64) (x : WInt) (hx : Shape w x)
    (a v : BitVec w) (ha : memBV a x) (hle : a.sle v = true) : memBV v (x.upperHalfLine true) := by
  rw [BitVec.sle_iff_toInt_le, ← sg_toInt, ← sg_toInt] at hle
  exact upperHalfLine_signed_sound h1 hw hx a.isLt v.isLt ha hle
/-- `upper_half_line(is_signed = false)` contains everything `≥ᵤ` a member -/
theorem C13.wint_upper_half_line_unsigned (w : Nat) (h1 : 1 ≤ w) (hw : w ≤ 64) (x : WInt)
    (hx : Shape w x) (a v : BitVec w) (ha : memBV a x) (hle : a ≤ v) :
    memBV v (x.upperHalfLine false) := by
  rw [BitVec.le_def] at hle
  exact upperHalfLine_unsigned_sound h1 hw hx a.isLt v.isLt ha hle

/-! ## conversions: `mk_winterval`, `to_interval`, `trim_interval` -/

/-- `mk_winterval(n, w)` contains `n mod 2^w` -/
theorem C13.wint_ofZ_sound (w : Nat) (h1 : 1 ≤ w) (hw : w ≤ 64) (z : Int) (r : WInt)
    (h : WInt.ofZ z w = some r) : memBV (BitVec.ofInt w z) r := by
  unfold memBV
  rw [BitVec.toNat_ofInt]
  exact ofZ_sound h1 hw h

/-- `mk_winterval(lb, ub, w)` contains `z mod 2^w` for every `lb ≤ z ≤ ub`.  (On the pinned tree
    this was FALSE when the range is wider than the circle: `mk_winterval(0, 9, 3) = [0, 1]₃` does
    not contain `5`; repaired in /repo by the commit "fix: mk_winterval(lb, ub, w) wraps a range
    wider than the circle"; the model follows the repaired code.) -/
def C13.wint_ofZ2_Statement : Prop :=
  ∀ (w : Nat), 1 ≤ w → w ≤ 64 → ∀ (lb ub z : Int) (r : WInt), WInt.ofZ2 lb ub w = some r →
    lb ≤ z → z ≤ ub → memBV (BitVec.ofInt w z) r
theorem C13.wint_ofZ2_sound : C13.wint_ofZ2_Statement := by
  intro w h1 hw lb ub z r h hl hu
  unfold memBV
  rw [BitVec.toNat_ofInt]
  exact ofZ2_sound h1 hw h hl hu
/-- the range `[0, 9]` at width 3 is the whole circle -/
example : WInt.ofZ2 0 9 3 = some WInt.top ∧ WInt.ofZ2 0 6 3 = some (W 3 0 6 false) := by decide

/-- `to_interval()` contains the signed value of every member -/
theorem C13.wint_toInterval_sound (w : Nat) (h1 : 1 ≤ w) (hw : w ≤ 64) (x : WInt) (hx : Shape w x)
    (i : Itv) (h : x.toInterval = some i) (a : BitVec w) (ha : memBV a x) : Itv.mem a.toInt i := by
  rw [← sg_toInt]
  exact toInterval_sound h1 hw hx h a.isLt ha

/-- `trim_interval(i, j)` keeps every member of `i` that is not a member of `j` (only a singleton
    `j` at an end point of `i` removes anything) -/
theorem C13.wint_trim_sound (w : Nat) (h1 : 1 ≤ w) (hw : w ≤ 64) (i j : WInt) (hi : Shape w i)
    (hj : Shape w j) (a : BitVec w) (ha : memBV a i) (hne : ∀ b : BitVec w, memBV b j → a ≠ b) :
    memBV a (trim i j) := by
  refine trim_sound h1 hw hi hj a.isLt ha ?_
  intro b hb hmb hab
  exact hne (BitVec.ofNatLT b hb) (by unfold memBV; simpa using hmb)
    (BitVec.eq_of_toNat_eq (by simpa using hab))

/-! ## non-vacuity: every operation answers on intervals that cross the poles, with members -/

example : Shape 8 (W 8 250 3 false) ∧ Shape 8 (W 8 120 130 false) ∧ Shape 8 (W 8 3 3 false) ∧
    memBV 255#8 (W 8 250 3 false) ∧ memBV 128#8 (W 8 120 130 false) ∧ memBV 3#8 (W 8 3 3 false) ∧
    (W 8 120 130 false).signedSplit? = some [W 8 120 127 false, W 8 128 130 false] ∧
    (W 8 250 3 false).unsignedSplit? = some [W 8 250 255 false, W 8 0 3 false] ∧
    (W 8 120 3 false).cut? = some [W 8 120 127 false, W 8 128 255 false, W 8 0 3 false] := by decide

example : (W 8 250 3 false).trunc 4 = some (W 4 10 3 false) ∧
    (W 8 250 3 false).zext 8 = some (W 16 0 255 false) ∧
    (W 8 250 3 false).sext 8 = some (W 16 65530 3 false) ∧
    (W 8 250 3 false).shl (W 8 3 3 false) = some (W 8 208 24 false) ∧
    (W 8 120 130 false).lshr (W 8 3 3 false) = some (W 8 15 16 false) ∧
    (W 8 250 3 false).ashr (W 8 3 3 false) = some (W 8 255 0 false) := by decide

example : (W 8 250 3 false).mul (W 8 2 3 false) = some (W 8 238 9 false) ∧
    memBV (255#8 * 3#8) (W 8 238 9 false) ∧
    (W 8 250 3 false).sdiv (W 8 254 3 false) = some (W 8 250 6 false) ∧
    memBV ((250#8).sdiv 255#8) (W 8 250 6 false) ∧
    (W 8 3 10 false).lowerHalfLine true = W 8 128 10 false ∧
    (W 8 3 10 false).upperHalfLine false = W 8 3 255 false := by decide

example : WInt.ofZ (-3) 8 = some (W 8 253 253 false) ∧ WInt.ofZ2 (-3) 4 8 = some (W 8 253 4 false) ∧
    (W 8 120 130 false).toInterval = some Itv.top ∧
    (W 8 250 255 false).toInterval = some ⟨.fin (-6), .fin (-1)⟩ ∧
    trim (W 8 250 3 false) (W 8 250 250 false) = W 8 251 3 false ∧
    trim (W 8 250 3 false) (W 8 3 3 false) = W 8 250 2 false := by decide
